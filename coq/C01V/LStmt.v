(* LStmt: statements of the LEGACY code generator (vyper/codegen/stmt.py + expr.py) for the source fragment of VStmt.v.
   Target: `lstmt`, the statement layer of the legacy s-expression IR over C03/LIR.v's expressions -- mstore to a
   local, seq, pass, if (with and without else), assert, with, repeat, break, continue, exit_to (return of a local /
   of a value through the return buffer), and a subtree that ends in revert (reason encoding dropped by the exporter).
   Meaning `lsexec w m s`: w = the `with` bindings in scope, m = the locals (memory words by name: the exporter maps
   the frame addresses to the source names per scope); expressions are evaluated by LIR.leval in `w ++ m`.
   `repeat ix start rounds bound body` follows ir/compile_ir.py: start and rounds are evaluated; unless `rounds` is
   syntactically the literal `bound`: rounds > bound reverts and rounds = 0 skips the loop; then a do-while: the body
   with ix = start, start + 1, ... until the counter reaches start + rounds (so 2^256 iterations if rounds = 0 gets there).
   Model of the code generator: `lgen` (C01/ExprCompile.v's `compile` for the expressions).  Definitions only. *)
From Coq Require Import ZArith Bool List String Ascii.
From Verif Require Import Base.Word256 C03.LIR C03.ArithSpec C03.ArithModel C03.VSL C01.ExprCompile C01V.VExpr C01V.VStmt.
Import ListNotations.
Open Scope string_scope.
Open Scope Z_scope.
Open Scope list_scope.

Inductive lstmt :=
| LSStore (x : string) (e : lir)
| LSSeq (l : list lstmt)
| LSPass
| LSIf (c : lir) (a : lstmt)
| LSIfElse (c : lir) (a b : lstmt)
| LSAssert (c : lir)
| LSRevert
| LSWith (v : string) (e : lir) (body : lstmt)
| LSRepeat (ix : string) (start rounds : lir) (bound : Z) (body : lstmt)
| LSBreak
| LSContinue
| LSRetVar (x : string)
| LSRetVal (e : lir).

Inductive lres := LNorm (m : env) | LBrk (m : env) | LCont (m : env) | LRet (w : Z) | LRev | LStuck.

(* k rounds of the body f, the counter (a word) starting at iv *)
Fixpoint lloopf (f : Z -> env -> lres) (k : nat) (iv : Z) (m : env) : lres :=
  match k with
  | O => LNorm m
  | S k' =>
      match f iv m with
      | LNorm m' | LCont m' => lloopf f k' (w_add iv 1) m'
      | LBrk m' => LNorm m'
      | o => o
      end
  end.

Fixpoint lsexec (w m : env) (s : lstmt) : lres :=
  let fix go (w : env) (l : list lstmt) (m : env) : lres :=
    match l with
    | [] => LNorm m
    | s :: r => match lsexec w m s with LNorm m' => go w r m' | o => o end
    end in
  match s with
  | LSStore x e => match leval (w ++ m) e with Val v => LNorm ((x, v) :: m) | Revert => LRev | _ => LStuck end
  | LSSeq l => go w l m
  | LSPass => LNorm m
  | LSIf c a =>
      match leval (w ++ m) c with
      | Val v => if v =? 0 then LNorm m else lsexec w m a
      | Revert => LRev | _ => LStuck end
  | LSIfElse c a b =>
      match leval (w ++ m) c with
      | Val v => if v =? 0 then lsexec w m b else lsexec w m a
      | Revert => LRev | _ => LStuck end
  | LSAssert c =>
      match leval (w ++ m) c with
      | Val v => if v =? 0 then LRev else LNorm m
      | Revert => LRev | _ => LStuck end
  | LSRevert => LRev
  | LSWith v e body =>
      match leval (w ++ m) e with
      | Val x => lsexec ((v, x) :: w) m body
      | Revert => LRev | _ => LStuck end
  | LSRepeat ix st rd bound body =>
      match leval (w ++ m) st with
      | Val s0 =>
          match leval (w ++ m) rd with
          | Val r =>
              let same := lir_eqb rd (LInt bound) in
              if negb same && (wrap bound <? r) then LRev
              else if negb same && (r =? 0) then LNorm m
              else lloopf (fun iv m => lsexec ((ix, iv) :: w) m body) (Z.to_nat (if r =? 0 then W else r)) s0 m
          | Revert => LRev | _ => LStuck end
      | Revert => LRev | _ => LStuck end
  | LSBreak => LBrk m
  | LSContinue => LCont m
  | LSRetVar x => match lookup (w ++ m) x with Some v => LRet v | None => LStuck end
  | LSRetVal e => match leval (w ++ m) e with Val v => LRet v | Revert => LRev | _ => LStuck end
  end.

Fixpoint lsexec_list (w : env) (l : list lstmt) (m : env) : lres :=
  match l with
  | [] => LNorm m
  | s :: r => match lsexec w m s with LNorm m' => lsexec_list w r m' | o => o end
  end.

(* ---------------- the model of the code generator ---------------- *)
(* loop index variables: range_ix<N> in the real IR, renamed by order of creation *)
Definition ixn (k : nat) : string := String "@" (un k).

Definition le_op (T : nty) : op2 := if nsigned T then OSle else OLe.
(* rounds of `range(a, b, bound=B)`: (with end b (sub end (seq (assert (le start end)) start))) *)
Definition rounds_expr (T : nty) (st : lir) (b : lir) : lir :=
  LWith "end" b (L2 OSub (LVar "end") (LSeq (LAssert (L2 (le_op T) st (LVar "end"))) st)).

(* k: number of loops created so far *)
Fixpoint lgen (s : sstmt) (k : nat) : lstmt * nat :=
  let fix gl (l : list sstmt) (k : nat) : list lstmt * nat :=
    match l with
    | [] => ([LSPass], k)
    | s :: r => let '(t, k1) := lgen s k in let '(ts, k2) := gl r k1 in (t :: ts, k2)
    end in
  match s with
  | SAssign x e => (LSStore x (compile e), k)
  | SIf c a b =>
      let '(ta, k1) := gl a k in
      match b with
      | [] => (LSIf (compile c) (LSSeq ta), k1)
      | _ => let '(tb, k2) := gl b k1 in (LSIfElse (compile c) (LSSeq ta) (LSSeq tb), k2)
      end
  | SAssert c => (LSAssert (compile c), k)
  | SFor i lo rounds body =>
      let '(tb, k1) := gl body (S k) in
      (LSRepeat (ixn k) (LInt lo) (LInt (Z.of_nat rounds)) (Z.of_nat rounds)
         (LSSeq [LSStore i (LVar (ixn k)); LSSeq tb]), k1)
  | SForB i T a b bound body =>
      let '(tb, k1) := gl body (S k) in
      let bd := LSSeq [LSStore i (LVar (ixn k)); LSSeq tb] in
      match a with
      | XInt _ v => (LSRepeat (ixn k) (LInt v) (rounds_expr T (LInt v) (compile b)) bound bd, k1)
      | _ => (LSWith "start" (compile a)
                (LSRepeat (ixn k) (LVar "start") (rounds_expr T (LVar "start") (compile b)) bound bd), k1)
      end
  | SBreak => (LSBreak, k)
  | SContinue => (LSContinue, k)
  | SPass => (LSPass, k)
  | SReturn e =>
      (match e with XVar x _ => LSRetVar x | _ => LSRetVal (compile e) end, k)
  end.

Fixpoint lgen_list (l : list sstmt) (k : nat) : list lstmt * nat :=
  match l with
  | [] => ([LSPass], k)
  | s :: r => let '(t, k1) := lgen s k in let '(ts, k2) := lgen_list r k1 in (t :: ts, k2)
  end.

Definition llower (body : list sstmt) : lstmt := LSSeq (fst (lgen_list body 0)).

(* ---------------- decidable equality (for the tie) ---------------- *)
Fixpoint lstmt_eqb (a b : lstmt) : bool :=
  let fix leq (l1 l2 : list lstmt) : bool :=
    match l1, l2 with
    | [], [] => true
    | x :: r1, y :: r2 => lstmt_eqb x y && leq r1 r2
    | _, _ => false
    end in
  match a, b with
  | LSStore x e, LSStore x' e' => String.eqb x x' && lir_eqb e e'
  | LSSeq l, LSSeq l' => leq l l'
  | LSPass, LSPass => true
  | LSIf c s, LSIf c' s' => lir_eqb c c' && lstmt_eqb s s'
  | LSIfElse c s t, LSIfElse c' s' t' => lir_eqb c c' && lstmt_eqb s s' && lstmt_eqb t t'
  | LSAssert c, LSAssert c' => lir_eqb c c'
  | LSRevert, LSRevert => true
  | LSWith v e s, LSWith v' e' s' => String.eqb v v' && lir_eqb e e' && lstmt_eqb s s'
  | LSRepeat i s r bd t, LSRepeat i' s' r' bd' t' =>
      String.eqb i i' && lir_eqb s s' && lir_eqb r r' && (bd =? bd') && lstmt_eqb t t'
  | LSBreak, LSBreak => true
  | LSContinue, LSContinue => true
  | LSRetVar x, LSRetVar x' => String.eqb x x'
  | LSRetVal e, LSRetVal e' => lir_eqb e e'
  | _, _ => false
  end.

(* ---------------- static side conditions of the theorem, checked per sample ---------------- *)
Fixpoint vars (t : lir) : list string :=
  match t with
  | LInt _ | LPass => []
  | LVar s => [s]
  | L1 _ a | LAssert a => vars a
  | L2 _ a b | LSeq a b => vars a ++ vars b
  | L3 _ a b c | LIf a b c => vars a ++ vars b ++ vars c
  | LWith v a b => vars a ++ vars b
  end.

(* names the statement layer binds with `with` / as loop index *)
Definition bad_name (s : string) : bool :=
  String.eqb s "start" || String.eqb s "end" || match s with String c _ => Ascii.eqb c "@"%char | EmptyString => false end.
Definition expr_ok (e : sexpr) : bool := forallb (fun s => negb (bad_name s)) (vars (compile e)).

Fixpoint lok (s : sstmt) : bool :=
  let fix ll (l : list sstmt) : bool := match l with [] => true | s :: r => lok s && ll r end in
  match s with
  | SAssign x e => negb (bad_name x) && expr_ok e
  | SIf c a b => expr_ok c && ll a && ll b
  | SAssert c => expr_ok c
  | SFor i lo rounds body => negb (bad_name i) && (1 <=? Z.of_nat rounds) && ll body
  | SForB i T a b bound body =>
      negb (bad_name i) && expr_ok a && expr_ok b && negb (is_int_lit b) && ll body
  | SBreak | SContinue | SPass => true
  | SReturn e => expr_ok e
  end.
Fixpoint lok_list (l : list sstmt) : bool := match l with [] => true | s :: r => lok s && lok_list r end.

(* the real code generator's IR for the body equals the model's, and the side conditions hold *)
Definition ltie_ok (body : list sstmt) (t : lstmt) : bool :=
  lstmt_eqb t (llower body) && lok_list body.
