(* VExprX: the VENOM front end's lowering of the LARGER expression fragment (C01/ExprX.v: integers, decimals, flags,
   bool; checked arithmetic, & | ^, ~, << >>, in / not in, comparisons, and / or / not, unary minus, if-expressions;
   leaves = locals and state variables), in the segment form of VBlocks.v:
     vyper/codegen_venom/expr.py  lower_Int / lower_Decimal / lower_NameConstant / lower_Attribute (flag constants, state
     variables) / lower_Name / lower_BinOp (apply_binop) / lower_UnaryOp / lower_Compare / lower_BoolOp / lower_IfExp.
   A leaf is read by `%k = mload <alloca>` (local) or `%k = sload <slot>` (state variable); the exporter writes both as
   VAssign "%k" (VVar <name>) with the names "v.." / "s<slot>" (the fragment writes neither memory nor storage).
   Definitions only; proofs in VExprXProofs.v. *)
From Coq Require Import ZArith Bool List String.
From Verif Require Import Base.Word256 C03.LIR C03.ArithSpec C03.ArithModel C03.VSL C01.ExprCompile C01.ExprX C01V.VExpr C01V.VBlocks.
Import ListNotations.
Open Scope string_scope.
Open Scope Z_scope.
Open Scope list_scope.

(* j times  %(k+1) = iszero %k *)
Fixpoint isz_v (j k : nat) : list vinstr :=
  match j with O => [] | S j' => V1 (nm (S k)) OIszero (VVar (nm k)) :: isz_v j' (S k) end.

(* (opcode, swapped, number of iszero): builder.op(left, right) unless swapped: builder.op(right, left) for the shifts *)
Definition vshape (o : p2) : op2 * bool * nat :=
  match o with
  | PBit op _ => (bit_op op, false, 0%nat)
  | PShl _ _ => (OShl, true, 0%nat)
  | PShr T _ => (if nsigned T then OSar else OShr, true, 0%nat)
  | PCmp op t => let (oc, neg) := vcmp op (sty_of t) in (oc, false, if neg then 1%nat else 0%nat)
  | PIn false _ => (OAnd, false, 2%nat)
  | PIn true _ => (OAnd, false, 1%nat)
  end.
Definition vp2_n (o : p2) : nat := snd (vshape o).
(* instructions for operands ra (left), rb (right), first fresh variable k; the result is nm (k + vp2_n o) *)
Definition vp2 (o : p2) (ra rb : vop) (k : nat) : list vinstr :=
  let '(oc, sw, j) := vshape o in
  V2 (nm k) oc (if sw then ra else rb) (if sw then rb else ra) :: isz_v j k.
Definition vw2 (o : p2) (wx wy : Z) : Z :=
  let '(oc, sw, j) := vshape o in isz_w j (if sw then ev2 oc wy wx else ev2 oc wx wy).

Definition vp1 (o : p1) (ra : vop) (k : nat) : list vinstr :=
  match o with
  | PNot => [V1 (nm k) OIszero ra]
  | PInv => [V1 (nm k) ONot ra]
  | PInvF n => [V2 (nm k) OXor (VLit (2 ^ n - 1)) ra]
  end.

(* n: next fresh variable, L: next fresh label; -> segment, result operand, counters (as VBlocks.vgen) *)
Fixpoint ygen (e : yexpr) (n L : nat) : seg * vop * nat * nat :=
  match e with
  | YLit _ v => (code [], VLit v, n, L)
  | YVar x _ => (code [VAssign (nm n) (VVar x)], VVar (nm n), S n, L)
  | YBin op T _ _ _ _ a b =>
      let '(sa, ra, n1, M1) := ygen a n L in
      let '(sb, rb, n2, M2) := ygen b n1 M1 in
      let '(it, r, k) := inst_tmpl (vtmpl op T) ra rb n2 in
      (seq sa (seq sb (code it)), r, (n2 + k)%nat, M2)
  | YP2 o a b =>
      let '(sa, ra, n1, M1) := ygen a n L in
      let '(sb, rb, n2, M2) := ygen b n1 M1 in
      (seq sa (seq sb (code (vp2 o ra rb n2))), VVar (nm (n2 + vp2_n o)), S (n2 + vp2_n o), M2)
  | YP1 o a =>
      let '(sa, ra, n1, M1) := ygen a n L in
      (seq sa (code (vp1 o ra n1)), VVar (nm n1), S n1, M1)
  | YNeg T _ a =>
      let '(sa, ra, n1, M1) := ygen a n L in
      (seq sa (code [V2 (nm n1) OSgt (VLit (ty_lo T)) ra; VAssert (VVar (nm n1)); V2 (nm (S n1)) OSub ra (VLit 0)]),
       VVar (nm (S n1)), S (S n1), M1)
  | YAnd a b =>
      let res := n in let ex := L in
      let '(sa, ra, n1, M1) := ygen a (S n) (S L) in
      let nx := M1 in let fl := S M1 in
      let '(sb, rb, n2, M2) := ygen b n1 (S (S M1)) in
      (seq sa ([], Some (TJnz ra nx fl,
                         mkB fl [VAssign (nm res) (VLit 0)] (TJmp ex)
                           :: flat_closed nx (seq sb (code [VAssign (nm res) rb])) (TJmp ex),
                         ex, [])),
       VVar (nm res), n2, M2)
  | YOr a b =>
      let res := n in let ex := L in
      let '(sa, ra, n1, M1) := ygen a (S n) (S L) in
      let tr := M1 in let nx := S M1 in
      let '(sb, rb, n2, M2) := ygen b n1 (S (S M1)) in
      (seq sa ([], Some (TJnz ra tr nx,
                         mkB tr [VAssign (nm res) (VLit 1)] (TJmp ex)
                           :: flat_closed nx (seq sb (code [VAssign (nm res) rb])) (TJmp ex),
                         ex, [])),
       VVar (nm res), n2, M2)
  | YIf c a b =>
      let '(sc, rc, n0, M0) := ygen c n L in
      let th := M0 in let el := S M0 in let res := n0 in
      let '(sa, ra, n1, M1) := ygen a (S n0) (S (S M0)) in
      let '(sb, rb, n2, M2) := ygen b n1 M1 in
      let ex := M2 in
      (seq sc ([], Some (TJnz rc th el,
                         flat_closed th (seq sa (code [VAssign (nm res) ra])) (TJmp ex)
                           ++ flat_closed el (seq sb (code [VAssign (nm res) rb])) (TJmp ex),
                         ex, [])),
       VVar (nm res), n2, S M2)
  end.

Definition ylower (e : yexpr) : vop * list vblock :=
  let '(sg, r, _, _) := ygen e 0 1 in (r, flat 0 sg).

(* the tie: the real Venom front end's output for e (exported) equals the model's; e is well typed *)
Definition yvtie_ok (e : yexpr) (r : vop) (bs : list vblock) : bool :=
  let (r', bs') := ylower e in ywt false e && vop_eqb r r' && vblocks_eqb bs bs'.
