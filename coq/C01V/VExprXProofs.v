(* Proofs for VExprX.v: the blocks the Venom front end creates for an expression of the larger fragment (ExprX.v),
   executed by VBlocks.run_from, compute the source meaning ExprX.yeval.  Same structure as VBlocksProofs.vgen_correct
   (whose composition lemmas run_seq / run_arm / arm_done ... are reused unchanged); new: the operators that cannot
   revert (one word operation + a chain of iszero; operand order per opcode), decimals (C03's vsafe_* are exact for
   them), flags, state variables as leaves. *)
From Coq Require Import ZArith Bool List String Ascii Lia.
From Verif Require Import Base.Word256 C03.LIR C03.ArithSpec C03.WordArith C03.TypeLemmas C03.ArithModel C03.VSL
  C03.LegacyExact C03.VenomExact C01.ExprCompile C01.ExprCompileProofs C01.ExprX C01.ExprXWord C01.ExprXProofs
  C01V.VExpr C01V.VExprProofs C01V.VBlocks C01V.VBlocksProofs C01V.VExprX.
Import ListNotations.
Open Scope string_scope.
Open Scope Z_scope.
Open Scope list_scope.

(* ---------------- word level: the Venom shape computes what the legacy shape computes ---------------- *)
Lemma ev_bit_comm op wx wy : ev2 (bit_op op) wx wy = ev2 (bit_op op) wy wx.
Proof. destruct op; cbn [bit_op ev2]; unfold w_and, w_or, w_xor; [apply Z.land_comm | apply Z.lor_comm | apply Z.lxor_comm]. Qed.

Lemma vw2_lw2 o wx wy : vw2 o wx wy = lw2 o wy wx.
Proof.
  destruct o as [op t | T Tb | T Tb | op t | neg n]; unfold vw2, lw2; cbn [vshape lshape fst snd].
  - cbn [isz_w]. apply ev_bit_comm.
  - reflexivity.
  - reflexivity.
  - pose proof (vcmp_word op (sty_of t) wx wy) as H. destruct (vcmp op (sty_of t)) as [oc neg]. destruct neg; cbn [isz_w]; exact H.
  - destruct neg; cbn [isz_w fst snd]; rewrite (ev_bit_comm BitAnd); reflexivity.
Qed.

Lemma isz_w_comm j w : isz_w j (w_iszero w) = w_iszero (isz_w j w).
Proof. induction j as [|j IH]; cbn [isz_w]; [reflexivity | rewrite IH; reflexivity]. Qed.

(* ---------------- execution of the chains ---------------- *)
Lemma isz_v_run j : forall k e w, lookup e (nm k) = Some w ->
  exists e', vsl e (isz_v j k) = VOk e' /\ lookup e' (nm (k + j)) = Some (isz_w j w) /\ ext (S k) e e'.
Proof.
  induction j as [|j IH]; intros k e w H; cbn [isz_v vsl isz_w].
  - exists e. rewrite Nat.add_0_r. split; [reflexivity|]. split; [exact H | apply ext_refl].
  - cbn [vstep vval]. rewrite H.
    destruct (IH (S k) ((nm (S k), ev1 OIszero w) :: e) (w_iszero w)) as (e' & S' & V' & X').
    { cbn [lookup]. rewrite String.eqb_refl. reflexivity. }
    exists e'. split; [exact S'|]. split.
    + replace (k + S j)%nat with (S k + j)%nat by lia. rewrite V', isz_w_comm. reflexivity.
    + apply (ext_trans (S k) (S (S k)) e ((nm (S k), ev1 OIszero w) :: e) e'); [lia | apply ext_cons; lia | exact X'].
Qed.

Lemma vp2_run o ra rb k e wx wy : vval e ra = Some wx -> vval e rb = Some wy ->
  exists e', vsl e (vp2 o ra rb k) = VOk e' /\ lookup e' (nm (k + vp2_n o)) = Some (vw2 o wx wy) /\ ext k e e'.
Proof.
  intros Va Vb. unfold vp2, vw2, vp2_n. destruct (vshape o) as [[oc sw] j]. cbn [snd].
  set (w := if sw then ev2 oc wy wx else ev2 oc wx wy).
  assert (S1 : vstep e (V2 (nm k) oc (if sw then ra else rb) (if sw then rb else ra)) = VOk ((nm k, w) :: e)).
  { unfold w. destruct sw; cbn [vstep]; rewrite Va, Vb; reflexivity. }
  destruct (isz_v_run j k ((nm k, w) :: e) w) as (e' & S' & V' & X').
  { cbn [lookup]. rewrite String.eqb_refl. reflexivity. }
  exists e'. cbn [vsl]. rewrite S1. split; [exact S'|]. split; [exact V'|].
  apply (ext_trans k (S k) e ((nm k, w) :: e) e'); [lia | apply ext_cons; lia | exact X'].
Qed.

Definition vw1 (o : p1) (wx : Z) : Z :=
  match o with PNot => w_iszero wx | PInv => w_not wx | PInvF n => w_xor wx (wrap (2 ^ n - 1)) end.
Lemma vw1_lw1 o wx : vw1 o wx = lw1 o wx.
Proof. destruct o; cbn [vw1 lw1]; try reflexivity. unfold w_xor. apply Z.lxor_comm. Qed.
Lemma vp1_run o ra k e wx : vval e ra = Some wx ->
  vsl e (vp1 o ra k) = VOk ((nm k, vw1 o wx) :: e).
Proof. intros Va. destruct o; cbn [vp1 vsl vstep vval vw1]; rewrite Va; reflexivity. Qed.

(* templates, decimals included *)
Lemma yvtmpl_exact op T x y : ty_ok T -> in_range T x -> in_range T y ->
  vrun (venv2 x y) (vtmpl op T) = enc_out (arith_spec T (aop_of op) x y).
Proof.
  intros Tok Hx Hy.
  destruct op; cbn [vtmpl aop_of];
    [apply vsafe_add_exact | apply vsafe_sub_exact | apply vsafe_mul_exact | apply vsafe_div_exact | apply vsafe_mod_exact]; assumption.
Qed.

Lemma neg_word_d k d x : 1 <= k <= 32 -> in_range (Build_nty k true d) x ->
  let T := Build_nty k true d in
  w_sgt (wrap x) (wrap (ty_lo T)) = b2z (in_rangeb T (- x)) /\ w_sub (wrap 0) (wrap x) = wrap (- x).
Proof.
  intros Hk Rx T.
  pose proof (range_bounds k true d x ltac:(lia) Rx) as Bx. cbn beta iota in Bx.
  assert (HbH : Hb k <= HALF).
  { destruct (Z.eq_dec k 32) as [->|]; [rewrite Hb_32; lia|]. pose proof (Hb_le247 k ltac:(lia)). rewrite P247_val in *. wl. }
  pose proof (Hb_pos k ltac:(lia)) as HbP.
  assert (Sx : sword x) by (unfold sword; wl).
  assert (Sl : sword (- Hb k)) by (unfold sword; wl).
  split.
  - unfold T. rewrite ty_lo_s. unfold w_sgt. rewrite (ts_wrap x Sx), (ts_wrap (- Hb k) Sl). f_equal.
    destruct (x >? - Hb k) eqn:Gt.
    + symmetry. apply in_rangeb_iff. unfold in_range. rewrite ty_lo_s, ty_hi_s. lia.
    + symmetry. apply not_true_iff_false. intros C. apply in_rangeb_iff in C. unfold in_range in C.
      rewrite ty_lo_s, ty_hi_s in C. lia.
  - rewrite w_sub_wrap. reflexivity.
Qed.

Lemma name_ok_local s : name_ok s = true -> is_local s = true.
Proof. unfold name_ok, is_local. intros H. apply andb_true_iff in H. destruct H as [_ H]. exact H. Qed.

(* ---------------- the invariant ---------------- *)
Definition YRes (rho : senv) (e0 : env) (n L c : nat) (e : yexpr) (out : seg * vop * nat * nat) : Prop :=
  let '(sg, r, n', L') := out in
  (n <= n')%nat /\ (L <= L')%nat /\ seg_closed sg /\ labs_ok sg L L' /\ ygood (yty_of e) (yeval rho e) /\
  match yeval rho e with
  | Val v => exists e1, run_from (flat c sg) c e0 = BDone e1 /\ vval e1 r = Some (wrap v) /\ ext n e0 e1 /\ op_old n' r
  | Revert => run_from (flat c sg) c e0 = BRevert
  | _ => True
  end.

Lemma ytwo_ops rho e0 n L c a b sa ra n1 M1 sb rb n2 M2 fin : (c < L)%nat ->
  YRes rho e0 n L c a (sa, ra, n1, M1) ->
  (forall e1, ext n e0 e1 -> YRes rho e1 n1 M1 (open_lab c sa) b (sb, rb, n2, M2)) ->
  let sg := seq sa (seq sb (code fin)) in
  (n <= n2)%nat /\ (L <= M2)%nat /\ seg_closed sg /\ labs_ok sg L M2 /\
  match yeval rho a with
  | Val x => match yeval rho b with
             | Val y => exists e2, run_from (flat c sg) c e0 = bres_of (vsl e2 fin) /\ vval e2 ra = Some (wrap x) /\
                                   vval e2 rb = Some (wrap y) /\ ext n e0 e2 /\ op_old n2 ra /\ op_old n2 rb
             | Revert => run_from (flat c sg) c e0 = BRevert
             | _ => True end
  | Revert => run_from (flat c sg) c e0 = BRevert
  | _ => True
  end.
Proof.
  intros Hc (N1 & LL1 & Ca & La & _ & A) HB sg.
  pose proof (HB e0 (ext_refl n e0)) as (N2 & LL2 & Cb & Lb & _ & _).
  assert (Csg : seg_closed sg) by (apply closed_seq; [exact Ca | apply closed_seq; [exact Cb | exact I]]).
  split; [lia|]. split; [lia|]. split; [exact Csg|]. split.
  { intros l I. unfold sg in I. rewrite !labs_seq, labs_code, app_nil_r in I. apply in_app_or in I as [I|I];
      [apply La in I | apply Lb in I]; lia. }
  destruct (yeval rho a) as [x| | |] eqn:Sa; try exact I.
  - destruct A as (e1 & R1 & V1 & X1 & O1). destruct (HB e1 X1) as (_ & _ & _ & _ & _ & B).
    unfold sg. rewrite (seq_done sa _ c e0 e1 Ca R1).
    destruct (yeval rho b) as [y| | |]; try exact I.
    + destruct B as (e2 & R2 & V2 & X2 & O2). exists e2.
      split; [apply seq_code_run; assumption|]. split; [rewrite (vval_ext n1 e1 e2 ra X2 O1); exact V1|]. split; [exact V2|].
      split; [exact (ext_trans n n1 e0 e1 e2 N1 X1 X2)|]. split; [eapply op_old_mono; eassumption | exact O2].
    + apply seq_rev; assumption.
  - unfold sg. apply seq_rev; assumption.
Qed.

Local Opaque num_ok yty_ok p2_ok p1_ok name_ok.

Theorem ygen_correct : forall e rho, ywt false e = true -> yenv_ok rho e = true ->
  forall n L c e0, (c < L)%nat -> venv rho e0 -> YRes rho e0 n L c e (ygen e n L).
Proof.
  induction e as [t v | s t | op T ia ib i1 i2 a IHa b IHb | o a IHa b IHb | o a IHa
                 | a IHa b IHb | a IHa b IHb | T ic a IHa | cnd IHc a IHa b IHb];
    intros rho Wt E n L c e0 Hc VE; cbn [ywt yenv_ok negb orb andb] in Wt, E; rewrite ?andb_true_r in Wt;
    unfold YRes; cbn [ygen yty_of yeval].
  - (* YLit *)
    apply andb_true_iff in Wt. destruct Wt as [_ Hr].
    split; [lia|]. split; [lia|]. split; [exact I|]. split; [intros l []|]. split; [exact Hr|].
    exists e0. rewrite run_code. split; [reflexivity|]. split; [reflexivity|]. split; [apply ext_refl | exact I].
  - (* YVar *)
    apply andb_true_iff in Wt. destruct Wt as [Hl _]. apply name_ok_local in Hl.
    destruct (lookup rho s) as [v|] eqn:Lk; [|discriminate].
    split; [lia|]. split; [lia|]. split; [exact I|]. split; [intros l []|]. split; [exact E|].
    eexists. rewrite run_code. cbn [vsl vstep vval]. rewrite (VE s v Hl Lk). split; [reflexivity|].
    split; [cbn [lookup]; rewrite String.eqb_refl; reflexivity|]. split; [apply ext_cons; lia | apply old_nm; lia].
  - (* YBin *)
    repeat (apply andb_true_iff in Wt; destruct Wt as [Wt ?]).
    apply andb_true_iff in E. destruct E as [Ea Eb].
    match goal with H : yty_eqb (yty_of a) _ = true |- _ => apply yty_eqb_eq in H; rename H into Ta end.
    match goal with H : yty_eqb (yty_of b) _ = true |- _ => apply yty_eqb_eq in H; rename H into Tb end.
    assert (Ht : num_ok T = true) by assumption. destruct (num_ok_ty_ok T Ht) as (Tok & _).
    pose proof (IHa rho ltac:(assumption) Ea n L c e0 Hc VE) as RA.
    destruct (ygen a n L) as [[[sa ra] n1] M1] eqn:Ga.
    assert (Hc1 : (open_lab c sa < M1)%nat) by (destruct RA as (_ & LL & _ & LA & _); eapply open_lab_lt; [lia | exact LA]).
    assert (RB : forall e1, ext n e0 e1 -> YRes rho e1 n1 M1 (open_lab c sa) b (ygen b n1 M1))
      by (intros e1 X1; apply IHb; try assumption; eapply venv_ext; eassumption).
    destruct (ygen b n1 M1) as [[[sb rb] n2] M2] eqn:Gb.
    pose proof RA as (_ & _ & _ & _ & GA & _). pose proof (RB e0 (ext_refl n e0)) as (_ & _ & _ & _ & GB & _).
    rewrite Ta in GA. rewrite Tb in GB.
    destruct (inst_tmpl (vtmpl op T) ra rb n2) as [[it r] k] eqn:IT.
    destruct (ytwo_ops rho e0 n L c a b sa ra n1 M1 sb rb n2 M2 it Hc RA RB) as (N2 & LL2 & CS & LS & HT).
    split; [lia|]. split; [lia|]. split; [exact CS|]. split; [exact LS|].
    destruct (yeval rho a) as [x| | |] eqn:Sea; try contradiction; [|split; [exact I | exact HT]].
    destruct (yeval rho b) as [y| | |] eqn:Seb; try contradiction; [|split; [exact I | exact HT]].
    pose proof (yval_int _ _ GA) as Rx. pose proof (yval_int _ _ GB) as Ry.
    pose proof (arith_good T (aop_of op) x y ltac:(destruct op; discriminate)) as G.
    destruct HT as (e2 & S2 & Va & Vb & X2 & Oa & Ob).
    pose proof (tmpl_inst_exact (vtmpl op T) x y _ ra rb n2 e2 (vtmpl_closed op T) (yvtmpl_exact op T x y Tok Rx Ry) Oa Ob Va Vb) as TE.
    rewrite IT in TE.
    destruct (arith_spec T (aop_of op) x y) as [v| | |]; try contradiction.
    + split; [exact G|]. destruct TE as (e3 & S3 & V3 & X3 & O3). exists e3. rewrite S2, S3.
      split; [reflexivity|]. split; [exact V3|]. split; [exact (ext_trans n n2 e0 e2 e3 N2 X2 X3) | exact O3].
    + split; [exact I|]. rewrite S2, TE. reflexivity.
  - (* YP2 *)
    repeat (apply andb_true_iff in Wt; destruct Wt as [Wt ?]).
    apply andb_true_iff in E. destruct E as [Ea Eb].
    match goal with H : yty_eqb (yty_of a) _ = true |- _ => apply yty_eqb_eq in H; rename H into Ta end.
    match goal with H : yty_eqb (yty_of b) _ = true |- _ => apply yty_eqb_eq in H; rename H into Tb end.
    pose proof (IHa rho ltac:(assumption) Ea n L c e0 Hc VE) as RA.
    destruct (ygen a n L) as [[[sa ra] n1] M1] eqn:Ga.
    assert (Hc1 : (open_lab c sa < M1)%nat) by (destruct RA as (_ & LL & _ & LA & _); eapply open_lab_lt; [lia | exact LA]).
    assert (RB : forall e1, ext n e0 e1 -> YRes rho e1 n1 M1 (open_lab c sa) b (ygen b n1 M1))
      by (intros e1 X1; apply IHb; try assumption; eapply venv_ext; eassumption).
    destruct (ygen b n1 M1) as [[[sb rb] n2] M2] eqn:Gb.
    pose proof RA as (_ & _ & _ & _ & GA & _). pose proof (RB e0 (ext_refl n e0)) as (_ & _ & _ & _ & GB & _).
    rewrite Ta in GA. rewrite Tb in GB.
    destruct (ytwo_ops rho e0 n L c a b sa ra n1 M1 sb rb n2 M2 (vp2 o ra rb n2) Hc RA RB) as (N2 & LL2 & CS & LS & HT).
    split; [lia|]. split; [lia|]. split; [exact CS|]. split; [exact LS|].
    destruct (yeval rho a) as [x| | |] eqn:Sea; try contradiction; [|split; [exact I | exact HT]].
    destruct (yeval rho b) as [y| | |] eqn:Seb; try contradiction; [|split; [exact I | exact HT]].
    destruct (lw2_correct o x y ltac:(assumption) GA GB) as [Hw Hr].
    split; [exact Hr|]. destruct HT as (e2 & S2 & Va & Vb & X2 & Oa & Ob).
    destruct (vp2_run o ra rb n2 e2 (wrap x) (wrap y) Va Vb) as (e3 & S3 & V3 & X3).
    exists e3. rewrite S2, S3. cbn [bres_of]. split; [reflexivity|].
    split; [cbn [vval]; rewrite V3, vw2_lw2, Hw; reflexivity|].
    split; [exact (ext_trans n n2 e0 e2 e3 N2 X2 X3) | apply old_nm; lia].
  - (* YP1 *)
    repeat (apply andb_true_iff in Wt; destruct Wt as [Wt ?]).
    match goal with H : yty_eqb (yty_of a) _ = true |- _ => apply yty_eqb_eq in H; rename H into Ta end.
    pose proof (IHa rho ltac:(assumption) E n L c e0 Hc VE) as RA. destruct (ygen a n L) as [[[sa ra] n1] M1] eqn:Ga.
    destruct RA as (N1 & LL1 & Ca & La & GA & A). rewrite Ta in GA.
    split; [lia|]. split; [lia|]. split; [apply closed_seq; [exact Ca | exact I]|].
    split; [intros l Il; rewrite labs_seq, labs_code, app_nil_r in Il; apply La; exact Il|].
    destruct (yeval rho a) as [x| | |] eqn:Sea; try contradiction.
    + destruct (lw1_correct o x ltac:(assumption) GA) as [Hw Hr].
      split; [exact Hr|]. destruct A as (e1 & R1 & V1 & X1 & O1).
      eexists. rewrite (seq_code_run sa _ c e0 e1 Ca R1). rewrite (vp1_run o ra n1 e1 (wrap x) V1). cbn [bres_of].
      split; [reflexivity|]. split.
      * cbn [vval lookup]. rewrite String.eqb_refl, vw1_lw1, Hw. reflexivity.
      * split; [apply (ext_trans n n1 e0 e1 _ N1 X1); apply ext_cons; lia | apply old_nm; lia].
    + split; [exact I|]. apply seq_rev; assumption.
  - (* YAnd *)
    repeat (apply andb_true_iff in Wt; destruct Wt as [Wt ?]).
    apply andb_true_iff in E. destruct E as [Ea Eb].
    match goal with H : yty_eqb (yty_of a) _ = true |- _ => apply yty_eqb_eq in H; rename H into Ta end.
    match goal with H : yty_eqb (yty_of b) _ = true |- _ => apply yty_eqb_eq in H; rename H into Tb end.
    pose proof (IHa rho ltac:(assumption) Ea (S n) (S L) c e0 ltac:(lia) VE) as RA.
    destruct (ygen a (S n) (S L)) as [[[sa ra] n1] M1] eqn:Ga.
    assert (RB : forall e1, ext (S n) e0 e1 -> YRes rho e1 n1 (S (S M1)) M1 b (ygen b n1 (S (S M1))))
      by (intros e1 X1; apply IHb; try assumption; [lia | eapply venv_ext; eassumption]).
    destruct (ygen b n1 (S (S M1))) as [[[sb rb] n2] M2] eqn:Gb.
    destruct RA as (N1 & LL1 & Ca & La & GA & A). rewrite Ta in GA.
    pose proof (RB e0 (ext_refl _ e0)) as (N2 & LL2 & Cb & Lb & GB & _). rewrite Tb in GB.
    set (sb' := seq sb (code [VAssign (nm n) rb])).
    set (MID := mkB (S M1) [VAssign (nm n) (VLit 0)] (TJmp L) :: flat_closed M1 sb' (TJmp L)).
    set (br := (([], Some (TJnz ra M1 (S M1), MID, L, [])) : seg)).
    assert (Csb' : seg_closed sb') by (apply closed_seq; [exact Cb | exact I]).
    assert (Cbr : seg_closed br).
    { split; [discriminate|]. constructor; [discriminate|]. apply closedl_flat_closed; [exact Csb' | discriminate]. }
    assert (LB : forall l, In l (M1 :: seg_labs sb') -> (S L <= l < M2)%nat).
    { intros l [<-|I]; [lia|]. unfold sb' in I. rewrite labs_seq, labs_code, app_nil_r in I. apply Lb in I. lia. }
    split; [lia|]. split; [lia|]. split; [apply closed_seq; assumption|]. split.
    { intros l I. rewrite labs_seq in I. apply in_app_or in I as [I|I]; [apply La in I; lia|].
      unfold seg_labs, br in I. cbn [snd] in I. apply in_app_or in I as [I|[<-|[]]]; [|lia].
      unfold MID in I. cbn [map b_lab] in I. rewrite labs_flat_closed in I. destruct I as [<-|I]; [lia|]. apply LB in I. lia. }
    destruct (yeval rho a) as [x| | |] eqn:Sea; try contradiction.
    2:{ split; [exact I|]. apply seq_rev; assumption. }
    destruct A as (e1 & R1 & V1 & X1 & O1). pose proof (yval_bool _ GA) as Bx.
    rewrite (seq_done sa br c e0 e1 Ca R1). unfold br. rewrite (run_branch _ ra M1 (S M1) MID L e1 _ V1), (bool_word x Bx).
    destruct (x =? 0) eqn:X0.
    + split; [reflexivity|]. unfold MID. cbn [app]. rewrite run_const_arm.
      rewrite run_skip by (rewrite labs_flat_closed; intros C; apply LB in C; lia). rewrite run_open.
      eexists. split; [reflexivity|]. split; [cbn [vval lookup]; rewrite String.eqb_refl; reflexivity|].
      split; [apply (ext_trans n n e0 e1 _ (Nat.le_refl n) (ext_S _ _ _ X1)); apply ext_cons; lia | apply old_nm; lia].
    + unfold MID. cbn [app run_from b_lab]. assert (Nat.eqb (S M1) M1 = false) as -> by (apply Nat.eqb_neq; lia).
      destruct (RB e1 X1) as (_ & _ & _ & _ & _ & B).
      destruct (yeval rho b) as [y| | |] eqn:Seb; try contradiction.
      * split; [exact GB|]. destruct B as (e2 & R2 & V2 & X2 & O2).
        pose proof (arm_done sb M1 L (nm n) rb [] e1 e2 (wrap y) Cb R2 V2 ltac:(intros [])) as AD. cbn [app] in AD. fold sb' in AD.
        rewrite AD. eexists. split; [reflexivity|]. split; [cbn [vval lookup]; rewrite String.eqb_refl; reflexivity|].
        split; [| apply old_nm; lia].
        apply (ext_trans n n e0 e1 _ (Nat.le_refl n) (ext_S _ _ _ X1)).
        apply (ext_trans n n e1 e2 _ (Nat.le_refl n) (ext_le n n1 _ _ ltac:(lia) X2)). apply ext_cons. lia.
      * split; [exact I|]. unfold sb'. apply arm_rev; assumption.
  - (* YOr *)
    repeat (apply andb_true_iff in Wt; destruct Wt as [Wt ?]).
    apply andb_true_iff in E. destruct E as [Ea Eb].
    match goal with H : yty_eqb (yty_of a) _ = true |- _ => apply yty_eqb_eq in H; rename H into Ta end.
    match goal with H : yty_eqb (yty_of b) _ = true |- _ => apply yty_eqb_eq in H; rename H into Tb end.
    pose proof (IHa rho ltac:(assumption) Ea (S n) (S L) c e0 ltac:(lia) VE) as RA.
    destruct (ygen a (S n) (S L)) as [[[sa ra] n1] M1] eqn:Ga.
    assert (RB : forall e1, ext (S n) e0 e1 -> YRes rho e1 n1 (S (S M1)) (S M1) b (ygen b n1 (S (S M1))))
      by (intros e1 X1; apply IHb; try assumption; [lia | eapply venv_ext; eassumption]).
    destruct (ygen b n1 (S (S M1))) as [[[sb rb] n2] M2] eqn:Gb.
    destruct RA as (N1 & LL1 & Ca & La & GA & A). rewrite Ta in GA.
    pose proof (RB e0 (ext_refl _ e0)) as (N2 & LL2 & Cb & Lb & GB & _). rewrite Tb in GB.
    set (sb' := seq sb (code [VAssign (nm n) rb])).
    set (MID := mkB M1 [VAssign (nm n) (VLit 1)] (TJmp L) :: flat_closed (S M1) sb' (TJmp L)).
    set (br := (([], Some (TJnz ra M1 (S M1), MID, L, [])) : seg)).
    assert (Csb' : seg_closed sb') by (apply closed_seq; [exact Cb | exact I]).
    assert (Cbr : seg_closed br).
    { split; [discriminate|]. constructor; [discriminate|]. apply closedl_flat_closed; [exact Csb' | discriminate]. }
    assert (LB : forall l, In l (S M1 :: seg_labs sb') -> (S L <= l < M2)%nat).
    { intros l [<-|I]; [lia|]. unfold sb' in I. rewrite labs_seq, labs_code, app_nil_r in I. apply Lb in I. lia. }
    split; [lia|]. split; [lia|]. split; [apply closed_seq; assumption|]. split.
    { intros l I. rewrite labs_seq in I. apply in_app_or in I as [I|I]; [apply La in I; lia|].
      unfold seg_labs, br in I. cbn [snd] in I. apply in_app_or in I as [I|[<-|[]]]; [|lia].
      unfold MID in I. cbn [map b_lab] in I. rewrite labs_flat_closed in I. destruct I as [<-|I]; [lia|]. apply LB in I. lia. }
    destruct (yeval rho a) as [x| | |] eqn:Sea; try contradiction.
    2:{ split; [exact I|]. apply seq_rev; assumption. }
    destruct A as (e1 & R1 & V1 & X1 & O1). pose proof (yval_bool _ GA) as Bx.
    rewrite (seq_done sa br c e0 e1 Ca R1). unfold br. rewrite (run_branch _ ra M1 (S M1) MID L e1 _ V1), (bool_word x Bx).
    destruct (x =? 0) eqn:X0.
    + unfold MID. cbn [app run_from b_lab]. assert (Nat.eqb M1 (S M1) = false) as -> by (apply Nat.eqb_neq; lia).
      destruct (RB e1 X1) as (_ & _ & _ & _ & _ & B).
      destruct (yeval rho b) as [y| | |] eqn:Seb; try contradiction.
      * split; [exact GB|]. destruct B as (e2 & R2 & V2 & X2 & O2).
        pose proof (arm_done sb (S M1) L (nm n) rb [] e1 e2 (wrap y) Cb R2 V2 ltac:(intros [])) as AD. cbn [app] in AD. fold sb' in AD.
        rewrite AD. eexists. split; [reflexivity|]. split; [cbn [vval lookup]; rewrite String.eqb_refl; reflexivity|].
        split; [| apply old_nm; lia].
        apply (ext_trans n n e0 e1 _ (Nat.le_refl n) (ext_S _ _ _ X1)).
        apply (ext_trans n n e1 e2 _ (Nat.le_refl n) (ext_le n n1 _ _ ltac:(lia) X2)). apply ext_cons. lia.
      * split; [exact I|]. unfold sb'. apply arm_rev; assumption.
    + split; [reflexivity|]. unfold MID. cbn [app]. rewrite run_const_arm.
      rewrite run_skip by (rewrite labs_flat_closed; intros C; apply LB in C; lia). rewrite run_open.
      eexists. split; [reflexivity|]. split; [cbn [vval lookup]; rewrite String.eqb_refl; reflexivity|].
      split; [apply (ext_trans n n e0 e1 _ (Nat.le_refl n) (ext_S _ _ _ X1)); apply ext_cons; lia | apply old_nm; lia].
  - (* YNeg *)
    repeat (apply andb_true_iff in Wt; destruct Wt as [Wt ?]).
    match goal with H : yty_eqb (yty_of a) _ = true |- _ => apply yty_eqb_eq in H; rename H into Ta end.
    assert (Ht : num_ok T = true) by assumption. assert (Hs : nsigned T = true) by assumption.
    destruct (num_ok_ty_ok T Ht) as (_ & Hk).
    pose proof (IHa rho ltac:(assumption) E n L c e0 Hc VE) as RA. destruct (ygen a n L) as [[[sa ra] n1] M1] eqn:Ga.
    destruct RA as (N1 & LL1 & Ca & La & GA & A). rewrite Ta in GA.
    split; [lia|]. split; [lia|]. split; [apply closed_seq; [exact Ca | exact I]|].
    split; [intros l Il; rewrite labs_seq, labs_code, app_nil_r in Il; apply La; exact Il|].
    destruct (yeval rho a) as [x| | |] eqn:Sea; try contradiction.
    + pose proof (yval_int _ _ GA) as Rx. destruct T as [k s d]. cbn [nsigned nbytes ndec] in *. subst s.
      destruct (neg_word_d k d x Hk Rx) as [NW1 NW2]. cbn [arith_spec]. unfold chk.
      destruct A as (e1 & R1 & V1 & X1 & O1).
      split; [cbn [yval_ok]; destruct (in_rangeb (Build_nty k true d) (- x)) eqn:R; [exact R | exact I]|].
      rewrite (seq_code_run sa _ c e0 e1 Ca R1). cbn [vsl vstep vval]. rewrite V1. cbn [ev2]. rewrite NW1.
      cbn [lookup]. rewrite String.eqb_refl.
      destruct (in_rangeb (Build_nty k true d) (- x)); cbn [b2z Z.eqb]; [|reflexivity].
      rewrite (vval_ext n1 e1 _ ra (ext_cons n1 n1 _ e1 ltac:(lia)) O1), V1. cbn [ev2 bres_of].
      eexists. split; [reflexivity|]. split; [cbn [vval lookup]; rewrite String.eqb_refl; change (wrap 0) with (wrap 0); rewrite NW2; reflexivity|].
      split; [| apply old_nm; lia]. apply (ext_trans n n1 e0 e1 _ N1 X1).
      eapply (ext_trans n1 n1); [lia | apply (ext_cons n1 n1); lia | apply (ext_cons n1 (S n1)); lia].
    + split; [exact I|]. apply seq_rev; assumption.
  - (* YIf *)
    repeat (apply andb_true_iff in Wt; destruct Wt as [Wt ?]).
    apply andb_true_iff in E. destruct E as [E Eb]. apply andb_true_iff in E. destruct E as [Ec Ea].
    match goal with H : yty_eqb (yty_of cnd) _ = true |- _ => apply yty_eqb_eq in H; rename H into Tc end.
    match goal with H : yty_eqb (yty_of a) (yty_of b) = true |- _ => apply yty_eqb_eq in H; rename H into Tab end.
    pose proof (IHc rho ltac:(assumption) Ec n L c e0 Hc VE) as RC.
    destruct (ygen cnd n L) as [[[sc rc] n0] M0] eqn:Gc.
    destruct RC as (N0 & LL0 & Cc & Lc & GC & C0). rewrite Tc in GC.
    assert (RA : forall e1, ext n e0 e1 -> YRes rho e1 (S n0) (S (S M0)) M0 a (ygen a (S n0) (S (S M0))))
      by (intros e1 X1; apply IHa; try assumption; [lia | eapply venv_ext; eassumption]).
    destruct (ygen a (S n0) (S (S M0))) as [[[sa ra] n1] M1] eqn:Ga.
    pose proof (RA e0 (ext_refl _ e0)) as (N1 & LL1 & Ca & La & GA & _).
    assert (RB : forall e1, ext n e0 e1 -> YRes rho e1 n1 M1 (S M0) b (ygen b n1 M1))
      by (intros e1 X1; apply IHb; try assumption; try lia; eapply venv_ext; eassumption).
    destruct (ygen b n1 M1) as [[[sb rb] n2] M2] eqn:Gb.
    pose proof (RB e0 (ext_refl _ e0)) as (N2 & LL2 & Cb & Lb & GB & _). rewrite <- Tab in GB.
    set (sa' := seq sa (code [VAssign (nm n0) ra])). set (sb' := seq sb (code [VAssign (nm n0) rb])).
    set (ARMA := flat_closed M0 sa' (TJmp M2)). set (ARMB := flat_closed (S M0) sb' (TJmp M2)).
    set (br := (([], Some (TJnz rc M0 (S M0), ARMA ++ ARMB, M2, [])) : seg)).
    assert (Csa' : seg_closed sa') by (apply closed_seq; [exact Ca | exact I]).
    assert (Csb' : seg_closed sb') by (apply closed_seq; [exact Cb | exact I]).
    assert (Cbr : seg_closed br).
    { split; [discriminate|]. apply Forall_app. split; apply closedl_flat_closed; try assumption; discriminate. }
    assert (LA : forall l, In l (map b_lab ARMA) -> (M0 <= l < M1)%nat /\ l <> S M0).
    { unfold ARMA. rewrite labs_flat_closed. intros l [<-|I]; [lia|]. unfold sa' in I. rewrite labs_seq, labs_code, app_nil_r in I. apply La in I. lia. }
    assert (LBB : forall l, In l (map b_lab ARMB) -> (S M0 <= l < M2)%nat).
    { unfold ARMB. rewrite labs_flat_closed. intros l [<-|I]; [lia|]. unfold sb' in I. rewrite labs_seq, labs_code, app_nil_r in I. apply Lb in I. lia. }
    split; [lia|]. split; [lia|]. split; [apply closed_seq; assumption|]. split.
    { intros l I. rewrite labs_seq in I. apply in_app_or in I as [I|I]; [apply Lc in I; lia|].
      unfold seg_labs, br in I. cbn [snd] in I. apply in_app_or in I as [I|[<-|[]]]; [|lia].
      rewrite map_app in I. apply in_app_or in I as [I|I]; [apply LA in I | apply LBB in I]; lia. }
    destruct (yeval rho cnd) as [x| | |] eqn:Sec; try contradiction.
    2:{ split; [exact I|]. apply seq_rev; assumption. }
    destruct C0 as (e1 & R1 & V1 & X1 & O1). pose proof (yval_bool _ GC) as Bx.
    rewrite (seq_done sc br c e0 e1 Cc R1). unfold br. rewrite (run_branch _ rc M0 (S M0) (ARMA ++ ARMB) M2 e1 _ V1), (bool_word x Bx).
    rewrite <- app_assoc.
    destruct (x =? 0) eqn:X0.
    + rewrite run_skip by (intros C; apply LA in C; lia).
      destruct (RB e1 X1) as (_ & _ & _ & _ & _ & B).
      destruct (yeval rho b) as [y| | |] eqn:Seb; try contradiction.
      * split; [exact GB|]. destruct B as (e2 & R2 & V2 & X2 & O2).
        pose proof (arm_done sb (S M0) M2 (nm n0) rb [] e1 e2 (wrap y) Cb R2 V2 ltac:(intros [])) as AD. cbn [app] in AD.
        fold sb' in AD. fold ARMB in AD. rewrite AD.
        eexists. split; [reflexivity|]. split; [cbn [vval lookup]; rewrite String.eqb_refl; reflexivity|].
        split; [| apply old_nm; lia].
        apply (ext_trans n n e0 e1 _ (Nat.le_refl n) X1).
        apply (ext_trans n n e1 e2 _ (Nat.le_refl n) (ext_le n n1 _ _ ltac:(lia) X2)). apply ext_cons. lia.
      * split; [exact I|]. unfold ARMB, sb'. apply arm_rev; assumption.
    + destruct (RA e1 X1) as (_ & _ & _ & _ & _ & A).
      destruct (yeval rho a) as [y| | |] eqn:Sea; try contradiction.
      * split; [exact GA|]. destruct A as (e2 & R2 & V2 & X2 & O2).
        pose proof (arm_done sa M0 M2 (nm n0) ra ARMB e1 e2 (wrap y) Ca R2 V2 ltac:(intros C; apply LBB in C; lia)) as AD.
        fold sa' in AD. fold ARMA in AD. rewrite AD.
        eexists. split; [reflexivity|]. split; [cbn [vval lookup]; rewrite String.eqb_refl; reflexivity|].
        split; [| apply old_nm; lia].
        apply (ext_trans n n e0 e1 _ (Nat.le_refl n) X1).
        apply (ext_trans n n e1 e2 _ (Nat.le_refl n) (ext_le n (S n0) _ _ ltac:(lia) X2)). apply ext_cons. lia.
      * split; [exact I|]. unfold ARMA, sa'. apply arm_rev; assumption.
Qed.

Definition yvrun (e0 : env) (p : vop * list vblock) : outcome := vrun_blocks e0 p.

Theorem yvexpr_correct : forall e rho e0, ywt false e = true -> yenv_ok rho e = true -> venv rho e0 ->
  vrun_blocks e0 (ylower e) = enc_out (yeval rho e).
Proof.
  intros e rho e0 Wt E VE. pose proof (ygen_correct e rho Wt E 0%nat 1%nat 0%nat e0 ltac:(lia) VE) as G.
  unfold ylower. destruct (ygen e 0 1) as [[[sg r] n'] L']. destruct G as (_ & _ & _ & _ & GD & S).
  unfold vrun_blocks. cbn [fst snd]. destruct (flat_head 0 sg) as (b & t & Ef & El). rewrite Ef, El, <- Ef.
  destruct (yeval rho e) as [v| | |]; try contradiction.
  - destruct S as (e1 & -> & -> & _). reflexivity.
  - rewrite S. reflexivity.
Qed.
