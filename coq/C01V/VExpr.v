(* VExpr: a Gallina re-implementation of the VENOM front end's expression lowering
     vyper/codegen_venom/expr.py  Expr.lower_Int / lower_NameConstant / lower_Name (locals) / lower_BinOp (apply_binop:
     + - * // % via arithmetic.safe_*, & | ^) / lower_Compare / lower_BoolOp / lower_UnaryOp (not, USub) / lower_IfExp
   for integer / bool expressions over local variables, producing Venom instructions through a model of VenomBuilder:
   a counter of fresh variables, a counter of fresh block labels, the current block and the blocks appended so far.
   Straight-line instructions are C03/VSL.v's (operands in IRInstruction.operands order); the arithmetic templates are
   C03's v_safe_* (VenomExact.v proves them exact, TieVenom checks them against the real generators on every run),
   instantiated at the operands and the fresh-variable counter of the call site.
   A local variable lives in an alloca'd memory word; reading it is `%k = mload %alloca`: the exporter writes that
   instruction as  VAssign "%k" (VVar <local>)  (expressions of this fragment write no memory).
   Source syntax and meaning: C01/ExprCompile.v (sexpr, seval); its legacy cache flags are ignored here. *)
From Coq Require Import ZArith Bool List String Ascii.
From Verif Require Import Base.Word256 C03.LIR C03.ArithSpec C03.ArithModel C03.VSL C01.ExprCompile.
Import ListNotations.
Open Scope string_scope.
Open Scope Z_scope.

(* ---------------- names ---------------- *)
(* fresh variables: the k-th variable created (the tie exports the real %N as (nm (N - base))) *)
Fixpoint un (k : nat) : string := match k with O => "" | S j => String "i" (un j) end.
Definition nm (k : nat) : string := String "%" (un k).

(* template variable "%j" (3 <= j <= 16) -> its index j *)
Definition tidx (s : string) : option nat :=
  let fix go (j : nat) (n : nat) : option nat :=
    match n with O => None | S n' => if String.eqb s (pn j) then Some j else go (S j) n' end in go 1%nat 16%nat.

(* instantiate a C03 template: %1 -> a, %2 -> b, %j (j >= 3) -> fresh variable n + (j - 3) *)
Definition inst_op (a b : vop) (n : nat) (o : vop) : vop :=
  match o with
  | VLit _ => o
  | VVar s => match tidx s with
              | Some 1%nat => a
              | Some 2%nat => b
              | Some j => VVar (nm (n + (j - 3)))
              | None => o
              end
  end.
Definition inst_name (n : nat) (s : string) : string :=
  match tidx s with Some j => nm (n + (j - 3)) | None => s end.
Definition inst_instr (a b : vop) (n : nat) (i : vinstr) : vinstr :=
  match i with
  | V1 o p x => V1 (inst_name n o) p (inst_op a b n x)
  | V2 o p x y => V2 (inst_name n o) p (inst_op a b n x) (inst_op a b n y)
  | V3 o p x y z => V3 (inst_name n o) p (inst_op a b n x) (inst_op a b n y) (inst_op a b n z)
  | VAssign o x => VAssign (inst_name n o) (inst_op a b n x)
  | VAssert x => VAssert (inst_op a b n x)
  end.
Definition n_outs (l : list vinstr) : nat :=
  List.length (filter (fun i => match i with VAssert _ => false | _ => true end) l).
(* -> instructions, result operand, number of fresh variables used *)
Definition inst_tmpl (t : vtemplate) (a b : vop) (n : nat) : list vinstr * vop * nat :=
  (map (inst_instr a b n) (fst t), inst_op a b n (snd t), n_outs (fst t)).

Definition vtmpl (op : bop) (T : nty) : vtemplate :=
  match op with
  | BAdd => v_safe_add T | BSub => v_safe_sub T | BMul => v_safe_mul T | BDiv => v_safe_div T | BMod => v_safe_mod T
  end.

(* ---------------- the builder ---------------- *)
Inductive vterm := TNone | TJnz (c : vop) (t f : nat) | TJmp (l : nat).
Record vblock := mkB { b_lab : nat; b_body : list vinstr; b_term : vterm }.
Record bstate := mkS { s_var : nat; s_lab : nat; s_cur : nat; s_blocks : list vblock }.

Definition upd_block (l : nat) (f : vblock -> vblock) (bs : list vblock) : list vblock :=
  map (fun b => if Nat.eqb (b_lab b) l then f b else b) bs.
Definition emit (is : list vinstr) (s : bstate) : bstate :=
  mkS (s_var s) (s_lab s) (s_cur s) (upd_block (s_cur s) (fun b => mkB (b_lab b) (b_body b ++ is) (b_term b)) (s_blocks s)).
Definition set_term (l : nat) (t : vterm) (s : bstate) : bstate :=
  mkS (s_var s) (s_lab s) (s_cur s) (upd_block l (fun b => mkB (b_lab b) (b_body b) t) (s_blocks s)).
Definition fresh (s : bstate) : nat * bstate := (s_var s, mkS (S (s_var s)) (s_lab s) (s_cur s) (s_blocks s)).
Definition fresh_n (k : nat) (s : bstate) : bstate := mkS (s_var s + k) (s_lab s) (s_cur s) (s_blocks s).
Definition create_block (s : bstate) : nat * bstate := (s_lab s, mkS (s_var s) (S (s_lab s)) (s_cur s) (s_blocks s)).
(* append_block + set_block *)
Definition enter_block (l : nat) (s : bstate) : bstate :=
  mkS (s_var s) (s_lab s) l (s_blocks s ++ [mkB l [] TNone]).
(* label 0 = the block the expression starts in; created labels start at 1 *)
Definition init_state : bstate := mkS 0 1 0 [mkB 0 [] TNone].

Definition bit_op2 (op : bitop) : op2 := match op with BitAnd => OAnd | BitOr => OOr | BitXor => OXor end.

(* lower_Compare: (opcode, negate with iszero) ; unsigned opcodes for uint256 only *)
Definition vcmp (op : cop) (t : sty) : op2 * bool :=
  let u := is_u256 t in
  match op with
  | CLt => (if u then OLt else OSlt, false)
  | CGt => (if u then OGt else OSgt, false)
  | CEq => (OEq, false)
  | CNe => (OEq, true)
  | CLe => (if u then OGt else OSgt, true)
  | CGe => (if u then OLt else OSlt, true)
  end.

(* Expr(node).lower_value(): returns the result operand and the new builder state *)
Fixpoint vcompile (e : sexpr) (s : bstate) : vop * bstate :=
  match e with
  | XInt _ v => (VLit v, s)
  | XBool b => (VLit (b2z b), s)
  | XVar x _ => let (k, s1) := fresh s in (VVar (nm k), emit [VAssign (nm k) (VVar x)] s1)
  | XBin op T _ _ _ _ a b =>
      let (va, s1) := vcompile a s in
      let (vb, s2) := vcompile b s1 in
      let '(is, r, k) := inst_tmpl (vtmpl op T) va vb (s_var s2) in
      (r, emit is (fresh_n k s2))
  | XBit op _ a b =>
      let (va, s1) := vcompile a s in
      let (vb, s2) := vcompile b s1 in
      let (k, s3) := fresh s2 in
      (VVar (nm k), emit [V2 (nm k) (bit_op2 op) vb va] s3)
  | XCmp op t a b =>
      let (va, s1) := vcompile a s in
      let (vb, s2) := vcompile b s1 in
      let (o, neg) := vcmp op t in
      let (k, s3) := fresh s2 in
      if neg then let (k2, s4) := fresh s3 in
                  (VVar (nm k2), emit [V2 (nm k) o vb va; V1 (nm k2) OIszero (VVar (nm k))] s4)
      else (VVar (nm k), emit [V2 (nm k) o vb va] s3)
  | XNot a =>
      let (va, s1) := vcompile a s in
      let (k, s2) := fresh s1 in
      (VVar (nm k), emit [V1 (nm k) OIszero va] s2)
  | XNeg T _ a =>
      let (va, s1) := vcompile a s in
      let (k, s2) := fresh s1 in
      let (k2, s3) := fresh s2 in
      (VVar (nm k2), emit [V2 (nm k) OSgt (VLit (ty_lo T)) va; VAssert (VVar (nm k)); V2 (nm k2) OSub va (VLit 0)] s3)
  | XAnd a b =>
      let (res, s1) := fresh s in
      let (ex, s2) := create_block s1 in
      let (va, s3) := vcompile a s2 in
      let (nx, s4) := create_block s3 in
      let (fl, s5) := create_block s4 in
      let s6 := set_term (s_cur s5) (TJnz va nx fl) s5 in
      let s7 := set_term fl (TJmp ex) (emit [VAssign (nm res) (VLit 0)] (enter_block fl s6)) in
      let s8 := enter_block nx s7 in
      let (vb, s9) := vcompile b s8 in
      let s10 := set_term (s_cur s9) (TJmp ex) (emit [VAssign (nm res) vb] s9) in
      (VVar (nm res), enter_block ex s10)
  | XOr a b =>
      let (res, s1) := fresh s in
      let (ex, s2) := create_block s1 in
      let (va, s3) := vcompile a s2 in
      let (tr, s4) := create_block s3 in
      let (nx, s5) := create_block s4 in
      let s6 := set_term (s_cur s5) (TJnz va tr nx) s5 in
      let s7 := set_term tr (TJmp ex) (emit [VAssign (nm res) (VLit 1)] (enter_block tr s6)) in
      let s8 := enter_block nx s7 in
      let (vb, s9) := vcompile b s8 in
      let s10 := set_term (s_cur s9) (TJmp ex) (emit [VAssign (nm res) vb] s9) in
      (VVar (nm res), enter_block ex s10)
  | XIf c a b =>
      let (vc, s1) := vcompile c s in
      let cb := s_cur s1 in
      let (th, s2) := create_block s1 in
      let (el, s3) := create_block s2 in
      let (res, s4) := fresh s3 in
      let (va, s5) := vcompile a (enter_block th s4) in
      let thf := s_cur s5 in
      let s6 := emit [VAssign (nm res) va] s5 in
      let (vb, s7) := vcompile b (enter_block el s6) in
      let elf := s_cur s7 in
      let s8 := emit [VAssign (nm res) vb] s7 in
      let s9 := set_term cb (TJnz vc th el) s8 in
      let (ex, s10) := create_block s9 in
      let s11 := enter_block ex s10 in
      (VVar (nm res), set_term elf (TJmp ex) (set_term thf (TJmp ex) s11))
  end.

Definition vlower (e : sexpr) : vop * list vblock := let (r, s) := vcompile e init_state in (r, s_blocks s).

(* ---------------- decidable equality (for the tie) ---------------- *)
Definition vterm_eqb (a b : vterm) : bool :=
  match a, b with
  | TNone, TNone => true
  | TJnz c t f, TJnz c' t' f' => vop_eqb c c' && Nat.eqb t t' && Nat.eqb f f'
  | TJmp l, TJmp l' => Nat.eqb l l'
  | _, _ => false
  end.
Definition vblock_eqb (a b : vblock) : bool :=
  Nat.eqb (b_lab a) (b_lab b) && vlist_eqb (b_body a) (b_body b) && vterm_eqb (b_term a) (b_term b).
Fixpoint vblocks_eqb (a b : list vblock) : bool :=
  match a, b with [], [] => true | x :: s, y :: t => vblock_eqb x y && vblocks_eqb s t | _, _ => false end.
(* the real front end's output for e (exported) equals the model's *)
Definition vtie_ok (e : sexpr) (r : vop) (bs : list vblock) : bool :=
  let (r', bs') := vlower e in vop_eqb r r' && vblocks_eqb bs bs'.
