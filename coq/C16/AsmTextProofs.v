(* C16: the `asm` listing printer (_build_asm) is total on well-formed assembled programs, and its PUSH
   grouping (in_push) is the byte-level grouping: after each PUSHk it prints exactly the k immediates. *)
From Coq Require Import ZArith List Bool String Lia ZifyBool.
From Verif Require Import Base.PyInt C16.Asm C16.HexBytes C16.LoopsPrelude C16.PushProofs C16.AsmProofs C16.Views.
Import ListNotations.
Open Scope list_scope.
Open Scope Z_scope.

(* table condition (finite, checked by computation for the regenerated tables): a mnemonic that the printer
   treats as a push (prefix "PUSH", not PUSH0) announces exactly push_width(byte) immediates, and every other
   mnemonic has a byte that is not a push *)
Definition asm_names_ok (tbl : list (string * Z)) : bool :=
  forallb (fun e =>
    if prefixb "PUSH" (fst e) && negb (String.eqb (fst e) "PUSH0")
    then match py_int_of_str (str_drop 4 (fst e)) with Ok n => n =? Z.of_nat (push_width (snd e)) | Err _ => false end
    else Nat.eqb (push_width (snd e)) 0) tbl.

Lemma slookup_in' : forall tbl s b, slookup tbl s = Some b -> In (s, b) tbl.
Proof.
  induction tbl as [| [k v] r IH]; intros s b H; [discriminate |]. cbn in H.
  destruct (String.eqb_spec k s) as [-> | N]; [injection H as <-; left; reflexivity | right; auto].
Qed.

Section AsmTextTotal.
  Variable tbl : list (string * Z).
  Variable push0 : bool.
  Variable nm nmc : Z -> string.
  Hypothesis names : asm_names_ok tbl = true.

  Lemma wf_data_text : forall asm, wf_data asm = true -> exists t, asm_text_from nm nmc 0 asm = Ok t.
  Proof.
    induction asm as [| it r IH]; intros W; [eexists; reflexivity |].
    destruct it; try discriminate W; cbn [wf_data] in W; destruct (IH W) as (t & E);
      cbn [asm_text_from]; cbn [Z.ltb Z.compare]; rewrite E; cbn [bind]; eexists; reflexivity.
  Qed.

  Theorem asm_text_total_model : forall cm asm pend sm pc r,
    wf_code tbl cm pend asm = true -> resolve_walk tbl push0 cm asm sm pc = Ok r ->
    exists t, asm_text_from nm nmc (Z.of_nat pend) asm = Ok t.
  Proof.
    intros cm. induction asm as [| it rest IH]; intros pend sm pc r W R; [eexists; reflexivity |].
    destruct r as [smr pcr]. apply walk_cons in R as (sm1 & pc1 & Ri & Rr).
    destruct pend as [| p].
    - change (Z.of_nat 0) with 0.
      destruct it; cbn [wf_code] in W; try discriminate W.
      + (* IOp *)
        cbn [asm_text_from]. cbn [Z.ltb Z.compare].
        destruct (String.eqb s "DEBUG") eqn:D.
        * apply String.eqb_eq in D. subst s. cbn [prefixb]. cbn.
          destruct (IH _ _ _ _ W Rr) as (t & E). change (Z.of_nat 0) with 0 in E. rewrite E. cbn. eexists; reflexivity.
        * cbn [resolve_item] in Ri. rewrite D in Ri.
          destruct (slookup tbl s) as [b |] eqn:L; [| discriminate Ri].
          unfold op_width in W. rewrite L in W.
          pose proof (slookup_in' _ _ _ L) as I. unfold asm_names_ok in names. rewrite forallb_forall in names.
          specialize (names _ I). cbn [fst snd] in names.
          destruct (prefixb "PUSH" s && negb (String.eqb s "PUSH0")).
          -- destruct (py_int_of_str (str_drop 4 s)) as [n | e]; [| discriminate names].
             apply Z.eqb_eq in names. subst n. cbn [bind].
             destruct (IH _ _ _ _ W Rr) as (t & E). rewrite E. cbn [bind]. eexists; reflexivity.
          -- apply Nat.eqb_eq in names. rewrite names in W.
             destruct (IH _ _ _ _ W Rr) as (t & E). change (Z.of_nat 0) with 0 in E. rewrite E. cbn [bind]. eexists; reflexivity.
      + destruct (IH _ _ _ _ W Rr) as (t & E). change (Z.of_nat 0) with 0 in E.
        cbn [asm_text_from]. cbn [Z.ltb Z.compare]. rewrite E. cbn [bind]. eexists; reflexivity.
      + destruct (IH _ _ _ _ W Rr) as (t & E). change (Z.of_nat 0) with 0 in E.
        cbn [asm_text_from]. rewrite E. cbn [bind]. eexists; reflexivity.
      + destruct (IH _ _ _ _ W Rr) as (t & E). change (Z.of_nat 0) with 0 in E.
        cbn [asm_text_from]. cbn [Z.ltb Z.compare]. rewrite E. cbn [bind]. eexists; reflexivity.
      + destruct (lookup cm c); [| discriminate W]. apply andb_prop in W as [_ W].
        destruct (IH _ _ _ _ W Rr) as (t & E). change (Z.of_nat 0) with 0 in E.
        cbn [asm_text_from]. cbn [Z.ltb Z.compare]. rewrite E. cbn [bind]. eexists; reflexivity.
      + apply (wf_data_text _ W).
      + apply (wf_data_text _ W).
      + apply (wf_data_text _ W).
      + destruct (IH _ _ _ _ W Rr) as (t & E). change (Z.of_nat 0) with 0 in E.
        cbn [asm_text_from]. cbn [Z.ltb Z.compare]. rewrite E. cbn [bind]. eexists; reflexivity.
    - destruct it; cbn [wf_code] in W; try discriminate W.
      destruct (IH _ _ _ _ W Rr) as (t & E).
      cbn [asm_text_from]. assert (0 <? Z.of_nat (S p) = true) as -> by lia.
      replace (Z.of_nat (S p) - 1) with (Z.of_nat p) by lia. rewrite E. cbn [bind]. eexists; reflexivity.
  Qed.
End AsmTextTotal.
