(* Harness encoding of byte strings as lower-case hex text (used to pass DATA_ITEM payloads and
   expected bytecode to the model compactly).  [hex_unhex] shows the encoding is lossless. *)
From Coq Require Import ZArith List Bool String Ascii Lia.
Import ListNotations.
Open Scope Z_scope.

Definition nib_val (c : ascii) : Z :=
  match c with
  | "0" => 0 | "1" => 1 | "2" => 2 | "3" => 3 | "4" => 4 | "5" => 5 | "6" => 6 | "7" => 7
  | "8" => 8 | "9" => 9 | "a" => 10 | "b" => 11 | "c" => 12 | "d" => 13 | "e" => 14 | "f" => 15
  | _ => -1000
  end%char.

Fixpoint unhex (s : string) : list Z :=
  match s with
  | String a (String b r) => (nib_val a * 16 + nib_val b) :: unhex r
  | _ => []
  end.

Definition nib_chr (n : Z) : ascii :=
  match n with
  | 0 => "0" | 1 => "1" | 2 => "2" | 3 => "3" | 4 => "4" | 5 => "5" | 6 => "6" | 7 => "7"
  | 8 => "8" | 9 => "9" | 10 => "a" | 11 => "b" | 12 => "c" | 13 => "d" | 14 => "e" | 15 => "f"
  | _ => "?"
  end%char.

Fixpoint hex (bs : list Z) : string :=
  match bs with
  | [] => EmptyString
  | b :: r => String (nib_chr (b / 16)) (String (nib_chr (b mod 16)) (hex r))
  end.

Definition is_byte (b : Z) : Prop := 0 <= b < 256.

Lemma nib_roundtrip : forall n, 0 <= n < 16 -> nib_val (nib_chr n) = n.
Proof.
  intros n H.
  assert (n = 0 \/ n = 1 \/ n = 2 \/ n = 3 \/ n = 4 \/ n = 5 \/ n = 6 \/ n = 7 \/ n = 8 \/ n = 9 \/
          n = 10 \/ n = 11 \/ n = 12 \/ n = 13 \/ n = 14 \/ n = 15) as C by lia.
  repeat (destruct C as [C | C]; [subst; reflexivity |]). subst; reflexivity.
Qed.

Lemma hex_unhex : forall bs, Forall is_byte bs -> unhex (hex bs) = bs.
Proof.
  induction 1 as [| b r Hb _ IH]; [reflexivity |].
  cbn [hex unhex]. rewrite IH. f_equal.
  unfold is_byte in Hb.
  rewrite !nib_roundtrip.
  - pose proof (Z.div_mod b 16). lia.
  - apply Z.mod_pos_bound; lia.
  - split; [apply Z.div_pos; lia | apply Z.div_lt_upper_bound; lia].
Qed.
