(* C16: facts about the push encodings of Asm.v (be_n, be_bytes, push_bytes, push_n_bytes). *)
From Coq Require Import ZArith List Bool String Lia.
From Verif Require Import Base.PyInt C16.Asm C16.HexBytes.
Import ListNotations.
Open Scope Z_scope.

Lemma be_val_snoc : forall l b, be_val (l ++ [b]) = be_val l * 256 + b.
Proof. intros. unfold be_val. rewrite fold_left_app. reflexivity. Qed.

Lemma be_n_length : forall n x, List.length (be_n n x) = n.
Proof.
  induction n; intros; cbn [be_n]; [reflexivity |].
  rewrite app_length, IHn. cbn. lia.
Qed.

Lemma be_n_bytes : forall n x, Forall is_byte (be_n n x).
Proof.
  induction n; intros; cbn [be_n]; [constructor |].
  apply Forall_app; split; [apply IHn |].
  constructor; [| constructor]. unfold is_byte. apply Z.mod_pos_bound. lia.
Qed.

Lemma pow256_S : forall m : nat, 256 ^ Z.of_nat (S m) = 256 * 256 ^ Z.of_nat m.
Proof. intros. rewrite Nat2Z.inj_succ, Z.pow_succ_r by lia. reflexivity. Qed.

Lemma pow256_pos : forall m : nat, 0 < 256 ^ Z.of_nat m.
Proof. intros. apply Z.pow_pos_nonneg; lia. Qed.

Lemma be_n_val : forall n x, be_val (be_n n x) = x mod 256 ^ Z.of_nat n.
Proof.
  induction n; intros x.
  - cbn. rewrite Z.mod_1_r. reflexivity.
  - cbn [be_n]. rewrite be_val_snoc, IHn, pow256_S.
    rewrite Z.rem_mul_r by (pose proof (pow256_pos n); lia). lia.
Qed.

(* PUSH_N accepts exactly the values that fit: no truncation, negatives rejected *)
Lemma div_pow_zero_iff : forall x (n : nat), x / 256 ^ Z.of_nat n = 0 <-> 0 <= x < 256 ^ Z.of_nat n.
Proof.
  intros. pose proof (pow256_pos n) as P. split; intro H.
  - pose proof (Z.div_mod x (256 ^ Z.of_nat n)) as D.
    pose proof (Z.mod_pos_bound x (256 ^ Z.of_nat n) P). rewrite H in D. lia.
  - apply Z.div_small. exact H.
Qed.

Theorem push_n_total : forall x n,
  (0 <= x < 256 ^ Z.of_nat n -> push_n_bytes x n = Ok ((PUSH_OFFSET + Z.of_nat n) :: be_n n x)) /\
  (~ (0 <= x < 256 ^ Z.of_nat n) -> push_n_bytes x n = Err AssertFail).
Proof.
  intros. unfold push_n_bytes. pose proof (div_pow_zero_iff x n) as D.
  destruct (x / 256 ^ Z.of_nat n =? 0) eqn:E.
  - apply Z.eqb_eq in E. split; intro H; [reflexivity | tauto].
  - apply Z.eqb_neq in E. split; intro H; [tauto | reflexivity].
Qed.

Theorem push_n_value : forall x n bs,
  push_n_bytes x n = Ok bs ->
  0 <= x < 256 ^ Z.of_nat n /\
  exists imm, bs = (PUSH_OFFSET + Z.of_nat n) :: imm /\ List.length imm = n /\ be_val imm = x /\ Forall is_byte imm.
Proof.
  intros x n bs H. unfold push_n_bytes in H.
  destruct (x / 256 ^ Z.of_nat n =? 0) eqn:E; [| discriminate].
  apply Z.eqb_eq, div_pow_zero_iff in E. injection H as <-. split; [exact E |].
  exists (be_n n x). repeat split.
  - apply be_n_length.
  - rewrite be_n_val. apply Z.mod_small. exact E.
  - apply be_n_bytes.
Qed.

(* ---------- minimal width *)
Lemma pow256_as_2 : forall m, 0 <= m -> 256 ^ m = 2 ^ (8 * m).
Proof. intros. rewrite Z.pow_mul_r by lia. reflexivity. Qed.

Lemma nbytes_Z : forall x, 0 < x -> Z.of_nat (nbytes x) = Z.log2 x / 8 + 1.
Proof.
  intros x H. unfold nbytes. destruct (x <=? 0) eqn:E; [lia |].
  pose proof (Z.log2_nonneg x). rewrite Nat2Z.inj_succ, Z2Nat.id; [lia |].
  apply Z.div_pos; lia.
Qed.

Lemma nbytes_nonpos : forall x, x <= 0 -> nbytes x = O.
Proof. intros. unfold nbytes. destruct (x <=? 0) eqn:E; [reflexivity | lia]. Qed.

Lemma nbytes_spec : forall x, 0 < x ->
  256 ^ (Z.of_nat (nbytes x) - 1) <= x < 256 ^ Z.of_nat (nbytes x).
Proof.
  intros x H. rewrite nbytes_Z by exact H.
  pose proof (Z.log2_spec x H) as [L U]. pose proof (Z.log2_nonneg x) as K.
  set (k := Z.log2 x) in *.
  assert (0 <= k / 8) by (apply Z.div_pos; lia).
  pose proof (Z.div_mod k 8 ltac:(lia)) as D. pose proof (Z.mod_pos_bound k 8 ltac:(lia)) as M.
  rewrite !pow256_as_2 by lia. split.
  - eapply Z.le_trans; [| exact L]. apply Z.pow_le_mono_r; lia.
  - eapply Z.lt_le_trans; [exact U |]. apply Z.pow_le_mono_r; lia.
Qed.

(* any width that holds x is at least nbytes x *)
Lemma nbytes_least : forall x (n : nat), 0 <= x < 256 ^ Z.of_nat n -> (nbytes x <= n)%nat.
Proof.
  intros x n [L U]. destruct (Z.eq_dec x 0) as [-> | NZ].
  - rewrite nbytes_nonpos by lia. lia.
  - pose proof (nbytes_spec x ltac:(lia)) as [A _].
    destruct (Nat.le_gt_cases (nbytes x) n) as [|G]; [assumption | exfalso].
    assert (256 ^ Z.of_nat n <= 256 ^ (Z.of_nat (nbytes x) - 1)) by (apply Z.pow_le_mono_r; lia).
    lia.
Qed.

Lemma nbytes_le_32 : forall x, 0 <= x -> ((nbytes x <= 32)%nat <-> x < 2 ^ 256).
Proof.
  intros x H. change (2 ^ 256) with (256 ^ Z.of_nat 32). split; intro A.
  - destruct (Z.eq_dec x 0) as [-> | NZ]; [pose proof (pow256_pos 32); lia |].
    pose proof (nbytes_spec x ltac:(lia)) as [_ U].
    eapply Z.lt_le_trans; [exact U |]. apply Z.pow_le_mono_r; lia.
  - apply nbytes_least. lia.
Qed.

Lemma be_bytes_length : forall x, List.length (be_bytes x) = nbytes x.
Proof. intros. apply be_n_length. Qed.

Lemma be_bytes_val : forall x, 0 <= x -> be_val (be_bytes x) = x.
Proof.
  intros x H. unfold be_bytes. rewrite be_n_val.
  destruct (Z.eq_dec x 0) as [-> | NZ]; [apply Z.mod_0_l; pose proof (pow256_pos (nbytes 0)); lia |].
  apply Z.mod_small. pose proof (nbytes_spec x ltac:(lia)). lia.
Qed.

(* what PUSH must satisfy *)
Definition push_width_spec (push0 : bool) (x : Z) : nat :=
  if x =? 0 then (if push0 then 0%nat else 1%nat) else nbytes x.

Theorem push_bytes_shape : forall push0 x, 0 <= x ->
  exists imm, push_bytes push0 x = (PUSH_OFFSET + zlen imm) :: imm /\
              List.length imm = push_width_spec push0 x /\
              be_val imm = x /\ Forall is_byte imm.
Proof.
  intros push0 x H. unfold push_bytes, push_width_spec.
  rewrite be_bytes_length.
  destruct (Z.eqb_spec x 0) as [-> | NZ].
  - rewrite nbytes_nonpos by lia. cbn [Nat.eqb andb].
    destruct push0; cbn [negb].
    + exists []. repeat split; try reflexivity. constructor.
    + exists [0]. repeat split; try reflexivity. constructor; [unfold is_byte; lia | constructor].
  - assert (nbytes x <> O) as NN.
    { pose proof (nbytes_Z x ltac:(lia)). pose proof (Z.log2_nonneg x).
      assert (0 <= Z.log2 x / 8) by (apply Z.div_pos; lia). lia. }
    destruct (Nat.eqb_spec (nbytes x) 0); [contradiction |]. cbn [andb].
    exists (be_bytes x). repeat split.
    + apply be_bytes_length.
    + apply be_bytes_val; exact H.
    + apply be_n_bytes.
Qed.

(* minimality + totality: for 0 <= x < 2^256 the width is the least n with x < 256^n
   (except the two spellings of zero), it is at most 32, and the opcode byte is PUSH0..PUSH32;
   for x >= 2^256 the width exceeds 32, i.e. the byte 0x5f+n is not a PUSH opcode at all. *)
Theorem push_width_minimal : forall push0 x, 0 < x ->
  x < 256 ^ Z.of_nat (push_width_spec push0 x) /\
  (forall n : nat, x < 256 ^ Z.of_nat n -> (push_width_spec push0 x <= n)%nat).
Proof.
  intros push0 x H. unfold push_width_spec. destruct (Z.eqb_spec x 0); [lia |]. split.
  - apply nbytes_spec; exact H.
  - intros n' Hn. apply nbytes_least. lia.
Qed.

Theorem push_width_le_32 : forall push0 x, 0 <= x ->
  ((push_width_spec push0 x <= 32)%nat <-> x < 2 ^ 256).
Proof.
  intros push0 x H. unfold push_width_spec. destruct (Z.eqb_spec x 0) as [-> | NZ].
  - split; intro; [reflexivity | destruct push0; lia].
  - apply nbytes_le_32; exact H.
Qed.

Theorem push_zero : forall push0, push_bytes push0 0 = if push0 then [0x5f] else [0x60; 0].
Proof. destruct push0; reflexivity. Qed.

Lemma calc_push_size_spec : forall push0 x, 0 <= x ->
  calc_push_size push0 x = 1 + Z.of_nat (push_width_spec push0 x).
Proof.
  intros push0 x H. unfold calc_push_size.
  destruct (push_bytes_shape push0 x H) as (imm & E & L & _). rewrite E.
  unfold zlen. cbn [List.length]. rewrite L. lia.
Qed.
