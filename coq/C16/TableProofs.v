(* C16: data sections / jump tables.  Position of every item of a data section (header offset + sizes of the
   items before it) and meaning of a label stored in data: its two bytes are the resolved offset, which is a valid
   jump destination when the label is a code label, or the start of a data section when it is a data header. *)
From Coq Require Import ZArith List Bool String Lia ZifyBool.
From Verif Require Import Base.PyInt C16.Asm C16.HexBytes C16.PushProofs C16.AsmProofs.
Import ListNotations.
Open Scope list_scope.
Open Scope Z_scope.

Definition is_data_item (it : item) : bool :=
  match it with IDataBytes _ | IDataLabel _ => true | _ => false end.
Definition data_item_size (it : item) : Z :=
  match it with IDataBytes bs => zlen bs | IDataLabel _ => 2 | _ => 0 end.
Definition data_size (ds : list item) : Z := fold_right (fun it a => data_item_size it + a) 0 ds.

Section Tables.
  Variable tbl : list (string * Z).
  Variable push0 : bool.
  Hypothesis jumpdest_byte : slookup tbl "JUMPDEST" = Some 0x5b.

  Lemma emit_data_size : forall sm cm ds b, forallb is_data_item ds = true ->
    emit tbl push0 sm cm ds = Ok b -> zlen b = data_size ds.
  Proof.
    intros sm cm. induction ds as [| it r IH]; intros b F E.
    - inv E. reflexivity.
    - cbn [forallb] in F. apply andb_prop in F as [Fi Fr].
      apply emit_cons in E as (bi & br & Ei & Er & ->). rewrite zlen_app, (IH _ Fr Er).
      cbn [data_size fold_right]. f_equal. destruct it; try discriminate Fi; cbn in Ei.
      + inv Ei. reflexivity.
      + apply bind_ok in Ei as (v & _ & Ei). apply to_bytes2_ok in Ei as (_ & ->).
        unfold zlen. rewrite be_n_length. reflexivity.
  Qed.

  (* every item of a data section sits at  offset(header) + sizes of the items before it *)
  Theorem data_item_position_model : forall asm bs sm cm p t ds it s,
    assemble tbl push0 asm = Ok (bs, sm, cm) -> asm = p ++ IDataHeader t :: ds ++ it :: s ->
    forallb is_data_item ds = true ->
    exists base bi bpre bsuf,
      lookup sm t = Some base /\ emit_item tbl push0 sm cm it = Ok bi /\
      bs = bpre ++ bi ++ bsuf /\ zlen bpre = base + data_size ds.
  Proof.
    intros asm bs sm cm p t ds it s A E F.
    destruct (symbol_position tbl push0 _ _ _ _ p (IDataHeader t) (ds ++ it :: s) t A E (or_intror eq_refl)) as (bp & Ep & L).
    assert (asm = (p ++ IDataHeader t :: ds) ++ it :: s) as E2 by (rewrite E, <- app_assoc; reflexivity).
    destruct (item_bytes_at_model tbl push0 _ _ _ _ _ _ _ A E2) as (bpre & bi & bsuf & -> & Epre & Ei & _).
    apply emit_app in Epre as (bp' & bd & Ep' & Ed & ->). rewrite Ep in Ep'. inv Ep'.
    apply emit_cons in Ed as (bh & bds & Eh & Eds & ->). cbn in Eh. inv Eh. cbn [app].
    exists (zlen bp'), bi, (bp' ++ bds), bsuf. repeat split; try assumption.
    rewrite zlen_app, (emit_data_size _ _ _ _ F Eds). reflexivity.
  Qed.

  (* a label stored in data (jump-table entry / bucket pointer) *)
  Theorem data_label_target_model : forall asm bs sm cm p l s,
    assemble tbl push0 asm = Ok (bs, sm, cm) -> wf_asm tbl asm = true -> asm = p ++ IDataLabel l :: s ->
    exists off bpre bsuf,
      lookup sm l = Some off /\ 0 <= off < 65536 /\ bs = bpre ++ [off / 256; off mod 256] ++ bsuf /\
      pc_after tbl push0 cm p 0 = Ok (zlen bpre) /\
      (In (ILabel l) asm -> valid_jumpdest bs off) /\
      (forall p' s', asm = p' ++ IDataHeader l :: s' -> exists bp', emit tbl push0 sm cm p' = Ok bp' /\ off = zlen bp').
  Proof.
    intros asm bs sm cm p l s A W E.
    destruct (item_bytes_at_model tbl push0 _ _ _ _ _ _ _ A E) as (bpre & bi & bsuf & -> & Epre & Ei & P).
    apply data_label_value_model in Ei as (off & L & R & -> & _).
    exists off, bpre, bsuf.
    split; [exact L | split; [lia | split; [reflexivity | split; [exact P | split]]]].
    - intro I. destruct (label_is_jumpdest_model tbl push0 jumpdest_byte _ _ _ _ l A W I) as (off' & L' & V).
      rewrite L in L'. inv L'. exact V.
    - intros p' s' E'. destruct (symbol_position tbl push0 _ _ _ _ p' (IDataHeader l) s' l A E' (or_intror eq_refl)) as (bp' & Ep' & L').
      exists bp'. split; [exact Ep' |]. rewrite L in L'. inv L'. reflexivity.
  Qed.
End Tables.
