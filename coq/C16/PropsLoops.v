(* C16 property theorems about the REGENERATED assembler loops (GenAsmLoops.v, translated on every run from
   vyper/evm/assembler/symbols.py:resolve_symbols and core.py:_assembly_to_evm/_compile_data_item). *)
From Coq Require Import ZArith List Bool String Lia.
From Verif Require Import Base.PyInt C16.Asm C16.HexBytes C16.PushProofs C16.InstrBridge C16.AsmProofs C16.DecodeProofs
  C16.LoopsPrelude C16.EvmOpcodes C16.GenOpcodes C16.GenAsmInstr C16.InstrSound C16.GenAsmLoops C16.LoopsSound C16.PropsAsm.
Import ListNotations.
Open Scope list_scope.
Open Scope Z_scope.

Lemma tables_wf : forall v, In v evm_versions -> table_wf (opcode_table v) = true.
Proof.
  assert (forallb (fun v => table_wf (opcode_table v)) evm_versions = true) as H by (vm_compute; reflexivity).
  intros v I. rewrite forallb_forall in H. exact (H v I).
Qed.

(* the translated assembler and the model of Asm.v succeed on exactly the same assemblies with the same
   (bytecode, symbol_map, const_map), for every EVM version of opcodes.py *)
Theorem assembler_loops_tie : forall v asm r, In v evm_versions ->
  gen_assemble (opcode_table v) v asm = Ok r <-> assemble (opcode_table v) (has_push0 v) asm = Ok r.
Proof. intros v asm r I. apply gen_assemble_equiv; [exact I | apply tables_wf; exact I]. Qed.
Print Assumptions assembler_loops_tie.

(* pc_agreement, stated on the regenerated code *)
Theorem pc_agreement_regenerated : forall v asm bs sm cm p s, In v evm_versions ->
  gen_assemble (opcode_table v) v asm = Ok (bs, sm, cm) -> asm = p ++ s ->
  exists bp bsuf, gen_emit (opcode_table v) v sm cm p = Ok bp /\ gen_emit (opcode_table v) v sm cm s = Ok bsuf /\
                  bs = bp ++ bsuf /\
                  (exists sm1, gen_resolve_walk (opcode_table v) v cm p 0 [] 0 = Ok (sm1, zlen bp)).
Proof.
  intros v asm bs sm cm p s I G E. pose proof G as G'. apply (assembler_loops_tie v asm _ I) in G.
  destruct (pc_agreement _ _ _ _ _ _ _ _ G E) as (bp & bsuf & Ep & Es & -> & P).
  pose proof G as A. apply assemble_inv in A as (sm0 & pc & C & W & _ & _). subst asm.
  apply walk_app in W as (sm1 & pc1 & Wp & Ws).
  assert (first_is_jump p = false) as FJ.
  { destruct (first_is_jump p) eqn:F; [| reflexivity]. exfalso.
    unfold Asm.assemble, Asm.resolve in G. rewrite C in G. cbn [bind] in G.
    assert (first_is_jump (p ++ s) = true) as F2 by (destruct p as [| [x | | | | | | | | |] r]; try discriminate F; exact F).
    rewrite F2 in G. discriminate G. }
  exists bp, bsuf. repeat split.
  - rewrite (emit_eq v I (tables_wf v I) cm p [] 0 _ sm Wp). exact Ep.
  - rewrite (emit_eq v I (tables_wf v I) cm s sm1 pc1 _ sm Ws). exact Es.
  - exists sm1. rewrite (resolve_walk_eq v I (tables_wf v I) cm p 0 [] 0 ltac:(lia) (or_intror FJ)). rewrite Wp.
    unfold Asm.pc_after in P. rewrite Wp in P. cbn in P. injection P as ->. reflexivity.
Qed.
Print Assumptions pc_agreement_regenerated.

(* label_is_jumpdest and the decoder round trip, stated on the regenerated code *)
Theorem label_is_jumpdest_regenerated : forall v asm bs sm cm l, In v evm_versions ->
  gen_assemble (opcode_table v) v asm = Ok (bs, sm, cm) -> wf_asm (opcode_table v) asm = true ->
  In (ILabel l) asm -> exists off, lookup sm l = Some off /\ valid_jumpdest bs off.
Proof.
  intros v asm bs sm cm l I G. apply (assembler_loops_tie v asm _ I) in G. exact (label_is_jumpdest v asm bs sm cm l I G).
Qed.

Theorem code_end_is_length_regenerated : forall v asm bs sm cm, In v evm_versions ->
  gen_assemble (opcode_table v) v asm = Ok (bs, sm, cm) -> lookup sm CODE_END = Some (zlen bs).
Proof. intros v asm bs sm cm I G. apply (assembler_loops_tie v asm _ I) in G. exact (code_end_is_length _ _ _ _ _ _ G). Qed.

Theorem dup_label_rejected_regenerated : forall v asm p q s l, In v evm_versions ->
  asm = p ++ ILabel l :: q ++ ILabel l :: s -> exists e, gen_assemble (opcode_table v) v asm = Err e.
Proof.
  intros v asm p q s l I E. destruct (gen_assemble (opcode_table v) v asm) as [r | e] eqn:G; [| eauto].
  apply (assembler_loops_tie v asm _ I) in G. destruct (dup_label_rejected (opcode_table v) (has_push0 v) asm p q s l E) as (e & X).
  rewrite X in G. discriminate G.
Qed.

Example loops_nonvacuous :
  In idx_paris evm_versions /\
  gen_assemble (opcode_table idx_paris) idx_paris demo = assemble (opcode_table idx_paris) (has_push0 idx_paris) demo /\
  is_ok (gen_assemble (opcode_table idx_paris) idx_paris demo) = true /\
  is_ok (gen_assemble (opcode_table idx_paris) idx_paris (IOp "JUMP" :: demo)) = false.
Proof. vm_compute. auto 10. Qed.
