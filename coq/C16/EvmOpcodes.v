(* Independent specification of EVM mnemonics -> opcode bytes (Yellow Paper appendix H and EIPs
   145, 211, 214, 1014, 1052, 1344, 1884, 3198, 3855, 4399, 1153, 5656, 4844, 7516), written without
   reference to vyper/evm/opcodes.py.  Used to check the regenerated table (GenOpcodes.v). *)
From Coq Require Import ZArith List String Bool.
From Verif Require Import C16.Asm.
Import ListNotations.
Open Scope string_scope.
Open Scope Z_scope.

Definition evm_spec_table : list (string * Z) :=
  [
   ("STOP", 0x00); ("ADD", 0x01); ("MUL", 0x02); ("SUB", 0x03); ("DIV", 0x04); ("SDIV", 0x05);
   ("MOD", 0x06); ("SMOD", 0x07); ("ADDMOD", 0x08); ("MULMOD", 0x09); ("EXP", 0x0a); ("SIGNEXTEND", 0x0b);
   ("LT", 0x10); ("GT", 0x11); ("SLT", 0x12); ("SGT", 0x13); ("EQ", 0x14); ("ISZERO", 0x15);
   ("AND", 0x16); ("OR", 0x17); ("XOR", 0x18); ("NOT", 0x19); ("BYTE", 0x1a); ("SHL", 0x1b);
   ("SHR", 0x1c); ("SAR", 0x1d); ("KECCAK256", 0x20); ("SHA3", 0x20); ("ADDRESS", 0x30); ("BALANCE", 0x31);
   ("ORIGIN", 0x32); ("CALLER", 0x33); ("CALLVALUE", 0x34); ("CALLDATALOAD", 0x35); ("CALLDATASIZE", 0x36); ("CALLDATACOPY", 0x37);
   ("CODESIZE", 0x38); ("CODECOPY", 0x39); ("GASPRICE", 0x3a); ("EXTCODESIZE", 0x3b); ("EXTCODECOPY", 0x3c); ("RETURNDATASIZE", 0x3d);
   ("RETURNDATACOPY", 0x3e); ("EXTCODEHASH", 0x3f); ("BLOCKHASH", 0x40); ("COINBASE", 0x41); ("TIMESTAMP", 0x42); ("NUMBER", 0x43);
   ("DIFFICULTY", 0x44); ("PREVRANDAO", 0x44); ("GASLIMIT", 0x45); ("CHAINID", 0x46); ("SELFBALANCE", 0x47); ("BASEFEE", 0x48);
   ("BLOBHASH", 0x49); ("BLOBBASEFEE", 0x4a); ("POP", 0x50); ("MLOAD", 0x51); ("MSTORE", 0x52); ("MSTORE8", 0x53);
   ("SLOAD", 0x54); ("SSTORE", 0x55); ("JUMP", 0x56); ("JUMPI", 0x57); ("PC", 0x58); ("MSIZE", 0x59);
   ("GAS", 0x5a); ("JUMPDEST", 0x5b); ("TLOAD", 0x5c); ("TSTORE", 0x5d); ("MCOPY", 0x5e); ("PUSH0", 0x5f);
   ("PUSH1", 0x60); ("PUSH2", 0x61); ("PUSH3", 0x62); ("PUSH4", 0x63); ("PUSH5", 0x64); ("PUSH6", 0x65);
   ("PUSH7", 0x66); ("PUSH8", 0x67); ("PUSH9", 0x68); ("PUSH10", 0x69); ("PUSH11", 0x6a); ("PUSH12", 0x6b);
   ("PUSH13", 0x6c); ("PUSH14", 0x6d); ("PUSH15", 0x6e); ("PUSH16", 0x6f); ("PUSH17", 0x70); ("PUSH18", 0x71);
   ("PUSH19", 0x72); ("PUSH20", 0x73); ("PUSH21", 0x74); ("PUSH22", 0x75); ("PUSH23", 0x76); ("PUSH24", 0x77);
   ("PUSH25", 0x78); ("PUSH26", 0x79); ("PUSH27", 0x7a); ("PUSH28", 0x7b); ("PUSH29", 0x7c); ("PUSH30", 0x7d);
   ("PUSH31", 0x7e); ("PUSH32", 0x7f); ("DUP1", 0x80); ("DUP2", 0x81); ("DUP3", 0x82); ("DUP4", 0x83);
   ("DUP5", 0x84); ("DUP6", 0x85); ("DUP7", 0x86); ("DUP8", 0x87); ("DUP9", 0x88); ("DUP10", 0x89);
   ("DUP11", 0x8a); ("DUP12", 0x8b); ("DUP13", 0x8c); ("DUP14", 0x8d); ("DUP15", 0x8e); ("DUP16", 0x8f);
   ("SWAP1", 0x90); ("SWAP2", 0x91); ("SWAP3", 0x92); ("SWAP4", 0x93); ("SWAP5", 0x94); ("SWAP6", 0x95);
   ("SWAP7", 0x96); ("SWAP8", 0x97); ("SWAP9", 0x98); ("SWAP10", 0x99); ("SWAP11", 0x9a); ("SWAP12", 0x9b);
   ("SWAP13", 0x9c); ("SWAP14", 0x9d); ("SWAP15", 0x9e); ("SWAP16", 0x9f); ("LOG0", 0xa0); ("LOG1", 0xa1);
   ("LOG2", 0xa2); ("LOG3", 0xa3); ("LOG4", 0xa4); ("CREATE", 0xf0); ("CALL", 0xf1); ("CALLCODE", 0xf2);
   ("RETURN", 0xf3); ("DELEGATECALL", 0xf4); ("CREATE2", 0xf5); ("STATICCALL", 0xfa); ("REVERT", 0xfd); ("INVALID", 0xfe);
   ("SELFDESTRUCT", 0xff)
  ].

(* vyper-internal pseudo instructions that live in its opcode table but are not EVM opcodes;
   "DEBUG" is skipped by both assembler passes, "BREAKPOINT" is never produced. *)
Definition vyper_internal : list (string * Z) := [("DEBUG", 0xa5); ("BREAKPOINT", 0xa6)].

Definition entry_ok (e : string * Z) : bool :=
  match slookup evm_spec_table (fst e) with
  | Some b => b =? snd e
  | None => match slookup vyper_internal (fst e) with Some b => b =? snd e | None => false end
  end.

(* keys are unique, so dict lookup = first-match lookup *)
Fixpoint keys_unique (m : list (string * Z)) : bool :=
  match m with
  | [] => true
  | (k, _) :: r => match slookup r k with Some _ => false | None => keys_unique r end
  end.

Definition table_ok (tbl : list (string * Z)) : bool :=
  forallb entry_ok tbl && keys_unique tbl &&
  forallb (fun k => match slookup tbl k, slookup evm_spec_table k with
                    | Some a, Some b => a =? b | _, _ => false end)
          ["JUMPDEST"; "JUMP"; "JUMPI"; "PUSH1"; "PUSH2"; "PUSH32"; "STOP"; "RETURN"; "REVERT"; "CODECOPY"].
