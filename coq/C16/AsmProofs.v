(* C16: the two assembler passes agree; labels are jump destinations; immediates carry the
   resolved values; data is verbatim.  All statements are about the model in Asm.v. *)
From Coq Require Import ZArith List Bool String Lia ZifyBool.
From Verif Require Import Base.PyInt C16.Asm C16.HexBytes C16.PushProofs.
Import ListNotations.
Open Scope Z_scope.

Ltac inv H := inversion H; subst; clear H.
Arguments push_bytes : simpl never.

Lemma bind_ok : forall {A B} (m : res A) (f : A -> res B) b,
  bind m f = Ok b -> exists a, m = Ok a /\ f a = Ok b.
Proof. intros A B [a | e] f b H; cbn in H; [eauto | discriminate]. Qed.

Lemma zlen_app : forall {A} (a b : list A), zlen (a ++ b) = zlen a + zlen b.
Proof. intros. unfold zlen. rewrite app_length. lia. Qed.
Lemma zlen_nil : forall {A}, zlen (@nil A) = 0. Proof. reflexivity. Qed.
Lemma zlen_cons : forall {A} (x : A) l, zlen (x :: l) = 1 + zlen l.
Proof. intros. unfold zlen. cbn [List.length]. lia. Qed.
Lemma zlen_nonneg : forall {A} (l : list A), 0 <= zlen l.
Proof. intros. unfold zlen. lia. Qed.

(* ---------- maps *)
Lemma add_sym_ok : forall m k v m', add_sym m k v = Ok m' ->
  m' = (k, v) :: m /\ lookup m k = None.
Proof. intros m k v m' H. unfold add_sym in H. destruct (lookup m k); [discriminate |]. inv H. auto. Qed.

Lemma add_sym_lookup_same : forall m k v m', add_sym m k v = Ok m' -> lookup m' k = Some v.
Proof. intros. apply add_sym_ok in H as [-> _]. cbn. rewrite Z.eqb_refl. reflexivity. Qed.

Lemma add_sym_preserves : forall m k v m' k' v',
  add_sym m k v = Ok m' -> lookup m k' = Some v' -> lookup m' k' = Some v'.
Proof.
  intros. apply add_sym_ok in H as [-> N]. cbn.
  destruct (Z.eqb_spec k k'); [subst; congruence | assumption].
Qed.

Lemma get_ok : forall m k v, get m k = Ok v -> lookup m k = Some v.
Proof. intros m k v H. unfold get in H. destruct (lookup m k); inv H. reflexivity. Qed.

Section Proofs.
  Variable tbl : list (string * Z).
  Variable push0 : bool.

  Notation resolve_item := (resolve_item tbl push0).
  Notation resolve_walk := (resolve_walk tbl push0).
  Notation emit_item := (emit_item tbl push0).
  Notation emit := (emit tbl push0).
  Notation assemble := (assemble tbl push0).
  Notation resolve := (resolve tbl push0).
  Notation pc_after := (pc_after tbl push0).

  (* ---------- structure of the two walks *)
  Lemma emit_cons : forall sm cm it r b,
    emit sm cm (it :: r) = Ok b ->
    exists bi br, emit_item sm cm it = Ok bi /\ emit sm cm r = Ok br /\ b = bi ++ br.
  Proof.
    intros. cbn [Asm.emit] in H. apply bind_ok in H as (bi & E1 & H).
    apply bind_ok in H as (br & E2 & H). inv H. eauto.
  Qed.

  Lemma emit_app : forall sm cm p s b,
    emit sm cm (p ++ s) = Ok b ->
    exists bp bs, emit sm cm p = Ok bp /\ emit sm cm s = Ok bs /\ b = bp ++ bs.
  Proof.
    induction p as [| it p IH]; intros s b H.
    - exists [], b. auto.
    - rewrite <- app_comm_cons in H. apply emit_cons in H as (bi & br & E1 & E2 & ->).
      apply IH in E2 as (bp & bs & Ep & Es & ->).
      exists (bi ++ bp), bs. repeat split; [| assumption | apply app_assoc].
      cbn [Asm.emit]. rewrite E1, Ep. reflexivity.
  Qed.

  Lemma walk_cons : forall cm it r sm pc sm' pc',
    resolve_walk cm (it :: r) sm pc = Ok (sm', pc') ->
    exists sm1 pc1, resolve_item cm it sm pc = Ok (sm1, pc1) /\ resolve_walk cm r sm1 pc1 = Ok (sm', pc').
  Proof.
    intros. cbn [Asm.resolve_walk] in H. apply bind_ok in H as ([sm1 pc1] & E & H). eauto.
  Qed.

  Lemma walk_app : forall cm p s sm pc sm' pc',
    resolve_walk cm (p ++ s) sm pc = Ok (sm', pc') ->
    exists sm1 pc1, resolve_walk cm p sm pc = Ok (sm1, pc1) /\ resolve_walk cm s sm1 pc1 = Ok (sm', pc').
  Proof.
    induction p as [| it p IH]; intros s sm pc sm' pc' H.
    - exists sm, pc. auto.
    - rewrite <- app_comm_cons in H. apply walk_cons in H as (sm1 & pc1 & E1 & E2).
      apply IH in E2 as (sm2 & pc2 & Ep & Es). exists sm2, pc2. split; [| assumption].
      cbn [Asm.resolve_walk]. rewrite E1. cbn. assumption.
  Qed.

  (* ---------- pass 1 accounting = pass 2 emission, item by item.
     Note the symbol map used for emission is arbitrary: sizes never depend on resolved values. *)
  Lemma push_n_len : forall v n b, push_n_bytes v n = Ok b -> zlen b = Z.of_nat n + 1.
  Proof.
    intros. apply push_n_value in H as (_ & imm & -> & L & _). rewrite zlen_cons. unfold zlen. lia.
  Qed.

  Lemma to_bytes2_ok : forall v b, to_bytes2 v = Ok b -> 0 <= v < 65536 /\ b = be_n SYMBOL_SIZE v.
  Proof.
    intros. unfold to_bytes2 in H. destruct ((0 <=? v) && (v <? 65536)) eqn:E; inv H.
    split; [lia | reflexivity].
  Qed.

  Lemma item_size_agree : forall cm it sm pc sm' pc' sm2 b,
    resolve_item cm it sm pc = Ok (sm', pc') -> emit_item sm2 cm it = Ok b -> pc' = pc + zlen b.
  Proof.
    intros cm it sm pc sm' pc' sm2 b R E. destruct it; cbn in R, E.
    - destruct (String.eqb s "DEBUG"); [inv R; inv E; rewrite zlen_nil; lia |].
      destruct (slookup tbl s); inv R; inv E. reflexivity.
    - destruct ((0 <=? n) && (n <? 256)); inv R; inv E. reflexivity.
    - inv R. apply bind_ok in E as (v & _ & E). apply push_n_len in E. rewrite E. cbn. lia.
    - apply bind_ok in R as (s1 & _ & R). inv R. destruct (slookup tbl "JUMPDEST"); inv E. reflexivity.
    - inv R. apply bind_ok in E as (v & _ & E). apply push_n_len in E. rewrite E. cbn. lia.
    - apply bind_ok in R as (v & G & R). inv R. rewrite G in E. cbn in E.
      destruct (forallb byte_ok (push_bytes push0 (v + o))); inv E. reflexivity.
    - inv R. inv E. reflexivity.
    - inv R. apply bind_ok in E as (v & _ & E). apply to_bytes2_ok in E as (_ & ->).
      unfold zlen. rewrite be_n_length. reflexivity.
    - apply bind_ok in R as (s1 & _ & R). inv R. inv E. rewrite zlen_nil. lia.
    - inv R. inv E. rewrite zlen_nil. lia.
  Qed.

  Lemma walk_size_agree : forall cm asm sm pc sm' pc' sm2 b,
    resolve_walk cm asm sm pc = Ok (sm', pc') -> emit sm2 cm asm = Ok b -> pc' = pc + zlen b.
  Proof.
    induction asm as [| it r IH]; intros sm pc sm' pc' sm2 b R E.
    - inv R. inv E. rewrite zlen_nil. lia.
    - apply walk_cons in R as (sm1 & pc1 & R1 & R2).
      apply emit_cons in E as (bi & br & E1 & E2 & ->).
      pose proof (item_size_agree _ _ _ _ _ _ _ _ R1 E1). pose proof (IH _ _ _ _ _ _ R2 E2).
      rewrite zlen_app. lia.
  Qed.

  Lemma assemble_inv : forall asm bs sm cm,
    assemble asm = Ok (bs, sm, cm) ->
    exists sm0 pc, collect_consts asm [] = Ok cm /\ resolve_walk cm asm [] 0 = Ok (sm0, pc) /\
                   add_sym sm0 CODE_END pc = Ok sm /\ emit sm cm asm = Ok bs.
  Proof.
    intros. unfold Asm.assemble, Asm.resolve in H.
    apply bind_ok in H as ([sm1 cm1] & R & H).
    apply bind_ok in R as (cm2 & C & R). apply bind_ok in R as (u & _ & R).
    apply bind_ok in R as ([sm0 pc] & W & R).
    apply bind_ok in R as (sm3 & A & R). inv R.
    apply bind_ok in H as (b & E & H). inv H. eauto 8.
  Qed.

  (* pc_agreement: for every split asm = p ++ s of a successfully assembled program, the bytes split
     accordingly and the pc that pass 1 computes after p is exactly the number of bytes pass 2 emitted
     for p. *)
  Theorem pc_agreement_model : forall asm bs sm cm p s,
    assemble asm = Ok (bs, sm, cm) -> asm = p ++ s ->
    exists bp bsuf, emit sm cm p = Ok bp /\ emit sm cm s = Ok bsuf /\ bs = bp ++ bsuf /\
                    pc_after cm p 0 = Ok (zlen bp).
  Proof.
    intros asm bs sm cm p s H ->. apply assemble_inv in H as (sm0 & pc & C & W & A & E).
    apply emit_app in E as (bp & bsuf & Ep & Es & ->).
    apply walk_app in W as (sm1 & pc1 & Wp & Ws).
    exists bp, bsuf. repeat split; try assumption.
    unfold Asm.pc_after. rewrite Wp. cbn.
    pose proof (walk_size_agree _ _ _ _ _ _ _ _ Wp Ep). f_equal. lia.
  Qed.

  Theorem code_end_is_length_model : forall asm bs sm cm,
    assemble asm = Ok (bs, sm, cm) -> lookup sm CODE_END = Some (zlen bs).
  Proof.
    intros. apply assemble_inv in H as (sm0 & pc & C & W & A & E).
    pose proof (walk_size_agree _ _ _ _ _ _ _ _ W E). apply add_sym_lookup_same in A.
    rewrite A. f_equal. lia.
  Qed.

  (* ---------- symbols *)
  Lemma item_preserves : forall cm it sm pc sm' pc' k v,
    resolve_item cm it sm pc = Ok (sm', pc') -> lookup sm k = Some v -> lookup sm' k = Some v.
  Proof.
    intros cm it sm pc sm' pc' k v R L. destruct it; cbn in R;
      repeat match goal with
             | H : bind (add_sym _ _ _) _ = Ok _ |- _ => apply bind_ok in H as (? & ?A & H)
             | H : bind _ _ = Ok _ |- _ => apply bind_ok in H as (? & ? & H)
             | H : (if ?c then _ else _) = Ok _ |- _ => destruct c
             | H : match ?c with Some _ => _ | None => _ end = Ok _ |- _ => destruct c
             | H : Ok _ = Ok _ |- _ => inv H
             | H : Err _ = Ok _ |- _ => discriminate H
             end; try assumption; eapply add_sym_preserves; eauto.
  Qed.

  Lemma walk_preserves : forall cm asm sm pc sm' pc' k v,
    resolve_walk cm asm sm pc = Ok (sm', pc') -> lookup sm k = Some v -> lookup sm' k = Some v.
  Proof.
    induction asm as [| it r IH]; intros sm pc sm' pc' k v R L.
    - inv R. assumption.
    - apply walk_cons in R as (s1 & p1 & R1 & R2). eapply IH; [exact R2 |].
      eapply item_preserves; eauto.
  Qed.

  (* a label / data header resolves to the pc at which it stands *)
  Lemma symbol_position : forall asm bs sm cm p it s l,
    assemble asm = Ok (bs, sm, cm) -> asm = p ++ it :: s -> (it = ILabel l \/ it = IDataHeader l) ->
    exists bp, emit sm cm p = Ok bp /\ lookup sm l = Some (zlen bp).
  Proof.
    intros asm bs sm cm p it s l H -> K. apply assemble_inv in H as (sm0 & pc & C & W & A & E).
    apply emit_app in E as (bp & bsuf & Ep & Es & ->).
    apply walk_app in W as (sm1 & pc1 & Wp & Ws).
    pose proof (walk_size_agree _ _ _ _ _ _ _ _ Wp Ep) as P.
    apply walk_cons in Ws as (sm2 & pc2 & Wi & Wr).
    exists bp. split; [assumption |].
    eapply add_sym_preserves; [exact A |]. eapply walk_preserves; [exact Wr |].
    destruct K as [-> | ->]; cbn in Wi; apply bind_ok in Wi as (s1 & A1 & Wi); inv Wi;
      apply add_sym_lookup_same in A1; rewrite A1; f_equal; lia.
  Qed.

  (* ---------- immediates *)
  Lemma be_n_2 : forall v, 0 <= v < 65536 -> be_n 2 v = [v / 256; v mod 256].
  Proof.
    intros. cbn [be_n app]. f_equal. apply Z.mod_small.
    split; [apply Z.div_pos; lia | apply Z.div_lt_upper_bound; lia].
  Qed.

  Lemma push_n2_explicit : forall v b, push_n_bytes v SYMBOL_SIZE = Ok b ->
    0 <= v < 65536 /\ b = [0x61; v / 256; v mod 256].
  Proof.
    intros v b H. pose proof (push_n_value _ _ _ H) as (R & _).
    change (256 ^ Z.of_nat SYMBOL_SIZE) with 65536 in R. split; [assumption |].
    pose proof (proj1 (push_n_total v SYMBOL_SIZE) R) as T. rewrite T in H. inv H.
    change (be_n SYMBOL_SIZE v) with (be_n 2 v) in *. try rewrite be_n_2 by assumption.
    f_equal. f_equal. apply Z.mod_small.
    split; [apply Z.div_pos; lia | apply Z.div_lt_upper_bound; lia].
  Qed.

  Lemma two_bytes_value : forall v, be_val [v / 256; v mod 256] = v.
  Proof. intros. unfold be_val. cbn [fold_left]. pose proof (Z.div_mod v 256). lia. Qed.

  (* PUSHLABEL l  ->  PUSH2 hi lo  with hi*256+lo = resolved offset; offsets >= 2^16 are rejected *)
  Theorem pushlabel_value_model : forall sm cm l b,
    emit_item sm cm (IPushLabel l) = Ok b ->
    exists off, lookup sm l = Some off /\ 0 <= off < 65536 /\
                b = [0x61; off / 256; off mod 256] /\ be_val (tl b) = off.
  Proof.
    intros sm cm l b H. cbn in H. apply bind_ok in H as (v & G & H). apply get_ok in G.
    apply push_n2_explicit in H as (R & ->). exists v. repeat split; try assumption; try lia.
    apply two_bytes_value.
  Qed.

  Theorem push_ofst_label_value_model : forall sm cm l o b,
    emit_item sm cm (IPushOfstL l o) = Ok b ->
    exists off, lookup sm l = Some off /\ 0 <= off + o < 65536 /\
                b = [0x61; (off + o) / 256; (off + o) mod 256] /\ be_val (tl b) = off + o.
  Proof.
    intros sm cm l o b H. cbn in H. apply bind_ok in H as (v & G & H). apply get_ok in G.
    apply push_n2_explicit in H as (R & ->). exists v. repeat split; try assumption; try lia.
    apply two_bytes_value.
  Qed.

  (* PUSH_OFST(CONSTREF c, o) -> minimal-width push of const+o *)
  Theorem push_ofst_const_value_model : forall sm cm c o b,
    emit_item sm cm (IPushOfstC c o) = Ok b ->
    exists v, lookup cm c = Some v /\ b = push_bytes push0 (v + o) /\
      (0 <= v + o -> exists imm, b = (PUSH_OFFSET + zlen imm) :: imm /\ be_val imm = v + o /\
                                 List.length imm = push_width_spec push0 (v + o) /\ Forall is_byte imm).
  Proof.
    intros sm cm c o b H. cbn in H. apply bind_ok in H as (v & G & H). apply get_ok in G.
    destruct (forallb byte_ok (push_bytes push0 (v + o))); inv H.
    exists v. repeat split; try assumption. intro P.
    destruct (push_bytes_shape push0 (v + o) P) as (imm & E & L & V & F). exists imm. auto.
  Qed.

  Theorem data_label_value_model : forall sm cm l b,
    emit_item sm cm (IDataLabel l) = Ok b ->
    exists off, lookup sm l = Some off /\ 0 <= off < 65536 /\ b = [off / 256; off mod 256] /\ be_val b = off.
  Proof.
    intros sm cm l b H. cbn in H. apply bind_ok in H as (v & G & H). apply get_ok in G.
    apply to_bytes2_ok in H as (R & ->). exists v. change SYMBOL_SIZE with 2%nat.
    rewrite be_n_2 by assumption. repeat split; try assumption; try lia. apply two_bytes_value.
  Qed.

  (* every item's bytes sit at the offset pass 1 computed for it *)
  Theorem item_bytes_at_model : forall asm bs sm cm p it s,
    assemble asm = Ok (bs, sm, cm) -> asm = p ++ it :: s ->
    exists bp bi bsuf, bs = bp ++ bi ++ bsuf /\ emit sm cm p = Ok bp /\ emit_item sm cm it = Ok bi /\
                       pc_after cm p 0 = Ok (zlen bp).
  Proof.
    intros asm bs sm cm p it s H E.
    destruct (pc_agreement_model _ _ _ _ _ _ H E) as (bp & bsuf & Ep & Es & -> & P).
    apply emit_cons in Es as (bi & br & Ei & Er & ->). exists bp, bi, br. auto.
  Qed.

  (* data sections appear verbatim at the offset their header resolves to *)
  Theorem data_verbatim_model : forall asm bs sm cm p l d s,
    assemble asm = Ok (bs, sm, cm) -> asm = p ++ IDataHeader l :: IDataBytes d :: s ->
    exists bp bsuf, bs = bp ++ d ++ bsuf /\ lookup sm l = Some (zlen bp).
  Proof.
    intros asm bs sm cm p l d s H E.
    destruct (symbol_position _ _ _ _ _ _ _ l H E (or_intror eq_refl)) as (bp & Ep & L).
    destruct (pc_agreement_model _ _ _ _ _ _ H E) as (bp' & bsuf & Ep' & Es & -> & _).
    rewrite Ep in Ep'. inv Ep'.
    apply emit_cons in Es as (b1 & r1 & E1 & Es & ->). cbn in E1. inv E1.
    apply emit_cons in Es as (b2 & r2 & E2 & Es & ->). cbn in E2. inv E2.
    exists bp', r2. auto.
  Qed.

  (* ---------- labels are jump destinations *)
  Lemma scan_skip : forall imm t pc, scan (List.length imm) (imm ++ t) pc = scan O t (pc + zlen imm).
  Proof.
    induction imm as [| a r IH]; intros t pc.
    - cbn [List.length app]. rewrite zlen_nil, Z.add_0_r. reflexivity.
    - cbn [List.length app scan]. rewrite IH, zlen_cons. f_equal. lia.
  Qed.

  Lemma push_width_push : forall k : nat, (k <= 32)%nat -> push_width (PUSH_OFFSET + Z.of_nat k) = k.
  Proof.
    intros k H. unfold push_width, PUSH_OFFSET. destruct k.
    - reflexivity.
    - destruct ((96 <=? 95 + Z.of_nat (S k)) && (95 + Z.of_nat (S k) <=? 127)) eqn:E; [| lia].
      replace (95 + Z.of_nat (S k) - 95) with (Z.of_nat (S k)) by lia. apply Nat2Z.id.
  Qed.

  Lemma wf_data_no_head : forall asm h, wf_data asm = true -> In h asm -> is_head tbl h = false.
  Proof.
    induction asm as [| it r IH]; intros h W I; [inv I |].
    destruct I as [-> | I].
    - destruct h; try discriminate W; reflexivity.
    - destruct it; try discriminate W; eapply IH; eauto.
  Qed.

  Hypothesis jumpdest_byte : slookup tbl "JUMPDEST" = Some 0x5b.

  Lemma head_emits_nonempty : forall sm cm h bi,
    is_head tbl h = true -> emit_item sm cm h = Ok bi -> exists b rest, bi = b :: rest.
  Proof.
    intros sm cm h bi HD Ei.
    destruct h as [nm | n | l | l | l o | c o | db | l | l | c v]; try discriminate HD; cbn in Ei, HD.
    - destruct (String.eqb nm "DEBUG"); [discriminate HD |]. destruct (slookup tbl nm); inv Ei. eauto.
    - apply bind_ok in Ei as (v & _ & Ei). apply push_n2_explicit in Ei as (_ & ->). eauto.
    - rewrite jumpdest_byte in Ei. inv Ei. eauto.
    - apply bind_ok in Ei as (v & _ & Ei). apply push_n2_explicit in Ei as (_ & ->). eauto.
    - apply bind_ok in Ei as (v & _ & Ei). destruct (forallb byte_ok (push_bytes push0 (v + o))); inv Ei.
      unfold push_bytes. eauto.
  Qed.

  Lemma scan_reaches_head : forall cm sm asm pend bs pc p h s, is_head tbl h = true ->
    wf_code tbl cm pend asm = true -> emit sm cm asm = Ok bs -> asm = p ++ h :: s ->
    exists bp, emit sm cm p = Ok bp /\ In (pc + zlen bp) (scan pend bs pc).
  Proof.
    intros cm sm asm pend bs pc p h s HD. revert pend bs pc p s.
    induction asm as [| it r IH]; intros pend bs pc p s W E S.
    - destruct p; discriminate S.
    - apply emit_cons in E as (bi & br & Ei & Er & ->).
      destruct p as [| it' p'].
      + (* the label is the head *)
        inv S. exists []. split; [reflexivity |]. rewrite zlen_nil, Z.add_0_r.
        destruct pend; [| destruct h; try discriminate W; discriminate HD].
        destruct (head_emits_nonempty sm cm h bi HD Ei) as (b & rest & ->).
        cbn [app scan In]. left. reflexivity.
      + inv S.
        destruct pend as [| pd].
        * destruct it'; cbn [wf_code] in W; try discriminate W.
          -- (* IOp *)
             cbn in Ei. destruct (String.eqb s0 "DEBUG") eqn:D.
             ++ inv Ei. destruct (IH _ _ pc _ _ W Er eq_refl) as (bp & Ep & I).
                exists bp. split; [cbn [Asm.emit]; cbn; rewrite D; rewrite Ep; reflexivity |]. assumption.
             ++ unfold op_width in W. destruct (slookup tbl s0) as [b0 |] eqn:SL; inv Ei.
                destruct (IH _ _ (pc + 1) _ _ W Er eq_refl) as (bp & Ep & I).
                exists (b0 :: bp). split.
                { cbn [Asm.emit]. cbn. rewrite D, SL, Ep. reflexivity. }
                cbn [app scan In]. right. rewrite zlen_cons. replace (pc + (1 + zlen bp)) with (pc + 1 + zlen bp) by lia. assumption.
          -- (* IPushLabel *)
             pose proof Ei as Ei'. apply pushlabel_value_model in Ei' as (off & _ & _ & -> & _).
             destruct (IH _ _ (pc + 3) _ _ W Er eq_refl) as (bp & Ep & I).
             eexists. split; [cbn [Asm.emit]; rewrite Ei, Ep; reflexivity |].
             cbn [app scan]. change (push_width 97) with 2%nat. cbn [scan In]. right.
             rewrite !zlen_cons. replace (pc + (1 + (1 + (1 + zlen bp)))) with (pc + 3 + zlen bp) by lia.
             replace (pc + 1 + 1 + 1) with (pc + 3) by lia. assumption.
          -- (* ILabel *)
             cbn in Ei. rewrite jumpdest_byte in Ei. inv Ei.
             destruct (IH _ _ (pc + 1) _ _ W Er eq_refl) as (bp & Ep & I).
             exists (91 :: bp). split; [cbn [Asm.emit]; cbn; rewrite jumpdest_byte, Ep; reflexivity |].
             cbn [app scan]. change (push_width 91) with 0%nat. cbn [In]. right.
             rewrite zlen_cons. replace (pc + (1 + zlen bp)) with (pc + 1 + zlen bp) by lia. assumption.
          -- (* IPushOfstL *)
             pose proof Ei as Ei'. apply push_ofst_label_value_model in Ei' as (off & _ & _ & -> & _).
             destruct (IH _ _ (pc + 3) _ _ W Er eq_refl) as (bp & Ep & I).
             eexists. split; [cbn [Asm.emit]; rewrite Ei, Ep; reflexivity |].
             cbn [app scan]. change (push_width 97) with 2%nat. cbn [scan In]. right.
             rewrite !zlen_cons. replace (pc + (1 + (1 + (1 + zlen bp)))) with (pc + 3 + zlen bp) by lia.
             replace (pc + 1 + 1 + 1) with (pc + 3) by lia. assumption.
          -- (* IPushOfstC *)
             destruct (lookup cm c) as [v |] eqn:L; [| discriminate W].
             apply andb_prop in W as [R W]. apply andb_prop in R as [R1 R2].
             pose proof Ei as Ei'. apply push_ofst_const_value_model in Ei' as (v' & L' & _ & Sh).
             rewrite L in L'. inv L'. destruct (Sh ltac:(lia)) as (imm & -> & _ & Li & _).
             assert (List.length imm <= 32)%nat as L32.
             { rewrite Li. apply push_width_le_32; lia. }
             destruct (IH _ _ (pc + 1 + zlen imm) _ _ W Er eq_refl) as (bp & Ep & I).
             eexists. split; [cbn [Asm.emit]; rewrite Ei, Ep; reflexivity |].
             rewrite <- app_comm_cons. cbn [scan In]. right.
             replace (push_width (PUSH_OFFSET + zlen imm)) with (List.length imm)
               by (unfold zlen; symmetry; apply push_width_push; assumption).
             rewrite scan_skip. rewrite zlen_cons, zlen_app.
             replace (pc + (1 + (zlen imm + zlen bp))) with (pc + 1 + zlen imm + zlen bp) by lia. assumption.
          -- (* IDataBytes *) exfalso. pose proof (wf_data_no_head _ h W ltac:(right; apply in_or_app; right; left; reflexivity)) as X. congruence.
          -- exfalso. pose proof (wf_data_no_head _ h W ltac:(right; apply in_or_app; right; left; reflexivity)) as X. congruence.
          -- exfalso. pose proof (wf_data_no_head _ h W ltac:(right; apply in_or_app; right; left; reflexivity)) as X. congruence.
          -- (* IConst *)
             cbn in Ei. inv Ei. destruct (IH _ _ pc _ _ W Er eq_refl) as (bp & Ep & I).
             exists bp. split; [cbn [Asm.emit]; cbn; rewrite Ep; reflexivity |]. assumption.
        * (* pending immediates: only ints *)
          destruct it'; cbn [wf_code] in W; try discriminate W.
          cbn in Ei. destruct ((0 <=? n) && (n <? 256)) eqn:B; inv Ei.
          destruct (IH _ _ (pc + 1) _ _ W Er eq_refl) as (bp & Ep & I).
          exists (n :: bp). split; [cbn [Asm.emit]; cbn; rewrite B, Ep; reflexivity |].
          cbn [app scan]. rewrite zlen_cons. replace (pc + (1 + zlen bp)) with (pc + 1 + zlen bp) by lia. assumption.
  Qed.

  Lemma byte_at_app : forall (bp : list Z) x r, byte_at (bp ++ x :: r) (zlen bp) = Some x.
  Proof.
    intros. unfold byte_at, zlen. destruct (Z.of_nat (List.length bp) <? 0) eqn:E; [lia |].
    rewrite Nat2Z.id. rewrite nth_error_app2 by lia. rewrite Nat.sub_diag. reflexivity.
  Qed.

  (* label_is_jumpdest: every Label of a well-formed, successfully assembled program resolves to an
     offset that holds 0x5b and is an instruction start of the final byte string. *)
  Theorem label_is_jumpdest_model : forall asm bs sm cm l,
    assemble asm = Ok (bs, sm, cm) -> wf_asm tbl asm = true -> In (ILabel l) asm ->
    exists off, lookup sm l = Some off /\ valid_jumpdest bs off.
  Proof.
    intros asm bs sm cm l H W I.
    apply in_split in I as (p & s & ->).
    destruct (symbol_position _ _ _ _ _ _ _ l H eq_refl (or_introl eq_refl)) as (bp & Ep & L).
    exists (zlen bp). split; [assumption |].
    pose proof H as H'. apply assemble_inv in H' as (sm0 & pc & C & _ & _ & E).
    unfold wf_asm in W. rewrite C in W.
    destruct (scan_reaches_head cm sm _ O bs 0 p (ILabel l) s eq_refl W E eq_refl) as (bp' & Ep' & In').
    rewrite Ep in Ep'. inv Ep'. split; [| exact In'].
    destruct (item_bytes_at_model _ _ _ _ _ _ _ H eq_refl) as (bp & bi & bsuf & -> & Ep2 & Ei & _).
    rewrite Ep in Ep2. inv Ep2. cbn in Ei. rewrite jumpdest_byte in Ei. inv Ei.
    apply byte_at_app.
  Qed.

  (* duplicate labels are rejected, never silently shadowed *)
  Theorem dup_label_rejected_model : forall asm p q s l,
    asm = p ++ ILabel l :: q ++ ILabel l :: s -> exists e, assemble asm = Err e.
  Proof.
    intros asm p q s l ->. destruct (assemble (p ++ ILabel l :: q ++ ILabel l :: s)) as [[[bs sm] cm] | e] eqn:A; [| eauto].
    exfalso. apply assemble_inv in A as (sm0 & pc & C & W & _ & _).
    apply walk_app in W as (s1 & p1 & _ & W). apply walk_cons in W as (s2 & p2 & W1 & W).
    cbn in W1. apply bind_ok in W1 as (s3 & A1 & W1). inv W1. apply add_sym_lookup_same in A1.
    apply walk_app in W as (s4 & p4 & Wq & W). eapply walk_preserves in Wq; [| exact A1].
    apply walk_cons in W as (s5 & p5 & W2 & _). cbn in W2. apply bind_ok in W2 as (s6 & A2 & _).
    apply add_sym_ok in A2 as (_ & N). congruence.
  Qed.

End Proofs.
