(* C16 property theorems about the regenerated instructions.py (T-tie). *)
From Coq Require Import ZArith List Bool String Lia.
From Verif Require Import Base.PyInt C16.Asm C16.HexBytes C16.PushProofs C16.InstrBridge C16.GenOpcodes C16.GenAsmInstr C16.InstrSound.
Import ListNotations.
Open Scope list_scope.
Open Scope Z_scope.

(* push_total / push_minimal_width for the code as it is in /repo now:
   for every EVM version and every 0 <= x < 2^256, PUSH(x) assembled by _compile_push_instruction is
   opcode 0x5f+n followed by n bytes whose big-endian value is x, n is the least width holding x
   (0 -> PUSH0 iff the version has it, else PUSH1 0), n <= 32, and calc_push_size (pass 1) is its length. *)
Theorem push_total : forall v x, In v evm_versions -> 0 <= x < 2 ^ 256 ->
  exists imm, (l <- PUSH v x ;; compile_push l) = Ok ((PUSH_OFFSET + zlen imm) :: imm) /\
              be_val imm = x /\ Forall is_byte imm /\ (List.length imm <= 32)%nat /\
              List.length imm = push_width_spec (has_push0 v) x /\
              GenAsmInstr.calc_push_size v x = Ok (1 + zlen imm).
Proof.
  intros v x I R. rewrite (PUSH_correct v x I R), (calc_push_size_correct v x I).
  destruct (push_bytes_shape (has_push0 v) x ltac:(lia)) as (imm & E & L & V & F).
  exists imm. rewrite E. repeat split; try assumption.
  - rewrite L. apply push_width_le_32; lia.
  - unfold Asm.calc_push_size. rewrite E. unfold zlen. cbn [List.length]. f_equal. lia.
Qed.
Print Assumptions push_total.

Theorem push_n_rejects_overflow : forall x n, 0 <= n <= 32 ->
  (0 <= x < 256 ^ n ->
     (l <- PUSH_N x n ;; compile_push l) = Ok ((PUSH_OFFSET + n) :: be_n (Z.to_nat n) x) /\
     be_val (be_n (Z.to_nat n) x) = x /\ zlen (be_n (Z.to_nat n) x) = n) /\
  (~ (0 <= x < 256 ^ n) -> (l <- PUSH_N x n ;; compile_push l) = Err AssertFail).
Proof.
  intros x n R. rewrite (PUSH_N_correct x n R).
  destruct (push_n_total x (Z.to_nat n)) as [A B]. rewrite Z2Nat.id in A, B by lia. split.
  - intro H. rewrite (A H). repeat split.
    + rewrite be_n_val, Z2Nat.id by lia. apply Z.mod_small. exact H.
    + unfold zlen. rewrite be_n_length. lia.
  - exact B.
Qed.
Print Assumptions push_n_rejects_overflow.

(* The range hypothesis of push_total is necessary: instructions.PUSH has no guard.  Outside [0, 2^256) the
   faithful model (and the real code, replayed by the check on every run) silently emits bytes that do not
   push x: 2^256 gives opcode 0x80 (DUP1) followed by 33 stray bytes, a negative value gives PUSH0/PUSH1 0. *)
Theorem push_unguarded_refuted :
  (exists x, 2 ^ 256 <= x /\ exists b r, (l <- PUSH idx_prague x ;; compile_push l) = Ok (b :: r) /\
             push_width b = O /\ List.length r = 33%nat) /\
  (exists x, x < 0 /\ (l <- PUSH idx_prague x ;; compile_push l) = Ok [0x5f] /\
             (l <- PUSH idx_paris x ;; compile_push l) = Ok [0x60; 0]).
Proof.
  split.
  - exists (2 ^ 256). split; [lia |]. eexists. eexists. vm_compute. auto.
  - exists (-1). vm_compute. auto.
Qed.

Theorem num_to_bytearray_total : forall x, num_to_bytearray x = Ok (be_bytes x).
Proof. exact num_to_bytearray_correct. Qed.

Example push_nonvacuous :
  In idx_paris evm_versions /\ In idx_shanghai evm_versions /\
  (l <- PUSH idx_paris 0 ;; compile_push l) = Ok [0x60; 0] /\
  (l <- PUSH idx_shanghai 0 ;; compile_push l) = Ok [0x5f] /\
  (l <- PUSH idx_paris 65536 ;; compile_push l) = Ok [0x62; 1; 0; 0] /\
  (l <- PUSH_N 65535 2 ;; compile_push l) = Ok [0x61; 255; 255] /\
  (l <- PUSH_N 65536 2 ;; compile_push l) = Err AssertFail /\
  (l <- PUSH_N (-1) 2 ;; compile_push l) = Err AssertFail.
Proof. vm_compute. auto 10. Qed.
