(* C16: the `opcodes` listing is exactly a decode of the bytes, and reading it back gives the bytes. *)
From Coq Require Import ZArith List Bool String Lia ZifyBool.
From Verif Require Import Base.PyInt C16.Asm C16.HexBytes C16.LoopsPrelude C16.PushProofs C16.AsmProofs C16.DecodeProofs C16.Views.
Import ListNotations.
Open Scope list_scope.
Open Scope Z_scope.

Section OpcodesView.
  Variable tbl : list (string * Z).
  Hypothesis tbl_ok : names_ok tbl = true.

  Definition tok_of (i : Z * Z * list Z) : list tok :=
    let '(_, op, imm) := i in
    TName (op_name tbl op) :: (if Nat.ltb 0 (push_width op) then [THex imm] else []).

  Lemma names_ok_byte : forall b, is_byte b -> byte_names_ok tbl b = true.
  Proof.
    intros b H. unfold names_ok in tbl_ok. rewrite forallb_forall in tbl_ok. apply tbl_ok.
    apply in_map_iff. exists (Z.to_nat b). unfold is_byte in H. split; [lia |]. apply in_seq. lia.
  Qed.

  Lemma Forall_skipn : forall {A} (P : A -> Prop) n l, Forall P l -> Forall P (skipn n l).
  Proof. induction n; intros l H; [exact H |]. destruct l; [constructor |]. inversion H; subst. cbn. auto. Qed.

  Lemma firstn_min_len : forall {A} k (l : list A), firstn (Nat.min k (List.length l)) l = firstn k l.
  Proof.
    intros A k l. destruct (Nat.le_gt_cases k (List.length l)) as [H | H].
    - rewrite Nat.min_l by exact H. reflexivity.
    - rewrite Nat.min_r by lia. rewrite firstn_all, firstn_all2 by lia. reflexivity.
  Qed.
  Lemma skipn_min_len : forall {A} k (l : list A), skipn (Nat.min k (List.length l)) l = skipn k l.
  Proof.
    intros A k l. destruct (Nat.le_gt_cases k (List.length l)) as [H | H].
    - rewrite Nat.min_l by exact H. reflexivity.
    - rewrite Nat.min_r by lia. rewrite skipn_all, skipn_all2 by lia. reflexivity.
  Qed.

  Lemma opcodes_fuel_decode : forall fuel bs pc, (List.length bs <= fuel)%nat -> Forall is_byte bs ->
    opcodes_fuel tbl fuel bs = Ok (flat_map tok_of (decode_fuel fuel bs pc)) /\
    bytes_of_tokens tbl (flat_map tok_of (decode_fuel fuel bs pc)) = Some bs.
  Proof.
    induction fuel as [| f IH]; intros bs pc L F.
    - destruct bs; [split; reflexivity | cbn in L; lia].
    - destruct bs as [| op r]; [split; reflexivity |].
      inversion F as [| ? ? Hop Fr]; subst.
      pose proof (names_ok_byte op Hop) as N. unfold byte_names_ok in N.
      apply andb_prop in N as [N N3]. apply andb_prop in N as [N1 N2].
      cbn [opcodes_fuel decode_fuel flat_map tok_of].
      set (pw := push_width op) in *.
      apply Bool.eqb_prop in N2.
      destruct (name_byte tbl (op_name tbl op)) as [b' |] eqn:NB; [| discriminate N1].
      apply Z.eqb_eq in N1. subst b'.
      destruct (name_is_push (op_name tbl op)) eqn:P.
      + destruct (rlookup tbl op) as [k |]; [| discriminate N3].
        destruct (py_int_of_str (str_drop 4 k)) as [n | e] eqn:PI; [| discriminate N3].
        cbn [bind]. rewrite PI. cbn [bind]. apply Z.eqb_eq in N3. subst n. rewrite Nat2Z.id.
        rewrite firstn_min_len, skipn_min_len.
        destruct (IH (skipn pw r) (pc + 1 + zlen (firstn pw r))) as [I1 I2];
          [pose proof (skipn_length_le pw r); cbn in L; lia | apply Forall_skipn; exact Fr |].
        rewrite I1. cbn [bind]. rewrite <- N2. cbn [app bytes_of_tokens]. split; [reflexivity |].
        rewrite NB, I2. f_equal. f_equal. apply firstn_skipn.
      + rewrite <- N2. assert (pw = O) as Z0 by (destruct pw; [reflexivity | cbn in N2; discriminate N2]).
        rewrite Z0. cbn [firstn skipn app bytes_of_tokens].
        destruct (IH r (pc + 1 + zlen (@nil Z))) as [I1 I2]; [cbn in L; lia | exact Fr |].
        rewrite I1. cbn [bind]. split; [reflexivity |]. rewrite NB, I2. reflexivity.
  Qed.

  (* the opcodes listing is the independent decoder's view of the bytes, token for token, and the listing
     read back (names through the table, VERBATIM_0x.. as numbers, 0x.. immediates) is exactly the bytes *)
  Theorem opcodes_describe_bytes_model : forall bs, Forall is_byte bs ->
    opcodes_tokens tbl bs = Ok (flat_map tok_of (decode bs)) /\
    (forall ts, opcodes_tokens tbl bs = Ok ts -> bytes_of_tokens tbl ts = Some bs).
  Proof.
    intros bs F. destruct (opcodes_fuel_decode (List.length bs) bs 0 ltac:(lia) F) as [A B].
    split; [exact A |]. intros ts H. unfold opcodes_tokens in H. rewrite A in H. injection H as <-. exact B.
  Qed.
End OpcodesView.

(* ---------- source map pcs and symbol map *)
Section PcViews.
  Variable tbl : list (string * Z).
  Variable push0 : bool.
  Hypothesis jumpdest_byte : slookup tbl "JUMPDEST" = Some 0x5b.

  (* every pc under which pass 1 files a source-map entry for an instruction-starting item (pc_raw_ast_map,
     error_map, pc_jump_map) is an instruction start of the final bytes, and the byte there is the item's opcode *)
  Theorem source_map_pcs_model : forall asm bs sm cm k h,
    assemble tbl push0 asm = Ok (bs, sm, cm) -> wf_asm tbl asm = true ->
    nth_error asm k = Some h -> is_head tbl h = true ->
    exists pc op rest,
      pc_of_index tbl push0 cm asm k = Ok pc /\ emit_item tbl push0 sm cm h = Ok (op :: rest) /\
      In pc (boundaries bs) /\ byte_at bs pc = Some op /\
      In (pc, op, firstn (push_width op) (skipn (S (Z.to_nat pc)) bs)) (decode bs).
  Proof.
    intros asm bs sm cm k h A W N HD.
    apply nth_error_split in N as (p & s & -> & <-).
    destruct (decode_emit_roundtrip_model tbl push0 jumpdest_byte _ _ _ _ p h s A W eq_refl HD)
      as (bp & op & rest & Ep & P & Ei & D & _).
    exists (zlen bp), op, rest. unfold pc_of_index.
    rewrite firstn_app, Nat.sub_diag, firstn_all. cbn [firstn]. rewrite app_nil_r.
    repeat split; try assumption.
    - rewrite <- decode_starts_are_boundaries. apply in_map_iff. eexists. split; [| exact D]. reflexivity.
    - pose proof D as D'. apply decode_fuel_instr in D' as (_ & NE & _); [| lia].
      rewrite Z.sub_0_r in NE. unfold byte_at. pose proof (zlen_nonneg bp).
      destruct (zlen bp <? 0) eqn:Q; [lia | exact NE].
  Qed.

  Lemma item_sym_effect : forall cm it sm pc sm' pc', resolve_item tbl push0 cm it sm pc = Ok (sm', pc') ->
    sm' = sm \/ exists l, (it = ILabel l \/ it = IDataHeader l) /\ sm' = (l, pc) :: sm.
  Proof.
    intros cm it sm pc sm' pc' R. destruct it; cbn in R;
      repeat match goal with
             | H : bind (add_sym _ _ _) _ = Ok _ |- _ => apply bind_ok in H as (? & ?A & H); apply add_sym_ok in A as (-> & _)
             | H : bind _ _ = Ok _ |- _ => apply bind_ok in H as (? & ? & H)
             | H : (if ?c then _ else _) = Ok _ |- _ => destruct c
             | H : match ?c with Some _ => _ | None => _ end = Ok _ |- _ => destruct c
             | H : Ok _ = Ok _ |- _ => inv H
             | H : Err _ = Ok _ |- _ => discriminate H
             end; eauto.
  Qed.

  Lemma walk_sym_origin : forall cm asm sm0 pc0 sm1 pc1 l off,
    resolve_walk tbl push0 cm asm sm0 pc0 = Ok (sm1, pc1) -> lookup sm1 l = Some off ->
    lookup sm0 l = Some off \/
    exists p it s smp, asm = p ++ it :: s /\ (it = ILabel l \/ it = IDataHeader l) /\
                       resolve_walk tbl push0 cm p sm0 pc0 = Ok (smp, off).
  Proof.
    intros cm. induction asm as [| it r IH]; intros sm0 pc0 sm1 pc1 l off R L.
    - inv R. left. exact L.
    - apply walk_cons in R as (sm' & pc' & Ri & Rr).
      destruct (IH _ _ _ _ _ _ Rr L) as [L' | (p & it' & s & smp & -> & K & Wp)].
      + destruct (item_sym_effect _ _ _ _ _ _ Ri) as [-> | (l' & K & ->)]; [left; exact L' |].
        cbn in L'. destruct (Z.eqb_spec l' l) as [-> | NE]; [| left; exact L'].
        inv L'. right. exists [], it, r, sm0. split; [reflexivity | split; [exact K | reflexivity]].
      + right. exists (it :: p), it', s, smp. split; [reflexivity | split; [exact K |]].
        cbn [Asm.resolve_walk]. rewrite Ri. cbn [bind]. exact Wp.
  Qed.

  (* the symbol_map output is truthful and complete: each entry is the magic code_end = length of the bytes,
     or a Label / data header standing exactly at that byte offset *)
  Theorem symbol_map_truthful_model : forall asm bs sm cm l off,
    assemble tbl push0 asm = Ok (bs, sm, cm) -> lookup sm l = Some off ->
    (l = CODE_END /\ off = zlen bs) \/
    exists p it s bp, asm = p ++ it :: s /\ (it = ILabel l \/ it = IDataHeader l) /\
                      emit tbl push0 sm cm p = Ok bp /\ off = zlen bp.
  Proof.
    intros asm bs sm cm l off A L. pose proof A as A'.
    apply assemble_inv in A' as (sm0 & pc & C & W & AS & E).
    apply add_sym_ok in AS as (-> & _). cbn [lookup] in L.
    destruct (Z.eqb_spec CODE_END l) as [<- | NE].
    - left. split; [reflexivity |]. inv L. pose proof (walk_size_agree _ _ _ _ _ _ _ _ _ _ W E). lia.
    - destruct (walk_sym_origin _ _ _ _ _ _ _ _ W L) as [X | (p & it & s & smp & -> & K & Wp)]; [discriminate X |].
      right. apply emit_app in E as (bp & bsuf & Ep & _ & _).
      exists p, it, s, bp. repeat split; try assumption.
      pose proof (walk_size_agree _ _ _ _ _ _ _ _ _ _ Wp Ep). lia.
  Qed.
End PcViews.
