(* C16: the independent decoder.  Byte-level facts (no reference to assembly items) and the round trip
   decode (emit code): every instruction-starting item of a well-formed assembly is found by the decoder
   at the pc pass 1 computed, with the opcode and immediates the item emitted. *)
From Coq Require Import ZArith List Bool String Lia ZifyBool.
From Verif Require Import Base.PyInt C16.Asm C16.HexBytes C16.PushProofs C16.AsmProofs.
Import ListNotations.
Open Scope list_scope.
Open Scope Z_scope.

Definition enc (i : Z * Z * list Z) : list Z := let '(_, op, imm) := i in op :: imm.
Definition ipc (i : Z * Z * list Z) : Z := fst (fst i).

Lemma skipn_length_le : forall {A} k (l : list A), (List.length (skipn k l) <= List.length l)%nat.
Proof. intros. rewrite skipn_length. lia. Qed.

(* decoding loses nothing: re-encoding the decoded instructions gives back the bytes (any byte string) *)
Lemma decode_fuel_lossless : forall fuel bs pc, (List.length bs <= fuel)%nat ->
  List.concat (map enc (decode_fuel fuel bs pc)) = bs.
Proof.
  induction fuel as [| f IH]; intros bs pc L.
  - destruct bs; [reflexivity | cbn in L; lia].
  - destruct bs as [| b r]; [reflexivity |]. cbn [decode_fuel map List.concat enc].
    rewrite IH by (pose proof (skipn_length_le (push_width b) r); cbn in L; lia).
    cbn [app]. f_equal. apply firstn_skipn.
Qed.

Lemma scan_skipn : forall k r pc, scan k r pc = scan O (skipn k r) (pc + zlen (firstn k r)).
Proof.
  induction k as [| k IH]; intros r pc.
  - cbn [skipn firstn]. rewrite zlen_nil, Z.add_0_r. reflexivity.
  - destruct r as [| a r]; [reflexivity |]. cbn [scan skipn firstn]. rewrite IH, zlen_cons. f_equal. lia.
Qed.

(* the decoder's instruction starts are exactly the EVM jumpdest-analysis boundaries *)
Lemma decode_fuel_starts : forall fuel bs pc, (List.length bs <= fuel)%nat ->
  map ipc (decode_fuel fuel bs pc) = scan O bs pc.
Proof.
  induction fuel as [| f IH]; intros bs pc L.
  - destruct bs; [reflexivity | cbn in L; lia].
  - destruct bs as [| b r]; [reflexivity |]. cbn [decode_fuel map scan ipc fst]. f_equal.
    rewrite IH by (pose proof (skipn_length_le (push_width b) r); cbn in L; lia).
    rewrite (scan_skipn (push_width b) r (pc + 1)). reflexivity.
Qed.

Lemma skipn_skipn' : forall {A} b a (l : list A), skipn a (skipn b l) = skipn (b + a) l.
Proof.
  induction b as [| b IH]; intros a l; [reflexivity |].
  destruct l as [| x l]; [cbn; apply skipn_nil | cbn [skipn plus]; apply IH].
Qed.

Lemma decode_fuel_instr : forall fuel bs pc0 pc op imm, (List.length bs <= fuel)%nat ->
  In (pc, op, imm) (decode_fuel fuel bs pc0) ->
  pc0 <= pc /\ nth_error bs (Z.to_nat (pc - pc0)) = Some op /\
  imm = firstn (push_width op) (skipn (S (Z.to_nat (pc - pc0))) bs).
Proof.
  induction fuel as [| f IH]; intros bs pc0 pc op imm L I.
  - destruct bs; [inversion I | cbn in L; lia].
  - destruct bs as [| b r]; [inversion I |]. cbn [decode_fuel] in I. destruct I as [E | I].
    + injection E as <- <- <-. rewrite Z.sub_diag. cbn. repeat split; try lia; reflexivity.
    + set (k := push_width b) in *.
      destruct (Nat.le_gt_cases k (List.length r)) as [K | K].
      * assert (List.length (firstn k r) = k) as FL by (apply firstn_length_le; exact K).
        apply IH in I; [| pose proof (skipn_length_le k r); cbn in L; lia].
        destruct I as (P & N & M). unfold zlen in *. rewrite FL in *.
        set (j := Z.to_nat (pc - (pc0 + 1 + Z.of_nat k))) in *.
        assert (Z.to_nat (pc - pc0) = S (k + j)) as -> by lia.
        split; [lia |]. split.
        -- cbn [nth_error]. rewrite <- N. rewrite <- (firstn_skipn k r) at 1.
           rewrite nth_error_app2 by lia. f_equal. lia.
        -- rewrite M. f_equal. change (skipn (S (S (k + j))) (b :: r)) with (skipn (S (k + j)) r). rewrite skipn_skipn'. f_equal. lia.
      * rewrite skipn_all2 in I by lia. destruct f; inversion I.
Qed.

Theorem decode_lossless : forall bs, List.concat (map enc (decode bs)) = bs.
Proof. intros. apply decode_fuel_lossless. lia. Qed.

Theorem decode_starts_are_boundaries : forall bs, map ipc (decode bs) = boundaries bs.
Proof. intros. apply decode_fuel_starts. lia. Qed.

Theorem decode_at_boundary : forall bs pc, In pc (boundaries bs) ->
  exists op, byte_at bs pc = Some op /\
             In (pc, op, firstn (push_width op) (skipn (S (Z.to_nat pc)) bs)) (decode bs).
Proof.
  intros bs pc I. rewrite <- decode_starts_are_boundaries in I. apply in_map_iff in I as ([[pc' op] imm] & E & I).
  cbn in E. subst pc'. pose proof I as I'.
  apply decode_fuel_instr in I' as (P & N & M); [| lia]. rewrite Z.sub_0_r in *.
  exists op. split.
  - unfold byte_at. destruct (pc <? 0) eqn:Q; [lia | exact N].
  - rewrite <- M. exact I.
Qed.

Section RoundTrip.
  Variable tbl : list (string * Z).
  Variable push0 : bool.
  Hypothesis jumpdest_byte : slookup tbl "JUMPDEST" = Some 0x5b.

  (* decode (emit asm) finds every instruction-starting item at its pass-1 pc with the item's opcode byte;
     when the item carries its own immediates (label / constant pushes, jumpdest) they are the decoded ones *)
  Theorem decode_emit_roundtrip_model : forall asm bs sm cm p h s,
    assemble tbl push0 asm = Ok (bs, sm, cm) -> wf_asm tbl asm = true ->
    asm = p ++ h :: s -> is_head tbl h = true ->
    exists bp op rest,
      emit tbl push0 sm cm p = Ok bp /\ pc_after tbl push0 cm p 0 = Ok (zlen bp) /\
      emit_item tbl push0 sm cm h = Ok (op :: rest) /\
      In (zlen bp, op, firstn (push_width op) (skipn (S (Z.to_nat (zlen bp))) bs)) (decode bs) /\
      (List.length rest = push_width op ->
       firstn (push_width op) (skipn (S (Z.to_nat (zlen bp))) bs) = rest).
  Proof.
    intros asm bs sm cm p h s A W -> HD.
    destruct (item_bytes_at_model tbl push0 _ _ _ _ _ _ _ A eq_refl) as (bp & bi & bsuf & -> & Ep & Ei & P).
    destruct (head_emits_nonempty tbl push0 jumpdest_byte sm cm h bi HD Ei) as (op & rest & ->).
    pose proof A as A'. apply assemble_inv in A' as (sm0 & pc & C & _ & _ & E).
    unfold wf_asm in W. rewrite C in W.
    destruct (scan_reaches_head tbl push0 jumpdest_byte cm sm _ O _ 0 p h s HD W E eq_refl) as (bp' & Ep' & I).
    rewrite Ep in Ep'. injection Ep' as <-. rewrite Z.add_0_l in I.
    destruct (decode_at_boundary _ _ I) as (op' & B & D).
    rewrite <- app_comm_cons in B. rewrite byte_at_app in B. injection B as <-.
    exists bp, op, rest. repeat split; try assumption.
    intro L. unfold zlen. rewrite Nat2Z.id.
    replace (skipn (S (List.length bp)) (bp ++ (op :: rest) ++ bsuf)) with (rest ++ bsuf).
    - rewrite <- L. rewrite firstn_app, Nat.sub_diag, firstn_all. cbn. apply app_nil_r.
    - change (S (List.length bp)) with (1 + List.length bp)%nat. rewrite Nat.add_comm.
      rewrite <- skipn_skipn'. rewrite skipn_app, skipn_all, Nat.sub_diag. reflexivity.
  Qed.
End RoundTrip.
