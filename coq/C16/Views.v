(* C16 models of the output printers (vyper/compiler/output.py): `_build_opcodes` (bytes -> text),
   `_build_asm` (assembly -> text) and the pc keys of the source map recorded by pass 1.  No proofs here.
   The opcode table is the regenerated get_opcodes() of the active version. *)
From Coq Require Import ZArith List Bool String Ascii DecimalString.
From Verif Require Import Base.PyInt C16.Asm C16.LoopsPrelude.
Import ListNotations.
Open Scope string_scope.
Open Scope list_scope.
Open Scope Z_scope.
Local Infix "+++" := append (at level 60, right associativity).

(* ---------- small text helpers *)
Definition hexdigit (upper : bool) (n : Z) : ascii :=
  match n with
  | 0 => "0" | 1 => "1" | 2 => "2" | 3 => "3" | 4 => "4" | 5 => "5" | 6 => "6" | 7 => "7" | 8 => "8" | 9 => "9"
  | 10 => if upper then "A" else "a" | 11 => if upper then "B" else "b" | 12 => if upper then "C" else "c"
  | 13 => if upper then "D" else "d" | 14 => if upper then "E" else "e" | _ => if upper then "F" else "f"
  end%char.
(* f"{b:0>2X}" / hex(b)[2:].rjust(2,"0") for 0 <= b < 256 *)
Definition hex2 (upper : bool) (b : Z) : string :=
  String (hexdigit upper (b / 16)) (String (hexdigit upper (b mod 16)) EmptyString).
(* hex(b) for 0 <= b < 256: no leading zero *)
Definition pyhex (b : Z) : string :=
  ("0x" +++ (if b <? 16 then String (hexdigit false b) EmptyString else hex2 false b)).

Fixpoint prefixb (p s : string) : bool :=
  match p, s with
  | EmptyString, _ => true
  | String a p', String b s' => Ascii.eqb a b && prefixb p' s'
  | _, _ => false
  end.
(* python `p in s` *)
Fixpoint containsb (p s : string) : bool :=
  prefixb p s || match s with EmptyString => false | String _ s' => containsb p s' end.

(* ---------- _build_opcodes *)
Inductive tok := TName (s : string) | THex (bs : list Z).

Section Opcodes.
  Variable tbl : list (string * Z).

  (* opcode_map = dict((v[0], k) for k, v in get_opcodes().items()): the last key wins *)
  Definition rlookup (b : Z) : option string :=
    fold_left (fun acc e => if snd e =? b then Some (fst e) else acc) tbl None.
  Definition op_name (b : Z) : string :=
    match rlookup b with Some k => k | None => ("VERBATIM_" +++ pyhex b) end.
  Definition name_is_push (s : string) : bool := containsb "PUSH" s && negb (String.eqb s "PUSH0").

  Fixpoint opcodes_fuel (fuel : nat) (bs : list Z) : res (list tok) :=
    match fuel, bs with
    | _, [] => Ok []
    | O, _ => Err OutOfFuel
    | S f, op :: r =>
        let nm := op_name op in
        if name_is_push nm then
          k <- match rlookup op with Some k => Ok k | None => Err KeyErr end ;;   (* opcode_map[op] *)
          n <- py_int_of_str (str_drop 4 k) ;;
          let m := Nat.min (Z.to_nat n) (List.length r) in
          rest <- opcodes_fuel f (skipn m r) ;;
          Ok (TName nm :: THex (firstn m r) :: rest)
        else
          rest <- opcodes_fuel f r ;; Ok (TName nm :: rest)
    end.
  Definition opcodes_tokens (bs : list Z) : res (list tok) := opcodes_fuel (List.length bs) bs.

  Definition tok_text (t : tok) : string :=
    match t with
    | TName s => s
    | THex bs => ("0x" +++ String.concat "" (map (hex2 true) bs))
    end.
  Definition opcodes_text (bs : list Z) : res string :=
    ts <- opcodes_tokens bs ;; Ok (String.concat " " (map tok_text ts)).

  (* reading the listing back: a name denotes its table byte, VERBATIM_0x.. its number *)
  Definition name_byte (s : string) : option Z :=
    match slookup tbl s with
    | Some b => Some b
    | None =>
        if prefixb "VERBATIM_0x" s then
          let h := str_drop 11 s in
          let digits := map (fun c => match c with
                                      | "0" => 0 | "1" => 1 | "2" => 2 | "3" => 3 | "4" => 4 | "5" => 5 | "6" => 6 | "7" => 7
                                      | "8" => 8 | "9" => 9 | "a" => 10 | "b" => 11 | "c" => 12 | "d" => 13 | "e" => 14
                                      | "f" => 15 | _ => 1000 end%char) (list_ascii_of_string h) in
          Some (fold_left (fun a d => a * 16 + d) digits 0)
        else None
    end.
  Fixpoint bytes_of_tokens (ts : list tok) : option (list Z) :=
    match ts with
    | [] => Some []
    | TName s :: r => match name_byte s, bytes_of_tokens r with Some b, Some l => Some (b :: l) | _, _ => None end
    | THex bs :: r => match bytes_of_tokens r with Some l => Some (bs ++ l) | None => None end
    end.

  (* what the table must satisfy for the listing to be faithful (finite: checked by computation) *)
  Definition byte_names_ok (b : Z) : bool :=
    match name_byte (op_name b) with Some b' => b' =? b | None => false end &&
    Bool.eqb (name_is_push (op_name b)) (Nat.ltb 0 (push_width b)) &&
    (if name_is_push (op_name b)
     then match rlookup b with
          | Some k => match py_int_of_str (str_drop 4 k) with Ok n => n =? Z.of_nat (push_width b) | Err _ => false end
          | None => false end
     else true).
  Definition names_ok : bool := forallb byte_names_ok (map Z.of_nat (seq 0 256)).
End Opcodes.

(* ---------- _build_asm: the listing of the assembly.  Label / constant ids are printed through [nm]. *)
Section AsmText.
  Variable nm : Z -> string.       (* label names *)
  Variable nmc : Z -> string.      (* constant names *)
  (* str(int): PUSH_OFST offsets, CONST values, plain ints *)
  Definition dec (z : Z) : string := NilZero.string_of_int (Z.to_int z).

  Definition item_repr (it : item) : string :=
    match it with
    | IOp s => s
    | IInt n => dec n
    | IPushLabel l => "PUSHLABEL " +++ nm l
    | ILabel l => "LABEL " +++ nm l
    | IPushOfstL l o => "PUSH_OFST(" +++ nm l +++ ", " +++ dec o +++ ")"
    | IPushOfstC c o => "PUSH_OFST(CONSTREF " +++ nmc c +++ ", " +++ dec o +++ ")"
    | IDataBytes bs => "DATABYTES " +++ String.concat "" (map (hex2 false) bs)
    | IDataLabel l => "DATALABEL " +++ nm l
    | IDataHeader l => "DATA " +++ nm l
    | IConst c v => "CONST " +++ nmc c +++ " " +++ dec v
    end.

  Definition NL : string := String (ascii_of_nat 10) EmptyString.

  Fixpoint asm_text_from (in_push : Z) (asm : list item) : res string :=
    match asm with
    | [] => Ok EmptyString
    | it :: r =>
        match it with
        | ILabel _ | IDataHeader _ =>
            t <- asm_text_from in_push r ;; Ok (NL +++ NL +++ item_repr it +++ ":" +++ t)
        | _ =>
            if 0 <? in_push then
              match it with
              | IInt n => t <- asm_text_from (in_push - 1) r ;;
                          Ok ((if (0 <=? n) && (n <? 16) then "0" +++ String (hexdigit false n) EmptyString
                               else str_drop 2 (pyhex n)) +++ t)
              | _ => Err AssertFail
              end
            else
              match it with
              | IOp s =>
                  if prefixb "PUSH" s && negb (String.eqb s "PUSH0") then
                    k <- py_int_of_str (str_drop 4 s) ;;
                    t <- asm_text_from k r ;; Ok (NL +++ "    " +++ s +++ " 0x" +++ t)
                  else t <- asm_text_from 0 r ;; Ok (NL +++ "    " +++ s +++ t)
              | _ => t <- asm_text_from 0 r ;; Ok (NL +++ "    " +++ item_repr it +++ t)
              end
        end
    end.
  Definition asm_text (asm : list item) : res string :=
    t <- asm_text_from 0 asm ;; Ok ("__entry__:" +++ t).
End AsmText.

(* ---------- source map: pass 1 records entries under the pc at which an item stands *)
Definition pc_of_index (tbl : list (string * Z)) (push0 : bool) (cm : list (Z * Z)) (asm : list item) (k : nat) : res Z :=
  pc_after tbl push0 cm (firstn k asm) 0.

Fixpoint zmem (x : Z) (l : list Z) : bool := match l with [] => false | y :: r => (x =? y) || zmem x r end.
Definition same_set (a b : list Z) : bool := forallb (fun x => zmem x b) a && forallb (fun x => zmem x a) b.

(* keys of a pc-indexed map whose entries are recorded at the items with the given indices (+ extra keys) *)
Definition keys_at (tbl : list (string * Z)) (push0 : bool) (asm : list item) (idx : list nat) (extra : list Z) : res (list Z) :=
  cm <- collect_consts asm [] ;;
  (fix go (l : list nat) : res (list Z) :=
     match l with
     | [] => Ok extra
     | k :: r => pc <- pc_of_index tbl push0 cm asm k ;; rest <- go r ;; Ok (pc :: rest)
     end) idx.
