(* C16 property theorems.  The assembler model (Asm.v) is parametric in the opcode table and the
   PUSH0 switch; here it is instantiated with the tables regenerated from vyper/evm/opcodes.py
   (GenOpcodes.v) where a fact about the table is needed. *)
From Coq Require Import ZArith List Bool String Lia.
From Verif Require Import Base.PyInt C16.Asm C16.HexBytes C16.PushProofs C16.AsmProofs C16.DecodeProofs C16.EvmOpcodes C16.GenOpcodes.
Import ListNotations.
Open Scope list_scope.
Open Scope Z_scope.

(* the regenerated opcode tables agree with the independent EVM specification, have unique keys,
   and PUSH0 is used exactly from shanghai on *)
Theorem opcode_tables_match_spec :
  forallb (fun v => table_ok (opcode_table v)) evm_versions = true /\
  forallb (fun v => Bool.eqb (has_push0 v) (idx_shanghai <=? v)) evm_versions = true /\
  (5 <=? Z.of_nat (List.length evm_versions)) = true.
Proof. vm_compute. auto. Qed.
Print Assumptions opcode_tables_match_spec.

Lemma jumpdest_in_tables : forall v, In v evm_versions -> slookup (opcode_table v) "JUMPDEST" = Some 0x5b.
Proof.
  assert (forallb (fun v => match slookup (opcode_table v) "JUMPDEST" with Some b => b =? 0x5b | None => false end)
                  evm_versions = true) as H by (vm_compute; reflexivity).
  intros v I. rewrite forallb_forall in H. specialize (H v I).
  destruct (slookup (opcode_table v) "JUMPDEST"); [| discriminate]. apply Z.eqb_eq in H. congruence.
Qed.

(* the two passes agree, for every table, both PUSH0 modes, every split point *)
Theorem pc_agreement : forall tbl push0 asm bs sm cm p s,
  assemble tbl push0 asm = Ok (bs, sm, cm) -> asm = p ++ s ->
  exists bp bsuf, emit tbl push0 sm cm p = Ok bp /\ emit tbl push0 sm cm s = Ok bsuf /\ bs = bp ++ bsuf /\
                  pc_after tbl push0 cm p 0 = Ok (zlen bp).
Proof. exact pc_agreement_model. Qed.
Print Assumptions pc_agreement.

Theorem item_bytes_at : forall tbl push0 asm bs sm cm p it s,
  assemble tbl push0 asm = Ok (bs, sm, cm) -> asm = p ++ it :: s ->
  exists bp bi bsuf, bs = bp ++ bi ++ bsuf /\ emit tbl push0 sm cm p = Ok bp /\
                     emit_item tbl push0 sm cm it = Ok bi /\ pc_after tbl push0 cm p 0 = Ok (zlen bp).
Proof. exact item_bytes_at_model. Qed.
Print Assumptions item_bytes_at.

Theorem code_end_is_length : forall tbl push0 asm bs sm cm,
  assemble tbl push0 asm = Ok (bs, sm, cm) -> lookup sm CODE_END = Some (zlen bs).
Proof. exact code_end_is_length_model. Qed.
Print Assumptions code_end_is_length.

Theorem label_is_jumpdest : forall v asm bs sm cm l,
  In v evm_versions ->
  assemble (opcode_table v) (has_push0 v) asm = Ok (bs, sm, cm) -> wf_asm (opcode_table v) asm = true ->
  In (ILabel l) asm ->
  exists off, lookup sm l = Some off /\ valid_jumpdest bs off.
Proof. intros v asm bs sm cm l I. apply label_is_jumpdest_model. apply jumpdest_in_tables. exact I. Qed.
Print Assumptions label_is_jumpdest.

(* decode_emit_roundtrip: the independent decoder, run on the assembled bytes, finds every instruction-starting
   item (mnemonic, Label, PUSHLABEL, PUSH_OFST) at the pc pass 1 assigned, with the opcode byte the item emitted
   and, for label/constant pushes, exactly the item's immediates; decoding is lossless on any byte string and
   its instruction starts are the EVM jumpdest-analysis boundaries. *)
Theorem decode_emit_roundtrip : forall v asm bs sm cm p h s,
  In v evm_versions ->
  assemble (opcode_table v) (has_push0 v) asm = Ok (bs, sm, cm) -> wf_asm (opcode_table v) asm = true ->
  asm = p ++ h :: s -> is_head (opcode_table v) h = true ->
  exists bp op rest,
    emit (opcode_table v) (has_push0 v) sm cm p = Ok bp /\
    pc_after (opcode_table v) (has_push0 v) cm p 0 = Ok (zlen bp) /\
    emit_item (opcode_table v) (has_push0 v) sm cm h = Ok (op :: rest) /\
    In (zlen bp, op, firstn (push_width op) (skipn (S (Z.to_nat (zlen bp))) bs)) (decode bs) /\
    (List.length rest = push_width op -> firstn (push_width op) (skipn (S (Z.to_nat (zlen bp))) bs) = rest).
Proof.
  intros v asm bs sm cm p h s I. apply decode_emit_roundtrip_model. apply jumpdest_in_tables. exact I.
Qed.
Print Assumptions decode_emit_roundtrip.

Theorem decode_is_lossless : forall bs,
  List.concat (map enc (decode bs)) = bs /\ map ipc (decode bs) = boundaries bs.
Proof. intro bs. split; [apply decode_lossless | apply decode_starts_are_boundaries]. Qed.

Theorem pushlabel_value : forall tbl push0 sm cm l b,
  emit_item tbl push0 sm cm (IPushLabel l) = Ok b ->
  exists off, lookup sm l = Some off /\ 0 <= off < 65536 /\
              b = [0x61; off / 256; off mod 256] /\ be_val (tl b) = off.
Proof. exact pushlabel_value_model. Qed.
Print Assumptions pushlabel_value.

Theorem push_ofst_value : forall tbl push0 sm cm l o b,
  emit_item tbl push0 sm cm (IPushOfstL l o) = Ok b ->
  exists off, lookup sm l = Some off /\ 0 <= off + o < 65536 /\
              b = [0x61; (off + o) / 256; (off + o) mod 256] /\ be_val (tl b) = off + o.
Proof. exact push_ofst_label_value_model. Qed.
Print Assumptions push_ofst_value.

Theorem const_value : forall tbl push0 sm cm c o b,
  emit_item tbl push0 sm cm (IPushOfstC c o) = Ok b ->
  exists v, lookup cm c = Some v /\ b = push_bytes push0 (v + o) /\
    (0 <= v + o -> exists imm, b = (PUSH_OFFSET + zlen imm) :: imm /\ be_val imm = v + o /\
                               List.length imm = push_width_spec push0 (v + o) /\ Forall is_byte imm).
Proof. exact push_ofst_const_value_model. Qed.
Print Assumptions const_value.

Theorem data_label_value : forall tbl push0 sm cm l b,
  emit_item tbl push0 sm cm (IDataLabel l) = Ok b ->
  exists off, lookup sm l = Some off /\ 0 <= off < 65536 /\ b = [off / 256; off mod 256] /\ be_val b = off.
Proof. exact data_label_value_model. Qed.

Theorem data_verbatim : forall tbl push0 asm bs sm cm p l d s,
  assemble tbl push0 asm = Ok (bs, sm, cm) -> asm = p ++ IDataHeader l :: IDataBytes d :: s ->
  exists bp bsuf, bs = bp ++ d ++ bsuf /\ lookup sm l = Some (zlen bp).
Proof. exact data_verbatim_model. Qed.
Print Assumptions data_verbatim.

Theorem dup_label_rejected : forall tbl push0 asm p q s l,
  asm = p ++ ILabel l :: q ++ ILabel l :: s -> exists e, assemble tbl push0 asm = Err e.
Proof. exact dup_label_rejected_model. Qed.

(* PUSH x: exact value, least width, PUSH0 iff available; total on [0, 2^256) *)
Theorem push_minimal_width : forall push0 x, 0 <= x ->
  (exists imm, push_bytes push0 x = (PUSH_OFFSET + zlen imm) :: imm /\
               List.length imm = push_width_spec push0 x /\ be_val imm = x /\ Forall is_byte imm) /\
  (0 < x -> x < 256 ^ Z.of_nat (push_width_spec push0 x) /\
            forall n : nat, x < 256 ^ Z.of_nat n -> (push_width_spec push0 x <= n)%nat) /\
  ((push_width_spec push0 x <= 32)%nat <-> x < 2 ^ 256) /\
  push_bytes push0 0 = (if push0 then [0x5f] else [0x60; 0]).
Proof.
  intros push0 x H. split; [apply push_bytes_shape; exact H |].
  split; [apply push_width_minimal |]. split; [apply push_width_le_32; exact H | apply push_zero].
Qed.
Print Assumptions push_minimal_width.

(* PUSH_N x n: succeeds exactly on 0 <= x < 256^n (never truncates), n big-endian bytes of x *)
Theorem push_n_exact : forall x n,
  (0 <= x < 256 ^ Z.of_nat n -> push_n_bytes x n = Ok ((PUSH_OFFSET + Z.of_nat n) :: be_n n x) /\
                                 be_val (be_n n x) = x /\ List.length (be_n n x) = n) /\
  (~ (0 <= x < 256 ^ Z.of_nat n) -> push_n_bytes x n = Err AssertFail).
Proof.
  intros x n. destruct (push_n_total x n) as [A B]. split; [| exact B].
  intro H. split; [apply A; exact H |]. split; [| apply be_n_length].
  rewrite be_n_val. apply Z.mod_small. exact H.
Qed.
Print Assumptions push_n_exact.

(* non-vacuity: a small program with a label, a label push, a constant push, and data; assembled
   under a PUSH0 and a non-PUSH0 target; it is well-formed and its label is a valid jump target *)
Definition demo : list item :=
  [IPushLabel 1; IOp "JUMP"; IOp "PUSH2"; IInt 1; IInt 0x5b; IPushOfstC 1 0; ILabel 1; IPushOfstL 0 0;
   IConst 1 300; IOp "STOP"; IDataHeader 2; IDataBytes [0x60; 0x5b]; IDataLabel 1].
Example demo_assembles :
  (exists sm cm, assemble (opcode_table idx_prague) (has_push0 idx_prague) demo =
     Ok ([0x61; 0; 10; 0x56; 0x61; 1; 0x5b; 0x61; 1; 0x2c; 0x5b; 0x61; 0; 19; 0; 0x60; 0x5b; 0; 10], sm, cm)
     /\ lookup sm 1 = Some 10 /\ lookup sm 2 = Some 15 /\ lookup sm CODE_END = Some 19) /\
  wf_asm (opcode_table idx_prague) demo = true /\ In (ILabel 1) demo /\ In idx_prague evm_versions /\
  boundaries [0x61; 0; 10; 0x56; 0x61; 1; 0x5b; 0x61; 1; 0x2c; 0x5b; 0x61; 0; 19; 0] = [0; 3; 4; 7; 10; 11; 14].
Proof. split; [eexists; eexists; vm_compute; auto | vm_compute; auto 10]. Qed.
