(* C16 property theorems about the output views (opcodes, symbol_map, source-map pcs), instantiated with the
   opcode tables regenerated from vyper/evm/opcodes.py. *)
From Coq Require Import ZArith List Bool String Lia.
From Verif Require Import Base.PyInt C16.Asm C16.HexBytes C16.LoopsPrelude C16.PushProofs C16.AsmProofs C16.DecodeProofs
  C16.Views C16.ViewsProofs C16.AsmTextProofs C16.TableProofs C16.EvmOpcodes C16.GenOpcodes C16.PropsAsm.
Import ListNotations.
Open Scope list_scope.
Open Scope Z_scope.

Lemma tables_names_ok : forall v, In v evm_versions -> names_ok (opcode_table v) = true.
Proof.
  assert (forallb (fun v => names_ok (opcode_table v)) evm_versions = true) as H by (vm_compute; reflexivity).
  intros v I. rewrite forallb_forall in H. exact (H v I).
Qed.

(* `opcodes` / `opcodes_runtime`: for every byte string, the listing is token for token the independent
   decoder's view (one mnemonic per instruction start, VERBATIM_0x.. for unassigned bytes, the immediates of
   PUSH1..32 as one 0x.. token, a truncated final push keeps the bytes that exist), and reading the listing
   back yields exactly the bytes *)
Theorem opcodes_describe_bytes : forall v bs, In v evm_versions -> Forall is_byte bs ->
  opcodes_tokens (opcode_table v) bs = Ok (flat_map (tok_of (opcode_table v)) (decode bs)) /\
  (forall ts, opcodes_tokens (opcode_table v) bs = Ok ts -> bytes_of_tokens (opcode_table v) ts = Some bs).
Proof. intros v bs I F. apply opcodes_describe_bytes_model; [apply tables_names_ok; exact I | exact F]. Qed.
Print Assumptions opcodes_describe_bytes.

(* source map: the pc under which pass 1 files the entry of an instruction-starting item is an instruction
   start of the final bytes holding that item's opcode (pc_raw_ast_map / error_map / pc_jump_map keys) *)
Theorem source_map_pcs : forall v asm bs sm cm k h, In v evm_versions ->
  assemble (opcode_table v) (has_push0 v) asm = Ok (bs, sm, cm) -> wf_asm (opcode_table v) asm = true ->
  nth_error asm k = Some h -> is_head (opcode_table v) h = true ->
  exists pc op rest,
    pc_of_index (opcode_table v) (has_push0 v) cm asm k = Ok pc /\
    emit_item (opcode_table v) (has_push0 v) sm cm h = Ok (op :: rest) /\
    In pc (boundaries bs) /\ byte_at bs pc = Some op /\
    In (pc, op, firstn (push_width op) (skipn (S (Z.to_nat pc)) bs)) (decode bs).
Proof. intros v asm bs sm cm k h I. apply source_map_pcs_model. apply jumpdest_in_tables. exact I. Qed.
Print Assumptions source_map_pcs.

(* pc_jump_map: entries are filed at JUMP / JUMPI / JUMPDEST items; the byte there is 0x56 / 0x57 / 0x5b *)
Theorem jump_map_points_at_jumps : forall v asm bs sm cm k s b, In v evm_versions ->
  assemble (opcode_table v) (has_push0 v) asm = Ok (bs, sm, cm) -> wf_asm (opcode_table v) asm = true ->
  nth_error asm k = Some (IOp s) -> In (s, b) [("JUMP", 0x56); ("JUMPI", 0x57); ("JUMPDEST", 0x5b)] ->
  exists pc, pc_of_index (opcode_table v) (has_push0 v) cm asm k = Ok pc /\ In pc (boundaries bs) /\ byte_at bs pc = Some b.
Proof.
  intros v asm bs sm cm k s b I A W N M.
  assert (slookup (opcode_table v) s = Some b /\ String.eqb s "DEBUG" = false) as [L D].
  { assert (forallb (fun v => forallb (fun e => match slookup (opcode_table v) (fst e) with Some x => x =? snd e | None => false end)
                                      [("JUMP", 0x56); ("JUMPI", 0x57); ("JUMPDEST", 0x5b)]) evm_versions = true) as H
      by (vm_compute; reflexivity).
    rewrite forallb_forall in H. specialize (H v I). rewrite forallb_forall in H. specialize (H _ M). cbn in H.
    destruct (slookup (opcode_table v) s) as [x |]; [| discriminate]. apply Z.eqb_eq in H. subst x.
    split; [reflexivity |]. destruct M as [E | [E | [E | []]]]; injection E as <- _; reflexivity. }
  assert (is_head (opcode_table v) (IOp s) = true) as HD by (cbn; rewrite D, L; reflexivity).
  destruct (source_map_pcs v asm bs sm cm k _ I A W N HD) as (pc & op & rest & P & Ei & B & BA & _).
  cbn in Ei. rewrite D, L in Ei. injection Ei as <- _. eauto.
Qed.

(* symbol_map: every entry is code_end = len(bytecode) or a Label / data header standing at that offset *)
Theorem symbol_map_truthful : forall tbl push0 asm bs sm cm l off,
  assemble tbl push0 asm = Ok (bs, sm, cm) -> lookup sm l = Some off ->
  (l = CODE_END /\ off = zlen bs) \/
  exists p it s bp, asm = p ++ it :: s /\ (it = ILabel l \/ it = IDataHeader l) /\
                    emit tbl push0 sm cm p = Ok bp /\ off = zlen bp.
Proof. exact symbol_map_truthful_model. Qed.
Print Assumptions symbol_map_truthful.

(* `asm` / `asm_runtime`: on every well-formed, successfully assembled program the listing printer is total (its
   `assert isinstance(item, int)` cannot fail, `int(item[4:])` cannot raise) and its PUSH grouping (in_push) is the
   byte-level grouping: after each PUSHk mnemonic it prints exactly the k immediates that the bytes carry *)
Theorem asm_listing_total : forall v asm bs sm cm nm nmc, In v evm_versions ->
  assemble (opcode_table v) (has_push0 v) asm = Ok (bs, sm, cm) -> wf_asm (opcode_table v) asm = true ->
  exists t, asm_text nm nmc asm = Ok t.
Proof.
  intros v asm bs sm cm nm nmc I A W.
  assert (asm_names_ok (opcode_table v) = true) as N.
  { assert (forallb (fun v => asm_names_ok (opcode_table v)) evm_versions = true) as H by (vm_compute; reflexivity).
    rewrite forallb_forall in H. exact (H v I). }
  apply assemble_inv in A as (sm0 & pc & C & Wk & _ & _). unfold wf_asm in W. rewrite C in W.
  destruct (asm_text_total_model (opcode_table v) (has_push0 v) nm nmc N cm asm O [] 0 _ W Wk) as (t & E).
  unfold asm_text. change (Z.of_nat 0) with 0 in E. rewrite E. cbn. eexists; reflexivity.
Qed.
Print Assumptions asm_listing_total.

(* data sections / jump tables (the layout C07's dispatch tables rely on): item k of a data section lies at
   offset(header) + sizes of the items before it -- so record i of a table of r-byte records is at table + i*r *)
Theorem data_item_position : forall tbl push0 asm bs sm cm p t ds it s,
  assemble tbl push0 asm = Ok (bs, sm, cm) -> asm = p ++ IDataHeader t :: ds ++ it :: s ->
  forallb is_data_item ds = true ->
  exists base bi bpre bsuf,
    lookup sm t = Some base /\ emit_item tbl push0 sm cm it = Ok bi /\
    bs = bpre ++ bi ++ bsuf /\ zlen bpre = base + data_size ds.
Proof. exact data_item_position_model. Qed.
Print Assumptions data_item_position.

(* a label stored in a data section (sparse-table entry, dense-table bucket pointer / function entry, venom djmp
   table): its two bytes are the big-endian resolved offset (< 2^16); a code label's offset is a valid EVM jump
   destination of the final bytes, a data header's offset is where that section's data starts *)
Theorem data_label_target : forall v asm bs sm cm p l s, In v evm_versions ->
  assemble (opcode_table v) (has_push0 v) asm = Ok (bs, sm, cm) -> wf_asm (opcode_table v) asm = true ->
  asm = p ++ IDataLabel l :: s ->
  exists off bpre bsuf,
    lookup sm l = Some off /\ 0 <= off < 65536 /\ bs = bpre ++ [off / 256; off mod 256] ++ bsuf /\
    pc_after (opcode_table v) (has_push0 v) cm p 0 = Ok (zlen bpre) /\
    (In (ILabel l) asm -> valid_jumpdest bs off) /\
    (forall p' s', asm = p' ++ IDataHeader l :: s' ->
       exists bp', emit (opcode_table v) (has_push0 v) sm cm p' = Ok bp' /\ off = zlen bp').
Proof. intros v asm bs sm cm p l s I. apply data_label_target_model. apply jumpdest_in_tables. exact I. Qed.
Print Assumptions data_label_target.

Example table_nonvacuous :
  exists bs sm cm, assemble (opcode_table idx_prague) (has_push0 idx_prague)
     [IPushLabel 2; IOp "JUMP"; ILabel 1; IOp "STOP"; IDataHeader 2; IDataBytes [7]; IDataLabel 1; IDataLabel 2] = Ok (bs, sm, cm) /\
   bs = [0x61; 0; 6; 0x56; 0x5b; 0; 7; 0; 4; 0; 6] /\ lookup sm 2 = Some 6 /\ lookup sm 1 = Some 4.
Proof. eexists. eexists. eexists. vm_compute. auto. Qed.
