(* C16 T-tie: the regenerated instructions.py (GenAsmInstr.v) equals the push specification of Asm.v.
   Recompiled on every run against the current source. *)
From Coq Require Import ZArith List Bool String Lia ZifyBool.
From Verif Require Import Base.PyInt C16.Asm C16.HexBytes C16.PushProofs C16.InstrBridge C16.GenOpcodes C16.GenAsmInstr.
Import ListNotations.
Open Scope list_scope.
Open Scope Z_scope.

Lemma nbytes_step : forall x, 0 < x -> nbytes x = S (nbytes (x / 256)).
Proof.
  intros x H. apply Nat2Z.inj. rewrite Nat2Z.inj_succ, nbytes_Z by exact H.
  destruct (Z_lt_ge_dec x 256) as [S | B].
  - rewrite (Z.div_small x 256) by lia. rewrite nbytes_nonpos by lia.
    assert (Z.log2 x < 8) by (apply Z.log2_lt_pow2; [lia | change (2 ^ 8) with 256; lia]).
    pose proof (Z.log2_nonneg x). rewrite Z.div_small by lia. reflexivity.
  - assert (0 < x / 256) by (apply Z.div_str_pos; lia).
    rewrite nbytes_Z by assumption.
    change 256 with (2 ^ 8) at 1. rewrite <- Z.shiftr_div_pow2 by lia.
    rewrite Z.log2_shiftr by lia.
    assert (8 <= Z.log2 x) by (apply Z.log2_le_pow2; [lia | change (2 ^ 8) with 256; lia]).
    rewrite Z.max_r by lia.
    remember (Z.log2 x) as L.
    pose proof (Z.div_mod L 8 ltac:(lia)). pose proof (Z.mod_pos_bound L 8 ltac:(lia)).
    pose proof (Z.div_mod (L - 8) 8 ltac:(lia)). pose proof (Z.mod_pos_bound (L - 8) 8 ltac:(lia)).
    lia.
Qed.

Lemma be_bytes_step : forall x, 0 < x -> be_bytes x = be_bytes (x / 256) ++ [x mod 256].
Proof. intros x H. unfold be_bytes. rewrite (nbytes_step x H). reflexivity. Qed.

Lemma be_bytes_nonpos : forall x, x <= 0 -> be_bytes x = [].
Proof. intros. unfold be_bytes. rewrite nbytes_nonpos by assumption. reflexivity. Qed.

(* the while loop of num_to_bytearray *)
Lemma ntb_loop : forall fuel x o, (nbytes x < fuel)%nat ->
  exists x', num_to_bytearray_loop1 fuel x o = Ok (x', be_bytes x ++ o).
Proof.
  induction fuel as [| f IH]; intros x o F; [lia |].
  cbn [num_to_bytearray_loop1]. destruct (x >? 0) eqn:G.
  - assert (0 < x) as P by lia. unfold py_mod, py_floordiv. cbn [Z.eqb bind].
    rewrite (nbytes_step x P) in F.
    destruct (IH (x / 256) ((x mod 256) :: o) ltac:(lia)) as (x' & E).
    exists x'. rewrite E. rewrite (be_bytes_step x P), <- app_assoc. reflexivity.
  - exists x. rewrite be_bytes_nonpos by lia. reflexivity.
Qed.

Lemma nbytes_lt_fuel : forall x, (nbytes x < 2 + Z.to_nat (Z.log2 x))%nat.
Proof.
  intros x. destruct (Z_le_gt_dec x 0) as [N | P].
  - rewrite nbytes_nonpos by assumption. lia.
  - pose proof (nbytes_Z x ltac:(lia)) as E. pose proof (Z.log2_nonneg x) as L.
    assert (Z.log2 x / 8 <= Z.log2 x) by (apply Z.div_le_upper_bound; lia). lia.
Qed.

(* num_to_bytearray x = big-endian minimal bytes of x, for every integer x (empty for x <= 0);
   in particular the loop never runs out of fuel *)
Theorem num_to_bytearray_correct : forall x, num_to_bytearray x = Ok (be_bytes x).
Proof.
  intros x. unfold num_to_bytearray.
  destruct (ntb_loop (2 + Z.to_nat (Z.log2 x)) x [] (nbytes_lt_fuel x)) as (x' & E).
  rewrite E. cbn. rewrite app_nil_r. reflexivity.
Qed.

Lemma version_check_shanghai : forall v, In v evm_versions ->
  ((idx_shanghai <=? v) && (v <=? idx_prague)) = has_push0 v.
Proof.
  assert (forallb (fun v => Bool.eqb ((idx_shanghai <=? v) && (v <=? idx_prague)) (has_push0 v)) evm_versions = true)
    as H by (vm_compute; reflexivity).
  intros v I. rewrite forallb_forall in H. specialize (H v I). apply Bool.eqb_prop in H. exact H.
Qed.

(* PUSH as translated: mnemonic index followed by the immediates *)
Theorem PUSH_raw : forall v x,
  PUSH v x = Ok (match push_bytes ((2 <=? v) && (v <=? 4)) x with op :: imm => (op - PUSH_OFFSET) :: imm | [] => [] end).
Proof.
  intros v x. unfold PUSH. rewrite num_to_bytearray_correct. cbn [bind].
  unfold push_bytes, py_len, zlen.
  destruct (be_bytes x) as [| b r] eqn:E.
  - cbn [List.length Z.of_nat Z.eqb Nat.eqb andb]. destruct ((2 <=? v) && (v <=? 4)); reflexivity.
  - cbn [List.length Nat.eqb andb].
    assert (Z.of_nat (S (List.length r)) =? 0 = false) as -> by lia. cbn [andb bind app].
    cbn [List.length]. f_equal. f_equal. unfold PUSH_OFFSET. lia.
Qed.

Lemma forallb_byte_ok : forall l, Forall is_byte l -> forallb byte_ok l = true.
Proof.
  induction 1 as [| b r Hb _ IH]; [reflexivity |]. cbn [forallb]. rewrite IH.
  unfold byte_ok, is_byte in *. lia.
Qed.

(* PUSH followed by _compile_push_instruction = the specification push, on the whole word range and for
   every EVM version of opcodes.py *)
Theorem PUSH_correct : forall v x, In v evm_versions -> 0 <= x < 2 ^ 256 ->
  (l <- PUSH v x ;; compile_push l) = Ok (push_bytes (has_push0 v) x).
Proof.
  intros v x I R. rewrite PUSH_raw.
  assert (((2 <=? v) && (v <=? 4)) = has_push0 v) as -> by (apply (version_check_shanghai v I)).
  destruct (push_bytes_shape (has_push0 v) x ltac:(lia)) as (imm & E & L & V & F).
  rewrite E. cbn [bind]. unfold compile_push.
  replace (PUSH_OFFSET + (PUSH_OFFSET + zlen imm - PUSH_OFFSET)) with (PUSH_OFFSET + zlen imm) by lia.
  rewrite forallb_byte_ok; [reflexivity |].
  constructor; [| exact F].
  assert (List.length imm <= 32)%nat by (rewrite L; apply push_width_le_32; lia).
  unfold is_byte, zlen, PUSH_OFFSET. lia.
Qed.

Theorem calc_push_size_correct : forall v x, In v evm_versions ->
  GenAsmInstr.calc_push_size v x = Ok (Asm.calc_push_size (has_push0 v) x).
Proof.
  intros v x I. unfold GenAsmInstr.calc_push_size. rewrite PUSH_raw. cbn [bind].
  assert (((2 <=? v) && (v <=? 4)) = has_push0 v) as -> by (apply (version_check_shanghai v I)).
  unfold Asm.calc_push_size, push_bytes.
  match goal with |- context [(?a + zlen ?b) :: ?b] => generalize b end.
  intro l. unfold py_len, zlen. cbn [List.length]. reflexivity.
Qed.

(* the for loop of PUSH_N *)
Lemma pushn_loop : forall k x o,
  PUSH_N_loop1 k x o = Ok (x / 256 ^ Z.of_nat k, be_n k x ++ o).
Proof.
  induction k as [| k IH]; intros x o.
  - cbn. rewrite Z.div_1_r. reflexivity.
  - cbn [PUSH_N_loop1]. unfold py_mod, py_floordiv. cbn [Z.eqb bind].
    rewrite IH. cbn [be_n]. rewrite <- app_assoc. cbn [app].
    rewrite pow256_S. rewrite Z.div_div by (pose proof (pow256_pos k); lia). reflexivity.
Qed.

(* PUSH_N followed by _compile_push_instruction = push_n_bytes: exactly n bytes, rejects (assert) every
   value that does not fit, including negatives *)
Theorem PUSH_N_correct : forall x n, 0 <= n <= 32 ->
  (l <- PUSH_N x n ;; compile_push l) = push_n_bytes x (Z.to_nat n).
Proof.
  intros x n R. unfold PUSH_N. rewrite pushn_loop. cbn [bind]. rewrite app_nil_r.
  unfold push_n_bytes. destruct (x / 256 ^ Z.of_nat (Z.to_nat n) =? 0); [| reflexivity].
  cbn [bind app]. unfold compile_push, py_len. rewrite be_n_length.
  rewrite forallb_byte_ok; [reflexivity |].
  constructor; [| apply be_n_bytes]. unfold is_byte, PUSH_OFFSET. lia.
Qed.
