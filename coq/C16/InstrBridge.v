(* core.py:_compile_push_instruction on the py2coq encoding of PUSH/PUSH_N results: the mnemonic
   f"PUSH{k}" is represented by k (head of the list); the opcode byte is PUSH_OFFSET + int(mnemonic[4:]);
   bytes(ret) raises ValueError unless every element is in range(256).  No proofs here. *)
From Coq Require Import ZArith List Bool.
From Verif Require Import Base.PyInt C16.Asm.
Import ListNotations.
Open Scope Z_scope.

Definition compile_push (l : list Z) : res (list Z) :=
  match l with
  | k :: imm =>
      let r := (PUSH_OFFSET + k) :: imm in
      if forallb byte_ok r then Ok r else Err Raised
  | [] => Err BadIndex
  end.
