(* Bindings used by the regenerated assembler loops (GenAsmLoops.v): python str/dict/int helpers.
   No proofs here. *)
From Coq Require Import ZArith List Bool String Ascii.
From Verif Require Import Base.PyInt C16.Asm.
Import ListNotations.
Open Scope Z_scope.

(* `key in get_opcodes()` and `get_opcodes()[key][0]` (KeyError) *)
Definition smem (tbl : list (string * Z)) (k : string) : bool :=
  match slookup tbl k with Some _ => true | None => false end.
Definition sget (tbl : list (string * Z)) (k : string) : res Z :=
  match slookup tbl k with Some b => Ok b | None => Err KeyErr end.

(* str.upper() on ASCII *)
Definition upper_ascii (c : ascii) : ascii :=
  let n := nat_of_ascii c in
  if (Nat.leb 97 n) && (Nat.leb n 122) then ascii_of_nat (n - 32) else c.
Fixpoint str_upper (s : string) : string :=
  match s with EmptyString => EmptyString | String c r => String (upper_ascii c) (str_upper r) end.

(* s[:n] and s[n:] for a literal n >= 0 *)
Fixpoint take_nat (n : nat) (s : string) : string :=
  match n, s with S m, String c r => String c (take_nat m r) | _, _ => EmptyString end.
Fixpoint drop_nat (n : nat) (s : string) : string :=
  match n, s with S m, String _ r => drop_nat m r | _, _ => s end.
Definition str_take (n : Z) (s : string) : string := take_nat (Z.to_nat n) s.
Definition str_drop (n : Z) (s : string) : string := drop_nat (Z.to_nat n) s.

(* int(s) for plain decimal digit strings; anything else is ValueError here (python also accepts
   signs, surrounding blanks and underscores: unreachable, those mnemonics are rejected by pass 1) *)
Definition digit_val (c : ascii) : option Z :=
  let n := nat_of_ascii c in
  if (Nat.leb 48 n) && (Nat.leb n 57) then Some (Z.of_nat (n - 48)) else None.
Fixpoint int_of_digits (s : string) (acc : Z) : res Z :=
  match s with
  | EmptyString => Ok acc
  | String c r => match digit_val c with Some d => int_of_digits r (acc * 10 + d) | None => Err Raised end
  end.
Definition py_int_of_str (s : string) : res Z :=
  match s with EmptyString => Err Raised | _ => int_of_digits s 0 end.

(* int.to_bytes(n, "big"): OverflowError unless 0 <= v < 256^n *)
Definition to_bytes_be (v n : Z) : res (list Z) :=
  if (0 <=? v) && (v <? 256 ^ n) then Ok (be_n (Z.to_nat n) v) else Err Raised.
