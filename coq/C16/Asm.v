(* C16 model: Vyper assembly items and the two-pass assembler
   (vyper/evm/assembler/symbols.py:resolve_symbols = pass 1,
    vyper/evm/assembler/core.py:_assembly_to_evm   = pass 2),
   plus an independent byte-level scanner/decoder.  No proofs here.

   Encoding of the Python objects (done by tools/vlib/c16_asm.py):
     str / TaggedInstruction s      -> IOp s          (mnemonic kept as a string; the byte comes
                                                        from the opcode table [tbl], regenerated
                                                        from vyper/evm/opcodes.py)
     int n                           -> IInt n
     PUSHLABEL(Label l)              -> IPushLabel l
     Label l                         -> ILabel l
     PUSH_OFST(Label l, o)           -> IPushOfstL l o
     PUSH_OFST(CONSTREF c, o)        -> IPushOfstC c o
     DATA_ITEM(bytes)                -> IDataBytes bs
     DATA_ITEM(Label l)              -> IDataLabel l
     DataHeader(Label l)             -> IDataHeader l
     CONST(c, v)                     -> IConst c v
   Label / constant names are numbered injectively (Z ids); id 0 is the magic label "code_end".
   Partial operations (KeyError, failed assert, CompilerPanic, ValueError) are [Err]. *)
From Coq Require Import ZArith List Bool String.
From Verif Require Import Base.PyInt.
Import ListNotations.
Open Scope Z_scope.

Definition label := Z.
Definition CODE_END : label := 0.
Definition SYMBOL_SIZE : nat := 2.        (* symbols.py SYMBOL_SIZE *)
Definition PUSH_OFFSET : Z := 0x5f.        (* core.py PUSH_OFFSET *)

Inductive item : Type :=
| IOp (s : string)
| IInt (n : Z)
| IPushLabel (l : label)
| ILabel (l : label)
| IPushOfstL (l : label) (o : Z)
| IPushOfstC (c : label) (o : Z)
| IDataBytes (bs : list Z)
| IDataLabel (l : label)
| IDataHeader (l : label)
| IConst (c : label) (v : Z).

(* ---------- maps (python dicts keyed by Label / CONSTREF / mnemonic) *)
Fixpoint lookup (m : list (Z * Z)) (k : Z) : option Z :=
  match m with
  | [] => None
  | (k', v) :: r => if k' =? k then Some v else lookup r k
  end.

Fixpoint slookup (m : list (string * Z)) (k : string) : option Z :=
  match m with
  | [] => None
  | (k', v) :: r => if String.eqb k' k then Some v else slookup r k
  end.

(* _add_to_symbol_map: duplicate -> CompilerPanic *)
Definition add_sym (m : list (Z * Z)) (k v : Z) : res (list (Z * Z)) :=
  match lookup m k with
  | Some _ => Err Raised
  | None => Ok ((k, v) :: m)
  end.

Definition get (m : list (Z * Z)) (k : Z) : res Z :=
  match lookup m k with Some v => Ok v | None => Err KeyErr end.

(* ---------- push encodings (specification-level; instructions.py is tied to these
   in InstrSound.v through the regenerated GenAsmInstr.v) *)

(* exactly n big-endian bytes of x (x mod 256^n) *)
Fixpoint be_n (n : nat) (x : Z) : list Z :=
  match n with
  | O => []
  | S m => be_n m (x / 256) ++ [x mod 256]
  end.

(* least number of bytes holding x (0 for x <= 0) *)
Definition nbytes (x : Z) : nat :=
  if x <=? 0 then O else S (Z.to_nat (Z.log2 x / 8)).

(* num_to_bytearray *)
Definition be_bytes (x : Z) : list Z := be_n (nbytes x) x.

Definition be_val (bs : list Z) : Z := fold_left (fun a b => a * 256 + b) bs 0.

Definition zlen {A} (l : list A) : Z := Z.of_nat (List.length l).

(* _compile_push_instruction (PUSH x): opcode byte then immediates.
   push0 = version_check(begin="shanghai") *)
Definition push_bytes (push0 : bool) (x : Z) : list Z :=
  let bs := be_bytes x in
  let bs := if (Nat.eqb (List.length bs) 0) && negb push0 then [0] else bs in
  (PUSH_OFFSET + zlen bs) :: bs.

(* _compile_push_instruction (PUSH_N x n): `assert x == 0` after n divisions *)
Definition push_n_bytes (x : Z) (n : nat) : res (list Z) :=
  if x / 256 ^ Z.of_nat n =? 0 then Ok ((PUSH_OFFSET + Z.of_nat n) :: be_n n x) else Err AssertFail.

(* calc_push_size(val) = len(PUSH(val)) *)
Definition calc_push_size (push0 : bool) (x : Z) : Z := zlen (push_bytes push0 x).

(* int.to_bytes(2, "big"): OverflowError unless 0 <= v < 65536 *)
Definition to_bytes2 (v : Z) : res (list Z) :=
  if (0 <=? v) && (v <? 65536) then Ok (be_n SYMBOL_SIZE v) else Err Raised.

(* bytes(...) / bytearray.append accept only values in range(256) (ValueError otherwise) *)
Definition byte_ok (b : Z) : bool := (0 <=? b) && (b <? 256).

(* ---------- pass 1: resolve_symbols *)
Section Assembler.
  Variable tbl : list (string * Z).   (* get_opcodes(): mnemonic -> byte, for the active EVM version *)
  Variable push0 : bool.              (* version_check(begin="shanghai") *)

  Fixpoint collect_consts (asm : list item) (cm : list (Z * Z)) : res (list (Z * Z)) :=
    match asm with
    | [] => Ok cm
    | IConst c v :: r => cm' <- add_sym cm c v ;; collect_consts r cm'
    | _ :: r => collect_consts r cm
    end.

  (* one item of the second loop of resolve_symbols: new (symbol_map, pc) *)
  Definition resolve_item (cm : list (Z * Z)) (it : item) (sm : list (Z * Z)) (pc : Z)
    : res (list (Z * Z) * Z) :=
    match it with
    | IOp s =>
        if String.eqb s "DEBUG" then Ok (sm, pc)
        else match slookup tbl s with
             | Some _ => Ok (sm, pc + 1)
             | None => Err AssertFail
             end
    | IConst _ _ => Ok (sm, pc)
    | ILabel l => sm' <- add_sym sm l pc ;; Ok (sm', pc + 1)
    | IDataHeader l => sm' <- add_sym sm l pc ;; Ok (sm', pc)
    | IPushLabel _ => Ok (sm, pc + Z.of_nat SYMBOL_SIZE + 1)
    | IPushOfstL _ _ => Ok (sm, pc + Z.of_nat SYMBOL_SIZE + 1)
    | IPushOfstC c o => v <- get cm c ;; Ok (sm, pc + calc_push_size push0 (v + o))
    | IDataLabel _ => Ok (sm, pc + Z.of_nat SYMBOL_SIZE)
    | IDataBytes bs => Ok (sm, pc + zlen bs)
    | IInt n => if (0 <=? n) && (n <? 256) then Ok (sm, pc + 1) else Err AssertFail
    end.

  Fixpoint resolve_walk (cm : list (Z * Z)) (asm : list item) (sm : list (Z * Z)) (pc : Z)
    : res (list (Z * Z) * Z) :=
    match asm with
    | [] => Ok (sm, pc)
    | it :: r => '(sm', pc') <- resolve_item cm it sm pc ;; resolve_walk cm r sm' pc'
    end.

  (* source-map bookkeeping of resolve_symbols: `if item == "JUMP": assert i != 0` *)
  Definition first_is_jump (asm : list item) : bool :=
    match asm with IOp s :: _ => String.eqb s "JUMP" | _ => false end.

  (* returns (symbol_map, const_map) *)
  Definition resolve (asm : list item) : res (list (Z * Z) * list (Z * Z)) :=
    cm <- collect_consts asm [] ;;
    _ <- (if first_is_jump asm then Err AssertFail else Ok tt) ;;
    '(sm, pc) <- resolve_walk cm asm [] 0 ;;
    sm' <- add_sym sm CODE_END pc ;;
    Ok (sm', cm).

  (* ---------- pass 2: _assembly_to_evm *)
  Definition emit_item (sm cm : list (Z * Z)) (it : item) : res (list Z) :=
    match it with
    | IOp s =>
        if String.eqb s "DEBUG" then Ok []
        else match slookup tbl s with
             | Some b => Ok [b]
             | None => Err Raised          (* "Weird symbol in assembly" (after the PUSH/DUP/SWAP fallbacks,
                                              unreachable once pass 1 succeeded) *)
             end
    | IConst _ _ => Ok []
    | IDataHeader _ => Ok []
    | IPushLabel l => v <- get sm l ;; push_n_bytes v SYMBOL_SIZE
    | ILabel _ => match slookup tbl "JUMPDEST" with Some b => Ok [b] | None => Err KeyErr end
    | IPushOfstL l o => v <- get sm l ;; push_n_bytes (v + o) SYMBOL_SIZE
    | IPushOfstC c o =>
        v <- get cm c ;;
        let b := push_bytes push0 (v + o) in
        if forallb byte_ok b then Ok b else Err Raised   (* bytes(): only for absurd widths >= 161 bytes *)
    | IInt n => if (0 <=? n) && (n <? 256) then Ok [n] else Err Raised   (* bytearray.append ValueError *)
    | IDataBytes bs => Ok bs
    | IDataLabel l => v <- get sm l ;; to_bytes2 v
    end.

  Fixpoint emit (sm cm : list (Z * Z)) (asm : list item) : res (list Z) :=
    match asm with
    | [] => Ok []
    | it :: r => b <- emit_item sm cm it ;; bs <- emit sm cm r ;; Ok (b ++ bs)
    end.

  (* assembly_to_evm: (bytecode, symbol_map, const_map) *)
  Definition assemble (asm : list item) : res (list Z * list (Z * Z) * list (Z * Z)) :=
    '(sm, cm) <- resolve asm ;;
    bs <- emit sm cm asm ;;
    Ok (bs, sm, cm).

  (* pc accounting alone, given the const map: what pass 1 believes the length is *)
  Definition pc_after (cm : list (Z * Z)) (asm : list item) (pc : Z) : res Z :=
    '(_, pc') <- resolve_walk cm asm [] pc ;; Ok pc'.
End Assembler.

(* ---------- independent byte-level view (no reference to items) *)

(* number of immediate bytes of the instruction whose opcode is b *)
Definition push_width (b : Z) : nat :=
  if (0x60 <=? b) && (b <=? 0x7f) then Z.to_nat (b - 0x5f) else O.

(* instruction starts of a byte string, as the EVM's jump-destination analysis sees them:
   walk left to right, skipping the immediates of PUSH1..PUSH32 *)
Fixpoint scan (pend : nat) (bs : list Z) (pc : Z) : list Z :=
  match bs with
  | [] => []
  | b :: r =>
      match pend with
      | S p => scan p r (pc + 1)
      | O => pc :: scan (push_width b) r (pc + 1)
      end
  end.

Definition boundaries (bs : list Z) : list Z := scan O bs 0.

Definition byte_at (bs : list Z) (off : Z) : option Z :=
  if off <? 0 then None else nth_error bs (Z.to_nat off).

(* EVM validity of a jump target *)
Definition valid_jumpdest (bs : list Z) (off : Z) : Prop :=
  byte_at bs off = Some 0x5b /\ In off (boundaries bs).

(* decoder: (pc, opcode, immediates); a truncated final push keeps the bytes that exist *)
Fixpoint decode_fuel (fuel : nat) (bs : list Z) (pc : Z) : list (Z * Z * list Z) :=
  match fuel with
  | O => []
  | S f =>
      match bs with
      | [] => []
      | b :: r =>
          let k := push_width b in
          let imm := firstn k r in
          (pc, b, imm) :: decode_fuel f (skipn k r) (pc + 1 + zlen imm)
      end
  end.
Definition decode (bs : list Z) : list (Z * Z * list Z) := decode_fuel (List.length bs) bs 0.

(* ---------- well-formedness of an assembly as "code then data":
   every PUSHk mnemonic is followed by exactly k int items, ints occur nowhere else, every
   PUSH_OFST of a constant pushes a value in [0, 2^256), and once the first data item/header
   appears only data items, headers and CONST declarations follow. *)
Section WF.
  Variable tbl : list (string * Z).
  Variable cm : list (Z * Z).

  Definition op_width (s : string) : nat :=
    match slookup tbl s with Some b => push_width b | None => O end.

  Fixpoint wf_data (asm : list item) : bool :=
    match asm with
    | [] => true
    | IDataBytes _ :: r | IDataLabel _ :: r | IDataHeader _ :: r | IConst _ _ :: r => wf_data r
    | _ => false
    end.

  Fixpoint wf_code (pend : nat) (asm : list item) : bool :=
    match asm with
    | [] => Nat.eqb pend 0
    | it :: r =>
        match pend with
        | S p => match it with IInt _ => wf_code p r | _ => false end
        | O =>
            match it with
            | IInt _ => false
            | IOp s => if String.eqb s "DEBUG" then wf_code O r else wf_code (op_width s) r
            | ILabel _ | IPushLabel _ | IPushOfstL _ _ | IConst _ _ => wf_code O r
            | IPushOfstC c o =>
                match lookup cm c with
                | Some v => (0 <=? v + o) && (v + o <? 2 ^ 256) && wf_code O r
                | None => false
                end
            | IDataBytes _ | IDataLabel _ | IDataHeader _ => wf_data asm
            end
        end
    end.
End WF.

(* items that start an instruction of the code part *)
Definition is_head (tbl : list (string * Z)) (it : item) : bool :=
  match it with
  | ILabel _ | IPushLabel _ | IPushOfstL _ _ | IPushOfstC _ _ => true
  | IOp s => negb (String.eqb s "DEBUG") && match slookup tbl s with Some _ => true | None => false end
  | _ => false
  end.

Definition wf_asm (tbl : list (string * Z)) (asm : list item) : bool :=
  match collect_consts asm [] with
  | Ok cm => wf_code tbl cm O asm
  | Err _ => false
  end.
