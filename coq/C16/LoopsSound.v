(* C16 T-tie of the assembler loops: the regenerated resolve_symbols / _assembly_to_evm (GenAsmLoops.v)
   succeed exactly when the model of Asm.v does, with the same bytes, symbol map and const map.  Hence every
   theorem about `assemble` is a theorem about the code as it is in /repo now. *)
From Coq Require Import ZArith List Bool String Lia ZifyBool.
From Verif Require Import Base.PyInt C16.Asm C16.HexBytes C16.PushProofs C16.InstrBridge C16.AsmProofs
  C16.LoopsPrelude C16.GenOpcodes C16.GenAsmInstr C16.InstrSound C16.GenAsmLoops.
Import ListNotations.
Open Scope list_scope.
Open Scope Z_scope.
Arguments push_bytes : simpl never.

Lemma bind_ret : forall {A} (m : res A), bind m (fun x => Ok x) = m.
Proof. intros A [a | e]; reflexivity. Qed.

(* what the loops need from the opcode table (checked for the regenerated tables below) *)
Definition table_wf (tbl : list (string * Z)) : bool :=
  forallb (fun e => String.eqb (str_upper (fst e)) (fst e) && byte_ok (snd e)) tbl.

Lemma slookup_in : forall tbl s b, slookup tbl s = Some b -> In (s, b) tbl.
Proof.
  induction tbl as [| [k v] r IH]; intros s b H; [discriminate |]. cbn in H.
  destruct (String.eqb_spec k s) as [-> | N]; [injection H as <-; left; reflexivity | right; auto].
Qed.

Lemma table_wf_lookup : forall tbl s b, table_wf tbl = true -> slookup tbl s = Some b ->
  str_upper s = s /\ byte_ok b = true.
Proof.
  intros tbl s b W L. apply slookup_in in L. unfold table_wf in W. rewrite forallb_forall in W.
  specialize (W _ L). cbn in W. apply andb_prop in W as [U B]. apply String.eqb_eq in U. auto.
Qed.

Section Equiv.
  Variable v : Z.
  Hypothesis v_in : In v evm_versions.
  Let tbl := opcode_table v.
  Let push0 := has_push0 v.
  Hypothesis tbl_wf : table_wf tbl = true.

  Lemma collect_eq : forall asm cm, gen_collect_consts asm cm = collect_consts asm cm.
  Proof.
    induction asm as [| it r IH]; intros cm; [reflexivity |].
    cbn [gen_collect_consts collect_consts]. destruct it; cbn [gen_const_item bind]; try apply IH.
    destruct (add_sym cm c v0); cbn; [apply IH | reflexivity].
  Qed.

  Definition not_jump (it : item) : Prop := forall s, it = IOp s -> String.eqb s "JUMP" = false.

  Lemma resolve_item_eq : forall cm i it sm pc, (i <> 0 \/ not_jump it) ->
    gen_resolve_item tbl v cm i it sm pc = resolve_item tbl push0 cm it sm pc.
  Proof.
    intros cm i it sm pc H. destruct it; cbn [gen_resolve_item resolve_item].
    - assert (String.eqb s "JUMP" = true -> negb (i =? 0) = true) as J.
      { intro E. destruct H as [H | H]; [lia | rewrite (H s eq_refl) in E; discriminate]. }
      unfold smem. destruct (String.eqb s "JUMP").
      + rewrite (J eq_refl). destruct (String.eqb s "DEBUG"); [reflexivity |]. destruct (slookup tbl s); reflexivity.
      + destruct (String.eqb s "DEBUG"); [reflexivity |]. destruct (slookup tbl s); reflexivity.
    - reflexivity.
    - cbn. f_equal. f_equal. lia.
    - reflexivity.
    - cbn. f_equal. f_equal. lia.
    - destruct (get cm c) as [x | e]; [| reflexivity]. cbn [bind].
      rewrite (calc_push_size_correct v (x + o) v_in). reflexivity.
    - reflexivity.
    - reflexivity.
    - reflexivity.
    - reflexivity.
  Qed.

  Lemma resolve_walk_eq : forall cm asm i sm pc, 0 <= i -> (i <> 0 \/ first_is_jump asm = false) ->
    gen_resolve_walk tbl v cm asm i sm pc = resolve_walk tbl push0 cm asm sm pc.
  Proof.
    intros cm. induction asm as [| it r IH]; intros i sm pc P H; [reflexivity |].
    cbn [gen_resolve_walk resolve_walk]. rewrite resolve_item_eq.
    - destruct (resolve_item tbl push0 cm it sm pc) as [[sm' pc'] | e]; [| reflexivity]. cbn [bind].
      apply IH; [lia | left; lia].
    - destruct H as [H | H]; [left; exact H | right]. intros s ->. exact H.
  Qed.

  Lemma emit_item_eq : forall cm it sm0 pc0 r sm, resolve_item tbl push0 cm it sm0 pc0 = Ok r ->
    gen_emit_item tbl v sm cm it = emit_item tbl push0 sm cm it.
  Proof.
    intros cm it sm0 pc0 r sm R. destruct it; cbn [gen_emit_item emit_item]; cbn [resolve_item] in R.
    - destruct (String.eqb s "DEBUG"); [reflexivity |].
      destruct (slookup tbl s) as [b |] eqn:L; [| discriminate R].
      destruct (table_wf_lookup tbl s b tbl_wf L) as [U B]. rewrite U. unfold smem, sget. rewrite L. cbn [bind].
      rewrite B. reflexivity.
    - reflexivity.
    - destruct (get sm l) as [x | e]; [| reflexivity]. cbn [bind app].
      change SYMBOL_SIZE with (Z.to_nat 2). rewrite <- (PUSH_N_correct x 2 ltac:(lia)).
      destruct (PUSH_N x 2) as [a | e]; [| reflexivity]. cbn [bind]. destruct (compile_push a); reflexivity.
    - unfold sget. destruct (slookup tbl "JUMPDEST") as [b |] eqn:L; [| reflexivity].
      destruct (table_wf_lookup tbl _ b tbl_wf L) as [_ B]. cbn [bind]. rewrite B. reflexivity.
    - destruct (get sm l) as [x | e]; [| reflexivity]. cbn [bind app].
      change SYMBOL_SIZE with (Z.to_nat 2). rewrite <- (PUSH_N_correct (x + o) 2 ltac:(lia)).
      destruct (PUSH_N (x + o) 2) as [a | e]; [| reflexivity]. cbn [bind]. destruct (compile_push a); reflexivity.
    - destruct (get cm c) as [x | e]; [| reflexivity]. cbn [bind app]. cbv zeta.
      rewrite PUSH_raw. cbn [bind].
      assert (((2 <=? v) && (v <=? 4)) = push0) as -> by (apply (version_check_shanghai v v_in)).
      destruct (push_bytes push0 (x + o)) as [| op imm] eqn:PB.
      { unfold push_bytes in PB. discriminate PB. }
      unfold compile_push. replace (PUSH_OFFSET + (op - PUSH_OFFSET)) with op by lia.
      destruct (forallb byte_ok (op :: imm)); reflexivity.
    - reflexivity.
    - destruct (get sm l) as [x | e]; [| reflexivity]. cbn [bind app].
      unfold to_bytes_be, to_bytes2. change (256 ^ 2) with 65536.
      destruct ((0 <=? x) && (x <? 65536)); reflexivity.
    - reflexivity.
    - reflexivity.
  Qed.

  Lemma emit_eq : forall cm asm sm0 pc0 r sm, resolve_walk tbl push0 cm asm sm0 pc0 = Ok r ->
    gen_emit tbl v sm cm asm = emit tbl push0 sm cm asm.
  Proof.
    intros cm. induction asm as [| it rest IH]; intros sm0 pc0 r sm R; [reflexivity |].
    cbn [resolve_walk] in R. destruct (resolve_item tbl push0 cm it sm0 pc0) as [[sm1 pc1] |] eqn:E; [| discriminate R].
    cbn [bind] in R. cbn [gen_emit emit]. rewrite (emit_item_eq _ _ _ _ _ sm E), (IH _ _ _ sm R). reflexivity.
  Qed.

  Lemma first_jump_fails : forall cm asm sm pc, first_is_jump asm = true ->
    exists e, gen_resolve_walk tbl v cm asm 0 sm pc = Err e.
  Proof.
    intros cm asm sm pc H. destruct asm as [| [s | | | | | | | | |] r]; try discriminate H.
    cbn in H. cbn [gen_resolve_walk gen_resolve_item]. rewrite H. cbn. eauto.
  Qed.

  Theorem gen_assemble_equiv : forall asm r,
    gen_assemble tbl v asm = Ok r <-> assemble tbl push0 asm = Ok r.
  Proof.
    intros asm r. unfold gen_assemble, assemble, resolve. rewrite collect_eq.
    destruct (collect_consts asm []) as [cm | e]; [| split; intro H; discriminate H]. cbn [bind].
    destruct (first_is_jump asm) eqn:FJ.
    - destruct (first_jump_fails cm asm [] 0 FJ) as (e & ->). split; intro H; discriminate H.
    - cbn [bind]. rewrite (resolve_walk_eq cm asm 0 [] 0 ltac:(lia) (or_intror FJ)).
      destruct (resolve_walk tbl push0 cm asm [] 0) as [[sm pc] | e] eqn:W; [| split; intro H; discriminate H].
      cbn [bind]. unfold gen_resolve_finish. rewrite bind_ret.
      destruct (add_sym sm CODE_END pc) as [sm' | e]; [| split; intro H; discriminate H]. cbn [bind].
      rewrite (emit_eq cm asm [] 0 _ sm' W). reflexivity.
  Qed.
End Equiv.
