(* Shared lemmas for the second batch of range-evaluator soundness proofs (C14). *)
From Coq Require Import ZArith Bool List String Lia.
From Verif Require Import Base.Word256 Base.PyInt Base.WordLemmas C14.RangeBase C14.GenRange C14.RangeSound.
Import ListNotations.
Open Scope Z_scope.
Ltac Zify.zify_post_hook ::= Z.to_euclidean_division_equations.

(* "signed form": the interval does not extend above SIGNED_MAX, i.e. every representative is the
   to_signed value of the word it denotes (literals enter the analysis in this form) *)
Definition sform (r : vrange) : Prop :=
  match r with IV lo hi => hi <= HALF - 1 | _ => True end.

Lemma sdiv_const_eq dv d : d <> 0 ->
  (if negb (Bool.eqb (dv <? 0) (d <? 0)) then -1 else 1) * (Z.abs dv / Z.abs d) = dv ÷ d.
Proof.
  intros Hd. rewrite (Z.quot_div dv d Hd).
  destruct (dv <? 0) eqn:E1, (d <? 0) eqn:E2; cbn [Bool.eqb negb]; b2p.
  - rewrite (Z.sgn_neg dv), (Z.sgn_neg d) by lia. lia.
  - rewrite (Z.sgn_neg dv), (Z.sgn_pos d) by lia. lia.
  - destruct (Z.eq_dec dv 0) as [->|]; [reflexivity|].
    rewrite (Z.sgn_pos dv), (Z.sgn_neg d) by lia. lia.
  - destruct (Z.eq_dec dv 0) as [->|]; [reflexivity|].
    rewrite (Z.sgn_pos dv), (Z.sgn_pos d) by lia. lia.
Qed.

Lemma quot_pos_div x d : 0 <= x -> 0 < d -> x / d = x ÷ d.
Proof. intros. symmetry. apply Z.quot_div_nonneg; lia. Qed.

Lemma quot_neg_div x d : x <= 0 -> 0 < d -> - (Z.abs x / d) = x ÷ d.
Proof.
  intros. rewrite Z.abs_neq by lia. rewrite (quot_pos_div (- x) d) by lia.
  rewrite Z.quot_opp_l by lia. lia.
Qed.

Lemma quot_abs_le x d : d <> 0 -> Z.abs (x ÷ d) <= Z.abs x.
Proof.
  intros. rewrite (Z.quot_div x d) by lia. rewrite !Z.abs_mul.
  assert (Z.abs (Z.sgn x) <= 1) by lia. assert (Z.abs (Z.sgn d) = 1) by lia.
  assert (0 <= Z.abs x / Z.abs d <= Z.abs x).
  { split; [apply Z.div_pos; lia|]. apply Z.div_le_upper_bound; nia. }
  rewrite Z.abs_eq with (n := Z.abs x / Z.abs d) by lia. nia.
Qed.

Lemma to_signed_mod' v : - HALF <= v <= HALF - 1 -> to_signed (v mod W) = v.
Proof. intros. apply to_signed_mod. lia. Qed.
