(* Shared lemmas for the second batch of range-evaluator soundness proofs (C14). *)
From Coq Require Import ZArith Bool List String Lia.
From Verif Require Import Base.Word256 Base.PyInt Base.WordLemmas C14.RangeBase C14.GenRange C14.RangeSound.
Import ListNotations.
Open Scope Z_scope.
Ltac Zify.zify_post_hook ::= Z.to_euclidean_division_equations.

(* "signed form": the interval does not extend above SIGNED_MAX, i.e. every representative is the
   to_signed value of the word it denotes (literals enter the analysis in this form) *)
Definition sform (r : vrange) : Prop :=
  match r with IV lo hi => hi <= HALF - 1 | _ => True end.

Lemma sdiv_const_eq dv d : d <> 0 ->
  (if negb (Bool.eqb (dv <? 0) (d <? 0)) then -1 else 1) * (Z.abs dv / Z.abs d) = dv ÷ d.
Proof.
  intros Hd. rewrite (Z.quot_div dv d Hd).
  destruct (dv <? 0) eqn:E1, (d <? 0) eqn:E2; cbn [Bool.eqb negb]; b2p.
  - rewrite (Z.sgn_neg dv), (Z.sgn_neg d) by lia. lia.
  - rewrite (Z.sgn_neg dv), (Z.sgn_pos d) by lia. lia.
  - destruct (Z.eq_dec dv 0) as [->|]; [reflexivity|].
    rewrite (Z.sgn_pos dv), (Z.sgn_neg d) by lia. lia.
  - destruct (Z.eq_dec dv 0) as [->|]; [reflexivity|].
    rewrite (Z.sgn_pos dv), (Z.sgn_pos d) by lia. lia.
Qed.

Lemma quot_pos_div x d : 0 <= x -> 0 < d -> x / d = x ÷ d.
Proof. intros. symmetry. apply Z.quot_div_nonneg; lia. Qed.

Lemma quot_neg_div x d : x <= 0 -> 0 < d -> - (Z.abs x / d) = x ÷ d.
Proof.
  intros. rewrite Z.abs_neq by lia. rewrite (quot_pos_div (- x) d) by lia.
  rewrite Z.quot_opp_l by lia. lia.
Qed.

Lemma quot_abs_le x d : d <> 0 -> Z.abs (x ÷ d) <= Z.abs x.
Proof.
  intros. rewrite (Z.quot_div x d) by lia. rewrite !Z.abs_mul.
  assert (Z.abs (Z.sgn x) <= 1) by lia. assert (Z.abs (Z.sgn d) = 1) by lia.
  assert (0 <= Z.abs x / Z.abs d <= Z.abs x).
  { split; [apply Z.div_pos; lia|]. apply Z.div_le_upper_bound; nia. }
  rewrite Z.abs_eq with (n := Z.abs x / Z.abs d) by lia. nia.
Qed.

Lemma to_signed_mod' v : - HALF <= v <= HALF - 1 -> to_signed (v mod W) = v.
Proof. intros. apply to_signed_mod. lia. Qed.

Lemma to_signed_range x : - HALF <= to_signed (x mod W) <= HALF - 1.
Proof. unfold to_signed. destruct (x mod W <? HALF) eqn:E; b2p; mlia. Qed.

Lemma to_signed_abs_le d : - HALF <= d <= W - 1 -> Z.abs (to_signed (d mod W)) <= Z.abs d.
Proof. intros. unfold to_signed. destruct (d mod W <? HALF) eqn:E; b2p; mlia. Qed.

Lemma to_signed_nz d : - HALF <= d <= W - 1 -> d <> 0 -> to_signed (d mod W) <> 0 /\ d mod W <> 0.
Proof. intros. unfold to_signed. destruct (d mod W <? HALF) eqn:E; b2p; mlia. Qed.

Lemma rem_bounds s d : d <> 0 ->
  Z.abs (Z.rem s d) <= Z.abs d - 1 /\
  (0 <= s -> 0 <= Z.rem s d <= s) /\ (s <= 0 -> s <= Z.rem s d <= 0).
Proof.
  intros Hd. rewrite (Z.rem_mod s d Hd).
  pose proof (Z.mod_pos_bound (Z.abs s) (Z.abs d) ltac:(lia)).
  pose proof (Z.mod_le (Z.abs s) (Z.abs d) ltac:(lia) ltac:(lia)).
  destruct (Z.sgn_spec s) as [[? ->]|[[? ->]|[? ->]]]; lia.
Qed.

Lemma to_signed_eq0 x : to_signed (x mod W) = 0 <-> x mod W = 0.
Proof. unfold to_signed. destruct (x mod W <? HALF) eqn:E; b2p; mlia. Qed.

(* Soundness for word inputs: [mem a TOP] holds for every integer, so evaluators whose result
   for a TOP operand depends on the operand being an EVM word (or, signextend) are stated with
   the explicit word hypotheses.  (For IV operands [mem] already implies them.) *)
Definition sound2w (f : vrange -> vrange -> res vrange) (w : Z -> Z -> Z) : Prop :=
  forall A B a b, wf A -> wf B -> 0 <= a < W -> 0 <= b < W -> mem a A -> mem b B ->
    match f A B with Ok R => mem (w a b) R /\ wf R | Err _ => False end.

Lemma sound2_sound2w f w : sound2 f w -> sound2w f w.
Proof. intros S A B a b WA WB _ _ MA MB. exact (S A B a b WA WB MA MB). Qed.

Lemma land_le_r x m : 0 <= m -> 0 <= Z.land x m <= m.
Proof.
  intros Hm.
  assert (D: Z.land (Z.land x m) (Z.ldiff m x) = 0).
  { apply Z.bits_inj'. intros n Hn. rewrite !Z.land_spec, Z.ldiff_spec, Z.bits_0.
    destruct (Z.testbit x n), (Z.testbit m n); reflexivity. }
  apply Z.add_nocarry_lxor in D.
  assert (L: Z.lxor (Z.land x m) (Z.ldiff m x) = m).
  { apply Z.bits_inj'. intros n Hn. rewrite Z.lxor_spec, Z.land_spec, Z.ldiff_spec.
    destruct (Z.testbit x n), (Z.testbit m n); reflexivity. }
  assert (0 <= Z.ldiff m x) by (apply Z.ldiff_nonneg; lia).
  assert (0 <= Z.land x m) by (apply Z.land_nonneg; lia).
  lia.
Qed.

Lemma land_le_l x m : 0 <= x -> 0 <= Z.land x m <= x.
Proof. intros. rewrite Z.land_comm. apply land_le_r. assumption. Qed.

Lemma land_maxu x : Z.land x (W - 1) = x mod W.
Proof. change (W - 1) with (Z.ones 256). rewrite Z.land_ones by lia. reflexivity. Qed.

Lemma to_signed_cong x : 0 <= x < W -> to_signed x mod W = x.
Proof. intros. unfold to_signed. destruct (x <? HALF) eqn:E; b2p; mlia. Qed.

Lemma to_signed_range' x : 0 <= x < W -> - HALF <= to_signed x <= HALF - 1.
Proof. intros. unfold to_signed. destruct (x <? HALF) eqn:E; b2p; mlia. Qed.

Lemma word_log2' x : 0 <= x < W -> Z.log2 x < 256.
Proof.
  intros H. destruct (Z.eq_dec x 0) as [->|N]; [cbn; lia|].
  apply Z.log2_lt_pow2; [lia|]. change (2 ^ 256) with W. lia.
Qed.

Lemma of_log2 x : 0 <= x -> Z.log2 x < 256 -> 0 <= x < W.
Proof.
  intros H L. split; [exact H|]. destruct (Z.eq_dec x 0) as [->|N]; [reflexivity|].
  change W with (2 ^ 256). apply Z.log2_lt_pow2; lia.
Qed.

Lemma word_lor x y : 0 <= x < W -> 0 <= y < W -> 0 <= Z.lor x y < W.
Proof.
  intros Hx Hy. apply of_log2; [apply Z.lor_nonneg; lia|].
  rewrite Z.log2_lor by lia. pose proof (word_log2' x Hx). pose proof (word_log2' y Hy). lia.
Qed.

Lemma word_lxor x y : 0 <= x < W -> 0 <= y < W -> 0 <= Z.lxor x y < W.
Proof.
  intros Hx Hy. apply of_log2; [apply Z.lxor_nonneg; lia|].
  pose proof (Z.log2_lxor x y ltac:(lia) ltac:(lia)).
  pose proof (word_log2' x Hx). pose proof (word_log2' y Hy). lia.
Qed.

Lemma lor_maxu x : 0 <= x < W -> Z.lor x (W - 1) = W - 1.
Proof.
  intros H. change (W - 1) with (Z.ones 256). apply Z.lor_ones_low; [lia | apply word_log2'; exact H].
Qed.

(* a constant result produced by wrap256(_, signed=True) of a word x *)
Lemma signed_const_ok x : 0 <= x < W ->
  (exists v, to_signed (x mod W) <= v <= to_signed (x mod W) /\ v mod W = x) /\
  - HALF <= to_signed (x mod W) /\
  to_signed (x mod W) <= to_signed (x mod W) <= W - 1.
Proof.
  intros H. rewrite (Z.mod_small x W H). pose proof (to_signed_range' x H).
  split; [exists (to_signed x); split; [lia | apply to_signed_cong; exact H] | wl].
Qed.
