(* Verified validator for StackCleanupSafety (vyper/venom/stack_safety.py): the analysis that lets the Venom back end
   leave dead stack slots behind in must-halt regions ("cleanup elision") as long as the EVM stack limit of 1024 cannot be
   exceeded.  The analysis bounds, for a block b of function f,
       growth(b)  = |distinct variables mentioned in b and everything reachable from b| + max transient,
   where an instruction's transient is  #operands + 2  (+ the growth of the callee for `invoke`), and, for f,
       caller_height(f) = max over call chains  entry -> ... -> f  of the sum of the callers' frame bounds,
   and allows the elision at current local height h iff  h <= 1024 - caller_height(f) - growth(b).

   Here: the memo tables the real analysis ended up with (`_block_summaries`, `_function_growth`,
   `_caller_stack_heights`, `_safe_current_heights`) are the certificate; `ss_check` verifies them locally (per block /
   per call edge) and StackSafeProofs.v proves that local consistency implies the global claims for EVERY path and
   every call chain.  The codegen discipline the analysis itself assumes ("at most one persistent slot per SSA value, an
   instruction needs at most #operands + 2 temporary slots") is not proved here -- `verify_codegen` checks it at
   compile time and C14S models the scheduler; this file is about the graph computation (recursion with memo tables over
   blocks, successors and callees), which is where an under-approximation would silently produce a stack overflow.
   Definitions only. *)
From Coq Require Import NArith Arith Bool List String Lia.
Import ListNotations.
Open Scope string_scope.
Open Scope list_scope.
Open Scope nat_scope.

Record sinst := { nops : nat; callee : option string }.
Record sblock := { slabel : string; svars : list N; sinsts : list sinst; ssuccs : list string }.
Record sfunc := { fname : string; fentry : string; fblocks : list sblock }.
Definition sprog := list sfunc.

Fixpoint find_func (P : sprog) (f : string) : option sfunc :=
  match P with
  | [] => None
  | x :: r => if String.eqb (fname x) f then Some x else find_func r f
  end.

Fixpoint find_blk (bs : list sblock) (l : string) : option sblock :=
  match bs with
  | [] => None
  | x :: r => if String.eqb (slabel x) l then Some x else find_blk r l
  end.

Definition find_block (P : sprog) (f l : string) : option sblock :=
  match find_func P f with Some fn => find_blk (fblocks fn) l | None => None end.

Definition card (l : list N) : nat := List.length (nodup N.eq_dec l).

(* ---- certificates ---- *)
Definition bcert := list (string * string * (list N * nat)).   (* (function, label) -> (V, T)   = _block_summaries *)
Definition gcert := list (string * nat).                        (* function -> growth          = _function_growth *)
Definition hcert := list (string * nat).                        (* function -> caller height   = _caller_stack_heights *)

Fixpoint bget (c : bcert) (f l : string) : option (list N * nat) :=
  match c with
  | [] => None
  | (f', l', v) :: r => if String.eqb f' f && String.eqb l' l then Some v else bget r f l
  end.

Fixpoint nget (c : list (string * nat)) (f : string) : option nat :=
  match c with
  | [] => None
  | (f', v) :: r => if String.eqb f' f then Some v else nget r f
  end.

Definition memN (x : N) (l : list N) : bool := existsb (N.eqb x) l.
Definition inclb (a b : list N) : bool := forallb (fun x => memN x b) a.

Definition inst_ok (gc : gcert) (T : nat) (i : sinst) : bool :=
  match callee i with
  | None => nops i + 2 <=? T
  | Some c => match nget gc c with Some g => nops i + 2 + g <=? T | None => false end
  end.

Definition block_ok (P : sprog) (bc : bcert) (gc : gcert) (e : string * string * (list N * nat)) : bool :=
  let '(f, l, (V, T)) := e in
  match find_block P f l with
  | None => false
  | Some b =>
      inclb (svars b) V && forallb (inst_ok gc T) (sinsts b) &&
      forallb (fun s => match bget bc f s with Some (V', T') => inclb V' V && (T' <=? T) | None => false end) (ssuccs b)
  end.

Definition growth_ok (P : sprog) (bc : bcert) (e : string * nat) : bool :=
  let '(f, g) := e in
  match find_func P f with
  | None => false
  | Some fn => match bget bc f (fentry fn) with Some (V, T) => card V + T <=? g | None => false end
  end.

(* frame bound of a function, recomputed: all variables of all blocks + the largest plain transient *)
Definition frame (fn : sfunc) : nat :=
  card (List.concat (map svars (fblocks fn))) +
  fold_right Nat.max 0 (map (fun i => nops i + 2) (List.concat (map sinsts (fblocks fn)))).

Definition callees_of (fn : sfunc) : list string :=
  List.concat (map (fun b => List.concat (map (fun i => match callee i with Some c => [c] | None => [] end) (sinsts b))) (fblocks fn)).

(* every call edge g -> f with f certified: g certified and H f >= H g + frame g *)
Definition height_ok (P : sprog) (hc : hcert) : bool :=
  forallb (fun g => forallb (fun f => match nget hc f with
                                      | None => true
                                      | Some Hf => match nget hc (fname g) with Some Hg => Hg + frame g <=? Hf | None => false end
                                      end) (callees_of g)) P.

(* safe heights: (function, label, ret) with ret + H f + growth(b) <= 1024, growth(b) = card V + T of the certificate *)
Definition safe_ok (bc : bcert) (hc : hcert) (e : string * string * nat) : bool :=
  let '(f, l, ret) := e in
  match bget bc f l, nget hc f with
  | Some (V, T), Some H => ret + H + (card V + T) <=? 1024
  | _, _ => false
  end.

Definition ss_check (P : sprog) (bc : bcert) (gc : gcert) (hc : hcert) (safe : list (string * string * nat)) : bool :=
  forallb (block_ok P bc gc) bc && forallb (growth_ok P bc) gc && height_ok P hc && forallb (safe_ok bc hc) safe.

(* ---- what the numbers are about ---- *)
(* demand P f l A d: starting in block l of f having already met the variables A, some path (through successors, into
   callees) reaches an instruction at which  (distinct variables met so far) + (its transient, callee demand included) = d *)
Inductive demand (P : sprog) : string -> string -> list N -> nat -> Prop :=
| d_inst : forall f l b A i, find_block P f l = Some b -> In i (sinsts b) -> callee i = None ->
    demand P f l A (card (A ++ svars b) + (nops i + 2))
| d_call : forall f l b A i c fc d', find_block P f l = Some b -> In i (sinsts b) -> callee i = Some c ->
    find_func P c = Some fc -> demand P c (fentry fc) [] d' ->
    demand P f l A (card (A ++ svars b) + (nops i + 2 + d'))
| d_succ : forall f l b A s d, find_block P f l = Some b -> In s (ssuccs b) -> demand P f s (A ++ svars b) d ->
    demand P f l A d.

(* chain P e f h: some call chain from the entry function e to f whose callers' frames sum to h *)
Inductive chain (P : sprog) (e : string) : string -> nat -> Prop :=
| c_entry : chain P e e 0
| c_call : forall g gf f h, chain P e g h -> find_func P g = Some gf -> In f (callees_of gf) -> chain P e f (h + frame gf).
