(* C14 / MemLive.v -- model + verified validator for MemLivenessAnalysis (vyper/venom/analysis/mem_liveness.py) as it is
   used by ConcretizeMemLocPass (vyper/venom/passes/concretize_mem_loc.py): which allocas may share an address.

   DEFINITIONS ONLY (proofs: MemLiveProofs.v, theorems: PropsMemLive.v).

   Instructions are numbered; every instruction is exported as a [row]:
     r_op      opcode (string)
     r_succ    instructions that may execute right after it
     r_reads   allocas whose CONTENT the instruction may depend on
     r_wcands  candidates of the write pointer: (alloca, offset inside the alloca if known)
     r_wsize   the literal size operand of the write (None: not a literal)
     r_refs    allocas referenced by any operand
     r_liveat, r_used   the tables of the real analysis
   The KILL (a write that ends the live range above it) is NOT exported: it is derived HERE from the opcode's write kind:
     WMust  the instruction overwrites exactly [ptr, ptr+size)              mstore mcopy calldatacopy codecopy ...
     WMay   the instruction overwrites AT MOST [ptr, ptr+size): the callee  call staticcall delegatecall (output buffer:
            decides how many bytes come back (possibly none)                min(size, returndatasize) bytes), istore, invoke
   Only a WMust write with one candidate at offset 0 whose literal size covers the whole allocation kills.

   Semantics.  The content of an alloca is an abstract value (any type V).  An instruction is an arbitrary function F of
   the contents of the allocas it reads; the new content of a written alloca may also depend on its OLD content unless
   the write is a kill (partial writes, short return data keep old bytes).  ABSTRACT machine: allocas are disjoint
   objects; the content of an alloca is unspecified until the first instruction that references it (fresh memory).
   CONCRETE machine: allocas have addresses; a write to b puts ANYTHING into every alloca that shares a byte with b. *)
From Coq Require Import Arith ZArith List Bool String Lia.
Import ListNotations.
Local Open Scope string_scope.
Local Open Scope nat_scope.

Inductive wkind := WNone | WMust | WMay.

Definition str_in (s : string) (l : list string) : bool := existsb (String.eqb s) l.
Definition MUST_WRITERS : list string :=
  ["mstore"; "mcopy"; "calldatacopy"; "codecopy"; "returndatacopy"; "extcodecopy"; "dloadbytes"].
Definition MAY_WRITERS : list string := ["call"; "staticcall"; "delegatecall"; "istore"; "invoke"].
Definition wk_of (op : string) : wkind :=
  if str_in op MUST_WRITERS then WMust else if str_in op MAY_WRITERS then WMay else WNone.

Record row := mkR {
  r_op : string; r_succ : list nat; r_reads : list nat; r_wcands : list (nat * option Z); r_wsize : option Z;
  r_refs : list nat; r_liveat : list nat; r_used : list nat }.

Definition memb (a : nat) (l : list nat) : bool := existsb (Nat.eqb a) l.
Definition subset (l m : list nat) : bool := forallb (fun a => memb a m) l.
Definition row0 : row := mkR "" [] [] [] None [] [] [].
Definition rowat (tbl : list row) (i : nat) : row := nth i tbl row0.
Definition r_writes (r : row) : list nat := map fst (r_wcands r).

(* the must-write of a whole allocation *)
Definition kill_of (asz : list Z) (r : row) : option nat :=
  match wk_of (r_op r), r_wcands r, r_wsize r with
  | WMust, [(a, Some 0%Z)], Some n =>
      let sz := nth a asz (-1)%Z in if ((0 <=? sz) && (sz <=? n))%Z then Some a else None
  | _, _, _ => None
  end.
Definition kill_is (asz : list Z) (r : row) (a : nat) : bool :=
  match kill_of asz r with Some k => Nat.eqb k a | None => false end.

(* ---------------------------------------------------------------- the checker *)
(* live right before the instruction: in the table and not killed by it, or read by it *)
Definition live_before (asz : list Z) (r : row) (a : nat) : bool :=
  memb a (r_liveat r) && (negb (kill_is asz r a) || memb a (r_reads r)).

Definition row_check (asz : list Z) (tbl : list row) (r : row) : bool :=
  subset (r_reads r) (r_liveat r) && subset (r_refs r) (r_used r) && subset (r_reads r) (r_refs r) &&
  subset (r_writes r) (r_refs r) &&
  forallb (fun s =>
             (s <? List.length tbl) &&
             let rs := rowat tbl s in
             forallb (fun a => negb (live_before asz rs a) || memb a (r_liveat r)) (r_liveat rs) &&
             subset (r_used r) (r_used rs)) (r_succ r).
Definition table_check (asz : list Z) (tbl : list row) : bool := forallb (row_check asz tbl) tbl.

Definition liveset_of (ls : list (nat * list nat)) (m : nat) : list nat :=
  match find (fun p => Nat.eqb (fst p) m) ls with Some p => snd p | None => [] end.
Definition livesets_check (tbl : list row) (ls : list (nat * list nat)) : bool :=
  forallb (fun i => let r := rowat tbl i in
                    forallb (fun m => negb (memb m (r_used r)) || memb i (liveset_of ls m)) (r_liveat r) &&
                    forallb (fun m => memb i (liveset_of ls m)) (r_writes r))
          (seq 0 (List.length tbl)).

(* placement: two different allocas that share a byte have disjoint livesets *)
Definition ovl (asz place : list Z) (a b : nat) : bool :=
  negb (Nat.eqb a b) &&
  (let sa := nth a asz 0%Z in let sb := nth b asz 0%Z in let pa := nth a place 0%Z in let pb := nth b place 0%Z in
   (0 <? sa) && (0 <? sb) && (Z.max pa pb <? Z.min (pa + sa) (pb + sb)))%Z.
Definition disjoint (l m : list nat) : bool := forallb (fun x => negb (memb x m)) l.
Definition place_check (asz place : list Z) (ls : list (nat * list nat)) : bool :=
  let n := List.length asz in
  forallb (fun a => forallb (fun b => negb (ovl asz place a b) || disjoint (liveset_of ls a) (liveset_of ls b)) (seq 0 n)) (seq 0 n).

(* every alloca mentioned by a write is a known one *)
Definition ids_check (asz : list Z) (tbl : list row) : bool :=
  forallb (fun r => forallb (fun a => a <? List.length asz) (r_writes r)) tbl.

Definition memlive_check (asz place : list Z) (tbl : list row) (ls : list (nat * list nat)) : bool :=
  table_check asz tbl && livesets_check tbl ls && place_check asz place ls && ids_check asz tbl.

(* ---------------------------------------------------------------- semantics *)
Section Sem.
  Variable V : Type.
  Variable asz place : list Z.
  Variable tbl : list row.
  (* F i view old a: the content instruction i gives to alloca a, given the contents of the allocas it reads and
     (unless i overwrites a completely) the old content of a *)
  Variable F : nat -> list V -> option V -> nat -> V.

  Definition mem := nat -> V.
  Definition view (i : nat) (m : mem) : list V := map m (r_reads (rowat tbl i)).
  Definition old (i a : nat) (m : mem) : option V := if kill_is asz (rowat tbl i) a then None else Some (m a).
  Definition exec (i : nat) (m : mem) : mem :=
    fun a => if memb a (r_writes (rowat tbl i)) then F i (view i m) (old i a m) a else m a.

  (* concrete: written allocas as in [exec]; an alloca that shares a byte with a written one holds anything afterwards *)
  Definition cstep (i : nat) (m m' : mem) : Prop :=
    forall a, if memb a (r_writes (rowat tbl i)) then m' a = exec i m a
              else (m' a = m a \/ exists b, In b (r_writes (rowat tbl i)) /\ ovl asz place b a = true).

  Fixpoint path_ok (p : list nat) : Prop :=
    match p with
    | i :: ((j :: _) as q) => In j (r_succ (rowat tbl i)) /\ path_ok q
    | _ => True
    end.

  (* observations = what every executed instruction saw *)
  Inductive crun : list nat -> mem -> list (list V) -> Prop :=
  | cr_nil : forall m, crun [] m []
  | cr_cons : forall i p m m' o, cstep i m m' -> crun p m' o -> crun (i :: p) m (view i m :: o).

  (* abstract: T = allocas referenced so far; the content of an alloca is fixed (to anything: m1) when it is first referenced *)
  Inductive arun : list nat -> list nat -> mem -> list (list V) -> Prop :=
  | ar_nil : forall T m, arun [] T m []
  | ar_cons : forall i p T m m1 o,
      (forall a, In a T \/ ~ In a (r_refs (rowat tbl i)) -> m1 a = m a) ->
      arun p (r_refs (rowat tbl i) ++ T) (exec i m1) o -> arun (i :: p) T m (view i m1 :: o).
End Sem.
