(* Proofs for the range-analysis validator RangeFix.v *)
From Coq Require Import ZArith NArith Bool List String Lia.
From Verif Require Import Base.Word256 Base.PyInt C14.RangeBase C14.GenRangeClients.
From Verif Require C14.GenRange.
From Verif Require C14.RangeSound.
From Verif Require Import C14.RangeOp C14.RangeClients C14.RangeRefine C14.RangeFix.
Import ListNotations.
Import RangeSound.
Open Scope string_scope.
Open Scope Z_scope.

(* concretisation: every variable's word is a member (RangeSound.mem) of its range *)
Definition gamma (e : aenv) (c : cenv) : Prop := forall x, mem (c x) (aget e x).
Definition wfenv (e : aenv) : Prop := forall x, wf (aget e x).

Lemma word_op_eq op : RangeFix.word_op op = RangeOp.word_op op.
Proof. reflexivity. Qed.

Arguments mem : simpl nomatch.
Arguments wf : simpl nomatch.

(* ------------------------------------------------------------------ environments *)
Lemma aget_aremove e x y : aget (aremove e x) y = if N.eqb y x then TOP else aget e y.
Proof.
  induction e as [|[z r] t IH]; cbn [aremove aget].
  - destruct (N.eqb y x); reflexivity.
  - destruct (N.eqb x z) eqn:E1.
    + apply N.eqb_eq in E1. subst z. rewrite IH. destruct (N.eqb y x) eqn:E2; reflexivity.
    + cbn [aget]. rewrite IH. destruct (N.eqb y z) eqn:E2; [|reflexivity].
      apply N.eqb_eq in E2. subst z. rewrite N.eqb_sym in E1. rewrite E1. reflexivity.
Qed.

Lemma aget_awrite e x r y : aget (awrite e x r) y = if N.eqb y x then r else aget e y.
Proof.
  unfold awrite. destruct (vr_is_top r) eqn:T.
  - rewrite aget_aremove. destruct r; try discriminate. reflexivity.
  - cbn [aget]. rewrite aget_aremove. destruct (N.eqb y x); reflexivity.
Qed.

Lemma aget_fold_awrite r outs : forall e x,
  aget (fold_left (fun e' o => awrite e' o r) outs e) x = if existsb (N.eqb x) outs then r else aget e x.
Proof.
  induction outs as [|o t IH]; intros e x; cbn [fold_left existsb]; [reflexivity|].
  rewrite IH. rewrite aget_awrite. destruct (N.eqb x o); cbn [orb]; [|reflexivity].
  destruct (existsb (N.eqb x) t); reflexivity.
Qed.

Lemma aget_fold_awrite' r o t e x :
  aget (fold_left (fun e' o => awrite e' o r) (o :: t) e) x = if existsb (N.eqb x) (o :: t) then r else aget e x.
Proof. apply aget_fold_awrite. Qed.

Lemma existsb_eqb_In x l : existsb (N.eqb x) l = true <-> In x l.
Proof.
  rewrite existsb_exists. split.
  - intros [y [H E]]. apply N.eqb_eq in E. subst. exact H.
  - intros H. exists x. split; [exact H | apply N.eqb_refl].
Qed.

Lemma wfb_wf r : wfb r = true -> wf r.
Proof.
  destruct r as [| |lo hi]; cbn; auto. intros H.
  apply andb_prop in H as [H H3]. apply andb_prop in H as [H1 H2].
  apply Z.leb_le in H1, H2, H3. lia.
Qed.

Lemma vr_le_mem a b w : vr_le a b = true -> mem w a -> mem w b.
Proof.
  destruct b as [| |l2 h2]; destruct a as [| |l1 h1]; cbn; try discriminate; try tauto.
  intros H [v [R E]]. apply andb_prop in H as [H1 H2]. apply Z.leb_le in H1, H2.
  exists v. split; [lia | exact E].
Qed.

Lemma gamma_awrite e c x r : gamma e c -> mem (c x) r -> gamma (awrite e x r) c.
Proof.
  intros G M y. rewrite aget_awrite. destruct (N.eqb y x) eqn:E; [|apply G].
  apply N.eqb_eq in E. subst. exact M.
Qed.
Lemma wfenv_awrite e x r : wfenv e -> wf r -> wfenv (awrite e x r).
Proof. intros G M y. rewrite aget_awrite. destruct (N.eqb y x); [exact M | apply G]. Qed.
Lemma wfenv_of_env_wf e : env_wf e = true -> wfenv e.
Proof.
  intros H x. induction e as [|[y r] t IH]; cbn [aget]; [exact Logic.I|].
  cbn [env_wf forallb snd] in H. apply andb_prop in H as [H1 H2].
  destruct (N.eqb x y); [apply wfb_wf; exact H1 | apply IH; exact H2].
Qed.

(* ------------------------------------------------------------------ operands *)
Lemma to_signed_mem v : mem (v mod W) (vr_constant (to_signed (v mod W))) /\ wf (vr_constant (to_signed (v mod W))).
Proof.
  pose proof (Z.mod_pos_bound v W ltac:(reflexivity)) as B.
  destruct (to_signed_spec (v mod W) B) as [R E].
  unfold vr_constant, mem, wf. split; [exists (to_signed (v mod W)); split; [lia | exact E] | wl].
Qed.

Lemma oval_word lv c o : lv_ok lv -> cenv_ok c -> 0 <= oval lv c o < W.
Proof. intros L C. destruct o; cbn; [apply Z.mod_pos_bound; reflexivity | apply C | apply L]. Qed.

Lemma orange_sound lv e c o : gamma e c -> wfenv e ->
  mem (oval lv c o) (orange e o) /\ wf (orange e o).
Proof.
  intros G Wf. destruct o as [v|x|l]; cbn [oval orange].
  - apply to_signed_mem.
  - split; [apply G | apply Wf].
  - split; exact Logic.I.
Qed.

(* ------------------------------------------------------------------ transfer *)
Lemma w_xor_self a : w_xor a a = 0.
Proof. unfold w_xor. apply Z.lxor_nilpotent. Qed.

Lemma eval_op_use op w A B a b r : RangeFix.word_op op = Some w ->
  wf A -> wf B -> 0 <= a < W -> 0 <= b < W -> mem a A -> mem b B ->
  GenRange.eval_op op A B = Ok r -> mem (w a b) r.
Proof.
  intros Hw WA WB Ia Ib MA MB E. rewrite word_op_eq in Hw.
  pose proof (eval_op_sound op w A B a b Hw WA WB Ia Ib MA MB) as S.
  rewrite E in S. tauto.
Qed.

Lemma transfer_sound lv e c ins r g :
  lv_ok lv -> cenv_ok c -> gamma e c -> wfenv e ->
  transfer e ins = Ok r -> sem_fun lv ins = Some g -> mem (g c) r.
Proof.
  intros L C G Wf. unfold transfer, sem_fun.
  destruct (has_label (i_args ins)); [discriminate 2|].
  destruct (i_outs ins) as [|o [|o2 t]]; try discriminate 2.
  destruct (String.eqb (i_op ins) "assign").
  { destruct (i_args ins) as [|a [|a' t]]; try discriminate 2.
    intros H1 H2. injection H1 as <-. injection H2 as <-. apply (orange_sound lv e c a G Wf). }
  destruct (word_op (i_op ins)) as [w|] eqn:Hw; [|discriminate 2].
  destruct (is_unary (i_op ins)).
  { destruct (i_args ins) as [|a [|a' t]]; try discriminate 2.
    intros H1 H2. injection H2 as <-.
    destruct (orange_sound lv e c a G Wf) as [M Wa].
    assert (Z0 : 0 <= 0 < W) by (pose proof W_val; lia).
    exact (eval_op_use (i_op ins) w (orange e a) TOP (oval lv c a) 0 r Hw Wa Logic.I (oval_word lv c a L C) Z0 M Logic.I H1). }
  destruct (i_args ins) as [|a2 [|a1 [|a3 t]]]; try discriminate 2.
  intros H1 H2. injection H2 as <-.
  destruct (orange_sound lv e c a1 G Wf) as [M1 W1]. destruct (orange_sound lv e c a2 G Wf) as [M2 W2].
  assert (GE : forall r', GenRange.eval_op (i_op ins) (orange e a1) (orange e a2) = Ok r' ->
               mem (w (oval lv c a1) (oval lv c a2)) r').
  { intros r' E. exact (eval_op_use (i_op ins) w (orange e a1) (orange e a2) (oval lv c a1) (oval lv c a2) r' Hw W1 W2
                          (oval_word lv c a1 L C) (oval_word lv c a2 L C) M1 M2 E). }
  destruct a1 as [v1|x|l1]; destruct a2 as [v2|y|l2]; try (apply GE; exact H1).
  destruct (String.eqb (i_op ins) "xor" && N.eqb x y) eqn:X; [|apply GE; exact H1].
  apply andb_prop in X as [X1 X2]. apply String.eqb_eq in X1. apply N.eqb_eq in X2. subst y.
  rewrite X1 in Hw. change (word_op "xor") with (Some w_xor) in Hw. injection Hw as <-. clear GE. cbn [oval]. rewrite w_xor_self.
  injection H1 as <-. pose proof (G x) as Gx.
  destruct (aget e x) as [| |lo hi] eqn:A; cbn [vr_is_empty].
  - unfold vr_constant; cbn. exists 0. split; [lia | reflexivity].
  - cbn in Gx. contradiction.
  - unfold vr_constant; cbn. exists 0. split; [lia | reflexivity].
Qed.

Lemma transfer_top lv e ins r : sem_fun lv ins = None -> transfer e ins = Ok r -> r = TOP.
Proof.
  unfold transfer, sem_fun.
  destruct (has_label (i_args ins)); [intros _ H; injection H as <-; reflexivity|].
  destruct (i_outs ins) as [|o [|o2 t]]; try (intros _ H; injection H as <-; reflexivity).
  destruct (String.eqb (i_op ins) "assign").
  { destruct (i_args ins) as [|a [|a' t]]; try discriminate 1; intros _ H; injection H as <-; reflexivity. }
  destruct (word_op (i_op ins)) as [w|]; [|intros _ H; injection H as <-; reflexivity].
  destruct (is_unary (i_op ins)).
  { destruct (i_args ins) as [|a [|a' t]]; try discriminate 1; intros _ H; injection H as <-; reflexivity. }
  destruct (i_args ins) as [|a2 [|a1 [|a3 t]]]; try discriminate 1; intros _ H; injection H as <-; reflexivity.
Qed.

Definition same_on (c c' : cenv) : Prop := forall x, c' x = c x.

Lemma gamma_ext e c c' : gamma e c -> (forall x, c' x = c x) -> gamma e c'.
Proof. intros G H x. rewrite H. apply G. Qed.

Lemma step_abs_sound lv e c ins e' c' :
  lv_ok lv -> cenv_ok c -> gamma e c -> wfenv e ->
  step_abs e ins = Ok e' -> step_conc lv ins c c' ->
  cenv_ok c' /\ gamma e' c' /\ wfenv e'.
Proof.
  intros L C G Wf SA [Hsame [Hword [Hval _]]].
  assert (C' : cenv_ok c').
  { intros x. destruct (in_dec N.eq_dec x (i_outs ins)) as [I|NI]; [apply Hword; exact I | rewrite Hsame by exact NI; apply C]. }
  split; [exact C'|].
  unfold step_abs in SA. destruct (i_outs ins) as [|o t] eqn:O.
  - injection SA as <-. split; [|exact Wf]. intros x. rewrite Hsame by (intros []). apply G.
  - destruct (transfer e ins) as [r|] eqn:T; cbn [bind] in SA; [|discriminate].
    destruct (wfb r) eqn:WR; [|discriminate]. injection SA as <-.
    split.
    + intros x. change (fold_left (fun e' o0 => awrite e' o0 r) t (awrite e o r)) with (fold_left (fun e' o0 => awrite e' o0 r) (o :: t) e). rewrite aget_fold_awrite'.
      destruct (existsb (N.eqb x) (o :: t)) eqn:Ex.
      * apply existsb_eqb_In in Ex.
        destruct (sem_fun lv ins) as [g|] eqn:SF.
        -- (* determined: exactly one output *)
           assert (t = []) as ->.
           { unfold sem_fun in SF. destruct (has_label (i_args ins)); [discriminate|]. rewrite O in SF.
             destruct t; [reflexivity | discriminate]. }
           destruct Ex as [<-|[]]. rewrite (Hval g o eq_refl eq_refl).
           exact (transfer_sound lv e c ins r g L C G Wf T SF).
        -- rewrite (transfer_top lv e ins r SF T). exact Logic.I.
      * rewrite Hsame; [apply G|]. intros I. apply existsb_eqb_In in I. rewrite I in Ex. discriminate.
    + intros x. change (fold_left (fun e' o0 => awrite e' o0 r) t (awrite e o r)) with (fold_left (fun e' o0 => awrite e' o0 r) (o :: t) e). rewrite aget_fold_awrite'. destruct (existsb (N.eqb x) (o :: t)); [apply wfb_wf; exact WR | apply Wf].
Qed.

Lemma run_abs_app l1 : forall e l2 X, run_abs e (l1 ++ l2) = Ok X ->
  exists e1, run_abs e l1 = Ok e1 /\ run_abs e1 l2 = Ok X.
Proof.
  induction l1 as [|i t IH]; intros e l2 X H; cbn [app run_abs] in *.
  - exists e. split; [reflexivity | exact H].
  - destruct (step_abs e i) as [e'|] eqn:S; cbn [bind] in *; [|discriminate].
    apply IH in H as [e1 [H1 H2]]. exists e1. split; assumption.
Qed.
Lemma run_abs_snoc l i e e1 e2 : run_abs e l = Ok e1 -> step_abs e1 i = Ok e2 -> run_abs e (l ++ [i]) = Ok e2.
Proof.
  revert e. induction l as [|j t IH]; intros e H1 H2; cbn [app run_abs] in *.
  - injection H1 as ->. rewrite H2. reflexivity.
  - destruct (step_abs e j) as [e'|]; cbn [bind] in *; [|discriminate]. apply IH; assumption.
Qed.

(* ------------------------------------------------------------------ available definitions *)
Definition fact_holds (lv : N -> Z) (c : cenv) (f : fact) : Prop :=
  exists g, sem_fun lv (mkI (fst (snd f)) (snd (snd f)) [fst f]) = Some g /\ c (fst f) = g c.

Lemma oval_ext lv c c' a : (forall x, is_var x a = true -> c' x = c x) -> oval lv c' a = oval lv c a.
Proof. intros H. destruct a; cbn; try reflexivity. apply H. cbn. apply N.eqb_refl. Qed.

Lemma sem_fun_ext lv ins g c c' : sem_fun lv ins = Some g ->
  (forall x, existsb (is_var x) (i_args ins) = true -> c' x = c x) -> g c' = g c.
Proof.
  unfold sem_fun. destruct (has_label (i_args ins)); [discriminate|].
  destruct (i_outs ins) as [|o [|o2 t]]; try discriminate.
  destruct (String.eqb (i_op ins) "assign").
  { destruct (i_args ins) as [|a [|a' t]]; try discriminate. intros H E. injection H as <-.
    apply oval_ext. intros x Hx. apply E. cbn. rewrite Hx. reflexivity. }
  destruct (word_op (i_op ins)) as [w|]; [|discriminate].
  destruct (is_unary (i_op ins)).
  { destruct (i_args ins) as [|a [|a' t]]; try discriminate. intros H E. injection H as <-.
    f_equal. apply oval_ext. intros x Hx. apply E. cbn. rewrite Hx. reflexivity. }
  destruct (i_args ins) as [|a2 [|a1 [|a3 t]]]; try discriminate. intros H E. injection H as <-.
  f_equal; apply oval_ext; intros x Hx; apply E; cbn; rewrite Hx; rewrite ?orb_true_r; reflexivity.
Qed.

Lemma sem_fun_outs_irrel lv op args o o' :
  sem_fun lv (mkI op args [o]) = sem_fun lv (mkI op args [o']).
Proof. reflexivity. Qed.

Lemma facts_step_sound lv c c' ins F :
  Forall (fact_holds lv c) F -> step_conc lv ins c c' -> Forall (fact_holds lv c') (facts_step F ins).
Proof.
  intros HF [Hsame [Hword [Hval _]]].
  assert (K : Forall (fact_holds lv c') (filter (fun f => negb (existsb (mentions f) (i_outs ins))) F)).
  { apply Forall_forall. intros f Hf. apply filter_In in Hf as [Hin Hn].
    rewrite Forall_forall in HF. destruct (HF f Hin) as [g [Sg Eg]].
    apply negb_true_iff in Hn.
    assert (NM : forall x, In x (i_outs ins) -> mentions f x = false).
    { intros x Hx. destruct (mentions f x) eqn:M; [|reflexivity].
      assert (existsb (mentions f) (i_outs ins) = true) by (apply existsb_exists; exists x; split; assumption).
      congruence. }
    exists g. split; [exact Sg|].
    assert (U : forall x, mentions f x = true -> c' x = c x).
    { intros x Mx. apply Hsame. intros I. rewrite (NM x I) in Mx. discriminate. }
    rewrite (U (fst f)) by (unfold mentions; rewrite N.eqb_refl; reflexivity).
    rewrite Eg. symmetry. eapply sem_fun_ext; [exact Sg|]. cbn [i_args].
    intros x Hx. apply U. unfold mentions. rewrite Hx. apply orb_true_r. }
  unfold facts_step. destruct (i_outs ins) as [|o [|o2 t]] eqn:O; try exact K.
  destruct (fact_op (i_op ins) && determined ins && negb (existsb (is_var o) (i_args ins))) eqn:D; [|exact K].
  apply andb_prop in D as [D D3]. apply andb_prop in D as [D1 D2]. apply negb_true_iff in D3.
  constructor; [|exact K].
  unfold fact_holds. cbn [fst snd].
  unfold determined in D2. destruct (sem_fun lv ins) as [g|] eqn:SF.
  - exists g. split.
    + rewrite <- SF. unfold sem_fun. cbn [i_args i_outs i_op]. rewrite O. reflexivity.
    + rewrite (Hval g o eq_refl eq_refl). symmetry. eapply sem_fun_ext; [exact SF|].
      intros x Hx. apply Hsame. intros [<-|[]]. rewrite Hx in D3. discriminate.
  - exfalso. revert D2 SF. unfold sem_fun.
    destruct (has_label (i_args ins)); [discriminate|]. rewrite O.
    destruct (String.eqb (i_op ins) "assign").
    { destruct (i_args ins) as [|a [|a' t']]; discriminate. }
    destruct (word_op (i_op ins)); [|discriminate].
    destruct (is_unary (i_op ins)).
    { destruct (i_args ins) as [|a [|a' t']]; discriminate. }
    destruct (i_args ins) as [|a2 [|a1 [|a3 t']]]; discriminate.
Qed.

Lemma facts_of_snoc l i : facts_of (l ++ [i]) = facts_step (facts_of l) i.
Proof. unfold facts_of. rewrite fold_left_app. reflexivity. Qed.

Lemma find_fact_In F x d : find_fact F x = Some d -> In (x, d) F.
Proof.
  induction F as [|[y d'] t IH]; cbn; [discriminate|].
  destruct (N.eqb x y) eqn:E; [|intros H; right; apply IH; exact H].
  apply N.eqb_eq in E. subst. intros H. injection H as <-. left. reflexivity.
Qed.

(* ------------------------------------------------------------------ branch refinement *)
Lemma write_opt_sound St x r St' c :
  gamma St c -> wfenv St -> write_opt St x r = Ok St' ->
  (forall R, r = Ok (Some R) -> mem (c x) R) -> gamma St' c /\ wfenv St'.
Proof.
  intros G Wf H M. unfold write_opt in H. destruct r as [[R|]|]; try discriminate.
  - destruct (wfb R) eqn:WR; [|discriminate]. injection H as <-.
    split; [apply gamma_awrite; [exact G | apply M; reflexivity] | apply wfenv_awrite; [exact Wf | apply wfb_wf; exact WR]].
  - injection H as <-. split; assumption.
Qed.

Lemma b2z_nz (b : bool) : negb (Word256.b2z b =? 0) = b.
Proof. destruct b; reflexivity. Qed.
Lemma b2z_one (b : bool) : (Word256.b2z b =? 1) = b.
Proof. destruct b; reflexivity. Qed.

Lemma const0_ok : mem 0 (vr_constant 0) /\ wf (vr_constant 0).
Proof. unfold vr_constant, mem, wf. split; [exists 0; split; [lia | reflexivity] | wl]. Qed.

Lemma apply_iszero_sound lv c o args is_true St St' :
  lv_ok lv -> cenv_ok c -> gamma St c -> wfenv St ->
  fact_holds lv c (o, ("iszero", args)) -> is_true = negb (c o =? 0) ->
  apply_iszero args is_true St = Ok St' -> gamma St' c /\ wfenv St'.
Proof.
  intros L C G Wf [g [Sg Eg]] HT H. cbn [fst snd] in *.
  unfold apply_iszero in H.
  destruct args as [|[v|t|l] [|a' rest]]; cbv iota in H. all: try (replace St' with St by congruence; split; assumption).
  cbn in Sg. injection Sg as <-. cbn [oval] in Eg.
  rewrite Eg in HT. unfold w_iszero in HT. rewrite b2z_nz in HT.
  destruct is_true.
  - injection H as <-. symmetry in HT. apply Z.eqb_eq in HT.
    destruct const0_ok as [M0 W0].
    split; [apply gamma_awrite; [exact G | rewrite HT; exact M0] | apply wfenv_awrite; assumption].
  - symmetry in HT. apply Z.eqb_neq in HT.
    eapply write_opt_sound; eauto. intros R ER.
    exact (proj1 (refine_iszero_false_sound (aget St t) (c t) R (Wf t) (C t) (G t) HT ER)).
Qed.

Lemma apply_eq_sound lv c o args is_true St St' :
  lv_ok lv -> cenv_ok c -> gamma St c -> wfenv St ->
  fact_holds lv c (o, ("eq", args)) -> is_true = negb (c o =? 0) ->
  apply_eq args is_true St = Ok St' -> gamma St' c /\ wfenv St'.
Proof.
  intros L C G Wf [g [Sg Eg]] HT H. cbn [fst snd] in *.
  unfold apply_eq in H. destruct is_true; cbn [negb] in H; [|injection H as <-; split; assumption].
  destruct args as [|a2 [|a1 [|a3 rest]]].
  1:{ cbv iota in H; replace St' with St by congruence; split; assumption. }
  1:{ destruct a2; cbv iota in H; replace St' with St by congruence; split; assumption. }
  2:{ destruct a2 as [?|?|?]; destruct a1 as [?|?|?]; cbv iota in H; replace St' with St by congruence; split; assumption. }
  destruct a2 as [v2|y|l2]; destruct a1 as [v1|x|l1]; cbv iota in H; try (replace St' with St by congruence; split; assumption).
  - (* [OLit v2; OVar x] *)
    cbn in Sg. injection Sg as <-. cbn [oval] in Eg. rewrite Eg in HT. unfold w_eq in HT. rewrite b2z_nz in HT.
    symmetry in HT. apply Z.eqb_eq in HT. injection H as <-.
    destruct (to_signed_mem v2) as [M0 W0].
    split; [apply gamma_awrite; [exact G | rewrite HT; exact M0] | apply wfenv_awrite; assumption].
  - (* [OVar y; OLit v1] *)
    cbn in Sg. injection Sg as <-. cbn [oval] in Eg. rewrite Eg in HT. unfold w_eq in HT. rewrite b2z_nz in HT.
    symmetry in HT. apply Z.eqb_eq in HT. injection H as <-.
    destruct (to_signed_mem v1) as [M0 W0].
    split; [apply gamma_awrite; [exact G | rewrite <- HT; exact M0] | apply wfenv_awrite; assumption].
  - (* [OVar y; OVar x] *)
    cbn in Sg. injection Sg as <-. cbn [oval] in Eg. rewrite Eg in HT. unfold w_eq in HT. rewrite b2z_nz in HT.
    symmetry in HT. apply Z.eqb_eq in HT.
    destruct (refine_eq_vars (aget St x) (aget St y)) as [[R|]|] eqn:ER; try discriminate.
    + destruct (wfb R) eqn:WR; [|discriminate]. injection H as <-.
      pose proof (G y) as Gy. rewrite <- HT in Gy.
      destruct (refine_eq_vars_sound (aget St x) (aget St y) (c x) R (Wf x) (Wf y) (C x) (G x) Gy ER) as [MR WfR].
      split.
      * apply gamma_awrite; [apply gamma_awrite; [exact G | exact MR] | rewrite <- HT; exact MR].
      * apply wfenv_awrite; [apply wfenv_awrite; assumption | assumption].
    + injection H as <-. split; assumption.
Qed.

Lemma cmp_cases op : is_cmp_op op = true ->
  op = "lt" \/ op = "gt" \/ op = "slt" \/ op = "sgt".
Proof.
  unfold is_cmp_op. intros H.
  destruct (String.eqb op "lt") eqn:E1; [apply String.eqb_eq in E1; tauto|].
  destruct (String.eqb op "gt") eqn:E2; [apply String.eqb_eq in E2; tauto|].
  destruct (String.eqb op "slt") eqn:E3; [apply String.eqb_eq in E3; tauto|].
  destruct (String.eqb op "sgt") eqn:E4; [apply String.eqb_eq in E4; tauto|].
  discriminate.
Qed.

Lemma lit_ok_spec v : lit_ok v = true -> - HALF <= v <= W - 1.
Proof. unfold lit_ok. intros H. apply andb_prop in H as [H1 H2]. apply Z.leb_le in H1, H2. lia. Qed.

Lemma apply_compare_sound lv c o op args is_true St St' :
  lv_ok lv -> cenv_ok c -> gamma St c -> wfenv St -> is_cmp_op op = true ->
  fact_holds lv c (o, (op, args)) -> is_true = negb (c o =? 0) ->
  apply_compare op args is_true St = Ok St' -> gamma St' c /\ wfenv St'.
Proof.
  intros L C G Wf Hop [g [Sg Eg]] HT H. cbn [fst snd] in *.
  unfold apply_compare in H.
  destruct args as [|a2 [|a1 [|a3 rest]]].
  1:{ cbv iota in H; replace St' with St by congruence; split; assumption. }
  1:{ destruct a2; cbv iota in H; replace St' with St by congruence; split; assumption. }
  2:{ destruct a2 as [?|?|?]; destruct a1 as [?|?|?]; cbv iota in H; replace St' with St by congruence; split; assumption. }
  destruct a2 as [v2|y|l2]; destruct a1 as [v1|x|l1]; cbv iota in H; try (replace St' with St by congruence; split; assumption).
  - (* [OLit v2; OVar x]: variable on the left *)
    destruct (lit_ok v2) eqn:LO; [|discriminate]. apply lit_ok_spec in LO.
    eapply write_opt_sound; eauto. intros R ER.
    destruct (cmp_cases op Hop) as [-> | [-> | [-> | ->]]]; cbn in Sg; injection Sg as <-; cbn [oval] in Eg;
      rewrite Eg in HT.
    + unfold w_lt in HT at 1. rewrite b2z_nz in HT.
      refine (proj1 (refine_left_lt_sound (aget St x) v2 is_true (c x) R LO (Wf x) (C x) (G x) _ ER)).
      unfold w_lt. rewrite b2z_one. symmetry. exact HT.
    + unfold w_gt in HT at 1. rewrite b2z_nz in HT.
      refine (proj1 (refine_left_gt_sound (aget St x) v2 is_true (c x) R LO (Wf x) (C x) (G x) _ ER)).
      unfold w_gt. rewrite b2z_one. symmetry. exact HT.
    + unfold w_slt in HT at 1. rewrite b2z_nz in HT.
      refine (proj1 (refine_left_slt_sound (aget St x) v2 is_true (c x) R LO (Wf x) (C x) (G x) _ ER)).
      unfold w_slt. rewrite b2z_one. symmetry. exact HT.
    + unfold w_sgt in HT at 1. rewrite b2z_nz in HT.
      refine (proj1 (refine_left_sgt_sound (aget St x) v2 is_true (c x) R LO (Wf x) (C x) (G x) _ ER)).
      unfold w_sgt. rewrite b2z_one. symmetry. exact HT.
  - (* [OVar y; OLit v1]: variable on the right *)
    destruct (lit_ok v1) eqn:LO; [|discriminate]. apply lit_ok_spec in LO.
    eapply write_opt_sound; eauto. intros R ER.
    destruct (cmp_cases op Hop) as [-> | [-> | [-> | ->]]]; cbn in Sg; injection Sg as <-; cbn [oval] in Eg;
      rewrite Eg in HT.
    + unfold w_lt in HT at 1. rewrite b2z_nz in HT.
      refine (proj1 (refine_right_lt_sound (aget St y) v1 is_true (c y) R LO (Wf y) (C y) (G y) _ ER)).
      unfold w_lt. rewrite b2z_one. symmetry. exact HT.
    + unfold w_gt in HT at 1. rewrite b2z_nz in HT.
      refine (proj1 (refine_right_gt_sound (aget St y) v1 is_true (c y) R LO (Wf y) (C y) (G y) _ ER)).
      unfold w_gt. rewrite b2z_one. symmetry. exact HT.
    + unfold w_slt in HT at 1. rewrite b2z_nz in HT.
      refine (proj1 (refine_right_slt_sound (aget St y) v1 is_true (c y) R LO (Wf y) (C y) (G y) _ ER)).
      unfold w_slt. rewrite b2z_one. symmetry. exact HT.
    + unfold w_sgt in HT at 1. rewrite b2z_nz in HT.
      refine (proj1 (refine_right_sgt_sound (aget St y) v1 is_true (c y) R LO (Wf y) (C y) (G y) _ ER)).
      unfold w_sgt. rewrite b2z_one. symmetry. exact HT.
Qed.

Lemma apply_cond_sound lv c F : Forall (fact_holds lv c) F -> lv_ok lv -> cenv_ok c ->
  forall n o is_true St St', gamma St c -> wfenv St -> is_true = negb (oval lv c o =? 0) ->
  apply_cond n F o is_true St = Ok St' -> gamma St' c /\ wfenv St'.
Proof.
  intros HF L C. induction n as [|n IH]; intros o is_true St St' G Wf HT H; cbn [apply_cond] in H.
  - injection H as <-. split; assumption.
  - destruct o as [v|cv|l]; try (injection H as <-; split; assumption).
    destruct (find_fact F cv) as [[op args]|] eqn:FF; [|injection H as <-; split; assumption].
    apply find_fact_In in FF. rewrite Forall_forall in HF. pose proof (HF _ FF) as FH.
    cbn [oval] in HT.
    destruct (String.eqb op "assign") eqn:E1.
    { apply String.eqb_eq in E1. subst op.
      destruct args as [|a [|a' rest]]; try (injection H as <-; split; assumption).
      destruct FH as [g [Sg Eg]]. cbn [fst snd] in *.
      unfold sem_fun in Sg. cbn [i_args i_outs i_op] in Sg.
      destruct (has_label [a]); [discriminate|]. cbn in Sg. injection Sg as <-.
      apply (IH a is_true St St' G Wf); [rewrite <- Eg; exact HT | exact H]. }
    destruct (String.eqb op "iszero") eqn:E2.
    { apply String.eqb_eq in E2. subst op. exact (apply_iszero_sound lv c cv args is_true St St' L C G Wf FH HT H). }
    destruct (String.eqb op "eq") eqn:E3.
    { apply String.eqb_eq in E3. subst op. exact (apply_eq_sound lv c cv args is_true St St' L C G Wf FH HT H). }
    destruct (is_cmp_op op) eqn:E4.
    { exact (apply_compare_sound lv c cv op args is_true St St' L C G Wf E4 FH HT H). }
    injection H as <-. split; assumption.
Qed.

(* ------------------------------------------------------------------ edges *)
Lemma targets_succs lv T c b : In b (targets lv T c) -> In b (succs T).
Proof.
  unfold targets, succs.
  destruct (String.eqb (i_op T) "jmp") eqn:E1; cbn [orb].
  { destruct (i_args T) as [|[?|?|l] [|? ?]]; cbn; tauto. }
  destruct (String.eqb (i_op T) "jnz") eqn:E2; cbn [orb].
  { destruct (i_args T) as [|cond [|[?|?|t] [|[?|?|f] [|? ?]]]]; cbn; try tauto.
    destruct (oval lv c cond =? 0); cbn; intros [<-|[]]; destruct cond; cbn; tauto. }
  destruct (String.eqb (i_op T) "djmp"); [tauto | intros []].
Qed.

Lemma edge_state_sound lv c p X b T fuel St :
  lv_ok lv -> cenv_ok c -> gamma X c -> wfenv X -> Forall (fact_holds lv c) (facts_of (body p)) ->
  term_of p = Some T -> In b (targets lv T c) -> edge_state fuel p X b = Ok St -> gamma St c /\ wfenv St.
Proof.
  intros L C G Wf HF HT HB H. unfold edge_state in H. rewrite HT in H.
  destruct (String.eqb (i_op T) "jnz") eqn:E; [|injection H as <-; split; assumption].
  unfold targets in HB. apply String.eqb_eq in E. rewrite E in HB.
  change (String.eqb "jnz" "jmp") with false in HB. change (String.eqb "jnz" "jnz") with true in HB. cbv iota in HB.
  destruct (i_args T) as [|cond [|[?|?|t] [|[?|?|f] [|? ?]]]]; try (injection H as <-; split; assumption).
  destruct (N.eqb t f) eqn:Etf; [injection H as <-; split; assumption|].
  apply N.eqb_neq in Etf.
  destruct (N.eqb t b) eqn:Etb.
  { apply N.eqb_eq in Etb. subst t.
    assert (HTt : true = negb (oval lv c cond =? 0)).
    { destruct (oval lv c cond =? 0); [destruct HB as [<-|[]]; congruence | reflexivity]. }
    exact (apply_cond_sound lv c _ HF L C fuel cond true X St G Wf HTt H). }
  apply N.eqb_neq in Etb.
  destruct (N.eqb f b) eqn:Efb; [|injection H as <-; split; assumption].
  apply N.eqb_eq in Efb. subst f.
  assert (HTf : false = negb (oval lv c cond =? 0)).
  { destruct (oval lv c cond =? 0); [reflexivity | destruct HB as [<-|[]]; congruence]. }
  exact (apply_cond_sound lv c _ HF L C fuel cond false X St G Wf HTf H).
Qed.

Lemma aget_In e x : aget e x = TOP \/ exists r, In (x, r) e.
Proof.
  induction e as [|[y r] t IH]; cbn [aget]; [left; reflexivity|].
  destruct (N.eqb x y) eqn:E.
  - apply N.eqb_eq in E. subst. right. exists r. left. reflexivity.
  - destruct IH as [IH|[r' IH]]; [left; exact IH | right; exists r'; right; exact IH].
Qed.

Lemma edge_ok_sound St blk_b Eb p c c' :
  gamma St c -> edge_ok St blk_b Eb p = true -> phi_assign (leading_phis blk_b) p c c' -> gamma Eb c'.
Proof.
  intros G H [P1 P2] x.
  destruct (aget_In Eb x) as [->|[r0 Hin]]; [exact Logic.I|].
  unfold edge_ok in H. rewrite forallb_forall in H. specialize (H _ Hin). cbn [fst] in H.
  destruct (filter (fun ins => match phi_out ins with Some o => N.eqb o x | None => false end) (leading_phis blk_b))
    as [|i0 rest] eqn:FL.
  - assert (NP : forall ins, In ins (leading_phis blk_b) -> phi_out ins <> Some x).
    { intros ins Hi Hp.
      assert (In ins (filter (fun ins => match phi_out ins with Some o => N.eqb o x | None => false end) (leading_phis blk_b))).
      { apply filter_In. split; [exact Hi|]. rewrite Hp. apply N.eqb_refl. }
      rewrite FL in H0. exact H0. }
    rewrite (P1 x NP). eapply vr_le_mem; [exact H | apply G].
  - assert (I0 : In i0 (i0 :: rest)) by (left; reflexivity).
    rewrite <- FL in I0. apply filter_In in I0 as [Hi Hp].
    destruct (phi_out i0) as [o|] eqn:PO; [|discriminate]. apply N.eqb_eq in Hp. subst o.
    destruct (P2 i0 x Hi PO) as [v [Hv Ev]]. rewrite Ev.
    cbn [forallb] in H. apply andb_prop in H as [H _].
    rewrite forallb_forall in H. specialize (H _ Hv). cbn [fst snd] in H. rewrite N.eqb_refl in H.
    eapply vr_le_mem; [exact H | apply G].
Qed.

Lemma phi_assign_ok phis p c c' : cenv_ok c -> phi_assign phis p c c' -> cenv_ok c'.
Proof.
  intros C [P1 P2] x.
  destruct (existsb (fun ins => match phi_out ins with Some o => N.eqb o x | None => false end) phis) eqn:E.
  - apply existsb_exists in E as [ins [Hi Hp]]. destruct (phi_out ins) as [o|] eqn:PO; [|discriminate].
    apply N.eqb_eq in Hp. subst o. destruct (P2 ins x Hi PO) as [v [_ ->]]. apply C.
  - rewrite P1; [apply C|]. intros ins Hi Hp.
    assert (existsb (fun ins => match phi_out ins with Some o => N.eqb o x | None => false end) phis = true).
    { apply existsb_exists. exists ins. split; [exact Hi|]. rewrite Hp. apply N.eqb_refl. }
    congruence.
Qed.

(* ------------------------------------------------------------------ the check *)
Lemma nth_default_oob {A} (l : list A) d n : (List.length l <= n)%nat -> nth n l d = d.
Proof. apply nth_overflow. Qed.

Lemma check_all f E : check f E = true ->
  forall b, check_block (Datatypes.S (List.length (List.concat f))) f E b = true.
Proof.
  unfold check. intros H b. apply andb_prop in H as [H H3]. apply andb_prop in H as [H1 H2].
  apply Nat.eqb_eq in H1.
  destruct (Nat.ltb (N.to_nat b) (List.length f)) eqn:LT.
  - apply Nat.ltb_lt in LT. rewrite forallb_forall in H3.
    specialize (H3 (N.to_nat b)). rewrite N2Nat.id in H3. apply H3. apply in_seq. lia.
  - apply Nat.ltb_ge in LT. unfold check_block, nth_block, nth_env.
    rewrite (nth_overflow f [] LT). rewrite (nth_overflow E []) by lia. reflexivity.
Qed.

Lemma check_entry f E : check f E = true -> nth_env E 0 = [].
Proof.
  unfold check. intros H. apply andb_prop in H as [H _]. apply andb_prop in H as [_ H].
  unfold nth_env. destruct E as [|e0 t]; [reflexivity|]. cbn. destruct e0; [reflexivity | discriminate].
Qed.

Lemma firstn_snoc {A} (l : list A) k x : nth_error l k = Some x -> firstn (Datatypes.S k) l = (firstn k l ++ [x])%list.
Proof.
  revert k. induction l as [|y t IH]; intros k H; [destruct k; discriminate|].
  destruct k; cbn in *; [injection H as ->; reflexivity|]. f_equal. apply IH. exact H.
Qed.

Lemma run_abs_prefix l k e X ins e1 :
  run_abs e l = Ok X -> nth_error l k = Some ins -> run_abs e (firstn k l) = Ok e1 ->
  exists e2, step_abs e1 ins = Ok e2.
Proof.
  intros HX Hn H1.
  assert (SP : l = (firstn k l ++ ins :: skipn (Datatypes.S k) l)%list).
  { clear -Hn. revert k Hn. induction l as [|y t IH]; intros k Hn; [destruct k; discriminate|].
    destruct k; cbn in *; [injection Hn as ->; reflexivity|]. f_equal. apply IH. exact Hn. }
  rewrite SP in HX. apply run_abs_app in HX as [e1' [A B]]. rewrite H1 in A. injection A as <-.
  cbn [run_abs] in B. destruct (step_abs e1 ins) as [e2|]; [exists e2; reflexivity | discriminate].
Qed.

Definition Inv (f : func) (E : list aenv) (lv : N -> Z) (b : N) (k : nat) (c : cenv) : Prop :=
  cenv_ok c /\ exists e, env_at f E b k = Ok e /\ gamma e c /\ wfenv e /\
    Forall (fact_holds lv c) (facts_of (firstn k (body (nth_block f b)))).

Theorem reach_inv f E lv : lv_ok lv -> check f E = true ->
  forall b k c, reach f lv b k c -> Inv f E lv b k c.
Proof.
  intros L CK. pose proof (check_all f E CK) as CA.
  induction 1 as [c C | b k c c' ins R IH Hn HS | p c b c' T R IH HT HB HP].
  - (* entry *)
    split; [exact C|]. exists []. unfold env_at. cbn [firstn run_abs]. rewrite (check_entry f E CK).
    split; [reflexivity|]. split; [intros x; exact Logic.I|]. split; [intros x; exact Logic.I | constructor].
  - (* one instruction *)
    destruct IH as [C [e [EA [G [Wf HF]]]]].
    pose proof (CA b) as CB. unfold check_block in CB.
    apply andb_prop in CB as [CB1 CB2].
    destruct (run_abs (nth_env E b) (body (nth_block f b))) as [X|] eqn:RX; [|discriminate].
    unfold env_at in EA.
    destruct (run_abs_prefix _ _ _ _ _ _ RX Hn EA) as [e2 SA].
    destruct (step_abs_sound lv e c ins e2 c' L C G Wf SA HS) as [C' [G' Wf']].
    split; [exact C'|]. exists e2. unfold env_at. rewrite (firstn_snoc _ _ _ Hn).
    repeat split; try assumption.
    + eapply run_abs_snoc; eauto.
    + rewrite facts_of_snoc. eapply facts_step_sound; eauto.
  - (* jump *)
    destruct IH as [C [e [EA [G [Wf HF]]]]].
    unfold env_at in EA. rewrite firstn_all in EA, HF.
    pose proof (CA p) as CP. unfold check_block in CP.
    apply andb_prop in CP as [CP1 CP2]. rewrite EA in CP2. rewrite HT in CP2.
    rewrite forallb_forall in CP2. specialize (CP2 b (targets_succs lv T c b HB)).
    apply andb_prop in CP2 as [_ CP2].
    destruct (edge_state (Datatypes.S (List.length (List.concat f))) (nth_block f p) e b) as [St|] eqn:ES; [|discriminate].
    destruct (edge_state_sound lv c _ e b T _ St L C G Wf HF HT HB ES) as [GS _].
    pose proof (edge_ok_sound St _ _ p c c' GS CP2 HP) as GE.
    split; [eapply phi_assign_ok; eauto|].
    exists (nth_env E b). unfold env_at. cbn [firstn run_abs].
    repeat split; try constructor; try exact GE.
    pose proof (CA b) as CB. unfold check_block in CB.
    apply andb_prop in CB as [CB1 _]. apply andb_prop in CB1 as [_ CB1]. apply wfenv_of_env_wf. exact CB1.
Qed.

Theorem range_fixpoint_sound_main f E lv : lv_ok lv -> check f E = true ->
  forall b k c, reach f lv b k c -> exists e, env_at f E b k = Ok e /\ gamma e c.
Proof.
  intros L CK b k c R. destruct (reach_inv f E lv L CK b k c R) as [_ [e [EA [G _]]]].
  exists e. split; assumption.
Qed.
