(* C14 / VenomProofs.v -- theorems about the semantics of Venom.v (no Gen dependency).
   * vrun_fuel_mono / vrun_deterministic : the fuelled interpreter is a function of the program and the input; its result
     does not depend on the amount of fuel once it terminates.
   * commute_simple : two adjacent straight-line instructions without data dependency whose SEMANTIC footprints do not
     conflict can be swapped (same variables, same store, same error status).
   * commute_under_table : the same with the disjointness premise stated on an arbitrary effect table that covers the
     semantic footprints (instantiated with the table regenerated from effects.py in PropsVenom.v). *)
From Coq Require Import ZArith List Bool FMapPositive Lia PeanoNat.
From Verif Require Import Base.Word256 C14.Venom.
Import ListNotations.
Open Scope Z_scope.

(* ---------------------------------------------------------------- determinism / fuel *)
Definition terminated (r : halt * store) : Prop := fst r <> HStuck EFuel.

Lemma vrun_from_mono : forall n E X f cur prev vs st r,
  vrun_from n E X f cur prev vs st = r -> terminated r ->
  forall k, vrun_from (n + k) E X f cur prev vs st = r.
Proof.
  induction n as [|n IH]; intros E X f cur prev vs st r H T k.
  - simpl in H. subst r. exfalso. apply T. reflexivity.
  - simpl in *. destruct (PositiveMap.find cur (f_blocks f)) as [insts|]; auto.
    destruct (exec_phis prev insts vs vs) as [[vs1 rest]|]; auto.
    destruct (exec_insts E X rest vs1 st); auto.
Qed.

Theorem vrun_fuel_mono : forall n k E X f st r,
  vrun n E X f st = r -> terminated r -> vrun (n + k) E X f st = r.
Proof. intros. unfold vrun in *. apply vrun_from_mono; assumption. Qed.

Theorem vrun_deterministic : forall n m E X f st r1 r2,
  vrun n E X f st = r1 -> vrun m E X f st = r2 -> terminated r1 -> terminated r2 -> r1 = r2.
Proof.
  intros n m E X f st r1 r2 H1 H2 T1 T2.
  destruct (Nat.le_ge_cases n m) as [L|L].
  - replace m with (n + (m - n))%nat in H2 by lia.
    rewrite (vrun_fuel_mono n (m - n) E X f st r1 H1 T1) in H2. assumption.
  - replace n with (m + (n - m))%nat in H1 by lia.
    rewrite (vrun_fuel_mono m (n - m) E X f st r2 H2 T2) in H1. symmetry. assumption.
Qed.

(* ---------------------------------------------------------------- effect sets *)
Lemma eff_eqb_eq : forall a b, eff_eqb a b = true <-> a = b.
Proof. destruct a, b; simpl; split; intro H; try reflexivity; try discriminate. Qed.

Lemma inb_In : forall x l, inb x l = true <-> In x l.
Proof.
  induction l as [|y t IH]; simpl.
  - split; [discriminate | contradiction].
  - rewrite orb_true_iff, IH, eff_eqb_eq. split; intros [H|H]; auto.
Qed.

Lemma inb_app : forall x a b, inb x (a ++ b) = inb x a || inb x b.
Proof. induction a as [|y t IH]; simpl; intros; [reflexivity|]. rewrite IH, orb_assoc. reflexivity. Qed.

Lemma disjointb_spec : forall a b, disjointb a b = true -> forall x, inb x a = true -> inb x b = true -> False.
Proof.
  unfold disjointb. intros a b H x Ha Hb. rewrite forallb_forall in H.
  apply inb_In in Ha. specialize (H x Ha). rewrite Hb in H. discriminate.
Qed.

Lemma subsetb_spec : forall a b, subsetb a b = true -> forall x, inb x a = true -> inb x b = true.
Proof. unfold subsetb. intros a b H x Ha. rewrite forallb_forall in H. apply H. apply inb_In. assumption. Qed.

Lemma disjointb_intro : forall a b, (forall x, inb x a = true -> inb x b = true -> False) -> disjointb a b = true.
Proof.
  unfold disjointb. intros a b H. apply forallb_forall. intros x Hx. apply inb_In in Hx.
  destruct (inb x b) eqn:E; auto. exfalso. eauto.
Qed.

(* ---------------------------------------------------------------- mask / merge algebra *)
Lemma mask_merge : forall W F s' st,
  (forall x, inb x W = true -> inb x F = true -> False) -> mask F (merge W s' st) = mask F st.
Proof.
  intros W F s' st H. unfold mask, merge. simpl.
  f_equal;
    match goal with
    | |- sel (inb ?c F) (sel (inb ?c W) _ _) _ = _ =>
        destruct (inb c F) eqn:EF; destruct (inb c W) eqn:EW; simpl; auto; exfalso; eapply H; eauto
    end.
Qed.

Lemma merge_comm : forall W1 W2 a b st,
  (forall x, inb x W1 = true -> inb x W2 = true -> False) ->
  merge W2 b (merge W1 a st) = merge W1 a (merge W2 b st).
Proof.
  intros W1 W2 a b st H. unfold merge. simpl.
  f_equal;
    match goal with
    | |- sel (inb ?c W2) _ (sel (inb ?c W1) _ _) = _ =>
        destruct (inb c W2) eqn:E2; destruct (inb c W1) eqn:E1; simpl; auto; exfalso; eapply H; eauto
    end.
Qed.

Definition FP (o : opc) : list eff := sem_reads o ++ sem_writes o.

Lemma writes_in_FP : forall o x, inb x (sem_writes o) = true -> inb x (FP o) = true.
Proof. intros. unfold FP. rewrite inb_app, H. apply orb_true_r. Qed.

(* the store-level core: swapping two wrapped instructions with non-conflicting footprints *)
Lemma wrapped_swap : forall E X o1 o2 a1 a2 st,
  disjointb (sem_writes o1) (FP o2) = true -> disjointb (sem_writes o2) (FP o1) = true ->
  match wrapped E X o1 a1 st with
  | Ok (r1, st1) =>
      match wrapped E X o2 a2 st1 with
      | Ok (r2, st12) => exists st2, wrapped E X o2 a2 st = Ok (r2, st2) /\ wrapped E X o1 a1 st2 = Ok (r1, st12)
      | Err _ => exists e, wrapped E X o2 a2 st = Err e
      end
  | Err _ => match wrapped E X o2 a2 st with
             | Ok (_, st2) => exists e, wrapped E X o1 a1 st2 = Err e
             | Err _ => True end
  end.
Proof.
  intros E X o1 o2 a1 a2 st D1 D2.
  pose proof (disjointb_spec _ _ D1) as H12. pose proof (disjointb_spec _ _ D2) as H21.
  unfold wrapped. fold (FP o1). fold (FP o2).
  destruct (eff_sem E X o1 a1 (mask (FP o1) st)) as [[r1 s1']|e1] eqn:E1.
  - rewrite (mask_merge (sem_writes o1) (FP o2) s1' st H12).
    destruct (eff_sem E X o2 a2 (mask (FP o2) st)) as [[r2 s2']|e2] eqn:E2.
    + exists (merge (sem_writes o2) s2' st). split; [reflexivity|].
      rewrite (mask_merge (sem_writes o2) (FP o1) s2' st H21). rewrite E1.
      f_equal. f_equal. apply merge_comm.
      intros x Hx1 Hx2. eapply H12; eauto. apply writes_in_FP. assumption.
    + exists e2. reflexivity.
  - destruct (eff_sem E X o2 a2 (mask (FP o2) st)) as [[r2 s2']|e2] eqn:E2; auto.
    rewrite (mask_merge (sem_writes o2) (FP o1) s2' st H21). rewrite E1. exists e1. reflexivity.
Qed.

(* ---------------------------------------------------------------- variables *)
Definition op_vars (l : list operand) : list positive :=
  flat_map (fun o => match o with OVar v => [v] | _ => [] end) l.

Lemma bind_other : forall outs vals vs vs', bind_outs vs outs vals = Some vs' ->
  forall x, ~ In x outs -> PositiveMap.find x vs' = PositiveMap.find x vs.
Proof.
  induction outs as [|o t IH]; intros vals vs vs' H x N; destruct vals as [|v r]; simpl in H; try discriminate.
  - inversion H. reflexivity.
  - rewrite (IH _ _ _ H x). + apply PositiveMap.gso. intro EQ. apply N. left. symmetry. assumption.
    + intro I. apply N. right. assumption.
Qed.

Lemma bind_same : forall outs vals vs ws vs' ws', bind_outs vs outs vals = Some vs' -> bind_outs ws outs vals = Some ws' ->
  forall x, In x outs -> PositiveMap.find x vs' = PositiveMap.find x ws'.
Proof.
  induction outs as [|o t IH]; intros vals vs ws vs' ws' H1 H2 x I; destruct vals as [|v r]; simpl in *; try discriminate;
    try contradiction.
  destruct (in_dec Pos.eq_dec x t) as [It|Nt].
  - eapply IH; eauto.
  - destruct I as [EQ|I]; [|contradiction]. subst o.
    rewrite (bind_other _ _ _ _ H1 x Nt), (bind_other _ _ _ _ H2 x Nt). rewrite !PositiveMap.gss. reflexivity.
Qed.

Lemma bind_status : forall outs vals vs ws, bind_outs vs outs vals = None -> bind_outs ws outs vals = None.
Proof.
  induction outs as [|o t IH]; intros vals vs ws H; destruct vals as [|v r]; simpl in *; try discriminate; try reflexivity.
  eapply IH; eauto.
Qed.

Lemma bind_status_some : forall outs vals vs ws vs', bind_outs vs outs vals = Some vs' -> exists ws', bind_outs ws outs vals = Some ws'.
Proof.
  intros. destruct (bind_outs ws outs vals) eqn:E; eauto. rewrite (bind_status _ _ _ vs E) in H. discriminate.
Qed.

Lemma eval_op_indep : forall vs vs' o, (forall x, In x (op_vars [o]) -> PositiveMap.find x vs' = PositiveMap.find x vs) ->
  eval_op vs' o = eval_op vs o.
Proof. intros vs vs' [z|v|l] H; simpl; auto. apply H. simpl. auto. Qed.

Lemma eval_ops_indep : forall l vs vs', (forall x, In x (op_vars l) -> PositiveMap.find x vs' = PositiveMap.find x vs) ->
  eval_ops vs' l = eval_ops vs l.
Proof.
  induction l as [|o t IH]; intros vs vs' H; simpl; auto.
  rewrite (eval_op_indep vs vs' o), (IH vs vs'); auto.
  - intros x I. apply H. unfold op_vars in *. simpl. apply in_or_app. right. assumption.
  - intros x I. apply H. unfold op_vars in *. simpl in *. rewrite app_nil_r in I. apply in_or_app. left. assumption.
Qed.

Definition indep (i1 i2 : inst) : Prop :=
  (forall v, In v (i_outs i1) -> ~ In v (op_vars (i_args i2))) /\
  (forall v, In v (i_outs i2) -> ~ In v (op_vars (i_args i1))) /\
  (forall v, In v (i_outs i1) -> ~ In v (i_outs i2)).

Definition run2 (E : env) (X : oracle) (i1 i2 : inst) (vs : vmap) (st : store) : R (vmap * store) :=
  match exec_simple E X i1 vs st with
  | Ok (vs1, st1) => exec_simple E X i2 vs1 st1
  | Err e => Err e
  end.

Definition res_equiv (a b : R (vmap * store)) : Prop :=
  match a, b with
  | Ok (v1, s1), Ok (v2, s2) => PositiveMap.Equal v1 v2 /\ s1 = s2
  | Err _, Err _ => True
  | _, _ => False
  end.

Lemma args_after_bind : forall vs outs vals vs' args, bind_outs vs outs vals = Some vs' ->
  (forall v, In v outs -> ~ In v (op_vars args)) -> eval_ops vs' args = eval_ops vs args.
Proof.
  intros. apply eval_ops_indep. intros x I. eapply bind_other; eauto. intro O. eapply H0; eauto.
Qed.

Theorem commute_simple : forall E X i1 i2 vs st,
  indep i1 i2 ->
  disjointb (sem_writes (i_op i1)) (FP (i_op i2)) = true ->
  disjointb (sem_writes (i_op i2)) (FP (i_op i1)) = true ->
  res_equiv (run2 E X i1 i2 vs st) (run2 E X i2 i1 vs st).
Proof.
  intros E X [o1s op1 ar1] [o2s op2 ar2] vs st [I12 [I21 IO]] D1 D2. simpl in *.
  unfold run2, exec_simple. simpl.
  destruct (eval_ops vs ar1) as [a1|] eqn:EA1.
  2:{ (* i1 cannot evaluate its arguments: both orders fail *)
      destruct (eval_ops vs ar2) as [a2|]; simpl; auto.
      destruct (wrapped E X op2 a2 st) as [[r2 st2]|]; simpl; auto.
      destruct (bind_outs vs o2s r2) as [vs2|] eqn:B2; simpl; auto.
      rewrite (args_after_bind _ _ _ _ ar1 B2 I21), EA1. simpl. auto. }
  destruct (eval_ops vs ar2) as [a2|] eqn:EA2.
  2:{ destruct (wrapped E X op1 a1 st) as [[r1 st1]|]; simpl; auto.
      destruct (bind_outs vs o1s r1) as [vs1|] eqn:B1; simpl; auto.
      rewrite (args_after_bind _ _ _ _ ar2 B1 I12), EA2. simpl. auto. }
  pose proof (wrapped_swap E X op1 op2 a1 a2 st D1 D2) as SW.
  destruct (wrapped E X op1 a1 st) as [[r1 st1]|e1] eqn:W1.
  - destruct (bind_outs vs o1s r1) as [vs1|] eqn:B1.
    + rewrite (args_after_bind _ _ _ _ ar2 B1 I12), EA2.
      destruct (wrapped E X op2 a2 st1) as [[r2 st12]|e2] eqn:W2.
      * destruct SW as [st2 [W2' W1']]. rewrite W2'.
        destruct (bind_outs vs1 o2s r2) as [vs12|] eqn:B12.
        -- destruct (bind_status_some _ _ vs1 vs _ B12) as [vs2 B2]. rewrite B2.
           rewrite (args_after_bind _ _ _ _ ar1 B2 I21), EA1, W1'.
           destruct (bind_status_some _ _ vs vs2 _ B1) as [vs21 B21]. rewrite B21. simpl.
           split; [|reflexivity].
           intro x.
           destruct (in_dec Pos.eq_dec x o2s) as [X2|N2].
           ++ rewrite (bind_same _ _ _ _ _ _ B12 B2 x X2).
              symmetry. apply (bind_other _ _ _ _ B21). intro X1. eapply IO; eauto.
           ++ rewrite (bind_other _ _ _ _ B12 x N2).
              destruct (in_dec Pos.eq_dec x o1s) as [X1|N1].
              ** apply (bind_same _ _ _ _ _ _ B1 B21 x X1).
              ** rewrite (bind_other _ _ _ _ B1 x N1), (bind_other _ _ _ _ B21 x N1), (bind_other _ _ _ _ B2 x N2). reflexivity.
        -- rewrite (bind_status _ _ vs1 vs B12). simpl. auto.
      * destruct SW as [e W2']. rewrite W2'. simpl. auto.
    + (* i1's outputs do not match: error in both orders *)
      simpl.
      destruct (wrapped E X op2 a2 st) as [[r2 st2]|] eqn:W2; simpl; auto.
      destruct (bind_outs vs o2s r2) as [vs2|] eqn:B2; simpl; auto.
      rewrite (args_after_bind _ _ _ _ ar1 B2 I21), EA1.
      (* wrapped op1 on st2 gives the same outputs r1 or an error *)
      pose proof (wrapped_swap E X op2 op1 a2 a1 st D2 D1) as SW2. rewrite W2 in SW2.
      destruct (wrapped E X op1 a1 st2) as [[r1' st21]|] eqn:W1'; simpl; auto.
      destruct SW2 as [st1' [W1'' _]]. rewrite W1 in W1''. inversion W1''. subst r1'.
      rewrite (bind_status _ _ vs vs2 B1). simpl. auto.
  - simpl. destruct (wrapped E X op2 a2 st) as [[r2 st2]|] eqn:W2; simpl; auto.
    destruct SW as [e W1']. destruct (bind_outs vs o2s r2) as [vs2|] eqn:B2; simpl; auto.
    rewrite (args_after_bind _ _ _ _ ar1 B2 I21), EA1, W1'. simpl. auto.
Qed.

(* ---------------------------------------------------------------- the same, under an effect table that covers the semantics *)
Section Table.
  Variable tr tw : opc -> list eff.    (*section*)
  Definition covers : Prop :=
    forall o, is_simple o = true -> subsetb (sem_reads o) (tr o) = true /\ subsetb (sem_writes o) (tw o) = true.

  (* the conflict test the passes derive from effects.py: writes(i1) & (reads(i2) | writes(i2)) = 0 and vice versa *)
  Definition table_disjoint (o1 o2 : opc) : bool :=
    disjointb (tw o1) (tr o2 ++ tw o2) && disjointb (tw o2) (tr o1 ++ tw o1).

  Lemma table_to_sem : forall o1 o2, covers -> is_simple o1 = true -> is_simple o2 = true ->
    disjointb (tw o1) (tr o2 ++ tw o2) = true -> disjointb (sem_writes o1) (FP o2) = true.
  Proof.
    intros o1 o2 C S1 S2 D. apply disjointb_intro. intros x H1 H2.
    destruct (C o1 S1) as [_ CW1]. destruct (C o2 S2) as [CR2 CW2].
    eapply (disjointb_spec _ _ D x).
    - eapply subsetb_spec; eauto.
    - unfold FP in H2. rewrite inb_app in *. apply orb_true_iff in H2. apply orb_true_iff. destruct H2 as [H2|H2].
      + left. eapply subsetb_spec; eauto.
      + right. eapply subsetb_spec; eauto.
  Qed.

  Theorem commute_under_table : covers -> forall E X i1 i2 vs st,
    is_simple (i_op i1) = true -> is_simple (i_op i2) = true ->
    indep i1 i2 -> table_disjoint (i_op i1) (i_op i2) = true ->
    res_equiv (run2 E X i1 i2 vs st) (run2 E X i2 i1 vs st).
  Proof.
    intros C E X i1 i2 vs st S1 S2 I D. unfold table_disjoint in D. apply andb_true_iff in D. destruct D as [D1 D2].
    apply commute_simple; auto; eapply table_to_sem; eauto.
  Qed.
End Table.
