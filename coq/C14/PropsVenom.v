(* C14 / PropsVenom.v -- pass-level property theorems about core Venom, against the effect table regenerated from
   vyper/venom/effects.py (GenEffects.v) on every run. *)
From Coq Require Import ZArith List Bool String FMapPositive.
From Verif Require Import Base.Word256 C14.Venom C14.VenomProofs C14.VenomNames C14.GenEffects.
Import ListNotations.
Open Scope Z_scope.

Definition tbl_reads (o : opc) : list eff := gen_reads (opc_name o).
Definition tbl_writes (o : opc) : list eff := gen_writes (opc_name o).

(* every store field an instruction's semantics reads / writes is in its declared effect set *)
Theorem effects_cover_semantics : covers tbl_reads tbl_writes.
Proof. intros o S. destruct o; try discriminate S; vm_compute; split; reflexivity. Qed.
Print Assumptions effects_cover_semantics.

(* two adjacent straight-line instructions without data dependency whose effects.py effect sets do not conflict commute *)
Theorem commute_if_effects_disjoint : forall E X i1 i2 vs st,
  is_simple (i_op i1) = true -> is_simple (i_op i2) = true ->
  indep i1 i2 -> table_disjoint tbl_reads tbl_writes (i_op i1) (i_op i2) = true ->
  res_equiv (run2 E X i1 i2 vs st) (run2 E X i2 i1 vs st).
Proof. exact (commute_under_table tbl_reads tbl_writes effects_cover_semantics). Qed.
Print Assumptions commute_if_effects_disjoint.

(* the second effect kernel (BasePtrAnalysis.get_read_location / get_write_location for STORAGE and TRANSIENT, used by
   dead-store elimination and load elimination): an instruction whose semantics reads / writes (transient) storage -- in
   particular every call-like instruction, through re-entry -- is never classified as not touching it *)
Definition st_only (l : list eff) : list eff :=
  filter (fun e => match e with STORAGE | TRANSIENT => true | _ => false end) l.

Definition bp_ok (o : opc) : bool :=
  subsetb (st_only (sem_reads o)) (gen_bp_reads (opc_name o)) && subsetb (st_only (sem_writes o)) (gen_bp_writes (opc_name o)).

Theorem baseptr_cover_semantics : forall o, is_simple o = true -> bp_ok o = true.
Proof. intros o S. destruct o; try discriminate S; vm_compute; reflexivity. Qed.
Print Assumptions baseptr_cover_semantics.

Theorem vrun_is_deterministic : forall n m E X f st r1 r2,
  vrun n E X f st = r1 -> vrun m E X f st = r2 -> terminated r1 -> terminated r2 -> r1 = r2.
Proof. exact vrun_deterministic. Qed.
Print Assumptions vrun_is_deterministic.

(* non-vacuity: an sstore and an mload satisfy the premises *)
Example commute_nonvacuous :
  let i1 := Inst [] O_sstore [OLit 1; OLit 2] in
  let i2 := Inst [1%positive] O_mload [OLit 64] in
  is_simple (i_op i1) = true /\ is_simple (i_op i2) = true /\ indep i1 i2 /\
  table_disjoint tbl_reads tbl_writes (i_op i1) (i_op i2) = true.
Proof.
  simpl. repeat split; try reflexivity; try (intros v H; simpl in H; tauto).
Qed.

(* the table does not allow moving a storage read across a create, and in the model it must not: a constructor that
   re-enters its creator changes the slot *)
Example create_sload_conflict : table_disjoint tbl_reads tbl_writes O_create O_sload = false.
Proof. vm_compute. reflexivity. Qed.

Definition reentering : oracle := fun o _ s => match o with O_create => Some (7, set_sto s (zset (s_sto s) 0 42)) | _ => None end.

Example create_sload_do_not_commute :
  let E := mkEnv [] [] [] 0 [] in
  let i1 := Inst [1%positive] O_create [OLit 0; OLit 0; OLit 0] in
  let i2 := Inst [2%positive] O_sload [OLit 0] in
  ~ res_equiv (run2 E reentering i1 i2 (PositiveMap.empty Z) store0) (run2 E reentering i2 i1 (PositiveMap.empty Z) store0).
Proof.
  intros E i1 i2 H. vm_compute in H. destruct H as [H _]. specialize (H 2%positive). vm_compute in H. discriminate H.
Qed.
