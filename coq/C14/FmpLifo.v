(* Verified validator for the reclaim ("restore") logic of FmpLoweringPass (vyper/venom/passes/fmp_lowering.py).

   The pass threads the free-memory pointer (FMP) through explicit IR: `%p = dalloca %n` becomes
   `(%p, %fmp) = bump %fmp, ceil32(%n)`, and at "reclaim points" the pass may synthesise a restore
   `%fmp = assign %m` (m a dalloca mark) which frees [m, FMP).  Its soundness argument (docstring of
   `_compute_entry_states`) is a LIFO discipline: a forward dataflow over stacks of marks whose meet at CFG joins is the
   longest common TOP segment.  This file states that discipline as an executable checker over the function AFTER the
   pass plus the pass's own block-entry stacks (the certificate), and an instrumented small-step semantics in which
   every allocation is a ghost region; FmpLifoProofs.v proves that when the checker accepts, every restore that can
   execute (i) never raises the FMP and (ii) frees only regions of the marks the pass declared popped at that restore
   -- in particular never an allocation the dataflow stopped tracking at a join, and never a still tracked one.
   (That the declared-popped marks are dead is the liveness oracle's business: tools/vlib/c14_fmp.py re-derives it
   from the exported LivenessAnalysis / BasePtrAnalysis results.)

   Modelling decisions, all stated in the trusted base:
   * values are unbounded Z and `bump` does not wrap (the EVM runs out of gas long before addresses reach 2^256);
   * any write to the FMP variable other than bump / restore is a layout reset (setfmp, adopted FMP of a publishing
     invoke, fmp_param / initial_fmp): the producer asserts a new frame layout, ghost regions are dropped, exactly as
     the pass clears its state;
   * every other instruction havocs its outputs (over-approximation: covers all opcodes incl. invoke);
   * control flow: any successor of a block may be taken (over-approximates jmp / jnz / djmp).
   Definitions only. *)
From Coq Require Import ZArith Bool List String Lia.
Import ListNotations.
Open Scope string_scope.
Open Scope list_scope.
Open Scope Z_scope.

Inductive foperand := FVar (x : string) | FLit (z : Z).

Inductive finst :=
| FBump (p : string) (sz : foperand)              (* (p, fmp) = bump fmp, sz *)
| FRestore (m : string) (popped : list string)     (* fmp = assign m, synthesised by the pass; popped: marks it popped *)
| FAssign (d : string) (src : foperand)            (* d = assign src (d may be the FMP variable: a reset) *)
| FOther (outs : list string).                     (* any other instruction: outputs havocked *)

Record fblock := { flabel : string; fbody : list finst; fsuccs : list string }.
Definition ffunc := list fblock.   (* head = entry *)

Fixpoint find_block (f : ffunc) (l : string) : option fblock :=
  match f with
  | [] => None
  | b :: r => if String.eqb (flabel b) l then Some b else find_block r l
  end.

(* ---------- abstract side: stacks of marks, TOP FIRST ---------- *)
Definition mem (x : string) (l : list string) : bool := existsb (String.eqb x) l.

(* split Sk at the first occurrence of m: Sk = above ++ m :: below *)
Fixpoint split_at (m : string) (Sk : list string) : option (list string * list string) :=
  match Sk with
  | [] => None
  | a :: r => if String.eqb a m then Some ([], r)
              else match split_at m r with Some (ab, be) => Some (a :: ab, be) | None => None end
  end.

Fixpoint list_eqb (a b : list string) : bool :=
  match a, b with
  | [], [] => true
  | x :: a', y :: b' => String.eqb x y && list_eqb a' b'
  | _, _ => false
  end.

Definition abs_step (F : string) (i : finst) (Sk : list string) : option (list string) :=
  match i with
  | FBump p _ => if String.eqb p F || mem p Sk then None else Some (p :: Sk)
  | FRestore m popped =>
      match split_at m Sk with
      | Some (above, below) => if list_eqb popped (above ++ [m]) && negb (mem m below) then Some below else None
      | None => None
      end
  | FAssign d _ => if String.eqb d F then Some [] else if mem d Sk then None else Some Sk
  | FOther outs => if mem F outs then Some [] else if existsb (fun x => mem x Sk) outs then None else Some Sk
  end.

Fixpoint abs_run (F : string) (is : list finst) (Sk : list string) : option (list string) :=
  match is with
  | [] => Some Sk
  | i :: r => match abs_step F i Sk with Some Sk' => abs_run F r Sk' | None => None end
  end.

(* c is a top segment of Sk *)
Fixpoint is_prefix (c Sk : list string) : bool :=
  match c, Sk with
  | [], _ => true
  | x :: c', y :: Sk' => String.eqb x y && is_prefix c' Sk'
  | _ :: _, [] => false
  end.

Definition cert := list (string * list string).   (* block label -> entry stack (top first) *)
Fixpoint cert_get (c : cert) (l : string) : option (list string) :=
  match c with
  | [] => None
  | (k, v) :: r => if String.eqb k l then Some v else cert_get r l
  end.

Definition block_ok (F : string) (f : ffunc) (c : cert) (b : fblock) : bool :=
  match cert_get c (flabel b) with
  | None => true      (* not certified: must be unreachable, enforced through the successor test below *)
  | Some Sk =>
      match abs_run F (fbody b) Sk with
      | None => false
      | Some Sx =>
          forallb (fun l => match find_block f l, cert_get c l with
                            | Some _, Some cl => is_prefix cl Sx
                            | _, _ => false
                            end) (fsuccs b)
      end
  end.

Definition fmp_check (F : string) (f : ffunc) (c : cert) : bool :=
  match f with
  | [] => false
  | e :: _ => match cert_get c (flabel e) with
              | Some [] => forallb (block_ok F f c) f
              | _ => false
              end
  end.

(* ---------- concrete side: instrumented semantics ---------- *)
Definition env := string -> Z.
Definition upd (e : env) (x : string) (v : Z) : env := fun y => if String.eqb y x then v else e y.
Definition oval (e : env) (o : foperand) : Z := match o with FVar x => e x | FLit z => z end.

(* ghost region: (tag, base, end); tag = Some p: the latest allocation made through mark p *)
Definition region := (option string * Z * Z)%type.
Definition rtag (r : region) := fst (fst r).
Definition rbase (r : region) := snd (fst r).
Definition rend (r : region) := snd r.
Definition anon (p : string) (r : region) : region :=
  match rtag r with
  | Some q => if String.eqb q p then (None, rbase r, rend r) else r
  | None => r
  end.

Definition fstate := (env * list region)%type.

Inductive exec_inst (F : string) : finst -> fstate -> fstate -> Prop :=
| ex_bump : forall p sz e R, 0 <= oval e sz ->
    exec_inst F (FBump p sz) (e, R)
      (upd (upd e p (e F)) F (e F + oval e sz),
       (if 0 <? oval e sz then [(Some p, e F, e F + oval e sz)] else []) ++ map (anon p) R)
| ex_restore : forall m pp e R,
    exec_inst F (FRestore m pp) (e, R) (upd e F (e m), filter (fun r => rend r <=? e m) R)
| ex_assign : forall d src e R,
    exec_inst F (FAssign d src) (e, R) (upd e d (oval e src), if String.eqb d F then [] else R)
| ex_other : forall outs e e' R, (forall x, ~ In x outs -> e' x = e x) ->
    exec_inst F (FOther outs) (e, R) (e', if mem F outs then [] else R).

(* what a user needs from a restore: it lowers the FMP, and every ghost region it cuts into belongs to a mark the pass
   declared popped (and is that mark's LATEST allocation: older ones are anonymous) *)
Definition safe_inst (F : string) (i : finst) (st : fstate) : Prop :=
  match i with
  | FRestore m popped =>
      fst st m <= fst st F /\
      forall r, In r (snd st) -> fst st m < rend r -> exists p, rtag r = Some p /\ In p popped
  | _ => True
  end.

(* configurations: current block, remaining instructions, state *)
Inductive reach (F : string) (f : ffunc) : fblock -> list finst -> fstate -> Prop :=
| reach_init : forall b r e, f = b :: r -> reach F f b (fbody b) (e, [])
| reach_step : forall b i is st st', reach F f b (i :: is) st -> exec_inst F i st st' -> reach F f b is st'
| reach_jump : forall b st l b', reach F f b [] st -> In l (fsuccs b) -> find_block f l = Some b' ->
    reach F f b' (fbody b') st.
