(* Soundness of the affine-folding validator RangeAffine.v *)
From Coq Require Import ZArith NArith Bool List String Lia.
From Verif Require Import Base.Word256 Base.PyInt C14.RangeBase C14.GenRangeClients.
From Verif Require C14.GenRange.
From Verif Require C14.RangeSound.
From Verif Require Import C14.RangeOp C14.RangeClients C14.RangeRefine C14.RangeFix C14.RangeFixProofs C14.RangeElim
  C14.RangeElimProofs C14.RangeAffine.
Import ListNotations.
Import RangeSound.
Open Scope string_scope.
Open Scope Z_scope.

Definition rootval (lv : N -> Z) (c : cenv) (r : option operand) : Z :=
  match r with None => 0 | Some a => oval lv c a end.
Definition nfval (lv : N -> Z) (c : cenv) (p : nform) : Z := (rootval lv c (fst p) + snd p) mod W.

Lemma Wpos : 0 < W. Proof. reflexivity. Qed.
Lemma Wnz : W <> 0. Proof. discriminate. Qed.
Lemma word_mod a : 0 <= a < W -> a mod W = a.
Proof. intros H. apply Z.mod_small. exact H. Qed.

Lemma nf_add_opt_val lv c p1 p2 p : nf_add_opt p1 p2 = Some p ->
  nfval lv c p = (nfval lv c p1 + nfval lv c p2) mod W.
Proof.
  destruct p1 as [r1 k1], p2 as [r2 k2]. unfold nf_add_opt, nfval. cbn [fst snd].
  destruct r1 as [a1|]; destruct r2 as [a2|]; try discriminate; intros H; injection H as <-; cbn [fst snd rootval].
  - rewrite Z.add_0_l. rewrite Zplus_mod_idemp_r. rewrite <- Zplus_mod. f_equal. lia.
  - rewrite Z.add_0_l. rewrite Zplus_mod_idemp_r. rewrite <- Zplus_mod. f_equal. lia.
  - rewrite !Z.add_0_l. rewrite Z.mod_mod by exact Wnz. rewrite <- Zplus_mod. reflexivity.
Qed.
Lemma nf_sub_opt_val lv c p1 p2 p : nf_sub_opt p1 p2 = Some p ->
  nfval lv c p = (nfval lv c p1 - nfval lv c p2) mod W.
Proof.
  destruct p1 as [r1 k1], p2 as [r2 k2]. unfold nf_sub_opt, nfval. cbn [fst snd].
  destruct r2 as [a2|]; try discriminate; intros H; injection H as <-; cbn [fst snd rootval].
  rewrite Z.add_0_l. rewrite Zplus_mod_idemp_r. rewrite <- Zminus_mod. f_equal. lia.
Qed.

Section NF.
Variables (lv : N -> Z) (c : cenv) (F : list fact).
Hypothesis L : lv_ok lv.
Hypothesis C : cenv_ok c.
Hypothesis HF : Forall (fact_holds lv c) F.

Lemma self_val o : 0 <= oval lv c o < W -> nfval lv c (Some o, 0) = oval lv c o.
Proof. intros H. unfold nfval. cbn [fst snd rootval]. rewrite Z.add_0_r. apply word_mod. exact H. Qed.

Lemma nf_sound : forall n o, nfval lv c (nf n F o) = oval lv c o.
Proof.
  induction n as [|n IH]; intros o; destruct o as [v|x|l]; cbn [nf];
    try (unfold nfval; cbn [fst snd rootval oval]; rewrite Z.add_0_l; apply Z.mod_mod; exact Wnz);
    try (apply self_val; cbn [oval]; first [apply C | apply L]).
  assert (SV : nfval lv c (Some (OVar x), 0) = oval lv c (OVar x)) by (apply self_val; cbn [oval]; apply C).
  destruct (find_fact F x) as [[op args]|] eqn:FF; [|exact SV].
  destruct (fact_val lv c F x op args HF FF) as [g [Sg Vg]].
  destruct args as [|a [|a1 [|? ?]]]; try exact SV.
  - destruct (String.eqb op "assign") eqn:E; [|exact SV].
    apply String.eqb_eq in E. subst op.
    unfold sem_fun in Sg. cbn [i_args i_outs i_op] in Sg. destruct (has_label [a]); [discriminate|]. cbn in Sg.
    injection Sg as <-. rewrite IH. symmetry. exact Vg.
  - destruct (String.eqb op "add") eqn:E1.
    + apply String.eqb_eq in E1. subst op.
      unfold sem_fun in Sg. cbn [i_args i_outs i_op] in Sg. destruct (has_label [a; a1]); [discriminate|]. cbn in Sg.
      injection Sg as <-. unfold w_add in Vg.
      destruct (nf_add_opt (nf n F a1) (nf n F a)) as [p|] eqn:NA; cbn [or_self]; [|exact SV].
      rewrite (nf_add_opt_val lv c _ _ _ NA). rewrite !IH. cbn [oval]. symmetry. exact Vg.
    + destruct (String.eqb op "sub") eqn:E2; [|exact SV].
      apply String.eqb_eq in E2. subst op.
      unfold sem_fun in Sg. cbn [i_args i_outs i_op] in Sg. destruct (has_label [a; a1]); [discriminate|]. cbn in Sg.
      injection Sg as <-. unfold w_sub in Vg.
      destruct (nf_sub_opt (nf n F a1) (nf n F a)) as [p|] eqn:NA; cbn [or_self]; [|exact SV].
      rewrite (nf_sub_opt_val lv c _ _ _ NA). rewrite !IH. cbn [oval]. symmetry. exact Vg.
Qed.

Lemma inst_nf_sound n i p g : inst_nf n F i = Some p -> sem_fun lv i = Some g -> g c = nfval lv c p.
Proof.
  unfold inst_nf, sem_fun. destruct (has_label (i_args i)); [discriminate|].
  destruct (i_outs i) as [|o [|? ?]]; try discriminate.
  destruct (existsb (is_var o) (i_args i)); [discriminate|].
  destruct (i_args i) as [|a [|a1 [|? ?]]]; try discriminate.
  - destruct (String.eqb (i_op i) "assign") eqn:E; [|discriminate].
    intros H1 H2. injection H1 as <-. injection H2 as <-. symmetry. apply nf_sound.
  - destruct (String.eqb (i_op i) "assign") eqn:E0.
    { apply String.eqb_eq in E0. rewrite E0. cbn. discriminate. }
    destruct (String.eqb (i_op i) "add") eqn:E1.
    + apply String.eqb_eq in E1. rewrite E1. cbn. intros H1 H2. injection H2 as <-.
      rewrite (nf_add_opt_val lv c _ _ _ H1). rewrite !nf_sound. reflexivity.
    + destruct (String.eqb (i_op i) "sub") eqn:E2; [|discriminate].
      apply String.eqb_eq in E2. rewrite E2. cbn. intros H1 H2. injection H2 as <-.
      rewrite (nf_sub_opt_val lv c _ _ _ H1). rewrite !nf_sound. reflexivity.
Qed.
End NF.

(* ------------------------------------------------------------------ facts along executions (no certificate needed) *)
Lemma step_conc_ok lv i c c' : cenv_ok c -> step_conc lv i c c' -> cenv_ok c'.
Proof.
  intros C [Hsame [Hword _]] x.
  destruct (in_dec N.eq_dec x (i_outs i)) as [I|NI]; [apply Hword; exact I | rewrite Hsame by exact NI; apply C].
Qed.

Lemma reach_facts f lv : forall b k c, reach f lv b k c ->
  cenv_ok c /\ Forall (fact_holds lv c) (facts_of (firstn k (body (nth_block f b)))).
Proof.
  induction 1 as [c C | b k c c' i R IH Hn HS | p c b c' T R IH HT HB HP].
  - split; [exact C | constructor].
  - destruct IH as [C HF]. split; [eapply step_conc_ok; eauto|].
    rewrite (firstn_snoc _ _ _ Hn). rewrite facts_of_snoc. eapply facts_step_sound; eauto.
  - destruct IH as [C _]. split; [eapply phi_assign_ok; eauto | constructor].
Qed.

(* ------------------------------------------------------------------ one replaced instruction *)
Lemma inst_nf_shape n F i p : inst_nf n F i = Some p ->
  exists o, i_outs i = [o] /\ has_label (i_args i) = false /\
    (String.eqb (i_op i) "assign" = true \/ String.eqb (i_op i) "add" = true \/ String.eqb (i_op i) "sub" = true) /\
    forall lv, exists g, sem_fun lv i = Some g.
Proof.
  unfold inst_nf, sem_fun. destruct (has_label (i_args i)) eqn:HL; [discriminate|].
  destruct (i_outs i) as [|o [|? ?]]; try discriminate.
  destruct (existsb (is_var o) (i_args i)); [discriminate|].
  intros H. exists o. split; [reflexivity|]. split; [reflexivity|].
  destruct (i_args i) as [|a [|a1 [|? ?]]]; try discriminate.
  - destruct (String.eqb (i_op i) "assign") eqn:E; [|discriminate]. split; [left; reflexivity|].
    intros lv. eexists. reflexivity.
  - destruct (String.eqb (i_op i) "assign") eqn:E0.
    { apply String.eqb_eq in E0. rewrite E0 in H. cbn in H. discriminate. }
    destruct (String.eqb (i_op i) "add") eqn:E1.
    + split; [right; left; reflexivity|]. intros lv. apply String.eqb_eq in E1. rewrite E1. cbn. eexists. reflexivity.
    + destruct (String.eqb (i_op i) "sub") eqn:E2; [|discriminate].
      split; [right; right; reflexivity|]. intros lv. apply String.eqb_eq in E2. rewrite E2. cbn. eexists. reflexivity.
Qed.

Lemma root_eqb_val lv c r r' : root_eqb r r' = true -> rootval lv c r = rootval lv c r'.
Proof.
  destruct r as [[?|x|l]|], r' as [[?|y|l']|]; cbn; try discriminate; intros H; try reflexivity;
    apply N.eqb_eq in H; subst; reflexivity.
Qed.

Lemma not_assert_op op : (String.eqb op "assign" = true \/ String.eqb op "add" = true \/ String.eqb op "sub" = true) ->
  String.eqb op "assert" = false /\ String.eqb op "jmp" = false /\ String.eqb op "jnz" = false /\ String.eqb op "djmp" = false.
Proof. intros [H|[H|H]]; apply String.eqb_eq in H; subst; repeat split; reflexivity. Qed.

Lemma affine_step lv n F i i' c c' : lv_ok lv -> cenv_ok c -> Forall (fact_holds lv c) F ->
  affine_ok n F i i' = true -> (step_conc lv i c c' <-> step_conc lv i' c c').
Proof.
  intros L C HF H. unfold affine_ok in H.
  destruct (i_outs i) as [|o [|? ?]] eqn:O; try discriminate.
  destruct (i_outs i') as [|o' [|? ?]] eqn:O'; try discriminate.
  apply andb_prop in H as [HO H]. apply N.eqb_eq in HO. subst o'.
  destruct (inst_nf n F i) as [p|] eqn:N1; [|discriminate].
  destruct (inst_nf n F i') as [p'|] eqn:N2; [|discriminate].
  apply andb_prop in H as [HR HK]. apply Z.eqb_eq in HK.
  destruct (inst_nf_shape _ _ _ _ N1) as [o1 [O1 [_ [OP1 SF1]]]].
  destruct (inst_nf_shape _ _ _ _ N2) as [o2 [O2 [_ [OP2 SF2]]]].
  destruct (SF1 lv) as [g S1]. destruct (SF2 lv) as [g' S2].
  assert (EQ : g c = g' c).
  { rewrite (inst_nf_sound lv c F L C HF n i p g N1 S1). rewrite (inst_nf_sound lv c F L C HF n i' p' g' N2 S2).
    unfold nfval. rewrite (root_eqb_val lv c _ _ HR). rewrite HK. reflexivity. }
  destruct (not_assert_op _ OP1) as [A1 _]. destruct (not_assert_op _ OP2) as [A2 _].
  unfold step_conc, assert_passes. rewrite O, O', S1, S2, A1, A2.
  split; intros [H1 [H2 [H3 _]]]; (split; [exact H1|]; split; [exact H2|]; split; [|discriminate]).
  - intros g0 o0 G0 OO. injection G0 as <-. rewrite <- EQ. apply (H3 g o0 eq_refl OO).
  - intros g0 o0 G0 OO. injection G0 as <-. rewrite EQ. apply (H3 g' o0 eq_refl OO).
Qed.

Lemma affine_no_targets lv n F i i' c : affine_ok n F i i' = true -> targets lv i c = [] /\ targets lv i' c = [].
Proof.
  intros H. unfold affine_ok in H.
  destruct (i_outs i) as [|o [|? ?]]; try discriminate. destruct (i_outs i') as [|o' [|? ?]]; try discriminate.
  apply andb_prop in H as [_ H].
  destruct (inst_nf n F i) as [p|] eqn:N1; [|discriminate]. destruct (inst_nf n F i') as [p'|] eqn:N2; [|discriminate].
  destruct (inst_nf_shape _ _ _ _ N1) as [_ [_ [_ [OP1 _]]]]. destruct (inst_nf_shape _ _ _ _ N2) as [_ [_ [_ [OP2 _]]]].
  destruct (not_assert_op _ OP1) as [_ [J1 [J2 J3]]]. destruct (not_assert_op _ OP2) as [_ [K1 [K2 K3]]].
  unfold targets. rewrite J1, J2, J3, K1, K2, K3. split; reflexivity.
Qed.

(* ------------------------------------------------------------------ structure *)
Definition arel (n : nat) (F : list fact) (i i' : inst) : Prop := i = i' \/ affine_ok n F i i' = true.

Lemma aff_body_len : forall l l' n F, aff_body n F l l' = true -> List.length l = List.length l'.
Proof.
  induction l as [|i t IH]; intros [|i' t'] n F H; cbn in H; try discriminate; [reflexivity|].
  apply andb_prop in H as [_ H]. cbn. f_equal. eapply IH; eauto.
Qed.

Lemma aff_body_nth : forall l l' n F k i',
  aff_body n F l l' = true -> nth_error l' k = Some i' ->
  exists i, nth_error l k = Some i /\ arel n (fold_left facts_step (firstn k l) F) i i'.
Proof.
  induction l as [|i t IH]; intros [|j t'] n F k i' H Hn; cbn in H; try discriminate.
  { destruct k; discriminate. }
  apply andb_prop in H as [H1 H2].
  destruct k as [|k].
  - cbn in Hn. injection Hn as <-. exists i. split; [reflexivity|]. cbn [firstn fold_left].
    apply orb_prop in H1 as [H1|H1]; [left; apply inst_eqb_eq; exact H1 | right; exact H1].
  - cbn in Hn. destruct (IH t' n (facts_step F i) k i' H2 Hn) as [i0 [A B]]. exists i0. split; assumption.
Qed.

Lemma aff_body_nth_conv : forall l l' n F k i,
  aff_body n F l l' = true -> nth_error l k = Some i ->
  exists i', nth_error l' k = Some i' /\ arel n (fold_left facts_step (firstn k l) F) i i'.
Proof.
  induction l as [|j t IH]; intros [|j' t'] n F k i H Hn; cbn in H; try discriminate.
  { destruct k; discriminate. }
  apply andb_prop in H as [H1 H2].
  destruct k as [|k].
  - cbn in Hn. injection Hn as ->. exists j'. split; [reflexivity|]. cbn [firstn fold_left].
    apply orb_prop in H1 as [H1|H1]; [left; apply inst_eqb_eq; exact H1 | right; exact H1].
  - cbn in Hn. destruct (IH t' n (facts_step F j) k i H2 Hn) as [i0 [A B]]. exists i0. split; assumption.
Qed.

Lemma nth_error_last {A} (l : list A) d : l <> [] -> nth_error l (List.length l - 1) = Some (last l d).
Proof.
  induction l as [|x t IH]; [congruence|]. intros _. destruct t as [|y t']; [reflexivity|].
  cbn [List.length]. replace (Datatypes.S (Datatypes.S (List.length t')) - 1)%nat with (Datatypes.S (List.length (y :: t') - 1)) by (cbn; lia).
  cbn [nth_error]. rewrite IH by discriminate. reflexivity.
Qed.

Section Main.
Variables (f f' : func) (lv : N -> Z).
Hypothesis L : lv_ok lv.
Hypothesis AC : affine_check f f' = true.
Let fuel := Datatypes.S (List.length (List.concat f)).

Lemma ac_len : List.length f = List.length f'.
Proof. pose proof AC as H. unfold affine_check in H. apply andb_prop in H as [H _]. apply Nat.eqb_eq. exact H. Qed.

Lemma ac_block b : aff_block fuel (nth_block f b, nth_block f' b) = true.
Proof.
  destruct (Nat.ltb (N.to_nat b) (List.length f)) eqn:LT.
  - apply Nat.ltb_lt in LT. pose proof AC as H. unfold affine_check in H. apply andb_prop in H as [_ H].
    rewrite forallb_forall in H. apply H.
    destruct (nth_error f (N.to_nat b)) as [blk|] eqn:N1; [|apply nth_error_None in N1; lia].
    destruct (nth_error f' (N.to_nat b)) as [blk'|] eqn:N2; [|apply nth_error_None in N2; rewrite <- ac_len in N2; lia].
    unfold nth_block. rewrite (nth_error_nth _ _ _ N1), (nth_error_nth _ _ _ N2).
    apply nth_error_In with (n := N.to_nat b).
    clear -N1 N2. revert N1 N2. generalize (N.to_nat b). generalize f'. generalize f. clear.
    intros l. induction l as [|x t IH]; intros g n N1 N2; [destruct n; discriminate|].
    destruct g as [|y g']; [destruct n; discriminate|].
    destruct n; cbn in *.
    + injection N1 as ->. injection N2 as ->. reflexivity.
    + apply IH; assumption.
  - apply Nat.ltb_ge in LT. unfold nth_block. rewrite (nth_overflow f [] LT).
    rewrite (nth_overflow f' []) by (rewrite <- ac_len; exact LT). reflexivity.
Qed.
Lemma ac_phis b : leading_phis (nth_block f b) = leading_phis (nth_block f' b).
Proof. pose proof (ac_block b) as H. unfold aff_block in H. cbn [fst snd] in H. apply andb_prop in H as [H _]. apply phis_eqb_eq. exact H. Qed.
Lemma ac_body b : aff_body fuel [] (body (nth_block f b)) (body (nth_block f' b)) = true.
Proof. pose proof (ac_block b) as H. unfold aff_block in H. cbn [fst snd] in H. apply andb_prop in H as [_ H]. exact H. Qed.

(* terminators coincide whenever one of them has a jump target *)
Lemma ac_term p T c b : term_of (nth_block f p) = Some T -> In b (targets lv T c) -> term_of (nth_block f' p) = Some T.
Proof.
  intros HT HB. rewrite term_of_last in HT |- *.
  rewrite (block_split (nth_block f p)) in HT. rewrite (block_split (nth_block f' p)). rewrite <- (ac_phis p).
  pose proof (ac_body p) as EB. pose proof (aff_body_len _ _ _ _ EB) as LEN.
  destruct (body (nth_block f p)) as [|x t] eqn:B0.
  - destruct (body (nth_block f' p)) as [|? ?] eqn:B'; [|discriminate]. exact HT.
  - destruct (body (nth_block f' p)) as [|x' t'] eqn:B'; [discriminate|].
    destruct (leading_phis (nth_block f p) ++ x :: t)%list eqn:Z1; [destruct (leading_phis (nth_block f p)); discriminate|].
    destruct (leading_phis (nth_block f p) ++ x' :: t')%list eqn:Z2; [destruct (leading_phis (nth_block f p)); discriminate|].
    rewrite <- Z1 in HT. rewrite <- Z2. rewrite last_app_cons in HT |- *. injection HT as HT.
    pose proof (nth_error_last (x :: t) (mkI "" [] []) ltac:(discriminate)) as NL.
    destruct (aff_body_nth_conv _ _ _ _ _ _ EB NL) as [i' [A [EQ|AO]]].
    + rewrite LEN in A. rewrite (nth_error_last (x' :: t') (mkI "" [] []) ltac:(discriminate)) in A.
      injection A as A. f_equal. etransitivity; [exact A|]. etransitivity; [symmetry; exact EQ | exact HT].
    + destruct (affine_no_targets lv _ _ _ _ c AO) as [T0 _].
      assert (TT : targets lv T c = []) by (rewrite <- HT; exact T0). rewrite TT in HB. destruct HB.
Qed.
Lemma ac_term_conv p T c b : term_of (nth_block f' p) = Some T -> In b (targets lv T c) -> term_of (nth_block f p) = Some T.
Proof.
  intros HT HB. rewrite term_of_last in HT |- *.
  rewrite (block_split (nth_block f' p)) in HT. rewrite (block_split (nth_block f p)). rewrite (ac_phis p).
  pose proof (ac_body p) as EB. pose proof (aff_body_len _ _ _ _ EB) as LEN.
  destruct (body (nth_block f' p)) as [|x' t'] eqn:B'.
  - destruct (body (nth_block f p)) as [|? ?] eqn:B0; [|discriminate]. exact HT.
  - destruct (body (nth_block f p)) as [|x t] eqn:B0; [discriminate|].
    destruct (leading_phis (nth_block f' p) ++ x' :: t')%list eqn:Z1; [destruct (leading_phis (nth_block f' p)); discriminate|].
    destruct (leading_phis (nth_block f' p) ++ x :: t)%list eqn:Z2; [destruct (leading_phis (nth_block f' p)); discriminate|].
    rewrite <- Z1 in HT. rewrite <- Z2. rewrite last_app_cons in HT |- *. injection HT as HT.
    pose proof (nth_error_last (x' :: t') (mkI "" [] []) ltac:(discriminate)) as NL.
    destruct (aff_body_nth _ _ _ _ _ _ EB NL) as [i1 [A [EQ|AO]]].
    + rewrite <- LEN in A. rewrite (nth_error_last (x :: t) (mkI "" [] []) ltac:(discriminate)) in A.
      injection A as A. f_equal. etransitivity; [exact A|]. etransitivity; [exact EQ | exact HT].
    + destruct (affine_no_targets lv _ _ _ _ c AO) as [_ T0].
      assert (TT : targets lv T c = []) by (rewrite <- HT; exact T0). rewrite TT in HB. destruct HB.
Qed.

Theorem affine_reach : forall b k c, reach f' lv b k c -> reach f lv b k c.
Proof.
  induction 1 as [c C | b k c c' i' R IH Hn HS | p c b c' T' R IH HT HB HP].
  - constructor. exact C.
  - destruct (aff_body_nth _ _ _ _ _ _ (ac_body b) Hn) as [i [A REL]].
    eapply r_step; [exact IH | exact A |].
    destruct REL as [->|AO]; [exact HS|].
    destruct (reach_facts f lv b k c IH) as [C HF].
    apply (affine_step lv _ _ _ _ c c' L C HF AO). exact HS.
  - rewrite <- (aff_body_len _ _ _ _ (ac_body p)) in IH.
    eapply r_jump; [exact IH | eapply ac_term_conv; eauto | exact HB |]. rewrite (ac_phis b). exact HP.
Qed.

Theorem affine_reach_conv : forall b k c, reach f lv b k c -> reach f' lv b k c.
Proof.
  induction 1 as [c C | b k c c' i R IH Hn HS | p c b c' T R IH HT HB HP].
  - constructor. exact C.
  - destruct (aff_body_nth_conv _ _ _ _ _ _ (ac_body b) Hn) as [i' [A REL]].
    eapply r_step; [exact IH | exact A |].
    destruct REL as [<-|AO]; [exact HS|].
    destruct (reach_facts f lv b k c R) as [C HF].
    apply (affine_step lv _ _ _ _ c c' L C HF AO). exact HS.
  - rewrite (aff_body_len _ _ _ _ (ac_body p)) in IH.
    eapply r_jump; [exact IH | eapply ac_term; eauto | exact HB |]. rewrite <- (ac_phis b). exact HP.
Qed.
End Main.
