(* C14/C03: every range-based rule that deletes or folds a check is justified for every word in the range.
   The decision code is sliced from the passes and translated on every run (GenRangeClients.v). *)
From Coq Require Import ZArith Bool List String Lia.
From Verif Require Import Base.Word256 Base.PyInt C14.RangeBase C14.GenRangeClients C14.RangeSound C14.RangeClients.
Open Scope Z_scope.

Theorem range_clients_sound :
  (forall xr yr a b, wf xr -> wf yr -> mem a xr -> mem b yr ->
     add_elim_cond xr yr = Ok true -> w_iszero (w_lt (w_add a b) a) = 1) /\
  (forall xr yr a b, wf xr -> wf yr -> mem a xr -> mem b yr ->
     sub_elim_cond xr yr = Ok true -> w_iszero (w_gt (w_sub a b) a) = 1) /\
  (forall r a, wf r -> mem a r -> _range_excludes_zero r = Ok true -> a <> 0) /\
  (forall n r a, 0 <= n < 31 -> wf r -> mem a r -> signextend_noop_cond n r = Ok true -> w_signextend n a = a) /\
  (forall lit r is_gt signed lf a k, - HALF <= lit <= W - 1 -> wf r -> mem a r ->
     range_cmp_kernel lit r is_gt signed lf = Ok (Some k) ->
     k = if lf then cmp_word is_gt signed (lit mod W) a else cmp_word is_gt signed a (lit mod W)).
Proof.
  repeat split.
  exact add_elim_sound. exact sub_elim_sound. exact excludes_zero_sound. exact signextend_noop_sound. exact range_cmp_sound.
Qed.
Print Assumptions range_clients_sound.

(* non-vacuity: the conditions do fire on non-trivial ranges *)
Example clients_nonvacuous :
  add_elim_cond (IV 0 100) (IV 5 7) = Ok true /\ sub_elim_cond (IV 50 100) (IV 5 50) = Ok true /\
  _range_excludes_zero (IV 1 9) = Ok true /\ signextend_noop_cond 0 (IV (-128) 127) = Ok true /\
  range_cmp_kernel 200 (IV 0 100) true false true = Ok (Some 1).
Proof. repeat split; reflexivity. Qed.
