(* C14/C03: every range-based rule that deletes or folds a check is justified for every word in the range.
   The decision code is sliced from the passes and translated on every run (GenRangeClients.v). *)
From Coq Require Import ZArith Bool List String Lia.
From Verif Require Import Base.Word256 Base.PyInt C14.RangeBase C14.GenRangeClients C14.RangeSound C14.RangeClients.
Open Scope Z_scope.

Theorem range_clients_sound :
  (forall xr yr a b, wf xr -> wf yr -> mem a xr -> mem b yr ->
     add_elim_cond xr yr = Ok true -> w_iszero (w_lt (w_add a b) a) = 1) /\
  (forall xr yr a b, wf xr -> wf yr -> mem a xr -> mem b yr ->
     sub_elim_cond xr yr = Ok true -> w_iszero (w_gt (w_sub a b) a) = 1) /\
  (forall r a, wf r -> mem a r -> _range_excludes_zero r = Ok true -> a <> 0) /\
  (forall n r a, 0 <= n < 31 -> wf r -> mem a r -> signextend_noop_cond n r = Ok true -> w_signextend n a = a) /\
  (forall lit r is_gt signed lf a k, - HALF <= lit <= W - 1 -> wf r -> mem a r ->
     range_cmp_kernel lit r is_gt signed lf = Ok (Some k) ->
     k = if lf then cmp_word is_gt signed (lit mod W) a else cmp_word is_gt signed a (lit mod W)).
Proof.
  repeat split.
  exact add_elim_sound. exact sub_elim_sound. exact excludes_zero_sound. exact signextend_noop_sound. exact range_cmp_sound.
Qed.
Print Assumptions range_clients_sound.

(* non-vacuity: the conditions do fire on non-trivial ranges *)
Example clients_nonvacuous :
  add_elim_cond (IV 0 100) (IV 5 7) = Ok true /\ sub_elim_cond (IV 50 100) (IV 5 50) = Ok true /\
  _range_excludes_zero (IV 1 9) = Ok true /\ signextend_noop_cond 0 (IV (-128) 127) = Ok true /\
  range_cmp_kernel 200 (IV 0 100) true false true = Ok (Some 1).
Proof. repeat split; reflexivity. Qed.

From Verif Require Import C14.RangeRefine.

(* branch refinement (variable_range/analysis.py): a word that takes the branch stays in the refined range *)
Theorem range_refinement_sound :
  (forall cur lit is_true a R, - HALF <= lit <= W - 1 -> wf cur -> 0 <= a < W -> mem a cur ->
     (w_lt a (lit mod W) =? 1) = is_true -> refine_compare_left cur lit "lt" is_true = Ok (Some R) -> mem a R /\ wf R) /\
  (forall cur lit is_true a R, - HALF <= lit <= W - 1 -> wf cur -> 0 <= a < W -> mem a cur ->
     (w_gt a (lit mod W) =? 1) = is_true -> refine_compare_left cur lit "gt" is_true = Ok (Some R) -> mem a R /\ wf R) /\
  (forall cur lit is_true a R, - HALF <= lit <= W - 1 -> wf cur -> 0 <= a < W -> mem a cur ->
     (w_slt a (lit mod W) =? 1) = is_true -> refine_compare_left cur lit "slt" is_true = Ok (Some R) -> mem a R /\ wf R) /\
  (forall cur lit is_true a R, - HALF <= lit <= W - 1 -> wf cur -> 0 <= a < W -> mem a cur ->
     (w_sgt a (lit mod W) =? 1) = is_true -> refine_compare_left cur lit "sgt" is_true = Ok (Some R) -> mem a R /\ wf R) /\
  (forall cur lit is_true a R, - HALF <= lit <= W - 1 -> wf cur -> 0 <= a < W -> mem a cur ->
     (w_lt (lit mod W) a =? 1) = is_true -> refine_compare_right cur lit "lt" is_true = Ok (Some R) -> mem a R /\ wf R) /\
  (forall cur lit is_true a R, - HALF <= lit <= W - 1 -> wf cur -> 0 <= a < W -> mem a cur ->
     (w_gt (lit mod W) a =? 1) = is_true -> refine_compare_right cur lit "gt" is_true = Ok (Some R) -> mem a R /\ wf R) /\
  (forall cur lit is_true a R, - HALF <= lit <= W - 1 -> wf cur -> 0 <= a < W -> mem a cur ->
     (w_slt (lit mod W) a =? 1) = is_true -> refine_compare_right cur lit "slt" is_true = Ok (Some R) -> mem a R /\ wf R) /\
  (forall cur lit is_true a R, - HALF <= lit <= W - 1 -> wf cur -> 0 <= a < W -> mem a cur ->
     (w_sgt (lit mod W) a =? 1) = is_true -> refine_compare_right cur lit "sgt" is_true = Ok (Some R) -> mem a R /\ wf R) /\
  (forall cur a R, wf cur -> 0 <= a < W -> mem a cur -> a <> 0 ->
     refine_iszero_false cur = Ok (Some R) -> mem a R /\ wf R).
Proof.
  repeat split.
  all: first [ exact refine_left_lt_sound | exact refine_left_gt_sound | exact refine_left_slt_sound
             | exact refine_left_sgt_sound | exact refine_right_lt_sound | exact refine_right_gt_sound
             | exact refine_right_slt_sound | exact refine_right_sgt_sound | exact refine_iszero_false_sound
             | idtac ].
  all: intros; first
    [ eapply refine_left_lt_sound; eassumption | eapply refine_left_gt_sound; eassumption
    | eapply refine_left_slt_sound; eassumption | eapply refine_left_sgt_sound; eassumption
    | eapply refine_right_lt_sound; eassumption | eapply refine_right_gt_sound; eassumption
    | eapply refine_right_slt_sound; eassumption | eapply refine_right_sgt_sound; eassumption
    | eapply refine_iszero_false_sound; eassumption ].
Qed.
Print Assumptions range_refinement_sound.

Example refinement_nonvacuous :
  refine_compare_left (IV 0 255) 10 "lt" true = Ok (Some (IV 0 9)) /\
  refine_compare_left (IV (-128) 127) 5 "slt" false = Ok (Some (IV 5 127)) /\
  refine_iszero_false (IV 0 7) = Ok (Some (IV 1 7)).
Proof. repeat split; reflexivity. Qed.

(* eq refinement, both operands variables (variable_range/analysis.py:_apply_eq/_eq_range) *)
Theorem range_eq_refinement_sound : forall A B a R,
  wf A -> wf B -> 0 <= a < W -> mem a A -> mem a B ->
  refine_eq_vars A B = Ok (Some R) -> mem a R /\ wf R.
Proof. exact refine_eq_vars_sound. Qed.
Print Assumptions range_eq_refinement_sound.

(* the representation guard is necessary: intersecting the bounds of a signed-form and an unsigned-form range loses the
   word 2^256-2 (= -2), which both denote.  This was the behaviour of /repo before the fix (replayed end to end: a
   `slt %a, 0` folded to 0 on a path where %a = -2). *)
Theorem range_eq_intersect_unguarded_refuted :
  exists A B a, wf A /\ wf B /\ 0 <= a < W /\ mem a A /\ mem a B /\ ~ mem a (vr_intersect A B).
Proof.
  exists (IV (-128) 127), (IV 0 (W - 2)), (W - 2).
  unfold wf, mem. cbn [vr_intersect]. unfold vr_iv.
  repeat split; try (rewrite ?RangeSound.W_val, ?RangeSound.HALF_val; lia).
  - exists (-2). split; [lia | reflexivity].
  - exists (W - 2). split; [rewrite RangeSound.W_val; lia | reflexivity].
  - replace (Z.max (-128) 0 >? Z.min 127 (W - 2)) with false by reflexivity.
    intros [v [Hv E]]. replace (Z.max (-128) 0) with 0 in Hv by reflexivity. replace (Z.min 127 (W - 2)) with 127 in Hv by reflexivity.
    rewrite Z.mod_small in E by (rewrite RangeSound.W_val; lia). rewrite RangeSound.W_val in E. lia.
Qed.
Print Assumptions range_eq_intersect_unguarded_refuted.

Example eq_refinement_nonvacuous :
  refine_eq_vars (IV 0 255) (IV 10 1000) = Ok (Some (IV 10 255)) /\
  refine_eq_vars (IV (-128) 127) (IV (-5) 5) = Ok (Some (IV (-5) 5)) /\
  refine_eq_vars (IV (-128) 127) (IV 0 (W - 2)) = Ok None.
Proof. repeat split; reflexivity. Qed.
