(* C14 / VenomCallSim.v -- theorems and simulation toolkit for the call semantics of VenomCall.v.

   * crun_fuel_mono / crun_deterministic: a terminated run of a context does not depend on the fuel.
   * cexec_inst_factor / cexec_inst_r_sim: an instruction (including invoke / ret) depends on the variable map only through
     its resolved operands; related call handlers give related steps.
   * fn_sim / ctx_sim: a per-function simulation (an invariant on the two variable maps that every pair of corresponding
     blocks preserves, for ANY pair of related call handlers) composes: if every function of two contexts is related to its
     counterpart by some fn_sim, then the runs of the contexts are related (`Robs`: same way of ending, same data, same store
     unless the run reverts).  fn_sim_refl: an unchanged function is related to itself.
   This is what makes a validator for one function sound in every calling context. *)
From Coq Require Import ZArith List Bool FMapPositive Lia PeanoNat.
From Verif Require Import Base.Word256 C14.Venom C14.VenomProofs C14.VenomSim C14.VenomCall.
Import ListNotations.
Open Scope Z_scope.

(* ---------------------------------------------------------------- fuel *)
Definition cterminated (r : chalt * store) : Prop := fst r <> CHalt (HStuck EFuel).
Definition tstep (r : cstep) : Prop := match r with CStop (CHalt (HStuck EFuel)) _ => False | _ => True end.
Definition kle (K1 K2 : callh) : Prop := forall g v s, cterminated (K1 g v s) -> K2 g v s = K1 g v s.

Lemma cexec_inst_kle : forall E X K1 K2 i vs st, kle K1 K2 -> tstep (cexec_inst E X K1 i vs st) ->
  cexec_inst E X K2 i vs st = cexec_inst E X K1 i vs st.
Proof.
  intros E X K1 K2 i vs st H T. unfold cexec_inst in *.
  destruct (is_invoke (i_op i)); auto.
  destruct (i_args i) as [|[z|v|g] rest]; auto.
  destruct (eval_ops vs rest) as [vals|]; auto.
  destruct (K1 g vals st) as [[h|rv] st'] eqn:EK.
  - assert (CT : cterminated (K1 g vals st)).
    { rewrite EK. unfold cterminated. simpl. intro Q. inversion Q. subst. simpl in T. contradiction. }
    rewrite (H g vals st CT), EK. reflexivity.
  - assert (CT : cterminated (K1 g vals st)) by (rewrite EK; unfold cterminated; simpl; discriminate).
    rewrite (H g vals st CT), EK. reflexivity.
Qed.

Lemma cexec_insts_kle : forall E X K1 K2 l vs st, kle K1 K2 -> tstep (cexec_insts E X K1 l vs st) ->
  cexec_insts E X K2 l vs st = cexec_insts E X K1 l vs st.
Proof.
  intros E X K1 K2. induction l as [|i r IH]; intros vs st H T; simpl in *; auto.
  assert (TI : tstep (cexec_inst E X K1 i vs st)).
  { destruct (cexec_inst E X K1 i vs st) as [v s|l v s|h s]; simpl; auto. }
  rewrite (cexec_inst_kle E X K1 K2 i vs st H TI).
  destruct (cexec_inst E X K1 i vs st); auto.
Qed.

Lemma crun_from_S : forall n E X C f cur prev vs st,
  crun_from (S n) E X C f cur prev vs st =
  match PositiveMap.find cur (f_blocks f) with
  | None => (CHalt (HStuck EBadLabel), st)
  | Some insts =>
      match cblock_res E X (call n E X C) prev insts vs st with
      | CJump l vs2 st2 => crun_from n E X C f l cur vs2 st2
      | CStop h st2 => (h, st2)
      | CNext _ st2 => (CHalt (HStuck EFallthrough), st2)
      end
  end.
Proof. reflexivity. Qed.

Lemma crun_from_mono : forall n E X C f cur prev vs st r,
  crun_from n E X C f cur prev vs st = r -> cterminated r -> forall k, crun_from (n + k) E X C f cur prev vs st = r.
Proof.
  induction n as [|n IH]; intros E X C f cur prev vs st r H T k.
  - simpl in H. subst r. exfalso. apply T. reflexivity.
  - replace (S n + k)%nat with (S (n + k)) by lia. rewrite crun_from_S in *.
    destruct (PositiveMap.find cur (f_blocks f)) as [insts|]; auto.
    assert (KL : kle (call n E X C) (call (n + k) E X C)).
    { intros g v s CT. unfold call in *. destruct (PositiveMap.find g C) as [fg|]; auto. }
    unfold cblock_res in *. destruct (exec_phis prev insts vs vs) as [[vs1 rest]|]; auto.
    assert (TS : tstep (cexec_insts E X (call n E X C) rest vs1 st)).
    { destruct (cexec_insts E X (call n E X C) rest vs1 st) as [v s|l v s|h s] eqn:EQ; simpl; auto.
      destruct h as [[| | | |e]|]; auto. destruct e; auto. subst r. apply T. reflexivity. }
    rewrite (cexec_insts_kle E X _ _ rest vs1 st KL TS).
    destruct (cexec_insts E X (call n E X C) rest vs1 st); auto.
Qed.

Theorem crun_fuel_mono : forall n k E X C f st r, crun n E X C f st = r -> cterminated r -> crun (n + k) E X C f st = r.
Proof. intros. unfold crun in *. apply crun_from_mono; assumption. Qed.

Theorem crun_deterministic : forall n m E X C f st r1 r2,
  crun n E X C f st = r1 -> crun m E X C f st = r2 -> cterminated r1 -> cterminated r2 -> r1 = r2.
Proof.
  intros n m E X C f st r1 r2 H1 H2 T1 T2.
  destruct (Nat.le_ge_cases n m) as [L|L].
  - replace m with (n + (m - n))%nat in H2 by lia. rewrite (crun_fuel_mono n (m - n) E X C f st r1 H1 T1) in H2. assumption.
  - replace n with (m + (n - m))%nat in H1 by lia. rewrite (crun_fuel_mono m (n - m) E X C f st r2 H2 T2) in H1. symmetry. assumption.
Qed.

(* ---------------------------------------------------------------- resolved operands *)
Lemma map_but_last : forall {A B} (g : A -> B) l, map g (but_last l) = but_last (map g l).
Proof.
  intros A B g. induction l as [|x t IH]; simpl; auto. destruct t as [|y t']; simpl; auto. simpl in IH. rewrite IH. reflexivity.
Qed.

Definition cexec_inst_r (E : env) (X : oracle) (K : callh) (op : opc) (outs : list positive) (ra : list rarg) (vs : vmap) (st : store)
  : cstep :=
  if is_invoke op then
    match ra with
    | RLab g :: rest =>
        match rvals rest with
        | Some vals =>
            match K g vals st with
            | (CRet rv, st') =>
                match bind_outs vs outs rv with
                | Some vs' => CNext vs' st'
                | None => CStop (CHalt (HStuck EArity)) st'
                end
            | (CHalt h, st') => CStop (CHalt h) st'
            end
        | None => CStop (CHalt (HStuck EUndef)) st
        end
    | _ => CStop (CHalt (HStuck EArity)) st
    end
  else if is_ret op then
    match rvals (but_last ra) with
    | Some vals => CStop (CRet vals) st
    | None => CStop (CHalt (HStuck EUndef)) st
    end
  else lift (exec_inst_r E X op outs ra vs st).

Lemma cexec_inst_factor : forall E X K i vs st,
  cexec_inst E X K i vs st = cexec_inst_r E X K (i_op i) (i_outs i) (map (resolve vs) (i_args i)) vs st.
Proof.
  intros E X K [outs op args] vs st. unfold cexec_inst, cexec_inst_r. simpl.
  destruct (is_invoke op).
  - destruct args as [|[z|v|g] rest]; simpl; auto. rewrite eval_ops_rvals. reflexivity.
  - destruct (is_ret op).
    + rewrite eval_ops_rvals, map_but_last. reflexivity.
    + rewrite (exec_inst_factor E X (Inst outs op args) vs st). reflexivity.
Qed.

(* ---------------------------------------------------------------- related results *)
Definition cstk (r : cstep) : Prop := match r with CStop (CHalt (HStuck _)) _ => True | _ => False end.
Definition rstuck (r : chalt * store) : Prop := match fst r with CHalt (HStuck _) => True | _ => False end.
Definition cdiscards (h : chalt) : bool := match h with CHalt (HRevert _) | CHalt HInvalid => true | _ => false end.

(* same way of ending and data; same store unless the run reverted (a reverted store is discarded) *)
Definition Robs (ra rb : chalt * store) : Prop := fst ra = fst rb /\ (snd ra = snd rb \/ cdiscards (fst rb) = true).

Definition rel3 (P : Prop) (rb ra : chalt * store) : Prop := rstuck rb \/ (P /\ rstuck ra) \/ Robs ra rb.

Definition krel (P : Prop) (Kb Ka : callh) : Prop := forall g vals st, rel3 P (Kb g vals st) (Ka g vals st).

Definition csim_step (U : positive -> bool) (rb ra : cstep) : Prop :=
  match rb, ra with
  | CNext vb s, CNext va s' => s = s' /\ agree U va vb
  | CJump l vb s, CJump l' va s' => l = l' /\ s = s' /\ agree U va vb
  | CStop h s, CStop h' s' => h = h' /\ (s = s' \/ cdiscards h = true)
  | _, _ => False
  end.

Definition sim3 (P : Prop) (U : positive -> bool) (rb ra : cstep) : Prop := cstk rb \/ (P /\ cstk ra) \/ csim_step U rb ra.

Lemma lift_sim : forall U rb ra, sim_step U rb ra -> csim_step U (lift rb) (lift ra).
Proof.
  intros U [vb s|l vb s|h s] [va s'|l' va s'|h' s'] H; simpl in *; try contradiction; auto.
  destruct H as [-> ->]. auto.
Qed.

Lemma cexec_inst_r_sim : forall P U E X Kb Ka op outs ra vb va st, krel P Kb Ka -> agree U va vb ->
  sim3 P U (cexec_inst_r E X Kb op outs ra vb st) (cexec_inst_r E X Ka op outs ra va st).
Proof.
  intros P U E X Kb Ka op outs ra vb va st KR A. unfold cexec_inst_r.
  destruct (is_invoke op).
  - destruct ra as [|[g|v] rest]; try (left; exact I).
    destruct (rvals rest) as [vals|]; [|left; exact I].
    destruct (KR g vals st) as [S|[[T S]|[HE SE]]].
    + left. destruct (Kb g vals st) as [[h|rv] st']; unfold rstuck in S; simpl in *; try contradiction. destruct h; try contradiction. exact I.
    + right. left. split; auto. destruct (Ka g vals st) as [[h|rv] st']; unfold rstuck in S; simpl in *; try contradiction.
      destruct h; try contradiction. exact I.
    + destruct (Kb g vals st) as [hb sb]; destruct (Ka g vals st) as [ha sa]; simpl in *. subst ha.
      destruct hb as [h|rv].
      * right. right. simpl. split; auto. destruct SE as [->|D]; auto.
      * destruct SE as [->|D]; [|discriminate D].
        destruct (bind_outs vb outs rv) as [vb'|] eqn:B.
        -- destruct (bind_agree U _ _ va vb vb' A B) as [va' [B' A']]. rewrite B'. right. right. simpl. auto.
        -- left. exact I.
  - destruct (is_ret op).
    + destruct (rvals (but_last ra)); [right; right; simpl; auto|left; exact I].
    + right. right. apply lift_sim. apply exec_inst_r_sim. assumption.
Qed.

(* the same instruction, maps agreeing on its operands *)
Lemma cexec_inst_sim : forall P U E X Kb Ka i vb va st, krel P Kb Ka -> agree U va vb -> uses_in U (i_args i) = true ->
  sim3 P U (cexec_inst E X Kb i vb st) (cexec_inst E X Ka i va st).
Proof.
  intros. rewrite !cexec_inst_factor. rewrite (resolve_agree U va vb (i_args i)); auto. apply cexec_inst_r_sim; assumption.
Qed.

Lemma cexec_noncall : forall E X K i vs st, is_call_op (i_op i) = false -> cexec_inst E X K i vs st = lift (exec_inst E X i vs st).
Proof.
  intros E X K i vs st H. unfold is_call_op in H. apply orb_false_iff in H. destruct H as [H1 H2].
  unfold cexec_inst. rewrite H1, H2. reflexivity.
Qed.

(* ---------------------------------------------------------------- per-function simulations compose *)
Definition cbad (r : cstep) : Prop := match r with CStop (CHalt (HStuck _)) _ => True | CNext _ _ => True | _ => False end.

Definition blk3 (P : Prop) (Inv : positive -> positive -> vmap -> vmap -> Prop) (E : env) (X : oracle) (Kb Ka : callh)
  (fb fa : func) (cur prev : positive) (vb va : vmap) (st : store) : Prop :=
  match PositiveMap.find cur (f_blocks fb), PositiveMap.find cur (f_blocks fa) with
  | None, None => True
  | Some lb, Some la =>
      let rb := cblock_res E X Kb prev lb vb st in
      let ra := cblock_res E X Ka prev la va st in
      cbad rb \/ (P /\ cbad ra) \/
      match rb, ra with
      | CJump l vb' s, CJump l' va' s' => l = l' /\ s = s' /\ Inv l cur vb' va'
      | CStop h s, CStop h' s' => h = h' /\ (s = s' \/ cdiscards h = true)
      | _, _ => False
      end
  | _, _ => False
  end.

(* fb is simulated by fa with invariant Inv, whatever (related) functions they call *)
Definition fn_sim_with (P : Prop) (Inv : positive -> positive -> vmap -> vmap -> Prop) (fb fa : func) : Prop :=
  f_entry fb = f_entry fa /\ f_code fb = f_code fa /\
  (forall vs0, Inv (f_entry fb) (f_entry fb) vs0 vs0) /\
  (forall E X Kb Ka, krel P Kb Ka -> forall cur prev vb va st, Inv cur prev vb va -> blk3 P Inv E X Kb Ka fb fa cur prev vb va st).

Definition fn_sim (P : Prop) (fb fa : func) : Prop := exists Inv, fn_sim_with P Inv fb fa.

Definition ctx_sim (P : Prop) (Cb Ca : ctxt) : Prop :=
  forall g, match PositiveMap.find g Cb, PositiveMap.find g Ca with
            | Some fb, Some fa => fn_sim P fb fa
            | None, None => True
            | _, _ => False
            end.

Theorem ctx_run_sim : forall P Cb Ca, ctx_sim P Cb Ca -> forall E X n fb fa Inv, fn_sim_with P Inv fb fa ->
  forall cur prev vb va st, Inv cur prev vb va ->
  rel3 P (crun_from n E X Cb fb cur prev vb st) (crun_from n E X Ca fa cur prev va st).
Proof.
  intros P Cb Ca CS E X. induction n as [|n IH]; intros fb fa Inv FS cur prev vb va st I.
  - left. exact Logic.I.
  - rewrite !crun_from_S.
    assert (KR : krel P (call n E X Cb) (call n E X Ca)).
    { intros g vals s. unfold call. specialize (CS g).
      destruct (PositiveMap.find g Cb) as [gb|]; destruct (PositiveMap.find g Ca) as [ga|]; try contradiction.
      - destruct CS as [Ig FG]. pose proof FG as [EN [_ [I0 _]]]. rewrite <- EN. apply (IH gb ga Ig FG). apply I0.
      - left. exact Logic.I. }
    destruct FS as [EN [CO [I0 HB]]]. pose proof (HB E X _ _ KR cur prev vb va st I) as B. unfold blk3 in B.
    destruct (PositiveMap.find cur (f_blocks fb)) as [lb|]; destruct (PositiveMap.find cur (f_blocks fa)) as [la|]; try contradiction.
    2:{ left. exact Logic.I. }
    simpl in B. destruct B as [B|[[T B]|M]].
    + left. destruct (cblock_res E X (call n E X Cb) prev lb vb st) as [v s|l v s|h s]; simpl in *; try contradiction.
      * exact Logic.I.
      * destruct h as [[| | | |e]|]; try contradiction. exact Logic.I.
    + right. left. split; auto. destruct (cblock_res E X (call n E X Ca) prev la va st) as [v s|l v s|h s]; simpl in *; try contradiction.
      * exact Logic.I.
      * destruct h as [[| | | |e]|]; try contradiction. exact Logic.I.
    + destruct (cblock_res E X (call n E X Cb) prev lb vb st) as [v s|l v s|h s];
        destruct (cblock_res E X (call n E X Ca) prev la va st) as [v' s'|l' v' s'|h' s']; try contradiction.
      * destruct M as [<- [<- I']]. apply (IH fb fa Inv); auto. repeat split; auto.
      * destruct M as [<- D]. right. right. unfold Robs. simpl. split; auto. destruct D as [->|D]; auto.
Qed.

(* whole runs *)
Theorem ctx_crun_sim : forall P Cb Ca fb fa, ctx_sim P Cb Ca -> fn_sim P fb fa ->
  forall n E X st, rel3 P (crun n E X Cb fb st) (crun n E X Ca fa st).
Proof.
  intros P Cb Ca fb fa CS [Inv FS] n E X st. unfold crun.
  pose proof FS as [EN [CO [I0 _]]]. rewrite <- EN, <- CO. eapply ctx_run_sim; eauto.
Qed.

Corollary ctx_crun_observe : forall P Cb Ca fb fa, ctx_sim P Cb Ca -> fn_sim P fb fa ->
  forall n E X st, ~ rstuck (crun n E X Cb fb st) -> (P -> ~ rstuck (crun n E X Ca fa st)) ->
  Robs (crun n E X Ca fa st) (crun n E X Cb fb st) /\ cobserve st (crun n E X Ca fa st) = cobserve st (crun n E X Cb fb st).
Proof.
  intros P Cb Ca fb fa CS FS n E X st NB NA.
  destruct (ctx_crun_sim P Cb Ca fb fa CS FS n E X st) as [S|[[T S]|R]]; try contradiction.
  - exfalso. apply (NA T). assumption.
  - split; auto. destruct R as [HE SE]. unfold cobserve. destruct (crun n E X Ca fa st) as [ha sa]. destruct (crun n E X Cb fb st) as [hb sb].
    simpl in *. subst ha. destruct SE as [->|D]; auto. destruct hb as [[| | | |e]|]; try discriminate D; reflexivity.
Qed.

(* ---------------------------------------------------------------- an unchanged function simulates itself *)
Lemma uses_in_all : forall l, uses_in (fun _ => true) l = true.
Proof. intros l. unfold uses_in. apply forallb_forall. reflexivity. Qed.

Lemma cexec_insts_self : forall P E X Kb Ka l vb va st, krel P Kb Ka -> agree (fun _ => true) va vb ->
  sim3 P (fun _ => true) (cexec_insts E X Kb l vb st) (cexec_insts E X Ka l va st).
Proof.
  intros P E X Kb Ka. induction l as [|i r IH]; intros vb va st KR A; simpl.
  - left. exact I.
  - destruct (cexec_inst_sim P (fun _ => true) E X Kb Ka i vb va st KR A (uses_in_all _)) as [S|[[T S]|M]].
    + left. destruct (cexec_inst E X Kb i vb st) as [v s|l v s|h s]; simpl in *; try contradiction. exact S.
    + destruct (cexec_inst E X Kb i vb st) as [v s|l v s|h s] eqn:EB.
      * (* b continues, a is stuck *)
        right. left. split; auto. destruct (cexec_inst E X Ka i va st) as [v' s'|l' v' s'|h' s']; simpl in *; try contradiction. exact S.
      * right. left. split; auto. destruct (cexec_inst E X Ka i va st) as [v' s'|l' v' s'|h' s']; simpl in *; try contradiction. exact S.
      * right. left. split; auto. destruct (cexec_inst E X Ka i va st) as [v' s'|l' v' s'|h' s']; simpl in *; try contradiction. exact S.
    + destruct (cexec_inst E X Kb i vb st) as [v s|l v s|h s]; destruct (cexec_inst E X Ka i va st) as [v' s'|l' v' s'|h' s'];
        simpl in M; try contradiction.
      * destruct M as [<- A']. apply IH; auto.
      * right. right. exact M.
      * right. right. exact M.
Qed.

Lemma exec_phis_self : forall prev oa ob, agree (fun _ => true) oa ob -> forall l vb va, agree (fun _ => true) va vb ->
  match exec_phis prev l ob vb with
  | Some (vb', r) => exists va', exec_phis prev l oa va = Some (va', r) /\ agree (fun _ => true) va' vb'
  | None => True
  end.
Proof.
  intros prev oa ob OV. induction l as [|i r IHl]; intros vb va V.
  - simpl. exists va. auto.
  - destruct (is_phi i) eqn:Ph.
    + rewrite (exec_phis_phi prev i r ob vb Ph), (exec_phis_phi prev i r oa va Ph).
      rewrite (resolve_agree (fun _ => true) oa ob (i_args i)); [|assumption|apply uses_in_all].
      destruct (i_outs i) as [|o [|o2 t]]; auto.
      destruct (phi_val prev (map (resolve ob) (i_args i))); auto.
      apply IHl. intros x _. destruct (Pos.eq_dec x o) as [->|N].
      * rewrite !PositiveMap.gss. reflexivity.
      * rewrite !PositiveMap.gso by assumption. apply V. reflexivity.
    + rewrite (exec_phis_nonphi prev i r ob vb Ph), (exec_phis_nonphi prev i r oa va Ph). exists va. auto.
Qed.

Lemma fn_sim_refl : forall P f, fn_sim P f f.
Proof.
  intros P f. exists (fun _ _ vb va => agree (fun _ => true) va vb).
  split; [reflexivity|]. split; [reflexivity|]. split. { intros vs0. apply agree_refl. }
  - intros E X Kb Ka KR cur prev vb va st A. unfold blk3.
    destruct (PositiveMap.find cur (f_blocks f)) as [l|]; auto. simpl. unfold cblock_res.
    pose proof (exec_phis_self prev va vb A l vb va A) as PH.
    destruct (exec_phis prev l vb vb) as [[vb1 r1]|]; [|left; exact I].
    destruct PH as [va1 [EA A1]]. rewrite EA.
    destruct (cexec_insts_self P E X Kb Ka r1 vb1 va1 st KR A1) as [S|[[T S]|M]].
    + left. destruct (cexec_insts E X Kb r1 vb1 st) as [v s|l0 v s|h s]; simpl in *; try contradiction; auto.
      all: try (destruct h as [[| | | |e]|]; try contradiction; exact I).
    + right. left. split; auto. destruct (cexec_insts E X Ka r1 va1 st) as [v s|l0 v s|h s]; simpl in *; try contradiction; auto.
      all: try (destruct h as [[| | | |e]|]; try contradiction; exact I).
    + destruct (cexec_insts E X Kb r1 vb1 st) as [v s|l0 v s|h s]; destruct (cexec_insts E X Ka r1 va1 st) as [v' s'|l' v' s'|h' s'];
        simpl in M; try contradiction.
      * left. exact I.
      * right. right. exact M.
      * right. right. exact M.
Qed.

(* replacing one function of a context by a simulating one *)
Lemma ctx_sim_replace : forall P C g fb fa, PositiveMap.find g C = Some fb -> fn_sim P fb fa ->
  ctx_sim P C (PositiveMap.add g fa C).
Proof.
  intros P C g fb fa F FS h. destruct (Pos.eq_dec h g) as [->|N].
  - rewrite F, PositiveMap.gss. assumption.
  - rewrite PositiveMap.gso by assumption. destruct (PositiveMap.find h C); auto. apply fn_sim_refl.
Qed.
