From Coq Require Import ZArith Bool List String Lia.
From Verif Require Import Base.Word256 Base.PyInt Base.WordLemmas C14.RangeBase C14.GenRange C14.RangeSound C14.RangeLemmas2.
From Verif Require C14.EvalSound.
Import ListNotations.
Open Scope Z_scope.
Ltac Zify.zify_post_hook ::= Z.to_euclidean_division_equations.

Theorem eval_and_sound : sound2 eval_and w_and.
Proof.
  intros A B a b WA WB MA MB; unfold eval_and; go2 A B; unfold w_and; fixreps.
  all: open_range; consts; exec.
  all: try rewrite (Z.land_comm (h1 mod W)).
  all: lazymatch goal with
       | E : ?m = W - 1 |- context [Z.land ?x ?m] =>
           rewrite E, land_maxu, Z.mod_mod by wl;
           lazymatch x with ?v mod W => sw v end
       | E0 : 0 <= ?m |- context [Z.land ?x ?m] =>
           pose proof (land_le_r x m E0);
           try (lazymatch x with ?v mod W => pose proof (land_le_l x m ltac:(mlia)) end);
           set (y := Z.land x m) in *;
           (split; [exists y; split; [mlia | apply Z.mod_small; mlia] | mlia])
       end.
Qed.

Theorem eval_xor_sound : sound2 eval_xor w_xor.
Proof.
  intros A B a b WA WB MA MB; unfold eval_xor; go2 A B; unfold w_xor; fixreps.
  apply signed_const_ok. apply word_lxor; apply Z.mod_pos_bound; reflexivity.
Qed.

Theorem eval_not_sound : sound1 eval_not w_not.
Proof.
  start1 eval_not; unfold w_not, MAXU; fixreps.
  pose proof (Z.mod_pos_bound h1 W ltac:(reflexivity)) as Hb.
  change (Z.lxor (W - 1)) with (Z.lxor (Z.ones 256)).
  rewrite (EvalSound.lxor_max (h1 mod W) Hb).
  apply signed_const_ok. lia.
Qed.

Theorem eval_or_sound : sound2w eval_or w_or.
Proof.
  intros A B a b WA WB IA IB MA MB; unfold eval_or; go2 A B; unfold w_or; fixreps.
  all: change (0 mod W) with 0; rewrite ?Z.lor_0_l, ?Z.lor_0_r.
  all: repeat match goal with |- context [?v mod W] =>
         lazymatch goal with H : 0 <= v mod W < W |- _ => fail | _ => idtac end;
         pose proof (Z.mod_pos_bound v W ltac:(reflexivity)) end.
  all: lazymatch goal with
       | |- context [to_signed _] => apply signed_const_ok; apply word_lor; assumption
       | E1 : ?m = W - 1 |- context [Z.lor ?m ?x] =>
           rewrite (Z.lor_comm m x), E1, (lor_maxu x) by assumption; sw (-1)
       | E1 : ?m = W - 1 |- context [Z.lor ?x ?m] =>
           rewrite E1, (lor_maxu x) by assumption; sw (-1)
       | |- context [?v mod W] => sw v
       end.
Qed.
