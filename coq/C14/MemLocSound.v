(* Soundness of the aliasing tests of vyper/venom/memory_location.py (translated: GenMemLoc.v).
   Address space: pairs (region, byte offset); region None = concrete memory, Some i = the i-th
   allocation that has not been placed yet.  "Distinct allocations are disjoint regions" is built into
   this address space: it is the allocator's obligation (C04: concretize_interfering_disjoint), and
   the code answers "may overlap" whenever one side is concrete and the other is not. *)
From Coq Require Import ZArith Bool List String Lia.
From Verif Require Import Base.PyInt C14.RangeBase C14.MemLocBase C14.GenMemLoc.
Open Scope Z_scope.

Definition den (l : memloc) (t : option Z) (k : Z) : Prop :=
  ml_is_empty l = false /\ t = ml_alloca l /\
  match ml_offset l with
  | None => True
  | Some o => o <= k /\ match ml_size l with None => True | Some s => k < o + s end
  end.

Ltac crush :=
  repeat match goal with
  | H : (_ <? _) = true |- _ => apply Z.ltb_lt in H
  | H : (_ <? _) = false |- _ => apply Z.ltb_ge in H
  | H : (_ <=? _) = true |- _ => apply Z.leb_le in H
  | H : (_ <=? _) = false |- _ => apply Z.leb_gt in H
  | H : (_ >=? _) = true |- _ => rewrite Z.geb_leb in H; apply Z.leb_le in H
  | H : (_ >=? _) = false |- _ => rewrite Z.geb_leb in H; apply Z.leb_gt in H
  | H : (_ =? _) = true |- _ => apply Z.eqb_eq in H
  | H : (_ =? _) = false |- _ => apply Z.eqb_neq in H
  | H : (_ || _) = true |- _ => apply orb_true_iff in H; destruct H
  | H : (_ || _) = false |- _ => apply orb_false_iff in H; destruct H
  | H : (_ && _) = true |- _ => apply andb_true_iff in H; destruct H
  | H : (_ && _) = false |- _ => apply andb_false_iff in H; destruct H
  | H : negb _ = true |- _ => apply negb_true_iff in H
  | H : negb _ = false |- _ => apply negb_false_iff in H
  | H : Some _ = Some _ |- _ => injection H as H
  | H : Ok _ = Ok _ |- _ => injection H as H
  end.

Ltac open_ml := cbn [ml_offset ml_size ml_alloca ml_is_empty ml_is_concrete ml_is_offset_fixed ml_is_size_fixed
                     opt_eqb is_none unopt bind negb andb orb Bool.eqb] in *.

Theorem may_overlap_total : forall l1 l2, exists b, may_overlap l1 l2 = Ok b.
Proof.
  intros [[o1|] [s1|] [a1|]] [[o2|] [s2|] [a2|]]; unfold may_overlap; open_ml;
    repeat match goal with |- context [if ?c then _ else _] => destruct c end; open_ml; eexists; reflexivity.
Qed.

Theorem may_overlap_sound : forall l1 l2, may_overlap l1 l2 = Ok false ->
  forall t k, den l1 t k -> den l2 t k -> False.
Proof.
  intros [[o1|] [s1|] [a1|]] [[o2|] [s2|] [a2|]]; unfold may_overlap, den; open_ml; intros H t k D1 D2;
    destruct D1 as [E1 [T1 B1]]; destruct D2 as [E2 [T2 B2]]; subst t;
    repeat match type of H with context [if ?c then _ else _] => let E := fresh "E" in destruct c eqn:E; open_ml end;
    try discriminate; crush; try congruence; try lia.
  all: injection H as H; crush; lia.
Qed.

Theorem completely_contains_sound : forall a b, completely_contains a b = Ok true ->
  forall t k, den b t k -> den a t k.
Proof.
  intros [[o1|] [s1|] [a1|]] [[o2|] [s2|] [a2|]]; unfold completely_contains, den; open_ml; intros H t k D;
    destruct D as [E2 [T2 B2]]; subst t;
    repeat match type of H with context [if ?c then _ else _] => let E := fresh "E" in destruct c eqn:E; open_ml end;
    try discriminate; crush; try congruence;
    repeat split; try congruence; try lia;
    try (destruct (s1 =? 0) eqn:Z1; crush; [exfalso; lia | reflexivity]).
Qed.

(* non-vacuity and the intended positive facts *)
Example memloc_examples :
  may_overlap {| ml_offset := Some 0; ml_size := Some 32; ml_alloca := None |}
              {| ml_offset := Some 32; ml_size := Some 32; ml_alloca := None |} = Ok false /\
  may_overlap {| ml_offset := Some 0; ml_size := Some 33; ml_alloca := None |}
              {| ml_offset := Some 32; ml_size := Some 32; ml_alloca := None |} = Ok true /\
  completely_contains {| ml_offset := Some 0; ml_size := Some 64; ml_alloca := Some 1 |}
                      {| ml_offset := Some 32; ml_size := Some 32; ml_alloca := Some 1 |} = Ok true.
Proof. repeat split; reflexivity. Qed.
