From Coq Require Import ZArith Bool List String Lia.
From Verif Require Import Base.Word256 Base.PyInt Base.WordLemmas C14.RangeBase C14.GenRange C14.RangeSound.
Import ListNotations.
Open Scope Z_scope.
Ltac Zify.zify_post_hook ::= Z.to_euclidean_division_equations.

Theorem eval_iszero_sound : sound1 eval_iszero w_iszero.
Proof.
  start1 eval_iszero; unfold w_iszero, Word256.b2z, b2z.
  all: boolres.
Qed.

Theorem eval_eq_sound : sound2 eval_eq w_eq.
Proof.
  intros A B a b WA WB MA MB; unfold eval_eq, _range_spans_sign_boundary; go2 A B;
    unfold w_eq, Word256.b2z, b2z in *.
  all: boolres.
Qed.
