(* Soundness of the dispatcher eval_op (the entry point used by analysis.py): for every opcode it
   handles, the result range denotes the EVM result word; and it is well-formed (except smod). *)
From Coq Require Import ZArith Bool List String Lia.
From Verif Require Import Base.Word256 Base.PyInt C14.RangeBase C14.GenRange C14.RangeSound C14.RangeLemmas2.
From Verif Require Import C14.RangeEq C14.RangeLt C14.RangeGt C14.RangeSlt C14.RangeSgt C14.RangeDiv
  C14.RangeSdiv C14.RangeSmod C14.RangeBits C14.RangeByte C14.RangeSignext.
Open Scope Z_scope.
Open Scope string_scope.

(* EVM semantics of the opcodes eval_op knows (unary ones ignore the second operand) *)
Definition word_op (op : string) : option (Z -> Z -> Z) :=
  if String.eqb op "add" then Some w_add else
  if String.eqb op "sub" then Some w_sub else
  if String.eqb op "mul" then Some w_mul else
  if String.eqb op "and" then Some w_and else
  if String.eqb op "or" then Some w_or else
  if String.eqb op "xor" then Some w_xor else
  if String.eqb op "byte" then Some w_byte else
  if String.eqb op "signextend" then Some w_signextend else
  if String.eqb op "mod" then Some w_mod else
  if String.eqb op "div" then Some w_div else
  if String.eqb op "sdiv" then Some w_sdiv else
  if String.eqb op "smod" then Some w_smod else
  if String.eqb op "shr" then Some w_shr else
  if String.eqb op "shl" then Some w_shl else
  if String.eqb op "sar" then Some w_sar else
  if String.eqb op "eq" then Some w_eq else
  if String.eqb op "lt" then Some w_lt else
  if String.eqb op "gt" then Some w_gt else
  if String.eqb op "slt" then Some w_slt else
  if String.eqb op "sgt" then Some w_sgt else
  if String.eqb op "iszero" then Some (fun a _ => w_iszero a) else
  if String.eqb op "not" then Some (fun a _ => w_not a) else None.

Lemma use2 f w A B a b (P : Prop) : sound2 f w -> wf A -> wf B -> mem a A -> mem b B ->
  match (v <- f A B ;; Ok v) with Ok R => mem (w a b) R /\ (P -> wf R) | Err _ => False end.
Proof. intros S WA WB MA MB. specialize (S A B a b WA WB MA MB). destruct (f A B); cbn [bind]; tauto. Qed.

Lemma use2w f w A B a b (P : Prop) : sound2w f w -> wf A -> wf B -> 0 <= a < W -> 0 <= b < W ->
  mem a A -> mem b B ->
  match (v <- f A B ;; Ok v) with Ok R => mem (w a b) R /\ (P -> wf R) | Err _ => False end.
Proof.
  intros S WA WB IA IB MA MB. specialize (S A B a b WA WB IA IB MA MB).
  destruct (f A B); cbn [bind]; tauto.
Qed.

Lemma use1 f w A a (P : Prop) : sound1 f w -> wf A -> mem a A ->
  match (v <- f A ;; Ok v) with Ok R => mem (w a) R /\ (P -> wf R) | Err _ => False end.
Proof. intros S WA MA. specialize (S A a WA MA). destruct (f A); cbn [bind]; tauto. Qed.

Theorem eval_op_sound : forall op w A B a b, word_op op = Some w ->
  wf A -> wf B -> 0 <= a < W -> 0 <= b < W -> mem a A -> mem b B ->
  match eval_op op A B with
  | Ok R => mem (w a b) R /\ (op <> "smod" -> wf R)
  | Err _ => False
  end.
Proof.
  intros op w A B a b Hw WA WB IA IB MA MB. unfold eval_op, word_op in *.
  repeat match type of Hw with
  | (if String.eqb op ?s then _ else _) = _ =>
      let E := fresh "E" in destruct (String.eqb op s) eqn:E;
      [ injection Hw as <- | ]
  end; try discriminate.
  all: cbn [orb].
  all: try match goal with E : String.eqb ?o _ = true |- context [eval_compare ?o] =>
         apply String.eqb_eq in E; subst o end.
  - apply use2; auto using eval_add_sound.
  - apply use2; auto using eval_sub_sound.
  - apply use2; auto using eval_mul_sound.
  - apply use2; auto using eval_and_sound.
  - apply use2w; auto using eval_or_sound.
  - apply use2; auto using eval_xor_sound.
  - apply use2; auto using eval_byte_sound.
  - apply use2w; auto using eval_signextend_sound.
  - apply use2; auto using eval_mod_sound.
  - apply use2; auto using eval_div_sound.
  - apply use2; auto using eval_sdiv_sound.
  - apply String.eqb_eq in E10. subst op.
    pose proof (eval_smod_sound_mem A B a b WA WB MA MB) as S.
    destruct (eval_smod A B); cbn [bind]; [|exact S]. split; [tauto | intros N; exfalso; apply N; reflexivity].
  - apply use2; auto using eval_shr_sound.
  - apply use2; auto using eval_shl_sound.
  - apply use2; auto using eval_sar_sound.
  - apply use2; auto using eval_eq_sound.
  - apply use2; auto using eval_lt_sound.
  - apply use2; auto using eval_gt_sound.
  - apply use2; auto using eval_slt_sound.
  - apply use2; auto using eval_sgt_sound.
  - apply use1; auto using eval_iszero_sound.
  - apply use1; auto using eval_not_sound.
Qed.
