(* C14 / ValDFT.v -- proved translation validator for DFTPass (block-local instruction scheduling).

   `dft_check before after` accepts when both functions have the same blocks and every block of `after` is the block of
   `before` with the same leading phis and a reordering of the other instructions, possibly with flipped commutative /
   comparison instructions, such that every instruction that moved in front of another one is allowed to:
     * two simple instructions: no data dependency and non-conflicting semantic footprints (commute_simple, VenomProofs.v);
     * an assert / assert_unreachable moving in front of a simple instruction that does not define its condition
       (= the simple instruction is delayed past the assert);
     * out-of-core instructions (O_unknown: every run through them is stuck in Venom.v) impose no constraint against
       simple instructions.
   Theorem dft_check_sound: for an accepted pair, every run of `before` that is not stuck is matched by `after` with the same
   halt status and data and the same store (the store of a reverting / invalid run is discarded by `observe`), hence
   `observe init (vrun after) = observe init (vrun before)`. *)
From Coq Require Import ZArith List Bool FMapPositive Lia.
From Verif Require Import Base.Word256 C14.Venom C14.VenomProofs C14.VenomSim C14.ValRUV.
Import ListNotations.
Open Scope Z_scope.

(* ---------------------------------------------------------------- results up to stuckness / discarded stores *)
Definition veq (va vb : vmap) : Prop := forall x, PositiveMap.find x va = PositiveMap.find x vb.

Definition is_stuck (h : halt) : bool := match h with HStuck _ => true | _ => false end.
Definition discards (h : halt) : bool := match h with HRevert _ | HInvalid => true | _ => false end.

Definition stk (r : step_res) : Prop := match r with SHalt h _ => is_stuck h = true | _ => False end.

Definition eqv (r1 r2 : step_res) : Prop :=
  match r1, r2 with
  | SNext v1 s1, SNext v2 s2 => veq v2 v1 /\ s1 = s2
  | SJump l1 v1 s1, SJump l2 v2 s2 => l1 = l2 /\ veq v2 v1 /\ s1 = s2
  | SHalt h1 s1, SHalt h2 s2 => h1 = h2 /\ is_stuck h1 = false /\ (s1 = s2 \/ discards h1 = true)
  | _, _ => False
  end.

Definition le (r1 r2 : step_res) : Prop := stk r1 \/ eqv r1 r2.

Lemma veq_refl : forall v, veq v v. Proof. intros v x. reflexivity. Qed.
Lemma veq_trans : forall a b c, veq a b -> veq b c -> veq a c. Proof. intros a b c H1 H2 x. rewrite H1. apply H2. Qed.
Lemma veq_sym : forall a b, veq a b -> veq b a. Proof. intros a b H x. symmetry. apply H. Qed.

Lemma le_refl : forall r, le r r.
Proof.
  intros [v s|l v s|h s]; unfold le; simpl.
  - right. split; [apply veq_refl|reflexivity].
  - right. repeat split; apply veq_refl.
  - destruct (is_stuck h) eqn:S; [left; reflexivity|right; auto].
Qed.

Lemma eqv_not_stk : forall r1 r2, eqv r1 r2 -> ~ stk r2.
Proof.
  intros [v1 s1|l1 v1 s1|h1 s1] [v2 s2|l2 v2 s2|h2 s2] H; simpl in *; try contradiction; auto.
  destruct H as [E [S _]]. subst. rewrite S. discriminate.
Qed.

Lemma eqv_trans : forall r1 r2 r3, eqv r1 r2 -> eqv r2 r3 -> eqv r1 r3.
Proof.
  intros [v1 s1|l1 v1 s1|h1 s1] [v2 s2|l2 v2 s2|h2 s2] [v3 s3|l3 v3 s3|h3 s3] H1 H2; simpl in *; try contradiction.
  - destruct H1 as [V1 S1]. destruct H2 as [V2 S2]. split; [eapply veq_trans; eauto|congruence].
  - destruct H1 as [L1 [V1 S1]]. destruct H2 as [L2 [V2 S2]]. repeat split; [congruence|eapply veq_trans; eauto|congruence].
  - destruct H1 as [E1 [K1 D1]]. destruct H2 as [E2 [K2 D2]]. subst. repeat split; auto.
    destruct D1 as [D1|D1]; destruct D2 as [D2|D2]; auto. left. congruence.
Qed.

Lemma le_trans : forall r1 r2 r3, le r1 r2 -> le r2 r3 -> le r1 r3.
Proof.
  intros r1 r2 r3 [S|E] H2; [left; assumption|].
  destruct H2 as [S2|E2]. - exfalso. eapply eqv_not_stk; eauto. - right. eapply eqv_trans; eauto.
Qed.

(* ---------------------------------------------------------------- congruences *)
Definition TT : positive -> bool := fun _ => true.

Lemma uses_in_TT : forall l, uses_in TT l = true.
Proof. intros l. unfold uses_in. apply forallb_forall. reflexivity. Qed.

Lemma agree_TT : forall va vb, agree TT va vb <-> veq va vb.
Proof. unfold agree, veq, TT. split; intros H x; auto. Qed.

Lemma exec_inst_veq : forall E X i vb va st, veq va vb -> sim_step TT (exec_inst E X i vb st) (exec_inst E X i va st).
Proof. intros. apply exec_inst_sim. - apply agree_TT. assumption. - apply uses_in_TT. Qed.

Lemma exec_insts_veq : forall E X l vb va st, veq va vb -> le (exec_insts E X l vb st) (exec_insts E X l va st).
Proof.
  intros E X. induction l as [|i r IH]; intros vb va st V.
  - simpl. left. reflexivity.
  - simpl. pose proof (exec_inst_veq E X i vb va st V) as S.
    destruct (exec_inst E X i vb st) as [vb' s|l vb' s|h s]; destruct (exec_inst E X i va st) as [va' s'|l' va' s'|h' s'];
      simpl in S; try contradiction.
    + destruct S as [-> A]. apply IH. apply agree_TT. assumption.
    + destruct S as [-> [-> A]]. right. simpl. repeat split. apply agree_TT. assumption.
    + destruct S as [-> ->]. apply le_refl.
Qed.

Lemma le_cons : forall E X k l1 l2 vs st,
  (forall vs' st', le (exec_insts E X l1 vs' st') (exec_insts E X l2 vs' st')) ->
  le (exec_insts E X (k :: l1) vs st) (exec_insts E X (k :: l2) vs st).
Proof.
  intros E X k l1 l2 vs st H. simpl. destruct (exec_inst E X k vs st); auto; apply le_refl.
Qed.

(* ---------------------------------------------------------------- flipped instructions *)
Definition comm_op (o : opc) : bool := match o with O_add | O_mul | O_and | O_or | O_xor | O_eq => true | _ => false end.
Definition flip_cmp (o : opc) : option opc :=
  match o with O_lt => Some O_gt | O_gt => Some O_lt | O_slt => Some O_sgt | O_sgt => Some O_slt | _ => None end.

Definition flip_match (i j : inst) : bool :=
  if inst_eq_dec i j then true
  else match i_args i, i_args j with
       | [a; b], [b'; a'] =>
           (if operand_eq_dec a a' then true else false) && (if operand_eq_dec b b' then true else false)
           && (if list_eq_dec Pos.eq_dec (i_outs i) (i_outs j) then true else false)
           && ((comm_op (i_op i) && (if opc_eq_dec (i_op i) (i_op j) then true else false))
               || match flip_cmp (i_op i) with Some o' => if opc_eq_dec o' (i_op j) then true else false | None => false end)
       | _, _ => false
       end.

Lemma has_poison_swap : forall x y, has_poison [x; y] = has_poison [y; x].
Proof. intros. unfold has_poison. simpl. rewrite !orb_false_r. apply orb_comm. Qed.

Lemma arith_comm : forall o x y, comm_op o = true -> arith o [x; y] = arith o [y; x].
Proof.
  intros o x y C. unfold arith. destruct o; try discriminate C; cbn [arith0]; rewrite (has_poison_swap x y);
    solve [ unfold w_add; rewrite (Z.add_comm x y); reflexivity
          | unfold w_mul; rewrite (Z.mul_comm x y); reflexivity
          | unfold w_eq; rewrite (Z.eqb_sym x y); reflexivity
          | unfold w_and; rewrite (Z.land_comm x y); reflexivity
          | unfold w_or; rewrite (Z.lor_comm x y); reflexivity
          | unfold w_xor; rewrite (Z.lxor_comm x y); reflexivity ].
Qed.

Lemma arith_flip : forall o o' x y, flip_cmp o = Some o' -> arith o [x; y] = arith o' [y; x].
Proof.
  intros o o' x y F. unfold arith. destruct o; try discriminate F; inversion F; subst; cbn [arith0]; rewrite (has_poison_swap x y);
    unfold w_lt, w_gt, w_slt, w_sgt; rewrite ?Z.gtb_ltb; reflexivity.
Qed.

Lemma eval_ops_2 : forall vs a b, eval_ops vs [a; b] =
  match eval_op vs a, eval_op vs b with Some x, Some y => Some [x; y] | _, _ => None end.
Proof. intros. simpl. destruct (eval_op vs a); destruct (eval_op vs b); reflexivity. Qed.

(* for the arithmetic opcodes eff_sem is `arith` on an untouched store *)
Definition pure_arith (o : opc) : bool := comm_op o || match flip_cmp o with Some _ => true | None => false end.

Lemma wrapped_arith : forall E X o a st, pure_arith o = true ->
  wrapped E X o a st = match arith o a with Some v => Ok ([v], st) | None => Err EArity end.
Proof.
  intros E X o a st P. unfold wrapped.
  assert (F : sem_reads o ++ sem_writes o = [] /\ sem_writes o = []) by (destruct o; try discriminate P; split; reflexivity).
  destruct F as [F1 F2]. rewrite F1, F2.
  assert (S : forall s, eff_sem E X o a s = match arith o a with Some v => Ok ([v], s) | None => Err EArity end).
  { intros s. destruct o; try discriminate P; reflexivity. }
  rewrite S. destruct (arith o a); auto. rewrite merge_nil. reflexivity.
Qed.

Lemma flip_exec : forall E X i j vs st, flip_match i j = true -> exec_inst E X i vs st = exec_inst E X j vs st.
Proof.
  intros E X i j vs st F. unfold flip_match in F. destruct (inst_eq_dec i j) as [->|NE]; [reflexivity|].
  destruct i as [oi opi ai]; destruct j as [oj opj aj]; simpl in F.
  destruct ai as [|a [|b [|c t]]]; try discriminate F. destruct aj as [|b' [|a' [|c' t']]]; try discriminate F.
  destruct (operand_eq_dec a a') as [<-|]; [|discriminate F]. destruct (operand_eq_dec b b') as [<-|]; [|discriminate F].
  destruct (list_eq_dec Pos.eq_dec oi oj) as [<-|]; [|discriminate F]. simpl in F.
  assert (PI : pure_arith opi = true /\ pure_arith opj = true /\
               forall x y, arith opi [x; y] = arith opj [y; x]).
  { apply orb_true_iff in F. destruct F as [F|F].
    - apply andb_true_iff in F. destruct F as [C F]. destruct (opc_eq_dec opi opj) as [<-|]; [|discriminate F].
      unfold pure_arith. rewrite C. simpl. repeat split; auto. intros. apply arith_comm. assumption.
    - destruct (flip_cmp opi) as [o'|] eqn:FC; [|discriminate F]. destruct (opc_eq_dec o' opj) as [<-|]; [|discriminate F].
      repeat split.
      + unfold pure_arith. rewrite FC. apply orb_true_r.
      + destruct opi; try discriminate FC; inversion FC; reflexivity.
      + intros. apply arith_flip. assumption. }
  destruct PI as [P1 [P2 AR]].
  assert (S1 : is_simple opi = true) by (destruct opi; try discriminate P1; reflexivity).
  assert (S2 : is_simple opj = true) by (destruct opj; try discriminate P2; reflexivity).
  rewrite (exec_inst_is_simple E X (Inst oi opi [a; b]) vs st S1), (exec_inst_is_simple E X (Inst oi opj [b; a]) vs st S2).
  unfold exec_simple. simpl i_args. simpl i_op. simpl i_outs. rewrite !eval_ops_2.
  destruct (eval_op vs a) as [x|]; destruct (eval_op vs b) as [y|]; auto.
  rewrite (wrapped_arith E X opi [x; y] st P1), (wrapped_arith E X opj [y; x] st P2), AR. reflexivity.
Qed.

(* ---------------------------------------------------------------- which instruction may move in front of which *)
Definition memp (v : positive) (l : list positive) : bool := existsb (Pos.eqb v) l.

Lemma memp_In : forall v l, memp v l = false -> ~ In v l.
Proof.
  intros v l H I. unfold memp in H. assert (existsb (Pos.eqb v) l = true).
  { apply existsb_exists. exists v. split; auto. apply Pos.eqb_refl. } congruence.
Qed.

Definition disj (a b : list positive) : bool := forallb (fun v => negb (memp v b)) a.

Lemma disj_spec : forall a b, disj a b = true -> forall v, In v a -> ~ In v b.
Proof.
  intros a b H v I. unfold disj in H. rewrite forallb_forall in H. specialize (H v I).
  apply memp_In. destruct (memp v b); [discriminate|reflexivity].
Qed.

Definition indepb (i1 i2 : inst) : bool :=
  disj (i_outs i1) (op_vars (i_args i2)) && disj (i_outs i2) (op_vars (i_args i1)) && disj (i_outs i1) (i_outs i2).

Lemma indepb_spec : forall i1 i2, indepb i1 i2 = true -> indep i1 i2.
Proof.
  intros i1 i2 H. unfold indepb in H. apply andb_true_iff in H. destruct H as [H H3]. apply andb_true_iff in H. destruct H as [H1 H2].
  repeat split; apply disj_spec; assumption.
Qed.

Definition is_guard (o : opc) : bool := match o with O_assert | O_assert_unreachable => true | _ => false end.
Definition is_unknown (o : opc) : bool := match o with O_unknown _ => true | _ => false end.

(* `i` (later in `before`) is moved in front of `p` *)
Definition cross_ok (p i : inst) : bool :=
  if is_unknown (i_op p) then true
  else if is_simple (i_op p) then
    if is_simple (i_op i) then
      indepb p i && disjointb (sem_writes (i_op p)) (FP (i_op i)) && disjointb (sem_writes (i_op i)) (FP (i_op p))
    else if is_guard (i_op i) then disj (i_outs p) (op_vars (i_args i))
    else is_unknown (i_op i)
  else false.

Lemma exec_inst_unknown : forall E X i vs st, is_unknown (i_op i) = true -> stk (exec_inst E X i vs st).
Proof. intros E X [o op a] vs st H. simpl in H. destruct op; try discriminate H. reflexivity. Qed.

(* a simple instruction either fails or continues *)
Lemma exec_inst_simple_cases : forall E X i vs st, is_simple (i_op i) = true ->
  (exists vs' st', exec_simple E X i vs st = Ok (vs', st') /\ exec_inst E X i vs st = SNext vs' st') \/
  (exists e, exec_simple E X i vs st = Err e /\ exec_inst E X i vs st = SHalt (HStuck e) st).
Proof.
  intros E X i vs st S. rewrite (exec_inst_is_simple E X i vs st S).
  destruct (exec_simple E X i vs st) as [[vs' st']|e]; [left|right]; eauto.
Qed.

Lemma swap_simple : forall E X p i R vs st, is_simple (i_op p) = true -> is_simple (i_op i) = true ->
  indepb p i = true -> disjointb (sem_writes (i_op p)) (FP (i_op i)) = true -> disjointb (sem_writes (i_op i)) (FP (i_op p)) = true ->
  le (exec_insts E X (p :: i :: R) vs st) (exec_insts E X (i :: p :: R) vs st).
Proof.
  intros E X p i R vs st Sp Si I D1 D2.
  pose proof (commute_simple E X p i vs st (indepb_spec _ _ I) D1 D2) as C. unfold run2 in C.
  simpl.
  destruct (exec_inst_simple_cases E X p vs st Sp) as [[vs1 [st1 [P1 Q1]]]|[e [P1 Q1]]]; rewrite Q1, P1 in *.
  2:{ left. reflexivity. }
  destruct (exec_inst_simple_cases E X i vs1 st1 Si) as [[vs12 [st12 [P12 Q12]]]|[e [P12 Q12]]]; rewrite Q12, P12 in *.
  2:{ left. reflexivity. }
  destruct (exec_inst_simple_cases E X i vs st Si) as [[vs2 [st2 [P2 Q2]]]|[e [P2 Q2]]]; rewrite Q2, P2 in *.
  2:{ simpl in C. contradiction. }
  destruct (exec_inst_simple_cases E X p vs2 st2 Sp) as [[vs21 [st21 [P21 Q21]]]|[e [P21 Q21]]]; rewrite Q21, P21 in *.
  2:{ simpl in C. contradiction. }
  simpl in C. destruct C as [V ->]. apply exec_insts_veq. intros x. symmetry. apply V.
Qed.

Lemma guard_cases : forall E X i vs st, is_guard (i_op i) = true ->
  match i_args i with
  | [c] => exec_inst E X i vs st =
           match eval_op vs c with
           | Some v => if v <? 0 then SHalt (HStuck (EPoison 2)) st
                       else if v =? 0 then SHalt (match i_op i with O_assert => HRevert [] | _ => HInvalid end) st else SNext vs st
           | None => SHalt (HStuck EUndef) st end
  | _ => exec_inst E X i vs st = SHalt (HStuck EArity) st
  end.
Proof.
  intros E X [o op a] vs st G. simpl in *. unfold exec_inst. simpl.
  destruct op; try discriminate G; destruct a as [|c [|c2 t]]; try reflexivity.
Qed.

Lemma swap_guard : forall E X p i R vs st, is_simple (i_op p) = true -> is_guard (i_op i) = true ->
  disj (i_outs p) (op_vars (i_args i)) = true ->
  le (exec_insts E X (p :: i :: R) vs st) (exec_insts E X (i :: p :: R) vs st).
Proof.
  intros E X p i R vs st Sp G D. simpl.
  destruct (exec_inst_simple_cases E X p vs st Sp) as [[vs1 [st1 [P1 Q1]]]|[e [P1 Q1]]]; rewrite Q1.
  2:{ left. reflexivity. }
  pose proof (guard_cases E X i vs st G) as GA. pose proof (guard_cases E X i vs1 st1 G) as GB.
  destruct (i_args i) as [|c [|c2 t]] eqn:EA.
  - rewrite GB. left. reflexivity.
  - (* the condition has the same value before and after p *)
    assert (EV : eval_op vs1 c = eval_op vs c).
    { unfold exec_simple in P1. destruct (eval_ops vs (i_args p)) as [argv|]; [|discriminate].
      destruct (wrapped E X (i_op p) argv st) as [[ov st']|]; [|discriminate].
      destruct (bind_outs vs (i_outs p) ov) as [vs'|] eqn:B; [|discriminate]. inversion P1. subst vs' st'.
      pose proof (args_after_bind vs (i_outs p) ov vs1 [c] B) as H.
      assert (forall v, In v (i_outs p) -> ~ In v (op_vars [c])) by (apply disj_spec; assumption).
      specialize (H H0). simpl in H.
      destruct (eval_op vs1 c); destruct (eval_op vs c); try discriminate; try reflexivity; inversion H; reflexivity. }
    rewrite GA, GB, EV. destruct (eval_op vs c) as [v|]; [|left; reflexivity].
    destruct (v <? 0); [left; reflexivity|]. destruct (v =? 0).
    + right. simpl. repeat split; auto. * destruct (i_op i); reflexivity. * right. destruct (i_op i); try discriminate G; reflexivity.
    + rewrite Q1. apply le_refl.
  - rewrite GB. left. reflexivity.
Qed.

Lemma swap_ok : forall E X p i R vs st, cross_ok p i = true ->
  le (exec_insts E X (p :: i :: R) vs st) (exec_insts E X (i :: p :: R) vs st).
Proof.
  intros E X p i R vs st C. unfold cross_ok in C.
  destruct (is_unknown (i_op p)) eqn:Up.
  { left. simpl. pose proof (exec_inst_unknown E X p vs st Up) as S. destruct (exec_inst E X p vs st); simpl in *; try contradiction; auto. }
  destruct (is_simple (i_op p)) eqn:Sp; [|discriminate].
  destruct (is_simple (i_op i)) eqn:Si.
  - apply andb_true_iff in C. destruct C as [C D2]. apply andb_true_iff in C. destruct C as [I D1]. apply swap_simple; auto.
  - destruct (is_guard (i_op i)) eqn:G.
    + apply swap_guard; auto.
    + (* i is out of core: after p (if p succeeds) the run is stuck *)
      left. simpl. destruct (exec_inst_simple_cases E X p vs st Sp) as [[vs1 [st1 [P1 Q1]]]|[e [P1 Q1]]]; rewrite Q1; [|reflexivity].
      pose proof (exec_inst_unknown E X i vs1 st1 C) as S. destruct (exec_inst E X i vs1 st1); simpl in *; try contradiction; auto.
Qed.

Lemma move_front : forall E X i post pre vs st, forallb (fun p => cross_ok p i) pre = true ->
  le (exec_insts E X (pre ++ i :: post) vs st) (exec_insts E X (i :: pre ++ post) vs st).
Proof.
  intros E X i post. induction pre as [|p pre IH]; intros vs st H.
  - apply le_refl.
  - simpl in H. apply andb_true_iff in H. destruct H as [Hp Hr].
    eapply le_trans.
    + apply (le_cons E X p (pre ++ i :: post) (i :: pre ++ post) vs st). intros. apply IH. assumption.
    + apply swap_ok. assumption.
Qed.

(* ---------------------------------------------------------------- the permutation checker *)
Fixpoint extract (j : inst) (pre_rev : list inst) (l : list inst) : option (list inst * inst * list inst) :=
  match l with
  | [] => None
  | i :: r => if flip_match i j then Some (rev pre_rev, i, r) else extract j (i :: pre_rev) r
  end.

Lemma extract_spec : forall j l pre_rev pre i post, extract j pre_rev l = Some (pre, i, post) ->
  flip_match i j = true /\ rev pre_rev ++ l = pre ++ i :: post.
Proof.
  intros j. induction l as [|k r IH]; intros pre_rev pre i post H; simpl in H; [discriminate|].
  destruct (flip_match k j) eqn:F.
  - inversion H. subst. auto.
  - destruct (IH _ _ _ _ H) as [F' E]. split; auto. rewrite <- E. simpl. rewrite <- app_assoc. reflexivity.
Qed.

Fixpoint dft_perm (la lb : list inst) : bool :=
  match la with
  | [] => nilb lb
  | j :: ra =>
      match extract j [] lb with
      | Some (pre, i, post) => forallb (fun p => cross_ok p i) pre && dft_perm ra (pre ++ post)
      | None => false
      end
  end.

Lemma dft_perm_sound : forall E X la lb vs st, dft_perm la lb = true ->
  le (exec_insts E X lb vs st) (exec_insts E X la vs st).
Proof.
  intros E X. induction la as [|j ra IH]; intros lb vs st H; simpl in H.
  - destruct lb; [apply le_refl|discriminate].
  - destruct (extract j [] lb) as [[[pre i] post]|] eqn:EX; [|discriminate].
    apply andb_true_iff in H. destruct H as [C P].
    destruct (extract_spec j lb [] pre i post EX) as [F EQ]. simpl in EQ. subst lb.
    eapply le_trans. { apply move_front. exact C. }
    assert (HD : exec_insts E X (i :: pre ++ post) vs st = exec_insts E X (j :: pre ++ post) vs st).
    { simpl. rewrite (flip_exec E X i j vs st F). reflexivity. }
    rewrite HD. apply le_cons. intros. apply IH. assumption.
Qed.

(* ---------------------------------------------------------------- blocks and functions *)
Fixpoint split_phis (l : list inst) : list inst * list inst :=
  match l with
  | i :: r => if is_phi i then let (ps, rest) := split_phis r in (i :: ps, rest) else ([], l)
  | [] => ([], [])
  end.

Definition dft_block (lb la : list inst) : bool :=
  let (pb, rb) := split_phis lb in
  let (pa, ra) := split_phis la in
  (if list_eq_dec inst_eq_dec pb pa then true else false) && dft_perm ra rb.

Definition dft_check (b a : func) : bool := same_frame b a && blocks_match dft_block b a.

Lemma exec_phis_split : forall prev l old vs ps rest, split_phis l = (ps, rest) ->
  match exec_phis prev l old vs with
  | Some (vs', r) => r = rest /\ exec_phis prev (ps ++ [Inst [] O_stop []]) old vs = Some (vs', [Inst [] O_stop []])
  | None => exec_phis prev (ps ++ [Inst [] O_stop []]) old vs = None
  end.
Proof.
  intros prev. induction l as [|i r IH]; intros old vs ps rest S; simpl in S.
  - inversion S. subst. simpl. auto.
  - destruct (is_phi i) eqn:P.
    + destruct (split_phis r) as [ps' rest'] eqn:SR. inversion S. subst ps rest. clear S.
      rewrite (exec_phis_phi prev i r old vs P). simpl app. rewrite (exec_phis_phi prev i (ps' ++ [Inst [] O_stop []]) old vs P).
      destruct (i_outs i) as [|o [|o2 t]]; auto.
      destruct (phi_val prev (map (resolve old) (i_args i))); auto.
      apply (IH old _ ps' rest' eq_refl).
    + inversion S. subst ps rest. rewrite (exec_phis_nonphi prev i r old vs P). simpl. auto.
Qed.

(* the same leading phis: the same variable map after them *)
Lemma dft_block_sound : forall E X prev lb la vs st, dft_block lb la = true ->
  le (block_res E X prev lb vs st) (block_res E X prev la vs st).
Proof.
  intros E X prev lb la vs st H. unfold dft_block in H.
  destruct (split_phis lb) as [pb rb] eqn:SB. destruct (split_phis la) as [pa ra] eqn:SA.
  apply andb_true_iff in H. destruct H as [PE PM]. destruct (list_eq_dec inst_eq_dec pb pa) as [<-|]; [|discriminate].
  unfold block_res.
  pose proof (exec_phis_split prev lb vs vs pb rb SB) as HB. pose proof (exec_phis_split prev la vs vs pb ra SA) as HA.
  destruct (exec_phis prev lb vs vs) as [[vb' r1]|]; destruct (exec_phis prev la vs vs) as [[va' r2]|].
  - destruct HB as [-> HB]. destruct HA as [-> HA]. rewrite HB in HA. inversion HA. subst va'. apply dft_perm_sound. assumption.
  - destruct HB as [_ HB]. rewrite HB in HA. discriminate.
  - left. reflexivity.
  - left. reflexivity.
Qed.

(* ---------------------------------------------------------------- lifting to vrun, up to discarded stores *)
Definition res_obs_eq (ra rb : halt * store) : Prop :=
  fst ra = fst rb /\ (snd ra = snd rb \/ discards (fst rb) = true).

Lemma exec_insts_never_next : forall E X l vs st vs' st', exec_insts E X l vs st <> SNext vs' st'.
Proof.
  intros E X. induction l as [|i r IH]; intros vs st vs' st'; simpl; [discriminate|].
  destruct (exec_inst E X i vs st); try discriminate. apply IH.
Qed.

Lemma block_res_never_next : forall E X prev l vs st vs' st', block_res E X prev l vs st <> SNext vs' st'.
Proof.
  intros. unfold block_res. destruct (exec_phis prev l vs vs) as [[v r]|]; [apply exec_insts_never_next|discriminate].
Qed.

Lemma exec_phis_veq : forall prev oa ob, veq oa ob -> forall l vb va, veq va vb ->
  match exec_phis prev l ob vb with
  | Some (vb', r) => exists va', exec_phis prev l oa va = Some (va', r) /\ veq va' vb'
  | None => True
  end.
Proof.
  intros prev oa ob OV. induction l as [|i r IHl]; intros vb va V.
  - simpl. exists va. auto.
  - destruct (is_phi i) eqn:P.
    + rewrite (exec_phis_phi prev i r ob vb P), (exec_phis_phi prev i r oa va P).
      rewrite (resolve_agree TT oa ob (i_args i)); [|apply agree_TT; assumption|apply uses_in_TT].
      destruct (i_outs i) as [|o [|o2 t]]; auto.
      destruct (phi_val prev (map (resolve ob) (i_args i))); auto.
      apply IHl. apply agree_TT. apply agree_add. apply agree_TT. assumption.
    + rewrite (exec_phis_nonphi prev i r ob vb P), (exec_phis_nonphi prev i r oa va P). exists va. auto.
Qed.

Lemma block_res_veq : forall E X prev l vb va st, veq va vb -> le (block_res E X prev l vb st) (block_res E X prev l va st).
Proof.
  intros E X prev l vb va st V. unfold block_res.
  pose proof (exec_phis_veq prev va vb V l vb va V) as H.
  destruct (exec_phis prev l vb vb) as [[vb' r]|]; [|left; reflexivity].
  destruct H as [va' [EA V']]. rewrite EA. apply exec_insts_veq. assumption.
Qed.

Section Lift.
  Variable E : env.
  Variable X : oracle.
  Variable b a : func.
  Hypothesis BM : blocks_match dft_block b a = true.

  Lemma dft_run : forall n cur prev vb va st, veq va vb ->
    not_stuck (vrun_from n E X b cur prev vb st) ->
    res_obs_eq (vrun_from n E X a cur prev va st) (vrun_from n E X b cur prev vb st).
  Proof.
    induction n as [|n IH]; intros cur prev vb va st V NS.
    - simpl in NS. contradiction.
    - rewrite (vrun_from_S n E X a), (vrun_from_S n E X b) in *.
      pose proof (blocks_match_spec _ b a BM cur) as M.
      destruct (PositiveMap.find cur (f_blocks b)) as [lb|]; destruct (PositiveMap.find cur (f_blocks a)) as [la|];
        try contradiction.
      assert (L : le (block_res E X prev lb vb st) (block_res E X prev la va st)).
      { eapply le_trans; [apply block_res_veq; exact V|apply dft_block_sound; exact M]. }
      destruct L as [S|Q].
      + exfalso. destruct (block_res E X prev lb vb st) as [v s|l v s|h s]; simpl in S; try contradiction.
        destruct h; simpl in *; try discriminate; contradiction.
      + destruct (block_res E X prev lb vb st) as [v s|l v s|h s] eqn:RB;
          destruct (block_res E X prev la va st) as [v' s'|l' v' s'|h' s'] eqn:RA; simpl in Q; try contradiction.
        * destruct Q as [-> [V' ->]]. apply IH; auto.
        * destruct Q as [-> [K D]]. unfold res_obs_eq. simpl. split; auto. destruct D as [->|D]; auto.
  Qed.
End Lift.

Theorem dft_check_sound : forall b a, dft_check b a = true ->
  forall n E X st, not_stuck (vrun n E X b st) -> res_obs_eq (vrun n E X a st) (vrun n E X b st).
Proof.
  intros b a H n E X st NS. unfold dft_check in H. apply andb_true_iff in H. destruct H as [FR BM].
  unfold same_frame in FR. apply andb_true_iff in FR. destruct FR as [EN CO].
  apply Pos.eqb_eq in EN. destruct (code_eq_dec (f_code b) (f_code a)) as [CE|]; [|discriminate].
  unfold vrun in *. rewrite <- EN, <- CE. apply dft_run; auto. apply veq_refl.
Qed.

(* what is observable is the same *)
Corollary dft_check_observe : forall b a, dft_check b a = true ->
  forall n E X st, not_stuck (vrun n E X b st) -> observe st (vrun n E X a st) = observe st (vrun n E X b st).
Proof.
  intros b a H n E X st NS. pose proof (dft_check_sound b a H n E X st NS) as [HE SE].
  destruct (vrun n E X a st) as [ha sa]. destruct (vrun n E X b st) as [hb sb]. simpl in *. subst ha.
  destruct SE as [->|D]; auto. destruct hb; try discriminate D; reflexivity.
Qed.
