From Coq Require Import ZArith Bool List String Lia.
From Verif Require Import Base.Word256 Base.PyInt Base.WordLemmas C14.RangeBase C14.GenRange C14.RangeSound.
Import ListNotations.
Open Scope Z_scope.
Ltac Zify.zify_post_hook ::= Z.to_euclidean_division_equations.

Theorem eval_slt_sound : sound2 (eval_compare "slt") w_slt.
Proof.
  intros A B a b WA WB MA MB; unfold eval_compare, _range_spans_sign_boundary; streq; go2 A B;
    unfold w_slt, Word256.b2z, b2z in *.
  all: try (rewrite (to_signed_mod v1) by wl; rewrite (to_signed_mod v0) by wl).
  all: boolres.
Qed.
