(* Executable tie between the two exporters (tools/vlib/c14_pass_export.py -> Venom.v terms, tools/vlib/c14_fix.py ->
   RangeFix.v terms) for one function: the variable/label numbering is recovered by walking both terms in parallel,
   then the projection of the Venom.v term is compared with the RangeFix.v term and the validator is run on the
   projection itself (so that PropsFixVenom.venom_ranges_sound applies to it).  No proofs here. *)
From Coq Require Import ZArith NArith PArith Bool List String FMapPositive.
From Verif Require Import Base.Word256 Base.PyInt C14.RangeBase C14.RangeFix C14.VenomWords C14.FixVenom.
From Verif Require C14.Venom.
Import ListNotations.
Open Scope string_scope.
Open Scope Z_scope.

(* the exporter's `func_of entry blocks code`, keeping the block order (entry first) *)
Definition func_ord (entry : positive) (bl : list (positive * list V.inst)) (code : list (Z * list Z))
  : list positive * V.func :=
  (entry :: filter (fun l => negb (Pos.eqb l entry)) (map fst bl), V.func_of entry bl code).

Definition orient (unk : list (string * bool)) (i : V.inst) : list V.operand :=
  if no_reverse unk (V.i_op i) then V.i_args i else rev (V.i_args i).

Definition var_pairs (unk : list (string * bool)) (vi : V.inst) (fi : inst) : list (positive * N) :=
  (combine (V.i_outs vi) (i_outs fi) ++
   flat_map (fun p => match p with (V.OVar x, OVar y) => [(x, y)] | _ => [] end) (combine (orient unk vi) (i_args fi)))%list.
Definition lab_pairs (unk : list (string * bool)) (vi : V.inst) (fi : inst) : list (positive * N) :=
  flat_map (fun p => match p with (V.OLab x, OLab y) => [(x, y)] | _ => [] end) (combine (orient unk vi) (i_args fi)).

Definition all_pairs (g : V.inst -> inst -> list (positive * N)) (ord : list positive) (vf : V.func) (f : func) : list (positive * N) :=
  flat_map (fun lb => flat_map (fun ii => g (fst ii) (snd ii)) (combine (vblock vf (fst lb)) (snd lb))) (combine ord f).

Fixpoint dedup (seen : list positive) (l : list (positive * N)) : list (positive * N) :=
  match l with
  | [] => []
  | (x, y) :: t => if existsb (Pos.eqb x) seen then dedup seen t else (x, y) :: dedup (x :: seen) t
  end.

Definition operand_eqb (a b : operand) : bool :=
  match a, b with OLit x, OLit y => x =? y | OVar x, OVar y => N.eqb x y | OLab x, OLab y => N.eqb x y | _, _ => false end.
Definition operand_sim (a b : operand) : bool :=
  match a, b with OLit x, OLit y => x mod W =? y mod W | _, _ => operand_eqb a b end.
Fixpoint list_eqb {A} (e : A -> A -> bool) (a b : list A) : bool :=
  match a, b with [] , [] => true | x :: s, y :: t => e x y && list_eqb e s t | _, _ => false end.
Definition inst_eqb (a b : inst) : bool :=
  String.eqb (i_op a) (i_op b) && list_eqb operand_eqb (i_args a) (i_args b) && list_eqb N.eqb (i_outs a) (i_outs b).
(* documented differences of the two exporters: alloca carries its placement address, `offset` is resolved to a
   literal, literals are reduced mod 2^256 *)
Definition inert_pair (p f : string) : bool :=
  (String.eqb p "alloca" && (String.eqb f "alloca" || String.eqb f "initial_fmp")) ||
  (String.eqb p "assign" && String.eqb f "offset") ||
  (String.eqb p "" && String.eqb f "offset").
Definition inst_sim (a b : inst) : bool :=
  list_eqb N.eqb (i_outs a) (i_outs b) &&
  (inert_pair (i_op a) (i_op b) || (String.eqb (i_op a) (i_op b) && list_eqb operand_sim (i_args a) (i_args b))).

Definition b2Z (b : bool) : Z := if b then 1 else 0.

(* [similar; exactly equal instructions; instructions; vf_okb; lab_okb; ren_okb; check (proj vf) Ec; check f Ec; env/store side: code bytes ok] *)
Definition tie_result (unk : list (string * bool)) (ov : list positive * V.func) (f : func) (Ec : list aenv) : list Z :=
  let ord := fst ov in let vf := snd ov in
  let alv := dedup [] (all_pairs (var_pairs unk) ord vf f) in
  let all := dedup [] (combine ord (map N.of_nat (seq 0 (List.length ord))) ++ all_pairs (lab_pairs unk) ord vf f) in
  let lab := lab_of all in let ren := ren_of alv in
  let pf := proj lab ren unk ord vf in
  let pairs := flat_map (fun bb => combine (fst bb) (snd bb)) (combine pf f) in
  let shape := Nat.eqb (List.length pf) (List.length f) &&
               forallb (fun bb => Nat.eqb (List.length (fst bb)) (List.length (snd bb))) (combine pf f) &&
               Nat.eqb (List.length (PositiveMap.elements (V.f_blocks vf))) (List.length ord) in
  [ b2Z (shape && forallb (fun p => inst_sim (fst p) (snd p)) pairs);
    Z.of_nat (List.length (filter (fun p => inst_eqb (fst p) (snd p)) pairs));
    Z.of_nat (List.length pairs);
    b2Z (vf_okb vf); b2Z (lab_okb lab ord vf); b2Z (ren_okb alv);
    b2Z (check pf Ec); b2Z (check f Ec);
    b2Z (forallb (fun seg : Z * list Z => forallb (fun b => b <? 256) (snd seg)) (V.f_code vf)) ].
