(* C14 / Liveness.v -- verified validator for the result of vyper.venom.analysis.LivenessAnalysis.

   The real analysis result (for every instruction the set of variables live right before it, and the out set of every
   block) is exported as a table; `live_check f T` re-checks the use/def inequalities and the edge conditions (phi
   arguments are read on the edge from their label; phi outputs are defined on entry).
   Theorem live_check_sound: if the table is accepted, every variable that is read along some path of the control-flow
   graph before being redefined (`live`) is in the table at that point; live_out_sound: the same for the block out sets. *)
From Coq Require Import ZArith List Bool FMapPositive Lia.
From Verif Require Import Base.Word256 C14.Venom C14.VenomProofs C14.VenomSim.
Import ListNotations.

Definition vset := list positive.
Definition memv (v : positive) (s : vset) : bool := existsb (Pos.eqb v) s.
Definition subv (a b : vset) : bool := forallb (fun v => memv v b) a.

Lemma memv_In : forall v s, memv v s = true <-> In v s.
Proof.
  intros v s. unfold memv. rewrite existsb_exists. split.
  - intros [x [I E]]. apply Pos.eqb_eq in E. subst. assumption.
  - intros I. exists v. split; auto. apply Pos.eqb_refl.
Qed.

Lemma subv_spec : forall a b, subv a b = true -> forall v, In v a -> memv v b = true.
Proof. unfold subv. intros a b H v I. rewrite forallb_forall in H. auto. Qed.

Definition uses (i : inst) : list positive := op_vars (i_args i).
Definition is_term_jump (o : opc) : bool := match o with O_jmp | O_jnz | O_djmp => true | _ => false end.

Fixpoint nphis (l : list inst) : nat := match l with i :: r => if is_phi i then S (nphis r) else O | [] => O end.
Definition lead_phis (l : list inst) : list inst := firstn (nphis l) l.
Definition phi_outs (l : list inst) : list positive := flat_map i_outs (lead_phis l).

Definition table := PositiveMap.t (list vset * vset).    (* label -> (live before each instruction, out set) *)

Section Live.
  Variable f : func.
  Definition blk (l : positive) := PositiveMap.find l (f_blocks f).

  (* v is read by a phi of block `tin` when it is entered from l *)
  Definition phi_reads (tin : list inst) (l v : positive) : Prop :=
    exists p, In p (lead_phis tin) /\ phi_pick l (i_args p) = Some (OVar v).

  (* live l k v : v may be read before being redefined, starting right before instruction k of block l *)
  Inductive live : positive -> nat -> positive -> Prop :=
  | live_use : forall l insts k i v, blk l = Some insts -> nth_error insts k = Some i -> is_phi i = false ->
      In v (uses i) -> live l k v
  | live_next : forall l insts k i v, blk l = Some insts -> nth_error insts k = Some i -> is_phi i = false ->
      ~ In v (i_outs i) -> live l (S k) v -> live l k v
  | live_edge_phi : forall l insts k i t tin v, blk l = Some insts -> nth_error insts k = Some i ->
      is_term_jump (i_op i) = true -> In (OLab t) (i_args i) -> blk t = Some tin -> phi_reads tin l v -> live l k v
  | live_edge : forall l insts k i t tin v, blk l = Some insts -> nth_error insts k = Some i ->
      is_term_jump (i_op i) = true -> In (OLab t) (i_args i) -> blk t = Some tin ->
      ~ In v (phi_outs tin) -> live t (nphis tin) v -> live l k v.

  (* live on some edge out of the jump instruction k of block l *)
  Definition live_after_jump (l : positive) (k : nat) (v : positive) : Prop :=
    exists insts i t tin, blk l = Some insts /\ nth_error insts k = Some i /\ is_term_jump (i_op i) = true /\
      In (OLab t) (i_args i) /\ blk t = Some tin /\ (phi_reads tin l v \/ (~ In v (phi_outs tin) /\ live t (nphis tin) v)).

  Variable T : table.
  Definition T_at (l : positive) (k : nat) : vset :=
    match PositiveMap.find l T with Some (tab, out) => nth k tab out | None => [] end.

  Definition edge_ok (l : positive) (tin : list inst) (tab_t : list vset) (out_t : vset) (nxt : vset) : bool :=
    forallb (fun p => match phi_pick l (i_args p) with Some (OVar v) => memv v nxt | _ => true end) (lead_phis tin)
    && forallb (fun v => memv v (phi_outs tin) || memv v nxt) (nth (nphis tin) tab_t out_t).

  Definition EC (l : positive) (i : inst) (nxt : vset) : bool :=
    if is_term_jump (i_op i) then
      match i_outs i with [] => true | _ => false end &&
      forallb (fun o => match o with
                        | OLab t => match blk t with
                                    | Some tin => match PositiveMap.find t T with
                                                  | Some (tab_t, out_t) => edge_ok l tin tab_t out_t nxt
                                                  | None => false end
                                    | None => true end
                        | _ => true end) (i_args i)
    else true.

  Fixpoint chk_insts (l : positive) (insts : list inst) (tab : list vset) (out : vset) : bool :=
    match insts, tab with
    | [], [] => true
    | i :: r, L :: tr =>
        let nxt := match tr with L' :: _ => L' | [] => out end in
        (is_phi i || (subv (uses i) L && subv (filter (fun v => negb (memv v (i_outs i))) nxt) L && EC l i nxt))
        && chk_insts l r tr out
    | _, _ => false
    end.

  Definition live_check : bool :=
    forallb (fun kv => match PositiveMap.find (fst kv) T with
                       | Some (tab, out) => chk_insts (fst kv) (snd kv) tab out
                       | None => false end) (PositiveMap.elements (f_blocks f)).

  Lemma chk_insts_nth : forall l insts tab out k i, chk_insts l insts tab out = true ->
    nth_error insts k = Some i -> is_phi i = false ->
    subv (uses i) (nth k tab out) = true /\
    subv (filter (fun v => negb (memv v (i_outs i))) (nth (S k) tab out)) (nth k tab out) = true /\
    EC l i (nth (S k) tab out) = true.
  Proof.
    intros l. induction insts as [|j r IH]; intros tab out k i C N P.
    - destruct k; discriminate.
    - destruct tab as [|L tr]; [discriminate|]. simpl in C. apply andb_true_iff in C. destruct C as [C1 C2].
      destruct k as [|k].
      + simpl in N. inversion N. subst j. rewrite P in C1. simpl in C1.
        apply andb_true_iff in C1. destruct C1 as [C1 C3]. apply andb_true_iff in C1. destruct C1 as [C1 C4].
        simpl. destruct tr; auto.
      + simpl in N. specialize (IH tr out k i C2 N P).
        replace (nth (S k) (L :: tr) out) with (nth k tr out) by reflexivity.
        replace (nth (S (S k)) (L :: tr) out) with (nth (S k) tr out) by reflexivity. exact IH.
  Qed.

  Hypothesis CHK : live_check = true.

  Lemma block_checked : forall l insts, blk l = Some insts ->
    exists tab out, PositiveMap.find l T = Some (tab, out) /\ chk_insts l insts tab out = true.
  Proof.
    intros l insts B. unfold live_check in CHK. rewrite forallb_forall in CHK.
    specialize (CHK (l, insts) (PositiveMap.elements_correct _ _ B)). simpl in CHK.
    destruct (PositiveMap.find l T) as [[tab out]|]; [|discriminate]. eauto.
  Qed.

  Lemma edge_sound : forall l insts k i t tin v, blk l = Some insts -> nth_error insts k = Some i ->
    is_term_jump (i_op i) = true -> In (OLab t) (i_args i) -> blk t = Some tin ->
    (phi_reads tin l v \/ (~ In v (phi_outs tin) /\ memv v (T_at t (nphis tin)) = true)) ->
    i_outs i = [] /\ memv v (T_at l (S k)) = true.
  Proof.
    intros l insts k i t tin v B N J IL Bt H.
    destruct (block_checked l insts B) as [tab [out [FT C]]].
    assert (P : is_phi i = false). { unfold is_phi. destruct (i_op i); try reflexivity; discriminate. }
    destruct (chk_insts_nth l insts tab out k i C N P) as [_ [_ E]].
    unfold EC in E. rewrite J in E. apply andb_true_iff in E. destruct E as [EO E].
    split. { destruct (i_outs i); [reflexivity|discriminate]. }
    rewrite forallb_forall in E. specialize (E (OLab t) IL). simpl in E. rewrite Bt in E.
    unfold T_at. rewrite FT.
    destruct (PositiveMap.find t T) as [[tab_t out_t]|] eqn:FTt; [|discriminate].
    unfold edge_ok in E. apply andb_true_iff in E. destruct E as [E1 E2]. rewrite forallb_forall in E1, E2.
    destruct H as [[p [Ip Pp]]|[NO M]].
    - specialize (E1 p Ip). rewrite Pp in E1. exact E1.
    - unfold T_at in M. rewrite FTt in M. apply memv_In in M. specialize (E2 v M).
      apply orb_true_iff in E2. destruct E2 as [E2|E2]; auto. apply memv_In in E2. contradiction.
  Qed.

  Lemma step_sound : forall l insts k i v, blk l = Some insts -> nth_error insts k = Some i -> is_phi i = false ->
    ~ In v (i_outs i) -> memv v (T_at l (S k)) = true -> memv v (T_at l k) = true.
  Proof.
    intros l insts k i v B N P NO M.
    destruct (block_checked l insts B) as [tab [out [FT C]]].
    destruct (chk_insts_nth l insts tab out k i C N P) as [_ [S _]].
    unfold T_at in *. rewrite FT in *. eapply subv_spec; eauto.
    apply filter_In. split. - apply memv_In. assumption.
    - destruct (memv v (i_outs i)) eqn:E; auto. apply memv_In in E. contradiction.
  Qed.

  Theorem live_check_sound : forall l k v, live l k v -> memv v (T_at l k) = true.
  Proof.
    intros l k v H. induction H.
    - destruct (block_checked l insts H) as [tab [out [FT C]]].
      destruct (chk_insts_nth l insts tab out k i C H0 H1) as [U _].
      unfold T_at. rewrite FT. eapply subv_spec; eauto.
    - eapply step_sound; eauto.
    - destruct (edge_sound l insts k i t tin v H H0 H1 H2 H3 (or_introl H4)) as [O M].
      assert (P : is_phi i = false). { unfold is_phi. destruct (i_op i); try reflexivity; discriminate. }
      eapply step_sound; eauto. rewrite O. auto.
    - destruct (edge_sound l insts k i t tin v H H0 H1 H2 H3 (or_intror (conj H4 IHlive))) as [O M].
      assert (P : is_phi i = false). { unfold is_phi. destruct (i_op i); try reflexivity; discriminate. }
      eapply step_sound; eauto. rewrite O. auto.
  Qed.

  (* the variables live on an edge out of the jump k are in the table entry after k (the block's out set when the jump is
     the last instruction) *)
  Theorem live_out_sound : forall l k v, live_after_jump l k v -> memv v (T_at l (S k)) = true.
  Proof.
    intros l k v [insts [i [t [tin [B [N [J [IL [Bt H]]]]]]]]].
    eapply edge_sound; eauto. destruct H as [H|[NO L]]; [left; assumption|right; split; auto].
    apply live_check_sound. assumption.
  Qed.
End Live.

Definition table_of (l : list (positive * (list vset * vset))) : table :=
  fold_left (fun m kv => PositiveMap.add (fst kv) (snd kv) m) l (PositiveMap.empty (list vset * vset)).
