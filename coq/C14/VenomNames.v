(* C14 / VenomNames.v -- opcode names (keys of the tables in vyper/venom/effects.py) of the modelled opcodes. *)
From Coq Require Import ZArith List String.
From Verif Require Import C14.Venom.
Import ListNotations.
Open Scope string_scope.

Definition env_names : list string := ["caller"; "callvalue"; "address"; "origin"; "timestamp"; "number"; "chainid"].

Definition opc_name (o : opc) : string :=
  match o with
  | O_add => "add" | O_sub => "sub" | O_mul => "mul" | O_div => "div" | O_sdiv => "sdiv" | O_mod => "mod" | O_smod => "smod"
  | O_exp => "exp" | O_addmod => "addmod" | O_mulmod => "mulmod" | O_lt => "lt" | O_gt => "gt" | O_slt => "slt" | O_sgt => "sgt"
  | O_eq => "eq" | O_iszero => "iszero" | O_and => "and" | O_or => "or" | O_xor => "xor" | O_not => "not" | O_byte => "byte"
  | O_shl => "shl" | O_shr => "shr" | O_sar => "sar" | O_signextend => "signextend" | O_assign => "assign" | O_alloca => "alloca"
  | O_env k => nth k env_names ""
  | O_calldatasize => "calldatasize" | O_calldataload => "calldataload" | O_calldatacopy => "calldatacopy"
  | O_mload => "mload" | O_mstore => "mstore" | O_mcopy => "mcopy" | O_codecopy => "codecopy"
  | O_bump => "bump" | O_dalloca => "dalloca" | O_getfmp => "getfmp" | O_setfmp => "setfmp"
  | O_sload => "sload" | O_sstore => "sstore" | O_tload => "tload" | O_tstore => "tstore"
  | O_iload => "iload" | O_istore => "istore" | O_sha3 => "sha3" | O_log => "log"
  | O_returndatasize => "returndatasize" | O_returndatacopy => "returndatacopy"
  | O_call => "call" | O_staticcall => "staticcall" | O_delegatecall => "delegatecall" | O_create => "create" | O_create2 => "create2"
  | O_balance => "balance" | O_selfbalance => "selfbalance" | O_extcodesize => "extcodesize" | O_extcodehash => "extcodehash"
  | O_extcodecopy => "extcodecopy" | O_nop => "nop"
  | O_phi => "phi" | O_jmp => "jmp" | O_jnz => "jnz" | O_djmp => "djmp" | O_assert => "assert" | O_assert_unreachable => "assert_unreachable"
  | O_return => "return" | O_revert => "revert" | O_stop => "stop" | O_invalid => "invalid"
  | O_unknown _ => ""
  end.
