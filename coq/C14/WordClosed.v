(* The EVM word operations of RangeOp.word_op (and exp/addmod/mulmod) map words to words; consequently the concrete
   semantics of RangeFix.v is total: every instruction has a successor state in which all variables hold words
   (the side condition "outputs are words" of step_conc never conflicts with the value a determined instruction
   computes). *)
From Coq Require Import ZArith NArith Bool List String Lia.
From Verif Require Import Base.Word256 Base.PyInt Base.WordLemmas C14.RangeBase.
From Verif Require C14.GenRange.
From Verif Require Import C14.RangeSound C14.RangeLemmas2 C14.RangeSignext C14.RangeOp C14.RangeFix.
Import ListNotations.
Open Scope string_scope.
Open Scope Z_scope.
Ltac Zify.zify_post_hook ::= Z.to_euclidean_division_equations.

Definition word (x : Z) : Prop := 0 <= x < W.
Definition closed2 (w : Z -> Z -> Z) : Prop := forall a b, word a -> word b -> word (w a b).

Lemma W_pos : 0 < W. Proof. reflexivity. Qed.
Lemma modW_word x : word (x mod W). Proof. apply Z.mod_pos_bound. exact W_pos. Qed.
Lemma b2z_word c : word (Word256.b2z c). Proof. destruct c; cbn; unfold word; wl. Qed.

Lemma add_closed : closed2 w_add. Proof. intros a b _ _. apply modW_word. Qed.
Lemma sub_closed : closed2 w_sub. Proof. intros a b _ _. apply modW_word. Qed.
Lemma mul_closed : closed2 w_mul. Proof. intros a b _ _. apply modW_word. Qed.
Lemma div_closed : closed2 w_div.
Proof.
  intros a b Ha Hb. unfold w_div, word in *. destruct (b =? 0) eqn:E; b2p; [wl|].
  split; [apply Z.div_pos; lia|]. apply Z.le_lt_trans with a; [apply Z.div_le_upper_bound; nia | lia].
Qed.
Lemma mod_closed : closed2 w_mod.
Proof.
  intros a b Ha Hb. unfold w_mod, word in *. destruct (b =? 0) eqn:E; b2p; [wl|].
  pose proof (Z.mod_pos_bound a b ltac:(lia)). lia.
Qed.
Lemma sdiv_closed : closed2 w_sdiv.
Proof. intros a b _ _. unfold w_sdiv, of_signed. destruct (b =? 0); [unfold word; wl | apply modW_word]. Qed.
Lemma smod_closed : closed2 w_smod.
Proof. intros a b _ _. unfold w_smod, of_signed. destruct (b =? 0); [unfold word; wl | apply modW_word]. Qed.
Lemma exp_closed : closed2 w_exp.
Proof. intros a b _ Hb. rewrite w_exp_eq by (unfold word in Hb; lia). apply modW_word. Qed.
Lemma lt_closed : closed2 w_lt. Proof. intros a b _ _. apply b2z_word. Qed.
Lemma gt_closed : closed2 w_gt. Proof. intros a b _ _. apply b2z_word. Qed.
Lemma slt_closed : closed2 w_slt. Proof. intros a b _ _. apply b2z_word. Qed.
Lemma sgt_closed : closed2 w_sgt. Proof. intros a b _ _. apply b2z_word. Qed.
Lemma eq_closed : closed2 w_eq. Proof. intros a b _ _. apply b2z_word. Qed.
Lemma iszero_closed a : word (w_iszero a). Proof. apply b2z_word. Qed.
Lemma and_closed : closed2 w_and.
Proof. intros a b Ha Hb. unfold w_and, word in *. pose proof (land_le_l a b ltac:(lia)). lia. Qed.
Lemma or_closed : closed2 w_or. Proof. intros a b Ha Hb. apply word_lor; assumption. Qed.
Lemma xor_closed : closed2 w_xor. Proof. intros a b Ha Hb. apply word_lxor; assumption. Qed.
Lemma not_closed a : word a -> word (w_not a). Proof. unfold w_not, MAXU, word. lia. Qed.
Lemma byte_closed : closed2 w_byte.
Proof.
  intros i x _ _. unfold w_byte, word. destruct (i <? 32); [|wl].
  pose proof (Z.mod_pos_bound (x / 2 ^ (8 * (31 - i))) 256 ltac:(lia)). wl.
Qed.
Lemma shl_closed : closed2 w_shl.
Proof. intros s x _ _. unfold w_shl. destruct (s <? 256); [apply modW_word | unfold word; wl]. Qed.
Lemma shr_closed : closed2 w_shr.
Proof.
  intros s x Hs Hx. unfold w_shr, word in *. destruct (s <? 256); [|wl].
  assert (0 < 2 ^ s) by (apply Z.pow_pos_nonneg; lia).
  split; [apply Z.div_pos; lia|]. apply Z.le_lt_trans with x; [apply Z.div_le_upper_bound; nia | lia].
Qed.
Lemma sar_closed : closed2 w_sar.
Proof.
  intros s x _ _. unfold w_sar, of_signed, MAXU. destruct (s <? 256); [apply modW_word|].
  destruct (to_signed x <? 0); unfold word; wl.
Qed.
Lemma signextend_closed : closed2 w_signextend.
Proof.
  intros i x Hi Hx. destruct (Z_lt_dec i 32) as [L|G].
  - destruct (sx_sound i x ltac:(unfold word in Hi; lia) Hx) as [_ <-]. apply modW_word.
  - unfold w_signextend. assert (i <? 31 = false) as -> by (apply Z.ltb_ge; lia). exact Hx.
Qed.
Lemma addmod_closed a b n : word n -> word (w_addmod a b n).
Proof.
  intros Hn. unfold w_addmod, word in *. destruct (n =? 0) eqn:E; b2p; [wl|].
  pose proof (Z.mod_pos_bound (a + b) n ltac:(lia)). lia.
Qed.
Lemma mulmod_closed a b n : word n -> word (w_mulmod a b n).
Proof.
  intros Hn. unfold w_mulmod, word in *. destruct (n =? 0) eqn:E; b2p; [wl|].
  pose proof (Z.mod_pos_bound (a * b) n ltac:(lia)). lia.
Qed.

(* (A) every operation the range analysis interprets maps words to words *)
Theorem word_op_closed : forall op w, RangeOp.word_op op = Some w ->
  forall a b, 0 <= a < W -> 0 <= b < W -> 0 <= w a b < W.
Proof.
  intros op w Hw. unfold RangeOp.word_op in Hw.
  repeat match type of Hw with
  | (if String.eqb op ?s then _ else _) = _ =>
      destruct (String.eqb op s); [ injection Hw as <- | ]
  end; try discriminate; intros a b Ha Hb.
  - exact (add_closed a b Ha Hb).
  - exact (sub_closed a b Ha Hb).
  - exact (mul_closed a b Ha Hb).
  - exact (and_closed a b Ha Hb).
  - exact (or_closed a b Ha Hb).
  - exact (xor_closed a b Ha Hb).
  - exact (byte_closed a b Ha Hb).
  - exact (signextend_closed a b Ha Hb).
  - exact (mod_closed a b Ha Hb).
  - exact (div_closed a b Ha Hb).
  - exact (sdiv_closed a b Ha Hb).
  - exact (smod_closed a b Ha Hb).
  - exact (shr_closed a b Ha Hb).
  - exact (shl_closed a b Ha Hb).
  - exact (sar_closed a b Ha Hb).
  - exact (eq_closed a b Ha Hb).
  - exact (lt_closed a b Ha Hb).
  - exact (gt_closed a b Ha Hb).
  - exact (slt_closed a b Ha Hb).
  - exact (sgt_closed a b Ha Hb).
  - exact (iszero_closed a).
  - exact (not_closed a Ha).
Qed.

(* the same table as restated in RangeFix.v (definitions only there) *)
Lemma word_op_closed_fix : forall op w, RangeFix.word_op op = Some w ->
  forall a b, 0 <= a < W -> 0 <= b < W -> 0 <= w a b < W.
Proof. intros op w H. apply (word_op_closed op w). exact H. Qed.

(* ------------------------------------------------------------------ consequences for RangeFix.step_conc *)
Lemma oval_word lv c o : lv_ok lv -> cenv_ok c -> 0 <= oval lv c o < W.
Proof. intros Hl Hc. destruct o; cbn [oval]; [apply modW_word | apply Hc | apply Hl]. Qed.

(* the value a determined instruction computes is a word *)
Lemma sem_fun_word lv ins g c : lv_ok lv -> cenv_ok c -> sem_fun lv ins = Some g -> 0 <= g c < W.
Proof.
  intros Hl Hc. unfold sem_fun.
  destruct (has_label (i_args ins)); [discriminate|].
  destruct (i_outs ins) as [|o [|? ?]]; try discriminate.
  destruct (String.eqb (i_op ins) "assign").
  - destruct (i_args ins) as [|a [|? ?]]; try discriminate. intros H. injection H as <-. apply oval_word; assumption.
  - destruct (RangeFix.word_op (i_op ins)) as [w|] eqn:Ew; [|discriminate].
    pose proof (word_op_closed_fix _ _ Ew) as Cl.
    destruct (is_unary (i_op ins)).
    + destruct (i_args ins) as [|a [|? ?]]; try discriminate. intros H. injection H as <-.
      apply Cl; [apply oval_word; assumption | wl].
    + destruct (i_args ins) as [|a2 [|a1 [|? ?]]]; try discriminate. intros H. injection H as <-.
      apply Cl; apply oval_word; assumption.
Qed.

Definition in_outs (x : N) (l : list N) : bool := existsb (N.eqb x) l.
Lemma in_outs_In x l : in_outs x l = true <-> In x l.
Proof.
  unfold in_outs. rewrite existsb_exists. split.
  - intros [y [H E]]. apply N.eqb_eq in E. subst. exact H.
  - intros H. exists x. split; [exact H | apply N.eqb_refl].
Qed.

(* the semantics never blocks except at a failing assert: every other instruction can be executed from every word
   state, and the successor is a word state; so the side condition "outputs are words" of step_conc is implied by
   (never contradicts) the value a determined instruction computes *)
Theorem step_conc_total lv ins c : lv_ok lv -> cenv_ok c -> assert_passes lv ins c ->
  exists c', step_conc lv ins c c' /\ cenv_ok c'.
Proof.
  intros Hl Hc AP.
  set (v := match sem_fun lv ins with Some g => g c | None => 0 end).
  assert (Hv : 0 <= v < W).
  { unfold v. destruct (sem_fun lv ins) as [g|] eqn:E; [exact (sem_fun_word lv ins g c Hl Hc E) | wl]. }
  exists (fun x => if in_outs x (i_outs ins) then v else c x). split; [split; [|split; [|split; [|exact AP]]]|].
  - intros x Hx. destruct (in_outs x (i_outs ins)) eqn:E; [apply in_outs_In in E; contradiction | reflexivity].
  - intros x Hx. apply in_outs_In in Hx. rewrite Hx. exact Hv.
  - intros g o Hg Ho. rewrite Ho. cbn [in_outs existsb]. rewrite N.eqb_refl. cbn [orb]. unfold v. rewrite Hg. reflexivity.
  - intros x. destruct (in_outs x (i_outs ins)); [exact Hv | apply Hc].
Qed.

(* every successor state of a word state is a word state *)
Lemma step_conc_cenv_ok lv ins c c' : cenv_ok c -> step_conc lv ins c c' -> cenv_ok c'.
Proof.
  intros Hc (Hk & Hw & _ & _) x. destruct (in_outs x (i_outs ins)) eqn:E.
  - apply Hw. apply in_outs_In. exact E.
  - rewrite Hk; [apply Hc|]. intros H. apply in_outs_In in H. congruence.
Qed.
