(* C14 / VenomSim.v -- simulation toolkit for proved translation validators over the semantics of Venom.v.

   * `resolve`/`exec_inst_r`: an instruction's behaviour depends on the variable map only through the values of its
     non-label operands (`exec_inst_factor`, `phi_step_factor`), so two instructions with the same opcode, outputs and
     resolved arguments behave alike;
   * `agree U va vb`: the two variable maps coincide on the variables in U;
   * `sim_run`: block-wise simulation lifted to `vrun_from` (one- or two-sided with respect to stuck runs). *)
From Coq Require Import ZArith List Bool FMapPositive Lia.
From Verif Require Import Base.Word256 C14.Venom C14.VenomProofs.
Import ListNotations.
Open Scope Z_scope.
Opaque label_addr.

(* ---------------------------------------------------------------- resolved arguments *)
Inductive rarg := RLab (l : positive) | RVal (v : option Z).

Definition resolve (vs : vmap) (o : operand) : rarg :=
  match o with OLab l => RLab l | _ => RVal (eval_op vs o) end.

Fixpoint rvals (l : list rarg) : option (list Z) :=
  match l with
  | [] => Some []
  | RVal (Some v) :: t => match rvals t with Some r => Some (v :: r) | None => None end
  | _ => None
  end.

Lemma eval_ops_rvals : forall vs l, eval_ops vs l = rvals (map (resolve vs) l).
Proof.
  induction l as [|o t IH]; simpl; auto.
  rewrite IH. destruct o as [z|v|l]; simpl; auto.
Qed.

Definition rval (r : rarg) : option Z := match r with RVal v => v | RLab _ => None end.

Lemma eval_op_rval : forall vs o, eval_op vs o = rval (resolve vs o).
Proof. destruct o; reflexivity. Qed.

Definition exec_simple_r (E : env) (X : oracle) (op : opc) (outs : list positive) (ra : list rarg) (vs : vmap) (st : store)
  : R (vmap * store) :=
  match rvals ra with
  | None => Err EUndef
  | Some argv =>
      match wrapped E X op argv st with
      | Err e => Err e
      | Ok (ovals, st') => match bind_outs vs outs ovals with Some vs' => Ok (vs', st') | None => Err EArity end
      end
  end.

Lemma exec_simple_factor : forall E X i vs st,
  exec_simple E X i vs st = exec_simple_r E X (i_op i) (i_outs i) (map (resolve vs) (i_args i)) vs st.
Proof. intros. unfold exec_simple, exec_simple_r. rewrite eval_ops_rvals. reflexivity. Qed.

Definition guard_r (c : rarg) (st : store) (k : Z -> step_res) : step_res :=
  match rval c with
  | Some v => k v
  | None => SHalt (HStuck EUndef) st
  end.

Definition exec_inst_r (E : env) (X : oracle) (op : opc) (outs : list positive) (ra : list rarg) (vs : vmap) (st : store)
  : step_res :=
  match op with
  | O_jmp => match ra with [RLab l] => SJump l vs st | _ => SHalt (HStuck EArity) st end
  | O_jnz =>
      match ra with
      | [c; RLab t; RLab e] =>
          guard_r c st (fun v => if v <? 0 then SHalt (HStuck (EPoison 1)) st else SJump (if v =? 0 then e else t) vs st)
      | _ => SHalt (HStuck EArity) st
      end
  | O_djmp =>
      match ra with
      | t :: labs =>
          guard_r t st (fun v =>
            match find (fun o => match o with RLab l => label_addr l =? v | _ => false end) labs with
            | Some (RLab l) => SJump l vs st
            | _ => SHalt (HStuck EBadLabel) st
            end)
      | _ => SHalt (HStuck EArity) st
      end
  | O_assert =>
      match ra with
      | [c] => guard_r c st (fun v => if v <? 0 then SHalt (HStuck (EPoison 2)) st
                                      else if v =? 0 then SHalt (HRevert []) st else SNext vs st)
      | _ => SHalt (HStuck EArity) st
      end
  | O_assert_unreachable =>
      match ra with
      | [c] => guard_r c st (fun v => if v <? 0 then SHalt (HStuck (EPoison 2)) st
                                      else if v =? 0 then SHalt HInvalid st else SNext vs st)
      | _ => SHalt (HStuck EArity) st
      end
  | O_stop => SHalt HStop st
  | O_invalid => SHalt HInvalid st
  | O_return =>
      match rvals ra with
      | Some [p; n] => halt_data st p n HReturn
      | Some _ => SHalt (HStuck EArity) st
      | None => SHalt (HStuck EUndef) st
      end
  | O_revert =>
      match rvals ra with
      | Some [p; n] => halt_data st p n HRevert
      | Some _ => SHalt (HStuck EArity) st
      | None => SHalt (HStuck EUndef) st
      end
  | O_phi => SHalt (HStuck EArity) st
  | O_unknown c => SHalt (HStuck (EUnknown c)) st
  | _ => match exec_simple_r E X op outs ra vs st with Ok (vs', st') => SNext vs' st' | Err e => SHalt (HStuck e) st end
  end.

Lemma find_resolve : forall vs v labs,
  find (fun o => match o with RLab l => label_addr l =? v | _ => false end) (map (resolve vs) labs)
  = option_map (resolve vs) (find (fun o => match o with OLab l => label_addr l =? v | _ => false end) labs).
Proof.
  induction labs as [|o t IH]; simpl; auto.
  destruct o as [z|x|l]; simpl; try apply IH.
  destruct (label_addr l =? v); simpl; auto.
Qed.

Lemma exec_inst_factor : forall E X i vs st,
  exec_inst E X i vs st = exec_inst_r E X (i_op i) (i_outs i) (map (resolve vs) (i_args i)) vs st.
Proof.
  intros E X [outs op args] vs st. unfold exec_inst, exec_inst_r. simpl.
  destruct op;
    try (match goal with |- context [exec_simple E X ?i vs st] => rewrite (exec_simple_factor E X i vs st) end; reflexivity);
    try reflexivity.
  - (* jmp *) destruct args as [|[z|v|l] [|o2 t]]; reflexivity.
  - (* jnz *)
    destruct args as [|c [|[z|v|l] [|[z2|v2|l2] [|o4 t]]]]; try reflexivity.
    cbn [map resolve]. unfold guard_r. rewrite <- eval_op_rval. reflexivity.
  - (* djmp *)
    destruct args as [|t labs]; try reflexivity. cbn [map]. unfold guard_r. rewrite <- eval_op_rval.
    destruct (eval_op vs t) as [v|]; try reflexivity.
    rewrite find_resolve.
    destruct (find (fun o => match o with OLab l => label_addr l =? v | _ => false end) labs) as [[z|x|l]|]; reflexivity.
  - (* assert *)
    destruct args as [|c [|o2 t]]; try reflexivity. cbn [map]. unfold guard_r. rewrite <- eval_op_rval. reflexivity.
  - (* assert_unreachable *)
    destruct args as [|c [|o2 t]]; try reflexivity. cbn [map]. unfold guard_r. rewrite <- eval_op_rval. reflexivity.
  - (* return *) rewrite eval_ops_rvals. reflexivity.
  - (* revert *) rewrite eval_ops_rvals. reflexivity.
Qed.

(* phis *)
Fixpoint phi_val (prev : positive) (ra : list rarg) : option Z :=
  match ra with
  | RLab l :: v :: t => if Pos.eqb l prev then rval v else phi_val prev t
  | _ => None
  end.

Lemma phi_val_resolve : forall old prev a,
  match phi_pick prev a with Some o => eval_op old o | None => None end = phi_val prev (map (resolve old) a).
Proof.
  intros old prev. fix IH 1. intros a.
  destruct a as [|[z|v|l] [|o t]]; simpl; auto.
  destruct (Pos.eqb l prev).
  - apply eval_op_rval.
  - apply IH.
Qed.

Definition is_phi (i : inst) : bool := match i_op i with O_phi => true | _ => false end.

Lemma exec_phis_phi : forall prev i rest old vs, is_phi i = true ->
  exec_phis prev (i :: rest) old vs =
  match i_outs i, phi_val prev (map (resolve old) (i_args i)) with
  | [o], Some v => exec_phis prev rest old (PositiveMap.add o v vs)
  | _, _ => None
  end.
Proof.
  intros prev [outs op args] rest old vs H. unfold is_phi in H. simpl in *. destruct op; try discriminate H.
  rewrite <- phi_val_resolve. destruct outs as [|o [|o2 t]]; auto;
    destruct (phi_pick prev args) as [a|]; auto; destruct (eval_op old a); auto.
Qed.

Lemma exec_phis_nonphi : forall prev i rest old vs, is_phi i = false -> exec_phis prev (i :: rest) old vs = Some (vs, i :: rest).
Proof.
  intros prev [outs op args] rest old vs H. unfold is_phi in H. simpl in *. destruct op; try discriminate H; reflexivity.
Qed.

(* ---------------------------------------------------------------- agreement of variable maps *)
Definition agree (U : positive -> bool) (va vb : vmap) : Prop :=
  forall x, U x = true -> PositiveMap.find x va = PositiveMap.find x vb.

Lemma agree_refl : forall U v, agree U v v.
Proof. intros U v x _. reflexivity. Qed.

Definition uses_in (U : positive -> bool) (l : list operand) : bool := forallb U (op_vars l).

Lemma resolve_agree : forall U va vb l, agree U va vb -> uses_in U l = true -> map (resolve va) l = map (resolve vb) l.
Proof.
  unfold uses_in. induction l as [|o t IH]; intros A H; simpl; auto.
  assert (Ht : forallb U (op_vars t) = true).
  { unfold op_vars in *. simpl in H. rewrite forallb_app in H. apply andb_true_iff in H. tauto. }
  rewrite (IH A Ht). f_equal.
  destruct o as [z|v|l]; simpl; auto.
  unfold op_vars in H. simpl in H. apply andb_true_iff in H. destruct H as [Hv _]. rewrite (A v Hv). reflexivity.
Qed.

Lemma bind_agree : forall U outs vals va vb vb', agree U va vb -> bind_outs vb outs vals = Some vb' ->
  exists va', bind_outs va outs vals = Some va' /\ agree U va' vb'.
Proof.
  intros U outs vals va vb vb' A B.
  destruct (bind_status_some _ _ vb va _ B) as [va' B'].
  exists va'. split; auto. intros x Hx.
  destruct (in_dec Pos.eq_dec x outs) as [I|N].
  - apply (bind_same _ _ _ _ _ _ B' B x I).
  - rewrite (bind_other _ _ _ _ B' x N), (bind_other _ _ _ _ B x N). apply A. assumption.
Qed.

Definition sim_step (U : positive -> bool) (rb ra : step_res) : Prop :=
  match rb, ra with
  | SNext vb s, SNext va s' => s = s' /\ agree U va vb
  | SJump l vb s, SJump l' va s' => l = l' /\ s = s' /\ agree U va vb
  | SHalt h s, SHalt h' s' => h = h' /\ s = s'
  | _, _ => False
  end.

(* same opcode, outputs and resolved arguments: same behaviour, agreement is kept *)
Lemma exec_inst_r_sim : forall U E X op outs ra vb va st, agree U va vb ->
  sim_step U (exec_inst_r E X op outs ra vb st) (exec_inst_r E X op outs ra va st).
Proof.
  intros U E X op outs ra vb va st A.
  assert (SIMPLE : sim_step U
    match exec_simple_r E X op outs ra vb st with Ok (vs', st') => SNext vs' st' | Err e => SHalt (HStuck e) st end
    match exec_simple_r E X op outs ra va st with Ok (vs', st') => SNext vs' st' | Err e => SHalt (HStuck e) st end).
  { unfold exec_simple_r. destruct (rvals ra) as [argv|]; simpl; auto.
    destruct (wrapped E X op argv st) as [[ovals st']|e]; simpl; auto.
    destruct (bind_outs vb outs ovals) as [vb'|] eqn:B.
    - destruct (bind_agree U _ _ va vb vb' A B) as [va' [B' A']]. rewrite B'. simpl. auto.
    - rewrite (bind_status _ _ vb va B). simpl. auto. }
  unfold exec_inst_r; destruct op; try exact SIMPLE; simpl; auto.
  - destruct ra as [|[l|v] [|r2 t]]; simpl; auto.
  - destruct ra as [|c [|[t|v2] [|[e|v3] [|r4 r5]]]]; simpl; auto.
    unfold guard_r. destruct (rval c) as [v|]; simpl; auto. destruct (v <? 0); simpl; auto.
  - destruct ra as [|t labs]; simpl; auto. unfold guard_r. destruct (rval t) as [v|]; simpl; auto.
    destruct (find (fun o => match o with RLab l => label_addr l =? v | RVal _ => false end) labs) as [[l|x]|]; simpl; auto.
  - destruct ra as [|c [|r2 t]]; simpl; auto. unfold guard_r. destruct (rval c) as [v|]; simpl; auto.
    destruct (v <? 0); simpl; auto. destruct (v =? 0); simpl; auto.
  - destruct ra as [|c [|r2 t]]; simpl; auto. unfold guard_r. destruct (rval c) as [v|]; simpl; auto.
    destruct (v <? 0); simpl; auto. destruct (v =? 0); simpl; auto.
  - destruct (rvals ra) as [[|p [|n [|x t]]]|]; simpl; auto; unfold halt_data; destruct (okaddr p n); simpl; auto.
  - destruct (rvals ra) as [[|p [|n [|x t]]]|]; simpl; auto; unfold halt_data; destruct (okaddr p n); simpl; auto.
Qed.

(* the same instruction under agreeing maps *)
Lemma exec_inst_sim : forall U E X i vb va st, agree U va vb -> uses_in U (i_args i) = true ->
  sim_step U (exec_inst E X i vb st) (exec_inst E X i va st).
Proof.
  intros. rewrite !exec_inst_factor. rewrite (resolve_agree U va vb (i_args i)); auto. apply exec_inst_r_sim. assumption.
Qed.

(* ---------------------------------------------------------------- lifting a block-wise simulation to vrun_from *)
Definition block_res (E : env) (X : oracle) (prev : positive) (insts : list inst) (vs : vmap) (st : store) : step_res :=
  match exec_phis prev insts vs vs with
  | None => SHalt (HStuck EUndef) st
  | Some (vs1, rest) => exec_insts E X rest vs1 st
  end.

Lemma vrun_from_S : forall n E X f cur prev vs st,
  vrun_from (S n) E X f cur prev vs st =
  match PositiveMap.find cur (f_blocks f) with
  | None => (HStuck EBadLabel, st)
  | Some insts =>
      match block_res E X prev insts vs st with
      | SJump l vs2 st2 => vrun_from n E X f l cur vs2 st2
      | SHalt h st2 => (h, st2)
      | SNext _ st2 => (HStuck EFallthrough, st2)
      end
  end.
Proof.
  intros. simpl. destruct (PositiveMap.find cur (f_blocks f)); auto.
  unfold block_res. destruct (exec_phis prev l vs vs) as [[vs1 rest]|]; reflexivity.
Qed.

Definition not_stuck (r : halt * store) : Prop := match fst r with HStuck _ => False | _ => True end.

(* a block result that makes the run stuck *)
Definition bad (r : step_res) : Prop :=
  match r with SHalt (HStuck _) _ => True | SNext _ _ => True | _ => False end.

Section Sim.
  Variable E : env.
  Variable X : oracle.
  Variable b a : func.
  Variable Inv : positive -> positive -> vmap -> vmap -> Prop.    (* cur prev vb va *)
  Variable two_sided : Prop.    (* True: runs of `a` that get stuck are excluded as well *)

  Hypothesis Hblk : forall cur prev vb va st, Inv cur prev vb va ->
    match PositiveMap.find cur (f_blocks b), PositiveMap.find cur (f_blocks a) with
    | None, None => True
    | Some lb, Some la =>
        let rb := block_res E X prev lb vb st in
        let ra := block_res E X prev la va st in
        bad rb \/ (two_sided /\ bad ra) \/
        match rb, ra with
        | SJump l vb' s, SJump l' va' s' => l = l' /\ s = s' /\ Inv l cur vb' va'
        | SHalt h s, SHalt h' s' => h = h' /\ s = s'
        | _, _ => False
        end
    | _, _ => False
    end.

  Lemma sim_run : forall n cur prev vb va st, Inv cur prev vb va ->
    not_stuck (vrun_from n E X b cur prev vb st) ->
    (two_sided -> not_stuck (vrun_from n E X a cur prev va st)) ->
    vrun_from n E X a cur prev va st = vrun_from n E X b cur prev vb st.
  Proof.
    induction n as [|n IH]; intros cur prev vb va st I NB NA.
    - simpl in NB. contradiction.
    - rewrite (vrun_from_S n E X a), (vrun_from_S n E X b) in *. specialize (Hblk cur prev vb va st I).
      destruct (PositiveMap.find cur (f_blocks b)) as [lb|]; destruct (PositiveMap.find cur (f_blocks a)) as [la|];
        try contradiction; auto.
      simpl in Hblk. destruct Hblk as [B|[[T B]|M]].
      + exfalso. destruct (block_res E X prev lb vb st) as [v s|l v s|h s]; simpl in *; try contradiction.
        destruct h; simpl in *; contradiction.
      + exfalso. specialize (NA T). destruct (block_res E X prev la va st) as [v s|l v s|h s]; simpl in *; try contradiction.
        destruct h; simpl in *; contradiction.
      + destruct (block_res E X prev lb vb st) as [v s|l v s|h s]; destruct (block_res E X prev la va st) as [v' s'|l' v' s'|h' s'];
          try contradiction.
        * destruct M as [L [S I']]. subst l' s'. apply IH; auto.
        * destruct M as [H S]. subst. reflexivity.
  Qed.
End Sim.
