(* Soundness of the range-based decisions that delete or fold checks (translated: GenRangeClients.v,
   sliced from overflow_elimination.py, assert_elimination.py, algebraic_optimization.py). *)
From Coq Require Import ZArith Bool List String Lia.
From Verif Require Import Base.Word256 Base.PyInt Base.WordLemmas C14.RangeBase C14.GenRangeClients.
From Verif Require C14.RangeSound.
Import ListNotations.
Open Scope Z_scope.
Ltac Zify.zify_post_hook ::= Z.to_euclidean_division_equations.

Import RangeSound.

Lemma umax_val' : c_UNSIGNED_MAX = W - 1. Proof. reflexivity. Qed.
Lemma smaxc_val : c_SizeLimits_MAX_INT256 = HALF - 1. Proof. reflexivity. Qed.

Lemma nn_spec r : _range_is_non_negative r = Ok (match r with IV lo _ => 0 <=? lo | _ => false end).
Proof. destruct r; cbn; try reflexivity. rewrite Z.geb_leb. reflexivity. Qed.

Theorem add_elim_sound : forall xr yr a b, wf xr -> wf yr -> mem a xr -> mem b yr ->
  add_elim_cond xr yr = Ok true -> w_iszero (w_lt (w_add a b) a) = 1.
Proof.
  intros xr yr a b WX WY MA MB. unfold add_elim_cond. rewrite !nn_spec. cbn [bind].
  destruct xr as [| |l1 h1], yr as [| |l2 h2]; cbn [mem wf negb bind vr_hi] in *; try discriminate; try contradiction.
  all: try (destruct (0 <=? l1); cbn; discriminate).
  destruct (0 <=? l1) eqn:E1; cbn [negb bind]; [|discriminate].
  destruct (0 <=? l2) eqn:E2; cbn [negb bind]; [|discriminate].
  intros H. injection H as H. b2p. rewrite umax_val' in H.
  destruct MA as [va [Ra Ha]]. destruct MB as [vb [Rb Hb]]. subst. unfold w_iszero, w_lt, w_add, Word256.b2z.
  assert (va mod W = va) as -> by mlia. assert (vb mod W = vb) as -> by mlia.
  assert ((va + vb) mod W = va + vb) as -> by mlia.
  assert (va + vb <? va = false) as -> by (apply Z.ltb_ge; lia). reflexivity.
Qed.

Theorem sub_elim_sound : forall xr yr a b, wf xr -> wf yr -> mem a xr -> mem b yr ->
  sub_elim_cond xr yr = Ok true -> w_iszero (w_gt (w_sub a b) a) = 1.
Proof.
  intros xr yr a b WX WY MA MB. unfold sub_elim_cond. rewrite !nn_spec. cbn [bind].
  destruct xr as [| |l1 h1], yr as [| |l2 h2]; cbn [mem wf negb bind vr_hi vr_lo] in *; try discriminate; try contradiction.
  all: try (destruct (0 <=? l1); cbn; discriminate).
  destruct (0 <=? l1) eqn:E1; cbn [negb bind]; [|discriminate].
  destruct (0 <=? l2) eqn:E2; cbn [negb bind]; [|discriminate].
  intros H. injection H as H. b2p.
  destruct MA as [va [Ra Ha]]. destruct MB as [vb [Rb Hb]]. subst. unfold w_iszero, w_gt, w_sub, Word256.b2z.
  assert (va mod W = va) as -> by mlia. assert (vb mod W = vb) as -> by mlia.
  assert ((va - vb) mod W = va - vb) as -> by mlia.
  assert (va - vb >? va = false) as -> by (rewrite Z.gtb_ltb; apply Z.ltb_ge; lia). reflexivity.
Qed.

Theorem excludes_zero_sound : forall r a, wf r -> mem a r -> _range_excludes_zero r = Ok true -> a <> 0.
Proof.
  intros r a WR MA. unfold _range_excludes_zero.
  destruct r as [| |l h]; cbn [mem wf vr_is_empty vr_lo vr_hi bind] in *; try contradiction.
  - (* TOP: lo = SIGNED_MIN, hi = UNSIGNED_MAX: never excludes zero *)
    change (SIGNED_MIN >? 0) with false. cbv iota. cbn [bind]. change (UNSIGNED_MAX <? 0) with false. discriminate.
  - destruct MA as [v [Rv Hv]].
    destruct (l >? 0) eqn:E; cbn [bind]; intros H; [|injection H as H]; b2p; subst; mlia.
Qed.


Lemma W_split bits : 0 <= bits <= 256 -> W = 2 ^ bits * 2 ^ (256 - bits).
Proof. intros H. rewrite <- Z.pow_add_r by lia. replace (bits + (256 - bits)) with 256 by lia. reflexivity. Qed.

Theorem signextend_noop_sound : forall n r a, 0 <= n < 31 -> wf r -> mem a r ->
  signextend_noop_cond n r = Ok true -> w_signextend n a = a.
Proof.
  intros n r a Hn WR MA. unfold signextend_noop_cond.
  destruct r as [| |l h]; cbn [mem wf vr_is_top vr_lo vr_hi bind] in *; try discriminate; try contradiction.
  unfold py_lshift. assert (8 * (n + 1) - 1 <? 0 = false) as -> by (apply Z.ltb_ge; lia). cbn [bind].
  rewrite Z.shiftl_mul_pow2, Z.mul_1_l by lia.
  set (bits := 8 * (n + 1)). assert (Hb: 8 <= bits <= 248) by (unfold bits; lia).
  set (P := 2 ^ (bits - 1)). assert (HP: 0 < P) by (apply Z.pow_pos_nonneg; lia).
  assert (H2: 2 ^ bits = 2 * P).
  { unfold P. replace bits with (bits - 1 + 1) at 1 by lia. rewrite Z.pow_add_r by lia. lia. }
  destruct (l >=? - P) eqn:E1; cbn [bind]; [|discriminate].
  destruct (h <=? P - 1) eqn:E2; [|discriminate]. intros _. b2p.
  destruct MA as [v [Rv Hv]]. subst a.
  unfold w_signextend. assert (n <? 31 = true) as -> by (apply Z.ltb_lt; lia).
  fold bits. fold P. rewrite H2.
  pose proof (W_split bits ltac:(lia)) as HW. rewrite H2 in HW.
  set (Q := 2 ^ (256 - bits)) in *. assert (HQ: 0 < Q) by (apply Z.pow_pos_nonneg; lia).
  assert (P * 2 <= W) by nia.
  destruct (Z_le_dec 0 v).
  - rewrite (Z.mod_small v W) by lia. rewrite (Z.mod_small v (2 * P)) by lia.
    assert (v <? P = true) as -> by (apply Z.ltb_lt; lia). reflexivity.
  - assert (Hm: v mod W = v + W).
    { symmetry. apply Z.mod_unique with (q := -1); lia. }
    rewrite Hm.
    assert (Hl: (v + W) mod (2 * P) = v + 2 * P).
    { symmetry. apply Z.mod_unique with (q := Q - 1); nia. }
    rewrite Hl. assert (v + 2 * P <? P = false) as -> by (apply Z.ltb_ge; lia). lia.
Qed.

(* the same decision code raises (assert in ValueRange.lo) on an EMPTY range: an internal error path *)
Theorem signextend_cond_bot_refuted : signextend_noop_cond 0 BOT = Err AssertFail.
Proof. reflexivity. Qed.

Lemma wrap256_unsigned' x : wrap256 x false = Ok (x mod W).
Proof. reflexivity. Qed.
Lemma wrap256_signed' x : wrap256 x true = Ok (to_signed (x mod W)).
Proof.
  unfold wrap256. change (py_pow 2 256) with (@Ok Z W). cbn [bind].
  unfold py_mod. change (W =? 0) with false. cbv iota. cbn [bind].
  pose proof (Z.mod_pos_bound x W ltac:(reflexivity)) as B.
  unfold unsigned_to_signed, int_bounds.
  change (py_pow 2 256) with (@Ok Z W). change (py_pow 2 (256 - 1)) with (@Ok Z HALF). cbn [bind].
  assert ((0 <=? x mod W) && (x mod W <=? W - 1) = true) as ->.
  { apply andb_true_intro; split; apply Z.leb_le; lia. }
  cbn [bind]. unfold to_signed.
  destruct (x mod W >? HALF - 1) eqn:E; rewrite Z.gtb_ltb in E;
    [apply Z.ltb_lt in E | apply Z.ltb_ge in E].
  - assert (x mod W <? HALF = false) as -> by (apply Z.ltb_ge; lia). reflexivity.
  - assert (x mod W <? HALF = true) as -> by (apply Z.ltb_lt; lia). reflexivity.
Qed.

Definition cmp_word (is_gt signed : bool) (x y : Z) : Z :=
  match is_gt, signed with
  | true, false => w_gt x y | false, false => w_lt x y
  | true, true => w_sgt x y | false, true => w_slt x y
  end.

Theorem range_cmp_sound : forall lit r is_gt signed lf a k,
  - HALF <= lit <= W - 1 -> wf r -> mem a r ->
  range_cmp_kernel lit r is_gt signed lf = Ok (Some k) ->
  k = if lf then cmp_word is_gt signed (lit mod W) a else cmp_word is_gt signed a (lit mod W).
Proof.
  intros lit r is_gt signed lf a k HL WR MA. unfold range_cmp_kernel.
  destruct r as [| |l h]; cbn [mem wf vr_is_top vr_is_empty vr_lo vr_hi bind orb] in *; try discriminate; try contradiction.
  destruct MA as [v [Rv Hv]]. subst a.
  rewrite wrap256_signed', wrap256_unsigned', smaxc_val. cbn [bind].
  pose proof (Z.mod_pos_bound lit W ltac:(reflexivity)) as BL.
  destruct signed.
  - destruct (h >? HALF - 1) eqn:E0; [discriminate|]. b2p.
    assert (to_signed (v mod W) = v) as TV by (apply to_signed_mod; lia).
    set (sl := to_signed (lit mod W)).
    destruct is_gt, lf; cbn [Bool.eqb cmp_word];
      unfold w_sgt, w_slt, Word256.b2z; rewrite TV; fold sl;
      repeat match goal with |- context [if ?c then _ else _] => let E := fresh "E" in destruct c eqn:E end;
      intros H; try discriminate; injection H as <-; b2p; lia.
  - destruct (l <? 0) eqn:E0; [discriminate|]. b2p.
    assert (v mod W = v) as TV by mlia.
    destruct is_gt, lf; cbn [Bool.eqb cmp_word];
      unfold w_gt, w_lt, Word256.b2z; rewrite TV;
      repeat match goal with |- context [if ?c then _ else _] => let E := fresh "E" in destruct c eqn:E end;
      intros H; try discriminate; injection H as <-; b2p; lia.
Qed.
