(* C14 — the two Venom semantics connected: every execution of the reference semantics Venom.v (`vrun`, tied to the
   real back end on pyrevm) is an execution of the abstract semantics of RangeFix.v on the projected function, hence
   the ranges validated by `check` (range_fixpoint_sound) hold for the variable maps that `vrun` passes through. *)
From Coq Require Import ZArith NArith PArith Bool List String Lia FMapPositive.
From Verif Require Import Base.Word256 C14.RangeBase.
From Verif Require Import C14.RangeSound C14.RangeOp C14.RangeFix C14.RangeFixProofs C14.WordClosed C14.VenomWords C14.FixVenom.
From Verif Require C14.Venom.
Import ListNotations.
Open Scope Z_scope.

(* (A) the interpreted operations are closed on words, so the abstract semantics never blocks *)
Theorem word_op_closed : forall op w, RangeOp.word_op op = Some w ->
  forall a b, 0 <= a < W -> 0 <= b < W -> 0 <= w a b < W.
Proof. exact WordClosed.word_op_closed. Qed.
Print Assumptions word_op_closed.

(* every instruction other than a failing `assert` has a successor from every word state, and it is a word state *)
Theorem step_conc_total : forall lv ins c, lv_ok lv -> cenv_ok c -> assert_passes lv ins c ->
  exists c', step_conc lv ins c c' /\ cenv_ok c'.
Proof. exact WordClosed.step_conc_total. Qed.
Print Assumptions step_conc_total.

(* (B) simulation.  lab/ren/unk: label numbering, injective variable renaming, names of the out-of-core opcodes.
   Hypotheses: the environment, oracle and initial store hold words/bytes (or poison); literals of vf are words,
   jmp/jnz/djmp only end blocks, leading phis have distinct outputs (vf_okb); `ord` lists the blocks in the order of
   their numbers (lab_okb); phis of the projection are label/variable pairs (block_shape_ok; implied by `check`). *)
Theorem venom_refines_rangefix : forall lab ren unk, (forall x y, ren x = ren y -> x = y) ->
  forall lv, lv_ok lv -> forall E X, env_ok E -> oracle_ok X ->
  forall vf ord st0, vf_okb vf = true -> lab_okb lab ord vf = true -> store_ok st0 ->
  (forall b, block_shape_ok (nth_block (proj lab ren unk ord vf) b) = true) ->
  forall cur k vs st, vreach E X vf st0 cur k vs st ->
  exists c, rel ren vs c /\ reach (proj lab ren unk ord vf) lv (lab cur) k c.
Proof.
  intros lab ren unk RI lv LV E X HE HX vf ord st0 VO LO S0 SH cur k vs st R.
  destruct (venom_refines_rangefix_main lab ren unk RI lv LV E X HE HX vf ord st0 VO LO S0 SH cur k vs st R)
    as (_ & _ & c & Rc & _ & RC).
  exists c. split; assumption.
Qed.
Print Assumptions venom_refines_rangefix.

Lemma check_shape f Ec : check f Ec = true -> forall b, block_shape_ok (nth_block f b) = true.
Proof.
  intros CK b. pose proof (check_all f Ec CK b) as CB. unfold check_block in CB.
  apply andb_prop in CB as [CB _]. apply andb_prop in CB as [CB _]. exact CB.
Qed.

Definition run_env (E : V.env) (vf : V.func) : V.env :=
  V.mkEnv (V.e_calldata E) (V.e_words E) (V.e_hash E) (V.e_immbase E) (V.f_code vf).

(* the trace function computes vrun *)
Theorem vrun_tr_is_vrun : forall fuel E X vf st0,
  snd (vrun_tr (run_env E vf) X fuel vf (V.f_entry vf) (V.f_entry vf) (PositiveMap.empty Z) st0) = V.vrun fuel E X vf st0.
Proof. intros. unfold V.vrun, run_env. apply vrun_tr_result. Qed.

(* Consequence: if the validator accepts the certificate Ec for the projection of vf, then at every configuration
   (block p, k body instructions executed, variables vs) that `vrun` passes through, every defined non-poison
   variable holds a word inside the range the analysis reports there. *)
Theorem venom_ranges_sound : forall lab ren unk, (forall x y, ren x = ren y -> x = y) ->
  forall E X vf ord st0 Ec, env_ok (run_env E vf) -> oracle_ok X -> store_ok st0 ->
  vf_okb vf = true -> lab_okb lab ord vf = true ->
  check (proj lab ren unk ord vf) Ec = true ->
  forall fuel p k vs,
  In (p, k, vs) (fst (vrun_tr (run_env E vf) X fuel vf (V.f_entry vf) (V.f_entry vf) (PositiveMap.empty Z) st0)) ->
  exists e, env_at (proj lab ren unk ord vf) Ec (lab p) k = PyInt.Ok e /\
    forall x v, PositiveMap.find x vs = Some v -> 0 <= v -> mem v (aget e (ren x)).
Proof.
  intros lab ren unk RI E X vf ord st0 Ec HE HX S0 VO LO CK fuel p k vs I.
  set (lv := fun _ : N => 0).
  assert (LV : lv_ok lv) by (intros l; unfold lv; pose proof W_val; lia).
  destruct (vrun_tr_reach (run_env E vf) X vf st0 fuel (V.f_entry vf) (V.f_entry vf) (PositiveMap.empty Z) st0) with (p := p) (k' := k) (vs' := vs)
    as [st R]; [intros insts vs1 rest F P; eapply vr_init; eassumption | exact I |].
  destruct (venom_refines_rangefix lab ren unk RI lv LV _ X HE HX vf ord st0 VO LO S0 (check_shape _ _ CK) p k vs st R)
    as (c & Rc & RC).
  destruct (range_fixpoint_sound_main _ Ec lv LV CK _ _ _ RC) as (e & EA & G).
  exists e. split; [exact EA|]. intros x v F P. rewrite <- (Rc x v F P). apply G.
Qed.
Print Assumptions venom_ranges_sound.

(* non-vacuity: the counting loop of PropsFix.v as a Venom.v function; its projection is PropsFix.ex_f, the
   certificate is accepted, vrun terminates normally and passes through the loop body *)
Definition ex_vf : V.func :=
  V.func_of 1%positive
    [ (1%positive, [V.Inst [1%positive] V.O_assign [V.OLit 0]; V.Inst [] V.O_jmp [V.OLab 2%positive]]);
      (2%positive, [V.Inst [2%positive] V.O_phi [V.OLab 1%positive; V.OVar 1%positive; V.OLab 3%positive; V.OVar 4%positive];
                    V.Inst [3%positive] V.O_lt [V.OVar 2%positive; V.OLit 10];
                    V.Inst [] V.O_jnz [V.OVar 3%positive; V.OLab 3%positive; V.OLab 4%positive]]);
      (3%positive, [V.Inst [4%positive] V.O_add [V.OVar 2%positive; V.OLit 1]; V.Inst [] V.O_jmp [V.OLab 2%positive]]);
      (4%positive, [V.Inst [] V.O_stop []]) ] [].
Definition ex_lab (l : positive) : N := Pos.pred_N l.
Definition ex_ren (x : positive) : N := Pos.pred_N x.
Definition ex_ord : list positive := [1; 2; 3; 4]%positive.
Definition ex_E : list aenv := [ []; [(1%N, IV 0 10)]; [(1%N, IV 0 9)]; [(1%N, IV 10 10)] ].

Example ex_proj : proj ex_lab ex_ren [] ex_ord ex_vf =
  [ [mkI "assign" [OLit 0] [0%N]; mkI "jmp" [OLab 1%N] []];
    [mkI "phi" [OLab 0%N; OVar 0%N; OLab 2%N; OVar 3%N] [1%N]; mkI "lt" [OLit 10; OVar 1%N] [2%N];
     mkI "jnz" [OVar 2%N; OLab 2%N; OLab 3%N] []];
    [mkI "add" [OLit 1; OVar 1%N] [3%N]; mkI "jmp" [OLab 1%N] []];
    [mkI "stop" [] []] ].
Proof. vm_compute. reflexivity. Qed.
Example ex_hyps : vf_okb ex_vf = true /\ lab_okb ex_lab ex_ord ex_vf = true /\
  check (proj ex_lab ex_ren [] ex_ord ex_vf) ex_E = true.
Proof. vm_compute. repeat split. Qed.
Example ex_runs :
  let r := vrun_tr (V.mkEnv [] [] [] 0 []) V.no_oracle 100 ex_vf 1%positive 1%positive (PositiveMap.empty Z) V.store0 in
  fst (snd r) = V.HStop /\ existsb (fun t => match t with (p, k, _) => Pos.eqb p 3 && Nat.eqb k 1 end) (fst r) = true.
Proof. vm_compute. split; reflexivity. Qed.
