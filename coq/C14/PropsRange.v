(* C14 (range kernel): every value-range evaluator of
   vyper/venom/analysis/variable_range/evaluators.py (translated on every run into GenRange.v)
   is sound against the EVM word semantics of Base/Word256.v: for well-formed input ranges, a word
   denoted by the inputs is mapped to a word denoted by the (well-formed) output range. *)
From Coq Require Import ZArith Bool List String Lia.
From Verif Require Import Base.Word256 Base.PyInt C14.RangeBase C14.GenRange C14.RangeSound C14.RangeLemmas2.
From Verif Require Import C14.RangeEq C14.RangeLt C14.RangeGt C14.RangeSlt C14.RangeSgt C14.RangeDiv
  C14.RangeSdiv C14.RangeSmod C14.RangeBits C14.RangeByte C14.RangeSignext C14.RangeOp.
Open Scope Z_scope.

Theorem range_evaluators_sound :
  sound2 eval_add w_add /\ sound2 eval_sub w_sub /\ sound2 eval_mul w_mul /\
  sound2 eval_div w_div /\ sound2 eval_mod w_mod /\ sound2 eval_sdiv w_sdiv /\
  sound2 eval_shr w_shr /\ sound2 eval_shl w_shl /\ sound2 eval_sar w_sar /\
  sound2 eval_eq w_eq /\ sound1 eval_iszero w_iszero /\
  sound2 (eval_compare "lt") w_lt /\ sound2 (eval_compare "gt") w_gt /\
  sound2 (eval_compare "slt") w_slt /\ sound2 (eval_compare "sgt") w_sgt /\
  sound2 eval_and w_and /\ sound2w eval_or w_or /\ sound2 eval_xor w_xor /\ sound1 eval_not w_not /\
  sound2 eval_byte w_byte /\ sound2w eval_signextend w_signextend /\
  (* smod: membership for all well-formed inputs; the result is well-formed when the divisor
     constant is held in signed form (see eval_smod_wf_refuted for the failing case) *)
  (forall A B a b, wf A -> wf B -> mem a A -> mem b B ->
     match eval_smod A B with Ok R => mem (w_smod a b) R /\ (sform B -> wf R) | Err _ => False end).
Proof.
  repeat split.
  - exact eval_add_sound.
  - exact eval_sub_sound.
  - exact eval_mul_sound.
  - exact eval_div_sound.
  - exact eval_mod_sound.
  - exact eval_sdiv_sound.
  - exact eval_shr_sound.
  - exact eval_shl_sound.
  - exact eval_sar_sound.
  - exact eval_eq_sound.
  - exact eval_iszero_sound.
  - exact eval_lt_sound.
  - exact eval_gt_sound.
  - exact eval_slt_sound.
  - exact eval_sgt_sound.
  - exact eval_and_sound.
  - exact eval_or_sound.
  - exact eval_xor_sound.
  - exact eval_not_sound.
  - exact eval_byte_sound.
  - exact eval_signextend_sound.
  - exact eval_smod_sound_mem.
Qed.
Print Assumptions range_evaluators_sound.

(* the dispatcher used by the analysis: for every opcode it handles, on well-formed ranges and word
   operands, the result denotes the EVM result word (and is well-formed, smod excepted) *)
Theorem range_eval_op_sound : forall op w A B a b, word_op op = Some w ->
  wf A -> wf B -> 0 <= a < W -> 0 <= b < W -> mem a A -> mem b B ->
  match eval_op op A B with
  | Ok R => mem (w a b) R /\ (op <> "smod"%string -> wf R)
  | Err _ => False
  end.
Proof. exact eval_op_sound. Qed.
Print Assumptions range_eval_op_sound.

(* the one statement that does not hold at full strength for the current code *)
Theorem range_smod_result_wf_refuted :
  exists A B, wf A /\ wf B /\ exists R, eval_smod A B = Ok R /\ ~ wf R.
Proof. exact eval_smod_wf_refuted. Qed.
Print Assumptions range_smod_result_wf_refuted.

(* non-vacuity: a well-formed (signed-form) range with a member, and the premises of the
   soundness statements are jointly satisfiable with a non-trivial conclusion *)
Example range_nonvacuous :
  wf (IV (-5) 5) /\ sform (IV (-5) 5) /\ mem (W - 3) (IV (-5) 5) /\ mem 4 (IV (-5) 5) /\ 0 <= W - 3 < W /\
  eval_add (IV 1 2) (IV 3 4) = Ok (IV 4 6) /\ mem (w_add 2 3) (IV 4 6).
Proof.
  repeat split; try (cbn; lia); try reflexivity.
  - exists (-3). split; [lia | reflexivity].
  - exists 4. split; [lia | reflexivity].
  - exists 5. split; [lia | reflexivity].
Qed.
