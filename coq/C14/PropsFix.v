(* C14 — the result of VariableRangeAnalysis, validated per function (see RangeFix.v for the model). *)
From Coq Require Import ZArith NArith Bool List String Lia.
From Verif Require Import Base.Word256 Base.PyInt C14.RangeBase C14.RangeSound C14.RangeFix C14.RangeFixProofs.
Import ListNotations.
Open Scope string_scope.
Open Scope Z_scope.

(* If the checker accepts the entry states E reported by the analysis for function f, then in every reachable
   configuration (block b, k body instructions executed, variable values c) every variable's word is a member of
   the range that the (re-run) transfer functions give at that point: this is the state `get_range` answers from. *)
Theorem range_fixpoint_sound : forall f E lv, lv_ok lv -> check f E = true ->
  forall b k c, reach f lv b k c -> exists e, env_at f E b k = Ok e /\ gamma e c.
Proof. exact range_fixpoint_sound_main. Qed.
Print Assumptions range_fixpoint_sound.

(* non-vacuity: a counting loop  i = 0; while i < 10: i += 1   in SSA form;
   block 0: %0 = 0 ; jmp 1
   block 1: %1 = phi [0: %0] [2: %3] ; %2 = lt %1, 10 ; jnz %2, 2, 3
   block 2: %3 = add %1, 1 ; jmp 1
   block 3: stop
   the certificate says %1 in [0,10] at the loop head, %1 in [0,9] in the body, %1 = 10 at the exit. *)
Definition ex_f : func :=
  [ [mkI "assign" [OLit 0] [0%N]; mkI "jmp" [OLab 1%N] []];
    [mkI "phi" [OLab 0%N; OVar 0%N; OLab 2%N; OVar 3%N] [1%N]; mkI "lt" [OLit 10; OVar 1%N] [2%N];
     mkI "jnz" [OVar 2%N; OLab 2%N; OLab 3%N] []];
    [mkI "add" [OLit 1; OVar 1%N] [3%N]; mkI "jmp" [OLab 1%N] []];
    [mkI "stop" [] []] ].
Definition ex_E : list aenv :=
  [ []; [(1%N, IV 0 10)]; [(1%N, IV 0 9)]; [(1%N, IV 10 10)] ].
Example ex_check : check ex_f ex_E = true.
Proof. vm_compute. reflexivity. Qed.
(* a certificate that claims too much is rejected: the loop head cannot be [0,9] *)
Example ex_check_rejects : check ex_f [ []; [(1%N, IV 0 9)]; [(1%N, IV 0 9)]; [(1%N, IV 10 10)] ] = false.
Proof. vm_compute. reflexivity. Qed.
(* and the loop body is really reachable in the semantics (first iteration) *)
Example ex_reach : exists c, reach ex_f (fun _ => 0) 2%N 0%nat c /\ c 1%N = 0.
Proof.
  set (c0 := fun _ : N => 0).
  assert (R0 : reach ex_f (fun _ => 0) 0%N 0%nat c0) by (constructor; intros x; unfold c0; pose proof W_val; lia).
  assert (R1 : reach ex_f (fun _ => 0) 0%N 1%nat c0).
  { eapply r_step; [exact R0 | reflexivity |]. unfold step_conc, assert_passes; repeat split; intros; try (match goal with HA : String.eqb _ "assert" = true |- _ => cbn in HA; discriminate HA end); unfold c0; try reflexivity; try (pose proof W_val; lia).
    cbn in H. injection H as <-. reflexivity. }
  assert (R2 : reach ex_f (fun _ => 0) 0%N 2%nat c0).
  { eapply r_step; [exact R1 | reflexivity |]. unfold step_conc, assert_passes; repeat split; intros; try (match goal with HA : String.eqb _ "assert" = true |- _ => cbn in HA; discriminate HA end); try reflexivity; try (cbn in H; contradiction); cbn in H; discriminate. }
  assert (R3 : reach ex_f (fun _ => 0) 1%N 0%nat c0).
  { eapply r_jump; [exact R2 | reflexivity | left; reflexivity |]. split.
    - intros; reflexivity.
    - intros ins o [<-|[]] Ho. cbn in Ho. injection Ho as <-. exists 0%N. split; [left; reflexivity | reflexivity]. }
  set (c1 := fun x : N => if N.eqb x 2 then 1 else 0).
  assert (R4 : reach ex_f (fun _ => 0) 1%N 1%nat c1).
  { eapply r_step; [exact R3 | reflexivity |]. unfold step_conc, assert_passes; repeat split; intros; try (match goal with HA : String.eqb _ "assert" = true |- _ => cbn in HA; discriminate HA end).
    - unfold c1, c0. destruct (N.eqb x 2) eqn:E; [apply N.eqb_eq in E; subst; exfalso; apply H; left; reflexivity | reflexivity].
    - unfold c1. destruct (N.eqb x 2); pose proof W_val; lia.
    - unfold c1. destruct (N.eqb x 2); pose proof W_val; lia.
    - cbn in H0. injection H0 as <-. cbn in H. injection H as <-. reflexivity. }
  assert (R5 : reach ex_f (fun _ => 0) 1%N 2%nat c1).
  { eapply r_step; [exact R4 | reflexivity |]. unfold step_conc, assert_passes; repeat split; intros; try (match goal with HA : String.eqb _ "assert" = true |- _ => cbn in HA; discriminate HA end); try reflexivity; try (cbn in H; contradiction); cbn in H; discriminate. }
  exists c1. split; [|reflexivity].
  eapply r_jump; [exact R5 | reflexivity | left; reflexivity |]. split.
  - intros; reflexivity.
  - intros ins o []. 
Qed.
