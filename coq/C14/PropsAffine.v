(* C14 — AffineFoldingPass, validated per pass invocation (RangeAffine.v). *)
From Coq Require Import ZArith NArith Bool List String Lia.
From Verif Require Import Base.Word256 Base.PyInt C14.RangeBase C14.RangeSound C14.RangeFix C14.RangeFixProofs
  C14.RangeAffine C14.RangeAffineProofs.
Import ListNotations.
Open Scope string_scope.
Open Scope Z_scope.

(* If the validator accepts (function before the pass, function after the pass), the two functions have exactly the
   same reachable configurations: every replaced add/sub/assign computes the same 256-bit word on every execution
   (both sides have the same normal form root + offset under the definitions available at that program point). *)
Theorem affine_folding_sound : forall f f' lv, lv_ok lv -> affine_check f f' = true ->
  forall b k c, reach f' lv b k c <-> reach f lv b k c.
Proof.
  intros f f' lv L AC b k c. split.
  - exact (affine_reach f f' lv L AC b k c).
  - exact (affine_reach_conv f f' lv L AC b k c).
Qed.
Print Assumptions affine_folding_sound.

(* non-vacuity:  t = add x 3 ; u = sub t 1 ; r = add u 5   ==>   r = add x 7   (offsets 3 - 1 + 5);
   and the seeded wrong fold  t = sub C x ; r = add t K  ==>  r = add x (C+K)  is rejected *)
Definition af_f : func :=
  [ [mkI "calldataload" [OLit 0] [0%N]; mkI "add" [OLit 3; OVar 0%N] [1%N]; mkI "sub" [OLit 1; OVar 1%N] [2%N];
     mkI "add" [OLit 5; OVar 2%N] [3%N]; mkI "stop" [] []] ].
Definition af_f' : func :=
  [ [mkI "calldataload" [OLit 0] [0%N]; mkI "add" [OLit 3; OVar 0%N] [1%N]; mkI "sub" [OLit 1; OVar 1%N] [2%N];
     mkI "add" [OVar 0%N; OLit 7] [3%N]; mkI "stop" [] []] ].
Definition af_g : func :=
  [ [mkI "calldataload" [OLit 0] [0%N]; mkI "sub" [OVar 0%N; OLit 100] [1%N]; mkI "add" [OLit 5; OVar 1%N] [2%N]; mkI "stop" [] []] ].
Definition af_g' : func :=
  [ [mkI "calldataload" [OLit 0] [0%N]; mkI "sub" [OVar 0%N; OLit 100] [1%N]; mkI "add" [OVar 0%N; OLit 105] [2%N]; mkI "stop" [] []] ].
Example af_accepts : affine_check af_f af_f' = true.
Proof. vm_compute. reflexivity. Qed.
Example af_rejects : affine_check af_g af_g' = false.
Proof. vm_compute. reflexivity. Qed.
