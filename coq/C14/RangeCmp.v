From Coq Require Import ZArith Bool List String Lia.
From Verif Require Import Base.Word256 Base.PyInt Base.WordLemmas C14.RangeBase C14.GenRange C14.RangeSound.
Import ListNotations.
Open Scope Z_scope.
Ltac Zify.zify_post_hook ::= Z.to_euclidean_division_equations.

Ltac start1 f :=
  intros A a WA MA; unfold f;
  destruct A as [| |l1 h1]; cbn [mem wf] in *; try contradiction;
  open_range; rewrite ?wrap256_unsigned; consts; exec; getreps; subst.

Ltac boolres := post_if; b2p;
  lazymatch goal with
  | |- (exists v, _ <= v <= _ /\ v mod W = 0) /\ _ => first [sw 0 | exfalso; mlia]
  | |- (exists v, _ <= v <= _ /\ v mod W = 1) /\ _ => first [sw 1 | exfalso; mlia]
  | _ => first [sw 0 | sw 1 | exfalso; mlia]
  end.

Theorem eval_iszero_sound : sound1 eval_iszero w_iszero.
Proof.
  start1 eval_iszero; unfold w_iszero, Word256.b2z, b2z.
  all: boolres.
Qed.

Ltac go2 A B :=
  destruct A as [| |l1 h1], B as [| |l2 h2]; cbn [mem wf] in *; try contradiction;
  open_range; rewrite ?wrap256_unsigned; consts; exec; getreps; subst.

Theorem eval_eq_sound : sound2 eval_eq w_eq.
Proof.
  intros A B a b WA WB MA MB; unfold eval_eq, _range_spans_sign_boundary; go2 A B;
    unfold w_eq, Word256.b2z, b2z in *.
  all: boolres.
Qed.

Ltac streq :=
  repeat match goal with
  | |- context [String.eqb ?a ?b] =>
      let r := eval vm_compute in (String.eqb a b) in change (String.eqb a b) with r
  end; cbn [orb andb negb].

Theorem eval_lt_sound : sound2 (eval_compare "lt") w_lt.
Proof.
  intros A B a b WA WB MA MB; unfold eval_compare, _range_spans_sign_boundary; streq; go2 A B;
    unfold w_lt, Word256.b2z, b2z in *.
  all: boolres.
Qed.

Theorem eval_gt_sound : sound2 (eval_compare "gt") w_gt.
Proof.
  intros A B a b WA WB MA MB; unfold eval_compare, _range_spans_sign_boundary; streq; go2 A B;
    unfold w_gt, Word256.b2z, b2z in *.
  all: boolres.
Qed.
