(* Soundness of the assert-elimination validator RangeElim.v *)
From Coq Require Import ZArith NArith Bool List String Lia.
From Verif Require Import Base.Word256 Base.PyInt C14.RangeBase C14.GenRangeClients.
From Verif Require C14.GenRange.
From Verif Require C14.RangeSound.
From Verif Require Import C14.RangeOp C14.RangeClients C14.RangeRefine C14.RangeFix C14.RangeFixProofs C14.RangeElim.
Import ListNotations.
Import RangeSound.
Open Scope string_scope.
Open Scope Z_scope.

(* ------------------------------------------------------------------ syntactic equality *)
Lemma args_eqb_eq : forall l l' : list operand,
  List.length l = List.length l' ->
  forallb (fun p : operand * operand =>
             match fst p, snd p with
             | OLit x, OLit y => Z.eqb x y
             | OVar x, OVar y => N.eqb x y
             | OLab x, OLab y => N.eqb x y
             | _, _ => false
             end) (combine l l') = true -> l = l'.
Proof.
  induction l as [|a t IH]; intros [|a' t'] HL H; try discriminate; [reflexivity|].
  cbn in H. apply andb_prop in H as [H1 H2]. injection HL as HL.
  f_equal; [|apply IH; assumption].
  destruct a, a'; try discriminate; f_equal; first [apply Z.eqb_eq | apply N.eqb_eq]; exact H1.
Qed.
Lemma outs_eqb_eq : forall l l' : list N,
  List.length l = List.length l' ->
  forallb (fun p : N * N => N.eqb (fst p) (snd p)) (combine l l') = true -> l = l'.
Proof.
  induction l as [|a t IH]; intros [|a' t'] HL H; try discriminate; [reflexivity|].
  cbn in H. apply andb_prop in H as [H1 H2]. injection HL as HL.
  f_equal; [apply N.eqb_eq; exact H1 | apply IH; assumption].
Qed.
Lemma inst_eqb_eq i j : inst_eqb i j = true -> i = j.
Proof.
  unfold inst_eqb. intros H.
  apply andb_prop in H as [H H5]. apply andb_prop in H as [H H4]. apply andb_prop in H as [H H3].
  apply andb_prop in H as [H1 H2].
  apply String.eqb_eq in H1. apply Nat.eqb_eq in H2, H4.
  destruct i as [op a o], j as [op' a' o']; cbn in *.
  subst op'. f_equal; [apply args_eqb_eq | apply outs_eqb_eq]; assumption.
Qed.
Lemma phis_eqb_eq : forall l l', phis_eqb l l' = true -> l = l'.
Proof.
  induction l as [|a t IH]; intros [|a' t'] H; try discriminate; [reflexivity|].
  cbn in H. apply andb_prop in H as [H1 H2]. f_equal; [apply inst_eqb_eq; exact H1 | apply IH; exact H2].
Qed.

(* ------------------------------------------------------------------ the two justifications *)
Lemma rb_true r : rb r = true -> r = Ok true.
Proof. destruct r as [[|]|]; cbn; congruence. Qed.

Lemma operand_eqb_oval lv c a b : operand_eqb a b = true -> oval lv c a = oval lv c b.
Proof.
  destruct a, b; cbn; try discriminate; intros H.
  - apply Z.eqb_eq in H. exact H.
  - apply N.eqb_eq in H. subst. reflexivity.
Qed.

Lemma just_range_sound lv e c a : lv_ok lv -> cenv_ok c -> gamma e c -> wfenv e ->
  just_range e a = true -> oval lv c a <> 0.
Proof.
  intros L C G Wf H. unfold just_range in H.
  destruct a as [v|x|l]; [| |discriminate]; apply andb_prop in H as [H1 H2]; apply rb_true in H2.
  - destruct (orange_sound lv e c (OLit v) G Wf) as [M Wv].
    eapply excludes_zero_sound; eauto.
  - destruct (orange_sound lv e c (OVar x) G Wf) as [M Wv].
    eapply excludes_zero_sound; eauto.
Qed.

Lemma fact_val lv c F x op args : Forall (fact_holds lv c) F -> find_fact F x = Some (op, args) ->
  exists g, sem_fun lv (mkI op args [x]) = Some g /\ c x = g c.
Proof.
  intros HF FF. apply find_fact_In in FF. rewrite Forall_forall in HF. exact (HF _ FF).
Qed.

Lemma b2z_iszero_nz (b : bool) : Word256.b2z (Word256.b2z b =? 0) <> 0 -> b = false.
Proof. destruct b; cbn; congruence. Qed.

Lemma just_overflow_sound lv e c F a : lv_ok lv -> cenv_ok c -> gamma e c -> wfenv e ->
  Forall (fact_holds lv c) F -> just_overflow e F a = true -> oval lv c a <> 0.
Proof.
  intros L C G Wf HF H. unfold just_overflow in H.
  destruct a as [?|ok|?]; try discriminate.
  destruct (find_fact F ok) as [[op1 args1]|] eqn:F1; [|discriminate].
  destruct args1 as [|[?|cmp|?] [|? ?]]; try discriminate.
  destruct (String.eqb op1 "iszero") eqn:E1; [|discriminate]. apply String.eqb_eq in E1. subst op1.
  destruct (fact_val lv c F ok _ _ HF F1) as [g1 [S1 V1]]. cbn in S1. injection S1 as <-. cbn [oval] in V1.
  destruct (find_fact F cmp) as [[op2 args2]|] eqn:F2; [|discriminate].
  destruct args2 as [|x [|[?|res|?] [|? ?]]]; try discriminate.
  destruct (is_lab x) eqn:LX; [discriminate|].
  destruct (fact_val lv c F cmp _ _ HF F2) as [g2 [S2 V2]].
  cbn [oval]. rewrite V1. unfold w_iszero.
  destruct (String.eqb op2 "lt") eqn:E2.
  - apply String.eqb_eq in E2. subst op2.
    unfold sem_fun in S2. cbn [i_args i_outs i_op has_label existsb is_lab orb] in S2. rewrite LX in S2. cbn in S2.
    injection S2 as <-. cbn [oval] in V2.
    destruct (find_fact F res) as [[op3 args3]|] eqn:F3; [|discriminate].
    destruct args3 as [|p [|q [|? ?]]]; try discriminate.
    destruct (String.eqb op3 "add" && negb (is_lab p) && negb (is_lab q)) eqn:E3; [|discriminate].
    apply andb_prop in E3 as [E3 LQ]. apply andb_prop in E3 as [E3 LP].
    apply String.eqb_eq in E3. subst op3. apply negb_true_iff in LP, LQ.
    destruct (fact_val lv c F res _ _ HF F3) as [g3 [S3 V3]].
    unfold sem_fun in S3. cbn [i_args i_outs i_op has_label existsb orb] in S3. rewrite LP, LQ in S3. cbn in S3.
    injection S3 as <-.
    rewrite V2, V3. unfold w_lt at 1.
    destruct (operand_eqb p x) eqn:PX.
    + apply andb_prop in H as [H H3]. apply andb_prop in H as [H1 H2]. apply rb_true in H3.
      destruct (orange_sound lv e c x G Wf) as [Mx _]. destruct (orange_sound lv e c q G Wf) as [Mq _].
      pose proof (add_elim_sound _ _ _ _ (wfb_wf _ H1) (wfb_wf _ H2) Mx Mq H3) as S.
      rewrite (operand_eqb_oval lv c p x PX).
      replace (w_add (oval lv c q) (oval lv c x)) with (w_add (oval lv c x) (oval lv c q)) by (unfold w_add; f_equal; lia).
      unfold w_iszero, w_lt in S. rewrite S. discriminate.
    + destruct (operand_eqb q x) eqn:QX; [|discriminate].
      apply andb_prop in H as [H H3]. apply andb_prop in H as [H1 H2]. apply rb_true in H3.
      destruct (orange_sound lv e c x G Wf) as [Mx _]. destruct (orange_sound lv e c p G Wf) as [Mp _].
      pose proof (add_elim_sound _ _ _ _ (wfb_wf _ H1) (wfb_wf _ H2) Mx Mp H3) as S.
      rewrite (operand_eqb_oval lv c q x QX).
      unfold w_iszero, w_lt in S. rewrite S. discriminate.
  - destruct (String.eqb op2 "gt") eqn:E2'; [|discriminate].
    apply String.eqb_eq in E2'. subst op2.
    unfold sem_fun in S2. cbn [i_args i_outs i_op has_label existsb is_lab orb] in S2. rewrite LX in S2. cbn in S2.
    injection S2 as <-. cbn [oval] in V2.
    destruct (find_fact F res) as [[op3 args3]|] eqn:F3; [|discriminate].
    destruct args3 as [|y [|x' [|? ?]]]; try discriminate.
    destruct (String.eqb op3 "sub" && negb (is_lab y) && operand_eqb x' x) eqn:E3; [|discriminate].
    apply andb_prop in E3 as [E3 XX]. apply andb_prop in E3 as [E3 LY].
    apply String.eqb_eq in E3. subst op3. apply negb_true_iff in LY.
    assert (LX' : is_lab x' = false) by (destruct x', x; cbn in *; congruence).
    destruct (fact_val lv c F res _ _ HF F3) as [g3 [S3 V3]].
    unfold sem_fun in S3. cbn [i_args i_outs i_op has_label existsb orb] in S3. rewrite LY, LX' in S3. cbn in S3.
    injection S3 as <-.
    rewrite V2, V3. unfold w_gt at 1.
    apply andb_prop in H as [H H3]. apply andb_prop in H as [H1 H2]. apply rb_true in H3.
    destruct (orange_sound lv e c x G Wf) as [Mx _]. destruct (orange_sound lv e c y G Wf) as [My _].
    pose proof (sub_elim_sound _ _ _ _ (wfb_wf _ H1) (wfb_wf _ H2) Mx My H3) as S.
    rewrite (operand_eqb_oval lv c x' x XX).
    unfold w_iszero, w_gt in S. rewrite S. discriminate.
Qed.

(* ------------------------------------------------------------------ structure of an accepted pair *)
(* relation between an instruction of f and the instruction at the same place of f' *)
Definition irel (e : aenv) (F : list fact) (i i' : inst) : Prop :=
  i = i' \/ (is_nop i' = true /\ String.eqb (i_op i) "assert" = true /\
             exists a, i_args i = [a] /\ i_outs i = [] /\ (just_range e a || just_overflow e F a) = true).

Lemma elim_body_len : forall l l' e F, elim_body e F l l' = true -> List.length l = List.length l'.
Proof.
  induction l as [|i t IH]; intros [|i' t'] e F H; cbn in H; try discriminate; [reflexivity|].
  apply andb_prop in H as [_ H]. destruct (step_abs e i); [|discriminate]. cbn. f_equal. eapply IH; eauto.
Qed.

Lemma elim_body_nth : forall l l' e F k i',
  elim_body e F l l' = true -> nth_error l' k = Some i' ->
  exists i ek, nth_error l k = Some i /\ run_abs e (firstn k l) = Ok ek /\
               irel ek (fold_left facts_step (firstn k l) F) i i'.
Proof.
  induction l as [|i t IH]; intros [|j t'] e F k i' H Hn; cbn in H; try discriminate.
  { destruct k; discriminate. }
  apply andb_prop in H as [H1 H2].
  destruct (step_abs e i) as [e1|] eqn:SA; [|discriminate].
  destruct k as [|k].
  - cbn in Hn. injection Hn as <-. exists i, e. cbn [nth_error firstn run_abs fold_left].
    repeat split; try reflexivity.
    destruct (inst_eqb i j) eqn:EQ; [left; apply inst_eqb_eq; exact EQ|].
    right. apply andb_prop in H1 as [H1 H3]. apply andb_prop in H1 as [H1 H1'].
    split; [exact H1|]. split; [exact H1'|].
    destruct (i_args i) as [|a [|? ?]]; try discriminate. destruct (i_outs i); try discriminate.
    exists a. repeat split; assumption.
  - cbn in Hn. destruct (IH t' e1 (facts_step F i) k i' H2 Hn) as [i0 [ek [A [B C]]]].
    exists i0, ek. cbn [nth_error firstn run_abs fold_left]. rewrite SA. cbn [bind]. repeat split; assumption.
Qed.

Lemma block_split b : b = (leading_phis b ++ body b)%list.
Proof.
  induction b as [|i t IH]; [reflexivity|]. cbn [leading_phis body].
  destruct (is_phi i); [cbn; f_equal; exact IH | reflexivity].
Qed.

Lemma last_app_cons {A} (l : list A) x t d : last (l ++ x :: t)%list d = last (x :: t) d.
Proof.
  induction l as [|y l IH]; [reflexivity|].
  change ((y :: l) ++ x :: t)%list with (y :: (l ++ x :: t))%list.
  destruct (l ++ x :: t)%list as [|a l0] eqn:E; [destruct l; discriminate|].
  change (last (y :: a :: l0) d) with (last (a :: l0) d). exact IH.
Qed.

Lemma term_of_last b : term_of b = match b with [] => None | _ => Some (last b (mkI "" [] [])) end.
Proof.
  unfold term_of. destruct b as [|i t]; [reflexivity|].
  destruct (rev (i :: t)) as [|x r] eqn:R.
  - apply (f_equal (@List.length _)) in R. rewrite rev_length in R. discriminate.
  - f_equal. apply (f_equal (@rev _)) in R. rewrite rev_involutive in R. rewrite R. cbn [rev].
    rewrite last_last. reflexivity.
Qed.

(* the terminator: if body' is non-empty its last element is related to the last element of body *)
Lemma elim_body_last : forall l l' e F T',
  elim_body e F l l' = true -> l' <> [] -> last l' (mkI "" [] []) = T' ->
  exists ek Fk, irel ek Fk (last l (mkI "" [] [])) T' /\ l <> [].
Proof.
  intros l l' e F T' H NE HL.
  assert (LEN := elim_body_len _ _ _ _ H).
  assert (K : nth_error l' (List.length l' - 1) = Some T').
  { rewrite <- HL. clear -NE. induction l' as [|x t IH]; [congruence|]. destruct t as [|y t']; [reflexivity|].
    cbn [List.length]. replace (Datatypes.S (Datatypes.S (List.length t')) - 1)%nat with (Datatypes.S (List.length (y :: t') - 1)) by (cbn; lia).
    cbn [nth_error]. rewrite IH by discriminate. reflexivity. }
  destruct (elim_body_nth _ _ _ _ _ _ H K) as [i [ek [A [B C]]]].
  assert (NL : l <> []) by (destruct l; [destruct (List.length l' - 1)%nat; discriminate | discriminate]).
  exists ek, (fold_left facts_step (firstn (List.length l' - 1) l) F). split; [|exact NL].
  replace (last l (mkI "" [] [])) with i; [exact C|].
  rewrite <- LEN in A. clear -A NL. revert A. induction l as [|x t IH]; [congruence|]. destruct t as [|y t']; cbn.
  - intros A. injection A as ->. reflexivity.
  - replace (List.length t' - 0)%nat with (List.length t') by lia. intros A.
    apply IH; [discriminate|]. cbn [List.length]. replace (Datatypes.S (List.length t') - 1)%nat with (List.length t') by lia. exact A.
Qed.

Lemma nop_no_targets lv T c : is_nop T = true -> targets lv T c = [].
Proof.
  unfold is_nop, targets. intros H. apply andb_prop in H as [H _]. apply String.eqb_eq in H. rewrite H. reflexivity.
Qed.

(* ------------------------------------------------------------------ main theorem *)
Section Main.
Variables (f f' : func) (E : list aenv) (lv : N -> Z).
Hypothesis L : lv_ok lv.
Hypothesis EC : elim_check f E f' = true.

Lemma ec_check : check f E = true.
Proof. pose proof EC as EC'. unfold elim_check in EC'. apply andb_prop in EC' as [H _]. apply andb_prop in H as [H _]. exact H. Qed.
Lemma ec_len : List.length f = List.length f'.
Proof. pose proof EC as EC'. unfold elim_check in EC'. apply andb_prop in EC' as [H _]. apply andb_prop in H as [_ H]. apply Nat.eqb_eq. exact H. Qed.

Lemma number_nth {A} (l : list A) : forall n k x, nth_error l k = Some x -> nth_error (number n l) k = Some ((n + N.of_nat k)%N, x).
Proof.
  induction l as [|y t IH]; intros n k x H; [destruct k; discriminate|].
  destruct k; cbn in *.
  - injection H as ->. f_equal. f_equal. lia.
  - rewrite (IH (N.succ n) k x H). f_equal. f_equal. lia.
Qed.

Lemma ec_block b : elim_block E ((b, nth_block f b), nth_block f' b) = true.
Proof.
  destruct (Nat.ltb (N.to_nat b) (List.length f)) eqn:LT.
  - apply Nat.ltb_lt in LT. pose proof EC as EC'. unfold elim_check in EC'. apply andb_prop in EC' as [_ H].
    rewrite forallb_forall in H. apply H.
    destruct (nth_error f (N.to_nat b)) as [blk|] eqn:N1; [|apply nth_error_None in N1; lia].
    destruct (nth_error f' (N.to_nat b)) as [blk'|] eqn:N2; [|apply nth_error_None in N2; rewrite <- ec_len in N2; lia].
    unfold nth_block. rewrite (nth_error_nth _ _ _ N1), (nth_error_nth _ _ _ N2).
    apply nth_error_In with (n := N.to_nat b).
    assert (NN := number_nth f 0%N _ _ N1). rewrite N.add_0_l, N2Nat.id in NN.
    clear -NN N2. revert NN N2. generalize (number 0%N f). generalize (N.to_nat b). intros n l. revert n f'.
    induction l as [|x t IH]; intros n g NN N2; [destruct n; discriminate|].
    destruct g as [|y g']; [destruct n; discriminate|].
    destruct n; cbn in *.
    + injection NN as ->. injection N2 as ->. reflexivity.
    + apply IH; assumption.
  - apply Nat.ltb_ge in LT. unfold nth_block. rewrite (nth_overflow f [] LT).
    rewrite (nth_overflow f' []) by (rewrite <- ec_len; exact LT). reflexivity.
Qed.

Lemma ec_phis b : leading_phis (nth_block f b) = leading_phis (nth_block f' b).
Proof.
  pose proof (ec_block b) as H. unfold elim_block in H. cbn [fst snd] in H.
  apply andb_prop in H as [H _]. apply phis_eqb_eq. exact H.
Qed.
Lemma ec_body b : elim_body (nth_env E b) [] (body (nth_block f b)) (body (nth_block f' b)) = true.
Proof.
  pose proof (ec_block b) as H. unfold elim_block in H. cbn [fst snd] in H.
  apply andb_prop in H as [_ H]. exact H.
Qed.

Lemma step_rel e F i i' c c' :
  cenv_ok c -> gamma e c -> wfenv e -> Forall (fact_holds lv c) F ->
  irel e F i i' -> step_conc lv i' c c' -> step_conc lv i c c'.
Proof.
  intros C G Wf HF [->|[NOP [AS [a [HA [HO J]]]]]] ST; [exact ST|].
  destruct ST as [Hsame _].
  unfold is_nop in NOP. apply andb_prop in NOP as [_ NOP].
  destruct (i_args i') ; [|discriminate]. destruct (i_outs i') as [|? ?] eqn:O'; [|discriminate].
  unfold step_conc. rewrite HO. split; [|split; [|split]].
  - intros x _. apply Hsame. intros [].
  - intros x [].
  - intros g o SF. unfold sem_fun in SF. destruct (has_label (i_args i)); [discriminate|]. rewrite HO in SF. discriminate.
  - intros _ a0 HA0. rewrite HA in HA0. injection HA0 as <-.
    apply orb_prop in J as [J|J]; [eapply just_range_sound | eapply just_overflow_sound]; eauto.
Qed.

Theorem elim_reach : forall b k c, reach f' lv b k c -> reach f lv b k c.
Proof.
  pose proof ec_check as CK.
  induction 1 as [c C | b k c c' i' R IH Hn HS | p c b c' T' R IH HT HB HP].
  - constructor. exact C.
  - destruct (elim_body_nth _ _ _ _ _ _ (ec_body b) Hn) as [i [ek [A [B REL]]]].
    destruct (reach_inv f E lv L CK b k c IH) as [C [e [EA [G [Wf HF]]]]].
    unfold env_at in EA. rewrite B in EA. injection EA as <-.
    eapply r_step; [exact IH | exact A |].
    eapply step_rel; eauto.
  - assert (LEN := elim_body_len _ _ _ _ (ec_body p)).
    rewrite <- LEN in IH.
    (* terminators coincide *)
    assert (TT : term_of (nth_block f p) = Some T').
    { rewrite term_of_last in HT |- *.
      rewrite (block_split (nth_block f' p)) in HT. rewrite (block_split (nth_block f p)). rewrite (ec_phis p).
      destruct (body (nth_block f' p)) as [|x' t'] eqn:B'.
      - destruct (body (nth_block f p)) as [|? ?] eqn:B0; [|discriminate]. exact HT.
      - destruct (body (nth_block f p)) as [|x t] eqn:B0; [discriminate|].
        destruct (leading_phis (nth_block f' p) ++ x' :: t')%list eqn:Z1; [destruct (leading_phis (nth_block f' p)); discriminate|].
        destruct (leading_phis (nth_block f' p) ++ x :: t)%list eqn:Z2; [destruct (leading_phis (nth_block f' p)); discriminate|].
        rewrite <- Z1 in HT. rewrite <- Z2. rewrite last_app_cons in HT |- *. injection HT as HT.
        pose proof (ec_body p) as EB. rewrite B', B0 in EB.
        destruct (elim_body_last _ _ _ _ T' EB ltac:(discriminate) HT) as [ek [Fk [[EQ|[NOP _]] _]]].
        + rewrite EQ. reflexivity.
        + rewrite (nop_no_targets lv T' c NOP) in HB. destruct HB. }
    eapply r_jump; [exact IH | exact TT | exact HB |]. rewrite (ec_phis b). exact HP.
Qed.

End Main.

(* the other inclusion needs no justification: a deleted assertion only removes a constraint *)
Section Converse.
Variables (f f' : func) (E : list aenv) (lv : N -> Z).
Hypothesis EC : elim_check f E f' = true.

Lemma step_rel_conv e F i i' c c' : irel e F i i' -> step_conc lv i c c' -> step_conc lv i' c c'.
Proof.
  intros [->|[NOP [AS [a [HA [HO J]]]]]] ST; [exact ST|].
  destruct ST as [Hsame _]. rewrite HO in Hsame.
  unfold is_nop in NOP. apply andb_prop in NOP as [OP NOP]. apply String.eqb_eq in OP.
  destruct (i_args i') eqn:A'; [|discriminate]. destruct (i_outs i') as [|? ?] eqn:O'; [|discriminate].
  unfold step_conc. rewrite O'. split; [|split; [|split]].
  - intros x _. apply Hsame. intros [].
  - intros x [].
  - intros g o SF. unfold sem_fun in SF. rewrite A', O' in SF. cbn in SF. discriminate.
  - unfold assert_passes. rewrite OP. cbn. discriminate.
Qed.

Lemma elim_body_nth_conv : forall l l' e F k i,
  elim_body e F l l' = true -> nth_error l k = Some i ->
  exists i' ek Fk, nth_error l' k = Some i' /\ irel ek Fk i i'.
Proof.
  induction l as [|j t IH]; intros [|j' t'] e F k i H Hn; cbn in H; try discriminate.
  { destruct k; discriminate. }
  apply andb_prop in H as [H1 H2].
  destruct (step_abs e j) as [e1|] eqn:SA; [|discriminate].
  destruct k as [|k].
  - cbn in Hn. injection Hn as ->. exists j', e, F. split; [reflexivity|].
    destruct (inst_eqb i j') eqn:EQ; [left; apply inst_eqb_eq; exact EQ|].
    right. apply andb_prop in H1 as [H1 H3]. apply andb_prop in H1 as [H1 H1'].
    split; [exact H1|]. split; [exact H1'|].
    destruct (i_args i) as [|a [|? ?]]; try discriminate. destruct (i_outs i); try discriminate.
    exists a. repeat split; assumption.
  - cbn in Hn. destruct (IH t' e1 (facts_step F j) k i H2 Hn) as [i' [ek [Fk [A B]]]].
    exists i', ek, Fk. split; assumption.
Qed.

Theorem elim_reach_conv : forall b k c, reach f lv b k c -> reach f' lv b k c.
Proof.
  induction 1 as [c C | b k c c' i R IH Hn HS | p c b c' T R IH HT HB HP].
  - constructor. exact C.
  - destruct (elim_body_nth_conv _ _ _ _ _ _ (ec_body f f' E EC b) Hn) as [i' [ek [Fk [A REL]]]].
    eapply r_step; [exact IH | exact A | eapply step_rel_conv; eauto].
  - assert (LEN := elim_body_len _ _ _ _ (ec_body f f' E EC p)).
    rewrite LEN in IH.
    assert (TT : term_of (nth_block f' p) = Some T).
    { rewrite term_of_last in HT |- *.
      rewrite (block_split (nth_block f p)) in HT. rewrite (block_split (nth_block f' p)). rewrite <- (ec_phis f f' E EC p).
      destruct (body (nth_block f p)) as [|x t] eqn:B0.
      - destruct (body (nth_block f' p)) as [|? ?] eqn:B'; [|discriminate]. exact HT.
      - destruct (body (nth_block f' p)) as [|x' t'] eqn:B'; [discriminate|].
        destruct (leading_phis (nth_block f p) ++ x :: t)%list eqn:Z1; [destruct (leading_phis (nth_block f p)); discriminate|].
        destruct (leading_phis (nth_block f p) ++ x' :: t')%list eqn:Z2; [destruct (leading_phis (nth_block f p)); discriminate|].
        rewrite <- Z1 in HT. rewrite <- Z2. rewrite last_app_cons in HT |- *. injection HT as HT.
        pose proof (ec_body f f' E EC p) as EB. rewrite B', B0 in EB.
        destruct (elim_body_last _ _ _ _ (last (x' :: t') (mkI "" [] [])) EB ltac:(discriminate) eq_refl) as [ek [Fk [[EQ|[NOP [AS _]]] _]]].
        + f_equal. etransitivity; [symmetry; exact EQ | exact HT].
        + (* the terminator of f would be an assert: it has no targets *)
          assert (AT : String.eqb (i_op T) "assert" = true) by (rewrite <- HT; exact AS).
          unfold targets in HB. apply String.eqb_eq in AT. rewrite AT in HB. destruct HB. }
    eapply r_jump; [exact IH | exact TT | exact HB |]. rewrite <- (ec_phis f f' E EC b). exact HP.
Qed.
End Converse.
