(* Verified validator for AffineFoldingPass (vyper/venom/passes/affine_folding.py).
   The pass rewrites  o = add/sub(...)  into  o = add base, k   or  o = base  when a chain of add/sub-by-literal/assign
   definitions shows  o = base + k (mod 2^256).  `affine_check f f'` accepts when f' is f with some instructions
   replaced by instructions that provably compute the same word: both sides are normalised to (root, offset) by
   following the definitions AVAILABLE at that point (facts of RangeFix.v: killed when a participant is redefined, so
   the argument does not assume SSA) and must have the same normal form.  Definitions only. *)
From Coq Require Import ZArith NArith Bool List String Lia.
From Verif Require Import Base.Word256 Base.PyInt C14.RangeBase C14.RangeFix C14.RangeElim.
Import ListNotations.
Open Scope string_scope.
Open Scope Z_scope.

Definition nform := (option operand * Z)%type.   (* value = (root or 0) + offset  mod 2^256 *)

Definition nf_add_opt (p1 p2 : nform) : option nform :=
  match fst p1, fst p2 with
  | None, _ => Some (fst p2, (snd p1 + snd p2) mod W)
  | _, None => Some (fst p1, (snd p1 + snd p2) mod W)
  | _, _ => None
  end.
Definition nf_sub_opt (p1 p2 : nform) : option nform :=   (* p1 - p2 *)
  match fst p2 with
  | None => Some (fst p1, (snd p1 - snd p2) mod W)
  | _ => None
  end.
Definition or_self (o : operand) (r : option nform) : nform := match r with Some p => p | None => (Some o, 0) end.

Fixpoint nf (n : nat) (F : list fact) (o : operand) : nform :=
  match o with
  | OLit v => (None, v mod W)
  | OLab _ => (Some o, 0)
  | OVar x =>
    match n with
    | O => (Some o, 0)
    | Datatypes.S n' =>
      match find_fact F x with
      | Some (op, [a]) => if String.eqb op "assign" then nf n' F a else (Some o, 0)
      | Some (op, [a2; a1]) =>
          if String.eqb op "add" then or_self o (nf_add_opt (nf n' F a1) (nf n' F a2))
          else if String.eqb op "sub" then or_self o (nf_sub_opt (nf n' F a1) (nf n' F a2))
          else (Some o, 0)
      | _ => (Some o, 0)
      end
    end
  end.

(* normal form of the value an instruction computes (add / sub / assign with one output, no label operand) *)
Definition inst_nf (n : nat) (F : list fact) (i : inst) : option nform :=
  if has_label (i_args i) then None else
  match i_outs i with
  | [o] =>
    if existsb (is_var o) (i_args i) then None else
    match i_args i with
    | [a] => if String.eqb (i_op i) "assign" then Some (nf n F a) else None
    | [a2; a1] =>
        if String.eqb (i_op i) "add" then nf_add_opt (nf n F a1) (nf n F a2)
        else if String.eqb (i_op i) "sub" then nf_sub_opt (nf n F a1) (nf n F a2)
        else None
    | _ => None
    end
  | _ => None
  end.

Definition root_eqb (a b : option operand) : bool :=
  match a, b with
  | None, None => true
  | Some (OVar x), Some (OVar y) => N.eqb x y
  | Some (OLab x), Some (OLab y) => N.eqb x y
  | _, _ => false
  end.

Definition affine_ok (n : nat) (F : list fact) (i i' : inst) : bool :=
  match i_outs i, i_outs i' with
  | [o], [o'] =>
    N.eqb o o' &&
    match inst_nf n F i, inst_nf n F i' with
    | Some p, Some p' =>
        root_eqb (fst p) (fst p') && Z.eqb (snd p) (snd p')
    | _, _ => false
    end
  | _, _ => false
  end.

Fixpoint aff_body (n : nat) (F : list fact) (l l' : list inst) : bool :=
  match l, l' with
  | [], [] => true
  | i :: t, i' :: t' => (inst_eqb i i' || affine_ok n F i i') && aff_body n (facts_step F i) t t'
  | _, _ => false
  end.

Definition aff_block (n : nat) (bf : block * block) : bool :=
  phis_eqb (leading_phis (fst bf)) (leading_phis (snd bf)) && aff_body n [] (body (fst bf)) (body (snd bf)).

Definition affine_check (f f' : func) : bool :=
  let n := Datatypes.S (List.length (List.concat f)) in
  Nat.eqb (List.length f) (List.length f') && forallb (aff_block n) (combine f f').
