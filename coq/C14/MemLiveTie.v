(* C14 / MemLiveTie.v -- the write kinds of MemLive.v against the byte-level semantics of C14M/MemSem.v.
   Not in coq/STATIC (C14M is built by its part's prebuild); compiled by tools/vlib/c14_memlive.py. *)
From Coq Require Import List Bool String.
From Verif Require Import C14.MemLive.
From Verif Require C14M.MemSem.
Import ListNotations.

(* the write kinds agree with the byte-level semantics of C14M/MemSem.v (shape_of, tied to pyrevm and effects.py there):
   a WMust opcode must-writes one memory range, the call family may-writes its output buffer *)
Definition has_mem_write (op : string) : bool :=
  match MemSem.sh_w (MemSem.shape_of op) with
  | [r] => match MemSem.sr_sp r with MemSem.Mem => true | _ => false end
  | _ => false
  end.
Theorem wkind_matches_memsem :
  forallb (fun op => has_mem_write op && MemSem.sh_must (MemSem.shape_of op)) MUST_WRITERS = true /\
  forallb (fun op => has_mem_write op && negb (MemSem.sh_must (MemSem.shape_of op))) ["call"; "staticcall"; "delegatecall"]%string = true /\
  forallb (fun op => match wk_of op with WMay => true | _ => false end) ["call"; "staticcall"; "delegatecall"]%string = true.
Proof. vm_compute. auto. Qed.
Print Assumptions wkind_matches_memsem.

