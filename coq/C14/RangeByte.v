From Coq Require Import ZArith Bool List String Lia.
From Verif Require Import Base.Word256 Base.PyInt Base.WordLemmas C14.RangeBase C14.GenRange C14.RangeSound C14.RangeLemmas2.
Import ListNotations.
Open Scope Z_scope.
Ltac Zify.zify_post_hook ::= Z.to_euclidean_division_equations.

Lemma byte_bytes1 i x :
  (exists v, 0 <= v <= 255 /\ v mod W = (if i <? 32 then (x / 2 ^ (8 * (31 - i))) mod 256 else 0)) /\
  - HALF <= 0 /\ 0 <= 255 <= W - 1.
Proof.
  split; [|wl]. destruct (i <? 32); [|exists 0; split; [lia | reflexivity]].
  set (y := x / _). exists (y mod 256). pose proof (Z.mod_pos_bound y 256 ltac:(lia)).
  split; [lia | apply Z.mod_small; wl].
Qed.

(* the prefix argument: if lo and hi agree above byte position s, the selected byte is monotone on [lo, hi] *)
Lemma byte_prefix l h v s : 0 <= s -> l <= v <= h ->
  rshift_fast l (s + 8) = rshift_fast h (s + 8) ->
  Z.land (rshift_fast l s) 255 <= (v / 2 ^ s) mod 256 <= Z.land (rshift_fast h s) 255 /\
  0 <= Z.land (rshift_fast l s) 255 /\ Z.land (rshift_fast h s) 255 <= 255.
Proof.
  intros Hs Hv. rewrite !rshift_fast_spec, !Z.shiftr_div_pow2 by lia.
  rewrite Z.pow_add_r by lia. assert (P: 0 < 2 ^ s) by (apply Z.pow_pos_nonneg; lia).
  rewrite <- !Z.div_div by lia. change (2 ^ 8) with 256.
  change 255 with (Z.ones 8). rewrite !Z.land_ones by lia. change (2 ^ 8) with 256.
  pose proof (Z.div_le_mono l v _ P ltac:(lia)). pose proof (Z.div_le_mono v h _ P ltac:(lia)).
  set (L := l / 2 ^ s) in *. set (H' := h / 2 ^ s) in *. set (V := v / 2 ^ s) in *.
  intros E. change (Z.ones 8) with 255. clearbody L H' V. lia.
Qed.

Theorem eval_byte_sound : sound2 eval_byte w_byte.
Proof.
  intros A B a b WA WB MA MB; unfold eval_byte; go2 A B; unfold w_byte; fixreps.
  all: lazymatch goal with
       | |- (exists v, 0 <= v <= 255 /\ _) /\ _ => apply byte_bytes1
       | E : 32 <= ?i |- context [?i <? 32] =>
           assert (E9: i <? 32 = false) by (apply Z.ltb_ge; exact E); rewrite E9; sw 0
       | _ => idtac
       end.
  all: assert (E9: h1 mod W <? 32 = true) by (apply Z.ltb_lt; assumption); rewrite ?E9; clear E9.
  all: replace (8 * (31 - h1 mod W)) with ((31 - h1 mod W) * 8) by lia.
  all: set (s := (31 - h1 mod W) * 8) in *.
  all: assert (V0: v0 mod W = v0) by (apply Z.mod_small; lia); rewrite ?V0.
  - rewrite Z.shiftl_mul_pow2, Z.mul_1_l in E2 by lia.
    rewrite (Z.div_small v0 (2 ^ s)) by lia. sw 0.
  - exfalso. destruct (byte_prefix l2 h2 v0 s ltac:(lia) Hr E5) as (? & ? & ?). lia.
  - destruct (byte_prefix l2 h2 v0 s ltac:(lia) Hr E5) as (? & ? & ?).
    set (y := (v0 / 2 ^ s) mod 256) in *.
    split; [exists y; split; [lia | apply Z.mod_small; wl] | wl].
Qed.
