(* Verified validator for one run of the SCCP pass (vyper/venom/passes/sccp/sccp.py) on a whole function.

   Certificate (exported from the real pass object after run_pass): the final lattice (variable -> TOP | CONST k |
   BOTTOM), the executable blocks and executable CFG edges (cfg_in_exec), and - computed by the harness, checked
   here - the variables definitely assigned at the entry of each executable block.
   `sccp_check before C after` tests that
     (i)  the lattice is a post-fixpoint of the transfer functions over the executable part of the CFG: for every
          instruction of an executable block the abstract result is below the lattice value of its output; phis only
          take the operands of executable edges; a jnz on CONST only needs the taken edge, otherwise both; the entry
          is executable; every variable read in an executable block is definitely assigned (so "CONST k" can be
          read as "holds k whenever it is read");
     (ii) after = before with every CONST variable operand replaced by its literal, every `jnz` on a CONST condition
          replaced by `jmp` to the taken target, every `assert`/`assert_unreachable` of a non-zero CONST replaced by
          `nop`, and nothing else (phis untouched).
   Semantics: RangeFix.v (`step_conc`, `targets`, `phi_assign`), extended with the ghost set of assigned variables.
   No proofs here (SccpProofs.v). *)
From Coq Require Import ZArith NArith PArith Bool List String FSetPositive.
From Verif Require Import Base.Word256 Base.PyInt C14.RangeBase C14.RangeFix.
Import ListNotations.
Open Scope string_scope.
Open Scope Z_scope.

(* ------------------------------------------------------------------ lattice *)
Inductive lval := LTop | LConst (v : Z) | LBot.
Definition lmap := N -> lval.
Fixpoint lat_of (al : list (N * lval)) (x : N) : lval :=
  match al with [] => LTop | (y, r) :: t => if N.eqb x y then r else lat_of t x end.

(* information order: TOP (never assigned) below CONST below BOTTOM (any word); constants compared as words *)
Definition lle (a b : lval) : bool :=
  match a, b with
  | LTop, _ => true
  | _, LBot => true
  | LConst x, LConst y => x mod W =? y mod W
  | _, _ => false
  end.
Definition is_top (a : lval) : bool := match a with LTop => true | _ => false end.
Definition is_lbot (a : lval) : bool := match a with LBot => true | _ => false end.
Definition aval (L : lmap) (o : operand) : lval :=
  match o with OLit v => LConst v | OVar x => L x | OLab _ => LBot end.

(* abstract transfer, in the shape of RangeFix.sem_fun; None = the semantics does not determine the outputs *)
Definition atrans (L : lmap) (ins : inst) : option lval :=
  if has_label (i_args ins) then None else
  match i_outs ins with
  | [_] =>
    if String.eqb (i_op ins) "assign" then
      match i_args ins with [a] => Some (aval L a) | _ => None end
    else match word_op (i_op ins) with
    | None => None
    | Some w =>
      if is_unary (i_op ins) then
        match i_args ins with
        | [a] => Some (match aval L a with LConst v => LConst (w (v mod W) 0) | _ => LBot end)
        | _ => None
        end
      else
        match i_args ins with
        | [a2; a1] => Some (match aval L a1, aval L a2 with
                            | LConst v1, LConst v2 => LConst (w (v1 mod W) (v2 mod W))
                            | _, _ => LBot end)
        | _ => None
        end
    end
  | _ => None
  end.

(* an instruction one of whose operands is TOP is never executed (the operand is never assigned) *)
Definition inst_lat_ok (L : lmap) (ins : inst) : bool :=
  existsb (fun a => is_top (aval L a)) (i_args ins) ||
  match atrans L ins with
  | Some r => match i_outs ins with [o] => lle r (L o) | _ => false end
  | None => forallb (fun o => is_lbot (L o)) (i_outs ins)
  end.

(* ------------------------------------------------------------------ certificate *)
Definition pset := PositiveSet.t.
Definition pv (x : N) : positive := N.succ_pos x.
Definition smem (x : N) (s : pset) : bool := PositiveSet.mem (pv x) s.
Definition sadd_all (l : list N) (s : pset) : pset := fold_left (fun s x => PositiveSet.add (pv x) s) l s.
Definition set_of (l : list N) : pset := sadd_all l PositiveSet.empty.

Record cert := mkCert {
  c_lat : list (N * lval);        (* SCCP.lattice *)
  c_exe : list bool;              (* block is executable (cfg_in_exec[b] non-empty) *)
  c_pred : list (list N);         (* cfg_in_exec[b]: executable predecessors *)
  c_def : list (list N) }.        (* variables definitely assigned at the entry of the block *)

Definition memN (x : N) (l : list N) : bool := existsb (N.eqb x) l.
Definition exe (C : cert) (b : N) : bool := nth (N.to_nat b) (c_exe C) false.
Definition edge_ok (C : cert) (p b : N) : bool := memN p (nth (N.to_nat b) (c_pred C) []) && exe C b.
Definition def_at (C : cert) (b : N) : pset := set_of (nth (N.to_nat b) (c_def C) []).

Definition vars_of (l : list operand) : list N := flat_map (fun o => match o with OVar x => [x] | _ => [] end) l.
Definition phi_outs (b : block) : list N := flat_map i_outs (leading_phis b).

(* every variable read is definitely assigned *)
Fixpoint def_run (s : pset) (l : list inst) : option pset :=
  match l with
  | [] => Some s
  | i :: t => if forallb (fun x => smem x s) (vars_of (i_args i)) then def_run (sadd_all (i_outs i) s) t else None
  end.

Definition term_ok (L : lmap) (C : cert) (p : N) (T : inst) : bool :=
  if String.eqb (i_op T) "jmp" then match i_args T with [OLab l] => edge_ok C p l | _ => true end
  else if String.eqb (i_op T) "jnz" then
    match i_args T with
    | [cond; OLab t; OLab f] =>
        match aval L cond with
        | LTop => true
        | LConst v => if v mod W =? 0 then edge_ok C p f else edge_ok C p t
        | LBot => edge_ok C p t && edge_ok C p f
        end
    | _ => true
    end
  else if String.eqb (i_op T) "djmp" then
    existsb (fun a => is_top (aval L a)) (i_args T) || forallb (edge_ok C p) (labels_of (i_args T))
  else true.

Definition edge_phis_ok (L : lmap) (f : func) (p b : N) (X : pset) : bool :=
  forallb (fun ins => match phi_out ins with
                      | Some o => forallb (fun q : N * N => if N.eqb (fst q) p then smem (snd q) X && lle (L (snd q)) (L o) else true)
                                          (phi_pairs (i_args ins))
                      | None => false
                      end) (leading_phis (nth_block f b)).

Definition block_ok (L : lmap) (f : func) (C : cert) (p : N) : bool :=
  let blk := nth_block f p in
  block_shape_ok blk &&
  match def_run (sadd_all (phi_outs blk) (def_at C p)) (body blk) with
  | None => false
  | Some X =>
      forallb (inst_lat_ok L) (body blk) &&
      match term_of blk with
      | None => true
      | Some T =>
          term_ok L C p T &&
          forallb (fun b => if edge_ok C p b
                            then PositiveSet.subset (def_at C b) X && edge_phis_ok L f p b X
                            else true) (succs T)
      end
  end.

(* ------------------------------------------------------------------ the rewrite (_replace_constants) *)
Definition subst (L : lmap) (o : operand) : operand :=
  match o with OVar x => match L x with LConst v => OLit v | _ => o end | _ => o end.
Definition lit_norm (v : Z) : bool := Bool.eqb (v =? 0) (v mod W =? 0).
Definition generic (L : lmap) (ins : inst) : inst := mkI (i_op ins) (map (subst L) (i_args ins)) (i_outs ins).

Definition rw_inst (L : lmap) (ins : inst) : inst :=
  if is_phi ins then ins
  else if String.eqb (i_op ins) "jnz" then
    match i_args ins with
    | [cond; OLab t; OLab f] =>
        match aval L cond with
        | LConst v => mkI "jmp" [OLab (if v =? 0 then f else t)] (i_outs ins)
        | _ => generic L ins
        end
    | _ => generic L ins
    end
  else if String.eqb (i_op ins) "assert" || String.eqb (i_op ins) "assert_unreachable" then
    match i_args ins, i_outs ins with
    | [a], [] => match aval L a with
                 | LConst v => if v =? 0 then generic L ins else mkI "nop" [] []
                 | _ => generic L ins
                 end
    | _, _ => generic L ins
    end
  else generic L ins.

(* constants the pass compares with 0 as python ints must also be 0 / non-0 as words *)
Definition rw_safe (L : lmap) (ins : inst) : bool :=
  forallb (fun a => match aval L a with LConst v => lit_norm v | _ => true end) (i_args ins).

Definition rwf (L : lmap) (f : func) : func := map (map (rw_inst L)) f.

(* ------------------------------------------------------------------ decidable equality of functions *)
Definition operand_eqb (a b : operand) : bool :=
  match a, b with OLit x, OLit y => x =? y | OVar x, OVar y => N.eqb x y | OLab x, OLab y => N.eqb x y | _, _ => false end.
Fixpoint list_eqb {A} (e : A -> A -> bool) (a b : list A) : bool :=
  match a, b with [], [] => true | x :: s, y :: t => e x y && list_eqb e s t | _, _ => false end.
Definition inst_eqb (a b : inst) : bool :=
  String.eqb (i_op a) (i_op b) && list_eqb operand_eqb (i_args a) (i_args b) && list_eqb N.eqb (i_outs a) (i_outs b).
Definition func_eqb (f g : func) : bool := list_eqb (list_eqb inst_eqb) f g.

(* ------------------------------------------------------------------ the checker *)
Definition lattice_ok (f : func) (C : cert) : bool :=
  let L := lat_of (c_lat C) in
  exe C 0 &&
  PositiveSet.subset (sadd_all (phi_outs (nth_block f 0)) (def_at C 0)) PositiveSet.empty &&
  forallb (fun p => if exe C (N.of_nat p) then block_ok L f C (N.of_nat p) else true) (seq 0 (List.length f)).
Definition rewrite_ok (f : func) (C : cert) (after : func) : bool :=
  let L := lat_of (c_lat C) in
  forallb (forallb (rw_safe L)) f && func_eqb after (rwf L f).
Definition sccp_check (f : func) (C : cert) (after : func) : bool := lattice_ok f C && rewrite_ok f C after.

(* ------------------------------------------------------------------ semantics with the ghost set of assigned variables *)
Inductive reachS (f : func) (lv : N -> Z) : N -> nat -> cenv -> list N -> Prop :=
| rs_init c : cenv_ok c -> reachS f lv 0%N 0%nat c []
| rs_step b k c S c' ins : reachS f lv b k c S -> nth_error (body (nth_block f b)) k = Some ins ->
    step_conc lv ins c c' -> reachS f lv b (Datatypes.S k) c' (i_outs ins ++ S)
| rs_jump p c S b c' T : reachS f lv p (List.length (body (nth_block f p))) c S ->
    term_of (nth_block f p) = Some T -> In b (targets lv T c) ->
    phi_assign (leading_phis (nth_block f b)) p c c' ->
    reachS f lv b 0%nat c' (phi_outs (nth_block f b) ++ S).

(* what CONST / TOP / BOTTOM mean for an assigned variable *)
Definition agrees (L : lmap) (c : cenv) (x : N) : Prop :=
  match L x with LTop => False | LConst v => c x = v mod W | LBot => True end.

(* ------------------------------------------------------------------ diagnostics for the harness (not used by the theorems) *)
(* first failing conjunct of block_ok: 0 ok, 1 shape, 2 read of a variable not definitely assigned, 3 lattice not a
   post-fixpoint at an instruction, 4 a feasible edge is not marked executable, 5 definitely-assigned sets, 6 phi operand *)
Definition block_diag (L : lmap) (f : func) (C : cert) (p : N) : Z :=
  let blk := nth_block f p in
  if negb (block_shape_ok blk) then 1 else
  match def_run (sadd_all (phi_outs blk) (def_at C p)) (body blk) with
  | None => 2
  | Some X =>
      if negb (forallb (inst_lat_ok L) (body blk)) then 3 else
      match term_of blk with
      | None => 0
      | Some T =>
          if negb (term_ok L C p T) then 4 else
          if negb (forallb (fun b => if edge_ok C p b then PositiveSet.subset (def_at C b) X else true) (succs T)) then 5 else
          if negb (forallb (fun b => if edge_ok C p b then edge_phis_ok L f p b X else true) (succs T)) then 6 else 0
      end
  end.
Definition b2Z (b : bool) : Z := if b then 1 else 0.
(* [lattice_ok; rewrite_ok; rw_safe everywhere; #blocks failing with code 1..6; first failing block; #CONST variables;
    #executable blocks; #instructions changed by the rewrite] *)
Definition sccp_report (f : func) (C : cert) (after : func) : list Z :=
  let L := lat_of (c_lat C) in
  let ds := map (fun p => if exe C (N.of_nat p) then block_diag L f C (N.of_nat p) else 0) (seq 0 (List.length f)) in
  let cnt k := Z.of_nat (List.length (filter (fun d => d =? k) ds)) in
  let first := fold_right (fun pd acc => if snd pd =? 0 then acc else Z.of_nat (fst pd)) (-1) (combine (seq 0 (List.length f)) ds) in
  [ b2Z (lattice_ok f C); b2Z (rewrite_ok f C after); b2Z (forallb (forallb (rw_safe L)) f);
    cnt 1; cnt 2; cnt 3; cnt 4; cnt 5; cnt 6; first;
    Z.of_nat (List.length (filter (fun xr => match snd xr with LConst _ => true | _ => false end) (c_lat C)));
    Z.of_nat (List.length (filter (fun b => b) (c_exe C)));
    Z.of_nat (List.length (filter (fun ab => negb (inst_eqb (fst ab) (snd ab)))
                                  (flat_map (fun bb => combine (fst bb) (snd bb)) (combine f after)))) ].
