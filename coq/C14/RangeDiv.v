From Coq Require Import ZArith Bool List String Lia.
From Verif Require Import Base.Word256 Base.PyInt Base.WordLemmas C14.RangeBase C14.GenRange C14.RangeSound.
Import ListNotations.
Open Scope Z_scope.
Ltac Zify.zify_post_hook ::= Z.to_euclidean_division_equations.

Ltac go2 A B :=
  destruct A as [| |l1 h1], B as [| |l2 h2]; cbn [mem wf] in *; try contradiction;
  open_range; rewrite ?wrap256_unsigned; consts; exec; getreps; subst.

Theorem eval_mod_sound : sound2 eval_mod w_mod.
Proof.
  intros A B a b WA WB MA MB; unfold eval_mod; go2 A B; unfold w_mod.
  Show.
Abort.
