From Coq Require Import ZArith Bool List String Lia.
From Verif Require Import Base.Word256 Base.PyInt Base.WordLemmas C14.RangeBase C14.GenRange C14.RangeSound.
Import ListNotations.
Open Scope Z_scope.
Ltac Zify.zify_post_hook ::= Z.to_euclidean_division_equations.



Theorem eval_mod_sound : sound2 eval_mod w_mod.
Proof.
  intros A B a b WA WB MA MB; unfold eval_mod; go2 A B; unfold w_mod.
  all: assert (v0 = h2) by lia; subst v0.
  all: wordwit.
Qed.

Theorem eval_div_sound : sound2 eval_div w_div.
Proof.
  intros A B a b WA WB MA MB; unfold eval_div; go2 A B; unfold w_div.
  all: assert (v0 = h2) by lia; subst v0.
  all: try (assert (D: 0 < h2 mod W) by mlia).
  all: try (assert (v1 mod W = v1) as -> by mlia).
  all: try (pose proof (Z.div_le_mono l1 v1 (h2 mod W) D ltac:(lia));
            pose proof (Z.div_le_mono v1 h1 (h2 mod W) D ltac:(lia));
            pose proof (Z.div_pos l1 (h2 mod W) ltac:(lia) D);
            assert (h1 / (h2 mod W) <= h1) by (apply Z.div_le_upper_bound; nia)).
  all: try (exfalso; lia).
  all: post_if; b2p; try lia.
  - sw 0.
  - sw 0.
  - split; [exists (v1 / (h2 mod W)); split; [lia|] | wl]. apply Z.mod_small. wl.
Qed.

Theorem eval_shr_sound : sound2 eval_shr w_shr.
Proof.
  intros A B a b WA WB MA MB; unfold eval_shr; go2 A B; unfold w_shr; fixreps.
  all: assert (S0: 0 <= h1 mod W) by mlia.
  all: rewrite ?Z.shiftl_mul_pow2, ?Z.mul_1_l in * by exact S0.
  all: assert (P: 0 < 2 ^ (h1 mod W)) by (apply Z.pow_pos_nonneg; lia).
  all: try (exfalso; lia).
  all: post_if; b2p; try lia.
  - sw 0.
  - sw 0.
  - exfalso. pose proof (Z.div_le_mono l2 h2 _ P ltac:(lia)). lia.
  - assert (v0 mod W = v0) as -> by mlia.
    pose proof (Z.div_le_mono l2 v0 _ P ltac:(lia)). pose proof (Z.div_le_mono v0 h2 _ P ltac:(lia)).
    pose proof (Z.div_pos l2 _ ltac:(lia) P).
    assert (h2 / 2 ^ (h1 mod W) <= h2) by (apply Z.div_le_upper_bound; nia).
    split; [exists (v0 / 2 ^ (h1 mod W)); split; [lia|] | wl]. apply Z.mod_small. wl.
Qed.

Theorem eval_shl_sound : sound2 eval_shl w_shl.
Proof.
  intros A B a b WA WB MA MB; unfold eval_shl; go2 A B; unfold w_shl; fixreps.
  all: assert (S0: 0 <= h1 mod W) by mlia.
  all: assert (P: 0 < 2 ^ (h1 mod W)) by (apply Z.pow_pos_nonneg; lia).
  1-2: post_if; b2p; try lia; sw 0.
  rewrite ?Z.shiftl_mul_pow2 in * by exact S0.
  rewrite rshift_fast_spec, Z.shiftr_div_pow2 in * by exact S0.
  assert (h1 mod W <? 256 = true) as -> by (apply Z.ltb_lt; lia).
  assert (v0 mod W = v0) as -> by mlia.
  set (p := 2 ^ (h1 mod W)) in *.
  assert (Hh: h2 * p <= W - 1).
  { assert (h2 * p <= ((W - 1) / p) * p) by nia. pose proof (Z.mul_div_le (W - 1) p P). lia. }
  assert (l2 * p <= v0 * p <= h2 * p) by nia.
  assert (0 <= l2 * p) by nia.
  rewrite !Z.mod_small in * by lia.
  unfold to_signed in *.
  destruct (l2 * p <? HALF) eqn:A1, (h2 * p <? HALF) eqn:A2; b2p; try (exfalso; wl).
  - sw (v0 * p).
  - sw (v0 * p - W).
Qed.

Theorem eval_sar_sound : sound2 eval_sar w_sar.
Proof.
  intros A B a b WA WB MA MB; unfold eval_sar; go2 A B; unfold w_sar, of_signed, MAXU; fixreps.
  all: assert (S0: 0 <= h1 mod W) by mlia.
  all: assert (P: 0 < 2 ^ (h1 mod W)) by (apply Z.pow_pos_nonneg; lia).
  all: rewrite ?rshift_fast_spec, ?Z.shiftr_div_pow2 in * by exact S0.
  all: try rewrite (to_signed_mod v0) by wl.
  all: try (pose proof (Z.div_le_mono l2 v0 _ P ltac:(lia)); pose proof (Z.div_le_mono v0 h2 _ P ltac:(lia))).
  all: try (exfalso; lia).
  all: post_if; b2p; try lia.
  - sw 0.
  - sw (-1).
  - sw (-1).
  - sw 0.
  - assert (- HALF <= l2 / 2 ^ (h1 mod W)) by (apply Z.div_le_lower_bound; nia).
    assert (h2 / 2 ^ (h1 mod W) <= HALF - 1).
    { destruct (Z_le_dec 0 h2); [apply Z.le_trans with h2; [apply Z.div_le_upper_bound; nia | lia]|].
      assert (h2 / 2 ^ (h1 mod W) < 0) by (apply Z.div_lt_upper_bound; lia). wl. }
    split; [exists (v0 / 2 ^ (h1 mod W)); split; [lia | reflexivity] | wl].
Qed.

