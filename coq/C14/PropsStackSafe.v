(* C14, StackCleanupSafety (stack_safety.py): property theorems only.  Model and checker: StackSafe.v. *)
From Coq Require Import NArith Arith Bool List String Lia.
From Verif Require Import C14.StackSafe C14.StackSafeProofs.
Import ListNotations.
Open Scope string_scope.
Open Scope list_scope.
Open Scope nat_scope.

(* If the memo tables of the real analysis pass the local checks, then wherever the analysis allowed a cleanup elision
   (block l of f at local height cur <= ret), EVERY call chain from the entry function to f (callers' frame bounds summing
   to hcall) followed by EVERY path from l -- through any successors, into any callees -- stays within the EVM stack:
   hcall + cur + (distinct variables met + transient of the instruction reached, callee demand included) <= 1024. *)
Theorem stack_cleanup_safety_sound : forall P bc gc hc safe, ss_check P bc gc hc safe = true ->
  forall e f l ret, In (f, l, ret) safe ->
  forall hcall d cur, chain P e f hcall -> demand P f l [] d -> cur <= ret -> hcall + cur + d <= 1024.
Proof. exact stack_cleanup_safety_sound_main. Qed.
Print Assumptions stack_cleanup_safety_sound.

Theorem stack_growth_sound : forall P bc gc hc safe, ss_check P bc gc hc safe = true ->
  forall f l V T d, bget bc f l = Some (V, T) -> demand P f l [] d -> d <= card V + T.
Proof. exact growth_sound. Qed.
Print Assumptions stack_growth_sound.

(* --- non-vacuity --------------------------------------------------------------------------------------------- *)
Definition I0 (n : nat) := {| nops := n; callee := None |}.
Definition IC (n : nat) (c : string) := {| nops := n; callee := Some c |}.
Definition exP : sprog :=
  [ {| fname := "main"; fentry := "m0"; fblocks :=
        [ {| slabel := "m0"; svars := [1%N; 2%N]; sinsts := [I0 2; IC 3 "h"]; ssuccs := ["m1"; "m2"] |};
          {| slabel := "m1"; svars := [2%N; 3%N]; sinsts := [I0 1]; ssuccs := [] |};
          {| slabel := "m2"; svars := [4%N]; sinsts := [I0 4]; ssuccs := [] |} ] |};
    {| fname := "h"; fentry := "h0"; fblocks :=
        [ {| slabel := "h0"; svars := [7%N; 8%N; 9%N]; sinsts := [I0 2]; ssuccs := [] |} ] |} ].
Definition exB : bcert :=
  [ ("main", "m0", ([1%N; 2%N; 3%N; 4%N], 12)); ("main", "m1", ([2%N; 3%N], 3)); ("main", "m2", ([4%N], 6));
    ("h", "h0", ([7%N; 8%N; 9%N], 4)) ].
Definition exG : gcert := [("h", 7)].
Definition exH : hcert := [("main", 0); ("h", 10)].     (* frame main = 4 variables + 6 *)
Example ex_accepts : ss_check exP exB exG exH [("h", "h0", 1007); ("main", "m2", 1017)] = true.
Proof. vm_compute. reflexivity. Qed.
(* the callee's growth forgotten in the transient of the invoking block: rejected *)
Example ex_rejects_missing_callee_growth :
  ss_check exP [ ("main", "m0", ([1%N; 2%N; 3%N; 4%N], 6)); ("main", "m1", ([2%N; 3%N], 3)); ("main", "m2", ([4%N], 6));
                 ("h", "h0", ([7%N; 8%N; 9%N], 4)) ] exG exH [] = false.
Proof. vm_compute. reflexivity. Qed.
(* a successor's variables missing from the summary: rejected *)
Example ex_rejects_missing_successor_vars :
  ss_check exP [ ("main", "m0", ([1%N; 2%N; 4%N], 12)); ("main", "m1", ([2%N; 3%N], 3)); ("main", "m2", ([4%N], 6));
                 ("h", "h0", ([7%N; 8%N; 9%N], 4)) ] exG exH [] = false.
Proof. vm_compute. reflexivity. Qed.
(* a caller height that ignores the caller's frame: rejected *)
Example ex_rejects_caller_height : ss_check exP exB exG [("main", 0); ("h", 3)] [] = false.
Proof. vm_compute. reflexivity. Qed.
(* the premises are met by a real path: main.m0 invokes h; demand 2 + (3 + 2 + (3 + 4)) = 14 *)
Definition bm0 := {| slabel := "m0"; svars := [1%N; 2%N]; sinsts := [I0 2; IC 3 "h"]; ssuccs := ["m1"; "m2"] |}.
Definition bh0 := {| slabel := "h0"; svars := [7%N; 8%N; 9%N]; sinsts := [I0 2]; ssuccs := [] |}.
Definition fh := {| fname := "h"; fentry := "h0"; fblocks := [bh0] |}.
Example ex_demand : demand exP "main" "m0" [] 14.
Proof.
  apply (d_call exP "main" "m0" bm0 [] (IC 3 "h") "h" fh 7).
  - vm_compute. reflexivity.
  - right. left. reflexivity.
  - reflexivity.
  - vm_compute. reflexivity.
  - apply (d_inst exP "h" "h0" bh0 [] (I0 2)).
    + vm_compute. reflexivity.
    + left. reflexivity.
    + reflexivity.
Qed.
Example ex_chain : chain exP "main" "h" 10.
Proof.
  apply (c_call exP "main" "main" (hd fh exP) "h" 0).
  - apply c_entry.
  - vm_compute. reflexivity.
  - vm_compute. left. reflexivity.
Qed.
