(* C14 — instruction selection of the Venom back end: the EVM snippet `isel op` emitted for a Venom opcode, executed on
   an EVM stack machine with the operands on top of the stack (first argument of Venom.v's EVM-order argument list =
   top of the stack), yields exactly Venom.v's result for that opcode and leaves the rest of the stack unchanged. *)
From Coq Require Import ZArith Bool List String Lia.
From Verif Require Import Base.Word256 C14.ISel C14.ISelProofs.
From Verif Require C14.Venom C14.VenomNames.
Import ListNotations.
Open Scope string_scope.
Open Scope Z_scope.

(* arithmetic/comparison/bitwise (all 25 pure opcodes of Venom.v, `byte` with the byte index on top), assign, calldata*, mload/mstore/mcopy, codecopy, sload/sstore, tload/tstore, sha3, returndata*, bump *)
Theorem isel_sound : forall E X ow cw o, covered o = true ->
  forall args outs s s' rest, Forall word args ->
  V.eff_sem E X o args s = V.Ok (outs, s') ->
  exists code, isel (VenomNames.opc_name o) [] [] = Some code /\
               run E X ow cw code (words_on args rest) s = ENext (words_on (rev outs) rest) s'.
Proof. exact isel_simple_sound. Qed.
Print Assumptions isel_sound.

Theorem isel_sound_env : forall E X ow cw k, (k < 7)%nat ->
  forall outs s s' rest, V.eff_sem E X (V.O_env k) [] s = V.Ok (outs, s') ->
  exists code, isel (VenomNames.opc_name (V.O_env k)) [] [] = Some code /\
               run E X ow cw code rest s = ENext (words_on (rev outs) rest) s'.
Proof. exact isel_env_sound. Qed.

Theorem isel_sound_external : forall E X ow cw o n, ext_arity o = Some n ->
  forall args outs s s' rest, List.length args = n -> V.eff_sem E X o args s = V.Ok (outs, s') ->
  exists code, isel (VenomNames.opc_name o) [] [] = Some code /\
               run E X ow cw code (words_on args rest) s = ENext (words_on (rev outs) rest) s'.
Proof. exact isel_ext_sound. Qed.

Theorem isel_sound_log : forall E X ow cw p n topics cnt outs s s' rest,
  (List.length topics <= 4)%nat -> cnt = Z.of_nat (List.length topics) ->
  V.eff_sem E X V.O_log (p :: n :: topics ++ [cnt])%list s = V.Ok (outs, s') ->
  exists code, isel "log" [cnt] [] = Some code /\
               run E X ow cw code (words_on (p :: n :: topics) rest) s = ENext (words_on (rev outs) rest) s'.
Proof. exact isel_log_sound. Qed.

Theorem isel_sound_iload : forall E X ow cw, V.e_immbase E = 0 -> forall p outs s s' rest,
  V.eff_sem E X V.O_iload [p] s = V.Ok (outs, s') ->
  exists code, isel "iload" [] [] = Some code /\
               run E X ow cw code (words_on [p] rest) s = ENext (words_on (rev outs) rest) s'.
Proof. exact isel_iload_sound. Qed.

(* istore: the generator's convention is VALUE on top, offset below (IRInstruction.operands = [offset, val]) *)
Theorem isel_sound_istore : forall E X ow cw, V.e_immbase E = 0 -> forall p v outs s s' rest,
  V.eff_sem E X V.O_istore [p; v] s = V.Ok (outs, s') ->
  exists code, isel "istore" [] [] = Some code /\
               run E X ow cw code (words_on [v; p] rest) s = ENext (words_on (rev outs) rest) s'.
Proof. exact isel_istore_sound. Qed.

Theorem isel_sound_assert : forall E X ow cw i vs st a c rest, V.i_op i = V.O_assert -> V.i_args i = [a] ->
  V.eval_op vs a = Some c -> word c ->
  exists code, isel "assert" [] [] = Some code /\
  match V.exec_inst E X i vs st with
  | V.SNext vs' st' => c <> 0 /\ vs' = vs /\ run E X ow cw code (SW c :: rest) st = ENext rest st'
  | V.SHalt h st' => c = 0 /\ run E X ow cw code (SW c :: rest) st = EJump "revert" rest st' /\
                     run E X ow cw revert_postamble rest st' = EHalt h st'
  | V.SJump _ _ _ => False
  end.
Proof. exact isel_assert_sound. Qed.

Theorem isel_sound_assert_unreachable : forall E X ow cw i vs st a c rest e, V.i_op i = V.O_assert_unreachable ->
  V.i_args i = [a] -> V.eval_op vs a = Some c -> word c ->
  exists code, isel "assert_unreachable" [] [e] = Some code /\
  match V.exec_inst E X i vs st with
  | V.SNext vs' st' => c <> 0 /\ vs' = vs /\ run E X ow cw code (SW c :: rest) st = ENext rest st'
  | V.SHalt h st' => c = 0 /\ run E X ow cw code (SW c :: rest) st = EHalt h st'
  | V.SJump _ _ _ => False
  end.
Proof. exact isel_assert_unreachable_sound. Qed.

Theorem isel_sound_jnz : forall E X ow cw ln i vs st a c t e rest, V.i_op i = V.O_jnz ->
  V.i_args i = [a; V.OLab t; V.OLab e] -> V.eval_op vs a = Some c -> word c ->
  exists code, isel "jnz" [] [ln t; ln e] = Some code /\
  match V.exec_inst E X i vs st with
  | V.SJump l vs' st' => vs' = vs /\ run E X ow cw code (SW c :: rest) st = EJump (ln l) rest st'
  | _ => False
  end.
Proof. exact isel_jnz_sound. Qed.

Theorem isel_sound_jmp : forall E X ow cw ln i vs st t rest, V.i_op i = V.O_jmp -> V.i_args i = [V.OLab t] ->
  exists code, isel "jmp" [] [ln t] = Some code /\
  match V.exec_inst E X i vs st with
  | V.SJump l vs' st' => vs' = vs /\ run E X ow cw code rest st = EJump (ln l) rest st'
  | _ => False
  end.
Proof. exact isel_jmp_sound. Qed.

Theorem isel_sound_halt : forall E X ow cw i vs st p n rest o, (o = V.O_return \/ o = V.O_revert) -> V.i_op i = o ->
  V.eval_ops vs (V.i_args i) = Some [p; n] ->
  exists code, isel (VenomNames.opc_name o) [] [] = Some code /\
  match V.exec_inst E X i vs st with
  | V.SHalt (V.HStuck _) _ => True
  | V.SHalt h st' => run E X ow cw code (SW p :: SW n :: rest) st = EHalt h st'
  | _ => False
  end.
Proof. exact isel_halt_sound. Qed.

Theorem isel_sound_stop_invalid : forall E X ow cw i vs st rest o, (o = V.O_stop \/ o = V.O_invalid) -> V.i_op i = o ->
  exists code, isel (VenomNames.opc_name o) [] [] = Some code /\
  match V.exec_inst E X i vs st with V.SHalt h st' => run E X ow cw code rest st = EHalt h st' | _ => False end.
Proof. exact isel_stop_invalid_sound. Qed.
Print Assumptions isel_sound_assert.
Print Assumptions isel_sound_external.

(* ------------------------------------------------------------------ non-vacuity / operand order, by computation *)
Definition E0 : V.env := V.mkEnv [] [1; 2; 3; 4; 5; 6; 7] [] 0 [].
Definition zw (_ : string) (_ : Z) : Z := 0.
Definition run0 (op : string) (stk : list Z) : option (list Z) :=
  match isel op [] [] with
  | Some code => match run E0 V.no_oracle zw zw code (map SW stk) V.store0 with
                 | ENext s _ => Some (map (fun v => match v with SW z => z | SL _ => -1 end) s)
                 | _ => None end
  | None => None
  end.
(* the first operand is the top of the stack: 7 - 5, 1 << 4, 5 < 7 signed/unsigned, byte index first, ... *)
Example ex_order :
  run0 "sub" [7; 5] = Some [2] /\ run0 "shl" [4; 1] = Some [16] /\ run0 "shr" [4; 256] = Some [16] /\
  run0 "lt" [5; 7] = Some [1] /\ run0 "gt" [5; 7] = Some [0] /\ run0 "slt" [W - 1; 0] = Some [1] /\ run0 "sgt" [W - 1; 0] = Some [0] /\
  run0 "div" [7; 2] = Some [3] /\ run0 "mod" [7; 4] = Some [3] /\ run0 "exp" [2; 10] = Some [1024] /\
  run0 "signextend" [0; 255] = Some [W - 1] /\ run0 "addmod" [5; 6; 4] = Some [3] /\ run0 "mulmod" [5; 6; 4] = Some [2] /\
  run0 "sar" [1; W - 2] = Some [W - 1] /\ run0 "sdiv" [W - 6; 2] = Some [W - 3] /\ run0 "smod" [W - 7; 4] = Some [W - 3] /\
  run0 "bump" [32; 100] = Some [132; 100] /\ run0 "caller" [] = Some [1] /\
  run0 "byte" [31; 258] = Some [2] /\ run0 "byte" [30; 258] = Some [1] /\ run0 "byte" [258; 31] = Some [0] /\ run0 "smul" [2; 3] = None.
Proof. vm_compute. repeat split. Qed.
(* `smul` is not an EVM opcode: no code (it used to be a dead entry of the generator's one-to-one table) *)
Example ex_smul_absent : isel "smul" [] [] = None.
Proof. reflexivity. Qed.
