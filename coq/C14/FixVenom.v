(* Connection of the two Venom semantics of C14:
     Venom.v   : executable reference semantics `vrun` (tied to the real back end on pyrevm), and
     RangeFix.v: the abstract small-step semantics `reach` over which range_fixpoint_sound is proved.
   `proj` maps a Venom.v function to a RangeFix.v function; theorem venom_refines_rangefix shows that every
   configuration an execution of Venom.v passes through (block, number of body instructions executed, variable
   map) is related to a `reach` configuration of the projection.  Poison values (negative: uninitialised memory
   of Venom.v) are related to arbitrary words. *)
From Coq Require Import ZArith NArith PArith Bool List String Lia FMapPositive.
From Verif Require Import Base.Word256 Base.WordLemmas C14.RangeBase.
From Verif Require C14.GenRange.
From Verif Require Import C14.RangeSound C14.RangeLemmas2 C14.RangeOp C14.RangeFix C14.RangeFixProofs C14.WordClosed.
From Verif Require C14.Venom C14.VenomNames.
From Verif Require Import C14.VenomWords.
Import ListNotations.
Open Scope string_scope.
Open Scope Z_scope.

(* ------------------------------------------------------------------ projection *)
Section Proj.
Variable lab : positive -> N.          (* label -> block index *)
Variable ren : positive -> N.          (* variable renaming *)
Variable unk : list (string * bool).   (* O_unknown code -> (opcode name, operands kept in IR order) *)

Definition pname (o : V.opc) : string :=
  match o with
  | V.O_unknown c => let s := fst (nth (Z.to_nat c) unk ("", false)) in if String.eqb s "phi" then "" else s
  | _ => VenomNames.opc_name o
  end.
(* the exporter of Venom.v lists the operands in EVM order (reversed IR order) except for these *)
Definition no_reverse (o : V.opc) : bool :=
  match o with
  | V.O_jmp | V.O_jnz | V.O_djmp | V.O_phi | V.O_istore => true   (* istore: c14_pass_export.NO_REVERSE *)
  | V.O_unknown c => snd (nth (Z.to_nat c) unk ("", false))
  | _ => false
  end.
Definition proj_operand (o : V.operand) : operand :=
  match o with V.OLit z => OLit z | V.OVar x => OVar (ren x) | V.OLab l => OLab (lab l) end.
Definition proj_args (o : V.opc) (a : list V.operand) : list operand :=
  let a' := map proj_operand a in if no_reverse o then a' else rev a'.
Definition proj_inst (i : V.inst) : inst :=
  mkI (pname (V.i_op i)) (proj_args (V.i_op i) (V.i_args i)) (map ren (V.i_outs i)).
Definition proj_block (b : list V.inst) : block := map proj_inst b.
Definition vblock (vf : V.func) (l : positive) : list V.inst :=
  match PositiveMap.find l (V.f_blocks vf) with Some b => b | None => [] end.
Definition proj (ord : list positive) (vf : V.func) : func := map (fun l => proj_block (vblock vf l)) ord.

(* ------------------------------------------------------------------ structure *)
Definition v_is_phi (i : V.inst) : bool := match V.i_op i with V.O_phi => true | _ => false end.
Fixpoint vphis (l : list V.inst) : list V.inst :=
  match l with i :: t => if v_is_phi i then i :: vphis t else [] | [] => [] end.
Fixpoint vbody (l : list V.inst) : list V.inst :=
  match l with i :: t => if v_is_phi i then vbody t else l | [] => [] end.

Lemma env_name_not k s : In s ["phi"; "assign"; "jmp"; "jnz"; "djmp"; "assert"] -> String.eqb (nth k VenomNames.env_names "") s = false.
Proof.
  intros H. do 8 (destruct k as [|k]; [cbn in H; decompose [or] H; subst; try reflexivity; contradiction|]).
  cbn in H; decompose [or] H; subst; try reflexivity; contradiction.
Qed.

Lemma is_phi_proj i : is_phi (proj_inst i) = v_is_phi i.
Proof.
  unfold is_phi, v_is_phi, proj_inst. cbn [i_op]. destruct (V.i_op i); try reflexivity.
  - cbn [pname VenomNames.opc_name]. apply env_name_not. cbn; auto.
  - cbn [pname]. destruct (String.eqb (fst (nth (Z.to_nat code) unk ("", false))) "phi") eqn:E; [reflexivity | exact E].
Qed.

Lemma leading_phis_proj b : leading_phis (proj_block b) = proj_block (vphis b).
Proof.
  induction b as [|i t IH]; [reflexivity|]. cbn [proj_block map leading_phis vphis].
  rewrite is_phi_proj. destruct (v_is_phi i); [cbn [map]; f_equal; exact IH | reflexivity].
Qed.
Lemma body_proj b : body (proj_block b) = proj_block (vbody b).
Proof.
  induction b as [|i t IH]; [reflexivity|]. cbn [proj_block map body vbody].
  rewrite is_phi_proj. destruct (v_is_phi i); [exact IH | reflexivity].
Qed.

Lemma exec_phis_rest prev : forall l old vs vs1 rest,
  V.exec_phis prev l old vs = Some (vs1, rest) -> rest = vbody l.
Proof.
  induction l as [|i t IH]; intros old vs vs1 rest H; cbn [V.exec_phis vbody] in *.
  - injection H as _ <-. reflexivity.
  - unfold v_is_phi. destruct (V.i_op i) eqn:Eo; try (injection H as _ <-; reflexivity).
    destruct (V.i_outs i) as [|o [|? ?]]; try discriminate.
    destruct (V.phi_pick prev (V.i_args i)); [|discriminate].
    destruct (V.eval_op old o0); [|discriminate]. eapply IH. exact H.
Qed.

(* ------------------------------------------------------------------ names and pure operations *)
Definition vpure (o : V.opc) : option (Z -> Z -> Z) :=
  match o with
  | V.O_add => Some w_add | V.O_sub => Some w_sub | V.O_mul => Some w_mul | V.O_and => Some w_and | V.O_or => Some w_or
  | V.O_xor => Some w_xor | V.O_byte => Some w_byte | V.O_signextend => Some w_signextend | V.O_mod => Some w_mod
  | V.O_div => Some w_div | V.O_sdiv => Some w_sdiv | V.O_smod => Some w_smod | V.O_shr => Some w_shr | V.O_shl => Some w_shl
  | V.O_sar => Some w_sar | V.O_eq => Some w_eq | V.O_lt => Some w_lt | V.O_gt => Some w_gt | V.O_slt => Some w_slt
  | V.O_sgt => Some w_sgt | V.O_iszero => Some (fun a _ => w_iszero a) | V.O_not => Some (fun a _ => w_not a)
  | _ => None
  end.
Definition vunary (o : V.opc) : bool := match o with V.O_iszero | V.O_not => true | _ => false end.
Definition vassign (o : V.opc) : bool := match o with V.O_assign => true | _ => false end.

Lemma env_name_props k : word_op (nth k VenomNames.env_names "") = None.
Proof. do 8 (destruct k as [|k]; [reflexivity|]). reflexivity. Qed.

Lemma pname_simple o : V.is_simple o = true ->
  word_op (pname o) = vpure o /\ is_unary (pname o) = vunary o /\ String.eqb (pname o) "assign" = vassign o /\
  String.eqb (pname o) "assert" = false.
Proof.
  intros H. destruct o; try discriminate H; try (repeat split; reflexivity).
  cbn [pname VenomNames.opc_name vpure vunary vassign]. split; [apply env_name_props|].
  split; [|split; apply env_name_not; cbn; auto 10].
  unfold is_unary. do 8 (destruct k as [|k]; [reflexivity|]). reflexivity.
Qed.

Section PureSem.
Variables (E : V.env) (X : V.oracle).
Lemma vpure_sem2 o w x y s : vpure o = Some w -> vunary o = false ->
  V.eff_sem E X o [x; y] s = V.Ok ([if V.has_poison [x; y] then V.POISON else w x y], s).
Proof. intros H U. destruct o; try discriminate H; try discriminate U; injection H as <-; reflexivity. Qed.
Lemma vpure_sem1 o w x s : vpure o = Some w -> vunary o = true ->
  V.eff_sem E X o [x] s = V.Ok ([if V.has_poison [x] then V.POISON else w x 0], s).
Proof. intros H U. destruct o; try discriminate H; try discriminate U; injection H as <-; reflexivity. Qed.
Lemma vassign_sem x s : V.eff_sem E X V.O_assign [x] s = V.Ok ([x], s).
Proof. reflexivity. Qed.
End PureSem.

(* ------------------------------------------------------------------ related states *)
Hypothesis ren_inj : forall x y, ren x = ren y -> x = y.
Variable lv : N -> Z.
Hypothesis lv_words : lv_ok lv.

Definition norm (v : Z) : Z := if (0 <=? v) && (v <? W) then v else 0.
Lemma norm_word v : 0 <= norm v < W.
Proof. unfold norm. destruct ((0 <=? v) && (v <? W)) eqn:E; [|wl]. apply andb_prop in E as [A B]. b2p. lia. Qed.
Lemma norm_id v : 0 <= v < W -> norm v = v.
Proof. intros H. unfold norm. assert ((0 <=? v) && (v <? W) = true) as ->; [|reflexivity]. apply andb_true_intro. split; [apply Z.leb_le | apply Z.ltb_lt]; lia. Qed.

(* defined, non-poison variables of Venom.v hold the same word in the RangeFix state *)
Definition rel (vs : V.vmap) (c : cenv) : Prop :=
  forall x v, PositiveMap.find x vs = Some v -> 0 <= v -> c (ren x) = v.

Lemma oval_agree vs c o v : rel vs c -> op_lit_ok o = true -> V.eval_op vs o = Some v -> 0 <= v ->
  oval lv c (proj_operand o) = v.
Proof.
  intros R L H P. destruct o as [z|x|l]; cbn in *.
  - injection H as <-. apply andb_prop in L as [A B]. b2p. apply Z.mod_small. lia.
  - apply R; assumption.
  - discriminate.
Qed.

Lemma has_label_proj o a : has_label (proj_args o a) = false -> forall x, In x a -> match x with V.OLab _ => False | _ => True end.
Proof.
  intros H x Hx. destruct x; auto.
  assert (In (OLab (lab l)) (proj_args o a)).
  { unfold proj_args. destruct (no_reverse o); [|apply -> in_rev]; apply (in_map proj_operand _ _ Hx). }
  unfold has_label in H. assert (existsb is_lab (proj_args o a) = true); [|congruence].
  apply existsb_exists. eexists. split; [eassumption | reflexivity].
Qed.

Lemma bind_outs_other outs : forall vs vals vs' x, V.bind_outs vs outs vals = Some vs' -> ~ In x outs ->
  PositiveMap.find x vs' = PositiveMap.find x vs.
Proof.
  induction outs as [|o t IH]; intros vs vals vs' x H N; destruct vals as [|v r]; cbn in H; try discriminate.
  - injection H as <-. reflexivity.
  - rewrite (IH _ _ _ x H) by (intros C; apply N; right; exact C).
    apply PositiveMap.gso. intros ->. apply N. left. reflexivity.
Qed.

Definition vval (vs : V.vmap) (x : positive) : Z := match PositiveMap.find x vs with Some v => v | None => 0 end.
Definition out_of (outs : list positive) (y : N) : option positive := find (fun o => N.eqb (ren o) y) outs.

Lemma out_of_some outs y o : out_of outs y = Some o -> In o outs /\ ren o = y.
Proof. intros H. apply find_some in H as [A B]. apply N.eqb_eq in B. auto. Qed.
Lemma out_of_none outs y : out_of outs y = None -> ~ In y (map ren outs).
Proof.
  intros H C. apply in_map_iff in C as [o [A B]]. pose proof (find_none _ _ H o B) as F. cbn in F.
  rewrite A, N.eqb_refl in F. discriminate.
Qed.
Lemma out_of_in outs x : In x outs -> out_of outs (ren x) = Some x.
Proof.
  intros H. destruct (out_of outs (ren x)) as [o|] eqn:E.
  - apply out_of_some in E as [_ E]. apply ren_inj in E. subst. reflexivity.
  - apply out_of_none in E. exfalso. apply E. apply in_map. exact H.
Qed.

Section Step.
Variables (E : V.env) (X : V.oracle).
Hypotheses (HE : env_ok E) (HX : oracle_ok X).

Lemma exec_inst_next_cases i vs st vs' st' : V.exec_inst E X i vs st = V.SNext vs' st' ->
  (V.is_simple (V.i_op i) = true /\ V.exec_simple E X i vs st = V.Ok (vs', st')) \/
  ((V.i_op i = V.O_assert \/ V.i_op i = V.O_assert_unreachable) /\ vs' = vs /\
   exists a v, V.i_args i = [a] /\ V.eval_op vs a = Some v /\ 0 <= v /\ v <> 0).
Proof.
  intros H. unfold V.exec_inst in H.
  destruct (V.i_op i) eqn:Eo;
    try (left; split; [reflexivity|]; destruct (V.exec_simple E X i vs st) as [[v1 s1]|]; [|discriminate];
         injection H as <- <-; reflexivity);
    brk H; try discriminate H;
    try (injection H as <- _; right; split; [auto|]; split; [reflexivity|]; b2p; eexists; eexists; repeat split; eauto);
    unfold V.halt_data in H; brk H; discriminate H.
Qed.

Lemma rev_map1 (l : list V.operand) x : rev (map proj_operand l) = [x] -> exists a, l = [a] /\ x = proj_operand a.
Proof.
  intros H. apply (f_equal (@rev _)) in H. rewrite rev_involutive in H. cbn in H.
  destruct l as [|a [|? ?]]; try discriminate. injection H as <-. eauto.
Qed.
Lemma rev_map2 (l : list V.operand) x y : rev (map proj_operand l) = [x; y] ->
  exists a1 a2, l = [a1; a2] /\ x = proj_operand a2 /\ y = proj_operand a1.
Proof.
  intros H. apply (f_equal (@rev _)) in H. rewrite rev_involutive in H. cbn in H.
  destruct l as [|a1 [|a2 [|? ?]]]; try discriminate. injection H as <- <-. eauto.
Qed.

(* the value computed by a determined instruction: Venom.v and RangeFix.v agree unless poison is involved *)
Lemma pure_agree i vs st vs' st' c g : rel vs c -> inst_lit_ok i = true -> V.is_simple (V.i_op i) = true ->
  V.exec_simple E X i vs st = V.Ok (vs', st') -> sem_fun lv (proj_inst i) = Some g ->
  exists o, V.i_outs i = [o] /\ forall v, PositiveMap.find o vs' = Some v -> 0 <= v -> g c = v.
Proof.
  intros R L S H G. destruct (pname_simple _ S) as (P1 & P2 & P3 & _).
  unfold sem_fun in G. cbn [proj_inst i_op i_args i_outs] in G.
  destruct (has_label (proj_args (V.i_op i) (V.i_args i))) eqn:HL; [discriminate|].
  destruct (V.i_outs i) as [|o [|? ?]] eqn:Eo; cbn [map] in G; try discriminate.
  exists o. split; [reflexivity|].
  unfold V.exec_simple in H.
  destruct (V.eval_ops vs (V.i_args i)) as [argv|] eqn:Ea; [|discriminate].
  destruct (V.wrapped E X (V.i_op i) argv st) as [[ovals st1]|] eqn:Ew; [|discriminate].
  rewrite Eo in H. destruct ovals as [|u [|? ?]]; cbn [V.bind_outs] in H; try discriminate.
  apply Ok_inj in H. apply pair_equal_spec in H as [<- <-].
  intros v Hv Pv. rewrite PositiveMap.gss in Hv. injection Hv as <-.
  unfold V.wrapped in Ew. set (sm := V.mask _ st) in Ew.
  rewrite P1, P2, P3 in G.
  assert (NR : no_reverse (V.i_op i) = false).
  { destruct (V.i_op i) eqn:Eop; try reflexivity; try discriminate S. exfalso. cbn in G. discriminate G. }
  unfold proj_args in G, HL. rewrite NR in G, HL.
  unfold inst_lit_ok in L.
  destruct (vassign (V.i_op i)) eqn:EA.
  - (* assign *)
    destruct (V.i_op i); try discriminate EA.
    destruct (rev (map proj_operand (V.i_args i))) as [|p1 [|? ?]] eqn:Er; try discriminate.
    apply rev_map1 in Er as [a [Ei ->]]. rewrite Ei in *.
    injection G as <-. cbn [V.eval_ops] in Ea. destruct (V.eval_op vs a) as [x|] eqn:Ex; [|discriminate].
    injection Ea as <-. rewrite vassign_sem in Ew. injection Ew as <- _.
    cbn [forallb] in L. apply andb_prop in L as [L _]. eapply oval_agree; eassumption.
  - destruct (vpure (V.i_op i)) as [w|] eqn:EP; [|discriminate].
    destruct (vunary (V.i_op i)) eqn:EU.
    + (* unary *)
      destruct (rev (map proj_operand (V.i_args i))) as [|p1 [|? ?]] eqn:Er; try discriminate.
      apply rev_map1 in Er as [a [Ei ->]]. rewrite Ei in *.
      injection G as <-. cbn [V.eval_ops] in Ea. destruct (V.eval_op vs a) as [x|] eqn:Ex; [|discriminate].
      injection Ea as <-. rewrite (vpure_sem1 E X _ w x sm EP EU) in Ew. injection Ew as <- _.
      cbn [V.has_poison existsb orb] in *. destruct (x <? 0) eqn:Px; cbn [orb] in *; [unfold V.POISON in Pv; lia|].
      b2p. cbn [forallb] in L. apply andb_prop in L as [L _].
      rewrite (oval_agree vs c a x R L Ex Px). reflexivity.
    + (* binary *)
      destruct (rev (map proj_operand (V.i_args i))) as [|p2 [|p1 [|? ?]]] eqn:Er; try discriminate.
      apply rev_map2 in Er as (a1 & a2 & Ei & -> & ->). rewrite Ei in *.
      injection G as <-. cbn [V.eval_ops] in Ea.
      destruct (V.eval_op vs a1) as [x|] eqn:Ex; [|discriminate].
      destruct (V.eval_op vs a2) as [y|] eqn:Ey; [|discriminate].
      injection Ea as <-. rewrite (vpure_sem2 E X _ w x y sm EP EU) in Ew. injection Ew as <- _.
      cbn [V.has_poison existsb] in *.
      destruct (x <? 0) eqn:Px; cbn [orb] in *; [unfold V.POISON in Pv; lia|].
      destruct (y <? 0) eqn:Py; cbn [orb] in *; [unfold V.POISON in Pv; lia|].
      b2p. cbn [forallb] in L. apply andb_prop in L as [L1 L]. apply andb_prop in L as [L2 _].
      rewrite (oval_agree vs c a1 x R L1 Ex Px), (oval_agree vs c a2 y R L2 Ey Py). reflexivity.
Qed.

Lemma sem_fun_none_name name args outs :
  String.eqb name "assign" = false -> word_op name = None -> sem_fun lv (mkI name args outs) = None.
Proof.
  intros A B. unfold sem_fun. cbn [i_op i_args i_outs]. rewrite A, B.
  destruct (has_label args); [reflexivity|]. destruct outs as [|? [|? ?]]; reflexivity.
Qed.

(* one body instruction that continues: a step of the RangeFix semantics on the projected instruction *)
Lemma sim_next i vs st vs' st' c : vs_ok vs -> store_ok st -> rel vs c -> cenv_ok c -> inst_lit_ok i = true ->
  V.exec_inst E X i vs st = V.SNext vs' st' ->
  exists c', step_conc lv (proj_inst i) c c' /\ rel vs' c' /\ cenv_ok c'.
Proof.
  intros Hv Hs R C L H.
  destruct (exec_inst_next_cases _ _ _ _ _ H) as [[S HS]|[Ho [-> (a0 & v0 & Ea & Ev & Pv0 & Nz)]]].
  - destruct (exec_simple_ok E X HE HX _ _ _ _ _ Hv Hs L HS) as [Hv' _].
    set (pi := proj_inst i).
    set (c' := fun y => match out_of (V.i_outs i) y with
                        | Some o => match sem_fun lv pi with Some g => g c | None => norm (vval vs' o) end
                        | None => c y end).
    assert (CW : cenv_ok c').
    { intros y. unfold c'. destruct (out_of (V.i_outs i) y); [|apply C].
      destruct (sem_fun lv pi) as [g|] eqn:G; [exact (sem_fun_word lv pi g c lv_words C G) | apply norm_word]. }
    exists c'. split; [split; [|split; [|split]]|split; [|exact CW]].
    + intros y Hy. unfold c'. destruct (out_of (V.i_outs i) y) as [o|] eqn:Eo; [|reflexivity].
      apply out_of_some in Eo as [A B]. exfalso. apply Hy. cbn [pi proj_inst i_outs]. rewrite <- B. apply in_map. exact A.
    + intros y _. apply CW.
    + intros g o' G Ho. cbn [pi proj_inst i_outs] in Ho.
      destruct (V.i_outs i) as [|o [|? ?]] eqn:Eo; try discriminate. injection Ho as <-.
      unfold c'. rewrite out_of_in by (left; reflexivity). fold pi. rewrite G. reflexivity.
    + intros AS. exfalso. destruct (pname_simple _ S) as (_ & _ & _ & NA). cbn [pi proj_inst i_op] in AS. congruence.
    + intros x v Fx Pv. unfold c'. destruct (in_dec Pos.eq_dec x (V.i_outs i)) as [I|NI].
      * rewrite (out_of_in _ _ I). destruct (sem_fun lv pi) as [g|] eqn:G.
        -- destruct (pure_agree _ _ _ _ _ c g R L S HS G) as [o [Eo A]]. rewrite Eo in I.
           destruct I as [<-|[]]. apply A; assumption.
        -- unfold vval. rewrite Fx. apply norm_id. split; [exact Pv | eapply Hv'; exact Fx].
      * destruct (out_of (V.i_outs i) (ren x)) as [o|] eqn:Eo.
        -- apply out_of_some in Eo as [A B]. apply ren_inj in B. subst o. contradiction.
        -- unfold V.exec_simple in HS.
           destruct (V.eval_ops vs (V.i_args i)); [|discriminate].
           destruct (V.wrapped E X (V.i_op i) l st) as [[ovals st1]|]; [|discriminate].
           destruct (V.bind_outs vs (V.i_outs i) ovals) as [vs1|] eqn:Eb; [|discriminate].
           apply Ok_inj in HS. apply pair_equal_spec in HS as [<- _].
           rewrite (bind_outs_other _ _ _ _ x Eb NI) in Fx. apply R; assumption.
  - exists c. split; [split; [|split; [|split]]|split; assumption].
    + reflexivity.
    + intros y _. apply C.
    + intros g o G _. exfalso. unfold proj_inst in G.
      rewrite sem_fun_none_name in G; [discriminate | |]; destruct Ho as [-> | ->]; reflexivity.
    + intros AS a Ha. unfold proj_inst in AS, Ha. cbn [i_op i_args] in AS, Ha.
      destruct Ho as [Ho | Ho]; rewrite Ho in AS, Ha; [|discriminate AS].
      unfold proj_args in Ha. cbn [no_reverse] in Ha. rewrite Ea in Ha. cbn [map rev app] in Ha. injection Ha as <-.
      unfold inst_lit_ok in L. rewrite Ea in L. cbn [forallb] in L. apply andb_prop in L as [L _].
      rewrite (oval_agree vs c a0 v0 R L Ev Pv0). exact Nz.
Qed.

(* ------------------------------------------------------------------ terminators *)
Definition is_ctl (i : V.inst) : bool := match V.i_op i with V.O_jmp | V.O_jnz | V.O_djmp => true | _ => false end.

Lemma labels_of_in l (a : list V.operand) : In (V.OLab l) a -> In (lab l) (labels_of (map proj_operand a)).
Proof.
  intros H. unfold labels_of. apply in_flat_map. exists (OLab (lab l)). split; [|left; reflexivity].
  apply (in_map proj_operand _ _ H).
Qed.

Lemma sim_jump i vs st l vs' st' c : rel vs c -> cenv_ok c -> inst_lit_ok i = true ->
  V.exec_inst E X i vs st = V.SJump l vs' st' ->
  is_ctl i = true /\ vs' = vs /\ st' = st /\ In (lab l) (targets lv (proj_inst i) c) /\ step_conc lv (proj_inst i) c c.
Proof.
  intros R C L H. destruct (exec_inst_jump E X _ _ _ _ _ _ H) as [-> ->].
  assert (SC : forall name args outs, String.eqb name "assign" = false -> word_op name = None ->
               String.eqb name "assert" = false -> step_conc lv (mkI name args outs) c c).
  { intros name args outs A B NA. split; [reflexivity | split; [intros y _; apply C | split]].
    - intros g o G _. rewrite sem_fun_none_name in G by assumption. discriminate.
    - intros AS. cbn [i_op] in AS. congruence. }
  unfold V.exec_inst in H. unfold is_ctl, proj_inst, inst_lit_ok in *.
  destruct (V.i_op i) eqn:Eo;
    try (destruct (V.exec_simple E X i vs st) as [[v1 s1]|]; discriminate H).
  all: try (brk H; try discriminate H; unfold V.halt_data in H; brk H; discriminate H).
  - (* jmp *)
    destruct (V.i_args i) as [|[z|x|l0] [|? ?]]; try discriminate H. injection H as <-.
    split; [reflexivity|]. split; [reflexivity|]. split; [reflexivity|]. split; [left; reflexivity | apply SC; reflexivity].
  - (* jnz *)
    destruct (V.i_args i) as [|c0 [|[z|x|t] [|[z'|x'|e] [|? ?]]]]; try discriminate H.
    destruct (V.eval_op vs c0) as [v|] eqn:Ev; [|discriminate H].
    destruct (v <? 0) eqn:Pv; [discriminate H|]. injection H as <-. b2p.
    cbn [forallb] in L. apply andb_prop in L as [L0 _].
    split; [reflexivity|]. split; [reflexivity|]. split; [reflexivity|]. split; [|apply SC; reflexivity].
    unfold targets. cbn [i_op i_args pname VenomNames.opc_name proj_args no_reverse map proj_operand].
    change (String.eqb "jnz" "jmp") with false. change (String.eqb "jnz" "jnz") with true. cbv iota.
    rewrite (oval_agree vs c c0 v R L0 Ev Pv). destruct (v =? 0); left; reflexivity.
  - (* djmp *)
    destruct (V.i_args i) as [|t labs]; [discriminate H|].
    destruct (V.eval_op vs t) as [v|]; [|discriminate H].
    destruct (find _ labs) as [[z|x|l1]|] eqn:Ef; try discriminate H. injection H as <-.
    apply find_some in Ef as [Ef _].
    split; [reflexivity|]. split; [reflexivity|]. split; [reflexivity|]. split; [|apply SC; reflexivity].
    unfold targets. cbn [i_op i_args pname VenomNames.opc_name proj_args no_reverse].
    change (String.eqb "djmp" "jmp") with false. change (String.eqb "djmp" "jnz") with false.
    change (String.eqb "djmp" "djmp") with true. cbv iota.
    apply labels_of_in. right. exact Ef.
Qed.

Fixpoint ctl_last (l : list V.inst) : bool :=
  match l with [] => true | i :: t => match t with [] => true | _ => negb (is_ctl i) && ctl_last t end end.

Lemma ctl_last_nth l : forall k i, ctl_last l = true -> nth_error l k = Some i -> is_ctl i = true ->
  Datatypes.S k = List.length l /\ exists r, rev l = i :: r.
Proof.
  induction l as [|a t IH]; intros k i H Hn Hc; [destruct k; discriminate|].
  destruct t as [|b t'].
  - destruct k; [|destruct k; discriminate]. injection Hn as <-. split; [reflexivity | exists []; reflexivity].
  - cbn [ctl_last] in H. apply andb_prop in H as [H1 H2]. destruct k.
    + injection Hn as <-. rewrite Hc in H1. discriminate.
    + cbn [nth_error] in Hn. destruct (IH k i H2 Hn Hc) as [A [r B]]. split; [cbn [List.length] in *; lia|].
      exists (r ++ [a])%list. cbn [rev] in *. rewrite B. reflexivity.
Qed.
Lemma ctl_last_vbody l : ctl_last l = true -> ctl_last (vbody l) = true.
Proof.
  induction l as [|a t IH]; intros H; [reflexivity|]. cbn [vbody]. destruct (v_is_phi a); [|exact H].
  apply IH. cbn [ctl_last] in H. destruct t; [reflexivity|]. apply andb_prop in H as [_ H]. exact H.
Qed.
Lemma vphis_vbody l : l = (vphis l ++ vbody l)%list.
Proof. induction l as [|a t IH]; [reflexivity|]. cbn. destruct (v_is_phi a); [cbn; f_equal; exact IH | reflexivity]. Qed.

Lemma term_of_proj insts k i : ctl_last insts = true -> nth_error (vbody insts) k = Some i -> is_ctl i = true ->
  Datatypes.S k = List.length (body (proj_block insts)) /\ term_of (proj_block insts) = Some (proj_inst i).
Proof.
  intros H Hn Hc. destruct (ctl_last_nth _ _ _ (ctl_last_vbody _ H) Hn Hc) as [A [r B]].
  split; [rewrite body_proj; unfold proj_block; rewrite map_length; exact A|].
  unfold term_of, proj_block. rewrite <- map_rev. rewrite (vphis_vbody insts) at 1. rewrite rev_app_distr, B. reflexivity.
Qed.

(* ------------------------------------------------------------------ phis on block entry *)
Definition phi_outs (l : list V.inst) : list positive := flat_map V.i_outs (vphis l).

Lemma exec_phis_spec prev : forall l old acc vs1 rest, V.exec_phis prev l old acc = Some (vs1, rest) ->
  NoDup (phi_outs l) ->
  (forall x, ~ In x (phi_outs l) -> PositiveMap.find x vs1 = PositiveMap.find x acc) /\
  (forall i, In i (vphis l) -> exists o a v, V.i_outs i = [o] /\ V.phi_pick prev (V.i_args i) = Some a /\
      V.eval_op old a = Some v /\ PositiveMap.find o vs1 = Some v).
Proof.
  induction l as [|i t IH]; intros old acc vs1 rest H ND; cbn [V.exec_phis] in H.
  - injection H as <- _. split; [reflexivity | intros i []].
  - unfold phi_outs in *. cbn [vphis] in *. unfold v_is_phi in *.
    destruct (V.i_op i) eqn:Eo; try (injection H as <- _; split; [reflexivity | intros i0 []]).
    destruct (V.i_outs i) as [|o [|? ?]] eqn:Eu; try discriminate.
    destruct (V.phi_pick prev (V.i_args i)) as [a|] eqn:Ep; [|discriminate].
    destruct (V.eval_op old a) as [v|] eqn:Ev; [|discriminate].
    cbn [flat_map] in ND. rewrite Eu in ND. cbn [app] in ND. inversion ND as [|? ? NI ND']; subst.
    destruct (IH _ _ _ _ H ND') as [A B]. split.
    + intros x Hx. cbn [flat_map] in Hx. rewrite Eu in Hx. cbn [app In] in Hx.
      rewrite A by tauto. apply PositiveMap.gso. intros ->. tauto.
    + intros i0 [<-|Hi].
      * exists o, a, v. repeat split; try assumption. rewrite (A o NI). apply PositiveMap.gss.
      * apply B. exact Hi.
Qed.

Lemma phi_pick_pairs prev : forall n args a, (List.length args <= n)%nat ->
  List.length args = (2 * List.length (phi_pairs (map proj_operand args)))%nat ->
  V.phi_pick prev args = Some a -> exists v, a = V.OVar v /\ In (lab prev, ren v) (phi_pairs (map proj_operand args)).
Proof.
  induction n; intros args a Hn HL H.
  - destruct args; [discriminate | cbn in Hn; lia].
  - destruct args as [|[z|x|l] [|b t]]; cbn [V.phi_pick] in H; try discriminate.
    destruct b as [z|v|l2]; cbn [map proj_operand phi_pairs List.length] in HL; try lia.
    cbn [map proj_operand phi_pairs]. destruct (Pos.eqb l prev) eqn:El.
    + injection H as <-. apply Pos.eqb_eq in El. subst. exists v. split; [reflexivity | left; reflexivity].
    + destruct (IHn t a) as [v' [A B]]; [cbn in Hn; lia | lia | exact H |]. exists v'. split; [exact A | right; exact B].
Qed.

Lemma nodup_app_r {B} (l1 l2 : list B) : NoDup (l1 ++ l2) -> NoDup l2 /\ (forall o, In o l1 -> ~ In o l2).
Proof.
  induction l1 as [|z r IH]; cbn [app]; intros H; [split; [exact H | intros o []]|].
  inversion H as [|? ? NI ND]; subst. destruct (IH ND) as [A1 A2]. split; [exact A1|].
  intros o [<-|Ho]; [intros C; apply NI; apply in_or_app; right; exact C | apply A2; exact Ho].
Qed.

Lemma nodup_flat_single {A B} (f : A -> list B) l a b o : NoDup (flat_map f l) -> In a l -> In b l ->
  f a = [o] -> f b = [o] -> a = b.
Proof.
  induction l as [|x t IH]; intros ND Ha Hb Fa Fb; [destruct Ha|].
  cbn [flat_map] in ND. destruct (nodup_app_r _ _ ND) as [ND2 DJ].
  assert (H : forall y, In y t -> f y = [o] -> ~ In o (f x)).
  { intros y Hy Fy C. apply (DJ o C). apply in_flat_map. exists y. split; [exact Hy | rewrite Fy; left; reflexivity]. }
  destruct Ha as [->|Ha], Hb as [->|Hb]; auto.
  - exfalso. apply (H b Hb Fb). rewrite Fa. left. reflexivity.
  - exfalso. apply (H a Ha Fa). rewrite Fb. left. reflexivity.
Qed.

Definition phi_of (insts : list V.inst) (y : N) : option V.inst :=
  find (fun i => match V.i_outs i with [o] => N.eqb (ren o) y | _ => false end) (vphis insts).

Lemma sim_phis prev insts vs c vs1 rest : rel vs c -> cenv_ok c ->
  block_shape_ok (proj_block insts) = true -> NoDup (phi_outs insts) ->
  V.exec_phis prev insts vs vs = Some (vs1, rest) ->
  exists c', phi_assign (leading_phis (proj_block insts)) (lab prev) c c' /\ rel vs1 c' /\ cenv_ok c'.
Proof.
  intros R C SH ND H. destruct (exec_phis_spec _ _ _ _ _ _ H ND) as [S1 S2].
  unfold block_shape_ok in SH. apply andb_prop in SH as [_ SH]. rewrite leading_phis_proj in SH.
  rewrite forallb_forall in SH.
  assert (PK : forall i, In i (vphis insts) -> exists o w, V.i_outs i = [o] /\ V.phi_pick prev (V.i_args i) = Some (V.OVar w) /\
             In (lab prev, ren w) (phi_pairs (i_args (proj_inst i))) /\ PositiveMap.find o vs1 = PositiveMap.find w vs).
  { intros i Hi. destruct (S2 i Hi) as (o & a & v & Eo & Ep & Ev & Ef).
    specialize (SH (proj_inst i) (in_map proj_inst _ _ Hi)). apply andb_prop in SH as [_ SH]. apply Nat.eqb_eq in SH.
    assert (Ei : V.i_op i = V.O_phi).
    { clear -Hi. induction insts as [|a t IH]; [destruct Hi|]. cbn [vphis] in Hi. unfold v_is_phi in Hi at 1.
      destruct (V.i_op a) eqn:Ea; try contradiction. destruct Hi as [<-|Hi]; [exact Ea | apply IH; exact Hi]. }
    cbn [proj_inst i_args] in SH |- *. unfold proj_args in *. rewrite Ei in *. cbn [no_reverse] in *.
    rewrite map_length in SH.
    destruct (phi_pick_pairs prev _ _ a (Nat.le_refl _) SH Ep) as [w [-> Hw]].
    exists o, w. repeat split; try assumption. rewrite Ef. cbn in Ev. symmetry. exact Ev. }
  set (c' := fun y => match phi_of insts y with
                      | Some i => match V.phi_pick prev (V.i_args i) with Some (V.OVar w) => c (ren w) | _ => c y end
                      | None => c y end).
  assert (CW : cenv_ok c').
  { intros y. unfold c'. destruct (phi_of insts y); [|apply C].
    destruct (V.phi_pick prev (V.i_args i)) as [[?|?|?]|]; apply C. }
  assert (PO : forall i o, In i (vphis insts) -> V.i_outs i = [o] -> phi_of insts (ren o) = Some i).
  { intros i o Hi Eo. unfold phi_of. destruct (find _ (vphis insts)) as [i2|] eqn:Ef.
    - apply find_some in Ef as [Hi2 E2]. destruct (V.i_outs i2) as [|o2 [|? ?]] eqn:Eo2; try discriminate.
      apply N.eqb_eq in E2. apply ren_inj in E2. subst o2.
      f_equal. eapply (nodup_flat_single V.i_outs); eauto.
    - pose proof (find_none _ _ Ef i Hi) as F. cbn in F. rewrite Eo, N.eqb_refl in F. discriminate. }
  exists c'. split; [split|split; [|exact CW]].
  - intros x Hx. unfold c'. destruct (phi_of insts x) as [i|] eqn:Ep; [|reflexivity].
    unfold phi_of in Ep. apply find_some in Ep as [Hi E2].
    destruct (V.i_outs i) as [|o [|? ?]] eqn:Eo; try discriminate. apply N.eqb_eq in E2.
    exfalso. apply (Hx (proj_inst i)).
    + rewrite leading_phis_proj. apply in_map. exact Hi.
    + unfold phi_out, proj_inst. cbn [i_outs]. rewrite Eo. cbn [map]. rewrite E2. reflexivity.
  - intros ins o' Hin Ho. rewrite leading_phis_proj in Hin. apply in_map_iff in Hin as [i [<- Hi]].
    destruct (PK i Hi) as (o & w & Eo & Ep & Hw & Ef).
    unfold phi_out, proj_inst in Ho. cbn [i_outs] in Ho. rewrite Eo in Ho. cbn [map] in Ho. injection Ho as <-.
    exists (ren w). split; [exact Hw|]. unfold c'. rewrite (PO i o Hi Eo), Ep. reflexivity.
  - intros x v Fx Pv. unfold c'. destruct (in_dec Pos.eq_dec x (phi_outs insts)) as [I|NI].
    + unfold phi_outs in I. apply in_flat_map in I as [i [Hi Hx]].
      destruct (PK i Hi) as (o & w & Eo & Ep & Hw & Ef). rewrite Eo in Hx. destruct Hx as [<-|[]].
      rewrite (PO i o Hi Eo), Ep. apply R; [|exact Pv]. rewrite <- Ef. exact Fx.
    + destruct (phi_of insts (ren x)) as [i|] eqn:Ep.
      * unfold phi_of in Ep. apply find_some in Ep as [Hi E2].
        destruct (V.i_outs i) as [|o [|? ?]] eqn:Eo; try discriminate. apply N.eqb_eq in E2. apply ren_inj in E2. subst o.
        exfalso. apply NI. unfold phi_outs. apply in_flat_map. exists i. split; [exact Hi | rewrite Eo; left; reflexivity].
      * rewrite (S1 x NI) in Fx. apply R; assumption.
Qed.

(* ------------------------------------------------------------------ well-formedness of the Venom.v function (decidable) *)
Fixpoint nodupb (l : list positive) : bool :=
  match l with [] => true | x :: t => negb (existsb (Pos.eqb x) t) && nodupb t end.
Lemma nodupb_NoDup l : nodupb l = true -> NoDup l.
Proof.
  induction l as [|x t IH]; cbn; [constructor|]. intros H. apply andb_prop in H as [A B].
  constructor; [|apply IH; exact B]. intros C. apply negb_true_iff in A.
  assert (existsb (Pos.eqb x) t = true); [|congruence]. apply existsb_exists. exists x. split; [exact C | apply Pos.eqb_refl].
Qed.

(* literals are words, jmp/jnz/djmp only end a block, the leading phis have distinct outputs *)
Definition blk_okb (insts : list V.inst) : bool :=
  forallb inst_lit_ok insts && ctl_last insts && nodupb (phi_outs insts).
Definition vf_okb (vf : V.func) : bool :=
  forallb (fun kv => blk_okb (snd kv)) (PositiveMap.elements (V.f_blocks vf)).
(* the block list `ord` and the label numbering agree: label l is block number (lab l) of ord *)
Definition lab_okb (ord : list positive) (vf : V.func) : bool :=
  N.eqb (lab (V.f_entry vf)) 0 &&
  forallb (fun kv => match nth_error ord (N.to_nat (lab (fst kv))) with Some l' => Pos.eqb (fst kv) l' | None => false end)
          (PositiveMap.elements (V.f_blocks vf)).

Lemma vf_okb_find vf l insts : vf_okb vf = true -> PositiveMap.find l (V.f_blocks vf) = Some insts -> blk_okb insts = true.
Proof.
  intros H F. unfold vf_okb in H. rewrite forallb_forall in H.
  apply (H (l, insts)). apply PositiveMap.elements_correct. exact F.
Qed.
Lemma lab_okb_find ord vf l insts : lab_okb ord vf = true -> PositiveMap.find l (V.f_blocks vf) = Some insts ->
  nth_block (proj ord vf) (lab l) = proj_block insts.
Proof.
  intros H F. unfold lab_okb in H. apply andb_prop in H as [_ H]. rewrite forallb_forall in H.
  specialize (H (l, insts) (PositiveMap.elements_correct _ _ F)). cbn [fst] in H.
  destruct (nth_error ord (N.to_nat (lab l))) as [l'|] eqn:En; [|discriminate]. apply Pos.eqb_eq in H. subst l'.
  unfold nth_block, proj. apply nth_error_nth.
  rewrite (map_nth_error _ _ _ En). unfold vblock. rewrite F. reflexivity.
Qed.

(* ------------------------------------------------------------------ configurations an execution of Venom.v passes through *)
(* vreach cur k vs st: control is in block `cur`, its leading phis and the first k instructions of its body have
   been executed, the variables are vs and the store is st.  Built from the functions `vrun` is made of. *)
Inductive vreach (vf : V.func) (st0 : V.store) : positive -> nat -> V.vmap -> V.store -> Prop :=
| vr_init insts vs1 rest :
    PositiveMap.find (V.f_entry vf) (V.f_blocks vf) = Some insts ->
    V.exec_phis (V.f_entry vf) insts (PositiveMap.empty Z) (PositiveMap.empty Z) = Some (vs1, rest) ->
    vreach vf st0 (V.f_entry vf) 0%nat vs1 st0
| vr_next cur k vs st insts i vs' st' :
    vreach vf st0 cur k vs st -> PositiveMap.find cur (V.f_blocks vf) = Some insts ->
    nth_error (vbody insts) k = Some i -> V.exec_inst E X i vs st = V.SNext vs' st' ->
    vreach vf st0 cur (Datatypes.S k) vs' st'
| vr_jump cur k vs st insts i l vs2 st2 insts' vs1 rest :
    vreach vf st0 cur k vs st -> PositiveMap.find cur (V.f_blocks vf) = Some insts ->
    nth_error (vbody insts) k = Some i -> V.exec_inst E X i vs st = V.SJump l vs2 st2 ->
    PositiveMap.find l (V.f_blocks vf) = Some insts' ->
    V.exec_phis cur insts' vs2 vs2 = Some (vs1, rest) ->
    vreach vf st0 l 0%nat vs1 st2.

Lemma blk_ok_parts insts : blk_okb insts = true ->
  forallb inst_lit_ok insts = true /\ ctl_last insts = true /\ NoDup (phi_outs insts).
Proof.
  intros H. unfold blk_okb in H. apply andb_prop in H as [H H3]. apply andb_prop in H as [H1 H2].
  repeat split; try assumption. apply nodupb_NoDup. exact H3.
Qed.
Lemma vbody_lit insts k i : forallb inst_lit_ok insts = true -> nth_error (vbody insts) k = Some i -> inst_lit_ok i = true.
Proof.
  intros H Hn. rewrite forallb_forall in H. apply H. rewrite (vphis_vbody insts). apply in_or_app. right.
  eapply nth_error_In. exact Hn.
Qed.

Theorem venom_refines_rangefix_main vf ord st0 :
  vf_okb vf = true -> lab_okb ord vf = true -> store_ok st0 ->
  (forall b, block_shape_ok (nth_block (proj ord vf) b) = true) ->
  forall cur k vs st, vreach vf st0 cur k vs st ->
  vs_ok vs /\ store_ok st /\ exists c, rel vs c /\ cenv_ok c /\ reach (proj ord vf) lv (lab cur) k c.
Proof.
  intros VO LO S0 SH. 
  assert (EMP : vs_ok (PositiveMap.empty Z)) by (intros x v F; rewrite PositiveMap.gempty in F; discriminate).
  induction 1 as [insts vs1 rest F P | cur k vs st insts i vs' st' R IH F Hn HX1 | cur k vs st insts i l vs2 st2 insts' vs1 rest R IH F Hn HX1 F' P].
  - destruct (blk_ok_parts _ (vf_okb_find _ _ _ VO F)) as (L & _ & ND).
    pose proof (lab_okb_find _ _ _ _ LO F) as NB.
    assert (L0 : lab (V.f_entry vf) = 0%N) by (unfold lab_okb in LO; apply andb_prop in LO as [A _]; apply N.eqb_eq in A; exact A).
    set (c0 := fun _ : N => 0).
    assert (C0 : cenv_ok c0) by (intros y; unfold c0; wl).
    assert (R0 : rel (PositiveMap.empty Z) c0) by (intros x v Fx; rewrite PositiveMap.gempty in Fx; discriminate).
    specialize (SH (lab (V.f_entry vf))). rewrite NB in SH.
    destruct (sim_phis _ _ _ _ _ _ R0 C0 SH ND P) as (c' & _ & R' & C').
    split; [eapply exec_phis_ok; eassumption|]. split; [exact S0|].
    exists c'. split; [exact R'|]. split; [exact C'|]. rewrite L0. constructor. exact C'.
  - destruct IH as (Hv & Hs & c & Rc & Cc & RC).
    destruct (blk_ok_parts _ (vf_okb_find _ _ _ VO F)) as (L & _ & _).
    pose proof (vbody_lit _ _ _ L Hn) as Li.
    destruct (exec_inst_next E X HE HX _ _ _ _ _ Hv Hs Li HX1) as [Hv' Hs'].
    destruct (sim_next _ _ _ _ _ c Hv Hs Rc Cc Li HX1) as (c' & SC & R' & C').
    split; [exact Hv'|]. split; [exact Hs'|]. exists c'. split; [exact R'|]. split; [exact C'|].
    eapply r_step; [exact RC | | exact SC].
    rewrite (lab_okb_find _ _ _ _ LO F), body_proj. unfold proj_block. apply map_nth_error. exact Hn.
  - destruct IH as (Hv & Hs & c & Rc & Cc & RC).
    destruct (blk_ok_parts _ (vf_okb_find _ _ _ VO F)) as (L & CL & _).
    destruct (blk_ok_parts _ (vf_okb_find _ _ _ VO F')) as (L' & _ & ND').
    pose proof (vbody_lit _ _ _ L Hn) as Li.
    destruct (sim_jump _ _ _ _ _ _ c Rc Cc Li HX1) as (IC & -> & -> & TG & SC).
    destruct (term_of_proj _ _ _ CL Hn IC) as [LEN TO].
    pose proof (lab_okb_find _ _ _ _ LO F) as NB. pose proof (lab_okb_find _ _ _ _ LO F') as NB'.
    pose proof (SH (lab l)) as SHl. rewrite NB' in SHl.
    destruct (sim_phis _ _ _ _ _ _ Rc Cc SHl ND' P) as (c' & PA & R' & C').
    split; [eapply exec_phis_ok; eassumption|]. split; [exact Hs|].
    exists c'. split; [exact R'|]. split; [exact C'|].
    eapply r_jump with (p := lab cur) (c := c) (T := proj_inst i).
    + rewrite NB, <- LEN. eapply r_step; [exact RC | | exact SC].
      rewrite NB, body_proj. unfold proj_block. apply map_nth_error. exact Hn.
    + rewrite NB. exact TO.
    + exact TG.
    + rewrite NB'. exact PA.
Qed.

(* ------------------------------------------------------------------ the trace of vrun *)
(* `vrun_tr` is `V.vrun_from` instrumented to record every configuration (block, body index, variables) it passes
   through; its result component is vrun_from's (vrun_tr_result), and every recorded configuration is a vreach one. *)
Fixpoint insts_tr (l : list V.inst) (k : nat) (vs : V.vmap) (st : V.store) : list (nat * V.vmap) * V.step_res :=
  match l with
  | [] => ([(k, vs)], V.SHalt (V.HStuck V.EFallthrough) st)
  | i :: rest =>
      match V.exec_inst E X i vs st with
      | V.SNext vs' st' => let r := insts_tr rest (Datatypes.S k) vs' st' in ((k, vs) :: fst r, snd r)
      | r => ([(k, vs)], r)
      end
  end.

Fixpoint vrun_tr (fuel : nat) (f : V.func) (cur prev : positive) (vs : V.vmap) (st : V.store)
  : list (positive * nat * V.vmap) * (V.halt * V.store) :=
  match fuel with
  | O => ([], (V.HStuck V.EFuel, st))
  | Datatypes.S n =>
      match PositiveMap.find cur (V.f_blocks f) with
      | None => ([], (V.HStuck V.EBadLabel, st))
      | Some insts =>
          match V.exec_phis prev insts vs vs with
          | None => ([], (V.HStuck V.EUndef, st))
          | Some (vs1, rest) =>
              let r := insts_tr rest 0 vs1 st in
              let t := map (fun kv => (cur, fst kv, snd kv)) (fst r) in
              match snd r with
              | V.SJump l vs2 st2 => let r2 := vrun_tr n f l cur vs2 st2 in ((t ++ fst r2)%list, snd r2)
              | V.SHalt h st2 => (t, (h, st2))
              | V.SNext _ st2 => (t, (V.HStuck V.EFallthrough, st2))
              end
          end
      end
  end.

Lemma insts_tr_result l : forall k vs st, snd (insts_tr l k vs st) = V.exec_insts E X l vs st.
Proof.
  induction l as [|i t IH]; intros k vs st; cbn [insts_tr V.exec_insts]; [reflexivity|].
  destruct (V.exec_inst E X i vs st); cbn [snd]; [apply IH | reflexivity | reflexivity].
Qed.

Lemma vrun_tr_result fuel f : forall cur prev vs st, snd (vrun_tr fuel f cur prev vs st) = V.vrun_from fuel E X f cur prev vs st.
Proof.
  induction fuel as [|n IH]; intros cur prev vs st; cbn [vrun_tr V.vrun_from]; [reflexivity|].
  destruct (PositiveMap.find cur (V.f_blocks f)) as [insts|]; [|reflexivity].
  destruct (V.exec_phis prev insts vs vs) as [[vs1 rest]|]; [|reflexivity].
  cbv zeta. rewrite insts_tr_result. destruct (V.exec_insts E X rest vs1 st); cbn [snd]; [reflexivity | apply IH | reflexivity].
Qed.

Lemma skipn_cons_nth {A} (l : list A) : forall k x r, skipn k l = x :: r -> nth_error l k = Some x /\ skipn (Datatypes.S k) l = r.
Proof.
  induction l as [|a t IH]; intros k x r H; [destruct k; discriminate|].
  destruct k; cbn in *; [injection H as -> ->; split; reflexivity | apply IH; exact H].
Qed.

Lemma insts_tr_reach vf st0 cur insts : PositiveMap.find cur (V.f_blocks vf) = Some insts ->
  forall l k vs st, skipn k (vbody insts) = l -> vreach vf st0 cur k vs st ->
  (forall k' vs', In (k', vs') (fst (insts_tr l k vs st)) -> exists st', vreach vf st0 cur k' vs' st') /\
  (forall lb vs2 st2, snd (insts_tr l k vs st) = V.SJump lb vs2 st2 ->
     exists k' i vs' st', vreach vf st0 cur k' vs' st' /\ nth_error (vbody insts) k' = Some i /\
                          V.exec_inst E X i vs' st' = V.SJump lb vs2 st2).
Proof.
  intros F. induction l as [|i rest IH]; intros k vs st SK R; cbn [insts_tr].
  - split; [|intros; discriminate]. intros k' vs' [H|[]]. injection H as <- <-. eauto.
  - destruct (skipn_cons_nth _ _ _ _ SK) as [Hn SK'].
    destruct (V.exec_inst E X i vs st) as [vs1 st1|lb1 vs1 st1|h st1] eqn:EX; cbn [fst snd].
    + destruct (IH (Datatypes.S k) vs1 st1 SK' (vr_next _ _ _ _ _ _ _ _ _ _ R F Hn EX)) as [A B].
      split; [|exact B]. intros k' vs' [H|H]; [injection H as <- <-; eauto | apply A; exact H].
    + split; [intros k' vs' [H|[]]; injection H as <- <-; eauto|].
      intros lb vs2 st2 H. injection H as <- <- <-. exists k, i, vs, st. auto.
    + split; [intros k' vs' [H|[]]; injection H as <- <-; eauto | intros; discriminate].
Qed.

Lemma vrun_tr_reach vf st0 fuel : forall cur prev vs st,
  (forall insts vs1 rest, PositiveMap.find cur (V.f_blocks vf) = Some insts ->
     V.exec_phis prev insts vs vs = Some (vs1, rest) -> vreach vf st0 cur 0%nat vs1 st) ->
  forall p k' vs', In (p, k', vs') (fst (vrun_tr fuel vf cur prev vs st)) -> exists st', vreach vf st0 p k' vs' st'.
Proof.
  induction fuel as [|n IH]; intros cur prev vs st EN p k' vs' H; cbn [vrun_tr] in H; [destruct H|].
  destruct (PositiveMap.find cur (V.f_blocks vf)) as [insts|] eqn:F; [|destruct H].
  destruct (V.exec_phis prev insts vs vs) as [[vs1 rest]|] eqn:P; [|destruct H].
  cbv zeta in H. pose proof (exec_phis_rest _ _ _ _ _ _ P) as ER.
  destruct (insts_tr_reach vf st0 cur insts F rest 0%nat vs1 st (eq_sym ER) (EN _ _ _ eq_refl P)) as [A B].
  assert (T : In (p, k', vs') (map (fun kv => (cur, fst kv, snd kv)) (fst (insts_tr rest 0 vs1 st))) ->
              exists st', vreach vf st0 p k' vs' st').
  { intros I. apply in_map_iff in I as [[k2 v2] [Eq I]]. cbn [fst snd] in Eq. injection Eq as <- <- <-. apply A. exact I. }
  destruct (snd (insts_tr rest 0 vs1 st)) as [vsn stn|lb vs2 st2|h st2] eqn:SR; cbn [fst] in H.
  - apply T. exact H.
  - apply in_app_or in H as [H|H]; [apply T; exact H|].
    destruct (B lb vs2 st2 eq_refl) as (kj & ij & vj & sj & Rj & Nj & Xj).
    eapply IH; [|exact H]. intros insts' vs1' rest' F' P'.
    eapply vr_jump; eauto.
  - apply T. exact H.
Qed.
End Step.
End Proj.

(* ------------------------------------------------------------------ concrete renamings (association lists) *)
Definition BIGN : N := 4611686018427387904%N.   (* 2^62: above every exported variable number *)
Definition ren_of (al : list (positive * N)) (x : positive) : N :=
  match find (fun p => Pos.eqb (fst p) x) al with Some p => snd p | None => (BIGN + Npos x)%N end.
Definition lab_of (al : list (positive * N)) (l : positive) : N :=
  match find (fun p => Pos.eqb (fst p) l) al with Some p => snd p | None => (BIGN + Npos l)%N end.
Fixpoint nodupN (l : list N) : bool :=
  match l with [] => true | x :: t => negb (existsb (N.eqb x) t) && nodupN t end.
Definition ren_okb (al : list (positive * N)) : bool :=
  nodupN (map snd al) && forallb (fun p => N.ltb (snd p) BIGN) al.

Lemma nodupN_In al : nodupN (map snd al) = true ->
  forall p q : positive * N, In p al -> In q al -> snd p = snd q -> p = q.
Proof.
  induction al as [|a t IH]; intros H p q Hp Hq E; [destruct Hp|].
  cbn [map nodupN] in H. apply andb_prop in H as [A B]. apply negb_true_iff in A.
  assert (NA : forall r, In r t -> snd r <> snd a).
  { intros r Hr C. assert (existsb (N.eqb (snd a)) (map snd t) = true); [|congruence].
    apply existsb_exists. exists (snd r). split; [apply in_map; exact Hr | rewrite C; apply N.eqb_refl]. }
  destruct Hp as [<-|Hp], Hq as [<-|Hq]; auto.
  - exfalso. apply (NA q Hq). symmetry. exact E.
  - exfalso. apply (NA p Hp). exact E.
Qed.

Lemma ren_of_inj al : ren_okb al = true -> forall x y, ren_of al x = ren_of al y -> x = y.
Proof.
  intros H x y E. unfold ren_okb in H. apply andb_prop in H as [ND LT]. rewrite forallb_forall in LT.
  unfold ren_of in E.
  destruct (find (fun p => Pos.eqb (fst p) x) al) as [p|] eqn:Fx; destruct (find (fun p => Pos.eqb (fst p) y) al) as [q|] eqn:Fy.
  - apply find_some in Fx as [Ix Ex]. apply find_some in Fy as [Iy Ey]. apply Pos.eqb_eq in Ex, Ey.
    pose proof (nodupN_In al ND p q Ix Iy E). subst. reflexivity.
  - apply find_some in Fx as [Ix _]. specialize (LT p Ix). apply N.ltb_lt in LT. lia.
  - apply find_some in Fy as [Iy _]. specialize (LT q Iy). apply N.ltb_lt in LT. lia.
  - assert (Npos x = Npos y) by lia. congruence.
Qed.
