(* C14 / MemLiveProofs.v -- an accepted (tables, livesets, placement) makes the concrete machine (overlapping allocas, writes
   clobber whatever shares their bytes) a refinement of the abstract machine (disjoint allocas): same observations. *)
From Coq Require Import Arith ZArith List Bool String Lia.
From Verif Require Import C14.MemLive.
Import ListNotations.

Lemma memb_In : forall a l, memb a l = true <-> In a l.
Proof.
  intros. unfold memb. rewrite existsb_exists. split.
  - intros [x [I E]]. apply Nat.eqb_eq in E. subst. auto.
  - intros I. exists a. split; [auto|apply Nat.eqb_refl].
Qed.
Lemma memb_nIn : forall a l, memb a l = false <-> ~ In a l.
Proof. intros. rewrite <- memb_In. destruct (memb a l); split; intros; try discriminate; auto. exfalso; auto. Qed.
Lemma subset_In : forall l m, subset l m = true -> forall a, In a l -> In a m.
Proof. intros l m S a I. unfold subset in S. rewrite forallb_forall in S. apply memb_In. auto. Qed.
Lemma disjoint_In : forall l m, disjoint l m = true -> forall x, In x l -> In x m -> False.
Proof.
  intros l m D x I J. unfold disjoint in D. rewrite forallb_forall in D. specialize (D x I).
  apply memb_In in J. rewrite J in D. discriminate.
Qed.
Lemma rowat_in : forall tbl i, i < List.length tbl -> In (rowat tbl i) tbl.
Proof. intros. unfold rowat. apply nth_In. auto. Qed.

Lemma kill_in_writes : forall asz r a, kill_is asz r a = true -> In a (r_writes r).
Proof.
  intros asz r a K. unfold kill_is, kill_of in K. unfold r_writes.
  destruct (wk_of (r_op r)); try discriminate.
  destruct (r_wcands r) as [|[c o] t]; try discriminate.
  destruct o as [z|]; try discriminate. destruct z; try discriminate.
  destruct t; try discriminate. destruct (r_wsize r); try discriminate.
  destruct ((0 <=? nth c asz (-1)) && (nth c asz (-1) <=? z))%Z; try discriminate.
  apply Nat.eqb_eq in K. subst. simpl. auto.
Qed.

Section Proofs.
  Variable V : Type.
  Variable asz place : list Z.
  Variable tbl : list row.
  Variable ls : list (nat * list nat).
  Variable F : nat -> list V -> option V -> nat -> V.
  Hypothesis C : memlive_check asz place tbl ls = true.

  Let R (i : nat) := rowat tbl i.

  Lemma checks : table_check asz tbl = true /\ livesets_check tbl ls = true /\ place_check asz place ls = true /\ ids_check asz tbl = true.
  Proof.
    unfold memlive_check in C. apply andb_prop in C. destruct C as [C1 C4]. apply andb_prop in C1. destruct C1 as [C1 C3].
    apply andb_prop in C1. destruct C1 as [C1 C2]. auto.
  Qed.

  Lemma row_ok : forall i, row_check asz tbl (R i) = true.
  Proof.
    intros i. destruct checks as [TC _]. unfold table_check in TC. rewrite forallb_forall in TC.
    destruct (lt_dec i (List.length tbl)) as [L|L]; [apply TC, rowat_in; auto|].
    unfold R, rowat. rewrite nth_overflow by lia. reflexivity.
  Qed.

  Lemma row_facts : forall i,
    (forall a, In a (r_reads (R i)) -> In a (r_liveat (R i))) /\
    (forall a, In a (r_refs (R i)) -> In a (r_used (R i))) /\
    (forall a, In a (r_reads (R i)) -> In a (r_refs (R i))) /\
    (forall a, In a (r_writes (R i)) -> In a (r_refs (R i))) /\
    (forall s, In s (r_succ (R i)) ->
       (forall a, In a (r_liveat (R s)) -> live_before asz (R s) a = true -> In a (r_liveat (R i))) /\
       (forall a, In a (r_used (R i)) -> In a (r_used (R s)))).
  Proof.
    intros i. pose proof (row_ok i) as RC. unfold row_check in RC.
    apply andb_prop in RC. destruct RC as [RC S5]. apply andb_prop in RC. destruct RC as [RC S4].
    apply andb_prop in RC. destruct RC as [RC S3]. apply andb_prop in RC. destruct RC as [S1 S2].
    split; [apply subset_In; exact S1|]. split; [apply subset_In; exact S2|]. split; [apply subset_In; exact S3|].
    split; [apply subset_In; exact S4|].
    intros s Is. rewrite forallb_forall in S5. specialize (S5 s Is).
    apply andb_prop in S5. destruct S5 as [_ S5]. apply andb_prop in S5. destruct S5 as [Lv Us]. split.
    - intros a Ia Lb. rewrite forallb_forall in Lv. specialize (Lv a Ia). fold (R s) in Lv.
      rewrite Lb in Lv. simpl in Lv. apply memb_In. exact Lv.
    - apply subset_In. exact Us.
  Qed.

  Lemma writes_lt : forall i a, In a (r_writes (R i)) -> i < List.length tbl /\ a < List.length asz.
  Proof.
    intros i a I. assert (L : i < List.length tbl).
    { destruct (lt_dec i (List.length tbl)) as [L|L]; auto. unfold R, rowat in I. rewrite nth_overflow in I by lia. simpl in I. tauto. }
    split; auto. destruct checks as [_ [_ [_ IC]]]. unfold ids_check in IC. rewrite forallb_forall in IC.
    specialize (IC (R i) (rowat_in tbl i L)). rewrite forallb_forall in IC. specialize (IC a I). apply Nat.ltb_lt. exact IC.
  Qed.

  Lemma liveset_facts : forall i, i < List.length tbl ->
    (forall a, In a (r_liveat (R i)) -> In a (r_used (R i)) -> In i (liveset_of ls a)) /\
    (forall a, In a (r_writes (R i)) -> In i (liveset_of ls a)).
  Proof.
    intros i L. destruct checks as [_ [LC _]]. unfold livesets_check in LC. rewrite forallb_forall in LC.
    assert (Ii : In i (seq 0 (List.length tbl))) by (apply in_seq; lia). specialize (LC i Ii). cbv zeta in LC. fold (R i) in LC.
    apply andb_prop in LC. destruct LC as [LC1 LC2]. rewrite forallb_forall in LC1, LC2. split.
    - intros a I1 I2. specialize (LC1 a I1). apply memb_In in I2. rewrite I2 in LC1. simpl in LC1. apply memb_In. exact LC1.
    - intros a I. apply memb_In. apply LC2. exact I.
  Qed.

  Lemma ovl_lt : forall a b, ovl asz place a b = true -> a < List.length asz /\ b < List.length asz.
  Proof.
    intros a b O. unfold ovl in O. apply andb_prop in O. destruct O as [_ O]. cbv zeta in O.
    apply andb_prop in O. destruct O as [O _]. apply andb_prop in O. destruct O as [O1 O2].
    apply Z.ltb_lt in O1. apply Z.ltb_lt in O2. split.
    - destruct (lt_dec a (List.length asz)); auto. rewrite nth_overflow in O1 by lia. lia.
    - destruct (lt_dec b (List.length asz)); auto. rewrite nth_overflow in O2 by lia. lia.
  Qed.

  Lemma no_share : forall a b x, ovl asz place a b = true -> In x (liveset_of ls a) -> In x (liveset_of ls b) -> False.
  Proof.
    intros a b x O Ia Ib. destruct (ovl_lt a b O) as [La Lb].
    destruct checks as [_ [_ [PC _]]]. unfold place_check in PC. cbv zeta in PC. rewrite forallb_forall in PC.
    assert (Sa : In a (seq 0 (List.length asz))) by (apply in_seq; lia).
    assert (Sb : In b (seq 0 (List.length asz))) by (apply in_seq; lia).
    specialize (PC a Sa). rewrite forallb_forall in PC. specialize (PC b Sb). rewrite O in PC. simpl in PC.
    eapply disjoint_In; eauto.
  Qed.

  (* ---- the simulation invariant: right before instruction i, with T = allocas referenced so far *)
  Definition Inv (i : nat) (T : list nat) (ma mc : mem V) : Prop :=
    (forall a, In a T -> In a (r_used (R i))) /\
    (forall a, In a T -> live_before asz (R i) a = true -> mc a = ma a).

  Definition pick (i : nat) (T : list nat) (ma mc : mem V) : mem V :=
    fun a => if memb a T then ma a else if memb a (r_refs (R i)) then mc a else ma a.

  Lemma pick_frame : forall i T ma mc a, In a T \/ ~ In a (r_refs (R i)) -> pick i T ma mc a = ma a.
  Proof.
    intros i T ma mc a [I|N]; unfold pick.
    - apply memb_In in I. rewrite I. reflexivity.
    - destruct (memb a T); auto. apply memb_nIn in N. rewrite N. reflexivity.
  Qed.

  Lemma pick_agree : forall i T ma mc a, Inv i T ma mc -> In a (r_liveat (R i)) ->
    (kill_is asz (R i) a = false \/ In a (r_reads (R i))) -> (In a T \/ In a (r_refs (R i))) -> pick i T ma mc a = mc a.
  Proof.
    intros i T ma mc a [_ I2] Lv K Ref. unfold pick. destruct (memb a T) eqn:E.
    - apply memb_In in E. symmetry. apply I2; auto. unfold live_before. apply memb_In in Lv. rewrite Lv. simpl.
      destruct K as [K|K]; [rewrite K; reflexivity|]. apply memb_In in K. rewrite K. apply orb_true_r.
    - destruct Ref as [I|I]; [apply memb_In in I; congruence|]. apply memb_In in I. rewrite I. reflexivity.
  Qed.

  Lemma view_pick : forall i T ma mc, Inv i T ma mc -> view V tbl i (pick i T ma mc) = view V tbl i mc.
  Proof.
    intros i T ma mc I. unfold view. apply map_ext_in. intros a Ia. fold (R i) in Ia.
    destruct (row_facts i) as [L1 [_ [R1 _]]].
    apply pick_agree; auto.
  Qed.

  Lemma step_inv : forall i j T ma mc mc', Inv i T ma mc -> In j (r_succ (R i)) -> cstep V asz place tbl F i mc mc' ->
    Inv j (r_refs (R i) ++ T) (exec V asz tbl F i (pick i T ma mc)) mc'.
  Proof.
    intros i j T ma mc mc' I Sj CS. pose proof I as [I1 I2].
    destruct (row_facts i) as [L1 [U1 [R1 [W1 Sx]]]]. destruct (Sx j Sj) as [L2 U2].
    split.
    - intros a Ia. apply U2. apply in_app_or in Ia. destruct Ia; auto.
    - intros a Ia Lb.
      assert (Lj : In a (r_liveat (R j))).
      { unfold live_before in Lb. apply andb_prop in Lb. destruct Lb as [Lb _]. apply memb_In. exact Lb. }
      assert (Li : In a (r_liveat (R i))) by (apply L2; auto).
      assert (Ref : In a T \/ In a (r_refs (R i))) by (apply in_app_or in Ia; tauto).
      specialize (CS a). fold (R i) in CS. unfold exec at 1. fold (R i).
      destruct (memb a (r_writes (R i))) eqn:Wa.
      + rewrite CS. unfold exec. fold (R i). rewrite Wa. rewrite (view_pick i T ma mc I).
        unfold old. fold (R i). destruct (kill_is asz (R i) a) eqn:K; [reflexivity|].
        rewrite (pick_agree i T ma mc a I Li (or_introl K) Ref). reflexivity.
      + assert (K : kill_is asz (R i) a = false).
        { destruct (kill_is asz (R i) a) eqn:K; auto. apply kill_in_writes in K. apply memb_In in K. congruence. }
        destruct CS as [CS|[b [Wb O]]].
        * rewrite CS. symmetry. apply pick_agree; auto.
        * exfalso. destruct (writes_lt i b Wb) as [Lt _]. destruct (liveset_facts i Lt) as [LS1 LS2].
          assert (Ua : In a (r_used (R i))) by (destruct Ref; auto).
          eapply (no_share b a i O); auto.
  Qed.

  Lemma sim : forall p T ma mc o, path_ok tbl p ->
    (forall i q, p = i :: q -> Inv i T ma mc) -> crun V asz place tbl F p mc o -> arun V asz tbl F p T ma o.
  Proof.
    induction p as [|i q IH]; intros T ma mc o P I CR.
    - inversion CR; subst. constructor.
    - inversion CR as [|i0 p0 m0 mc' o' CS CR']; subst. specialize (I i q eq_refl).
      rewrite <- (view_pick i T ma mc I).
      apply ar_cons with (m1 := pick i T ma mc).
      + intros a H. apply pick_frame. exact H.
      + apply IH with (mc := mc'); auto.
        * destruct q; simpl in P; tauto.
        * intros j q' E. subst q. simpl in P. destruct P as [Sj _]. apply step_inv; auto.
  Qed.

  Theorem concretize_refines : forall p m o, path_ok tbl p ->
    crun V asz place tbl F p m o -> arun V asz tbl F p [] m o.
  Proof.
    intros p m o P CR. apply sim with (mc := m); auto.
    intros i q _. split; intros a []; auto.
  Qed.
End Proofs.
