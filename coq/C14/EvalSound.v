(* Soundness of sccp/eval.py (translated: GenEval.v) against Word256. *)
From Coq Require Import ZArith Bool List String Lia.
From Verif Require Import Base.Word256 Base.PyInt Base.WordLemmas C14.GenEval.
Import ListNotations.
Open Scope Z_scope.

Definition lit_ok (a : Z) : Prop := MINS <= a <= MAXU.

Lemma W_val : W = 115792089237316195423570985008687907853269984665640564039457584007913129639936.
Proof. reflexivity. Qed.
Lemma pow256 : 2 ^ 256 = W. Proof. reflexivity. Qed.
Lemma pow255 : 2 ^ 255 = HALF. Proof. reflexivity. Qed.
Lemma HALF_val : HALF = 57896044618658097711785492504343953926634992332820282019728792003956564819968.
Proof. reflexivity. Qed.
Ltac wl := pose proof W_val; pose proof HALF_val; unfold MINS, MAXU, MAXS in *; lia.

Lemma wrap_range a : 0 <= wrap a < W.
Proof. unfold wrap. apply Z.mod_pos_bound. wl. Qed.

Lemma wrap_neg a : MINS <= a < 0 -> wrap a = a + W.
Proof. intros H. unfold wrap. symmetry. apply Z.mod_unique with (q := -1); wl. Qed.
Lemma wrap_pos a : 0 <= a <= MAXU -> wrap a = a.
Proof. intros H. unfold wrap. apply Z.mod_small. wl. Qed.

Lemma s2u_ok a : lit_ok a -> _signed_to_unsigned a = Ok (wrap a).
Proof.
  unfold lit_ok, _signed_to_unsigned, signed_to_unsigned. intros H.
  cbn [bind]. unfold py_pow. change (256 <? 0) with false. cbv iota. rewrite pow256.
  destruct (a <? 0) eqn:E; cbn [bind]; f_equal.
  - apply Z.ltb_lt in E. rewrite wrap_neg; lia.
  - apply Z.ltb_ge in E. rewrite wrap_pos; lia.
Qed.

Lemma u2s_ok a : lit_ok a -> _unsigned_to_signed a = Ok (to_signed (wrap a)).
Proof.
  unfold lit_ok, _unsigned_to_signed, unsigned_to_signed. intros H.
  cbn [bind]. unfold py_pow. change (256 - 1 <? 0) with false. change (256 <? 0) with false.
  cbv iota. cbn [bind]. change (256 - 1) with 255. rewrite pow255, pow256.
  unfold to_signed.
  destruct (a >? HALF - 1) eqn:E; cbn [bind]; f_equal.
  - rewrite Z.gtb_ltb in E. apply Z.ltb_lt in E. rewrite wrap_pos by wl.
    destruct (a <? HALF) eqn:E2; [apply Z.ltb_lt in E2; lia | reflexivity].
  - rewrite Z.gtb_ltb in E. apply Z.ltb_ge in E.
    destruct (Z_lt_dec a 0).
    + rewrite wrap_neg by wl. destruct (a + W <? HALF) eqn:E2; [apply Z.ltb_lt in E2; wl | lia].
    + rewrite wrap_pos by wl. destruct (a <? HALF) eqn:E2; [reflexivity | apply Z.ltb_ge in E2; lia].
Qed.

Lemma idx2_0 (a b : Z) : py_index [b; a] 0 = Ok b. Proof. reflexivity. Qed.
Lemma idx2_1 (a b : Z) : py_index [b; a] 1 = Ok a. Proof. reflexivity. Qed.
Lemma idx1_0 (a : Z) : py_index [a] 0 = Ok a. Proof. reflexivity. Qed.
Lemma idx3_m1 (a b c : Z) : py_index [c; b; a] (-1) = Ok a. Proof. reflexivity. Qed.
Lemma idx3_m2 (a b c : Z) : py_index [c; b; a] (-2) = Ok b. Proof. reflexivity. Qed.
Lemma idx3_m3 (a b c : Z) : py_index [c; b; a] (-3) = Ok c. Proof. reflexivity. Qed.
Lemma len1 (a : Z) : py_len [a] = 1. Proof. reflexivity. Qed.
Lemma len2 (a b : Z) : py_len [b; a] = 2. Proof. reflexivity. Qed.
Lemma len3 (a b c : Z) : py_len [c; b; a] = 3. Proof. reflexivity. Qed.
Ltac idx := rewrite ?len1, ?len2, ?len3, ?idx2_0, ?idx2_1, ?idx1_0, ?idx3_m1, ?idx3_m2, ?idx3_m3;
  change (1 =? 1) with true; change (2 =? 2) with true; change (3 =? 3) with true; cbv iota; cbn [bind].

Lemma land_max r : Z.land r c_SizeLimits_MAX_UINT256 = r mod W.
Proof. change c_SizeLimits_MAX_UINT256 with (Z.ones 256). rewrite Z.land_ones by lia. reflexivity. Qed.

Lemma wrap_binop_ok f g a b :
  lit_ok a -> lit_ok b ->
  (forall x y, 0 <= x < W -> 0 <= y < W -> f x y = Ok (g x y)) ->
  _wrap_binop f [b; a] = Ok ((g (wrap a) (wrap b)) mod W).
Proof.
  intros Ha Hb Hf. unfold _wrap_binop. idx.
  rewrite (s2u_ok a Ha), (s2u_ok b Hb). cbn [bind].
  rewrite Hf by apply wrap_range. cbn [bind]. rewrite land_max. reflexivity.
Qed.

Lemma wrap_signed_binop_ok f g a b :
  lit_ok a -> lit_ok b ->
  (forall x y, MINS <= x <= MAXS -> MINS <= y <= MAXS -> f x y = Ok (g x y) /\ lit_ok (g x y)) ->
  _wrap_signed_binop f [b; a] = Ok (wrap (g (to_signed (wrap a)) (to_signed (wrap b)))).
Proof.
  intros Ha Hb Hf. unfold _wrap_signed_binop. idx.
  rewrite (u2s_ok a Ha), (u2s_ok b Hb). cbn [bind].
  assert (R: forall z, MINS <= to_signed (wrap z) <= MAXS).
  { intros z. pose proof (wrap_range z). unfold to_signed. destruct (wrap z <? HALF) eqn:E;
    [apply Z.ltb_lt in E | apply Z.ltb_ge in E]; wl. }
  destruct (Hf _ _ (R a) (R b)) as [E L]. rewrite E. cbn [bind].
  rewrite s2u_ok by exact L. reflexivity.
Qed.

Lemma wrap_unop_ok f g a :
  lit_ok a ->
  (forall x, 0 <= x < W -> f x = Ok (g x)) ->
  _wrap_unop f [a] = Ok ((g (wrap a)) mod W).
Proof.
  intros Ha Hf. unfold _wrap_unop. idx.
  rewrite (s2u_ok a Ha). cbn [bind]. rewrite Hf by apply wrap_range. cbn [bind].
  rewrite land_max. reflexivity.
Qed.

Lemma wrap_ternop_ok f g a b c :
  lit_ok a -> lit_ok b -> lit_ok c ->
  (forall x y z, 0 <= x < W -> 0 <= y < W -> 0 <= z < W -> f x y z = Ok (g x y z)) ->
  _wrap_ternop f [c; b; a] = Ok ((g (wrap a) (wrap b) (wrap c)) mod W).
Proof.
  intros Ha Hb Hc Hf. unfold _wrap_ternop. idx.
  rewrite (s2u_ok a Ha), (s2u_ok b Hb), (s2u_ok c Hc). cbn [bind].
  rewrite Hf by apply wrap_range. cbn [bind]. rewrite land_max. reflexivity.
Qed.

(* ---- per-opcode statements: eval_arith op [y; x] = op(x, y) on words ---- *)
Definition binop_sound (name : string) (w : Z -> Z -> Z) : Prop :=
  forall a b, lit_ok a -> lit_ok b ->
    exists f, ARITHMETIC_OPS name = Some f /\ f [b; a] = Ok (w (wrap a) (wrap b)).
Definition unop_sound (name : string) (w : Z -> Z) : Prop :=
  forall a, lit_ok a -> exists f, ARITHMETIC_OPS name = Some f /\ f [a] = Ok (w (wrap a)).
Definition ternop_sound (name : string) (w : Z -> Z -> Z -> Z) : Prop :=
  forall a b c, lit_ok a -> lit_ok b -> lit_ok c ->
    exists f, ARITHMETIC_OPS name = Some f /\ f [c; b; a] = Ok (w (wrap a) (wrap b) (wrap c)).

Ltac start_bin := intros a b Ha Hb; eexists; split; [reflexivity|].

Theorem add_sound : binop_sound "add" w_add.
Proof. start_bin. rewrite (wrap_binop_ok _ (fun x y => x + y)); auto. Qed.
Theorem sub_sound : binop_sound "sub" w_sub.
Proof. start_bin. rewrite (wrap_binop_ok _ (fun x y => x - y)); auto. Qed.
Theorem mul_sound : binop_sound "mul" w_mul.
Proof. start_bin. rewrite (wrap_binop_ok _ (fun x y => x * y)); auto. Qed.

Lemma mod_small_W r : 0 <= r < W -> r mod W = r.
Proof. intros. apply Z.mod_small; lia. Qed.

Theorem div_sound : binop_sound "div" w_div.
Proof.
  start_bin. rewrite (wrap_binop_ok _ (fun x y => if y =? 0 then 0 else x / y)); auto.
  - f_equal. unfold w_div. pose proof (wrap_range a). pose proof (wrap_range b).
    destruct (wrap b =? 0) eqn:E; [reflexivity|]. apply Z.eqb_neq in E.
    apply mod_small_W. split; [apply Z.div_pos; lia|].
    apply Z.le_lt_trans with (wrap a); [|lia]. apply Z.div_le_upper_bound; nia.
  - intros x y Hx Hy. unfold evm_div. destruct (y =? 0) eqn:E0; [reflexivity|]. pose proof E0 as E; apply Z.eqb_neq in E.
    assert (x * y <? 0 = false) as -> by (apply Z.ltb_ge; nia).
    unfold py_floordiv. rewrite !Z.abs_eq by lia. rewrite E0. cbn [bind]. f_equal. lia.
Qed.

Theorem mod_sound : binop_sound "mod" w_mod.
Proof.
  start_bin. rewrite (wrap_binop_ok _ (fun x y => if y =? 0 then 0 else x mod y)); auto.
  - f_equal. unfold w_mod. pose proof (wrap_range a). pose proof (wrap_range b).
    destruct (wrap b =? 0) eqn:E; [reflexivity|]. apply Z.eqb_neq in E.
    apply mod_small_W. pose proof (Z.mod_pos_bound (wrap a) (wrap b)). lia.
  - intros x y Hx Hy. unfold evm_mod. destruct (y =? 0) eqn:E0; [reflexivity|]. pose proof E0 as E; apply Z.eqb_neq in E.
    assert (x <? 0 = false) as -> by (apply Z.ltb_ge; lia).
    unfold py_mod. rewrite !Z.abs_eq by lia. rewrite E0. cbn [bind]. f_equal. lia.
Qed.

Lemma evm_div_quot x y : evm_div x y = Ok (if y =? 0 then 0 else Z.quot x y).
Proof.
  unfold evm_div. destruct (y =? 0) eqn:E0; [reflexivity|]. pose proof E0 as E; apply Z.eqb_neq in E.
  unfold py_floordiv. assert (Z.abs y =? 0 = false) as -> by (apply Z.eqb_neq; lia). cbn [bind]. f_equal.
  rewrite (Z.quot_div x y) by exact E.
  destruct (x * y <? 0) eqn:S; [apply Z.ltb_lt in S | apply Z.ltb_ge in S].
  - assert (Z.sgn x * Z.sgn y = -1) as -> by nia. reflexivity.
  - destruct (Z.eq_dec x 0) as [->|Hx]; [cbn; lia|].
    assert (Z.sgn x * Z.sgn y = 1) as -> by nia. reflexivity.
Qed.

Lemma evm_mod_rem x y : evm_mod x y = Ok (if y =? 0 then 0 else Z.rem x y).
Proof.
  unfold evm_mod. destruct (y =? 0) eqn:E0; [reflexivity|]. pose proof E0 as E; apply Z.eqb_neq in E.
  unfold py_mod. assert (Z.abs y =? 0 = false) as -> by (apply Z.eqb_neq; lia). cbn [bind]. f_equal.
  rewrite (Z.rem_mod x y) by exact E.
  destruct (x <? 0) eqn:S; [apply Z.ltb_lt in S | apply Z.ltb_ge in S].
  - assert (Z.sgn x = -1) as -> by lia. reflexivity.
  - destruct (Z.eq_dec x 0) as [->|Hx]; [cbn; lia|].
    assert (Z.sgn x = 1) as -> by lia. reflexivity.
Qed.

Lemma to_signed_zero x : 0 <= x < W -> (to_signed x =? 0) = (x =? 0).
Proof.
  intros H. unfold to_signed. destruct (x <? HALF) eqn:E; [reflexivity|]. apply Z.ltb_ge in E.
  destruct (x =? 0) eqn:E2; [apply Z.eqb_eq in E2; wl|]. apply Z.eqb_neq. wl.
Qed.

Theorem sdiv_sound : binop_sound "sdiv" w_sdiv.
Proof.
  start_bin.
  rewrite (wrap_signed_binop_ok _ (fun x y => if y =? 0 then 0 else Z.quot x y)); auto.
  - f_equal. unfold w_sdiv, of_signed, wrap. rewrite to_signed_zero by apply wrap_range.
    fold (wrap b). destruct (wrap b =? 0); reflexivity.
  - intros x y Hx Hy. split; [apply evm_div_quot|]. unfold lit_ok.
    destruct (y =? 0) eqn:E; [wl|]. apply Z.eqb_neq in E.
    assert (Z.abs (Z.quot x y) <= Z.abs x).
    { rewrite <- Z.quot_abs by exact E. apply Z.quot_le_upper_bound; nia. }
    wl.
Qed.

Theorem smod_sound : binop_sound "smod" w_smod.
Proof.
  start_bin.
  rewrite (wrap_signed_binop_ok _ (fun x y => if y =? 0 then 0 else Z.rem x y)); auto.
  - f_equal. unfold w_smod, of_signed, wrap. rewrite to_signed_zero by apply wrap_range.
    fold (wrap b). destruct (wrap b =? 0); reflexivity.
  - intros x y Hx Hy. split; [apply evm_mod_rem|]. unfold lit_ok.
    destruct (y =? 0) eqn:E; [wl|]. apply Z.eqb_neq in E.
    pose proof (Z.rem_bound_abs x y E). wl.
Qed.

Theorem exp_sound : binop_sound "exp" w_exp.
Proof.
  start_bin. rewrite (wrap_binop_ok _ (fun x y => (x ^ y) mod W)); auto.
  - f_equal. rewrite w_exp_eq by (pose proof (wrap_range b); lia). unfold w_exp_spec. apply Z.mod_mod. wl.
  - intros x y Hx Hy. unfold evm_pow.
    assert ((x >=? 0) && (y >=? 0) = true) as -> by (rewrite !Z.geb_leb; apply andb_true_intro; split; apply Z.leb_le; lia).
    unfold py_pow. change (256 <? 0) with false. cbv iota. cbn [bind]. rewrite pow256.
    unfold py_pow3. assert (y <? 0 = false) as -> by (apply Z.ltb_ge; lia).
    assert (W =? 0 = false) as -> by reflexivity. rewrite powmod_spec by wl. reflexivity.
Qed.

Lemma b2z_small c : b2z c mod W = Word256.b2z c.
Proof. destruct c; reflexivity. Qed.

Theorem eq_sound : binop_sound "eq" w_eq.
Proof. start_bin. rewrite (wrap_binop_ok _ (fun x y => b2z (x =? y))); auto. rewrite b2z_small. reflexivity. Qed.
Theorem lt_sound : binop_sound "lt" w_lt.
Proof. start_bin. rewrite (wrap_binop_ok _ (fun x y => b2z (x <? y))); auto. rewrite b2z_small. reflexivity. Qed.
Theorem gt_sound : binop_sound "gt" w_gt.
Proof. start_bin. rewrite (wrap_binop_ok _ (fun x y => b2z (x >? y))); auto. rewrite b2z_small. reflexivity. Qed.

Lemma wrap_b2z c : wrap (b2z c) = Word256.b2z c.
Proof. destruct c; reflexivity. Qed.
Lemma b2z_lit c : lit_ok (b2z c).
Proof. destruct c; unfold lit_ok, b2z; wl. Qed.

Theorem slt_sound : binop_sound "slt" w_slt.
Proof.
  start_bin. rewrite (wrap_signed_binop_ok _ (fun x y => b2z (x <? y))); auto.
  - rewrite wrap_b2z. reflexivity.
  - intros; split; [reflexivity | apply b2z_lit].
Qed.
Theorem sgt_sound : binop_sound "sgt" w_sgt.
Proof.
  start_bin. rewrite (wrap_signed_binop_ok _ (fun x y => b2z (x >? y))); auto.
  - rewrite wrap_b2z. reflexivity.
  - intros; split; [reflexivity | apply b2z_lit].
Qed.

Lemma word_log2 x : 0 <= x < W -> x = 0 \/ Z.log2 x < 256.
Proof.
  intros H. destruct (Z.eq_dec x 0); [left; auto|right].
  apply Z.log2_lt_pow2; [lia|]. rewrite pow256. lia.
Qed.

Lemma bitop_range (op : Z -> Z -> Z) x y :
  (forall n, Z.testbit (op x y) n = false \/ (Z.testbit x n = true \/ Z.testbit y n = true)) ->
  0 <= op x y -> 0 <= x < W -> 0 <= y < W -> 0 <= op x y < W.
Proof.
  intros Hb H0 Hx Hy. split; [exact H0|].
  destruct (Z.eq_dec (op x y) 0) as [->|N]; [wl|].
  rewrite <- pow256. apply Z.log2_lt_pow2; [lia|].
  destruct (Z_lt_dec (Z.log2 (op x y)) 256); [assumption|exfalso].
  pose proof (Z.bit_log2 (op x y) ltac:(lia)) as B.
  destruct (Hb (Z.log2 (op x y))) as [F|[T|T]]; [congruence| |].
  - assert (x <> 0) by (intros ->; rewrite Z.bits_0 in T; discriminate).
    assert (Z.log2 (op x y) <= Z.log2 x) by (apply Z.bits_above_log2 in T || idtac;
      destruct (Z_le_dec (Z.log2 (op x y)) (Z.log2 x)); [lia|];
      rewrite (Z.bits_above_log2 x) in T by lia; discriminate).
    destruct (word_log2 x Hx); lia.
  - assert (y <> 0) by (intros ->; rewrite Z.bits_0 in T; discriminate).
    assert (Z.log2 (op x y) <= Z.log2 y) by (
      destruct (Z_le_dec (Z.log2 (op x y)) (Z.log2 y)); [lia|];
      rewrite (Z.bits_above_log2 y) in T by lia; discriminate).
    destruct (word_log2 y Hy); lia.
Qed.

Theorem or_sound : binop_sound "or" w_or.
Proof.
  start_bin. rewrite (wrap_binop_ok _ Z.lor); auto. f_equal. unfold w_or.
  apply mod_small_W. pose proof (wrap_range a). pose proof (wrap_range b).
  apply bitop_range; try lia.
  - intros n. rewrite Z.lor_spec. destruct (Z.testbit (wrap a) n), (Z.testbit (wrap b) n); auto.
  - apply Z.lor_nonneg; lia.
Qed.
Theorem and_sound : binop_sound "and" w_and.
Proof.
  start_bin. rewrite (wrap_binop_ok _ Z.land); auto. f_equal. unfold w_and.
  apply mod_small_W. pose proof (wrap_range a). pose proof (wrap_range b).
  apply bitop_range; try lia.
  - intros n. rewrite Z.land_spec. destruct (Z.testbit (wrap a) n), (Z.testbit (wrap b) n); auto.
  - apply Z.land_nonneg; lia.
Qed.
Theorem xor_sound : binop_sound "xor" w_xor.
Proof.
  start_bin. rewrite (wrap_binop_ok _ Z.lxor); auto. f_equal. unfold w_xor.
  apply mod_small_W. pose proof (wrap_range a). pose proof (wrap_range b).
  apply bitop_range; try lia.
  - intros n. rewrite Z.lxor_spec. destruct (Z.testbit (wrap a) n), (Z.testbit (wrap b) n); auto.
  - apply Z.lxor_nonneg; lia.
Qed.

Ltac start_un := intros a Ha; eexists; split; [reflexivity|].

Lemma word_bits x n : 0 <= x < W -> Z.testbit x n = (n <? 256) && Z.testbit x n.
Proof.
  intros H. rewrite <- (Z.testbit_mod_pow2 x 256 n) by lia. rewrite pow256.
  rewrite Z.mod_small by lia. reflexivity.
Qed.

Lemma lxor_max x : 0 <= x < W -> Z.lxor (Z.ones 256) x = W - 1 - x.
Proof.
  intros H.
  assert (L: Z.land x (Z.lxor (Z.ones 256) x) = 0).
  { apply Z.bits_inj'. intros n Hn. rewrite Z.land_spec, Z.lxor_spec, Z.bits_0.
    rewrite (word_bits x n H), Z.testbit_ones_nonneg by lia.
    destruct (Z.testbit x n), (n <? 256); reflexivity. }
  apply Z.add_nocarry_lxor in L.
  assert (X: Z.lxor x (Z.lxor (Z.ones 256) x) = Z.ones 256).
  { apply Z.bits_inj'. intros n Hn. rewrite !Z.lxor_spec.
    destruct (Z.testbit x n), (Z.testbit (Z.ones 256) n); reflexivity. }
  rewrite X in L. change (Z.ones 256) with (W - 1) in L at 2. lia.
Qed.

Theorem not_sound : unop_sound "not" w_not.
Proof.
  start_un. rewrite (wrap_unop_ok _ (fun x => W - 1 - x)); auto.
  - f_equal. unfold w_not, MAXU. pose proof (wrap_range a). apply mod_small_W. lia.
  - intros x Hx. unfold evm_not.
    assert ((0 <=? x) && (x <=? c_SizeLimits_MAX_UINT256) = true) as ->.
    { apply andb_true_intro; split; apply Z.leb_le; [lia|]. change c_SizeLimits_MAX_UINT256 with (W-1). lia. }
    f_equal. change c_SizeLimits_MAX_UINT256 with (Z.ones 256). apply lxor_max; lia.
Qed.

Theorem iszero_sound : unop_sound "iszero" w_iszero.
Proof.
  start_un. rewrite (wrap_unop_ok _ (fun x => b2z (x =? 0))); auto.
  - rewrite b2z_small. reflexivity.
  - intros x Hx. unfold _evm_iszero.
    assert ((c_SizeLimits_MIN_INT256 <=? x) && (x <=? c_SizeLimits_MAX_UINT256) = true) as ->; [|reflexivity].
    apply andb_true_intro; split; apply Z.leb_le.
    + change c_SizeLimits_MIN_INT256 with (- HALF). wl.
    + change c_SizeLimits_MAX_UINT256 with (W-1). lia.
Qed.

Lemma in_max x : 0 <= x < W -> (0 <=? x) && (x <=? c_SizeLimits_MAX_UINT256) = true.
Proof. intros. apply andb_true_intro; split; apply Z.leb_le; [lia|]. change c_SizeLimits_MAX_UINT256 with (W-1). lia. Qed.

Theorem shr_sound : binop_sound "shr" w_shr.
Proof.
  start_bin. rewrite (wrap_binop_ok _ (fun s x => x / 2 ^ s)); auto.
  - f_equal. unfold w_shr. pose proof (wrap_range a) as Hs. pose proof (wrap_range b) as Hx.
    destruct (wrap a <? 256) eqn:E; [apply Z.ltb_lt in E | apply Z.ltb_ge in E].
    + apply mod_small_W. split; [apply Z.div_pos; [lia|apply Z.pow_pos_nonneg; lia]|].
      apply Z.le_lt_trans with (wrap b); [|lia]. apply Z.div_le_upper_bound.
      * apply Z.pow_pos_nonneg; lia.
      * assert (0 < 2 ^ wrap a) by (apply Z.pow_pos_nonneg; lia). nia.
    + rewrite Z.div_small; [reflexivity|]. split; [lia|].
      apply Z.lt_le_trans with (2 ^ 256); [rewrite pow256; lia|]. apply Z.pow_le_mono_r; lia.
  - intros s x Hs Hx. unfold _evm_shr. rewrite in_max by lia.
    assert (s >=? 0 = true) as -> by (rewrite Z.geb_leb; apply Z.leb_le; lia).
    rewrite py_rshift_spec by lia. reflexivity.
Qed.

Theorem shl_sound : binop_sound "shl" w_shl.
Proof.
  start_bin. rewrite (wrap_binop_ok _ (fun s x => if s >=? 256 then 0 else (x * 2 ^ s) mod W)); auto.
  - f_equal. unfold w_shl. pose proof (wrap_range a) as Hs.
    rewrite Z.geb_leb. destruct (wrap a <? 256) eqn:E; [apply Z.ltb_lt in E | apply Z.ltb_ge in E].
    + assert (256 <=? wrap a = false) as -> by (apply Z.leb_gt; lia). apply Z.mod_mod. wl.
    + assert (256 <=? wrap a = true) as -> by (apply Z.leb_le; lia). reflexivity.
  - intros s x Hs Hx. unfold _evm_shl. rewrite in_max by lia.
    destruct (s >=? 256) eqn:E; [reflexivity|].
    assert (s >=? 0 = true) as -> by (rewrite Z.geb_leb; apply Z.leb_le; lia).
    unfold py_lshift. assert (s <? 0 = false) as -> by (apply Z.ltb_ge; lia). cbn [bind].
    rewrite land_max. rewrite Z.shiftl_mul_pow2 by lia. reflexivity.
Qed.

Theorem byte_sound : binop_sound "byte" w_byte.
Proof.
  start_bin. rewrite (wrap_binop_ok _ (fun i x => if i >=? 32 then 0 else (x / 2 ^ ((31 - i) * 8)) mod 256)); auto.
  - f_equal. unfold w_byte. pose proof (wrap_range a) as Hi.
    rewrite Z.geb_leb. destruct (wrap a <? 32) eqn:E; [apply Z.ltb_lt in E | apply Z.ltb_ge in E].
    + assert (32 <=? wrap a = false) as -> by (apply Z.leb_gt; lia).
      replace ((31 - wrap a) * 8) with (8 * (31 - wrap a)) by lia.
      apply mod_small_W. pose proof (Z.mod_pos_bound (wrap b / 2 ^ (8 * (31 - wrap a))) 256). wl.
    + assert (32 <=? wrap a = true) as -> by (apply Z.leb_le; lia). reflexivity.
  - intros i x Hi Hx. unfold _evm_byte. destruct (i >=? 32) eqn:E; [reflexivity|].
    rewrite Z.geb_leb in E. apply Z.leb_gt in E.
    rewrite py_rshift_spec by lia. cbn [bind].
    f_equal. change 255 with (Z.ones 8). rewrite Z.land_ones by lia. reflexivity.
Qed.

Theorem addmod_sound : ternop_sound "addmod" w_addmod.
Proof.
  intros a b c Ha Hb Hc. eexists; split; [reflexivity|].
  rewrite (wrap_ternop_ok _ (fun x y n => if n =? 0 then 0 else (x + y) mod n)); auto.
  - f_equal. unfold w_addmod. pose proof (wrap_range c). destruct (wrap c =? 0) eqn:E; [reflexivity|].
    apply Z.eqb_neq in E. apply mod_small_W. pose proof (Z.mod_pos_bound (wrap a + wrap b) (wrap c)). lia.
  - intros x y n Hx Hy Hn. unfold _evm_addmod, py_mod. destruct (n =? 0); reflexivity.
Qed.

Theorem mulmod_sound : ternop_sound "mulmod" w_mulmod.
Proof.
  intros a b c Ha Hb Hc. eexists; split; [reflexivity|].
  rewrite (wrap_ternop_ok _ (fun x y n => if n =? 0 then 0 else (x * y) mod n)); auto.
  - f_equal. unfold w_mulmod. pose proof (wrap_range c). destruct (wrap c =? 0) eqn:E; [reflexivity|].
    apply Z.eqb_neq in E. apply mod_small_W. pose proof (Z.mod_pos_bound (wrap a * wrap b) (wrap c)). lia.
  - intros x y n Hx Hy Hn. unfold _evm_mulmod, py_mod. destruct (n =? 0); reflexivity.
Qed.

Lemma to_signed_range z : 0 <= z < W -> MINS <= to_signed z <= MAXS.
Proof.
  intros H. unfold to_signed. destruct (z <? HALF) eqn:E; [apply Z.ltb_lt in E | apply Z.ltb_ge in E]; wl.
Qed.
Lemma wrap_wrap a : wrap (wrap a) = wrap a.
Proof. unfold wrap. apply Z.mod_mod. wl. Qed.
Lemma wrap_lit a : lit_ok (wrap a).
Proof. pose proof (wrap_range a). unfold lit_ok. wl. Qed.

Theorem sar_sound : binop_sound "sar" w_sar.
Proof.
  start_bin. unfold _wrap_sar. idx.
  rewrite (s2u_ok a Ha), (s2u_ok b Hb). cbn [bind].
  rewrite (u2s_ok _ (wrap_lit b)). rewrite wrap_wrap. cbn [bind].
  pose proof (wrap_range a) as Hs. pose proof (to_signed_range _ (wrap_range b)) as Hv.
  set (s := wrap a) in *. set (v := to_signed (wrap b)) in *.
  unfold _evm_sar.
  assert ((c_SizeLimits_MIN_INT256 <=? v) && (v <=? c_SizeLimits_MAX_INT256) = true) as ->.
  { apply andb_true_intro; split; apply Z.leb_le;
    [change c_SizeLimits_MIN_INT256 with MINS | change c_SizeLimits_MAX_INT256 with MAXS]; lia. }
  assert ((0 <=? s) && (s <=? c_SizeLimits_MAX_UINT256) = true) as -> by (apply in_max; lia).
  unfold w_sar. fold s v. rewrite Z.geb_leb.
  destruct (s <? 256) eqn:E; [apply Z.ltb_lt in E | apply Z.ltb_ge in E].
  - assert (256 <=? s = false) as -> by (apply Z.leb_gt; lia).
    rewrite py_rshift_spec by lia. cbn [bind].
    rewrite s2u_ok; [reflexivity|]. unfold lit_ok.
    assert (0 < 2 ^ s) by (apply Z.pow_pos_nonneg; lia).
    assert (MINS <= v / 2 ^ s <= MAXS).
    { split.
      - apply Z.div_le_lower_bound; [lia|]. destruct (Z_le_dec 0 v); [wl|]. 
        assert (MINS * 2 ^ s <= MINS * 1) by (apply Z.mul_le_mono_nonpos_l; wl). nia.
      - destruct (Z_le_dec 0 v).
        + apply Z.le_trans with v; [|lia]. apply Z.div_le_upper_bound; nia.
        + assert (v / 2 ^ s < 0) by (apply Z.div_lt_upper_bound; lia). wl. }
    wl.
  - assert (256 <=? s = true) as -> by (apply Z.leb_le; lia).
    destruct (v <? 0) eqn:E2; cbn [bind].
    + rewrite s2u_ok by (unfold lit_ok; wl). reflexivity.
    + rewrite s2u_ok by (unfold lit_ok; wl). reflexivity.
Qed.

(* ---- signextend: the bitwise Python implementation equals the arithmetic spec ---- *)
Lemma hi_mask k : 0 <= k <= 256 -> W - 2 ^ k = Z.ones (256 - k) * 2 ^ k.
Proof.
  intros H. rewrite Z.ones_equiv. unfold Z.pred. rewrite Z.mul_add_distr_r.
  rewrite <- Z.pow_add_r by lia. replace (256 - k + k) with 256 by lia. rewrite pow256. lia.
Qed.

Lemma lor_hi_mask x k : 0 <= x < W -> 0 <= k <= 256 ->
  Z.lor x (W - 2 ^ k) = x mod 2 ^ k + (W - 2 ^ k).
Proof.
  intros Hx Hk.
  assert (L: Z.land (x mod 2 ^ k) (W - 2 ^ k) = 0).
  { apply Z.bits_inj'. intros n Hn. rewrite Z.land_spec, Z.bits_0, hi_mask by lia.
    rewrite Z.testbit_mod_pow2 by lia. destruct (n <? k) eqn:E; [|reflexivity].
    apply Z.ltb_lt in E. rewrite Z.mul_pow2_bits_low by lia. apply andb_false_r. }
  rewrite (Z.add_nocarry_lxor _ _ L). rewrite Z.lxor_lor by exact L.
  apply Z.bits_inj'. intros n Hn. rewrite !Z.lor_spec, hi_mask by lia.
  rewrite Z.testbit_mod_pow2 by lia. rewrite (word_bits x n Hx).
  destruct (n <? k) eqn:E; [apply Z.ltb_lt in E | apply Z.ltb_ge in E].
  - assert (n <? 256 = true) as -> by (apply Z.ltb_lt; lia). reflexivity.
  - rewrite Z.mul_pow2_bits by lia. rewrite Z.testbit_ones_nonneg by lia.
    destruct (n <? 256) eqn:E2; [apply Z.ltb_lt in E2 | apply Z.ltb_ge in E2].
    + assert (n - k <? 256 - k = true) as -> by (apply Z.ltb_lt; lia). cbn. apply orb_true_r.
    + assert (n - k <? 256 - k = false) as -> by (apply Z.ltb_ge; lia). reflexivity.
Qed.

Lemma land_pow2_bit x k : 0 <= k -> Z.land x (2 ^ k) = if Z.testbit x k then 2 ^ k else 0.
Proof.
  intros Hk. apply Z.bits_inj'. intros n Hn. rewrite Z.land_spec, Z.pow2_bits_eqb by lia.
  destruct (k =? n) eqn:E.
  - apply Z.eqb_eq in E. subst n. destruct (Z.testbit x k); [rewrite Z.pow2_bits_true by lia; reflexivity | rewrite Z.bits_0; reflexivity].
  - apply Z.eqb_neq in E. rewrite andb_false_r. destruct (Z.testbit x k); [rewrite Z.pow2_bits_false by lia; reflexivity | rewrite Z.bits_0; reflexivity].
Qed.

Lemma mod_succ_pow2 x k : 0 <= k ->
  x mod 2 ^ (k + 1) = x mod 2 ^ k + (if Z.testbit x k then 2 ^ k else 0).
Proof.
  intros Hk. rewrite <- !Z.land_ones by lia.
  assert (O: Z.ones (k + 1) = Z.lor (Z.ones k) (2 ^ k)).
  { apply Z.bits_inj'. intros n Hn. rewrite Z.lor_spec, !Z.testbit_ones_nonneg, Z.pow2_bits_eqb by lia.
    destruct (n <? k) eqn:A, (k =? n) eqn:B, (n <? k + 1) eqn:C; try reflexivity;
      repeat match goal with
      | H : (_ <? _) = true |- _ => apply Z.ltb_lt in H
      | H : (_ <? _) = false |- _ => apply Z.ltb_ge in H
      | H : (_ =? _) = true |- _ => apply Z.eqb_eq in H
      | H : (_ =? _) = false |- _ => apply Z.eqb_neq in H end; lia. }
  rewrite O, Z.land_lor_distr_r.
  assert (D: Z.land (Z.land x (Z.ones k)) (Z.land x (2 ^ k)) = 0).
  { apply Z.bits_inj'. intros n Hn. rewrite !Z.land_spec, Z.bits_0, Z.testbit_ones_nonneg, Z.pow2_bits_eqb by lia.
    destruct (n <? k) eqn:A, (k =? n) eqn:B; rewrite ?andb_false_r, ?andb_true_r; try reflexivity.
    apply Z.ltb_lt in A. apply Z.eqb_eq in B. lia. }
  rewrite <- (Z.lxor_lor _ _ D), <- (Z.add_nocarry_lxor _ _ D). rewrite land_pow2_bit by lia. reflexivity.
Qed.

Theorem signextend_sound : binop_sound "signextend" w_signextend.
Proof.
  start_bin.
  rewrite (wrap_binop_ok _ (fun nb x => w_signextend nb x)); auto.
  - f_equal. apply mod_small_W. unfold w_signextend.
    pose proof (wrap_range a) as Hn. pose proof (wrap_range b) as Hx.
    destruct (wrap a <? 31) eqn:E; [apply Z.ltb_lt in E | lia].
    set (bits := 8 * (wrap a + 1)).
    assert (0 < bits <= 248) by (unfold bits; lia).
    pose proof (Z.mod_pos_bound (wrap b) (2 ^ bits) ltac:(apply Z.pow_pos_nonneg; lia)).
    assert (2 ^ bits <= 2 ^ 256) by (apply Z.pow_le_mono_r; lia). rewrite pow256 in *.
    destruct (wrap b mod 2 ^ bits <? 2 ^ (bits - 1)); lia.
  - intros nb x Hn Hx. unfold _evm_signextend. rewrite in_max by lia.
    unfold w_signextend.
    destruct (nb >? 31) eqn:E.
    { rewrite Z.gtb_ltb in E. apply Z.ltb_lt in E. assert (nb <? 31 = false) as -> by (apply Z.ltb_ge; lia). reflexivity. }
    rewrite Z.gtb_ltb in E. apply Z.ltb_ge in E.
    assert (nb >=? 0 = true) as -> by (rewrite Z.geb_leb; apply Z.leb_le; lia).
    unfold py_lshift. assert (nb * 8 + 7 <? 0 = false) as -> by (apply Z.ltb_ge; lia). cbn [bind].
    rewrite Z.shiftl_mul_pow2, Z.mul_1_l by lia.
    set (k := nb * 8 + 7). assert (Hk: 0 <= k <= 255) by (unfold k; lia).
    rewrite land_pow2_bit by lia.
    change c_SizeLimits_CEILING_UINT256 with W.
    assert (P: 0 < 2 ^ k) by (apply Z.pow_pos_nonneg; lia).
    replace (8 * (nb + 1)) with (k + 1) by (unfold k; lia).
    replace (k + 1 - 1) with k by lia.
    pose proof (Z.mod_pos_bound x (2 ^ k) P) as B.
    rewrite mod_succ_pow2 by lia.
    destruct (Z.testbit x k) eqn:T.
    + assert (z2b (2 ^ k) = true) as -> by (unfold z2b; apply negb_true_iff, Z.eqb_neq; lia).
      cbn [bind]. f_equal. rewrite lor_hi_mask by lia.
      destruct (nb <? 31) eqn:E3; [apply Z.ltb_lt in E3 | apply Z.ltb_ge in E3].
      * assert (x mod 2 ^ k + 2 ^ k <? 2 ^ k = false) as -> by (apply Z.ltb_ge; lia).
        rewrite Z.pow_add_r by lia. lia.
      * assert (K: k = 255) by (unfold k; lia). rewrite K in *.
        pose proof (mod_succ_pow2 x 255 ltac:(lia)) as M. rewrite T in M.
        change (255 + 1) with 256 in M. rewrite pow256, (Z.mod_small x W) in M by lia.
        rewrite pow255 in *. wl.
    + assert (z2b 0 = false) as -> by reflexivity. cbn [bind]. f_equal.
      replace (2 ^ k - 1) with (Z.ones k) by (rewrite Z.ones_equiv; lia).
      rewrite Z.land_ones by lia. rewrite Z.add_0_r.
      destruct (nb <? 31) eqn:E3; [apply Z.ltb_lt in E3 | apply Z.ltb_ge in E3].
      * assert (x mod 2 ^ k <? 2 ^ k = true) as -> by (apply Z.ltb_lt; lia). reflexivity.
      * assert (K: k = 255) by (unfold k; lia). rewrite K in *.
        pose proof (mod_succ_pow2 x 255 ltac:(lia)) as M. rewrite T in M.
        change (255 + 1) with 256 in M. rewrite pow256, (Z.mod_small x W) in M by lia.
        lia.
Qed.
