(* Soundness of branch refinement in variable_range/analysis.py (_apply_compare/_narrow_var, _apply_iszero):
   a value that takes the branch stays inside the refined range.  Code sliced + translated: GenRangeClients.v *)
From Coq Require Import ZArith Bool List String Lia.
From Verif Require Import Base.Word256 Base.PyInt Base.WordLemmas C14.RangeBase C14.GenRangeClients.
From Verif Require C14.RangeSound.
From Verif Require Import C14.RangeClients.
Import ListNotations.
Open Scope Z_scope.
Ltac Zify.zify_post_hook ::= Z.to_euclidean_division_equations.
Import RangeSound.

Definition cmp_of (opcode : string) (x y : Z) : Z :=
  if String.eqb opcode "lt" then w_lt x y
  else if String.eqb opcode "gt" then w_gt x y
  else if String.eqb opcode "slt" then w_slt x y
  else w_sgt x y.

Definition is_cmp (opcode : string) : Prop :=
  opcode = "lt"%string \/ opcode = "gt"%string \/ opcode = "slt"%string \/ opcode = "sgt"%string.

Lemma smin_c : c_SIGNED_MIN = - HALF. Proof. reflexivity. Qed.
Lemma smax_c : c_SIGNED_MAX = HALF - 1. Proof. reflexivity. Qed.
Lemma SMIN_v : SIGNED_MIN = - HALF. Proof. reflexivity. Qed.
Lemma UMAX_v : UNSIGNED_MAX = W - 1. Proof. reflexivity. Qed.

Ltac consts' := rewrite ?smin_c, ?smax_c, ?umax_val', ?SMIN_v, ?UMAX_v in *.

(* membership of a word in a clamped range *)
Lemma mem_clamp2 cur lo hi a v :
  0 <= a < W -> v mod W = a ->
  (match cur with TOP => - HALF <= v <= W - 1 | BOT => False | IV l h => l <= v <= h end) ->
  lo <= v <= hi -> mem a (vr_clamp2 cur lo hi).
Proof.
  intros Ha Hv Hc Hb. destruct cur as [| |l h]; cbn [vr_clamp2]; try contradiction; unfold vr_iv; consts'.
  - destruct (Z.max (- HALF) lo >? Z.min (W - 1) hi) eqn:E; b2p; cbn [mem]; [lia | exists v; split; [lia | exact Hv]].
  - destruct (Z.max l lo >? Z.min h hi) eqn:E; b2p; cbn [mem]; [lia | exists v; split; [lia | exact Hv]].
Qed.

Lemma wf_clamp2 cur lo hi : wf cur -> wf (vr_clamp2 cur lo hi).
Proof.
  intros H. destruct cur as [| |l h]; cbn [vr_clamp2 wf]; auto; unfold vr_iv; consts'.
  - destruct (Z.max (- HALF) lo >? Z.min (W - 1) hi) eqn:E; b2p; cbn [wf]; auto. wl.
  - cbn [wf] in H. destruct (Z.max l lo >? Z.min h hi) eqn:E; b2p; cbn [wf]; auto. lia.
Qed.

Ltac streq' :=
  repeat match goal with
  | |- context [String.eqb ?a ?b] =>
      let r := eval vm_compute in (String.eqb a b) in change (String.eqb a b) with r
  | H : context [String.eqb ?a ?b] |- _ =>
      let r := eval vm_compute in (String.eqb a b) in change (String.eqb a b) with r in H
  end; cbn [orb andb negb] in *.

(* representative of a member: some v in the range bounds with v mod W = a *)
Definition rep_in (cur : vrange) (v : Z) : Prop :=
  match cur with TOP => - HALF <= v <= W - 1 | BOT => False | IV l h => l <= v <= h end.

Lemma to_signed_spec a : 0 <= a < W -> - HALF <= to_signed a <= HALF - 1 /\ (to_signed a) mod W = a.
Proof.
  intros H. unfold to_signed. destruct (a <? HALF) eqn:E; b2p; split; try wl; mlia.
Qed.

Lemma b2z_eq1 (c : bool) : (Word256.b2z c =? 1) = c.
Proof. destruct c; reflexivity. Qed.

Opaque vr_clamp2 vr_clamp_hi.
Arguments mem : simpl never.
Arguments wf : simpl never.

Ltac open_cur :=
  cbn [vr_is_top vr_is_empty vr_lo vr_hi bind negb andb orb] in *.

Ltac split_ifs :=
  repeat match goal with
  | |- context [if ?c then _ else _] =>
      lazymatch c with
      | context [if _ then _ else _] => fail
      | _ => let E := fresh "E" in destruct c eqn:E
      end
  end.

Ltac finish_clamp v :=
  split; [eapply (mem_clamp2 _ _ _ _ v); [lia | | | ] | apply wf_clamp2; assumption].

Theorem refine_left_lt_sound : forall cur lit is_true a R,
  - HALF <= lit <= W - 1 -> wf cur -> 0 <= a < W -> mem a cur ->
  (w_lt a (lit mod W) =? 1) = is_true ->
  refine_compare_left cur lit "lt" is_true = Ok (Some R) -> mem a R /\ wf R.
Proof.
  intros cur lit is_true a R HL WC Ha MA HB.
  unfold refine_compare_left, narrow. streq'. rewrite wrap256_unsigned'. cbn [bind]. consts'.
  pose proof (Z.mod_pos_bound lit W ltac:(reflexivity)) as BL.
  unfold w_lt in HB. rewrite b2z_eq1 in HB.
  destruct cur as [| |l h]; open_cur; unfold wf in WC; try (unfold mem in MA; contradiction).
  - (* TOP *) consts'. cbn [bind]. subst is_true.
    destruct (a <? lit mod W) eqn:C; cbn [andb orb negb]; split_ifs; intros H; try discriminate; injection H as <-; b2p.
    all: finish_clamp a; cbn [rep_in]; try (apply Z.mod_small; lia); try wl; try lia.
  - unfold mem in MA. destruct MA as [v [Rv Hv]]. subst is_true.
    destruct (l <? 0) eqn:N; cbn [bind].
    + destruct (a <? lit mod W) eqn:C; cbn [andb orb negb]; split_ifs; intros H; try discriminate; injection H as <-; b2p.
      all: finish_clamp v; try exact Hv; try lia; subst a; mlia.
    + destruct (a <? lit mod W) eqn:C; cbn [andb orb negb]; split_ifs; intros H; try discriminate; injection H as <-; b2p.
      all: finish_clamp v; try exact Hv; try lia; subst a; mlia.
Qed.

Ltac unsigned_case side_unfold cmpdef :=
  intros cur lit is_true a R HL WC Ha MA HB;
  unfold side_unfold, narrow; streq'; rewrite wrap256_unsigned'; cbn [bind]; consts';
  pose proof (Z.mod_pos_bound lit W ltac:(reflexivity)) as BL;
  unfold cmpdef in HB; rewrite b2z_eq1 in HB;
  destruct cur as [| |l h]; open_cur; unfold wf in WC; try (unfold mem in MA; contradiction);
  [ consts'; cbn [bind]; subst is_true;
    match goal with |- context [if ?c then _ else _] => idtac end;
    repeat match goal with
    | |- context [?x <? ?y] => lazymatch goal with | H : (x <? y) = _ |- _ => fail | _ => let C := fresh "C" in destruct (x <? y) eqn:C end
    | |- context [?x >? ?y] => lazymatch goal with | H : (x >? y) = _ |- _ => fail | _ => let C := fresh "C" in destruct (x >? y) eqn:C end
    end; cbn [andb orb negb]; split_ifs; intros H; try discriminate; injection H as <-; b2p;
    finish_clamp a; cbn [rep_in]; try (apply Z.mod_small; lia); try wl; try lia
  | unfold mem in MA; destruct MA as [v [Rv Hv]]; subst is_true;
    repeat match goal with
    | |- context [?x <? ?y] => lazymatch goal with | H : (x <? y) = _ |- _ => fail | _ => let C := fresh "C" in destruct (x <? y) eqn:C end
    | |- context [?x >? ?y] => lazymatch goal with | H : (x >? y) = _ |- _ => fail | _ => let C := fresh "C" in destruct (x >? y) eqn:C end
    end; cbn [bind andb orb negb]; split_ifs; intros H; try discriminate; injection H as <-; b2p;
    finish_clamp v; try exact Hv; try lia; subst a; mlia ].

Theorem refine_left_gt_sound : forall cur lit is_true a R,
  - HALF <= lit <= W - 1 -> wf cur -> 0 <= a < W -> mem a cur ->
  (w_gt a (lit mod W) =? 1) = is_true ->
  refine_compare_left cur lit "gt" is_true = Ok (Some R) -> mem a R /\ wf R.
Proof. unsigned_case refine_compare_left w_gt. Qed.

Theorem refine_right_lt_sound : forall cur lit is_true a R,
  - HALF <= lit <= W - 1 -> wf cur -> 0 <= a < W -> mem a cur ->
  (w_lt (lit mod W) a =? 1) = is_true ->
  refine_compare_right cur lit "lt" is_true = Ok (Some R) -> mem a R /\ wf R.
Proof. unsigned_case refine_compare_right w_lt. Qed.

Theorem refine_right_gt_sound : forall cur lit is_true a R,
  - HALF <= lit <= W - 1 -> wf cur -> 0 <= a < W -> mem a cur ->
  (w_gt (lit mod W) a =? 1) = is_true ->
  refine_compare_right cur lit "gt" is_true = Ok (Some R) -> mem a R /\ wf R.
Proof. unsigned_case refine_compare_right w_gt. Qed.

Ltac signed_case side_unfold cmpdef :=
  intros cur lit is_true a R HL WC Ha MA HB;
  unfold side_unfold, narrow; streq'; rewrite wrap256_signed'; cbn [bind]; consts';
  pose proof (Z.mod_pos_bound lit W ltac:(reflexivity)) as BL;
  pose proof (to_signed_spec (lit mod W) BL) as [SL _];
  pose proof (to_signed_spec a Ha) as [SA SAm];
  unfold cmpdef in HB; rewrite b2z_eq1 in HB;
  set (sl := to_signed (lit mod W)) in *; set (sa := to_signed a) in *;
  destruct cur as [| |l h]; open_cur; unfold wf in WC; try (unfold mem in MA; contradiction);
  [ consts'; cbn [bind]; subst is_true;
    repeat match goal with
    | |- context [?x <? ?y] => lazymatch goal with | H : (x <? y) = _ |- _ => fail | _ => let C := fresh "C" in destruct (x <? y) eqn:C end
    | |- context [?x >? ?y] => lazymatch goal with | H : (x >? y) = _ |- _ => fail | _ => let C := fresh "C" in destruct (x >? y) eqn:C end
    end; cbn [andb orb negb]; split_ifs; intros H; try discriminate; injection H as <-; b2p;
    finish_clamp sa; cbn [rep_in]; try exact SAm; try wl; try lia
  | unfold mem in MA; destruct MA as [v [Rv Hv]]; subst is_true;
    destruct (h >? HALF - 1) eqn:G; cbn [bind]; [intros H; discriminate|]; b2p;
    assert (SV: sa = v) by (unfold sa; subst a; apply to_signed_mod; lia);
    repeat match goal with
    | |- context [?x <? ?y] => lazymatch goal with | H : (x <? y) = _ |- _ => fail | _ => let C := fresh "C" in destruct (x <? y) eqn:C end
    | |- context [?x >? ?y] => lazymatch goal with | H : (x >? y) = _ |- _ => fail | _ => let C := fresh "C" in destruct (x >? y) eqn:C end
    end; cbn [bind andb orb negb]; split_ifs; intros H; try discriminate; injection H as <-; b2p;
    finish_clamp v; try exact Hv; try wl ].

Theorem refine_left_slt_sound : forall cur lit is_true a R,
  - HALF <= lit <= W - 1 -> wf cur -> 0 <= a < W -> mem a cur ->
  (w_slt a (lit mod W) =? 1) = is_true ->
  refine_compare_left cur lit "slt" is_true = Ok (Some R) -> mem a R /\ wf R.
Proof. signed_case refine_compare_left w_slt. Qed.

Theorem refine_left_sgt_sound : forall cur lit is_true a R,
  - HALF <= lit <= W - 1 -> wf cur -> 0 <= a < W -> mem a cur ->
  (w_sgt a (lit mod W) =? 1) = is_true ->
  refine_compare_left cur lit "sgt" is_true = Ok (Some R) -> mem a R /\ wf R.
Proof. signed_case refine_compare_left w_sgt. Qed.

Theorem refine_right_slt_sound : forall cur lit is_true a R,
  - HALF <= lit <= W - 1 -> wf cur -> 0 <= a < W -> mem a cur ->
  (w_slt (lit mod W) a =? 1) = is_true ->
  refine_compare_right cur lit "slt" is_true = Ok (Some R) -> mem a R /\ wf R.
Proof. signed_case refine_compare_right w_slt. Qed.

Theorem refine_right_sgt_sound : forall cur lit is_true a R,
  - HALF <= lit <= W - 1 -> wf cur -> 0 <= a < W -> mem a cur ->
  (w_sgt (lit mod W) a =? 1) = is_true ->
  refine_compare_right cur lit "sgt" is_true = Ok (Some R) -> mem a R /\ wf R.
Proof. signed_case refine_compare_right w_sgt. Qed.

(* iszero on the false branch: the value is non-zero *)
Theorem refine_iszero_false_sound : forall cur a R,
  wf cur -> 0 <= a < W -> mem a cur -> a <> 0 ->
  refine_iszero_false cur = Ok (Some R) -> mem a R /\ wf R.
Proof.
  intros cur a R WC Ha MA NZ. unfold refine_iszero_false.
  destruct cur as [| |l h]; open_cur; unfold wf in WC; try discriminate; try (unfold mem in MA; contradiction).
  unfold mem in MA. destruct MA as [v [Rv Hv]].
  Transparent vr_clamp_hi. unfold vr_clamp_hi, vr_intersect, vr_iv. consts'.
  split_ifs; cbn [vr_is_empty negb bind]; intros H; try discriminate; injection H as <-; b2p; unfold mem, wf.
  all: try (split; [exists v; split; [|exact Hv] | ]); try (subst a; mlia); try wl.
Qed.

(* eq on the true branch, both operands variables: the two variables hold the same word a.
   The bounds may only be intersected when both ranges denote words in the same representation
   (the unguarded intersection is refuted in PropsClients.v: range_eq_intersect_unguarded_refuted). *)
Theorem refine_eq_vars_sound : forall A B a R,
  wf A -> wf B -> 0 <= a < W -> mem a A -> mem a B ->
  refine_eq_vars A B = Ok (Some R) -> mem a R /\ wf R.
Proof.
  intros A B a R WA WB Ha MA MB. unfold refine_eq_vars.
  destruct A as [| |l1 h1]; destruct B as [| |l2 h2]; open_cur;
    try (unfold mem in MA; contradiction); try (unfold mem in MB; contradiction);
    try (intros H; injection H as <-; cbn [vr_intersect]; split; assumption).
  consts'. unfold wf in WA, WB. unfold mem in MA, MB.
  destruct MA as [v1 [R1 H1]]. destruct MB as [v2 [R2 H2]].
  cbn [vr_intersect]. unfold vr_iv.
  destruct (l1 >=? 0) eqn:E1; destruct (l2 >=? 0) eqn:E2; destruct (h1 <=? HALF - 1) eqn:E3; destruct (h2 <=? HALF - 1) eqn:E4;
    cbn [bind andb orb negb]; try discriminate; b2p.
  all: assert (v1 = v2) by (subst a; mlia); subst v2.
  all: destruct (Z.max l1 l2 >? Z.min h1 h2) eqn:E5; b2p; intros H; injection H as <-; unfold mem, wf; try lia.
  all: split; [exists v1; split; [lia | exact H1] | lia].
Qed.
