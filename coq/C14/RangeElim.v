(* Verified validator for the two passes that delete `assert` instructions on the strength of the range analysis:
   AssertEliminationPass (assert_elimination.py) and OverflowEliminationPass (overflow_elimination.py).
   Input: the function before the pass (f), the analysis certificate (E, as in RangeFix.v) and the function after the
   pass (f').  `elim_check f E f'` accepts when f' is f with some `assert a` instructions replaced by `nop`, and each
   replaced assertion is justified at its program point by
     (A) `_range_excludes_zero` of the operand's range                                   (AssertEliminationPass), or
     (B) the safe-add / safe-sub pattern  a = iszero c ; c = lt|gt r x ; r = add|sub x y  with the definitions
         available (not overwritten) at that point and `add_elim_cond`/`sub_elim_cond` of the ranges of x and y
                                                                                          (OverflowEliminationPass).
   The decision kernels are the py2coq translations of the pass methods (GenRangeClients.v).
   Definitions only; the theorem is in RangeElimProofs.v. *)
From Coq Require Import ZArith NArith Bool List String Lia.
From Verif Require Import Base.Word256 Base.PyInt C14.RangeBase C14.GenRangeClients C14.RangeFix.
Import ListNotations.
Open Scope string_scope.
Open Scope Z_scope.

Definition operand_eqb (a b : operand) : bool :=
  match a, b with
  | OLit x, OLit y => Z.eqb (x mod W) (y mod W)
  | OVar x, OVar y => N.eqb x y
  | _, _ => false
  end.

Definition rb (r : res bool) : bool := match r with Ok true => true | _ => false end.

(* (A) *)
Definition just_range (e : aenv) (a : operand) : bool :=
  match a with OLab _ => false | _ => wfb (orange e a) && rb (_range_excludes_zero (orange e a)) end.

(* (B): python operand lists; lt/gt: [x; res]; add: [p; q]; sub: [y; x] *)
Definition just_overflow (e : aenv) (F : list fact) (a : operand) : bool :=
  match a with
  | OVar ok =>
    match find_fact F ok with
    | Some (op1, [OVar cmp]) =>
      if String.eqb op1 "iszero" then
        match find_fact F cmp with
        | Some (op2, [x; OVar res]) =>
          if is_lab x then false else
          if String.eqb op2 "lt" then
            match find_fact F res with
            | Some (op3, [p; q]) =>
              if String.eqb op3 "add" && negb (is_lab p) && negb (is_lab q) then
                if operand_eqb p x then wfb (orange e x) && wfb (orange e q) && rb (add_elim_cond (orange e x) (orange e q))
                else if operand_eqb q x then wfb (orange e x) && wfb (orange e p) && rb (add_elim_cond (orange e x) (orange e p))
                else false
              else false
            | _ => false
            end
          else if String.eqb op2 "gt" then
            match find_fact F res with
            | Some (op3, [y; x']) =>
              if String.eqb op3 "sub" && negb (is_lab y) && operand_eqb x' x then
                wfb (orange e x) && wfb (orange e y) && rb (sub_elim_cond (orange e x) (orange e y))
              else false
            | _ => false
            end
          else false
        | _ => false
        end
      else false
    | _ => false
    end
  | _ => false
  end.

Definition inst_eqb (i j : inst) : bool :=
  String.eqb (i_op i) (i_op j) &&
  (Nat.eqb (List.length (i_args i)) (List.length (i_args j))) &&
  forallb (fun p : operand * operand =>
             match fst p, snd p with
             | OLit x, OLit y => Z.eqb x y
             | OVar x, OVar y => N.eqb x y
             | OLab x, OLab y => N.eqb x y
             | _, _ => false
             end) (combine (i_args i) (i_args j)) &&
  (Nat.eqb (List.length (i_outs i)) (List.length (i_outs j))) &&
  forallb (fun p : N * N => N.eqb (fst p) (snd p)) (combine (i_outs i) (i_outs j)).

Definition is_nop (i : inst) : bool :=
  String.eqb (i_op i) "nop" && match i_args i, i_outs i with [], [] => true | _, _ => false end.

(* walk the body of one block: e, F are the abstract state and the available definitions before the instruction *)
Fixpoint elim_body (e : aenv) (F : list fact) (l l' : list inst) : bool :=
  match l, l' with
  | [], [] => true
  | i :: t, i' :: t' =>
    (if inst_eqb i i' then true
     else is_nop i' && String.eqb (i_op i) "assert" &&
          match i_args i, i_outs i with
          | [a], [] => just_range e a || just_overflow e F a
          | _, _ => false
          end) &&
    match step_abs e i with
    | Ok e' => elim_body e' (facts_step F i) t t'
    | Err _ => false
    end
  | _, _ => false
  end.

Fixpoint phis_eqb (l l' : list inst) : bool :=
  match l, l' with
  | [], [] => true
  | i :: t, i' :: t' => inst_eqb i i' && phis_eqb t t'
  | _, _ => false
  end.

Definition elim_block (E : list aenv) (bf : (N * block) * block) : bool :=
  let b := fst (fst bf) in
  let blk := snd (fst bf) in
  let blk' := snd bf in
  phis_eqb (leading_phis blk) (leading_phis blk') &&
  elim_body (nth_env E b) [] (body blk) (body blk').

Fixpoint number {A} (n : N) (l : list A) : list (N * A) :=
  match l with [] => [] | x :: t => (n, x) :: number (N.succ n) t end.

Definition elim_check (f : func) (E : list aenv) (f' : func) : bool :=
  check f E && Nat.eqb (List.length f) (List.length f') &&
  forallb (elim_block E) (combine (number 0%N f) f').
