(* C14 — AssertEliminationPass and OverflowEliminationPass, validated per pass invocation (RangeElim.v). *)
From Coq Require Import ZArith NArith Bool List String Lia.
From Verif Require Import Base.Word256 Base.PyInt C14.RangeBase C14.RangeSound C14.RangeFix C14.RangeFixProofs
  C14.RangeElim C14.RangeElimProofs.
Import ListNotations.
Open Scope string_scope.
Open Scope Z_scope.

(* If the validator accepts (function before the pass, range certificate, function after the pass), the two
   functions have exactly the same reachable configurations — in particular every execution of the transformed
   function is an execution of the original in which none of the deleted assertions would have failed. *)
Theorem assert_elimination_sound : forall f E f' lv, lv_ok lv -> elim_check f E f' = true ->
  forall b k c, reach f' lv b k c <-> reach f lv b k c.
Proof.
  intros f E f' lv L EC b k c. split.
  - exact (elim_reach f f' E lv L EC b k c).
  - exact (elim_reach_conv f f' E lv EC b k c).
Qed.
Print Assumptions assert_elimination_sound.

(* non-vacuity: x = calldataload; y = and x 255; s = add y 1; ok = iszero (lt s y); assert ok  -- the safe-add check
   of a uint8-ranged value is deleted (justification B); and `assert s` (s in [1,256]) is deleted (justification A);
   an assertion on x itself must stay. *)
Definition el_f : func :=
  [ [mkI "calldataload" [OLit 0] [0%N]; mkI "and" [OLit 255; OVar 0%N] [1%N]; mkI "add" [OLit 1; OVar 1%N] [2%N];
     mkI "lt" [OVar 1%N; OVar 2%N] [3%N]; mkI "iszero" [OVar 3%N] [4%N]; mkI "assert" [OVar 4%N] [];
     mkI "assert" [OVar 2%N] []; mkI "assert" [OVar 0%N] []; mkI "stop" [] []] ].
Definition el_f' : func :=
  [ [mkI "calldataload" [OLit 0] [0%N]; mkI "and" [OLit 255; OVar 0%N] [1%N]; mkI "add" [OLit 1; OVar 1%N] [2%N];
     mkI "lt" [OVar 1%N; OVar 2%N] [3%N]; mkI "iszero" [OVar 3%N] [4%N]; mkI "nop" [] [];
     mkI "nop" [] []; mkI "assert" [OVar 0%N] []; mkI "stop" [] []] ].
Definition el_bad : func :=
  [ [mkI "calldataload" [OLit 0] [0%N]; mkI "and" [OLit 255; OVar 0%N] [1%N]; mkI "add" [OLit 1; OVar 1%N] [2%N];
     mkI "lt" [OVar 1%N; OVar 2%N] [3%N]; mkI "iszero" [OVar 3%N] [4%N]; mkI "assert" [OVar 4%N] [];
     mkI "assert" [OVar 2%N] []; mkI "nop" [] []; mkI "stop" [] []] ].
Example el_accepts : elim_check el_f [[]] el_f' = true.
Proof. vm_compute. reflexivity. Qed.
Example el_rejects : elim_check el_f [[]] el_bad = false.
Proof. vm_compute. reflexivity. Qed.
