(* C14 / PropsVal.v -- property theorems of the proved validators (pass-level translation validation and liveness). *)
From Coq Require Import ZArith List Bool FMapPositive.
From Verif Require Import Base.Word256 C14.Venom C14.VenomProofs C14.VenomSim C14.ValRUV C14.ValDFT C14.ValCopy C14.Liveness.
Import ListNotations.
Open Scope Z_scope.

(* RemoveUnusedVariablesPass: an accepted (before, after) pair has the same run on every input on which `before` is not stuck *)
Theorem ruv_validator_sound : forall b a, ruv_check b a = true ->
  forall n E X st, not_stuck (vrun n E X b st) -> vrun n E X a st = vrun n E X b st.
Proof. exact ruv_check_sound. Qed.
Print Assumptions ruv_validator_sound.

(* DFTPass: same halt status/data and the same store unless the run reverts (then the store is discarded) *)
Theorem dft_validator_sound : forall b a, dft_check b a = true ->
  forall n E X st, not_stuck (vrun n E X b st) -> res_obs_eq (vrun n E X a st) (vrun n E X b st).
Proof. exact dft_check_sound. Qed.
Print Assumptions dft_validator_sound.

Theorem dft_validator_observe : forall b a, dft_check b a = true ->
  forall n E X st, not_stuck (vrun n E X b st) -> observe st (vrun n E X a st) = observe st (vrun n E X b st).
Proof. exact dft_check_observe. Qed.
Print Assumptions dft_validator_observe.

(* AssignElimination / SingleUseExpansion: copies added, removed or forwarded *)
Theorem copy_validator_sound : forall U C b a, copy_check U C b a = true ->
  forall n E X st, not_stuck (vrun n E X b st) -> not_stuck (vrun n E X a st) -> vrun n E X a st = vrun n E X b st.
Proof. exact copy_check_sound. Qed.
Print Assumptions copy_validator_sound.

(* LivenessAnalysis: an accepted table contains every variable that is read on some CFG path before being redefined *)
Theorem liveness_validator_sound : forall f T, live_check f T = true ->
  forall l k v, live f l k v -> memv v (T_at T l k) = true.
Proof. exact live_check_sound. Qed.
Print Assumptions liveness_validator_sound.

Theorem liveness_out_sound : forall f T, live_check f T = true ->
  forall l k v, live_after_jump f l k v -> memv v (T_at T l (S k)) = true.
Proof. exact live_out_sound. Qed.
Print Assumptions liveness_out_sound.

(* ---------------------------------------------------------------- non-vacuity: small pairs the checkers accept / reject *)
Definition I_ (outs : list positive) (o : opc) (a : list operand) := Inst outs o a.

(*  %1 = calldataload 0 ; %2 = add %1, 1 (unused) ; mstore 0, %1 ; return 0, 32   -->  without %2 *)
Definition ex_b : func := func_of 1%positive
  [(1%positive, [I_ [1%positive] O_calldataload [OLit 0]; I_ [2%positive] O_add [OVar 1; OLit 1];
                 I_ [] O_mstore [OLit 0; OVar 1]; I_ [] O_return [OLit 0; OLit 32]])] [].
Definition ex_a : func := func_of 1%positive
  [(1%positive, [I_ [1%positive] O_calldataload [OLit 0]; I_ [] O_mstore [OLit 0; OVar 1]; I_ [] O_return [OLit 0; OLit 32]])] [].
(* removing the mstore instead is rejected *)
Definition ex_bad : func := func_of 1%positive
  [(1%positive, [I_ [1%positive] O_calldataload [OLit 0]; I_ [2%positive] O_add [OVar 1; OLit 1]; I_ [] O_return [OLit 0; OLit 32]])] [].

Example ruv_accepts : ruv_check ex_b ex_a = true. Proof. vm_compute. reflexivity. Qed.
Example ruv_rejects : ruv_check ex_b ex_bad = false. Proof. vm_compute. reflexivity. Qed.
Example ruv_run_nonvacuous :
  not_stuck (vrun 10 (mkEnv [7] [] [] 0 []) no_oracle ex_b store0).
Proof. vm_compute. exact I. Qed.

(* the add is delayed past the mstore and its operands are flipped; moving the mstore past an mload of the same memory is rejected *)
Definition ex_d : func := func_of 1%positive
  [(1%positive, [I_ [1%positive] O_calldataload [OLit 0]; I_ [] O_mstore [OLit 0; OVar 1]; I_ [2%positive] O_add [OLit 1; OVar 1];
                 I_ [] O_return [OLit 0; OLit 32]])] [].
Definition ex_l1 : func := func_of 1%positive
  [(1%positive, [I_ [1%positive] O_mload [OLit 0]; I_ [] O_mstore [OLit 0; OLit 5]; I_ [] O_return [OLit 0; OLit 32]])] [].
Definition ex_l2 : func := func_of 1%positive
  [(1%positive, [I_ [] O_mstore [OLit 0; OLit 5]; I_ [1%positive] O_mload [OLit 0]; I_ [] O_return [OLit 0; OLit 32]])] [].
Example dft_accepts : dft_check ex_b ex_d = true. Proof. vm_compute. reflexivity. Qed.
Example dft_rejects : dft_check ex_l1 ex_l2 = false. Proof. vm_compute. reflexivity. Qed.

(* %2 = %1 is removed and its use reads %1 *)
Definition ex_c1 : func := func_of 1%positive
  [(1%positive, [I_ [1%positive] O_calldataload [OLit 0]; I_ [2%positive] O_assign [OVar 1];
                 I_ [] O_mstore [OLit 0; OVar 2]; I_ [] O_return [OLit 0; OLit 32]])] [].
Definition ex_cU : positive -> bool := fun x => negb (Pos.eqb x 2).
Definition ex_cC : cert := cert_of [(1%positive, ([], []))].
Example copy_accepts : copy_check ex_cU ex_cC ex_c1 ex_a = true. Proof. vm_compute. reflexivity. Qed.
Example copy_rejects : copy_check ex_cU ex_cC ex_c1 ex_bad = false. Proof. vm_compute. reflexivity. Qed.

(* liveness of ex_b: %1 is live before the add and the mstore, nothing is live before the return *)
Definition ex_T : table := table_of [(1%positive, ([[]; [1%positive]; [1%positive]; []], []))].
Example live_accepts : live_check ex_b ex_T = true. Proof. vm_compute. reflexivity. Qed.
Example live_rejects : live_check ex_b (table_of [(1%positive, ([[]; [1%positive]; []; []], []))]) = false.
Proof. vm_compute. reflexivity. Qed.
Example live_nonvacuous : live ex_b 1%positive 1%nat 1%positive.
Proof.
  eapply (live_use ex_b 1%positive _ 1%nat (I_ [2%positive] O_add [OVar 1; OLit 1])); try reflexivity. simpl. auto.
Qed.
