(* C14 / ValRUV.v -- proved translation validator for RemoveUnusedVariablesPass (and any pass whose output is the input
   minus instructions): `ruv_check before after` accepts when every block of `after` is the corresponding block of
   `before` with some instructions deleted, each deleted instruction being a phi or a simple instruction without write
   effects (sem_writes = []) whose outputs are not used by any kept instruction.
   Theorem ruv_check_sound: an accepted pair has the same run (halt status, data, store) on every input on which the run
   of `before` is not stuck. *)
From Coq Require Import ZArith List Bool FMapPositive FSetPositive Lia.
From Verif Require Import Base.Word256 C14.Venom C14.VenomProofs C14.VenomSim.
Import ListNotations.
Open Scope Z_scope.

(* ---------------------------------------------------------------- decidable equality of instructions *)
Lemma operand_eq_dec : forall a b : operand, {a = b} + {a <> b}.
Proof. decide equality; try apply Z.eq_dec; apply Pos.eq_dec. Defined.

Lemma opc_eq_dec : forall a b : opc, {a = b} + {a <> b}.
Proof. decide equality; try apply Z.eq_dec; apply Nat.eq_dec. Defined.

Lemma inst_eq_dec : forall a b : inst, {a = b} + {a <> b}.
Proof.
  decide equality.
  - apply (list_eq_dec operand_eq_dec).
  - apply opc_eq_dec.
  - apply (list_eq_dec Pos.eq_dec).
Defined.

Lemma code_eq_dec : forall a b : list (Z * list Z), {a = b} + {a <> b}.
Proof. apply list_eq_dec. decide equality; [apply (list_eq_dec Z.eq_dec) | apply Z.eq_dec]. Defined.

(* ---------------------------------------------------------------- the checker *)
Definition nilb {A} (l : list A) : bool := match l with [] => true | _ => false end.

Definition droppable (U : positive -> bool) (i : inst) : bool :=
  (is_phi i || (is_simple (i_op i) && nilb (sem_writes (i_op i)))) && forallb (fun o => negb (U o)) (i_outs i).

Fixpoint ruv_align (U : positive -> bool) (lb la : list inst) : bool :=
  match lb with
  | [] => nilb la
  | i :: rb =>
      match la with
      | j :: ra => if inst_eq_dec i j then uses_in U (i_args i) && ruv_align U rb ra
                   else droppable U i && ruv_align U rb la
      | [] => droppable U i && ruv_align U rb []
      end
  end.

Definition no_phi (l : list inst) : bool := forallb (fun i => negb (is_phi i)) l.
Fixpoint phis_top (l : list inst) : bool :=
  match l with [] => true | i :: r => if is_phi i then phis_top r else no_phi r end.

Definition blocks_match (chk : list inst -> list inst -> bool) (b a : func) : bool :=
  forallb (fun kv => match PositiveMap.find (fst kv) (f_blocks a) with Some la => chk (snd kv) la | None => false end)
          (PositiveMap.elements (f_blocks b))
  && forallb (fun kv => match PositiveMap.find (fst kv) (f_blocks b) with Some _ => true | None => false end)
             (PositiveMap.elements (f_blocks a)).

Definition same_frame (b a : func) : bool :=
  Pos.eqb (f_entry b) (f_entry a) && (if code_eq_dec (f_code b) (f_code a) then true else false).

Definition ruv_check_U (U : positive -> bool) (b a : func) : bool :=
  same_frame b a && blocks_match (fun lb la => phis_top lb && ruv_align U lb la) b a.

(* U = the variables read by `after` *)
Definition used_set (f : func) : PositiveSet.t :=
  fold_left (fun s kv => fold_left (fun s i => fold_left (fun s v => PositiveSet.add v s) (op_vars (i_args i)) s) (snd kv) s)
            (PositiveMap.elements (f_blocks f)) PositiveSet.empty.

Definition ruv_check (b a : func) : bool :=
  let s := used_set a in ruv_check_U (fun x => PositiveSet.mem x s) b a.

(* ---------------------------------------------------------------- soundness *)
Lemma blocks_match_spec : forall chk b a, blocks_match chk b a = true -> forall l,
  match PositiveMap.find l (f_blocks b), PositiveMap.find l (f_blocks a) with
  | None, None => True
  | Some lb, Some la => chk lb la = true
  | _, _ => False
  end.
Proof.
  intros chk b a H l. unfold blocks_match in H. apply andb_true_iff in H. destruct H as [H1 H2].
  rewrite forallb_forall in H1, H2.
  destruct (PositiveMap.find l (f_blocks b)) as [lb|] eqn:Fb.
  - specialize (H1 (l, lb) (PositiveMap.elements_correct _ _ Fb)). simpl in H1.
    destruct (PositiveMap.find l (f_blocks a)); auto. discriminate.
  - destruct (PositiveMap.find l (f_blocks a)) as [la|] eqn:Fa; auto.
    specialize (H2 (l, la) (PositiveMap.elements_correct _ _ Fa)). simpl in H2. rewrite Fb in H2. discriminate.
Qed.

Lemma merge_nil : forall s' s, merge [] s' s = s.
Proof. intros s' s. destruct s. reflexivity. Qed.

Lemma exec_inst_is_simple : forall E X i vs st, is_simple (i_op i) = true ->
  exec_inst E X i vs st = match exec_simple E X i vs st with Ok (vs', st') => SNext vs' st' | Err e => SHalt (HStuck e) st end.
Proof. intros E X [outs op args] vs st H. unfold exec_inst. simpl in *. destruct op; try discriminate H; reflexivity. Qed.

Lemma exec_inst_phi : forall E X i vs st, is_phi i = true -> exec_inst E X i vs st = SHalt (HStuck EArity) st.
Proof. intros E X [outs op args] vs st H. unfold is_phi in H. unfold exec_inst. simpl in *. destruct op; try discriminate H; reflexivity. Qed.

(* a simple instruction without write effects leaves the store alone and only binds its outputs *)
Lemma exec_inst_pure : forall E X i vs st, is_simple (i_op i) = true -> sem_writes (i_op i) = [] ->
  (exists e, exec_inst E X i vs st = SHalt (HStuck e) st) \/
  (exists vs', exec_inst E X i vs st = SNext vs' st /\ forall x, ~ In x (i_outs i) -> PositiveMap.find x vs' = PositiveMap.find x vs).
Proof.
  intros E X i vs st S W. rewrite exec_inst_is_simple by assumption. unfold exec_simple.
  destruct (eval_ops vs (i_args i)) as [argv|]; [|left; eauto].
  unfold wrapped. rewrite W.
  destruct (eff_sem E X (i_op i) argv (mask (sem_reads (i_op i) ++ []) st)) as [[ovals st']|e]; [|left; eauto].
  rewrite merge_nil.
  destruct (bind_outs vs (i_outs i) ovals) as [vs'|] eqn:B; [|left; eauto].
  right. exists vs'. split; auto. intros x N. apply (bind_other _ _ _ _ B x N).
Qed.

Lemma agree_drop : forall U va vb vb' outs, agree U va vb ->
  forallb (fun o => negb (U o)) outs = true ->
  (forall x, ~ In x outs -> PositiveMap.find x vb' = PositiveMap.find x vb) -> agree U va vb'.
Proof.
  intros U va vb vb' outs A F H x Ux. rewrite H. - apply A; assumption.
  - intro I. rewrite forallb_forall in F. specialize (F x I). rewrite Ux in F. discriminate.
Qed.

Lemma agree_add : forall U va vb o v, agree U va vb -> agree U (PositiveMap.add o v va) (PositiveMap.add o v vb).
Proof.
  intros U va vb o v A x Ux. destruct (Pos.eq_dec x o) as [->|N].
  - rewrite !PositiveMap.gss. reflexivity.
  - rewrite !PositiveMap.gso by assumption. apply A. assumption.
Qed.

Lemma agree_add_b : forall U va vb o v, agree U va vb -> U o = false -> agree U va (PositiveMap.add o v vb).
Proof.
  intros U va vb o v A Uo x Ux. rewrite PositiveMap.gso. - apply A; assumption. - intro; subst. rewrite Uo in Ux. discriminate.
Qed.

Lemma ruv_insts : forall U E X lb la vb va st, ruv_align U lb la = true -> agree U va vb ->
  bad (exec_insts E X lb vb st) \/ sim_step U (exec_insts E X lb vb st) (exec_insts E X la va st).
Proof.
  intros U E X. induction lb as [|i rb IH]; intros la vb va st AL A.
  - left. simpl. exact I.
  - assert (DROP : droppable U i = true -> ruv_align U rb la = true ->
                   bad (exec_insts E X (i :: rb) vb st) \/ sim_step U (exec_insts E X (i :: rb) vb st) (exec_insts E X la va st)).
    { intros D AL'. unfold droppable in D. apply andb_true_iff in D. destruct D as [K O].
      apply orb_true_iff in K. destruct K as [P|S].
      - left. simpl. rewrite (exec_inst_phi E X i vb st P). exact I.
      - apply andb_true_iff in S. destruct S as [S W].
        assert (W' : sem_writes (i_op i) = []) by (destruct (sem_writes (i_op i)); [reflexivity|discriminate]).
        destruct (exec_inst_pure E X i vb st S W') as [[e He]|[vb' [He Hf]]].
        + left. simpl. rewrite He. exact I.
        + simpl. rewrite He. apply IH; auto. eapply agree_drop; eauto. }
    simpl in AL. destruct la as [|j ra].
    + apply andb_true_iff in AL. destruct AL as [D AL']. apply DROP; auto.
    + destruct (inst_eq_dec i j) as [EQ|NE].
      * subst j. apply andb_true_iff in AL. destruct AL as [Us AL'].
        pose proof (exec_inst_sim U E X i vb va st A Us) as SIM. simpl.
        destruct (exec_inst E X i vb st) as [vb' s|l vb' s|h s]; destruct (exec_inst E X i va st) as [va' s'|l' va' s'|h' s'];
          simpl in SIM; try contradiction.
        -- destruct SIM as [-> A']. apply IH; auto.
        -- right. exact SIM.
        -- right. exact SIM.
      * apply andb_true_iff in AL. destruct AL as [D AL']. apply DROP; auto.
Qed.

Lemma ruv_align_no_phi : forall U lb la, no_phi lb = true -> ruv_align U lb la = true -> no_phi la = true.
Proof.
  intros U. induction lb as [|i rb IH]; intros la N AL; simpl in *.
  - destruct la; [reflexivity|discriminate].
  - apply andb_true_iff in N. destruct N as [Ni Nr]. destruct la as [|j ra]; auto.
    destruct (inst_eq_dec i j) as [EQ|NE]; apply andb_true_iff in AL; destruct AL as [_ AL'].
    + subst j. simpl. rewrite Ni. simpl. apply IH; auto.
    + apply IH; auto.
Qed.

Lemma exec_phis_no_phi : forall prev l old vs, no_phi l = true -> exec_phis prev l old vs = Some (vs, l).
Proof.
  intros prev [|i r] old vs N; [reflexivity|]. simpl in N. apply andb_true_iff in N. destruct N as [Ni _].
  apply exec_phis_nonphi. destruct (is_phi i); [discriminate|reflexivity].
Qed.

Lemma ruv_phis : forall U prev lb la old_b old_a vb va,
  ruv_align U lb la = true -> phis_top lb = true -> agree U old_a old_b -> agree U va vb ->
  match exec_phis prev lb old_b vb with
  | None => True
  | Some (vb', rb) => exists va' ra, exec_phis prev la old_a va = Some (va', ra) /\ agree U va' vb' /\ ruv_align U rb ra = true
  end.
Proof.
  intros U prev. induction lb as [|i rb IH]; intros la old_b old_a vb va AL PT AO A.
  - simpl in *. destruct la; [|discriminate]. exists va, []. simpl. auto.
  - destruct (is_phi i) eqn:P.
    + (* a phi of `before` *)
      assert (PT' : phis_top rb = true) by (simpl in PT; rewrite P in PT; exact PT).
      assert (DROP : droppable U i = true -> ruv_align U rb la = true ->
        match exec_phis prev (i :: rb) old_b vb with
        | None => True
        | Some (vb', rb') => exists va' ra, exec_phis prev la old_a va = Some (va', ra) /\ agree U va' vb' /\ ruv_align U rb' ra = true
        end).
      { intros D AL'. rewrite (exec_phis_phi prev i rb old_b vb P).
        destruct (i_outs i) as [|o [|o2 t]] eqn:Eo; auto.
        destruct (phi_val prev (map (resolve old_b) (i_args i))) as [v|]; auto.
        apply IH; auto. apply agree_add_b; auto.
        unfold droppable in D. apply andb_true_iff in D. destruct D as [_ O]. rewrite Eo in O. simpl in O.
        apply andb_true_iff in O. destruct O as [O _]. destruct (U o); [discriminate|reflexivity]. }
      simpl in AL. destruct la as [|j ra].
      * apply andb_true_iff in AL. destruct AL as [D AL']. apply DROP; auto.
      * destruct (inst_eq_dec i j) as [EQ|NE]; apply andb_true_iff in AL; destruct AL as [D AL'].
        -- subst j. rewrite (exec_phis_phi prev i rb old_b vb P), (exec_phis_phi prev i ra old_a va P).
           rewrite (resolve_agree U old_a old_b (i_args i) AO D).
           destruct (i_outs i) as [|o [|o2 t]]; auto.
           destruct (phi_val prev (map (resolve old_b) (i_args i))) as [v|]; auto.
           apply IH; auto. apply agree_add. assumption.
        -- apply DROP; auto.
    + (* the first non-phi of `before`: no phi follows in either list *)
      rewrite (exec_phis_nonphi prev i rb old_b vb P).
      assert (N : no_phi (i :: rb) = true) by (simpl in *; rewrite P in *; simpl; exact PT).
      exists va, la. split; [|split]; auto.
      apply exec_phis_no_phi. eapply ruv_align_no_phi; eauto.
Qed.

Lemma ruv_block : forall U E X prev lb la vb va st,
  phis_top lb && ruv_align U lb la = true -> agree U va vb ->
  bad (block_res E X prev lb vb st) \/ sim_step U (block_res E X prev lb vb st) (block_res E X prev la va st).
Proof.
  intros U E X prev lb la vb va st H A. apply andb_true_iff in H. destruct H as [PT AL].
  unfold block_res. pose proof (ruv_phis U prev lb la vb va vb va AL PT A A) as PH.
  destruct (exec_phis prev lb vb vb) as [[vb' rb]|].
  - destruct PH as [va' [ra [EA [A' AL']]]]. rewrite EA. apply ruv_insts; auto.
  - left. exact I.
Qed.

Theorem ruv_check_U_sound : forall U b a, ruv_check_U U b a = true ->
  forall n E X st, not_stuck (vrun n E X b st) -> vrun n E X a st = vrun n E X b st.
Proof.
  intros U b a H n E X st NS. unfold ruv_check_U in H. apply andb_true_iff in H. destruct H as [FR BM].
  unfold same_frame in FR. apply andb_true_iff in FR. destruct FR as [EN CO].
  apply Pos.eqb_eq in EN. destruct (code_eq_dec (f_code b) (f_code a)) as [CE|]; [|discriminate].
  unfold vrun in *. rewrite <- EN, <- CE.
  set (E' := mkEnv (e_calldata E) (e_words E) (e_hash E) (e_immbase E) (f_code b)) in *.
  apply (sim_run E' X b a (fun _ _ vb va => agree U va vb) False); auto.
  - intros cur prev vb va st0 A. pose proof (blocks_match_spec _ b a BM cur) as M.
    destruct (PositiveMap.find cur (f_blocks b)) as [lb|]; destruct (PositiveMap.find cur (f_blocks a)) as [la|]; auto.
    simpl. destruct (ruv_block U E' X prev lb la vb va st0 M A) as [B|S]; [left; exact B|].
    destruct (block_res E' X prev lb vb st0) as [vb' s|l vb' s|h s]; destruct (block_res E' X prev la va st0) as [va' s'|l' va' s'|h' s'];
      simpl in S; try contradiction.
    + left. exact I.
    + right. right. exact S.
    + right. right. exact S.
  - apply agree_refl.
  - intros [].
Qed.

Theorem ruv_check_sound : forall b a, ruv_check b a = true ->
  forall n E X st, not_stuck (vrun n E X b st) -> vrun n E X a st = vrun n E X b st.
Proof. intros b a H. unfold ruv_check in H. eapply ruv_check_U_sound; eauto. Qed.
