(* Instruction selection of the Venom back end (vyper/venom/venom_to_assembly.py, `_generate_evm_for_instruction`,
   "Step 5"): the EVM snippet emitted for each Venom opcode once its operands are on the stack (the LAST operand of
   IRInstruction.operands on top = the FIRST argument in the EVM-order argument lists of Venom.v), and a small EVM
   stack machine on which the snippets are executed.  Definitions only (ISelProofs.v, PropsISel.v).

   The table `isel` is compared syntactically, for the whole opcode family, with what the real generator emits
   (tools/vlib/c14_isel.py); the machine is tied to pyrevm on the real generated code. *)
From Coq Require Import ZArith Bool List String Ascii.
From Verif Require Import Base.Word256.
From Verif Require C14.Venom C14.VenomNames.
Import ListNotations.
Module V := Venom.
Open Scope string_scope.
Open Scope Z_scope.

(* ------------------------------------------------------------------ assembly items *)
Inductive aitem :=
| AOp (name : string)              (* a plain EVM mnemonic *)
| APushLabel (l : string)          (* PUSHLABEL l *)
| ALabel (l : string)              (* a jump destination *)
| APushOfst (l : string) (k : Z)   (* PUSH_OFST(label, k): code address of l plus k *)
| APushConst (c : string) (k : Z). (* PUSH_OFST(CONSTREF c, k): assembler-level constant plus k *)

Definition up_ascii (c : ascii) : ascii :=
  let n := nat_of_ascii c in if (Nat.leb 97 n && Nat.leb n 122)%bool then ascii_of_nat (n - 32) else c.
Fixpoint upper (s : string) : string := match s with EmptyString => EmptyString | String c t => String (up_ascii c) (upper t) end.

Definition one_to_one : list string :=
  ["revert"; "coinbase"; "calldatasize"; "calldatacopy"; "mcopy"; "calldataload"; "gas"; "gasprice"; "gaslimit"; "chainid";
   "address"; "origin"; "number"; "extcodesize"; "extcodehash"; "codecopy"; "extcodecopy"; "returndatasize";
   "returndatacopy"; "callvalue"; "selfbalance"; "sload"; "sstore"; "mload"; "mstore"; "tload"; "tstore"; "timestamp";
   "caller"; "blockhash"; "selfdestruct"; "signextend"; "stop"; "shr"; "shl"; "sar"; "and"; "xor"; "or"; "add"; "sub";
   "mul"; "div"; "byte"; "sdiv"; "mod"; "smod"; "exp"; "addmod"; "mulmod"; "eq"; "iszero"; "not"; "lt"; "gt"; "slt";
   "sgt"; "create"; "create2"; "balance"; "call"; "staticcall"; "delegatecall"; "codesize"; "basefee"; "blobhash";
   "blobbasefee"; "prevrandao"; "difficulty"; "invalid"].
Definition no_code : list string := ["alloca"; "param"; "fmp_param"; "retpc_param"; "assign"; "dbname"; "phi"; "nop"].
Definition mem_str (s : string) (l : list string) : bool := existsb (String.eqb s) l.
Definition log_name (n : Z) : string :=
  if n =? 0 then "LOG0" else if n =? 1 then "LOG1" else if n =? 2 then "LOG2" else if n =? 3 then "LOG3" else "LOG4".

(* op: Venom opcode; lits: literal parameters that select the code (log: topic count; offset: the literal);
   labs: label operands followed by the fresh labels the generator makes up *)
Definition isel (op : string) (lits : list Z) (labs : list string) : option (list aitem) :=
  if mem_str op one_to_one then Some [AOp (upper op)]
  else if mem_str op no_code then Some []
  else if String.eqb op "bump" then Some [AOp "DUP2"; AOp "ADD"]
  else if String.eqb op "initial_fmp" then Some [APushConst "__initial_fmp__" 0]
  else if String.eqb op "jnz" then match labs with [nz; z] => Some [APushLabel nz; AOp "JUMPI"; APushLabel z; AOp "JUMP"] | _ => None end
  else if String.eqb op "jmp" then match labs with [t] => Some [APushLabel t; AOp "JUMP"] | _ => None end
  else if String.eqb op "djmp" then Some [AOp "JUMP"]
  else if String.eqb op "invoke" then match labs with [t; r] => Some [APushLabel r; APushLabel t; AOp "JUMP"; ALabel r] | _ => None end
  else if String.eqb op "ret" then Some [AOp "JUMP"]
  else if String.eqb op "return" then Some [AOp "RETURN"]
  else if String.eqb op "sha3" then Some [AOp "SHA3"]
  else if String.eqb op "assert" then Some [AOp "ISZERO"; APushLabel "revert"; AOp "JUMPI"]
  else if String.eqb op "assert_unreachable" then match labs with [e] => Some [APushLabel e; AOp "JUMPI"; AOp "INVALID"; ALabel e] | _ => None end
  else if String.eqb op "log" then match lits with [n] => if (0 <=? n) && (n <=? 4) then Some [AOp (log_name n)] else None | _ => None end
  else if String.eqb op "iload" then Some [AOp "MLOAD"]
  else if String.eqb op "istore" then Some [AOp "SWAP1"; AOp "MSTORE"]
  else if String.eqb op "offset" then match lits, labs with [k], [l] => Some [APushOfst l k] | _, _ => None end
  else None.

(* the shared revert block the `assert` snippet jumps to *)
Definition revert_postamble : list aitem := [ALabel "revert"; AOp "PUSH0"; AOp "DUP1"; AOp "REVERT"].

Definition aitem_eqb (a b : aitem) : bool :=
  match a, b with
  | AOp x, AOp y | APushLabel x, APushLabel y | ALabel x, ALabel y => String.eqb x y
  | APushOfst x i, APushOfst y j | APushConst x i, APushConst y j => String.eqb x y && (i =? j)
  | _, _ => false
  end.
Fixpoint alist_eqb (a b : list aitem) : bool :=
  match a, b with [], [] => true | x :: s, y :: t => aitem_eqb x y && alist_eqb s t | _, _ => false end.
Definition isel_is (op : string) (lits : list Z) (labs : list string) (real : list aitem) : bool :=
  match isel op lits labs with Some c => alist_eqb c real | None => false end.

(* ------------------------------------------------------------------ the EVM stack machine *)
(* stack items: words, or symbolic code addresses (labels are resolved by the assembler, C15) *)
Inductive sval := SW (z : Z) | SL (l : string).
Inductive eres :=
| ENext (stk : list sval) (st : V.store)             (* fell off the end of the snippet *)
| EJump (l : string) (stk : list sval) (st : V.store) (* jumps to a label outside the snippet *)
| EHalt (h : V.halt) (st : V.store)
| EStuck.

(* mu_s'[0] = f mu_s[0] mu_s[1] (Yellow Paper operand order: the first argument is the top of the stack) *)
Definition ebin (n : string) : option (Z -> Z -> Z) :=
  if String.eqb n "ADD" then Some w_add else if String.eqb n "MUL" then Some w_mul else if String.eqb n "SUB" then Some w_sub
  else if String.eqb n "DIV" then Some w_div else if String.eqb n "SDIV" then Some w_sdiv else if String.eqb n "MOD" then Some w_mod
  else if String.eqb n "SMOD" then Some w_smod else if String.eqb n "EXP" then Some w_exp
  else if String.eqb n "SIGNEXTEND" then Some w_signextend else if String.eqb n "LT" then Some w_lt
  else if String.eqb n "GT" then Some w_gt else if String.eqb n "SLT" then Some w_slt else if String.eqb n "SGT" then Some w_sgt
  else if String.eqb n "EQ" then Some w_eq else if String.eqb n "AND" then Some w_and else if String.eqb n "OR" then Some w_or
  else if String.eqb n "XOR" then Some w_xor else if String.eqb n "BYTE" then Some w_byte else if String.eqb n "SHL" then Some w_shl
  else if String.eqb n "SHR" then Some w_shr else if String.eqb n "SAR" then Some w_sar else None.
Definition eun (n : string) : option (Z -> Z) :=
  if String.eqb n "ISZERO" then Some w_iszero else if String.eqb n "NOT" then Some w_not else None.
Definition etern (n : string) : option (Z -> Z -> Z -> Z) :=
  if String.eqb n "ADDMOD" then Some w_addmod else if String.eqb n "MULMOD" then Some w_mulmod else None.

(* environment words: position in e_words (VenomNames.env_names) *)
Fixpoint index_of (s : string) (l : list string) (k : nat) : option nat :=
  match l with [] => None | x :: t => if String.eqb s x then Some k else index_of s t (S k) end.
Definition eenv (n : string) : option nat := index_of n (map upper VenomNames.env_names) 0.

(* external interactions: the oracle of Venom.v, keyed by the Venom opcode of the same name *)
Definition eext (n : string) : option (V.opc * bool) :=   (* bool: pushes a result *)
  if String.eqb n "CALL" then Some (V.O_call, true) else if String.eqb n "STATICCALL" then Some (V.O_staticcall, true)
  else if String.eqb n "DELEGATECALL" then Some (V.O_delegatecall, true) else if String.eqb n "CREATE" then Some (V.O_create, true)
  else if String.eqb n "CREATE2" then Some (V.O_create2, true) else if String.eqb n "BALANCE" then Some (V.O_balance, true)
  else if String.eqb n "SELFBALANCE" then Some (V.O_selfbalance, true) else if String.eqb n "EXTCODESIZE" then Some (V.O_extcodesize, true)
  else if String.eqb n "EXTCODEHASH" then Some (V.O_extcodehash, true) else if String.eqb n "EXTCODECOPY" then Some (V.O_extcodecopy, false)
  else None.
Definition eext_arity (n : string) : nat :=
  if String.eqb n "CALL" then 7 else if String.eqb n "STATICCALL" then 6 else if String.eqb n "DELEGATECALL" then 6
  else if String.eqb n "CREATE" then 3 else if String.eqb n "CREATE2" then 4 else if String.eqb n "SELFBALANCE" then 0
  else if String.eqb n "EXTCODECOPY" then 4 else 1.

Fixpoint pop_words (n : nat) (stk : list sval) : option (list Z * list sval) :=
  match n with
  | O => Some ([], stk)
  | S k => match stk with SW z :: t => match pop_words k t with Some (a, r) => Some (z :: a, r) | None => None end | _ => None end
  end.

Section Machine.
Variables (E : V.env) (X : V.oracle).

(* memory, storage, calldata, hashing and logging: the same byte/word helpers as Venom.v's eff_sem, unguarded
   (the EVM has no address limit other than gas) *)
Definition emem (n : string) (stk : list sval) (st : V.store) : option (list sval * V.store) :=
  let m := V.s_mem st in
  if String.eqb n "MLOAD" then match stk with SW p :: r => Some (SW (V.bytes_to_word (V.mread m p 32)) :: r, st) | _ => None end
  else if String.eqb n "MSTORE" then match stk with SW p :: SW v :: r => Some (r, V.set_mem st (V.mwrite m p (V.word_to_bytes v))) | _ => None end
  else if String.eqb n "MCOPY" then
    match stk with SW d :: SW s :: SW k :: r => Some (r, V.set_mem st (V.mwrite m d (V.mread m s (Z.to_nat k)))) | _ => None end
  else if String.eqb n "CALLDATASIZE" then Some (SW (Z.of_nat (List.length (V.e_calldata E))) :: stk, st)
  else if String.eqb n "CALLDATALOAD" then
    match stk with SW i :: r => Some (SW (V.bytes_to_word (V.slice_pad (V.e_calldata E) i 32)) :: r, st) | _ => None end
  else if String.eqb n "CALLDATACOPY" then
    match stk with SW d :: SW s :: SW k :: r => Some (r, V.set_mem st (V.mwrite m d (V.slice_pad (V.e_calldata E) s (Z.to_nat k)))) | _ => None end
  else if String.eqb n "CODECOPY" then
    match stk with SW d :: SW s :: SW k :: r => Some (r, V.set_mem st (V.mwrite m d (V.code_read (V.e_code E) s (Z.to_nat k)))) | _ => None end
  else if String.eqb n "RETURNDATASIZE" then Some (SW (Z.of_nat (List.length (V.s_rd st))) :: stk, st)
  else if String.eqb n "RETURNDATACOPY" then
    match stk with SW d :: SW s :: SW k :: r => Some (r, V.set_mem st (V.mwrite m d (V.slice_pad (V.s_rd st) s (Z.to_nat k)))) | _ => None end
  else if String.eqb n "SLOAD" then match stk with SW k :: r => Some (SW (V.zget (V.s_sto st) k) :: r, st) | _ => None end
  else if String.eqb n "SSTORE" then match stk with SW k :: SW v :: r => Some (r, V.set_sto st (V.zset (V.s_sto st) k v)) | _ => None end
  else if String.eqb n "TLOAD" then match stk with SW k :: r => Some (SW (V.zget (V.s_tra st) k) :: r, st) | _ => None end
  else if String.eqb n "TSTORE" then match stk with SW k :: SW v :: r => Some (r, V.set_tra st (V.zset (V.s_tra st) k v)) | _ => None end
  else if String.eqb n "SHA3" then
    match stk with
    | SW p :: SW k :: r => match V.hash_lookup (V.e_hash E) (V.mread m p (Z.to_nat k)) with Some h => Some (SW h :: r, st) | None => None end
    | _ => None
    end
  else None.

Definition elog (n : string) (stk : list sval) (st : V.store) : option (list sval * V.store) :=
  let cnt := if String.eqb n "LOG0" then Some 0%nat else if String.eqb n "LOG1" then Some 1%nat else if String.eqb n "LOG2" then Some 2%nat
             else if String.eqb n "LOG3" then Some 3%nat else if String.eqb n "LOG4" then Some 4%nat else None in
  match cnt with
  | None => None
  | Some c =>
      match stk with
      | SW p :: SW k :: r =>
          match pop_words c r with
          | Some (topics, r') => Some (r', V.set_log st (V.s_log st ++ [(topics, V.mread (V.s_mem st) p (Z.to_nat k))]))
          | None => None
          end
      | _ => None
      end
  end.

Definition estack (n : string) (stk : list sval) : option (list sval) :=
  if String.eqb n "POP" then match stk with _ :: r => Some r | _ => None end
  else if String.eqb n "PUSH0" then Some (SW 0 :: stk)
  else if String.eqb n "DUP1" then match stk with a :: r => Some (a :: a :: r) | _ => None end
  else if String.eqb n "DUP2" then match stk with a :: b :: r => Some (b :: a :: b :: r) | _ => None end
  else if String.eqb n "SWAP1" then match stk with a :: b :: r => Some (b :: a :: r) | _ => None end
  else None.

(* one plain mnemonic that continues with the next item *)
Definition eplain (n : string) (stk : list sval) (st : V.store) : option (list sval * V.store) :=
  match ebin n with
  | Some f => match stk with SW a :: SW b :: r => Some (SW (f a b) :: r, st) | _ => None end
  | None =>
  match eun n with
  | Some f => match stk with SW a :: r => Some (SW (f a) :: r, st) | _ => None end
  | None =>
  match etern n with
  | Some f => match stk with SW a :: SW b :: SW c :: r => Some (SW (f a b c) :: r, st) | _ => None end
  | None =>
  match estack n stk with
  | Some s' => Some (s', st)
  | None =>
  match eenv n with
  | Some k => match nth_error (V.e_words E) k with Some v => Some (SW v :: stk, st) | None => None end
  | None =>
  match eext n with
  | Some (o, pushes) =>
      match pop_words (eext_arity n) stk with
      | Some (a, r) => match X o a st with
                       | Some (v, st') => Some (if pushes then SW v :: r else r, st')
                       | None => None end
      | None => None
      end
  | None =>
  match emem n stk st with
  | Some x => Some x
  | None => elog n stk st
  end end end end end end end.

Fixpoint after_label (l : string) (code : list aitem) : option (list aitem) :=
  match code with
  | [] => None
  | ALabel x :: t => if String.eqb x l then Some t else after_label l t
  | _ :: t => after_label l t
  end.

(* label_word l k: the word a PUSH_OFST pushes (assembler's business: C15); left abstract *)
Variable ofst_word : string -> Z -> Z.
Variable const_word : string -> Z -> Z.

Fixpoint erun (fuel : nat) (code : list aitem) (stk : list sval) (st : V.store) : eres :=
  match fuel with
  | O => EStuck
  | S n =>
    match code with
    | [] => ENext stk st
    | ALabel _ :: t => erun n t stk st
    | APushLabel l :: t => erun n t (SL l :: stk) st
    | APushOfst l k :: t => erun n t (SW (ofst_word l k) :: stk) st
    | APushConst c k :: t => erun n t (SW (const_word c k) :: stk) st
    | AOp name :: t =>
        if String.eqb name "JUMP" then
          match stk with
          | SL l :: r => match after_label l t with Some t' => erun n t' r st | None => EJump l r st end
          | _ => EStuck
          end
        else if String.eqb name "JUMPI" then
          match stk with
          | SL l :: SW c :: r =>
              if c =? 0 then erun n t r st
              else match after_label l t with Some t' => erun n t' r st | None => EJump l r st end
          | _ => EStuck
          end
        else if String.eqb name "STOP" then EHalt V.HStop st
        else if String.eqb name "INVALID" then EHalt V.HInvalid st
        else if String.eqb name "RETURN" then
          match stk with SW p :: SW k :: _ => EHalt (V.HReturn (V.mread (V.s_mem st) p (Z.to_nat k))) st | _ => EStuck end
        else if String.eqb name "REVERT" then
          match stk with SW p :: SW k :: _ => EHalt (V.HRevert (V.mread (V.s_mem st) p (Z.to_nat k))) st | _ => EStuck end
        else match eplain name stk st with
             | Some (stk', st') => erun n t stk' st'
             | None => EStuck
             end
    end
  end.
End Machine.
