(* Soundness of the FMP LIFO validator (FmpLifo.v): if `fmp_check` accepts, every restore that can execute is safe. *)
From Coq Require Import ZArith Bool List String Lia.
From Verif Require Import C14.FmpLifo.
Import ListNotations.
Open Scope string_scope.
Open Scope list_scope.
Open Scope Z_scope.

(* ---------- list / string helpers ---------- *)
Lemma mem_In x l : mem x l = true <-> In x l.
Proof.
  unfold mem. rewrite existsb_exists. split.
  - intros [y [Hy E]]. apply String.eqb_eq in E. subst. exact Hy.
  - intros H. exists x. split; [exact H | apply String.eqb_refl].
Qed.

Lemma mem_false x l : mem x l = false <-> ~ In x l.
Proof.
  split; intros H.
  - intros Hin. apply mem_In in Hin. congruence.
  - destruct (mem x l) eqn:E; [|reflexivity]. apply mem_In in E. contradiction.
Qed.

Lemma split_at_spec m Sk above below : split_at m Sk = Some (above, below) -> Sk = above ++ m :: below.
Proof.
  revert above below. induction Sk as [|a r IH]; intros above below H; cbn in H; [discriminate|].
  destruct (String.eqb a m) eqn:E.
  - apply String.eqb_eq in E. inversion H; subst. reflexivity.
  - destruct (split_at m r) as [[ab be]|] eqn:E2; [|discriminate].
    inversion H; subst. cbn. f_equal. apply IH. reflexivity.
Qed.

Lemma list_eqb_eq a b : list_eqb a b = true -> a = b.
Proof.
  revert b. induction a as [|x a IH]; intros [|y b] H; cbn in H; try discriminate; [reflexivity|].
  apply andb_true_iff in H as [H1 H2]. apply String.eqb_eq in H1. subst. f_equal. apply IH. exact H2.
Qed.

Lemma is_prefix_app c Sk : is_prefix c Sk = true -> exists d, Sk = c ++ d.
Proof.
  revert Sk. induction c as [|x c IH]; intros Sk H; cbn in H.
  - exists Sk. reflexivity.
  - destruct Sk as [|y Sk]; [discriminate|]. apply andb_true_iff in H as [H1 H2].
    apply String.eqb_eq in H1. subst. destruct (IH _ H2) as [d Hd]. exists d. cbn. f_equal. exact Hd.
Qed.

Lemma find_block_label f l b : find_block f l = Some b -> flabel b = l /\ In b f.
Proof.
  induction f as [|x r IH]; cbn; [discriminate|]. destruct (String.eqb (flabel x) l) eqn:E.
  - intros H. inversion H; subst. apply String.eqb_eq in E. split; [exact E | left; reflexivity].
  - intros H. destruct (IH H) as [H1 H2]. split; [exact H1 | right; exact H2].
Qed.

Lemma upd_same e x v : upd e x v x = v.
Proof. unfold upd. rewrite String.eqb_refl. reflexivity. Qed.

Lemma upd_other e x v y : y <> x -> upd e x v y = e y.
Proof. intros H. unfold upd. apply String.eqb_neq in H. rewrite H. reflexivity. Qed.

(* ---------- the invariant ---------- *)
Fixpoint sorted_desc (e : env) (v : Z) (Sk : list string) : Prop :=
  match Sk with
  | [] => True
  | a :: r => e a <= v /\ sorted_desc e (e a) r
  end.

Definition untagged_in (r : region) (l : list string) : Prop := forall p, rtag r = Some p -> ~ In p l.

Fixpoint good_acc (e : env) (R : list region) (acc Sk : list string) : Prop :=
  match Sk with
  | [] => True
  | a :: rest => (forall r, In r R -> untagged_in r (a :: acc) -> rend r <= e a) /\ good_acc e R (a :: acc) rest
  end.

Record Inv (F : string) (Sk : list string) (st : fstate) : Prop := {
  inv_F : ~ In F Sk;
  inv_sorted : sorted_desc (fst st) (fst st F) Sk;
  inv_reg : forall r, In r (snd st) -> rend r <= fst st F /\ rbase r < rend r;
  inv_base : forall r a, In r (snd st) -> In a Sk -> rtag r = Some a -> rbase r = fst st a;
  inv_good : good_acc (fst st) (snd st) [] Sk }.

Lemma sorted_ext e e' v Sk : (forall a, In a Sk -> e' a = e a) -> sorted_desc e v Sk -> sorted_desc e' v Sk.
Proof.
  revert v. induction Sk as [|a r IH]; intros v H HS; cbn in *; [exact I|].
  destruct HS as [H1 H2]. rewrite (H a (or_introl eq_refl)). split; [exact H1|].
  apply IH; [intros x Hx; apply H; right; exact Hx | exact H2].
Qed.

Lemma sorted_weaken e v v' Sk : v <= v' -> sorted_desc e v Sk -> sorted_desc e v' Sk.
Proof. destruct Sk as [|a r]; cbn; [auto|]. intros H [H1 H2]. split; [lia | exact H2]. Qed.

Lemma sorted_In e v Sk a : sorted_desc e v Sk -> In a Sk -> e a <= v.
Proof.
  revert v. induction Sk as [|x r IH]; intros v HS Hin; cbn in *; [contradiction|].
  destruct HS as [H1 H2]. destruct Hin as [->|Hin]; [exact H1|].
  specialize (IH _ H2 Hin). lia.
Qed.

(* Sk = above ++ m :: below: the part below m is sorted under e m, and everything at or above m is >= e m *)
Lemma sorted_split e v above m below :
  sorted_desc e v (above ++ m :: below) ->
  sorted_desc e (e m) below /\ (forall q, In q (above ++ [m]) -> e m <= e q).
Proof.
  revert v. induction above as [|x ab IH]; intros v HS; cbn in *.
  - destruct HS as [_ H2]. split; [exact H2|]. intros q [->|[]]. lia.
  - destruct HS as [_ H2]. destruct (IH _ H2) as [A B]. split; [exact A|].
    intros q [->|Hq]; [|apply B; exact Hq].
    assert (Hm : In m (ab ++ m :: below)) by (apply in_or_app; right; left; reflexivity).
    pose proof (sorted_In _ _ _ _ H2 Hm). lia.
Qed.

Lemma sorted_prefix e v c d : sorted_desc e v (c ++ d) -> sorted_desc e v c.
Proof.
  revert v. induction c as [|x c IH]; intros v H; cbn in *; [exact I|].
  destruct H as [H1 H2]. split; [exact H1 | apply IH; exact H2].
Qed.

Lemma good_ext e e' R acc Sk : (forall a, In a Sk -> e' a = e a) -> good_acc e R acc Sk -> good_acc e' R acc Sk.
Proof.
  revert acc. induction Sk as [|a r IH]; intros acc H HG; cbn in *; [exact I|].
  destruct HG as [H1 H2]. split.
  - intros x Hx Hu. rewrite (H a (or_introl eq_refl)). apply H1; assumption.
  - apply IH; [intros y Hy; apply H; right; exact Hy | exact H2].
Qed.

Lemma good_prefix e R acc c d : good_acc e R acc (c ++ d) -> good_acc e R acc c.
Proof.
  revert acc. induction c as [|x c IH]; intros acc H; cbn in *; [exact I|].
  destruct H as [H1 H2]. split; [exact H1 | apply IH; exact H2].
Qed.

Lemma good_split e R acc above m below :
  good_acc e R acc (above ++ m :: below) ->
  (forall r, In r R -> untagged_in r (m :: rev above ++ acc) -> rend r <= e m) /\
  good_acc e R (m :: rev above ++ acc) below.
Proof.
  revert acc. induction above as [|x ab IH]; intros acc H; cbn in *.
  - exact H.
  - destruct H as [_ H2]. destruct (IH _ H2) as [A B].
    assert (E : forall l, In l (m :: rev ab ++ x :: acc) <-> In l (m :: (rev ab ++ [x]) ++ acc)).
    { intros l. rewrite <- app_assoc. cbn. reflexivity. }
    split.
    + intros r Hr Hu. apply A; [exact Hr|]. intros p Hp Hin. apply (Hu p Hp). apply E. exact Hin.
    + rewrite <- app_assoc. cbn. exact B.
Qed.

(* moving to a sub-list of regions and a smaller accumulator, when no surviving region carries a dropped tag *)
Lemma good_shrink e e' R R' D acc acc' Sk :
  (forall r, In r R' -> In r R) ->
  (forall r q, In r R' -> rtag r = Some q -> ~ In q D) ->
  (forall x, In x acc -> In x acc' \/ In x D) ->
  (forall a, In a Sk -> e' a = e a) ->
  good_acc e R acc Sk -> good_acc e' R' acc' Sk.
Proof.
  revert acc acc'. induction Sk as [|a rest IH]; intros acc acc' Hsub Hdead Hacc Hext HG; cbn in *; [exact I|].
  destruct HG as [H1 H2]. split.
  - intros r Hr Hu. rewrite (Hext a (or_introl eq_refl)). apply H1; [apply Hsub; exact Hr|].
    intros p Hp [->|Hin].
    + apply (Hu p Hp). left. reflexivity.
    + destruct (Hacc _ Hin) as [Hi|Hi].
      * apply (Hu p Hp). right. exact Hi.
      * apply (Hdead r p Hr Hp Hi).
  - apply (IH (a :: acc) (a :: acc')); try assumption.
    + intros x [->|Hx]; [left; left; reflexivity|]. destruct (Hacc _ Hx) as [Hi|Hi]; [left; right; exact Hi | right; exact Hi].
    + intros y Hy. apply Hext. right. exact Hy.
Qed.

Lemma Inv_ext F Sk e e' R :
  (forall a, In a Sk -> e' a = e a) -> e' F = e F -> Inv F Sk (e, R) -> Inv F Sk (e', R).
Proof.
  intros Hext HF [A B C D E]. cbn in *. constructor; cbn.
  - exact A.
  - rewrite HF. apply (sorted_ext e); assumption.
  - intros r Hr. rewrite HF. apply C. exact Hr.
  - intros r a Hr Ha Ht. rewrite (Hext a Ha). apply (D r a); assumption.
  - apply (good_ext e); assumption.
Qed.

Lemma Inv_nil F e : Inv F [] (e, []).
Proof. constructor; cbn; auto. intros r []. intros r a []. Qed.

Lemma Inv_prefix F c d st : Inv F (c ++ d) st -> Inv F c st.
Proof.
  intros [A B C D E]. constructor.
  - intros H. apply A. apply in_or_app. left. exact H.
  - eapply sorted_prefix. exact B.
  - exact C.
  - intros r a Hr Ha. apply D; [exact Hr | apply in_or_app; left; exact Ha].
  - eapply good_prefix. exact E.
Qed.

(* ---------- bump ---------- *)
Lemma rtag_anon_ne p r q : rtag (anon p r) = Some q -> q <> p /\ rtag r = Some q.
Proof.
  unfold anon. destruct (rtag r) as [t|] eqn:E.
  - destruct (String.eqb t p) eqn:E2.
    + cbn. discriminate.
    + rewrite E. intros H. inversion H; subst. apply String.eqb_neq in E2. split; [exact E2 | reflexivity].
  - rewrite E. discriminate.
Qed.

Lemma rend_anon p r : rend (anon p r) = rend r.
Proof. unfold anon. destruct (rtag r) as [t|]; [destruct (String.eqb t p)|]; reflexivity. Qed.

Lemma rbase_anon p r : rbase (anon p r) = rbase r.
Proof. unfold anon. destruct (rtag r) as [t|]; [destruct (String.eqb t p)|]; reflexivity. Qed.

Lemma bump_good e e' R Rnew p acc acc' Sk :
  ~ In p Sk -> ~ In p acc ->
  (forall x, In x acc -> In x acc') -> In p acc' ->
  (forall a, In a Sk -> e' a = e a) ->
  (forall r, In r Rnew -> rtag r = Some p) ->
  good_acc e R acc Sk -> good_acc e' (Rnew ++ map (anon p) R) acc' Sk.
Proof.
  revert acc acc'. induction Sk as [|a rest IH]; intros acc acc' HpS Hpa Hsub Hp Hext Hnew HG; cbn in *; [exact I|].
  destruct HG as [H1 H2]. split.
  - intros r Hr Hu. apply in_app_or in Hr as [Hr|Hr].
    + exfalso. apply (Hu p (Hnew r Hr)). right. exact Hp.
    + apply in_map_iff in Hr as [r0 [<- Hr0]]. rewrite rend_anon. rewrite (Hext a (or_introl eq_refl)).
      apply H1; [exact Hr0|]. intros q Hq Hin.
      destruct (string_dec q p) as [->|Hne].
      * destruct Hin as [<-|Hin]; [apply HpS; left; reflexivity | apply Hpa; exact Hin].
      * assert (Ht : rtag (anon p r0) = Some q).
        { unfold anon. rewrite Hq. apply String.eqb_neq in Hne. rewrite Hne. exact Hq. }
        apply (Hu q Ht). destruct Hin as [<-|Hin]; [left; reflexivity | right; apply Hsub; exact Hin].
  - apply (IH (a :: acc) (a :: acc')); try assumption.
    + intros H. apply HpS. right. exact H.
    + intros [<-|H]; [apply HpS; left; reflexivity | apply Hpa; exact H].
    + intros x [->|Hx]; [left; reflexivity | right; apply Hsub; exact Hx].
    + right. exact Hp.
    + intros y Hy. apply Hext. right. exact Hy.
Qed.

(* ---------- one step: preservation and safety ---------- *)
Lemma step_pres F i Sk S1 st st' :
  Inv F Sk st -> abs_step F i Sk = Some S1 -> exec_inst F i st st' -> Inv F S1 st'.
Proof.
  intros HI HA HX. destruct HX as [p sz e R Hn | m pp e R | d src e R | outs e e' R Hfr]; cbn in HA.
  - (* bump *)
    destruct (String.eqb p F) eqn:EpF; [discriminate|]. destruct (mem p Sk) eqn:EpS; [discriminate|].
    cbn in HA. inversion HA; subst S1. clear HA.
    apply String.eqb_neq in EpF. apply mem_false in EpS. destruct HI as [A B C D E]. cbn in *.
    set (n := oval e sz) in *. set (e1 := upd (upd e p (e F)) F (e F + n)).
    assert (HF1 : e1 F = e F + n) by apply upd_same.
    assert (Hp1 : e1 p = e F). { unfold e1. rewrite upd_other by exact EpF. apply upd_same. }
    assert (Hext : forall a, In a Sk -> e1 a = e a).
    { intros a Ha. unfold e1. rewrite upd_other by (intros ->; contradiction). rewrite upd_other by (intros ->; contradiction). reflexivity. }
    set (Rnew := if 0 <? n then [(Some p, e F, e F + n)] else []).
    assert (HnewIn : forall r, In r Rnew -> r = (Some p, e F, e F + n) /\ 0 < n).
    { intros r Hr. unfold Rnew in Hr. destruct (0 <? n) eqn:E0; [|contradiction]. destruct Hr as [<-|[]]. split; [reflexivity | lia]. }
    constructor; cbn.
    + intros [Hc|Hc]; [apply EpF; exact Hc | apply A; exact Hc].
    + rewrite HF1, Hp1. split; [lia|]. apply (sorted_ext e); [exact Hext | exact B].
    + intros r Hr. rewrite HF1. apply in_app_or in Hr as [Hr|Hr].
      * destruct (HnewIn r Hr) as [-> Hpos]. cbn. lia.
      * apply in_map_iff in Hr as [r0 [<- Hr0]]. rewrite rend_anon, rbase_anon. destruct (C r0 Hr0). lia.
    + intros r a Hr Ha Ht. apply in_app_or in Hr as [Hr|Hr].
      * destruct (HnewIn r Hr) as [-> _]. cbn in Ht. inversion Ht; subst a. cbn. symmetry. exact Hp1.
      * apply in_map_iff in Hr as [r0 [<- Hr0]]. apply rtag_anon_ne in Ht as [Hne Ht0]. rewrite rbase_anon.
        destruct Ha as [->|Ha]; [contradiction|]. rewrite (Hext a Ha). apply (D r0 a); assumption.
    + split.
      * intros r Hr Hu. rewrite Hp1. apply in_app_or in Hr as [Hr|Hr].
        -- destruct (HnewIn r Hr) as [-> _]. exfalso. apply (Hu p eq_refl). left. reflexivity.
        -- apply in_map_iff in Hr as [r0 [<- Hr0]]. rewrite rend_anon. destruct (C r0 Hr0). lia.
      * apply (bump_good e e1 R Rnew p [] [p] Sk); try assumption.
        -- intros [].
        -- intros x [].
        -- left. reflexivity.
        -- intros r Hr. destruct (HnewIn r Hr) as [-> _]. reflexivity.
  - (* restore *)
    destruct (split_at m Sk) as [[above below]|] eqn:ES; [|discriminate].
    destruct (list_eqb pp (above ++ [m]) && negb (mem m below)) eqn:EC; [|discriminate].
    inversion HA; subst S1. clear HA. apply split_at_spec in ES. subst Sk.
    destruct HI as [A B C D E]. cbn in *.
    destruct (sorted_split _ _ _ _ _ B) as [Bbelow Babove].
    destruct (good_split _ _ _ _ _ _ E) as [_ Gbelow].
    assert (HFb : forall a, In a below -> a <> F).
    { intros a Ha ->. apply A. apply in_or_app. right. right. exact Ha. }
    assert (Hext : forall a, In a below -> upd e F (e m) a = e a).
    { intros a Ha. apply upd_other. apply HFb. exact Ha. }
    constructor; cbn.
    + intros H. apply A. apply in_or_app. right. right. exact H.
    + rewrite upd_same. apply (sorted_ext e); [exact Hext | exact Bbelow].
    + intros r Hr. rewrite upd_same. apply filter_In in Hr as [Hr Hle]. apply Z.leb_le in Hle. destruct (C r Hr). lia.
    + intros r a Hr Ha Ht. apply filter_In in Hr as [Hr _]. rewrite (Hext a Ha).
      apply (D r a); [exact Hr | apply in_or_app; right; right; exact Ha | exact Ht].
    + apply (good_shrink e (upd e F (e m)) R (filter (fun r => rend r <=? e m) R) (above ++ [m]) (m :: rev above ++ []) [] below).
      * intros r Hr. apply filter_In in Hr as [Hr _]. exact Hr.
      * intros r q Hr Ht Hq. apply filter_In in Hr as [Hr Hle]. apply Z.leb_le in Hle.
        assert (HqS : In q (above ++ m :: below)).
        { apply in_app_or in Hq as [Hq|[<-|[]]]; apply in_or_app; [left; exact Hq | right; left; reflexivity]. }
        pose proof (D r q Hr HqS Ht) as Hb. pose proof (Babove q Hq) as Hge. destruct (C r Hr) as [_ Hne]. lia.
      * intros x Hx. right. rewrite app_nil_r in Hx. destruct Hx as [<-|Hx].
        -- apply in_or_app. right. left. reflexivity.
        -- apply in_or_app. left. apply in_rev. exact Hx.
      * exact Hext.
      * exact Gbelow.
  - (* assign *)
    destruct (String.eqb d F) eqn:EdF.
    + inversion HA; subst S1. apply Inv_nil.
    + destruct (mem d Sk) eqn:EdS; [discriminate|]. inversion HA; subst S1. clear HA.
      apply String.eqb_neq in EdF. apply mem_false in EdS.
      apply (Inv_ext F Sk e); [| |exact HI].
      * intros a Ha. apply upd_other. intros ->. contradiction.
      * apply upd_other. intros H. apply EdF. symmetry. exact H.
  - (* other *)
    destruct (mem F outs) eqn:EF.
    + inversion HA; subst S1. apply Inv_nil.
    + destruct (existsb (fun x => mem x Sk) outs) eqn:EO; [discriminate|]. inversion HA; subst S1. clear HA.
      apply mem_false in EF.
      apply (Inv_ext F Sk e); [| |exact HI].
      * intros a Ha. apply Hfr. intros Hin.
        assert (existsb (fun x => mem x Sk) outs = true).
        { apply existsb_exists. exists a. split; [exact Hin | apply mem_In; exact Ha]. }
        congruence.
      * apply Hfr. exact EF.
Qed.

Lemma step_safe F i Sk S1 st : Inv F Sk st -> abs_step F i Sk = Some S1 -> safe_inst F i st.
Proof.
  intros HI HA. destruct i as [p sz | m pp | d src | outs]; cbn; try exact I. cbn in HA.
  destruct (split_at m Sk) as [[above below]|] eqn:ES; [|discriminate].
  destruct (list_eqb pp (above ++ [m]) && negb (mem m below)) eqn:EC; [|discriminate].
  apply andb_true_iff in EC as [EC _]. apply list_eqb_eq in EC. subst pp.
  apply split_at_spec in ES. subst Sk. destruct st as [e R]. destruct HI as [A B C D E]. cbn in *.
  split.
  - apply (sorted_In _ _ _ _ B). apply in_or_app. right. left. reflexivity.
  - intros r Hr Hlt. destruct (good_split _ _ _ _ _ _ E) as [G _].
    destruct (rtag r) as [q|] eqn:Et.
    + destruct (in_dec string_dec q (above ++ [m])) as [Hin|Hnin].
      * exists q. split; [reflexivity | exact Hin].
      * exfalso. assert (rend r <= e m); [|lia]. apply G; [exact Hr|].
        intros p Hp Hin. rewrite Et in Hp. inversion Hp; subst p. apply Hnin. rewrite app_nil_r in Hin.
        destruct Hin as [<-|Hin]; apply in_or_app; [right; left; reflexivity | left; apply in_rev; exact Hin].
    + exfalso. assert (rend r <= e m); [|lia]. apply G; [exact Hr|]. intros p Hp. rewrite Et in Hp. discriminate.
Qed.

(* ---------- whole function ---------- *)
Definition exits_ok (f : ffunc) (c : cert) (b : fblock) (Sx : list string) : Prop :=
  forall l, In l (fsuccs b) -> exists b' cl, find_block f l = Some b' /\ cert_get c l = Some cl /\ is_prefix cl Sx = true.

Lemma block_ok_spec F f c b Sk :
  block_ok F f c b = true -> cert_get c (flabel b) = Some Sk ->
  exists Sx, abs_run F (fbody b) Sk = Some Sx /\ exits_ok f c b Sx.
Proof.
  unfold block_ok. intros H HS. rewrite HS in H. destruct (abs_run F (fbody b) Sk) as [Sx|]; [|discriminate].
  exists Sx. split; [reflexivity|]. intros l Hl. rewrite forallb_forall in H. specialize (H l Hl).
  destruct (find_block f l) as [b'|]; [|discriminate]. destruct (cert_get c l) as [cl|]; [|discriminate].
  exists b', cl. auto.
Qed.

Lemma reach_inv F f c : fmp_check F f c = true ->
  forall b is st, reach F f b is st ->
  In b f /\ exists Sk Sx, Inv F Sk st /\ abs_run F is Sk = Some Sx /\ exits_ok f c b Sx.
Proof.
  intros HC. unfold fmp_check in HC. destruct f as [|e0 r0]; [discriminate|].
  destruct (cert_get c (flabel e0)) as [[|x xs]|] eqn:E0; try discriminate.
  rewrite forallb_forall in HC.
  intros b is st HR. induction HR as [b r e Hf | b i is st st' HR IH HX | b st l b' HR IH Hl Hfb].
  - inversion Hf; subst. split; [left; reflexivity|].
    destruct (block_ok_spec F _ c b [] (HC b (or_introl eq_refl)) E0) as [Sx [H1 H2]].
    exists [], Sx. split; [apply Inv_nil | split; assumption].
  - destruct IH as [Hb [Sk [Sx [HI [HA HE]]]]]. split; [exact Hb|]. cbn in HA.
    destruct (abs_step F i Sk) as [S1|] eqn:ES; [|discriminate].
    exists S1, Sx. split; [eapply step_pres; eassumption | split; assumption].
  - destruct IH as [Hb [Sk [Sx [HI [HA HE]]]]]. cbn in HA. inversion HA; subst Sx.
    destruct (HE l Hl) as [b2 [cl [Hf2 [Hc Hp]]]]. rewrite Hfb in Hf2. inversion Hf2; subst b2.
    destruct (find_block_label _ _ _ Hfb) as [Hlab Hin]. split; [exact Hin|].
    rewrite <- Hlab in Hc.
    destruct (block_ok_spec F _ c b' cl (HC b' Hin) Hc) as [Sx' [H1 H2]].
    exists cl, Sx'. split; [|split; assumption].
    destruct (is_prefix_app _ _ Hp) as [d Hd]. subst Sk. eapply Inv_prefix. exact HI.
Qed.

Theorem fmp_restore_sound_main F f c : fmp_check F f c = true ->
  forall b i is st, reach F f b (i :: is) st -> safe_inst F i st.
Proof.
  intros HC b i is st HR. destruct (reach_inv F f c HC _ _ _ HR) as [_ [Sk [Sx [HI [HA _]]]]].
  cbn in HA. destruct (abs_step F i Sk) as [S1|] eqn:ES; [|discriminate].
  eapply step_safe; eassumption.
Qed.
