(* Hand-bound mirror of the fields of vyper/venom/memory_location.py:MemoryLocation used by the
   aliasing tests (may_overlap / completely_contains are regenerated: GenMemLoc.v). *)
From Coq Require Import ZArith Bool List String.
From Verif Require Import Base.PyInt.
Open Scope Z_scope.

(* alloca identity: None = concrete (global) memory, Some i = inside the i-th (not yet placed) allocation *)
Record memloc : Set := { ml_offset : option Z; ml_size : option Z; ml_alloca : option Z }.

Definition opt_eqb (a b : option Z) : bool :=
  match a, b with
  | None, None => true
  | Some x, Some y => x =? y
  | _, _ => false
  end.
Definition ml_is_empty (l : memloc) : bool := match ml_size l with Some s => s =? 0 | None => false end.
Definition ml_is_offset_fixed (l : memloc) : bool := match ml_offset l with Some _ => true | None => false end.
Definition ml_is_size_fixed (l : memloc) : bool := match ml_size l with Some _ => true | None => false end.
Definition ml_is_concrete (l : memloc) : bool := match ml_alloca l with None => true | Some _ => false end.
Definition is_noneZ (o : option Z) : bool := match o with None => true | Some _ => false end.
Definition unoptZ (o : option Z) : res Z := match o with Some a => Ok a | None => Err TypeErr end.
