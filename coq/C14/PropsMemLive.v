(* C14 / PropsMemLive.v -- property theorems for the MemLivenessAnalysis / ConcretizeMemLocPass validator. *)
From Coq Require Import Arith ZArith List Bool String Lia.
From Verif Require Import C14.MemLive C14.MemLiveProofs.
Import ListNotations.

(* If the exported tables of MemLivenessAnalysis, its livesets and the addresses ConcretizeMemLocPass chose are accepted,
   then on every control-flow path, for every instruction semantics F (any function of the contents of the allocas an
   instruction reads, and of the old content of what it writes unless it overwrites the whole allocation -- a call-family
   instruction NEVER does), every run of the machine in which allocas share addresses (a write destroys whatever overlaps
   its target) shows exactly the observations of a run of the machine in which allocas are disjoint objects. *)
Theorem memlive_concretize_sound :
  forall (V : Type) (asz place : list Z) (tbl : list row) (ls : list (nat * list nat))
         (F : nat -> list V -> option V -> nat -> V),
    memlive_check asz place tbl ls = true ->
    forall p m o, path_ok tbl p -> crun V asz place tbl F p m o -> arun V asz tbl F p [] m o.
Proof. exact concretize_refines. Qed.
Print Assumptions memlive_concretize_sound.

Theorem call_family_never_kills : forall asz r, In (r_op r) ["call"; "staticcall"; "delegatecall"; "invoke"; "istore"]%string ->
  kill_of asz r = None.
Proof.
  intros asz r I. unfold kill_of. simpl in I.
  destruct I as [E|[E|[E|[E|[E|[]]]]]]; rewrite <- E; reflexivity.
Qed.
Print Assumptions call_family_never_kills.

(* ---------------------------------------------------------------- non-vacuity
   %out = alloca 32 (0), %tmp = alloca 64 (1), %args = alloca 32 (2)
   3: mstore %out, D   4: calldatacopy %tmp, 0, 64   5: sha3 %tmp, 64   6: sstore   7: gas
   8: staticcall g, 4, %args, 0, %out, 32   9: mload %out   10: sstore  11: sstore  12: stop *)
Definition rw (op : string) (s : list nat) (rd : list nat) (w : list (nat * option Z)) (n : option Z) (rf lv us : list nat) : row :=
  mkR op s rd w n rf lv us.
Definition ex_asz : list Z := [32; 64; 32]%Z.
Definition ex_tbl : list row :=
  [ rw "alloca" [1] [] [] None [] [2] [];  rw "alloca" [2] [] [] None [] [2] [];  rw "alloca" [3] [] [] None [] [2] [];
    rw "mstore" [4] [] [(0, Some 0%Z)] (Some 32%Z) [0] [0; 2] [0];
    rw "calldatacopy" [5] [] [(1, Some 0%Z)] (Some 64%Z) [1] [0; 2; 1] [0; 1];
    rw "sha3" [6] [1] [] None [1] [0; 2; 1] [0; 1];
    rw "sstore" [7] [] [] None [] [0; 2] [0; 1];  rw "gas" [8] [] [] None [] [0; 2] [0; 1];
    rw "staticcall" [9] [2] [(0, Some 0%Z)] (Some 32%Z) [0; 2] [0; 2] [0; 1; 2];
    rw "mload" [10] [0] [] None [0] [0] [0; 1; 2];
    rw "sstore" [11] [] [] None [] [] [0; 1; 2];  rw "sstore" [12] [] [] None [] [] [0; 1; 2];  rw "stop" [] [] [] None [] [] [0; 1; 2] ]%string.
Definition ex_ls : list (nat * list nat) := [(0, [3; 4; 5; 6; 7; 8; 9]); (1, [4; 5]); (2, [8])].
Definition ex_place : list Z := [64; 0; 0]%Z.     (* %tmp and %args share [0, 32) *)
Example ml_accepts : memlive_check ex_asz ex_place ex_tbl ex_ls = true.
Proof. vm_compute. reflexivity. Qed.

(* the same function analysed with the output buffer of the staticcall taken for a must-write: %out is not live between
   its default store and the call, and lands on %tmp *)
Definition bad_tbl : list row :=
  [ rw "alloca" [1] [] [] None [] [2] [];  rw "alloca" [2] [] [] None [] [2] [];  rw "alloca" [3] [] [] None [] [2] [];
    rw "mstore" [4] [] [(0, Some 0%Z)] (Some 32%Z) [0] [2] [0];
    rw "calldatacopy" [5] [] [(1, Some 0%Z)] (Some 64%Z) [1] [2; 1] [0; 1];
    rw "sha3" [6] [1] [] None [1] [2; 1] [0; 1];
    rw "sstore" [7] [] [] None [] [2] [0; 1];  rw "gas" [8] [] [] None [] [2] [0; 1];
    rw "staticcall" [9] [2] [(0, Some 0%Z)] (Some 32%Z) [0; 2] [0; 2] [0; 1; 2];
    rw "mload" [10] [0] [] None [0] [0] [0; 1; 2];
    rw "sstore" [11] [] [] None [] [] [0; 1; 2];  rw "sstore" [12] [] [] None [] [] [0; 1; 2];  rw "stop" [] [] [] None [] [] [0; 1; 2] ]%string.
Definition bad_ls : list (nat * list nat) := [(0, [3; 8; 9]); (1, [4; 5]); (2, [8])].
Definition bad_place : list Z := [0; 0; 64]%Z.
Example ml_rejects_call_as_must_write : memlive_check ex_asz bad_place bad_tbl bad_ls = false.
Proof. vm_compute. reflexivity. Qed.
(* ... although the placement is consistent with those livesets: what is wrong is the table *)
Example ml_rejects_call_table : table_check ex_asz bad_tbl = false /\ place_check ex_asz bad_place bad_ls = true.
Proof. vm_compute. auto. Qed.
(* had the staticcall been an mstore (a must-write of the whole allocation), the same tables would be fine *)
Definition swap_op (r : row) : row :=
  if String.eqb (r_op r) "staticcall" then mkR "mstore" (r_succ r) (r_reads r) (r_wcands r) (r_wsize r) (r_refs r) (r_liveat r) (r_used r) else r.
Example ml_accepts_must_write : memlive_check ex_asz bad_place (map swap_op bad_tbl) bad_ls = true.
Proof. vm_compute. reflexivity. Qed.
(* overlapping two allocas whose livesets intersect is rejected *)
Example ml_rejects_overlap : memlive_check ex_asz [0; 16; 96]%Z ex_tbl ex_ls = false.
Proof. vm_compute. reflexivity. Qed.

(* the hypotheses of the theorem are satisfiable: a concrete run along the whole function exists *)
Example ml_nonvacuous :
  let F := fun (i : nat) (v : list nat) (o : option nat) (a : nat) => (i + fold_right plus 0 v + match o with Some x => x | None => 0 end)%nat in
  exists o, path_ok ex_tbl (seq 0 13) /\ crun nat ex_asz ex_place ex_tbl F (seq 0 13) (fun _ => 7%nat) o.
Proof.
  intros F.
  assert (St : forall i m, cstep nat ex_asz ex_place ex_tbl F i m (exec nat ex_asz ex_tbl F i m)).
  { intros i m a. destruct (memb a (r_writes (rowat ex_tbl i))) eqn:E.
    - reflexivity.
    - left. unfold exec. rewrite E. reflexivity. }
  eexists. split.
  - simpl. repeat split; auto.
  - simpl. repeat (eapply cr_cons; [apply St|]). apply cr_nil.
Qed.
