(* Hand-bound mirror of vyper/venom/analysis/variable_range/value_range.py (the ADT and its
   accessors).  Tied to the source by the exact-output differential in tools/checks/c14.py.
   The evaluators that use it are regenerated from evaluators.py (GenRange.v). *)
From Coq Require Import ZArith Bool List String.
From Verif Require Import Base.PyInt.
Open Scope Z_scope.

Inductive vrange : Set := TOP | BOT | IV (lo hi : Z).

Definition SIGNED_MIN : Z := - 2 ^ 255.
Definition SIGNED_MAX : Z := 2 ^ 255 - 1.
Definition UNSIGNED_MAX : Z := 2 ^ 256 - 1.

(* .lo / .hi : TOP gives the extreme bounds, BOT raises (assert) *)
Definition vr_lo (r : vrange) : res Z :=
  match r with TOP => Ok SIGNED_MIN | BOT => Err AssertFail | IV lo _ => Ok lo end.
Definition vr_hi (r : vrange) : res Z :=
  match r with TOP => Ok UNSIGNED_MAX | BOT => Err AssertFail | IV _ hi => Ok hi end.
Definition vr_is_top (r : vrange) : bool := match r with TOP => true | _ => false end.
Definition vr_is_empty (r : vrange) : bool := match r with BOT => true | _ => false end.
Definition vr_is_constant (r : vrange) : bool :=
  match r with IV lo hi => lo =? hi | _ => false end.
Definition vr_as_constant (r : vrange) : option Z :=
  match r with IV lo hi => if lo =? hi then Some lo else None | _ => None end.
(* smart constructor: lo > hi normalises to BOT *)
Definition vr_iv (lo hi : Z) : vrange := if lo >? hi then BOT else IV lo hi.
Definition vr_constant (v : Z) : vrange := IV v v.
Definition vr_bool : vrange := IV 0 1.
Definition vr_bytes1 : vrange := IV 0 255.

(* clamp(lo, hi) with both bounds given, and clamp(None, hi) *)
Definition vr_clamp2 (r : vrange) (lo hi : Z) : vrange :=
  match r with
  | TOP => vr_iv (Z.max SIGNED_MIN lo) (Z.min UNSIGNED_MAX hi)
  | BOT => BOT
  | IV l h => vr_iv (Z.max l lo) (Z.min h hi)
  end.
Definition vr_clamp_hi (r : vrange) (hi : Z) : vrange :=
  match r with
  | TOP => vr_iv SIGNED_MIN (Z.min UNSIGNED_MAX hi)
  | BOT => BOT
  | IV l h => vr_iv l (Z.min h hi)
  end.
Definition vr_intersect (a b : vrange) : vrange :=
  match a, b with
  | TOP, _ => b
  | _, TOP => a
  | BOT, _ => BOT
  | _, BOT => BOT
  | IV l1 h1, IV l2 h2 => vr_iv (Z.max l1 l2) (Z.min h1 h2)
  end.

Definition unopt {A} (o : option A) : res A := match o with Some a => Ok a | None => Err TypeErr end.
Definition is_none {A} (o : option A) : bool := match o with None => true | Some _ => false end.
