(* Invariant of Venom.v executions: every value bound to a variable or held in the store is an EVM word or poison
   (negative); memory and return data hold bytes or poison.  Stated with upper bounds only (v < W, b < 256). *)
From Coq Require Import ZArith NArith PArith Bool List Lia FMapPositive.
From Verif Require Import Base.Word256 Base.WordLemmas C14.RangeBase.
From Verif Require Import C14.RangeSound C14.RangeLemmas2 C14.WordClosed.
From Verif Require C14.Venom.
Import ListNotations.
Module V := Venom.
Open Scope Z_scope.

Definition bm_lt (B : Z) (m : V.bmap) : Prop := forall k v, PositiveMap.find k m = Some v -> v < B.
Definition all_lt (B : Z) (l : list Z) : Prop := Forall (fun v => v < B) l.

Record store_ok (s : V.store) : Prop := mk_store_ok {
  so_sto : bm_lt W (V.s_sto s); so_tra : bm_lt W (V.s_tra s); so_mem : bm_lt 256 (V.s_mem s);
  so_rd : all_lt 256 (V.s_rd s); so_rdlen : Z.of_nat (length (V.s_rd s)) < W; so_fmp : V.s_fmp s < W }.

Record env_ok (E : V.env) : Prop := mk_env_ok {
  eo_cd : all_lt 256 (V.e_calldata E); eo_cdlen : Z.of_nat (length (V.e_calldata E)) < W;
  eo_words : all_lt W (V.e_words E); eo_hash : Forall (fun kv : list Z * Z => snd kv < W) (V.e_hash E);
  eo_code : Forall (fun seg : Z * list Z => all_lt 256 (snd seg)) (V.e_code E) }.

(* the external world returns words and leaves a word store *)
Definition oracle_ok (X : V.oracle) : Prop :=
  forall o a s v s', store_ok s -> X o a s = Some (v, s') -> v < W /\ store_ok s'.

Definition vs_ok (vs : V.vmap) : Prop := forall x v, PositiveMap.find x vs = Some v -> v < W.

Lemma bm_empty B : bm_lt B V.bempty.
Proof. intros k v H. unfold V.bempty in H. rewrite PositiveMap.gempty in H. discriminate. Qed.

Lemma bm_zset B m k v : bm_lt B m -> v < B -> bm_lt B (V.zset m k v).
Proof.
  intros Hm Hv j u H. unfold V.zset in H. destruct (Pos.eq_dec j (V.kpos k)) as [->|N].
  - rewrite PositiveMap.gss in H. injection H as <-. exact Hv.
  - rewrite PositiveMap.gso in H by exact N. eapply Hm. exact H.
Qed.

Lemma zget_lt m k : bm_lt W m -> V.zget m k < W.
Proof. intros Hm. unfold V.zget. destruct (PositiveMap.find (V.kpos k) m) eqn:E; [eapply Hm; exact E | reflexivity]. Qed.

Lemma mget_lt m a : bm_lt 256 m -> V.mget m a < 256.
Proof.
  intros Hm. unfold V.mget. destruct (PositiveMap.find (V.kpos a) m) eqn:E; [eapply Hm; exact E|].
  destruct (V.ALLOCA_BASE <=? a); unfold V.POISON; lia.
Qed.

Lemma mread_lt m : bm_lt 256 m -> forall n a, all_lt 256 (V.mread m a n).
Proof. intros Hm. induction n; intros a; cbn; constructor; [apply mget_lt; exact Hm | apply IHn]. Qed.
Lemma mread_len m n : forall a, length (V.mread m a n) = n.
Proof. induction n; intros a; cbn; [reflexivity | f_equal; apply IHn]. Qed.

Lemma mwrite_lt bs : forall m a, bm_lt 256 m -> all_lt 256 bs -> bm_lt 256 (V.mwrite m a bs).
Proof.
  induction bs as [|b t IH]; intros m a Hm Hb; cbn; [exact Hm|]. inversion Hb; subst.
  apply IH; [apply bm_zset; assumption | assumption].
Qed.

Lemma take_pad_lt n : forall l, all_lt 256 l -> all_lt 256 (V.take_pad n l).
Proof.
  induction n; intros l H; cbn; [constructor|]. destruct l as [|x t].
  - constructor; [lia | apply IHn; constructor].
  - inversion H; subst. constructor; [assumption | apply IHn; assumption].
Qed.
Lemma take_pad_len n : forall l, length (V.take_pad n l) = n.
Proof. induction n; intros l; cbn; [reflexivity|]. destruct l; cbn; f_equal; apply IHn. Qed.
Lemma skipn_lt {B} n : forall l, all_lt B l -> all_lt B (skipn n l).
Proof. induction n; intros l H; cbn; [exact H|]. destruct l; [constructor|]. inversion H; subst. apply IHn. assumption. Qed.
Lemma slice_pad_lt l off n : all_lt 256 l -> all_lt 256 (V.slice_pad l off n).
Proof.
  intros H. unfold V.slice_pad. destruct (off <? Z.of_nat (length l)); apply take_pad_lt; [apply skipn_lt; exact H | constructor].
Qed.
Lemma slice_pad_len l off n : length (V.slice_pad l off n) = n.
Proof. unfold V.slice_pad. destruct (off <? Z.of_nat (length l)); apply take_pad_len. Qed.

Lemma code_read_lt segs src n : Forall (fun seg : Z * list Z => all_lt 256 (snd seg)) segs -> all_lt 256 (V.code_read segs src n).
Proof.
  induction 1 as [|[base bs] r H _ IH]; cbn; [apply take_pad_lt; constructor|].
  destruct ((base <=? src) && (src <? base + Z.of_nat (length bs))); [apply slice_pad_lt; exact H | exact IH].
Qed.

Lemma w2b_aux_lt n : forall w acc, all_lt 256 acc -> all_lt 256 (V.word_to_bytes_aux n w acc).
Proof.
  induction n; intros w acc H; cbn; [exact H|]. apply IHn. constructor; [|exact H].
  pose proof (Z.mod_pos_bound w 256 ltac:(lia)). lia.
Qed.
Lemma word_to_bytes_lt w : all_lt 256 (V.word_to_bytes w).
Proof.
  unfold V.word_to_bytes. destruct (w <? 0); [|apply w2b_aux_lt; constructor].
  unfold V.POISON. repeat constructor.
Qed.

Lemma has_poison_false l : V.has_poison l = false -> Forall (fun x => 0 <= x) l.
Proof.
  induction l as [|x t IH]; cbn; [constructor|]. intros H. apply orb_false_iff in H as [H1 H2].
  constructor; [apply Z.ltb_ge in H1; exact H1 | apply IH; exact H2].
Qed.

Lemma fold_bytes_lt bs : forall acc n, Forall (fun x => 0 <= x) bs -> all_lt 256 bs -> 0 <= acc < 256 ^ n -> 0 <= n ->
  0 <= fold_left (fun a b => a * 256 + b) bs acc < 256 ^ (n + Z.of_nat (length bs)).
Proof.
  induction bs as [|b t IH]; intros acc n H0 H1 Ha Hn; cbn [fold_left length].
  - rewrite Z.add_0_r. exact Ha.
  - inversion H0; subst. inversion H1; subst.
    replace (n + Z.of_nat (S (length t))) with ((n + 1) + Z.of_nat (length t)) by lia.
    apply IH; try assumption; [|lia]. rewrite Z.pow_add_r by lia. change (256 ^ 1) with 256. nia.
Qed.

Lemma bytes_to_word_lt bs : all_lt 256 bs -> length bs = 32%nat -> V.bytes_to_word bs < W.
Proof.
  intros H L. unfold V.bytes_to_word. destruct (V.has_poison bs) eqn:P; [unfold V.POISON; pose proof W_val; lia|].
  pose proof (fold_bytes_lt bs 0 0 (has_poison_false _ P) H ltac:(cbn; lia) ltac:(lia)) as B.
  rewrite L in B. change (256 ^ (0 + Z.of_nat 32)) with W in B. lia.
Qed.

Lemma hash_lookup_lt t d h : Forall (fun kv : list Z * Z => snd kv < W) t -> V.hash_lookup t d = Some h -> h < W.
Proof.
  induction 1 as [|[k v] r H _ IH]; cbn; [discriminate|].
  destruct (V.list_eqb k d); [intros E; injection E as <-; exact H | exact IH].
Qed.

Lemma nth_error_lt {B} l k v : all_lt B l -> nth_error l k = Some v -> v < B.
Proof. intros H E. apply nth_error_In in E. unfold all_lt in H. rewrite Forall_forall in H. apply H. exact E. Qed.

(* store_ok is fieldwise, so mask / merge preserve it *)
Lemma mask_ok cs s : store_ok s -> store_ok (V.mask cs s).
Proof.
  intros [H1 H2 H3 H4 H5 H6]. unfold V.mask, V.sel.
  constructor; cbn;
    match goal with |- context [if ?c then _ else _] => destruct c end;
    try assumption; try apply bm_empty; try constructor; try reflexivity.
Qed.
Lemma merge_ok cs a b : store_ok a -> store_ok b -> store_ok (V.merge cs a b).
Proof.
  intros [H1 H2 H3 H4 H5 H6] [G1 G2 G3 G4 G5 G6]. unfold V.merge, V.sel.
  constructor; cbn.
  - destruct (V.inb V.STORAGE cs); assumption.
  - destruct (V.inb V.TRANSIENT cs); assumption.
  - destruct (V.inb V.MEMORY cs); assumption.
  - destruct (V.inb V.RETURNDATA cs); assumption.
  - destruct (V.inb V.RETURNDATA cs); assumption.
  - destruct (V.inb V.FMP cs); assumption.
Qed.

(* ------------------------------------------------------------------ pure instructions *)
Lemma arith0_word o a v : Forall word a -> V.arith0 o a = Some v ->
  word v \/ ((o = V.O_assign \/ o = V.O_alloca) /\ a = [v]).
Proof.
  intros Ha H.
  destruct o; cbn [V.arith0] in H; try discriminate;
    destruct a as [|x [|y [|z [|? ?]]]]; try discriminate; injection H as <-;
    repeat match goal with H : Forall _ (_ :: _) |- _ => inversion H; clear H; subst end;
    try (right; split; [auto | reflexivity]); left.
  - apply add_closed; assumption.
  - apply sub_closed; assumption.
  - apply mul_closed; assumption.
  - apply div_closed; assumption.
  - apply sdiv_closed; assumption.
  - apply mod_closed; assumption.
  - apply smod_closed; assumption.
  - apply exp_closed; assumption.
  - apply addmod_closed; assumption.
  - apply mulmod_closed; assumption.
  - apply lt_closed; assumption.
  - apply gt_closed; assumption.
  - apply slt_closed; assumption.
  - apply sgt_closed; assumption.
  - apply eq_closed; assumption.
  - apply iszero_closed.
  - apply and_closed; assumption.
  - apply or_closed; assumption.
  - apply xor_closed; assumption.
  - apply not_closed; assumption.
  - apply byte_closed; assumption.
  - apply shl_closed; assumption.
  - apply shr_closed; assumption.
  - apply sar_closed; assumption.
  - apply signextend_closed; assumption.
Qed.

Lemma words_of a : all_lt W a -> V.has_poison a = false -> Forall word a.
Proof.
  intros H P. apply has_poison_false in P. unfold all_lt in H. rewrite Forall_forall in *.
  intros x Hx. split; [apply P | apply H]; exact Hx.
Qed.

Lemma arith_lt o a v : all_lt W a -> V.arith o a = Some v -> v < W.
Proof.
  intros Ha H.
  assert (C : ((o = V.O_assign \/ o = V.O_alloca) /\ V.arith o a = V.arith0 o a) \/
              V.arith o a = match V.arith0 o a with Some v => Some (if V.has_poison a then V.POISON else v) | None => None end)
    by (destruct o; auto).
  destruct C as [[Ho C]|C]; rewrite C in H.
  - destruct Ho; subst o; cbn [V.arith0] in H; destruct a as [|x [|? ?]]; try discriminate; injection H as <-; inversion Ha; assumption.
  - destruct (V.arith0 o a) as [u|] eqn:E; [|discriminate]. injection H as <-.
    destruct (V.has_poison a) eqn:P; [unfold V.POISON; pose proof W_val; lia|].
    destruct (arith0_word o a u (words_of a Ha P) E) as [[_ ?]|[_ ->]]; [assumption | inversion Ha; assumption].
Qed.

(* ------------------------------------------------------------------ all simple instructions *)
Lemma set_mem_ok s m : store_ok s -> bm_lt 256 m -> store_ok (V.set_mem s m).
Proof. intros [H1 H2 H3 H4 H5 H6] Hm. constructor; cbn; assumption. Qed.
Lemma set_sto_ok s m : store_ok s -> bm_lt W m -> store_ok (V.set_sto s m).
Proof. intros [H1 H2 H3 H4 H5 H6] Hm. constructor; cbn; assumption. Qed.
Lemma set_tra_ok s m : store_ok s -> bm_lt W m -> store_ok (V.set_tra s m).
Proof. intros [H1 H2 H3 H4 H5 H6] Hm. constructor; cbn; assumption. Qed.
Lemma set_fmp_ok s v : store_ok s -> v < W -> store_ok (V.set_fmp s v).
Proof. intros [H1 H2 H3 H4 H5 H6] Hm. constructor; cbn; assumption. Qed.
Lemma set_log_ok s l : store_ok s -> store_ok (V.set_log s l).
Proof. intros [H1 H2 H3 H4 H5 H6]. constructor; cbn; assumption. Qed.

Ltac brk H :=
  repeat (lazymatch type of H with
          | context [match ?x with _ => _ end] =>
              first [ is_var x; destruct x | let E := fresh "E" in destruct x eqn:E ]
          end; try discriminate H).

Lemma Ok_inj {A} (x y : A) : V.Ok x = V.Ok y -> x = y.
Proof. intros H. injection H as H. exact H. Qed.

Lemma w_add_lt a b : w_add a b < W.
Proof. pose proof (modW_word (a + b)) as H. unfold w_add, word in *. lia. Qed.

Create HintDb vw.
#[local] Hint Resolve set_mem_ok set_sto_ok set_tra_ok set_fmp_ok set_log_ok mwrite_lt bm_zset slice_pad_lt
  word_to_bytes_lt mread_lt code_read_lt zget_lt w_add_lt so_sto so_tra so_mem so_rd so_rdlen so_fmp
  eo_cd eo_cdlen eo_words eo_hash eo_code : vw.
#[local] Hint Extern 1 (V.bytes_to_word (V.slice_pad _ _ _) < W) =>
  apply bytes_to_word_lt; [apply slice_pad_lt | apply slice_pad_len] : vw.
#[local] Hint Extern 1 (V.bytes_to_word (V.mread _ _ _) < W) =>
  apply bytes_to_word_lt; [apply mread_lt | apply mread_len] : vw.
#[local] Hint Extern 1 (all_lt _ _) => constructor : vw.
#[local] Hint Extern 1 (Forall _ _) => constructor : vw.

Lemma eff_sem_ok E X o a s outs s' : env_ok E -> oracle_ok X -> store_ok s -> all_lt W a ->
  V.eff_sem E X o a s = V.Ok (outs, s') -> all_lt W outs /\ store_ok s'.
Proof.
  intros HE HX Hs Ha H. unfold V.eff_sem in H.
  destruct o; cbv beta iota in H.
  all: timeout 60 (brk H).
  all: apply Ok_inj in H; apply pair_equal_spec in H as [<- <-].
  all: try (split; [repeat constructor; eapply arith_lt; eassumption | assumption]).
  all: unfold all_lt in Ha; repeat match goal with H : Forall _ (_ :: _) |- _ => inversion H; clear H; subst end.
  all: try match goal with E : _ _ _ _ = Some (_, _) |- _ => destruct (HX _ _ _ _ _ Hs E) end.
  all: try match goal with E : nth_error _ _ = Some _ |- _ => pose proof (nth_error_lt _ _ _ (eo_words _ HE) E) end.
  all: try match goal with E : V.hash_lookup _ _ = Some _ |- _ => pose proof (hash_lookup_lt _ _ _ (eo_hash _ HE) E) end.
  all: split; eauto 8 with vw.
Qed.

Lemma wrapped_ok E X o a s outs s' : env_ok E -> oracle_ok X -> store_ok s -> all_lt W a ->
  V.wrapped E X o a s = V.Ok (outs, s') -> all_lt W outs /\ store_ok s'.
Proof.
  intros HE HX Hs Ha H. unfold V.wrapped in H.
  destruct (V.eff_sem E X o a (V.mask (V.sem_reads o ++ V.sem_writes o) s)) as [[ov sv]|] eqn:Ev; [|discriminate].
  apply Ok_inj in H. apply pair_equal_spec in H as [<- <-].
  destruct (eff_sem_ok _ _ _ _ _ _ _ HE HX (mask_ok _ _ Hs) Ha Ev) as [A B].
  split; [exact A | apply merge_ok; assumption].
Qed.

(* ------------------------------------------------------------------ instructions *)
Definition op_lit_ok (o : V.operand) : bool := match o with V.OLit z => (0 <=? z) && (z <? W) | _ => true end.
Definition inst_lit_ok (i : V.inst) : bool := forallb op_lit_ok (V.i_args i).

Lemma eval_op_lt vs o v : vs_ok vs -> op_lit_ok o = true -> V.eval_op vs o = Some v -> v < W.
Proof.
  intros Hv Hl H. destruct o as [z|x|l]; cbn in *.
  - injection H as <-. apply andb_prop in Hl as [_ Hl]. apply Z.ltb_lt in Hl. exact Hl.
  - eapply Hv. exact H.
  - discriminate.
Qed.

Lemma eval_ops_lt vs l : forall argv, vs_ok vs -> forallb op_lit_ok l = true -> V.eval_ops vs l = Some argv -> all_lt W argv.
Proof.
  induction l as [|o t IH]; intros argv Hv Hl H; cbn in *.
  - injection H as <-. constructor.
  - apply andb_prop in Hl as [Hl1 Hl2].
    destruct (V.eval_op vs o) as [v|] eqn:Eo; [|discriminate].
    destruct (V.eval_ops vs t) as [r|] eqn:Er; [|discriminate]. injection H as <-.
    constructor; [eapply eval_op_lt; eassumption | apply IH; auto].
Qed.

Lemma vs_ok_add vs o v : vs_ok vs -> v < W -> vs_ok (PositiveMap.add o v vs).
Proof.
  intros Hv Hw x u H. destruct (Pos.eq_dec x o) as [->|N].
  - rewrite PositiveMap.gss in H. injection H as <-. exact Hw.
  - rewrite PositiveMap.gso in H by exact N. eapply Hv. exact H.
Qed.

Lemma bind_outs_ok outs : forall vs vals vs', vs_ok vs -> all_lt W vals -> V.bind_outs vs outs vals = Some vs' -> vs_ok vs'.
Proof.
  induction outs as [|o t IH]; intros vs vals vs' Hv Hl H; destruct vals as [|v r]; cbn in H; try discriminate.
  - injection H as <-. exact Hv.
  - inversion Hl; subst. eapply IH; [| |exact H]; [apply vs_ok_add; assumption | assumption].
Qed.

Section Exec.
Variables (E : V.env) (X : V.oracle).
Hypotheses (HE : env_ok E) (HX : oracle_ok X).

Lemma exec_simple_ok i vs st vs' st' : vs_ok vs -> store_ok st -> inst_lit_ok i = true ->
  V.exec_simple E X i vs st = V.Ok (vs', st') -> vs_ok vs' /\ store_ok st'.
Proof.
  intros Hv Hs Hl H. unfold V.exec_simple in H.
  destruct (V.eval_ops vs (V.i_args i)) as [argv|] eqn:Ea; [|discriminate].
  destruct (V.wrapped E X (V.i_op i) argv st) as [[ovals st1]|] eqn:Ew; [|discriminate].
  destruct (V.bind_outs vs (V.i_outs i) ovals) as [vs1|] eqn:Eb; [|discriminate].
  apply Ok_inj in H. apply pair_equal_spec in H as [<- <-].
  destruct (wrapped_ok _ _ _ _ _ _ _ HE HX Hs (eval_ops_lt _ _ _ Hv Hl Ea) Ew) as [A B].
  split; [eapply bind_outs_ok; eassumption | exact B].
Qed.

Lemma exec_inst_next i vs st vs' st' : vs_ok vs -> store_ok st -> inst_lit_ok i = true ->
  V.exec_inst E X i vs st = V.SNext vs' st' -> vs_ok vs' /\ store_ok st'.
Proof.
  intros Hv Hs Hl H. unfold V.exec_inst in H.
  destruct (V.i_op i) eqn:Eo;
    try (destruct (V.exec_simple E X i vs st) as [[v1 s1]|] eqn:Es; [|discriminate];
         injection H as <- <-; eapply exec_simple_ok; eassumption);
    brk H; try discriminate H; try (injection H as <- <-; split; assumption);
    unfold V.halt_data in H; brk H; discriminate H.
Qed.

Lemma exec_inst_jump i vs st l vs' st' : V.exec_inst E X i vs st = V.SJump l vs' st' -> vs' = vs /\ st' = st.
Proof.
  intros H. unfold V.exec_inst in H.
  destruct (V.i_op i) eqn:Eo;
    try (destruct (V.exec_simple E X i vs st) as [[v1 s1]|]; discriminate);
    brk H; try discriminate H; try (injection H as _ <- <-; split; reflexivity);
    unfold V.halt_data in H; brk H; discriminate H.
Qed.
End Exec.

Lemma phi_pick_In prev : forall n l a, (length l <= n)%nat -> V.phi_pick prev l = Some a -> In a l.
Proof.
  induction n; intros l a Hn H.
  - destruct l; [discriminate | cbn in Hn; lia].
  - destruct l as [|[z|x|lb] [|v t]]; cbn in H; try discriminate.
    destruct (Pos.eqb lb prev).
    + injection H as <-. right. left. reflexivity.
    + right. right. apply IHn; [cbn in Hn; lia | exact H].
Qed.

Lemma exec_phis_ok prev : forall l old vs vs1 rest, vs_ok old -> vs_ok vs -> forallb inst_lit_ok l = true ->
  V.exec_phis prev l old vs = Some (vs1, rest) -> vs_ok vs1.
Proof.
  induction l as [|i t IH]; intros old vs vs1 rest Ho Hv Hl H; cbn [V.exec_phis] in H.
  - injection H as <- _. exact Hv.
  - cbn [forallb] in Hl. apply andb_prop in Hl as [Hl1 Hl2].
    destruct (V.i_op i) eqn:Eo; try (injection H as <- _; exact Hv).
    destruct (V.i_outs i) as [|o [|? ?]]; try discriminate.
    destruct (V.phi_pick prev (V.i_args i)) as [a|] eqn:Ep; [|discriminate].
    destruct (V.eval_op old a) as [v|] eqn:Ev; [|discriminate].
    eapply IH; [exact Ho | | exact Hl2 | exact H]. apply vs_ok_add; [exact Hv|].
    eapply eval_op_lt; [exact Ho | | exact Ev].
    unfold inst_lit_ok in Hl1. rewrite forallb_forall in Hl1. apply Hl1.
    eapply phi_pick_In; [apply Nat.le_refl | exact Ep].
Qed.
