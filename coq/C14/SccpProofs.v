(* Proofs for the SCCP validator Sccp.v *)
From Coq Require Import ZArith NArith PArith Bool List String Lia FSetPositive.
From Verif Require Import Base.Word256 Base.PyInt C14.RangeBase C14.RangeFix C14.Sccp.
Import ListNotations.
Open Scope string_scope.
Open Scope Z_scope.

(* ------------------------------------------------------------------ sets *)
Lemma pv_inj x y : pv x = pv y -> x = y.
Proof. unfold pv. intros H. rewrite <- (N.pos_pred_succ x), <- (N.pos_pred_succ y), H. reflexivity. Qed.

Lemma smem_add x y s : smem x (PositiveSet.add (pv y) s) = true <-> x = y \/ smem x s = true.
Proof.
  unfold smem. pose proof (PositiveSet.add_spec (pv y) (pv x) s) as H. unfold PositiveSet.In in H.
  rewrite H. split; intros [A|A]; auto; [left; symmetry; apply pv_inj; exact A | left; subst; reflexivity].
Qed.

Lemma smem_add_all l : forall s x, smem x (sadd_all l s) = true <-> In x l \/ smem x s = true.
Proof.
  induction l as [|y t IH]; intros s x; cbn [sadd_all fold_left In]; [tauto|].
  fold (sadd_all t (PositiveSet.add (pv y) s)). rewrite IH, smem_add. intuition (subst; auto).
Qed.

Lemma smem_empty x : smem x PositiveSet.empty = false.
Proof. unfold smem. destruct (pv x); reflexivity. Qed.

Lemma subset_smem s s' x : PositiveSet.subset s s' = true -> smem x s = true -> smem x s' = true.
Proof. intros H. apply PositiveSet.subset_spec in H. apply (H (pv x)). Qed.

(* definedness state after a list of instructions *)
Definition dst (s : pset) (l : list inst) : pset := fold_left (fun s i => sadd_all (i_outs i) s) l s.

Lemma dst_app s l1 l2 : dst s (l1 ++ l2) = dst (dst s l1) l2.
Proof. unfold dst. apply fold_left_app. Qed.

Lemma smem_dst l : forall s x, smem x (dst s l) = true <-> smem x s = true \/ exists i, In i l /\ In x (i_outs i).
Proof.
  induction l as [|i t IH]; intros s x; cbn [dst fold_left].
  - split; [auto | intros [H|[i [[] _]]]; exact H].
  - fold (dst (sadd_all (i_outs i) s) t). rewrite IH, smem_add_all. split.
    + intros [[H|H]|[j [A B]]]; [right; exists i; split; [left; reflexivity | exact H] | left; exact H | right; exists j; split; [right; exact A | exact B]].
    + intros [H|[j [[<-|A] B]]]; [left; right; exact H | left; left; exact B | right; exists j; auto].
Qed.

Lemma def_run_dst l : forall s X, def_run s l = Some X -> X = dst s l.
Proof.
  induction l as [|i t IH]; intros s X H; cbn [def_run dst fold_left] in *; [injection H as <-; reflexivity|].
  destruct (forallb (fun x => smem x s) (vars_of (i_args i))); [|discriminate]. apply IH. exact H.
Qed.

Lemma def_run_nth l : forall s X k ins, def_run s l = Some X -> nth_error l k = Some ins ->
  forall x, In x (vars_of (i_args ins)) -> smem x (dst s (firstn k l)) = true.
Proof.
  induction l as [|i t IH]; intros s X k ins H Hn x Hx; [destruct k; discriminate|].
  cbn [def_run] in H. destruct (forallb (fun x => smem x s) (vars_of (i_args i))) eqn:E; [|discriminate].
  destruct k; cbn [nth_error firstn dst fold_left] in *.
  - injection Hn as <-. rewrite forallb_forall in E. apply E. exact Hx.
  - fold (dst (sadd_all (i_outs i) s) (firstn k t)). eapply IH; eassumption.
Qed.

Lemma firstn_snoc {A} (l : list A) k x : nth_error l k = Some x -> firstn (Datatypes.S k) l = (firstn k l ++ [x])%list.
Proof.
  revert k. induction l as [|y t IH]; intros k H; [destruct k; discriminate|].
  destruct k; cbn in *; [injection H as ->; reflexivity|]. f_equal. apply IH. exact H.
Qed.

Lemma dst_mono s l k x : smem x (dst s (firstn k l)) = true -> smem x (dst s l) = true.
Proof.
  rewrite !smem_dst. intros [H|[i [A B]]]; [left; exact H | right; exists i; split; [|exact B]].
  rewrite <- (firstn_skipn k l). apply in_or_app. left. exact A.
Qed.

(* ------------------------------------------------------------------ abstract values *)
Section Lat.
Variable L : lmap.
Variable lv : N -> Z.

(* the operands' variables are assigned and agree with the lattice *)
Definition ops_agree (c : cenv) (args : list operand) : Prop := forall y, In y (vars_of args) -> agrees L c y.

(* exact (operands) and modulo 2^256 (computed results) *)
Definition holdsx (r : lval) (z : Z) : Prop := match r with LTop => False | LConst v => z = v mod W | LBot => True end.
Definition holds (r : lval) (z : Z) : Prop := match r with LTop => False | LConst v => z mod W = v mod W | LBot => True end.

Lemma holdsx_holds r z : holdsx r z -> holds r z.
Proof. destruct r; cbn; auto. intros ->. apply Z.mod_mod. discriminate. Qed.

Lemma ops_agree_in c args a : ops_agree c args -> In a args -> ops_agree c [a].
Proof.
  intros H Ha y Hy. apply H. unfold vars_of in *. apply in_flat_map. exists a. split; [exact Ha|].
  cbn in Hy. rewrite app_nil_r in Hy. exact Hy.
Qed.

Lemma aval_holds c a : ops_agree c [a] -> holdsx (aval L a) (oval lv c a).
Proof.
  intros H. destruct a as [v|x|l]; cbn [aval oval holdsx]; [reflexivity | | exact I].
  specialize (H x (or_introl eq_refl)). unfold agrees in H. destruct (L x); cbn [holdsx]; auto.
Qed.

Lemma no_top_arg c args : ops_agree c args -> existsb (fun a => is_top (aval L a)) args = false.
Proof.
  intros H. destruct (existsb _ args) eqn:E; [|reflexivity]. exfalso.
  apply existsb_exists in E as [a [Ha Ta]]. pose proof (aval_holds c a (ops_agree_in _ _ _ H Ha)) as Hh.
  destruct (aval L a); try discriminate. exact Hh.
Qed.

(* the abstract transfer is sound w.r.t. RangeFix.sem_fun, and defined exactly when sem_fun is *)
Lemma atrans_sound c ins : ops_agree c (i_args ins) ->
  match atrans L ins, sem_fun lv ins with
  | Some r, Some g => holds r (g c)
  | None, None => True
  | _, _ => False
  end.
Proof.
  intros H. unfold atrans, sem_fun.
  destruct (has_label (i_args ins)); [exact I|].
  destruct (i_outs ins) as [|o [|? ?]]; try exact I.
  destruct (String.eqb (i_op ins) "assign").
  - destruct (i_args ins) as [|a [|? ?]]; try exact I. apply holdsx_holds, aval_holds.
    eapply ops_agree_in; [exact H | left; reflexivity].
  - destruct (word_op (i_op ins)) as [w|]; [|exact I].
    destruct (is_unary (i_op ins)).
    + destruct (i_args ins) as [|a [|? ?]]; try exact I.
      pose proof (aval_holds c a (ops_agree_in _ _ _ H (or_introl eq_refl))) as Ha.
      destruct (aval L a); cbn [holds holdsx] in *; try exact I. rewrite Ha. reflexivity.
    + destruct (i_args ins) as [|a2 [|a1 [|? ?]]]; try exact I.
      pose proof (aval_holds c a1 (ops_agree_in _ _ _ H (or_intror (or_introl eq_refl)))) as H1.
      pose proof (aval_holds c a2 (ops_agree_in _ _ _ H (or_introl eq_refl))) as H2.
      destruct (aval L a1), (aval L a2); cbn [holds holdsx] in *; try exact I; try contradiction.
      rewrite H1, H2. reflexivity.
Qed.

Lemma lle_holds r r' z : lle r r' = true -> holds r z -> holds r' z.
Proof.
  destruct r, r'; cbn [lle holds]; intros E H; try discriminate; try contradiction; try exact I.
  apply Z.eqb_eq in E. rewrite H. exact E.
Qed.

Lemma holds_agrees c x : 0 <= c x < W -> holds (L x) (c x) -> agrees L c x.
Proof. unfold agrees. intros Hw. destruct (L x); cbn [holds]; auto. rewrite (Z.mod_small _ _ Hw). auto. Qed.
Lemma agrees_holds c x : agrees L c x -> holds (L x) (c x).
Proof. unfold agrees. destruct (L x); cbn [holds]; auto. intros ->. apply Z.mod_mod. discriminate. Qed.

(* one instruction: the outputs agree with the lattice afterwards *)
Lemma inst_lat_sound c c' ins : inst_lat_ok L ins = true -> ops_agree c (i_args ins) -> step_conc lv ins c c' ->
  forall o, In o (i_outs ins) -> agrees L c' o.
Proof.
  intros OK H (_ & Hw & Hv & _) o Ho. unfold inst_lat_ok in OK. rewrite (no_top_arg c _ H) in OK. cbn [orb] in OK.
  pose proof (atrans_sound c ins H) as AS.
  destruct (atrans L ins) as [r|]; destruct (sem_fun lv ins) as [g|] eqn:G; try contradiction.
  - destruct (i_outs ins) as [|o1 [|? ?]] eqn:Eo; try discriminate. destruct Ho as [<-|[]].
    apply holds_agrees; [apply Hw; left; reflexivity|]. rewrite (Hv g o1 eq_refl eq_refl). eapply lle_holds; eassumption.
  - rewrite forallb_forall in OK. specialize (OK o Ho). unfold agrees. destruct (L o); try discriminate. exact I.
Qed.

Lemma agrees_keep c c' x : c' x = c x -> agrees L c x -> agrees L c' x.
Proof. unfold agrees. intros ->. auto. Qed.
End Lat.

(* ------------------------------------------------------------------ block structure *)
Lemma phis_body (b : block) : b = (leading_phis b ++ body b)%list.
Proof. induction b as [|i t IH]; [reflexivity|]. cbn. destruct (is_phi i); [cbn; f_equal; exact IH | reflexivity]. Qed.
Lemma leading_phis_are_phis (b : block) ins : In ins (leading_phis b) -> is_phi ins = true.
Proof.
  induction b as [|i t IH]; [intros []|]. cbn. destruct (is_phi i) eqn:E; [|intros []].
  intros [<-|H]; [exact E | apply IH; exact H].
Qed.

(* a non-phi terminator is the last instruction of the body *)
Lemma term_in_body (b : block) T : term_of b = Some T -> is_phi T = false ->
  exists k, nth_error (body b) k = Some T /\ Datatypes.S k = List.length (body b).
Proof.
  intros HT NP. unfold term_of in HT. destruct (rev b) as [|x r] eqn:R; [discriminate|]. injection HT as ->.
  assert (Hb : b = (rev r ++ [T])%list) by (rewrite <- (rev_involutive b), R; reflexivity).
  rewrite (phis_body b) in Hb.
  destruct (body b) as [|y t] eqn:Eb.
  - rewrite app_nil_r in Hb. exfalso.
    assert (In T (leading_phis b)) by (rewrite Hb; apply in_or_app; right; left; reflexivity).
    rewrite (leading_phis_are_phis _ _ H) in NP. discriminate.
  - destruct (@exists_last _ (y :: t) ltac:(discriminate)) as (l & a & El). rewrite El in *.
    rewrite app_assoc in Hb. apply app_inj_tail in Hb as [_ ->].
    exists (List.length l). split; [rewrite nth_error_app2, Nat.sub_diag by lia; reflexivity | rewrite app_length; cbn; lia].
Qed.

Lemma step_words lv ins c c' : cenv_ok c -> step_conc lv ins c c' -> cenv_ok c'.
Proof.
  intros Hc (Hk & Hw & _) x. destruct (in_dec N.eq_dec x (i_outs ins)) as [I|NI]; [apply Hw; exact I | rewrite (Hk x NI); apply Hc].
Qed.
Lemma phi_words phis p c c' : cenv_ok c -> phi_assign phis p c c' -> cenv_ok c'.
Proof.
  intros Hc [P1 P2] x.
  destruct (existsb (fun ins => match phi_out ins with Some o => N.eqb o x | None => false end) phis) eqn:E.
  - apply existsb_exists in E as [ins [Hi Ho]]. destruct (phi_out ins) as [o|] eqn:PO; [|discriminate].
    apply N.eqb_eq in Ho. subst o. destruct (P2 ins x Hi PO) as [v [_ ->]]. apply Hc.
  - rewrite P1; [apply Hc|]. intros ins Hi PO.
    assert (existsb (fun ins => match phi_out ins with Some o => N.eqb o x | None => false end) phis = true); [|congruence].
    apply existsb_exists. exists ins. split; [exact Hi | rewrite PO; apply N.eqb_refl].
Qed.

Lemma shape_body_nophi (b : block) ins : block_shape_ok b = true -> In ins (body b) -> is_phi ins = false.
Proof.
  intros H Hi. unfold block_shape_ok in H. apply andb_prop in H as [H _]. rewrite forallb_forall in H.
  apply negb_true_iff. apply H. exact Hi.
Qed.
Lemma shape_phi_out (b : block) ins : block_shape_ok b = true -> In ins (leading_phis b) -> exists o, i_outs ins = [o].
Proof.
  intros H Hi. unfold block_shape_ok in H. apply andb_prop in H as [_ H]. rewrite forallb_forall in H.
  specialize (H ins Hi). apply andb_prop in H as [H _]. unfold phi_out in H.
  destruct (i_outs ins) as [|o [|? ?]]; try discriminate. eauto.
Qed.

Lemma targets_succs lv T c b : In b (targets lv T c) -> In b (succs T).
Proof.
  unfold targets, succs.
  destruct (String.eqb (i_op T) "jmp") eqn:E1; cbn [orb].
  { destruct (i_args T) as [|[?|?|l] [|? ?]]; cbn; tauto. }
  destruct (String.eqb (i_op T) "jnz") eqn:E2; cbn [orb].
  { destruct (i_args T) as [|cond [|[?|?|t] [|[?|?|f] [|? ?]]]]; cbn; try tauto.
    destruct (oval lv c cond =? 0); cbn; intros [<-|[]]; destruct cond; cbn; tauto. }
  destruct (String.eqb (i_op T) "djmp"); [tauto | intros []].
Qed.

(* ------------------------------------------------------------------ the invariant *)
Section Inv.
Variables (f : func) (C : cert) (lv : N -> Z).
Let L := lat_of (c_lat C).
Hypothesis OK : lattice_ok f C = true.

Definition s0 (b : N) : pset := sadd_all (phi_outs (nth_block f b)) (def_at C b).
Definition Inv (b : N) (k : nat) (c : cenv) (S : list N) : Prop :=
  exe C b = true /\ cenv_ok c /\
  (forall x, smem x (dst (s0 b) (firstn k (body (nth_block f b)))) = true -> In x S) /\
  (forall x, In x S -> agrees L c x).

Lemma block_checked b : exe C b = true -> (N.to_nat b < List.length f)%nat -> block_ok L f C b = true.
Proof.
  intros E Hb. unfold lattice_ok in OK. apply andb_prop in OK as [_ H]. rewrite forallb_forall in H.
  specialize (H (N.to_nat b)). rewrite N2Nat.id, E in H. apply H. apply in_seq. lia.
Qed.

Lemma nth_block_oob b : (List.length f <= N.to_nat b)%nat -> nth_block f b = [].
Proof. intros H. unfold nth_block. apply nth_overflow. exact H. Qed.

Lemma term_sound p T c S b : exe C p = true -> term_ok L C p T = true ->
  (forall y, In y (vars_of (i_args T)) -> In y S) -> (forall y, In y S -> agrees L c y) ->
  In b (targets lv T c) -> edge_ok C p b = true.
Proof.
  intros E TK VS AG Hb.
  assert (OA : ops_agree L c (i_args T)) by (intros y Hy; apply AG, VS, Hy).
  unfold term_ok in TK. unfold targets in Hb.
  destruct (String.eqb (i_op T) "jmp").
  - destruct (i_args T) as [|[v|x|l] [|? ?]]; try destruct Hb as [Hb|[]]; try contradiction. subst. exact TK.
  - destruct (String.eqb (i_op T) "jnz").
    + destruct (i_args T) as [|cond [|[v|x|t] [|[v'|x'|fl] [|? ?]]]]; try contradiction.
      pose proof (aval_holds L lv c cond (ops_agree_in L c _ _ OA (or_introl eq_refl))) as Hc.
      destruct (aval L cond) as [|v|]; cbn [holdsx] in Hc; [contradiction | |].
      * rewrite Hc in Hb. destruct (v mod W =? 0); destruct Hb as [<-|[]]; exact TK.
      * apply andb_prop in TK as [T1 T2]. destruct (oval lv c cond =? 0); destruct Hb as [<-|[]]; assumption.
    + destruct (String.eqb (i_op T) "djmp"); [|contradiction].
      rewrite (no_top_arg L lv c _ OA) in TK. cbn [orb] in TK. rewrite forallb_forall in TK. apply TK. exact Hb.
Qed.

Theorem sccp_inv : forall b k c S, reachS f lv b k c S -> Inv b k c S.
Proof.
  induction 1 as [c Cw | b k c S c' ins R IH Hn HS | p c S b c' T R IH HT HB HP].
  - (* entry *)
    unfold lattice_ok in OK. apply andb_prop in OK as [H _]. apply andb_prop in H as [E0 SUB].
    split; [exact E0|]. split; [exact Cw|]. split; [|intros x []].
    intros x Hx. cbn [firstn dst fold_left] in Hx. exfalso.
    pose proof (subset_smem _ _ x SUB Hx) as F. rewrite smem_empty in F. discriminate.
  - (* one instruction *)
    destruct IH as (E & CW & DS & AG).
    assert (Hb : (N.to_nat b < List.length f)%nat).
    { destruct (Nat.lt_ge_cases (N.to_nat b) (List.length f)) as [?|G]; [assumption|].
      rewrite (nth_block_oob _ G) in Hn. destruct k; discriminate. }
    pose proof (block_checked b E Hb) as BK. unfold block_ok in BK. apply andb_prop in BK as [SH BK].
    fold (s0 b) in BK. destruct (def_run (s0 b) (body (nth_block f b))) as [X|] eqn:DR; [|discriminate].
    apply andb_prop in BK as [LK _]. rewrite forallb_forall in LK. specialize (LK ins (nth_error_In _ _ Hn)).
    assert (VS : forall y, In y (vars_of (i_args ins)) -> In y S) by (intros y Hy; apply DS; eapply def_run_nth; eassumption).
    assert (OA : ops_agree L c (i_args ins)) by (intros y Hy; apply AG, VS, Hy).
    split; [exact E|]. split; [eapply step_words; eassumption|]. split.
    + intros x Hx. rewrite (firstn_snoc _ _ _ Hn), dst_app in Hx. cbn [dst fold_left] in Hx.
      apply smem_add_all in Hx as [Hx|Hx]; apply in_or_app; [left; exact Hx | right; apply DS; exact Hx].
    + intros x Hx. destruct (in_dec N.eq_dec x (i_outs ins)) as [I|NI].
      * eapply inst_lat_sound; eassumption.
      * apply in_app_or in Hx as [Hx|Hx]; [contradiction|]. destruct HS as (Hk & _).
        eapply agrees_keep; [apply Hk; exact NI | apply AG; exact Hx].
  - (* jump *)
    destruct IH as (E & CW & DS & AG). rewrite firstn_all in DS.
    destruct (Bool.bool_dec (is_phi T) true) as [PT|NP].
    { exfalso. unfold targets in HB. unfold is_phi in PT. apply String.eqb_eq in PT. rewrite PT in HB. exact HB. }
    apply not_true_is_false in NP.
    assert (Hp : (N.to_nat p < List.length f)%nat).
    { destruct (Nat.lt_ge_cases (N.to_nat p) (List.length f)) as [?|G]; [assumption|].
      rewrite (nth_block_oob _ G) in HT. discriminate. }
    pose proof (block_checked p E Hp) as BK. unfold block_ok in BK. apply andb_prop in BK as [SH BK].
    fold (s0 p) in BK. destruct (def_run (s0 p) (body (nth_block f p))) as [X|] eqn:DR; [|discriminate].
    pose proof (def_run_dst _ _ _ DR) as EX. apply andb_prop in BK as [_ BK]. rewrite HT in BK.
    apply andb_prop in BK as [TK EK].
    destruct (term_in_body _ _ HT NP) as [kt [Hkt _]].
    assert (VS : forall y, In y (vars_of (i_args T)) -> In y S).
    { intros y Hy. apply DS. eapply dst_mono. eapply def_run_nth; eassumption. }
    pose proof (term_sound p T c S b E TK VS AG HB) as EB.
    rewrite forallb_forall in EK. specialize (EK b (targets_succs lv T c b HB)). rewrite EB in EK.
    apply andb_prop in EK as [SUB PH].
    assert (Eb : exe C b = true) by (unfold edge_ok in EB; apply andb_prop in EB as [_ ?]; assumption).
    split; [exact Eb|]. split; [eapply phi_words; eassumption|]. split.
    + intros x Hx. cbn [firstn dst fold_left] in Hx. unfold s0 in Hx. apply smem_add_all in Hx as [Hx|Hx]; apply in_or_app.
      * left. exact Hx.
      * right. apply DS. rewrite <- EX. eapply subset_smem; eassumption.
    + assert (SHb : block_shape_ok (nth_block f b) = true).
      { destruct (Nat.lt_ge_cases (N.to_nat b) (List.length f)) as [Hb|G].
        - pose proof (block_checked b Eb Hb) as BKb. unfold block_ok in BKb. apply andb_prop in BKb as [? _]. assumption.
        - rewrite (nth_block_oob _ G). reflexivity. }
      destruct HP as [P1 P2]. intros x Hx.
      destruct (in_dec N.eq_dec x (phi_outs (nth_block f b))) as [I|NI].
      * unfold phi_outs in I. apply in_flat_map in I as [ins [Hi Hxo]].
        destruct (shape_phi_out _ _ SHb Hi) as [o Eo]. rewrite Eo in Hxo. destruct Hxo as [<-|[]].
        assert (PO : phi_out ins = Some o) by (unfold phi_out; rewrite Eo; reflexivity).
        destruct (P2 ins o Hi PO) as [v [Hv Ev]].
        unfold edge_phis_ok in PH. rewrite forallb_forall in PH. specialize (PH ins Hi). rewrite PO in PH.
        rewrite forallb_forall in PH. specialize (PH (p, v) Hv). cbn [fst snd] in PH. rewrite N.eqb_refl in PH.
        apply andb_prop in PH as [MV LE].
        assert (Av : agrees L c v) by (apply AG, DS; rewrite <- EX; exact MV).
        apply holds_agrees.
        -- rewrite Ev. apply CW.
        -- rewrite Ev. eapply lle_holds; [exact LE | apply agrees_holds; exact Av].
      * apply in_app_or in Hx as [Hx|Hx]; [contradiction|].
        eapply agrees_keep; [|apply AG; exact Hx]. apply P1. intros ins Hi PO.
        apply NI. unfold phi_outs. apply in_flat_map. exists ins. split; [exact Hi|].
        unfold phi_out in PO. destruct (i_outs ins) as [|o [|? ?]]; try discriminate. injection PO as ->. left. reflexivity.
Qed.
End Inv.

(* ------------------------------------------------------------------ the rewrite *)
Section Rw.
Variable L : lmap.
Variable lv : N -> Z.

Lemma oval_subst c a : ops_agree L c [a] -> oval lv c (subst L a) = oval lv c a.
Proof.
  intros H. destruct a as [v|x|l]; cbn [subst]; try reflexivity.
  specialize (H x (or_introl eq_refl)). unfold agrees in H. destruct (L x); try reflexivity. cbn [oval]. symmetry. exact H.
Qed.

Lemma is_lab_subst a : is_lab (subst L a) = is_lab a.
Proof. destruct a as [v|x|l]; cbn; try reflexivity. destruct (L x); reflexivity. Qed.
Lemma has_label_subst args : has_label (map (subst L) args) = has_label args.
Proof. unfold has_label. induction args as [|a t IH]; [reflexivity|]. cbn [map existsb]. rewrite is_lab_subst, IH. reflexivity. Qed.
Lemma labels_of_subst args : labels_of (map (subst L) args) = labels_of args.
Proof.
  unfold labels_of. induction args as [|a t IH]; [reflexivity|]. cbn [map flat_map]. rewrite IH. f_equal.
  destruct a as [v|x|l]; cbn; try reflexivity. destruct (L x); reflexivity.
Qed.

Lemma sem_fun_generic c ins : ops_agree L c (i_args ins) ->
  match sem_fun lv ins, sem_fun lv (generic L ins) with
  | Some g, Some g' => g c = g' c
  | None, None => True
  | _, _ => False
  end.
Proof.
  intros H. unfold sem_fun, generic. cbn [i_op i_args i_outs]. rewrite has_label_subst.
  destruct (has_label (i_args ins)); [exact I|].
  destruct (i_outs ins) as [|o [|? ?]]; try exact I.
  destruct (String.eqb (i_op ins) "assign").
  - destruct (i_args ins) as [|a [|? ?]]; cbn [map]; try exact I.
    symmetry. apply oval_subst. eapply ops_agree_in; [exact H | left; reflexivity].
  - destruct (word_op (i_op ins)) as [w|]; [|exact I].
    destruct (is_unary (i_op ins)).
    + destruct (i_args ins) as [|a [|? ?]]; cbn [map]; try exact I.
      rewrite oval_subst by (eapply ops_agree_in; [exact H | left; reflexivity]). reflexivity.
    + destruct (i_args ins) as [|a2 [|a1 [|? ?]]]; cbn [map]; try exact I.
      rewrite !oval_subst; [reflexivity | |]; eapply ops_agree_in; try exact H; [left | right; left]; reflexivity.
Qed.

Lemma assert_generic c ins : ops_agree L c (i_args ins) -> (assert_passes lv ins c <-> assert_passes lv (generic L ins) c).
Proof.
  intros H. unfold assert_passes, generic. cbn [i_op i_args].
  split; intros AP E a Ha.
  - destruct (i_args ins) as [|a0 [|? ?]]; cbn [map] in Ha; try discriminate. injection Ha as <-.
    rewrite oval_subst by (eapply ops_agree_in; [exact H | left; reflexivity]). apply AP; auto.
  - rewrite Ha in *. rewrite <- (oval_subst c a) by (eapply ops_agree_in; [exact H | left; reflexivity]). apply AP; auto.
Qed.

Lemma step_generic c c' ins : ops_agree L c (i_args ins) -> (step_conc lv ins c c' <-> step_conc lv (generic L ins) c c').
Proof.
  intros H. pose proof (sem_fun_generic c ins H) as SG. pose proof (assert_generic c ins H) as AG.
  unfold step_conc. change (i_outs (generic L ins)) with (i_outs ins).
  split; intros (A & B & D & F); (split; [exact A|]; split; [exact B|]; split; [|tauto]).
  - intros g' o G' Ho. destruct (sem_fun lv ins) as [g|]; rewrite G' in SG; [|contradiction]. rewrite <- SG. apply D; auto.
  - intros g o G Ho. rewrite G in SG. destruct (sem_fun lv (generic L ins)) as [g'|] eqn:G'; [|contradiction]. rewrite SG. apply D; auto.
Qed.

Lemma is_phi_rw ins : is_phi (rw_inst L ins) = is_phi ins.
Proof.
  unfold rw_inst. destruct (is_phi ins) eqn:P; [exact P|].
  unfold is_phi in *.
  destruct (String.eqb (i_op ins) "jnz") eqn:J.
  { destruct (i_args ins) as [|cond [|[?|?|t] [|[?|?|fl] [|? ?]]]]; try exact P. destruct (aval L cond); try exact P. reflexivity. }
  destruct (String.eqb (i_op ins) "assert" || String.eqb (i_op ins) "assert_unreachable"); [|exact P].
  destruct (i_args ins) as [|a [|? ?]]; try exact P. destruct (i_outs ins); try exact P.
  destruct (aval L a); try exact P. destruct (v =? 0); [exact P | reflexivity].
Qed.

Lemma outs_rw ins : i_outs (rw_inst L ins) = i_outs ins.
Proof.
  unfold rw_inst. destruct (is_phi ins); [reflexivity|].
  destruct (String.eqb (i_op ins) "jnz").
  { destruct (i_args ins) as [|cond [|[?|?|t] [|[?|?|fl] [|? ?]]]]; try reflexivity. destruct (aval L cond); reflexivity. }
  destruct (String.eqb (i_op ins) "assert" || String.eqb (i_op ins) "assert_unreachable"); [|reflexivity].
  destruct (i_args ins) as [|a [|? ?]]; try reflexivity. destruct (i_outs ins) eqn:Eo; try (cbn; rewrite Eo; reflexivity).
  destruct (aval L a); try (cbn; rewrite Eo; reflexivity). destruct (v =? 0); cbn; [rewrite Eo|]; reflexivity.
Qed.

Lemma lit_norm_nz v : lit_norm v = true -> (v =? 0) = (v mod W =? 0).
Proof. unfold lit_norm. intros H. apply eqb_prop in H. exact H. Qed.

Lemma step_none lv' name args outs c c' : sem_fun lv' (mkI name args outs) = None -> String.eqb name "assert" = false ->
  (step_conc lv' (mkI name args outs) c c' <->
   (forall x, ~ In x outs -> c' x = c x) /\ (forall x, In x outs -> 0 <= c' x < W)).
Proof.
  intros SN NA. unfold step_conc, assert_passes. cbn [i_outs i_op]. rewrite SN, NA. split.
  - intros (A & B & _). auto.
  - intros (A & B). split; [exact A|]. split; [exact B|]. split; intros; discriminate.
Qed.

(* a body instruction and its rewritten form have the same steps when the operands are assigned and agree *)
Lemma step_rw c c' ins : is_phi ins = false -> rw_safe L ins = true -> ops_agree L c (i_args ins) ->
  (step_conc lv ins c c' <-> step_conc lv (rw_inst L ins) c c').
Proof.
  intros NP SF H. unfold rw_inst. rewrite NP.
  destruct (String.eqb (i_op ins) "jnz") eqn:J.
  { destruct (i_args ins) as [|cond [|[?|?|t] [|[?|?|fl] [|? ?]]]] eqn:Ea; try (apply step_generic; rewrite Ea; exact H).
    destruct (aval L cond) eqn:Ac; try (apply step_generic; rewrite Ea; exact H).
    apply String.eqb_eq in J. destruct ins as [op args outs]. cbn [i_op i_args i_outs] in *. subst op args.
    rewrite !step_none; try reflexivity; unfold sem_fun; cbn [i_args i_outs i_op has_label existsb is_lab orb];
      rewrite ?orb_true_r; reflexivity. }
  destruct (String.eqb (i_op ins) "assert" || String.eqb (i_op ins) "assert_unreachable") eqn:A; [|apply step_generic; exact H].
  destruct (i_args ins) as [|a [|? ?]] eqn:Ea; try (apply step_generic; rewrite Ea; exact H).
  destruct (i_outs ins) as [|? ?] eqn:Eo; try (apply step_generic; rewrite Ea; exact H).
  destruct (aval L a) as [|v|] eqn:Aa; try (apply step_generic; rewrite Ea; exact H).
  destruct (v =? 0) eqn:Z0; [apply step_generic; rewrite Ea; exact H|].
  (* assert of a non-zero constant -> nop *)
  assert (OV : oval lv c a <> 0).
  { pose proof (aval_holds L lv c a (ops_agree_in L c _ _ H (or_introl eq_refl))) as Hh. rewrite Aa in Hh. cbn [holdsx] in Hh.
    unfold rw_safe in SF. rewrite Ea in SF. cbn [forallb] in SF. rewrite Aa in SF. apply andb_prop in SF as [SF _].
    apply lit_norm_nz in SF. rewrite Z0 in SF. symmetry in SF. apply Z.eqb_neq in SF. rewrite Hh. exact SF. }
  destruct ins as [op args outs]. cbn [i_op i_args i_outs] in *. subst args outs.
  assert (SN : sem_fun lv (mkI op [a] []) = None).
  { unfold sem_fun. cbn [i_args i_outs]. destruct (has_label [a]); reflexivity. }
  rewrite (step_none lv "nop" [] []) by reflexivity.
  unfold step_conc, assert_passes. cbn [i_outs i_op i_args]. rewrite SN. split.
  - intros (A1 & A2 & _). auto.
  - intros (A1 & A2). split; [exact A1|]. split; [exact A2|]. split; [intros; discriminate|].
    intros _ a' Ha. injection Ha as <-. exact OV.
Qed.

Lemma targets_generic c T : ops_agree L c (i_args T) -> targets lv (generic L T) c = targets lv T c.
Proof.
  intros H. unfold targets, generic. cbn [i_op i_args].
  destruct (String.eqb (i_op T) "jmp").
  { destruct (i_args T) as [|[v|x|l] [|? ?]]; cbn [map subst]; try reflexivity; destruct (L x); reflexivity. }
  destruct (String.eqb (i_op T) "jnz").
  { destruct (i_args T) as [|cond [|a1 [|a2 t2]]] eqn:Ea; cbn [map]; try reflexivity.
    - destruct a1 as [v1|x1|t]; cbn [subst]; try reflexivity; destruct (L x1); reflexivity.
    - assert (Ec : oval lv c (subst L cond) = oval lv c cond) by (apply oval_subst; eapply ops_agree_in; [exact H | left; reflexivity]).
      destruct a1 as [v1|x1|t]; destruct a2 as [v2|x2|fl]; cbn [subst];
        repeat match goal with |- context [L ?x] => destruct (L x) end;
        destruct t2; cbn [map]; try reflexivity.
      rewrite Ec. reflexivity. }
  destruct (String.eqb (i_op T) "djmp"); [apply labels_of_subst | reflexivity].
Qed.

Lemma targets_rw c T : rw_safe L T = true -> ops_agree L c (i_args T) -> targets lv (rw_inst L T) c = targets lv T c.
Proof.
  intros SF H. unfold rw_inst. destruct (is_phi T); [reflexivity|].
  destruct (String.eqb (i_op T) "jnz") eqn:J.
  { destruct (i_args T) as [|cond [|[?|?|t] [|[?|?|fl] [|? ?]]]] eqn:Ea; try (apply targets_generic; rewrite Ea; exact H).
    destruct (aval L cond) as [|v|] eqn:Ac; try (apply targets_generic; rewrite Ea; exact H).
    pose proof (aval_holds L lv c cond (ops_agree_in L c _ _ H (or_introl eq_refl))) as Hh. rewrite Ac in Hh. cbn [holdsx] in Hh.
    unfold rw_safe in SF. rewrite Ea in SF. cbn [forallb] in SF. rewrite Ac in SF. apply andb_prop in SF as [SF _]. apply lit_norm_nz in SF.
    unfold targets. cbn [i_op i_args]. rewrite J, Ea.
    assert (String.eqb (i_op T) "jmp" = false) as -> by (apply String.eqb_eq in J; rewrite J; reflexivity).
    change (String.eqb "jmp" "jmp") with true. cbv iota. rewrite Hh, <- SF. destruct (v =? 0); reflexivity. }
  destruct (String.eqb (i_op T) "assert" || String.eqb (i_op T) "assert_unreachable") eqn:A; [|apply targets_generic; exact H].
  destruct (i_args T) as [|a [|? ?]] eqn:Ea; try (apply targets_generic; rewrite Ea; exact H).
  destruct (i_outs T) as [|? ?] eqn:Eo; try (apply targets_generic; rewrite Ea; exact H).
  destruct (aval L a) as [|v|] eqn:Aa; try (apply targets_generic; rewrite Ea; exact H).
  destruct (v =? 0); [apply targets_generic; rewrite Ea; exact H|].
  unfold targets. cbn [i_op].
  apply orb_prop in A. destruct A as [A|A]; apply String.eqb_eq in A; rewrite A; reflexivity.
Qed.
End Rw.

(* ------------------------------------------------------------------ structure of the rewritten function *)
Section Struct.
Variable L : lmap.

Lemma nth_block_rwf f b : nth_block (rwf L f) b = map (rw_inst L) (nth_block f b).
Proof. unfold nth_block, rwf. change (@nil inst) with (map (rw_inst L) []) at 1. apply map_nth. Qed.

Lemma rw_phi ins : is_phi ins = true -> rw_inst L ins = ins.
Proof. intros H. unfold rw_inst. rewrite H. reflexivity. Qed.

Lemma leading_phis_rw (b : block) : leading_phis (map (rw_inst L) b) = leading_phis b.
Proof.
  induction b as [|i t IH]; [reflexivity|]. cbn [map leading_phis]. rewrite is_phi_rw.
  destruct (is_phi i) eqn:P; [rewrite (rw_phi i P), IH|]; reflexivity.
Qed.
Lemma body_rw (b : block) : body (map (rw_inst L) b) = map (rw_inst L) (body b).
Proof.
  induction b as [|i t IH]; [reflexivity|]. cbn [map body]. rewrite is_phi_rw.
  destruct (is_phi i); [exact IH | reflexivity].
Qed.
Lemma term_of_rw (b : block) : term_of (map (rw_inst L) b) = option_map (rw_inst L) (term_of b).
Proof. unfold term_of. rewrite <- map_rev. destruct (rev b); reflexivity. Qed.
Lemma phi_outs_rw (b : block) : phi_outs (map (rw_inst L) b) = phi_outs b.
Proof. unfold phi_outs. rewrite leading_phis_rw. reflexivity. Qed.
End Struct.

(* ------------------------------------------------------------------ before and after have the same executions *)
Section Equiv.
Variables (f : func) (C : cert) (lv : N -> Z).
Let L := lat_of (c_lat C).
Hypothesis OK : lattice_ok f C = true.
Hypothesis SAFE : forallb (forallb (rw_safe L)) f = true.

Lemma safe_in b ins : In ins (nth_block f b) -> rw_safe L ins = true.
Proof.
  intros Hi. destruct (Nat.lt_ge_cases (N.to_nat b) (List.length f)) as [Hb|G].
  - rewrite forallb_forall in SAFE. assert (In (nth_block f b) f) by (unfold nth_block; apply nth_In; exact Hb).
    specialize (SAFE _ H). rewrite forallb_forall in SAFE. apply SAFE. exact Hi.
  - unfold nth_block in Hi. rewrite nth_overflow in Hi by exact G. destruct Hi.
Qed.
Lemma in_body (b : block) ins : In ins (body b) -> In ins b.
Proof. intros H. rewrite (phis_body b). apply in_or_app. right. exact H. Qed.

(* at a reachable configuration: the operands of the next body instruction are assigned and agree *)
Lemma ready b k c S ins : Inv f C b k c S -> nth_error (body (nth_block f b)) k = Some ins ->
  is_phi ins = false /\ ops_agree L c (i_args ins).
Proof.
  intros (E & CW & DS & AG) Hn.
  assert (Hb : (N.to_nat b < List.length f)%nat).
  { destruct (Nat.lt_ge_cases (N.to_nat b) (List.length f)) as [?|G]; [assumption|].
    rewrite (nth_block_oob f _ G) in Hn. destruct k; discriminate. }
  pose proof (block_checked f C OK b E Hb) as BK. unfold block_ok in BK. apply andb_prop in BK as [SH BK].
  fold (s0 f C b) in BK. destruct (def_run (s0 f C b) (body (nth_block f b))) as [X|] eqn:DR; [|discriminate].
  split; [eapply shape_body_nophi; [exact SH | eapply nth_error_In; exact Hn]|].
  intros y Hy. apply AG, DS. eapply def_run_nth; eassumption.
Qed.

Lemma ready_term p c S T : Inv f C p (List.length (body (nth_block f p))) c S -> term_of (nth_block f p) = Some T ->
  is_phi T = false -> ops_agree L c (i_args T).
Proof.
  intros (E & CW & DS & AG) HT NP. rewrite firstn_all in DS.
  assert (Hp : (N.to_nat p < List.length f)%nat).
  { destruct (Nat.lt_ge_cases (N.to_nat p) (List.length f)) as [?|G]; [assumption|].
    rewrite (nth_block_oob f _ G) in HT. discriminate. }
  pose proof (block_checked f C OK p E Hp) as BK. unfold block_ok in BK. apply andb_prop in BK as [SH BK].
  fold (s0 f C p) in BK. destruct (def_run (s0 f C p) (body (nth_block f p))) as [X|] eqn:DR; [|discriminate].
  destruct (term_in_body _ _ HT NP) as [kt [Hkt _]].
  intros y Hy. apply AG, DS. eapply dst_mono. eapply def_run_nth; eassumption.
Qed.

Lemma term_safe p T : term_of (nth_block f p) = Some T -> rw_safe L T = true.
Proof.
  intros HT. apply (safe_in p). unfold term_of in HT. destruct (rev (nth_block f p)) as [|x r] eqn:R; [discriminate|].
  injection HT as ->. apply in_rev. rewrite R. left. reflexivity.
Qed.

Theorem rw_forward : forall b k c S, reachS f lv b k c S -> reachS (rwf L f) lv b k c S.
Proof.
  induction 1 as [c Cw | b k c S c' ins R IH Hn HS | p c S b c' T R IH HT HB HP].
  - constructor. exact Cw.
  - pose proof (sccp_inv f C lv OK _ _ _ _ R) as I. destruct (ready _ _ _ _ _ I Hn) as [NP OA].
    rewrite <- (outs_rw L ins). eapply rs_step; [exact IH | |].
    + rewrite nth_block_rwf, body_rw. apply map_nth_error. exact Hn.
    + apply (step_rw L lv c c' ins NP); [apply (safe_in b), in_body; eapply nth_error_In; exact Hn | exact OA | exact HS].
  - pose proof (sccp_inv f C lv OK _ _ _ _ R) as I.
    rewrite <- (phi_outs_rw L (nth_block f b)), <- nth_block_rwf.
    eapply rs_jump with (T := rw_inst L T).
    + rewrite nth_block_rwf, body_rw, map_length. exact IH.
    + rewrite nth_block_rwf, term_of_rw, HT. reflexivity.
    + destruct (is_phi T) eqn:PT; [rewrite (rw_phi L T PT); exact HB|].
      rewrite (targets_rw L lv c T (term_safe _ _ HT) (ready_term _ _ _ _ I HT PT)). exact HB.
    + rewrite nth_block_rwf, leading_phis_rw. exact HP.
Qed.

Theorem rw_backward : forall b k c S, reachS (rwf L f) lv b k c S -> reachS f lv b k c S.
Proof.
  induction 1 as [c Cw | b k c S c' ins' R IH Hn HS | p c S b c' T' R IH HT HB HP].
  - constructor. exact Cw.
  - pose proof (sccp_inv f C lv OK _ _ _ _ IH) as I.
    rewrite nth_block_rwf, body_rw, nth_error_map in Hn.
    destruct (nth_error (body (nth_block f b)) k) as [ins|] eqn:Hn0; [|discriminate]. cbn [option_map] in Hn. injection Hn as <-.
    destruct (ready _ _ _ _ _ I Hn0) as [NP OA].
    rewrite (outs_rw L ins). eapply rs_step; [exact IH | exact Hn0|].
    apply (step_rw L lv c c' ins NP); [apply (safe_in b), in_body; eapply nth_error_In; exact Hn0 | exact OA | exact HS].
  - rewrite nth_block_rwf, body_rw, map_length in IH.
    pose proof (sccp_inv f C lv OK _ _ _ _ IH) as I.
    rewrite nth_block_rwf, term_of_rw in HT. destruct (term_of (nth_block f p)) as [T|] eqn:HT0; [|discriminate].
    injection HT as <-. rewrite nth_block_rwf, leading_phis_rw in HP. rewrite nth_block_rwf, phi_outs_rw.
    eapply rs_jump with (T := T); [exact IH | exact HT0 | | exact HP].
    destruct (is_phi T) eqn:PT; [rewrite (rw_phi L T PT) in HB; exact HB|].
    rewrite (targets_rw L lv c T (term_safe _ _ HT0) (ready_term _ _ _ _ I HT0 PT)) in HB. exact HB.
Qed.
End Equiv.

(* ------------------------------------------------------------------ decidable equality *)
Lemma operand_eqb_eq a b : operand_eqb a b = true -> a = b.
Proof.
  destruct a, b; cbn; intros H; try discriminate;
    [apply Z.eqb_eq in H | apply N.eqb_eq in H | apply N.eqb_eq in H]; subst; reflexivity.
Qed.
Lemma list_eqb_eq {A} (e : A -> A -> bool) : (forall x y, e x y = true -> x = y) ->
  forall a b, list_eqb e a b = true -> a = b.
Proof.
  intros He. induction a as [|x s IH]; intros [|y t] H; cbn in H; try discriminate; [reflexivity|].
  apply andb_prop in H as [H1 H2]. rewrite (He _ _ H1), (IH _ H2). reflexivity.
Qed.
Lemma inst_eqb_eq a b : inst_eqb a b = true -> a = b.
Proof.
  unfold inst_eqb. intros H. apply andb_prop in H as [H H3]. apply andb_prop in H as [H1 H2].
  destruct a as [o1 a1 u1], b as [o2 a2 u2]. cbn [i_op i_args i_outs] in *. apply String.eqb_eq in H1.
  apply (list_eqb_eq _ operand_eqb_eq) in H2. apply (list_eqb_eq N.eqb (fun x y => proj1 (N.eqb_eq x y))) in H3.
  subst. reflexivity.
Qed.
Lemma func_eqb_eq f g : func_eqb f g = true -> f = g.
Proof. apply list_eqb_eq. apply list_eqb_eq. exact inst_eqb_eq. Qed.

(* ------------------------------------------------------------------ the ghost component is only bookkeeping *)
Lemma reachS_reach f lv b k c S : reachS f lv b k c S -> reach f lv b k c.
Proof. induction 1; [constructor; assumption | eapply r_step; eassumption | eapply r_jump; eassumption]. Qed.
Lemma reach_reachS f lv b k c : reach f lv b k c -> exists S, reachS f lv b k c S.
Proof.
  induction 1 as [c Cw | b k c c' ins R [S IH] Hn HS | p c b c' T R [S IH] HT HB HP].
  - exists []. constructor. exact Cw.
  - eexists. eapply rs_step; eassumption.
  - eexists. eapply rs_jump; eassumption.
Qed.
