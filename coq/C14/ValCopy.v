(* C14 / ValCopy.v -- proved translation validator for passes that only introduce, remove or forward copies
   (`%x = %y`, `%x = literal`): AssignElimination (copies of `before` disappear, their uses read the source),
   SingleUseExpansion (fresh copies appear in `after`, uses read the copy), and nop clean-up.

   The checker walks each pair of blocks in lock step.  An instruction present on one side only must be a copy into a
   variable outside the agreement set U (or a nop).  Instructions present on both sides must have the same opcode and
   outputs, and pairwise matching arguments: following the copies known to hold at that point on either side
   (`root`) must lead to the same operand, whose variable is in U.  The copies known at a block entry / exit come from a
   certificate (computed outside, checked here: entry sets are included in the exit sets of every jump into the block;
   exit sets are included in what the walk computes); phi arguments are matched with the exit sets of their label.
   Theorem copy_check_sound: for an accepted pair, whenever neither run is stuck, `vrun after = vrun before`. *)
From Coq Require Import ZArith List Bool FMapPositive Lia.
From Verif Require Import Base.Word256 C14.Venom C14.VenomProofs C14.VenomSim C14.ValRUV C14.ValDFT.
Import ListNotations.
Open Scope Z_scope.
Opaque label_addr.

(* ---------------------------------------------------------------- known copies *)
Definition avs := list (positive * operand).

Definition holds (AV : avs) (vs : vmap) : Prop :=
  forall x o, In (x, o) AV -> PositiveMap.find x vs = eval_op vs o.

Definition op_free (o : operand) (D : list positive) : bool :=
  match o with OVar y => negb (memp y D) | OLit _ => true | OLab _ => false end.

Definition kill (D : list positive) (AV : avs) : avs :=
  filter (fun xo => negb (memp (fst xo) D) && op_free (snd xo) D) AV.

Lemma memp_false_In : forall v l, memp v l = false -> ~ In v l.
Proof. exact memp_In. Qed.

Lemma kill_holds : forall D AV vs vs', holds AV vs ->
  (forall x, ~ In x D -> PositiveMap.find x vs' = PositiveMap.find x vs) -> holds (kill D AV) vs'.
Proof.
  intros D AV vs vs' H K x o I. unfold kill in I. apply filter_In in I. destruct I as [I C]. simpl in C.
  apply andb_true_iff in C. destruct C as [C1 C2].
  assert (Nx : ~ In x D). { apply memp_false_In. destruct (memp x D); [discriminate|reflexivity]. }
  rewrite (K x Nx). rewrite (H x o I).
  destruct o as [z|y|l]; simpl in *; auto; try discriminate.
  symmetry. apply K. apply memp_false_In. destruct (memp y D); [discriminate|reflexivity].
Qed.

Lemma holds_nil : forall vs, holds [] vs.
Proof. intros vs x o []. Qed.

Lemma holds_sub : forall A B vs, holds B vs -> (forall xo, In xo A -> In xo B) -> holds A vs.
Proof. intros A B vs H S x o I. apply H. apply S. assumption. Qed.

Fixpoint lookup (v : positive) (AV : avs) : option operand :=
  match AV with [] => None | (x, o) :: r => if Pos.eqb x v then Some o else lookup v r end.

Lemma lookup_In : forall v AV o, lookup v AV = Some o -> In (v, o) AV.
Proof.
  induction AV as [|[x o'] r IH]; intros o H; simpl in *; [discriminate|].
  destruct (Pos.eqb x v) eqn:E. - apply Pos.eqb_eq in E. inversion H. subst. left. reflexivity. - right. auto.
Qed.

(* the operands known to have the same value as o: o itself, its source, the source of its source, ... *)
Fixpoint chain (AV : avs) (fuel : nat) (o : operand) : list operand :=
  match fuel with
  | O => [o]
  | S n => o :: match o with
                | OVar v => match lookup v AV with Some o' => chain AV n o' | None => [] end
                | _ => []
                end
  end.

Lemma chain_value : forall AV vs, holds AV vs -> forall fuel o r, In r (chain AV fuel o) -> eval_op vs r = eval_op vs o.
Proof.
  intros AV vs H. induction fuel as [|n IH]; intros o r I; simpl in I.
  - destruct I as [<-|[]]. reflexivity.
  - destruct I as [<-|I]; [reflexivity|].
    destruct o as [z|v|l]; try contradiction. destruct (lookup v AV) as [o'|] eqn:L; [|contradiction].
    rewrite (IH o' r I). simpl. symmetry. apply H. apply lookup_In. assumption.
Qed.

Definition ROOT_FUEL : nat := 8%nat.

Definition root_ok (U : positive -> bool) (r : operand) : bool :=
  match r with OVar v => U v | OLit _ => true | OLab _ => false end.

Definition opmatch (U : positive -> bool) (AVb AVa : avs) (ob oa : operand) : bool :=
  match ob, oa with
  | OLab l, OLab l' => Pos.eqb l l'
  | OLab _, _ | _, OLab _ => false
  | _, _ => let ca := chain AVa ROOT_FUEL oa in
            existsb (fun r => root_ok U r && existsb (fun r' => if operand_eq_dec r r' then true else false) ca) (chain AVb ROOT_FUEL ob)
  end.

Lemma opmatch_resolve : forall U AVb AVa vb va ob oa, opmatch U AVb AVa ob oa = true ->
  agree U va vb -> holds AVb vb -> holds AVa va -> resolve vb ob = resolve va oa.
Proof.
  intros U AVb AVa vb va ob oa M A HB HA. unfold opmatch in M.
  assert (G : forall ob oa,
              existsb (fun r => root_ok U r && existsb (fun r' => if operand_eq_dec r r' then true else false) (chain AVa ROOT_FUEL oa))
                      (chain AVb ROOT_FUEL ob) = true -> eval_op vb ob = eval_op va oa).
  { intros b a C. apply existsb_exists in C. destruct C as [r [Ib C]]. apply andb_true_iff in C. destruct C as [RO C].
    apply existsb_exists in C. destruct C as [r' [Ia EQ]]. destruct (operand_eq_dec r r') as [<-|]; [|discriminate].
    rewrite <- (chain_value AVb vb HB ROOT_FUEL b r Ib), <- (chain_value AVa va HA ROOT_FUEL a r Ia).
    destruct r as [z|v|l]; simpl in *; auto; try discriminate. symmetry. apply A. assumption. }
  destruct ob as [z|v|l]; destruct oa as [z'|v'|l']; try discriminate M;
    try (unfold resolve; f_equal; apply G; assumption).
  apply Pos.eqb_eq in M. subst. reflexivity.
Qed.

Fixpoint argsmatch (U : positive -> bool) (AVb AVa : avs) (ab aa : list operand) : bool :=
  match ab, aa with
  | [], [] => true
  | ob :: rb, oa :: ra => opmatch U AVb AVa ob oa && argsmatch U AVb AVa rb ra
  | _, _ => false
  end.

Lemma argsmatch_resolve : forall U AVb AVa vb va ab aa, argsmatch U AVb AVa ab aa = true ->
  agree U va vb -> holds AVb vb -> holds AVa va -> map (resolve vb) ab = map (resolve va) aa.
Proof.
  intros U AVb AVa vb va. induction ab as [|ob rb IH]; intros aa M A HB HA; destruct aa as [|oa ra]; simpl in M; try discriminate; auto.
  apply andb_true_iff in M. destruct M as [M1 M2]. simpl. f_equal; [eapply opmatch_resolve; eauto|apply IH; auto].
Qed.

(* ---------------------------------------------------------------- instructions on one side only *)
Definition is_copy (i : inst) : option (positive * operand) :=
  match i_op i, i_outs i, i_args i with
  | O_assign, [x], [o] =>
      match o with
      | OLab _ => None
      | OVar y => if Pos.eqb x y then None else Some (x, o)
      | OLit _ => Some (x, o)
      end
  | _, _, _ => None
  end.

Definition is_nop (i : inst) : bool :=
  match i_op i, i_outs i with O_nop, [] => true | _, _ => false end.

Lemma exec_nop : forall E X i vs st, is_nop i = true -> exec_inst E X i vs st = SNext vs st \/ stk (exec_inst E X i vs st).
Proof.
  intros E X [outs op args] vs st H. unfold is_nop in H. simpl in H. destruct op; try discriminate H. destruct outs; [|discriminate H].
  rewrite exec_inst_is_simple by reflexivity. unfold exec_simple. simpl.
  destruct (eval_ops vs args); [|right; reflexivity]. left. unfold wrapped. simpl. rewrite merge_nil. reflexivity.
Qed.

(* a copy either is stuck or binds its output to the value of its source, leaving everything else alone *)
Lemma exec_copy : forall E X i x o vs st, is_copy i = Some (x, o) ->
  stk (exec_inst E X i vs st) \/
  exists v, eval_op vs o = Some v /\ exec_inst E X i vs st = SNext (PositiveMap.add x v vs) st.
Proof.
  intros E X [outs op args] x o vs st H. unfold is_copy in H. simpl in H.
  destruct op; try discriminate H. destruct outs as [|x' [|x2 t]]; try discriminate H. destruct args as [|o' [|o2 t]]; try discriminate H.
  assert (EQ : x' = x /\ o' = o).
  { destruct o' as [z|y|l]; try discriminate H. - inversion H. auto. - destruct (Pos.eqb x' y); [discriminate|]. inversion H. auto. }
  destruct EQ as [-> ->].
  rewrite exec_inst_is_simple by reflexivity. unfold exec_simple. simpl i_args. simpl i_op. simpl i_outs.
  simpl eval_ops. destruct (eval_op vs o) as [v|]; [|left; reflexivity].
  right. exists v. split; auto. unfold wrapped. simpl. rewrite merge_nil. reflexivity.
Qed.

Lemma copy_gen : forall AV vs x o v, holds AV vs -> eval_op vs o = Some v ->
  (match o with OVar y => x <> y | OLit _ => True | OLab _ => False end) ->
  holds ((x, o) :: kill [x] AV) (PositiveMap.add x v vs).
Proof.
  intros AV vs x o v H EV NE x' o' I. destruct I as [I|I].
  - inversion I. subst x' o'. rewrite PositiveMap.gss.
    destruct o as [z|y|l]; simpl in *; auto; try contradiction; try (rewrite PositiveMap.gso; auto).
  - revert x' o' I. fold (holds (kill [x] AV) (PositiveMap.add x v vs)). eapply kill_holds; eauto.
    intros y N. apply PositiveMap.gso. intro; subst. apply N. left. reflexivity.
Qed.

Lemma is_copy_ne : forall i x o, is_copy i = Some (x, o) -> match o with OVar y => x <> y | OLit _ => True | OLab _ => False end.
Proof.
  intros [outs op args] x o H. unfold is_copy in H. simpl in H.
  destruct op; try discriminate H. destruct outs as [|x' [|x2 t]]; try discriminate H. destruct args as [|o' [|o2 t]]; try discriminate H.
  destruct o' as [z|y|l]; try discriminate H.
  - inversion H. exact I.
  - destruct (Pos.eqb x' y) eqn:E; [discriminate|]. inversion H. subst. apply Pos.eqb_neq. assumption.
Qed.

(* ---------------------------------------------------------------- the walk over two instruction lists *)
Definition continues (o : opc) : bool := is_simple o || is_guard o.

Definition step_av (i : inst) (o_self : option (positive * operand)) (AV : avs) : avs :=
  match o_self with Some xo => xo :: kill (i_outs i) AV | None => kill (i_outs i) AV end.

Definition kept_ok (U : positive -> bool) (AVb AVa : avs) (ib ia : inst) : bool :=
  (if opc_eq_dec (i_op ib) (i_op ia) then true else false)
  && (if list_eq_dec Pos.eq_dec (i_outs ib) (i_outs ia) then true else false)
  && argsmatch U AVb AVa (i_args ib) (i_args ia).

(* `%x = @label` (a code address, e.g. a return pc after inlining) is not modelled: executing it is stuck *)
Definition is_lab_copy (i : inst) : bool :=
  match i_op i, i_args i with O_assign, [OLab _] => true | _, _ => false end.

Lemma exec_lab_copy : forall E X i vs st, is_lab_copy i = true -> stk (exec_inst E X i vs st).
Proof.
  intros E X [outs op args] vs st H. unfold is_lab_copy in H. simpl in H. destruct op; try discriminate H.
  destruct args as [|[z|v|l] [|o2 t]]; try discriminate H.
  rewrite exec_inst_is_simple by reflexivity. unfold exec_simple. simpl. reflexivity.
Qed.

Definition one_sided (U : positive -> bool) (i : inst) : bool :=
  is_nop i || is_lab_copy i || match is_copy i with Some (x, _) => negb (U x) | None => false end.

Fixpoint walk (fuel : nat) (U : positive -> bool) (AVb AVa : avs) (lb la : list inst) : option (avs * avs) :=
  match fuel with
  | O => None
  | S n =>
      match lb, la with
      | [], [] => Some (AVb, AVa)
      | ib :: rb, ia :: ra =>
          if kept_ok U AVb AVa ib ia then
            if continues (i_op ib) || is_unknown (i_op ib) then walk n U (step_av ib (is_copy ib) AVb) (step_av ia (is_copy ia) AVa) rb ra
            else match rb, ra with [], [] => Some (AVb, AVa) | _, _ => None end
          else if one_sided U ib then walk n U (step_av ib (is_copy ib) AVb) AVa rb la
          else if one_sided U ia then walk n U AVb (step_av ia (is_copy ia) AVa) lb ra
          else None
      | ib :: rb, [] => if one_sided U ib then walk n U (step_av ib (is_copy ib) AVb) AVa rb [] else None
      | [], ia :: ra => if one_sided U ia then walk n U AVb (step_av ia (is_copy ia) AVa) [] ra else None
      end
  end.

(* effect of executing an instruction on the copies known on its own side *)
Lemma step_av_holds : forall E X i AV vs st vs' st', holds AV vs -> exec_inst E X i vs st = SNext vs' st' ->
  continues (i_op i) = true -> holds (step_av i (is_copy i) AV) vs'.
Proof.
  intros E X i AV vs st vs' st' H EX C.
  assert (OTHER : forall x, ~ In x (i_outs i) -> PositiveMap.find x vs' = PositiveMap.find x vs).
  { unfold continues in C. apply orb_true_iff in C. destruct C as [S|G].
    - rewrite (exec_inst_is_simple E X i vs st S) in EX. unfold exec_simple in EX.
      destruct (eval_ops vs (i_args i)); [|discriminate]. destruct (wrapped E X (i_op i) l st) as [[ov s2]|]; [|discriminate].
      destruct (bind_outs vs (i_outs i) ov) as [v2|] eqn:B; [|discriminate]. inversion EX. subst.
      intros x N. eapply bind_other; eauto.
    - pose proof (guard_cases E X i vs st G) as GC. destruct (i_args i) as [|c [|c2 t]]; rewrite GC in EX; try discriminate.
      destruct (eval_op vs c) as [v|]; [|discriminate]. destruct (v <? 0); [discriminate|]. destruct (v =? 0); [discriminate|].
      inversion EX. subst. auto. }
  unfold step_av. destruct (is_copy i) as [[x o]|] eqn:IC.
  - destruct (exec_copy E X i x o vs st IC) as [S|[v [EV EQ]]].
    + rewrite EX in S. simpl in S. contradiction.
    + rewrite EX in EQ. inversion EQ. subst vs' st'.
      assert (OUTS : i_outs i = [x]).
      { unfold is_copy in IC. destruct (i_op i); try discriminate IC. destruct (i_outs i) as [|x' [|x2 t]]; try discriminate IC.
        destruct (i_args i) as [|o' [|o2 t]]; try discriminate IC. destruct o' as [z|y|l]; try discriminate IC.
        - inversion IC. reflexivity. - destruct (Pos.eqb x' y); [discriminate|]. inversion IC. reflexivity. }
      rewrite OUTS. apply copy_gen; auto. eapply is_copy_ne; eauto.
  - eapply kill_holds; eauto.
Qed.

Definition good_end (U : positive -> bool) (OB OA : avs) (rb ra : step_res) : Prop :=
  match rb, ra with
  | SJump l vb' s, SJump l' va' s' => l = l' /\ s = s' /\ agree U va' vb' /\ holds OB vb' /\ holds OA va'
  | SHalt h s, SHalt h' s' => h = h' /\ s = s'
  | _, _ => False
  end.

Lemma one_sided_exec : forall E X U i AV vs st, one_sided U i = true -> holds AV vs ->
  stk (exec_inst E X i vs st) \/
  exists vs', exec_inst E X i vs st = SNext vs' st /\ holds (step_av i (is_copy i) AV) vs' /\
              (forall y, U y = true -> PositiveMap.find y vs' = PositiveMap.find y vs).
Proof.
  intros E X U i AV vs st O H. unfold one_sided in O. apply orb_true_iff in O. destruct O as [N|C].
  - apply orb_true_iff in N. destruct N as [N|L]; [|left; apply exec_lab_copy; assumption].
    destruct (exec_nop E X i vs st N) as [EQ|S]; [|left; assumption]. right. exists vs. split; auto. split; auto.
    eapply step_av_holds; eauto. unfold continues. unfold is_nop in N. destruct (i_op i); try discriminate N. reflexivity.
  - destruct (is_copy i) as [[x o]|] eqn:IC; [|discriminate].
    destruct (exec_copy E X i x o vs st IC) as [S|[v [EV EQ]]]; [left; assumption|].
    right. exists (PositiveMap.add x v vs). split; auto. split.
    + rewrite <- IC. eapply step_av_holds; eauto. unfold continues. unfold is_copy in IC. destruct (i_op i); try discriminate IC. reflexivity.
    + intros y Uy. apply PositiveMap.gso. intro; subst. rewrite Uy in C. discriminate.
Qed.

Lemma kept_exec : forall E X U AVb AVa ib ia vb va st, kept_ok U AVb AVa ib ia = true ->
  agree U va vb -> holds AVb vb -> holds AVa va -> sim_step U (exec_inst E X ib vb st) (exec_inst E X ia va st).
Proof.
  intros E X U AVb AVa ib ia vb va st K A HB HA. unfold kept_ok in K.
  apply andb_true_iff in K. destruct K as [K AM]. apply andb_true_iff in K. destruct K as [KO KU].
  destruct (opc_eq_dec (i_op ib) (i_op ia)) as [EO|]; [|discriminate].
  destruct (list_eq_dec Pos.eq_dec (i_outs ib) (i_outs ia)) as [EU|]; [|discriminate].
  rewrite !exec_inst_factor. rewrite <- EO, <- EU.
  rewrite (argsmatch_resolve U AVb AVa vb va _ _ AM A HB HA). apply exec_inst_r_sim. assumption.
Qed.

Definition is_jump (o : opc) : bool := match o with O_jmp | O_jnz | O_djmp => true | _ => false end.

Lemma exec_inst_jump : forall E X i vs st l vs' s, exec_inst E X i vs st = SJump l vs' s ->
  vs' = vs /\ s = st /\ In (OLab l) (i_args i) /\ is_jump (i_op i) = true.
Proof.
  intros E X [outs op args] vs st l vs' s H. unfold exec_inst in H. simpl in *.
  destruct op; try discriminate H;
    try (match type of H with context [exec_simple E X ?i vs st] => destruct (exec_simple E X i vs st) as [[? ?]|] end; discriminate H).
  - destruct args as [|[z|v|l0] [|o2 t]]; try discriminate H. inversion H. subst. simpl. auto.
  - destruct args as [|c [|[z|v|t] [|[z2|v2|e] [|o4 r]]]]; try discriminate H.
    destruct (eval_op vs c) as [v|]; [|discriminate H]. destruct (v <? 0); [discriminate H|]. inversion H. subst.
    repeat split; auto. destruct (v =? 0); simpl; auto.
  - destruct args as [|t labs]; try discriminate H. destruct (eval_op vs t) as [v|]; [|discriminate H].
    destruct (find (fun o => match o with OLab l1 => label_addr l1 =? v | _ => false end) labs) as [[z|x|l0]|] eqn:F; try discriminate H.
    inversion H. subst. apply find_some in F. destruct F as [F _]. simpl. repeat split; auto.
  - destruct args as [|c [|c2 t]]; try discriminate H. destruct (eval_op vs c) as [v|]; [|discriminate H].
    destruct (v <? 0); [discriminate H|]. destruct (v =? 0); discriminate H.
  - destruct args as [|c [|c2 t]]; try discriminate H. destruct (eval_op vs c) as [v|]; [|discriminate H].
    destruct (v <? 0); [discriminate H|]. destruct (v =? 0); discriminate H.
  - destruct (eval_ops vs args) as [[|p [|n [|x t]]]|]; try discriminate H. unfold halt_data in H. destruct (okaddr p n); discriminate H.
  - destruct (eval_ops vs args) as [[|p [|n [|x t]]]|]; try discriminate H. unfold halt_data in H. destruct (okaddr p n); discriminate H.
Qed.

Lemma walk_sound : forall E X U fuel AVb AVa lb la OB OA vb va st,
  walk fuel U AVb AVa lb la = Some (OB, OA) -> agree U va vb -> holds AVb vb -> holds AVa va ->
  let rb := exec_insts E X lb vb st in let ra := exec_insts E X la va st in
  stk rb \/ stk ra \/ good_end U OB OA rb ra.
Proof.
  intros E X U. induction fuel as [|n IH]; intros AVb AVa lb la OB OA vb va st W A HB HA; [discriminate|].
  assert (BONLY : forall ib rb, lb = ib :: rb -> one_sided U ib = true ->
                  walk n U (step_av ib (is_copy ib) AVb) AVa rb la = Some (OB, OA) ->
                  stk (exec_insts E X lb vb st) \/ stk (exec_insts E X la va st) \/
                  good_end U OB OA (exec_insts E X lb vb st) (exec_insts E X la va st)).
  { intros ib rb -> O W'. simpl.
    destruct (one_sided_exec E X U ib AVb vb st O HB) as [S|[vb' [EQ [HB' K]]]].
    - left. destruct (exec_inst E X ib vb st); simpl in *; try contradiction; auto.
    - rewrite EQ. apply (IH _ _ _ _ _ _ vb' va st W'); auto. intros y Uy. rewrite (K y Uy). apply A. assumption. }
  assert (AONLY : forall ia ra, la = ia :: ra -> one_sided U ia = true ->
                  walk n U AVb (step_av ia (is_copy ia) AVa) lb ra = Some (OB, OA) ->
                  stk (exec_insts E X lb vb st) \/ stk (exec_insts E X la va st) \/
                  good_end U OB OA (exec_insts E X lb vb st) (exec_insts E X la va st)).
  { intros ia ra -> O W'. simpl (exec_insts E X (ia :: ra) va st).
    destruct (one_sided_exec E X U ia AVa va st O HA) as [S|[va' [EQ [HA' K]]]].
    - right. left. destruct (exec_inst E X ia va st); simpl in *; try contradiction; auto.
    - rewrite EQ. apply (IH _ _ _ _ _ _ vb va' st W'); auto. intros y Uy. rewrite (K y Uy). apply A. assumption. }
  simpl in W. destruct lb as [|ib rb]; destruct la as [|ia ra].
  - left. reflexivity.
  - destruct (one_sided U ia) eqn:O; [|discriminate]. eapply AONLY; eauto.
  - destruct (one_sided U ib) eqn:O; [|discriminate]. eapply BONLY; eauto.
  - destruct (kept_ok U AVb AVa ib ia) eqn:K.
    + pose proof (kept_exec E X U AVb AVa ib ia vb va st K A HB HA) as SIM. simpl.
      destruct (continues (i_op ib) || is_unknown (i_op ib)) eqn:C0.
      * destruct (is_unknown (i_op ib)) eqn:UK.
        { left. pose proof (exec_inst_unknown E X ib vb st UK) as S. destruct (exec_inst E X ib vb st); simpl in *; try contradiction; auto. }
        assert (C : continues (i_op ib) = true) by (rewrite orb_false_r in C0; exact C0).
        assert (Ca : continues (i_op ia) = true).
        { unfold kept_ok in K. apply andb_true_iff in K. destruct K as [K _]. apply andb_true_iff in K. destruct K as [K _].
          destruct (opc_eq_dec (i_op ib) (i_op ia)) as [<-|]; [assumption|discriminate]. }
        destruct (exec_inst E X ib vb st) as [vb' s|l vb' s|h s] eqn:EB; destruct (exec_inst E X ia va st) as [va' s'|l' va' s'|h' s'] eqn:EA;
          simpl in SIM; try contradiction.
        -- destruct SIM as [<- A']. apply (IH _ _ _ _ _ _ vb' va' s W); auto; eapply step_av_holds; eauto.
        -- (* a continuing instruction never jumps *)
           exfalso. unfold continues in C. apply orb_true_iff in C. destruct C as [S|G].
           ++ rewrite (exec_inst_is_simple E X ib vb st S) in EB. destruct (exec_simple E X ib vb st) as [[? ?]|]; discriminate.
           ++ pose proof (guard_cases E X ib vb st G) as GC. destruct (i_args ib) as [|c [|c2 t]]; rewrite GC in EB; try discriminate.
              destruct (eval_op vb c) as [v|]; [|discriminate]. destruct (v <? 0); [discriminate|]. destruct (v =? 0); discriminate.
        -- destruct SIM as [<- <-]. destruct (is_stuck h) eqn:SK; [left; exact SK|]. right. right. simpl. auto.
      * destruct rb; [|discriminate]. destruct ra; [|discriminate]. inversion W. subst OB OA.
        destruct (exec_inst E X ib vb st) as [vb' s|l vb' s|h s] eqn:EB; destruct (exec_inst E X ia va st) as [va' s'|l' va' s'|h' s'] eqn:EA;
          simpl in SIM; try contradiction.
        -- left. reflexivity.
        -- destruct SIM as [<- [<- A']]. right. right. simpl. repeat split; auto.
           ++ destruct (exec_inst_jump E X ib vb st _ _ _ EB) as [-> _]. assumption.
           ++ destruct (exec_inst_jump E X ia va st _ _ _ EA) as [-> _]. assumption.
        -- destruct SIM as [<- <-]. destruct (is_stuck h) eqn:SK; [left; exact SK|]. right. right. simpl. auto.
    + destruct (one_sided U ib) eqn:O1.
      * eapply BONLY; eauto.
      * destruct (one_sided U ia) eqn:O2; [|discriminate]. eapply AONLY; eauto.
Qed.

(* ---------------------------------------------------------------- blocks, certificate, functions *)
Definition cert := PositiveMap.t (avs * avs).     (* label -> copies known at block entry in `before`, in `after` *)

Definition pair_eqb (a b : positive * operand) : bool :=
  Pos.eqb (fst a) (fst b) && (if operand_eq_dec (snd a) (snd b) then true else false).

Definition sub_av (A B : avs) : bool := forallb (fun xo => existsb (pair_eqb xo) B) A.

Lemma sub_av_spec : forall A B, sub_av A B = true -> forall xo, In xo A -> In xo B.
Proof.
  intros A B H [x o] I. unfold sub_av in H. rewrite forallb_forall in H. specialize (H _ I).
  apply existsb_exists in H. destruct H as [[y o'] [I' E]]. unfold pair_eqb in E. simpl in E.
  apply andb_true_iff in E. destruct E as [E1 E2]. apply Pos.eqb_eq in E1. destruct (operand_eq_dec o o'); [|discriminate]. subst. assumption.
Qed.

Definition edges_ok (C : cert) (OB OA : avs) (l : list inst) : bool :=
  forallb (fun i => if is_jump (i_op i) then
                      forallb (fun o => match o with
                                        | OLab t => match PositiveMap.find t C with
                                                    | Some (Tb, Ta) => sub_av Tb OB && sub_av Ta OA
                                                    | None => true end
                                        | _ => true end) (i_args i)
                    else true) l.

Definition copy_block (U : positive -> bool) (C : cert) (cur : positive) (lb la : list inst) : bool :=
  match PositiveMap.find cur C with
  | None => false
  | Some (INb, INa) =>
      let (pb, rb) := split_phis lb in
      let (pa, ra) := split_phis la in
      (if list_eq_dec inst_eq_dec pb pa then true else false)
      && forallb (fun p => uses_in U (i_args p)) pb
      && let D := flat_map i_outs pb in
         match walk (length rb + length ra + 1) U (kill D INb) (kill D INa) rb ra with
         | Some (OB, OA) => edges_ok C OB OA rb
         | None => false
         end
  end.

Definition blocks_match_l (chk : positive -> list inst -> list inst -> bool) (b a : func) : bool :=
  forallb (fun kv => match PositiveMap.find (fst kv) (f_blocks a) with Some la => chk (fst kv) (snd kv) la | None => false end)
          (PositiveMap.elements (f_blocks b))
  && forallb (fun kv => match PositiveMap.find (fst kv) (f_blocks b) with Some _ => true | None => false end)
             (PositiveMap.elements (f_blocks a)).

Lemma blocks_match_l_spec : forall chk b a, blocks_match_l chk b a = true -> forall l,
  match PositiveMap.find l (f_blocks b), PositiveMap.find l (f_blocks a) with
  | None, None => True
  | Some lb, Some la => chk l lb la = true
  | _, _ => False
  end.
Proof.
  intros chk b a H l. unfold blocks_match_l in H. apply andb_true_iff in H. destruct H as [H1 H2].
  rewrite forallb_forall in H1, H2.
  destruct (PositiveMap.find l (f_blocks b)) as [lb|] eqn:Fb.
  - specialize (H1 (l, lb) (PositiveMap.elements_correct _ _ Fb)). simpl in H1.
    destruct (PositiveMap.find l (f_blocks a)); auto. discriminate.
  - destruct (PositiveMap.find l (f_blocks a)) as [la|] eqn:Fa; auto.
    specialize (H2 (l, la) (PositiveMap.elements_correct _ _ Fa)). simpl in H2. rewrite Fb in H2. discriminate.
Qed.

Definition entry_ok (C : cert) (b : func) : bool :=
  match PositiveMap.find (f_entry b) C with Some ([], []) => true | _ => false end.

Definition copy_check (U : positive -> bool) (C : cert) (b a : func) : bool :=
  same_frame b a && entry_ok C b && blocks_match_l (copy_block U C) b a.

(* phis: identical lists, operands in U *)
Lemma ruv_align_refl : forall U l, forallb (fun p => uses_in U (i_args p)) l = true -> ruv_align U l l = true.
Proof.
  intros U. induction l as [|i r IH]; intros H; simpl in *; auto.
  apply andb_true_iff in H. destruct H as [H1 H2]. destruct (inst_eq_dec i i); [|contradiction]. rewrite H1. simpl. auto.
Qed.

Lemma exec_phis_other : forall prev l old vs vs' rest, exec_phis prev l old vs = Some (vs', rest) ->
  forall x, ~ In x (flat_map i_outs (fst (split_phis l))) -> PositiveMap.find x vs' = PositiveMap.find x vs.
Proof.
  intros prev. induction l as [|i r IH]; intros old vs vs' rest H x N.
  - simpl in H. inversion H. reflexivity.
  - destruct (is_phi i) eqn:P.
    + rewrite (exec_phis_phi prev i r old vs P) in H.
      simpl in N. rewrite P in N. destruct (split_phis r) as [ps rs] eqn:SR. simpl in N.
      destruct (i_outs i) as [|o [|o2 t]] eqn:EO; try discriminate H.
      destruct (phi_val prev (map (resolve old) (i_args i))) as [v|]; [|discriminate H].
      rewrite (IH _ _ _ _ H x).
      * apply PositiveMap.gso. intro; subst. apply N. simpl. left. reflexivity.
      * simpl. intro I. apply N. apply in_or_app. right. assumption.
    + rewrite (exec_phis_nonphi prev i r old vs P) in H. inversion H. reflexivity.
Qed.

Lemma edges_jump : forall E X C OB OA l rb vs st v s Tb Ta, edges_ok C OB OA rb = true ->
  exec_insts E X rb vs st = SJump l v s -> PositiveMap.find l C = Some (Tb, Ta) -> sub_av Tb OB && sub_av Ta OA = true.
Proof.
  intros E X C OB OA l. induction rb as [|i r IH]; intros vs st v s Tb Ta W RB FC; simpl in RB; [discriminate|].
  unfold edges_ok in W. simpl in W. apply andb_true_iff in W. destruct W as [W1 W2].
  destruct (exec_inst E X i vs st) as [v1 s1|l1 v1 s1|h1 s1] eqn:EI; try discriminate.
  - eapply IH; eauto.
  - inversion RB. subst. destruct (exec_inst_jump E X i vs st _ _ _ EI) as [_ [_ [IL J]]]. rewrite J in W1.
    rewrite forallb_forall in W1. specialize (W1 _ IL). simpl in W1. rewrite FC in W1. exact W1.
Qed.

Section CopyLift.
  Variable E : env.
  Variable X : oracle.
  Variable U : positive -> bool.
  Variable C : cert.
  Variable b a : func.
  Hypothesis BM : blocks_match_l (copy_block U C) b a = true.

  Definition cinv (cur prev : positive) (vb va : vmap) : Prop :=
    agree U va vb /\ match PositiveMap.find cur C with Some (INb, INa) => holds INb vb /\ holds INa va | None => True end.

  Lemma copy_blk : forall cur prev vb va st, cinv cur prev vb va ->
    match PositiveMap.find cur (f_blocks b), PositiveMap.find cur (f_blocks a) with
    | None, None => True
    | Some lb, Some la =>
        let rb := block_res E X prev lb vb st in
        let ra := block_res E X prev la va st in
        bad rb \/ (True /\ bad ra) \/
        match rb, ra with
        | SJump l vb' s, SJump l' va' s' => l = l' /\ s = s' /\ cinv l cur vb' va'
        | SHalt h s, SHalt h' s' => h = h' /\ s = s'
        | _, _ => False
        end
    | _, _ => False
    end.
  Proof.
    intros cur prev vb va st [A HI]. pose proof (blocks_match_l_spec _ b a BM cur) as M.
    destruct (PositiveMap.find cur (f_blocks b)) as [lb|]; destruct (PositiveMap.find cur (f_blocks a)) as [la|]; auto.
    unfold copy_block in M. destruct (PositiveMap.find cur C) as [[INb INa]|]; [|discriminate]. destruct HI as [HB HA].
    destruct (split_phis lb) as [pb rb] eqn:SB. destruct (split_phis la) as [pa ra] eqn:SA.
    apply andb_true_iff in M. destruct M as [M W]. apply andb_true_iff in M. destruct M as [PE PU].
    destruct (list_eq_dec inst_eq_dec pb pa) as [<-|]; [|discriminate].
    destruct (walk (length rb + length ra + 1) U (kill (flat_map i_outs pb) INb) (kill (flat_map i_outs pb) INa) rb ra) as [[OB OA]|] eqn:WK;
      [|discriminate].
    simpl. unfold block_res.
    pose proof (exec_phis_split prev lb vb vb pb rb SB) as HB1. pose proof (exec_phis_split prev la va va pb ra SA) as HA1.
    (* the phi prefix, identical on both sides *)
    set (stop := Inst [] O_stop []) in *.
    assert (AL : ruv_align U (pb ++ [stop]) (pb ++ [stop]) = true).
    { apply ruv_align_refl. rewrite forallb_app. rewrite PU. reflexivity. }
    assert (PT : phis_top (pb ++ [stop]) = true).
    { clear - SB. revert pb rb SB. induction lb as [|i r IH]; intros pb rb SB; simpl in SB.
      - inversion SB. reflexivity.
      - destruct (is_phi i) eqn:P.
        + destruct (split_phis r) as [ps rs] eqn:SR. inversion SB. subst. simpl. rewrite P. eapply IH; eauto.
        + inversion SB. reflexivity. }
    pose proof (ruv_phis U prev (pb ++ [stop]) (pb ++ [stop]) vb va vb va AL PT A A) as PH.
    destruct (exec_phis prev lb vb vb) as [[vb1 r1]|] eqn:EB.
    2:{ left. exact I. }
    destruct HB1 as [-> HB1]. rewrite HB1 in PH. destruct PH as [va1 [ra1 [EA1 [A1 _]]]].
    destruct (exec_phis prev la va va) as [[va2 r2]|] eqn:EA.
    2:{ rewrite HA1 in EA1. discriminate. }
    destruct HA1 as [-> HA1]. rewrite HA1 in EA1. inversion EA1. subst va2 ra1. clear EA1.
    assert (KB : holds (kill (flat_map i_outs pb) INb) vb1).
    { eapply kill_holds; eauto. intros x N. apply (exec_phis_other prev lb vb vb vb1 rb EB x). rewrite SB. simpl. assumption. }
    assert (KA : holds (kill (flat_map i_outs pb) INa) va1).
    { eapply kill_holds; eauto. intros x N. apply (exec_phis_other prev la va va va1 ra EA x). rewrite SA. simpl. assumption. }
    pose proof (walk_sound E X U _ _ _ rb ra OB OA vb1 va1 st WK A1 KB KA) as WS. simpl in WS.
    destruct WS as [S|[S|G]].
    - left. destruct (exec_insts E X rb vb1 st); simpl in *; try contradiction. destruct h; simpl in *; try discriminate; exact I.
    - right. left. split; auto. destruct (exec_insts E X ra va1 st); simpl in *; try contradiction. destruct h; simpl in *; try discriminate; exact I.
    - right. right. destruct (exec_insts E X rb vb1 st) as [v s|l v s|h s] eqn:RB; destruct (exec_insts E X ra va1 st) as [v' s'|l' v' s'|h' s'] eqn:RA;
        simpl in G; try contradiction; auto.
      destruct G as [<- [<- [A2 [H2b H2a]]]]. repeat split; auto.
      (* the entry sets of the target are included in what holds at the jump *)
      destruct (PositiveMap.find l C) as [[Tb Ta]|] eqn:FC; auto.
      pose proof (edges_jump E X C OB OA l rb vb1 st v s Tb Ta W RB FC) as EDGE.
      apply andb_true_iff in EDGE. destruct EDGE as [E1 E2].
      split; eapply holds_sub; eauto; apply sub_av_spec; assumption.
  Qed.
End CopyLift.

Theorem copy_check_sound : forall U C b a, copy_check U C b a = true ->
  forall n E X st, not_stuck (vrun n E X b st) -> not_stuck (vrun n E X a st) -> vrun n E X a st = vrun n E X b st.
Proof.
  intros U C b a H n E X st NB NA. unfold copy_check in H. apply andb_true_iff in H. destruct H as [H BM].
  apply andb_true_iff in H. destruct H as [FR EN0]. unfold same_frame in FR. apply andb_true_iff in FR. destruct FR as [EN CO].
  apply Pos.eqb_eq in EN. destruct (code_eq_dec (f_code b) (f_code a)) as [CE|]; [|discriminate].
  unfold vrun in *. rewrite <- EN, <- CE in *.
  set (E' := mkEnv (e_calldata E) (e_words E) (e_hash E) (e_immbase E) (f_code b)) in *.
  apply (sim_run E' X b a (cinv U C) True); auto.
  - intros cur prev vb va st0 I. apply (copy_blk E' X U C b a BM cur prev vb va st0 I).
  - unfold cinv. split; [apply agree_refl|]. unfold entry_ok in EN0.
    destruct (PositiveMap.find (f_entry b) C) as [[[|? ?] [|? ?]]|]; try discriminate. split; apply holds_nil.
Qed.

Definition cert_of (l : list (positive * (avs * avs))) : cert :=
  fold_left (fun m kv => PositiveMap.add (fst kv) (snd kv) m) l (PositiveMap.empty (avs * avs)).
