(* C14 / ValCopy.v -- proved translation validator for passes that only introduce, remove or forward copies
   (`%x = %y`, `%x = literal`): AssignElimination (copies of `before` disappear, their uses read the source),
   SingleUseExpansion (fresh copies appear in `after`, uses read the copy), and nop clean-up.

   The checker walks each pair of blocks in lock step.  An instruction present on one side only must be a copy into a
   variable outside the agreement set U (or a nop).  Instructions present on both sides must have the same opcode and
   outputs, and pairwise matching arguments: following the copies known to hold at that point on either side
   (`root`) must lead to the same operand, whose variable is in U.  The copies known at a block entry / exit come from a
   certificate (computed outside, checked here: entry sets are included in the exit sets of every jump into the block;
   exit sets are included in what the walk computes); phi arguments are matched with the exit sets of their label.
   Theorem copy_check_sound: for an accepted pair, whenever neither run is stuck, `vrun after = vrun before`. *)
From Coq Require Import ZArith List Bool FMapPositive Lia.
From Verif Require Import Base.Word256 C14.Venom C14.VenomProofs C14.VenomSim C14.ValRUV C14.ValDFT.
Import ListNotations.
Open Scope Z_scope.

(* ---------------------------------------------------------------- known copies *)
Definition avs := list (positive * operand).

Definition holds (AV : avs) (vs : vmap) : Prop :=
  forall x o, In (x, o) AV -> PositiveMap.find x vs = eval_op vs o.

Definition op_free (o : operand) (D : list positive) : bool :=
  match o with OVar y => negb (memp y D) | OLit _ => true | OLab _ => false end.

Definition kill (D : list positive) (AV : avs) : avs :=
  filter (fun xo => negb (memp (fst xo) D) && op_free (snd xo) D) AV.

Lemma memp_false_In : forall v l, memp v l = false -> ~ In v l.
Proof. exact memp_In. Qed.

Lemma kill_holds : forall D AV vs vs', holds AV vs ->
  (forall x, ~ In x D -> PositiveMap.find x vs' = PositiveMap.find x vs) -> holds (kill D AV) vs'.
Proof.
  intros D AV vs vs' H K x o I. unfold kill in I. apply filter_In in I. destruct I as [I C]. simpl in C.
  apply andb_true_iff in C. destruct C as [C1 C2].
  assert (Nx : ~ In x D). { apply memp_false_In. destruct (memp x D); [discriminate|reflexivity]. }
  rewrite (K x Nx). rewrite (H x o I).
  destruct o as [z|y|l]; simpl in *; auto.
  - symmetry. apply K. apply memp_false_In. destruct (memp y D); [discriminate|reflexivity].
  - discriminate.
Qed.

Lemma holds_nil : forall vs, holds [] vs.
Proof. intros vs x o []. Qed.

Lemma holds_sub : forall A B vs, holds B vs -> (forall xo, In xo A -> In xo B) -> holds A vs.
Proof. intros A B vs H S x o I. apply H. apply S. assumption. Qed.

Fixpoint lookup (v : positive) (AV : avs) : option operand :=
  match AV with [] => None | (x, o) :: r => if Pos.eqb x v then Some o else lookup v r end.

Lemma lookup_In : forall v AV o, lookup v AV = Some o -> In (v, o) AV.
Proof.
  induction AV as [|[x o'] r IH]; intros o H; simpl in *; [discriminate|].
  destruct (Pos.eqb x v) eqn:E. - apply Pos.eqb_eq in E. inversion H. subst. left. reflexivity. - right. auto.
Qed.

Fixpoint root (AV : avs) (fuel : nat) (o : operand) : operand :=
  match fuel with
  | O => o
  | S n => match o with
           | OVar v => match lookup v AV with Some o' => root AV n o' | None => o end
           | _ => o
           end
  end.

Lemma root_value : forall AV vs, holds AV vs -> forall fuel o, eval_op vs (root AV fuel o) = eval_op vs o.
Proof.
  intros AV vs H. induction fuel as [|n IH]; intros o; simpl; auto.
  destruct o as [z|v|l]; auto. destruct (lookup v AV) as [o'|] eqn:L; auto.
  rewrite IH. simpl. symmetry. apply H. apply lookup_In. assumption.
Qed.

Definition ROOT_FUEL : nat := 8%nat.

Definition root_ok (U : positive -> bool) (r : operand) : bool :=
  match r with OVar v => U v | OLit _ => true | OLab _ => false end.

Definition opmatch (U : positive -> bool) (AVb AVa : avs) (ob oa : operand) : bool :=
  match ob, oa with
  | OLab l, OLab l' => Pos.eqb l l'
  | OLab _, _ | _, OLab _ => false
  | _, _ => let rb := root AVb ROOT_FUEL ob in
            (if operand_eq_dec rb (root AVa ROOT_FUEL oa) then true else false) && root_ok U rb
  end.

Lemma opmatch_resolve : forall U AVb AVa vb va ob oa, opmatch U AVb AVa ob oa = true ->
  agree U va vb -> holds AVb vb -> holds AVa va -> resolve vb ob = resolve va oa.
Proof.
  intros U AVb AVa vb va ob oa M A HB HA. unfold opmatch in M.
  assert (G : forall ob oa, (match ob with OLab _ => False | _ => True end) -> (match oa with OLab _ => False | _ => True end) ->
              (if operand_eq_dec (root AVb ROOT_FUEL ob) (root AVa ROOT_FUEL oa) then true else false) && root_ok U (root AVb ROOT_FUEL ob) = true ->
              eval_op vb ob = eval_op va oa).
  { intros b a _ _ C. apply andb_true_iff in C. destruct C as [C1 C2].
    destruct (operand_eq_dec (root AVb ROOT_FUEL b) (root AVa ROOT_FUEL a)) as [EQ|]; [|discriminate].
    rewrite <- (root_value AVb vb HB ROOT_FUEL b), <- (root_value AVa va HA ROOT_FUEL a), <- EQ.
    destruct (root AVb ROOT_FUEL b) as [z|v|l]; simpl in *; auto. symmetry. apply A. assumption. discriminate. }
  destruct ob as [z|v|l]; destruct oa as [z'|v'|l']; try discriminate M;
    try (unfold resolve; f_equal; apply G; simpl; auto).
  apply Pos.eqb_eq in M. subst. reflexivity.
Qed.

Fixpoint argsmatch (U : positive -> bool) (AVb AVa : avs) (ab aa : list operand) : bool :=
  match ab, aa with
  | [], [] => true
  | ob :: rb, oa :: ra => opmatch U AVb AVa ob oa && argsmatch U AVb AVa rb ra
  | _, _ => false
  end.

Lemma argsmatch_resolve : forall U AVb AVa vb va ab aa, argsmatch U AVb AVa ab aa = true ->
  agree U va vb -> holds AVb vb -> holds AVa va -> map (resolve vb) ab = map (resolve va) aa.
Proof.
  intros U AVb AVa vb va. induction ab as [|ob rb IH]; intros aa M A HB HA; destruct aa as [|oa ra]; simpl in M; try discriminate; auto.
  apply andb_true_iff in M. destruct M as [M1 M2]. simpl. f_equal; [eapply opmatch_resolve; eauto|apply IH; auto].
Qed.

(* ---------------------------------------------------------------- instructions on one side only *)
Definition is_copy (i : inst) : option (positive * operand) :=
  match i_op i, i_outs i, i_args i with
  | O_assign, [x], [o] =>
      match o with
      | OLab _ => None
      | OVar y => if Pos.eqb x y then None else Some (x, o)
      | OLit _ => Some (x, o)
      end
  | _, _, _ => None
  end.

Definition is_nop (i : inst) : bool :=
  match i_op i, i_outs i with O_nop, [] => true | _, _ => false end.

Lemma exec_nop : forall E X i vs st, is_nop i = true -> exec_inst E X i vs st = SNext vs st \/ stk (exec_inst E X i vs st).
Proof.
  intros E X [outs op args] vs st H. unfold is_nop in H. simpl in H. destruct op; try discriminate H. destruct outs; [|discriminate H].
  rewrite exec_inst_is_simple by reflexivity. unfold exec_simple. simpl.
  destruct (eval_ops vs args); [|right; reflexivity]. left. unfold wrapped. simpl. rewrite merge_nil. reflexivity.
Qed.

(* a copy either is stuck or binds its output to the value of its source, leaving everything else alone *)
Lemma exec_copy : forall E X i x o vs st, is_copy i = Some (x, o) ->
  stk (exec_inst E X i vs st) \/
  exists v, eval_op vs o = Some v /\ exec_inst E X i vs st = SNext (PositiveMap.add x v vs) st.
Proof.
  intros E X [outs op args] x o vs st H. unfold is_copy in H. simpl in H.
  destruct op; try discriminate H. destruct outs as [|x' [|x2 t]]; try discriminate H. destruct args as [|o' [|o2 t]]; try discriminate H.
  assert (EQ : x' = x /\ o' = o).
  { destruct o' as [z|y|l]; try discriminate H. - inversion H. auto. - destruct (Pos.eqb x' y); [discriminate|]. inversion H. auto. }
  destruct EQ as [-> ->].
  rewrite exec_inst_is_simple by reflexivity. unfold exec_simple. simpl i_args. simpl i_op. simpl i_outs.
  simpl eval_ops. destruct (eval_op vs o) as [v|]; [|left; reflexivity].
  right. exists v. split; auto. unfold wrapped. simpl. rewrite merge_nil. reflexivity.
Qed.

Lemma copy_gen : forall AV vs x o v, holds AV vs -> eval_op vs o = Some v ->
  (match o with OVar y => x <> y | OLit _ => True | OLab _ => False end) ->
  holds ((x, o) :: kill [x] AV) (PositiveMap.add x v vs).
Proof.
  intros AV vs x o v H EV NE x' o' I. destruct I as [I|I].
  - inversion I. subst x' o'. rewrite PositiveMap.gss.
    destruct o as [z|y|l]; simpl in *; auto. + rewrite PositiveMap.gso; auto. + contradiction.
  - revert x' o' I. fold (holds (kill [x] AV) (PositiveMap.add x v vs)). eapply kill_holds; eauto.
    intros y N. apply PositiveMap.gso. intro; subst. apply N. left. reflexivity.
Qed.

Lemma is_copy_ne : forall i x o, is_copy i = Some (x, o) -> match o with OVar y => x <> y | OLit _ => True | OLab _ => False end.
Proof.
  intros [outs op args] x o H. unfold is_copy in H. simpl in H.
  destruct op; try discriminate H. destruct outs as [|x' [|x2 t]]; try discriminate H. destruct args as [|o' [|o2 t]]; try discriminate H.
  destruct o' as [z|y|l]; try discriminate H.
  - inversion H. exact I.
  - destruct (Pos.eqb x' y) eqn:E; [discriminate|]. inversion H. subst. apply Pos.eqb_neq. assumption.
Qed.

(* ---------------------------------------------------------------- the walk over two instruction lists *)
Definition continues (o : opc) : bool := is_simple o || is_guard o.

Definition step_av (i : inst) (o_self : option (positive * operand)) (AV : avs) : avs :=
  match o_self with Some xo => xo :: kill (i_outs i) AV | None => kill (i_outs i) AV end.

Definition kept_ok (U : positive -> bool) (AVb AVa : avs) (ib ia : inst) : bool :=
  (if opc_eq_dec (i_op ib) (i_op ia) then true else false)
  && (if list_eq_dec Pos.eq_dec (i_outs ib) (i_outs ia) then true else false)
  && argsmatch U AVb AVa (i_args ib) (i_args ia).

Definition one_sided (U : positive -> bool) (i : inst) : bool :=
  is_nop i || match is_copy i with Some (x, _) => negb (U x) | None => false end.

Fixpoint walk (fuel : nat) (U : positive -> bool) (AVb AVa : avs) (lb la : list inst) : option (avs * avs) :=
  match fuel with
  | O => None
  | S n =>
      match lb, la with
      | [], [] => Some (AVb, AVa)
      | ib :: rb, ia :: ra =>
          if kept_ok U AVb AVa ib ia then
            if continues (i_op ib) then walk n U (step_av ib (is_copy ib) AVb) (step_av ia (is_copy ia) AVa) rb ra
            else match rb, ra with [], [] => Some (AVb, AVa) | _, _ => None end
          else if one_sided U ib then walk n U (step_av ib (is_copy ib) AVb) AVa rb la
          else if one_sided U ia then walk n U AVb (step_av ia (is_copy ia) AVa) lb ra
          else None
      | ib :: rb, [] => if one_sided U ib then walk n U (step_av ib (is_copy ib) AVb) AVa rb [] else None
      | [], ia :: ra => if one_sided U ia then walk n U AVb (step_av ia (is_copy ia) AVa) [] ra else None
      end
  end.

(* effect of executing an instruction on the copies known on its own side *)
Lemma step_av_holds : forall E X i AV vs st vs' st', holds AV vs -> exec_inst E X i vs st = SNext vs' st' ->
  continues (i_op i) = true -> holds (step_av i (is_copy i) AV) vs'.
Proof.
  intros E X i AV vs st vs' st' H EX C.
  assert (OTHER : forall x, ~ In x (i_outs i) -> PositiveMap.find x vs' = PositiveMap.find x vs).
  { unfold continues in C. apply orb_true_iff in C. destruct C as [S|G].
    - rewrite (exec_inst_is_simple E X i vs st S) in EX. unfold exec_simple in EX.
      destruct (eval_ops vs (i_args i)); [|discriminate]. destruct (wrapped E X (i_op i) l st) as [[ov s2]|]; [|discriminate].
      destruct (bind_outs vs (i_outs i) ov) as [v2|] eqn:B; [|discriminate]. inversion EX. subst.
      intros x N. eapply bind_other; eauto.
    - pose proof (guard_cases E X i vs st G) as GC. destruct (i_args i) as [|c [|c2 t]]; rewrite GC in EX; try discriminate.
      destruct (eval_op vs c) as [v|]; [|discriminate]. destruct (v <? 0); [discriminate|]. destruct (v =? 0); [discriminate|].
      inversion EX. subst. auto. }
  unfold step_av. destruct (is_copy i) as [[x o]|] eqn:IC.
  - destruct (exec_copy E X i x o vs st IC) as [S|[v [EV EQ]]].
    + rewrite EX in S. simpl in S. contradiction.
    + rewrite EX in EQ. inversion EQ. subst vs' st'.
      assert (OUTS : i_outs i = [x]).
      { unfold is_copy in IC. destruct (i_op i); try discriminate IC. destruct (i_outs i) as [|x' [|x2 t]]; try discriminate IC.
        destruct (i_args i) as [|o' [|o2 t]]; try discriminate IC. destruct o' as [z|y|l]; try discriminate IC.
        - inversion IC. reflexivity. - destruct (Pos.eqb x' y); [discriminate|]. inversion IC. reflexivity. }
      rewrite OUTS. apply copy_gen; auto. eapply is_copy_ne; eauto.
  - eapply kill_holds; eauto.
Qed.

Definition good_end (U : positive -> bool) (OB OA : avs) (rb ra : step_res) : Prop :=
  match rb, ra with
  | SJump l vb' s, SJump l' va' s' => l = l' /\ s = s' /\ agree U va' vb' /\ holds OB vb' /\ holds OA va'
  | SHalt h s, SHalt h' s' => h = h' /\ s = s'
  | _, _ => False
  end.

Lemma one_sided_exec : forall E X U i AV vs st, one_sided U i = true -> holds AV vs ->
  stk (exec_inst E X i vs st) \/
  exists vs', exec_inst E X i vs st = SNext vs' st /\ holds (step_av i (is_copy i) AV) vs' /\
              (forall y, U y = true -> PositiveMap.find y vs' = PositiveMap.find y vs).
Proof.
  intros E X U i AV vs st O H. unfold one_sided in O. apply orb_true_iff in O. destruct O as [N|C].
  - destruct (exec_nop E X i vs st N) as [EQ|S]; [|left; assumption]. right. exists vs. split; auto. split; auto.
    eapply step_av_holds; eauto. unfold continues. unfold is_nop in N. destruct (i_op i); try discriminate N. reflexivity.
  - destruct (is_copy i) as [[x o]|] eqn:IC; [|discriminate].
    destruct (exec_copy E X i x o vs st IC) as [S|[v [EV EQ]]]; [left; assumption|].
    right. exists (PositiveMap.add x v vs). split; auto. split.
    + eapply step_av_holds; eauto. unfold continues. unfold is_copy in IC. destruct (i_op i); try discriminate IC. reflexivity.
    + intros y Uy. apply PositiveMap.gso. intro; subst. rewrite Uy in C. discriminate.
Qed.

Lemma kept_exec : forall E X U AVb AVa ib ia vb va st, kept_ok U AVb AVa ib ia = true ->
  agree U va vb -> holds AVb vb -> holds AVa va -> sim_step U (exec_inst E X ib vb st) (exec_inst E X ia va st).
Proof.
  intros E X U AVb AVa ib ia vb va st K A HB HA. unfold kept_ok in K.
  apply andb_true_iff in K. destruct K as [K AM]. apply andb_true_iff in K. destruct K as [KO KU].
  destruct (opc_eq_dec (i_op ib) (i_op ia)) as [EO|]; [|discriminate].
  destruct (list_eq_dec Pos.eq_dec (i_outs ib) (i_outs ia)) as [EU|]; [|discriminate].
  rewrite !exec_inst_factor. rewrite <- EO, <- EU.
  rewrite (argsmatch_resolve U AVb AVa vb va _ _ AM A HB HA). apply exec_inst_r_sim. assumption.
Qed.

Lemma walk_sound : forall E X U fuel AVb AVa lb la OB OA vb va st,
  walk fuel U AVb AVa lb la = Some (OB, OA) -> agree U va vb -> holds AVb vb -> holds AVa va ->
  let rb := exec_insts E X lb vb st in let ra := exec_insts E X la va st in
  stk rb \/ stk ra \/ good_end U OB OA rb ra.
Proof.
  intros E X U. induction fuel as [|n IH]; intros AVb AVa lb la OB OA vb va st W A HB HA; [discriminate|].
  assert (BONLY : forall ib rb, lb = ib :: rb -> one_sided U ib = true ->
                  walk n U (step_av ib (is_copy ib) AVb) AVa rb la = Some (OB, OA) ->
                  stk (exec_insts E X lb vb st) \/ stk (exec_insts E X la va st) \/
                  good_end U OB OA (exec_insts E X lb vb st) (exec_insts E X la va st)).
  { intros ib rb -> O W'. simpl.
    destruct (one_sided_exec E X U ib AVb vb st O HB) as [S|[vb' [EQ [HB' K]]]].
    - left. destruct (exec_inst E X ib vb st); simpl in *; try contradiction; auto.
    - rewrite EQ. apply (IH _ _ _ _ _ _ vb' va st W'); auto. intros y Uy. rewrite (K y Uy). apply A. assumption. }
  assert (AONLY : forall ia ra, la = ia :: ra -> one_sided U ia = true ->
                  walk n U AVb (step_av ia (is_copy ia) AVa) lb ra = Some (OB, OA) ->
                  stk (exec_insts E X lb vb st) \/ stk (exec_insts E X la va st) \/
                  good_end U OB OA (exec_insts E X lb vb st) (exec_insts E X la va st)).
  { intros ia ra -> O W'. simpl (exec_insts E X (ia :: ra) va st).
    destruct (one_sided_exec E X U ia AVa va st O HA) as [S|[va' [EQ [HA' K]]]].
    - right. left. destruct (exec_inst E X ia va st); simpl in *; try contradiction; auto.
    - rewrite EQ. apply (IH _ _ _ _ _ _ vb va' st W'); auto. intros y Uy. rewrite (K y Uy). apply A. assumption. }
  simpl in W. destruct lb as [|ib rb]; destruct la as [|ia ra].
  - left. reflexivity.
  - destruct (one_sided U ia) eqn:O; [|discriminate]. eapply AONLY; eauto.
  - destruct (one_sided U ib) eqn:O; [|discriminate]. eapply BONLY; eauto.
  - destruct (kept_ok U AVb AVa ib ia) eqn:K.
    + pose proof (kept_exec E X U AVb AVa ib ia vb va st K A HB HA) as SIM. simpl.
      destruct (continues (i_op ib)) eqn:C.
      * assert (Ca : continues (i_op ia) = true).
        { unfold kept_ok in K. apply andb_true_iff in K. destruct K as [K _]. apply andb_true_iff in K. destruct K as [K _].
          destruct (opc_eq_dec (i_op ib) (i_op ia)) as [<-|]; [assumption|discriminate]. }
        destruct (exec_inst E X ib vb st) as [vb' s|l vb' s|h s] eqn:EB; destruct (exec_inst E X ia va st) as [va' s'|l' va' s'|h' s'] eqn:EA;
          simpl in SIM; try contradiction.
        -- destruct SIM as [<- A']. apply (IH _ _ _ _ _ _ vb' va' s W); auto; eapply step_av_holds; eauto.
        -- (* a continuing instruction never jumps *)
           exfalso. unfold continues in C. apply orb_true_iff in C. destruct C as [S|G].
           ++ rewrite (exec_inst_is_simple E X ib vb st S) in EB. destruct (exec_simple E X ib vb st) as [[? ?]|]; discriminate.
           ++ pose proof (guard_cases E X ib vb st G) as GC. destruct (i_args ib) as [|c [|c2 t]]; rewrite GC in EB; try discriminate.
              destruct (eval_op vb c) as [v|]; [|discriminate]. destruct (v <? 0); [discriminate|]. destruct (v =? 0); discriminate.
        -- destruct SIM as [<- <-]. destruct (is_stuck h) eqn:SK; [left; exact SK|]. right. right. simpl. auto.
      * destruct rb; [|discriminate]. destruct ra; [|discriminate]. inversion W. subst OB OA.
        destruct (exec_inst E X ib vb st) as [vb' s|l vb' s|h s] eqn:EB; destruct (exec_inst E X ia va st) as [va' s'|l' va' s'|h' s'] eqn:EA;
          simpl in SIM; try contradiction.
        -- left. reflexivity.
        -- destruct SIM as [<- [<- A']]. right. right. simpl. repeat split; auto.
           ++ (* a jump does not change the variables *)
              admit.
           ++ admit.
        -- destruct SIM as [<- <-]. destruct (is_stuck h) eqn:SK; [left; exact SK|]. right. right. simpl. auto.
    + destruct (one_sided U ib) eqn:O1.
      * eapply BONLY; eauto.
      * destruct (one_sided U ia) eqn:O2; [|discriminate]. eapply AONLY; eauto.
Admitted.
