(* Verified validator for the result of VariableRangeAnalysis (vyper/venom/analysis/variable_range/analysis.py).

   The worklist/widening/phi/edge logic of the analysis is NOT modelled.  Instead the analysis result of every
   function observed in a run (the range state at the entry of each basic block) is a certificate that this file
   checks: `check f E = true` re-runs the proved-sound transfer functions (eval_op, translated from evaluators.py;
   the branch refinement kernels translated from analysis.py) once over every block and every CFG edge and tests
   that the certificate is a post-fixpoint.  Theorem range_fixpoint_sound: if the check passes then on EVERY execution
   of the function (any number of loop iterations, any inputs, any results of the unmodelled instructions) every
   variable holds a word inside the range the analysis reports at that program point.

   Concrete semantics (the modelling assumption): variables hold 256-bit words; an instruction only changes its
   outputs; `assign` and the 22 pure opcodes of RangeOp.word_op compute the Word256 function of their operands;
   every other instruction (loads, calls, invoke, ...) may write ANY word to its outputs; `assert a` has a successor
   only if a is non-zero; `phi`s at the head of a
   block are executed in parallel when the block is entered; jmp/jnz/djmp follow their labels. *)
From Coq Require Import ZArith NArith Bool List String Lia.
From Verif Require Import Base.Word256 Base.PyInt C14.RangeBase C14.GenRangeClients.
From Verif Require C14.GenRange.
Import ListNotations.
(* this file contains definitions only and depends on no proof file, so that the validator still runs (and the
   search still works) when a proof elsewhere is broken *)
Open Scope string_scope.
Open Scope Z_scope.

(* EVM semantics of the opcodes eval_op knows (unary ones ignore the second operand); equal to RangeOp.word_op
   (RangeFixProofs.word_op_eq) *)
Definition word_op (op : string) : option (Z -> Z -> Z) :=
  if String.eqb op "add" then Some w_add else
  if String.eqb op "sub" then Some w_sub else
  if String.eqb op "mul" then Some w_mul else
  if String.eqb op "and" then Some w_and else
  if String.eqb op "or" then Some w_or else
  if String.eqb op "xor" then Some w_xor else
  if String.eqb op "byte" then Some w_byte else
  if String.eqb op "signextend" then Some w_signextend else
  if String.eqb op "mod" then Some w_mod else
  if String.eqb op "div" then Some w_div else
  if String.eqb op "sdiv" then Some w_sdiv else
  if String.eqb op "smod" then Some w_smod else
  if String.eqb op "shr" then Some w_shr else
  if String.eqb op "shl" then Some w_shl else
  if String.eqb op "sar" then Some w_sar else
  if String.eqb op "eq" then Some w_eq else
  if String.eqb op "lt" then Some w_lt else
  if String.eqb op "gt" then Some w_gt else
  if String.eqb op "slt" then Some w_slt else
  if String.eqb op "sgt" then Some w_sgt else
  if String.eqb op "iszero" then Some (fun a _ => w_iszero a) else
  if String.eqb op "not" then Some (fun a _ => w_not a) else None.

(* ------------------------------------------------------------------ syntax *)
Inductive operand := OLit (v : Z) | OVar (x : N) | OLab (l : N).
(* i_args in the order of IRInstruction.operands (the LAST element is the first EVM operand) *)
Record inst := mkI { i_op : string; i_args : list operand; i_outs : list N }.
Definition block := list inst.
Definition func := list block.   (* block label = index; entry block = 0 *)

Definition is_lab (o : operand) : bool := match o with OLab _ => true | _ => false end.
Definition is_var (x : N) (o : operand) : bool := match o with OVar y => N.eqb x y | _ => false end.
Definition has_label (l : list operand) : bool := existsb is_lab l.
Definition is_unary (op : string) : bool := String.eqb op "iszero" || String.eqb op "not".
Definition is_phi (ins : inst) : bool := String.eqb (i_op ins) "phi".

(* ------------------------------------------------------------------ abstract environments *)
Definition aenv := list (N * vrange).
Fixpoint aget (e : aenv) (x : N) : vrange :=
  match e with [] => TOP | (y, r) :: t => if N.eqb x y then r else aget t x end.
Fixpoint aremove (e : aenv) (x : N) : aenv :=
  match e with [] => [] | (y, r) :: t => if N.eqb x y then aremove t x else (y, r) :: aremove t x end.
Definition awrite (e : aenv) (x : N) (r : vrange) : aenv :=
  if vr_is_top r then aremove e x else (x, r) :: aremove e x.

Definition wfb (r : vrange) : bool :=
  match r with IV lo hi => (- HALF <=? lo) && (lo <=? hi) && (hi <=? W - 1) | _ => true end.
Definition vr_le (a b : vrange) : bool :=
  match b with
  | TOP => true
  | BOT => match a with BOT => true | _ => false end
  | IV l2 h2 => match a with BOT => true | TOP => false | IV l1 h1 => (l2 <=? l1) && (h1 <=? h2) end
  end.

Definition orange (e : aenv) (o : operand) : vrange :=
  match o with OLit v => vr_constant (to_signed (v mod W)) | OVar x => aget e x | OLab _ => TOP end.

(* _evaluate_inst, restricted to the instruction shapes the concrete semantics determines (anything else: TOP) *)
Definition transfer (e : aenv) (ins : inst) : res vrange :=
  if has_label (i_args ins) then Ok TOP else
  match i_outs ins with
  | [_] =>
    if String.eqb (i_op ins) "assign" then
      match i_args ins with [a] => Ok (orange e a) | _ => Ok TOP end
    else match word_op (i_op ins) with
    | None => Ok TOP
    | Some _ =>
      if is_unary (i_op ins) then
        match i_args ins with [a] => GenRange.eval_op (i_op ins) (orange e a) TOP | _ => Ok TOP end
      else
        match i_args ins with
        | [a2; a1] =>
          match a1, a2 with
          | OVar x, OVar y =>
            if String.eqb (i_op ins) "xor" && N.eqb x y then
              Ok (if vr_is_empty (aget e x) then BOT else vr_constant 0)
            else GenRange.eval_op (i_op ins) (orange e a1) (orange e a2)
          | _, _ => GenRange.eval_op (i_op ins) (orange e a1) (orange e a2)
          end
        | _ => Ok TOP
        end
    end
  | _ => Ok TOP
  end.

(* _run_block: one instruction *)
Definition step_abs (e : aenv) (ins : inst) : res aenv :=
  match i_outs ins with
  | [] => Ok e
  | outs => r <- transfer e ins ;;
            if wfb r then Ok (fold_left (fun e' o => awrite e' o r) outs e) else Err TypeErr
  end.
Fixpoint run_abs (e : aenv) (l : list inst) : res aenv :=
  match l with [] => Ok e | ins :: t => e' <- step_abs e ins ;; run_abs e' t end.

(* ------------------------------------------------------------------ definitions available at the end of a block *)
Definition fact := (N * (string * list operand))%type.
Definition fact_op (op : string) : bool :=
  String.eqb op "assign" || String.eqb op "iszero" || String.eqb op "eq" || String.eqb op "lt" || String.eqb op "gt"
  || String.eqb op "slt" || String.eqb op "sgt" || String.eqb op "add" || String.eqb op "sub".
Definition mentions (f : fact) (x : N) : bool := N.eqb (fst f) x || existsb (is_var x) (snd (snd f)).

Definition cenv := N -> Z.
Definition oval (lv : N -> Z) (c : cenv) (o : operand) : Z :=
  match o with OLit v => v mod W | OVar x => c x | OLab l => lv l end.

(* value computed by an instruction, when the semantics determines it *)
Definition sem_fun (lv : N -> Z) (ins : inst) : option (cenv -> Z) :=
  if has_label (i_args ins) then None else
  match i_outs ins with
  | [_] =>
    if String.eqb (i_op ins) "assign" then
      match i_args ins with [a] => Some (fun c => oval lv c a) | _ => None end
    else match word_op (i_op ins) with
    | None => None
    | Some w =>
      if is_unary (i_op ins) then
        match i_args ins with [a] => Some (fun c => w (oval lv c a) 0) | _ => None end
      else
        match i_args ins with [a2; a1] => Some (fun c => w (oval lv c a1) (oval lv c a2)) | _ => None end
    end
  | _ => None
  end.
Definition determined (ins : inst) : bool :=
  match sem_fun (fun _ => 0) ins with Some _ => true | None => false end.

Definition facts_step (F : list fact) (ins : inst) : list fact :=
  let F' := filter (fun f => negb (existsb (mentions f) (i_outs ins))) F in
  match i_outs ins with
  | [o] => if fact_op (i_op ins) && determined ins && negb (existsb (is_var o) (i_args ins))
           then (o, (i_op ins, i_args ins)) :: F' else F'
  | _ => F'
  end.
Definition facts_of (l : list inst) : list fact := fold_left facts_step l [].
Fixpoint find_fact (F : list fact) (x : N) : option (string * list operand) :=
  match F with [] => None | (y, d) :: t => if N.eqb x y then Some d else find_fact t x end.

(* ------------------------------------------------------------------ branch refinement (_apply_condition) *)
Definition lit_ok (v : Z) : bool := (- HALF <=? v) && (v <=? W - 1).

Definition write_opt (St : aenv) (x : N) (r : res (option vrange)) : res aenv :=
  match r with
  | Ok (Some R) => if wfb R then Ok (awrite St x R) else Err TypeErr
  | Ok None => Ok St
  | Err e => Err e
  end.

Definition apply_iszero (args : list operand) (is_true : bool) (St : aenv) : res aenv :=
  match args with
  | [OVar t] => if is_true then Ok (awrite St t (vr_constant 0)) else write_opt St t (refine_iszero_false (aget St t))
  | _ => Ok St
  end.
Definition apply_eq (args : list operand) (is_true : bool) (St : aenv) : res aenv :=
  if negb is_true then Ok St else
  match args with
  | [OLit v; OVar x] => Ok (awrite St x (vr_constant (to_signed (v mod W))))
  | [OVar y; OLit v] => Ok (awrite St y (vr_constant (to_signed (v mod W))))
  | [OVar y; OVar x] =>
      match refine_eq_vars (aget St x) (aget St y) with
      | Ok (Some R) => if wfb R then Ok (awrite (awrite St x R) y R) else Err TypeErr
      | Ok None => Ok St
      | Err e => Err e
      end
  | _ => Ok St
  end.
Definition apply_compare (op : string) (args : list operand) (is_true : bool) (St : aenv) : res aenv :=
  match args with
  | [OLit v; OVar x] => if lit_ok v then write_opt St x (refine_compare_left (aget St x) v op is_true) else Err TypeErr
  | [OVar y; OLit v] => if lit_ok v then write_opt St y (refine_compare_right (aget St y) v op is_true) else Err TypeErr
  | _ => Ok St
  end.
Definition is_cmp_op (op : string) : bool :=
  String.eqb op "lt" || String.eqb op "gt" || String.eqb op "slt" || String.eqb op "sgt".

Fixpoint apply_cond (n : nat) (F : list fact) (o : operand) (is_true : bool) (St : aenv) : res aenv :=
  match n with
  | O => Ok St
  | Datatypes.S n' =>
    match o with
    | OVar c =>
      match find_fact F c with
      | None => Ok St
      | Some (op, args) =>
        if String.eqb op "assign" then
          match args with [a] => apply_cond n' F a is_true St | _ => Ok St end
        else if String.eqb op "iszero" then apply_iszero args is_true St
        else if String.eqb op "eq" then apply_eq args is_true St
        else if is_cmp_op op then apply_compare op args is_true St
        else Ok St
      end
    | _ => Ok St
    end
  end.

(* ------------------------------------------------------------------ CFG edges *)
Fixpoint leading_phis (b : block) : list inst :=
  match b with ins :: t => if is_phi ins then ins :: leading_phis t else [] | [] => [] end.
Fixpoint body (b : block) : list inst :=
  match b with ins :: t => if is_phi ins then body t else b | [] => [] end.
Definition labels_of (l : list operand) : list N :=
  flat_map (fun o => match o with OLab x => [x] | _ => [] end) l.
Definition term_of (b : block) : option inst := match rev b with ins :: _ => Some ins | [] => None end.
Definition succs (ins : inst) : list N :=
  if String.eqb (i_op ins) "jmp" || String.eqb (i_op ins) "jnz" || String.eqb (i_op ins) "djmp" then labels_of (i_args ins) else [].
Fixpoint phi_pairs (l : list operand) : list (N * N) :=
  match l with OLab p :: OVar v :: t => (p, v) :: phi_pairs t | _ => [] end.
Definition phi_out (ins : inst) : option N := match i_outs ins with [o] => Some o | _ => None end.

(* _edge_state *)
Definition edge_state (fuel : nat) (p : block) (X : aenv) (b : N) : res aenv :=
  match term_of p with
  | Some T =>
    if String.eqb (i_op T) "jnz" then
      match i_args T with
      | [cond; OLab t; OLab f] =>
        if N.eqb t f then Ok X
        else if N.eqb t b then apply_cond fuel (facts_of (body p)) cond true X
        else if N.eqb f b then apply_cond fuel (facts_of (body p)) cond false X
        else Ok X
      | _ => Ok X
      end
    else Ok X
  | None => Ok X
  end.

(* the certificate entry state Eb of block blk_b absorbs the edge state St coming from predecessor p *)
Definition edge_ok (St : aenv) (blk_b : block) (Eb : aenv) (p : N) : bool :=
  let phis := leading_phis blk_b in
  forallb (fun xr : N * vrange =>
    let x := fst xr in
    let r := aget Eb x in
    match filter (fun ins => match phi_out ins with Some o => N.eqb o x | None => false end) phis with
    | [] => vr_le (aget St x) r
    | Is => forallb (fun ins => forallb (fun pv : N * N => if N.eqb (fst pv) p then vr_le (aget St (snd pv)) r else true)
                                     (phi_pairs (i_args ins))) Is
    end) Eb.

Definition env_wf (e : aenv) : bool := forallb (fun xr : N * vrange => wfb (snd xr)) e.
Definition block_shape_ok (b : block) : bool :=
  (* phis only at the head; each head phi has one output and label/variable pairs only *)
  forallb (fun ins => negb (is_phi ins)) (body b) &&
  forallb (fun ins => match phi_out ins with Some _ => true | None => false end
                    && (Nat.eqb (List.length (i_args ins)) (2 * List.length (phi_pairs (i_args ins))))) (leading_phis b).

Definition nth_block (f : func) (b : N) : block := nth (N.to_nat b) f [].
Definition nth_env (E : list aenv) (b : N) : aenv := nth (N.to_nat b) E [].

Definition check_block (fuel : nat) (f : func) (E : list aenv) (p : N) : bool :=
  let blk := nth_block f p in
  block_shape_ok blk && env_wf (nth_env E p) &&
  match run_abs (nth_env E p) (body blk) with
  | Err _ => false
  | Ok X =>
    match term_of blk with
    | None => true
    | Some T =>
      forallb (fun b => (N.ltb b (N.of_nat (List.length f))) &&
                        match edge_state fuel blk X b with
                        | Ok St => edge_ok St (nth_block f b) (nth_env E b) p
                        | Err _ => false
                        end) (succs T)
    end
  end.

Definition check (f : func) (E : list aenv) : bool :=
  let fuel := Datatypes.S (List.length (List.concat f)) in
  Nat.eqb (List.length E) (List.length f) &&
  match E with [] => true | e0 :: _ => match e0 with [] => true | _ => false end end &&
  forallb (fun p => check_block fuel f E (N.of_nat p)) (seq 0 (List.length f)).

(* ------------------------------------------------------------------ concrete semantics *)
Definition cenv_ok (c : cenv) : Prop := forall x, 0 <= c x < W.
Definition lv_ok (lv : N -> Z) : Prop := forall l, 0 <= lv l < W.

(* `assert a` only continues when a is non-zero (otherwise the execution reverts: no successor configuration) *)
Definition assert_passes (lv : N -> Z) (ins : inst) (c : cenv) : Prop :=
  String.eqb (i_op ins) "assert" = true -> forall a, i_args ins = [a] -> oval lv c a <> 0.

Definition step_conc (lv : N -> Z) (ins : inst) (c c' : cenv) : Prop :=
  (forall x, ~ In x (i_outs ins) -> c' x = c x) /\
  (forall x, In x (i_outs ins) -> 0 <= c' x < W) /\
  (forall g o, sem_fun lv ins = Some g -> i_outs ins = [o] -> c' o = g c) /\
  assert_passes lv ins c.

Definition targets (lv : N -> Z) (ins : inst) (c : cenv) : list N :=
  if String.eqb (i_op ins) "jmp" then match i_args ins with [OLab l] => [l] | _ => [] end
  else if String.eqb (i_op ins) "jnz" then
    match i_args ins with
    | [cond; OLab t; OLab f] => if oval lv c cond =? 0 then [f] else [t]
    | _ => []
    end
  else if String.eqb (i_op ins) "djmp" then labels_of (i_args ins)
  else [].

Definition phi_assign (phis : list inst) (p : N) (c c' : cenv) : Prop :=
  (forall x, (forall ins, In ins phis -> phi_out ins <> Some x) -> c' x = c x) /\
  (forall ins o, In ins phis -> phi_out ins = Some o -> exists v, In (p, v) (phi_pairs (i_args ins)) /\ c' o = c v).

(* reach f lv b k c: control is in block b, the head phis and the first k body instructions have been executed *)
Inductive reach (f : func) (lv : N -> Z) : N -> nat -> cenv -> Prop :=
| r_init c : cenv_ok c -> reach f lv 0%N 0%nat c
| r_step b k c c' ins : reach f lv b k c -> nth_error (body (nth_block f b)) k = Some ins ->
    step_conc lv ins c c' -> reach f lv b (Datatypes.S k) c'
| r_jump p c b c' T : reach f lv p (List.length (body (nth_block f p))) c ->
    term_of (nth_block f p) = Some T -> In b (targets lv T c) ->
    phi_assign (leading_phis (nth_block f b)) p c c' -> reach f lv b 0%nat c'.

Definition env_at (f : func) (E : list aenv) (b : N) (k : nat) : res aenv :=
  run_abs (nth_env E b) (firstn k (body (nth_block f b))).
