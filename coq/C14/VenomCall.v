(* C14 / VenomCall.v -- Venom.v extended with internal calls (`invoke` / `ret` / `param`), executable, no proofs here.

   Venom.v is left untouched (other developments are stated against it); this layer re-uses `exec_inst` for every
   instruction except the two call instructions, which the exporter encodes as `O_unknown INVOKE` / `O_unknown RET`:
     * `outs = invoke @g, a1, ..., an`   args = OLab g :: a1 .. an   (operands in the order vyper/venom/call_layout.py
       binds them to the callee's params: user args, then the hidden FMP operand);
     * `ret v1, ..., vk, retpc`           args = v1 .. vk, retpc      (the return values in the order they are bound to the
       invoke's outputs; the return pc itself is not modelled: control returns to the instruction after the invoke);
     * the k-th argument-consuming `param` / `fmp_param` of the callee's entry block is exported as a copy from the reserved
       variable `ARGBASE + k`, the return-pc param as the constant 0; a call binds the argument values to these variables
       in a fresh variable map (every frame has its own variables; the store is shared).
   A `stop` / `return` / `revert` / failing assert inside a callee ends the whole run.
   `crun` is the fuelled interpreter of a context (map from function labels to functions) started in a given function. *)
From Coq Require Import ZArith List Bool FMapPositive.
From Verif Require Import Base.Word256 C14.Venom.
Import ListNotations.
Open Scope Z_scope.

Definition INVOKE : Z := -1.
Definition RET : Z := -2.

Definition is_invoke (o : opc) : bool := match o with O_unknown c => c =? INVOKE | _ => false end.
Definition is_ret (o : opc) : bool := match o with O_unknown c => c =? RET | _ => false end.
Definition is_call_op (o : opc) : bool := is_invoke o || is_ret o.

Fixpoint but_last {A} (l : list A) : list A :=
  match l with [] => [] | [_] => [] | x :: t => x :: but_last t end.

(* how a function run ends *)
Inductive chalt := CHalt (h : halt) | CRet (vals : list Z).

Inductive cstep := CNext (vs : vmap) (st : store) | CJump (l : positive) (vs : vmap) (st : store) | CStop (h : chalt) (st : store).

Definition callh := positive -> list Z -> store -> chalt * store.

Definition lift (r : step_res) : cstep :=
  match r with SNext v s => CNext v s | SJump l v s => CJump l v s | SHalt h s => CStop (CHalt h) s end.

Definition cexec_inst (E : env) (X : oracle) (K : callh) (i : inst) (vs : vmap) (st : store) : cstep :=
  if is_invoke (i_op i) then
    match i_args i with
    | OLab g :: rest =>
        match eval_ops vs rest with
        | Some vals =>
            match K g vals st with
            | (CRet rv, st') =>
                match bind_outs vs (i_outs i) rv with
                | Some vs' => CNext vs' st'
                | None => CStop (CHalt (HStuck EArity)) st'
                end
            | (CHalt h, st') => CStop (CHalt h) st'
            end
        | None => CStop (CHalt (HStuck EUndef)) st
        end
    | _ => CStop (CHalt (HStuck EArity)) st
    end
  else if is_ret (i_op i) then
    match eval_ops vs (but_last (i_args i)) with
    | Some vals => CStop (CRet vals) st
    | None => CStop (CHalt (HStuck EUndef)) st
    end
  else lift (exec_inst E X i vs st).

Fixpoint cexec_insts (E : env) (X : oracle) (K : callh) (l : list inst) (vs : vmap) (st : store) : cstep :=
  match l with
  | [] => CStop (CHalt (HStuck EFallthrough)) st
  | i :: rest =>
      match cexec_inst E X K i vs st with
      | CNext vs' st' => cexec_insts E X K rest vs' st'
      | r => r
      end
  end.

Definition cblock_res (E : env) (X : oracle) (K : callh) (prev : positive) (insts : list inst) (vs : vmap) (st : store) : cstep :=
  match exec_phis prev insts vs vs with
  | None => CStop (CHalt (HStuck EUndef)) st
  | Some (vs1, rest) => cexec_insts E X K rest vs1 st
  end.

Definition ctxt := PositiveMap.t func.

Definition ARGBASE : positive := 1048576%positive.

Fixpoint bind_args (k : positive) (vals : list Z) (vs : vmap) : vmap :=
  match vals with [] => vs | v :: r => bind_args (Pos.succ k) r (PositiveMap.add k v vs) end.

Definition frame0 (vals : list Z) : vmap := bind_args ARGBASE vals (PositiveMap.empty Z).

Fixpoint crun_from (fuel : nat) (E : env) (X : oracle) (C : ctxt) (f : func) (cur prev : positive) (vs : vmap) (st : store)
  : chalt * store :=
  match fuel with
  | O => (CHalt (HStuck EFuel), st)
  | S n =>
      let K : callh := fun g vals s =>
        match PositiveMap.find g C with
        | None => (CHalt (HStuck EBadLabel), s)
        | Some fg => crun_from n E X C fg (f_entry fg) (f_entry fg) (frame0 vals) s
        end in
      match PositiveMap.find cur (f_blocks f) with
      | None => (CHalt (HStuck EBadLabel), st)
      | Some insts =>
          match cblock_res E X K prev insts vs st with
          | CJump l vs2 st2 => crun_from n E X C f l cur vs2 st2
          | CStop h st2 => (h, st2)
          | CNext _ st2 => (CHalt (HStuck EFallthrough), st2)
          end
      end
  end.

(* the call handler at a given fuel *)
Definition call (n : nat) (E : env) (X : oracle) (C : ctxt) : callh :=
  fun g vals s =>
    match PositiveMap.find g C with
    | None => (CHalt (HStuck EBadLabel), s)
    | Some fg => crun_from n E X C fg (f_entry fg) (f_entry fg) (frame0 vals) s
    end.

Definition crun (fuel : nat) (E : env) (X : oracle) (C : ctxt) (f : func) (st : store) : chalt * store :=
  crun_from fuel (mkEnv (e_calldata E) (e_words E) (e_hash E) (e_immbase E) (f_code f)) X C f (f_entry f) (f_entry f)
            (PositiveMap.empty Z) st.

(* ---------------------------------------------------------------- observation *)
Definition to_halt (h : chalt) : halt := match h with CHalt x => x | CRet _ => HStuck EFallthrough end.

Definition cobserve (init : store) (r : chalt * store) : obs := observe init (to_halt (fst r), snd r).

Definition cstuck_info (r : chalt * store) : list Z := stuck_info (to_halt (fst r), snd r).

Definition ctxt_of (l : list (positive * func)) : ctxt :=
  fold_left (fun m kv => PositiveMap.add (fst kv) (snd kv) m) l (PositiveMap.empty func).
