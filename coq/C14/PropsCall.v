(* C14 / PropsCall.v -- property theorems for the call semantics (VenomCall.v) and the composition of the pass validators
   over whole contexts. *)
From Coq Require Import ZArith List Bool FMapPositive.
From Verif Require Import Base.Word256 C14.Venom C14.VenomProofs C14.VenomSim C14.ValRUV C14.ValDFT C14.ValCopy
  C14.VenomCall C14.VenomCallSim C14.ValCall.
Import ListNotations.
Open Scope Z_scope.

Theorem crun_is_fuel_monotone : forall n k E X C f st r, crun n E X C f st = r -> cterminated r -> crun (n + k) E X C f st = r.
Proof. exact crun_fuel_mono. Qed.
Print Assumptions crun_is_fuel_monotone.

Theorem crun_is_deterministic : forall n m E X C f st r1 r2,
  crun n E X C f st = r1 -> crun m E X C f st = r2 -> cterminated r1 -> cterminated r2 -> r1 = r2.
Proof. exact crun_deterministic. Qed.
Print Assumptions crun_is_deterministic.

(* a function is unchanged or its pass output was accepted by one of the proved validators *)
Definition fn_ok1 (fb fa : func) : Prop := fb = fa \/ ruv_check fb fa = true \/ cdft_check fb fa = true.
Definition fn_ok2 (fb fa : func) : Prop := fn_ok1 fb fa \/ exists U C, copy_check U C fb fa = true.

Definition ctx_ok (ok : func -> func -> Prop) (Cb Ca : ctxt) : Prop :=
  forall g, match PositiveMap.find g Cb, PositiveMap.find g Ca with
            | Some fb, Some fa => ok fb fa
            | None, None => True
            | _, _ => False
            end.

Lemma fn_ok1_sim : forall P fb fa, fn_ok1 fb fa -> fn_sim P fb fa.
Proof.
  intros P fb fa [->|[H|H]]. - apply fn_sim_refl. - apply ruv_fn_sim. assumption. - apply cdft_fn_sim. assumption.
Qed.

Lemma fn_ok2_sim : forall fb fa, fn_ok2 fb fa -> fn_sim True fb fa.
Proof. intros fb fa [H|[U [C H]]]. - apply fn_ok1_sim. assumption. - eapply copy_fn_sim; eauto. Qed.

(* RemoveUnusedVariables / DFT outputs (and unchanged functions) anywhere in a context: every run of the context that is not
   stuck is reproduced -- same way of ending, data and observation *)
Theorem validators_compose_one_sided : forall Cb Ca fb fa, ctx_ok fn_ok1 Cb Ca -> fn_ok1 fb fa ->
  forall n E X st, ~ rstuck (crun n E X Cb fb st) ->
  Robs (crun n E X Ca fa st) (crun n E X Cb fb st) /\ cobserve st (crun n E X Ca fa st) = cobserve st (crun n E X Cb fb st).
Proof.
  intros Cb Ca fb fa CO FO n E X st NS.
  assert (CS : ctx_sim False Cb Ca).
  { intros g. specialize (CO g). destruct (PositiveMap.find g Cb); destruct (PositiveMap.find g Ca); auto. apply fn_ok1_sim. assumption. }
  apply (ctx_crun_observe False Cb Ca fb fa CS (fn_ok1_sim False fb fa FO) n E X st NS). intros [].
Qed.
Print Assumptions validators_compose_one_sided.

(* all validators, including the copy validator: when neither run is stuck *)
Theorem validators_compose : forall Cb Ca fb fa, ctx_ok fn_ok2 Cb Ca -> fn_ok2 fb fa ->
  forall n E X st, ~ rstuck (crun n E X Cb fb st) -> ~ rstuck (crun n E X Ca fa st) ->
  Robs (crun n E X Ca fa st) (crun n E X Cb fb st) /\ cobserve st (crun n E X Ca fa st) = cobserve st (crun n E X Cb fb st).
Proof.
  intros Cb Ca fb fa CO FO n E X st NB NA.
  assert (CS : ctx_sim True Cb Ca).
  { intros g. specialize (CO g). destruct (PositiveMap.find g Cb); destruct (PositiveMap.find g Ca); auto. apply fn_ok2_sim. assumption. }
  apply (ctx_crun_observe True Cb Ca fb fa CS (fn_ok2_sim fb fa FO) n E X st NB). intros _. exact NA.
Qed.
Print Assumptions validators_compose.

(* replacing ONE function of a context by a validated version (the usual situation: a pass ran on function g) *)
Corollary validated_function_in_context : forall C g fb fa top, PositiveMap.find g C = Some fb -> fn_ok1 fb fa ->
  forall n E X st, ~ rstuck (crun n E X C top st) ->
  cobserve st (crun n E X (PositiveMap.add g fa C) top st) = cobserve st (crun n E X C top st).
Proof.
  intros C g fb fa top F FO n E X st NS.
  assert (CS : ctx_sim False C (PositiveMap.add g fa C)) by (eapply ctx_sim_replace; eauto; apply fn_ok1_sim; assumption).
  apply (ctx_crun_observe False C (PositiveMap.add g fa C) top top CS (fn_sim_refl False top) n E X st NS). intros [].
Qed.
Print Assumptions validated_function_in_context.

(* non-vacuity: a caller and a callee; the callee's unused add is removed; the run returns 7 + 1 *)
Definition I_ (outs : list positive) (o : opc) (a : list operand) := Inst outs o a.
Definition callee_b : func := func_of 1%positive
  [(1%positive, [I_ [1%positive] O_assign [OVar ARGBASE]; I_ [2%positive] O_add [OVar 1; OLit 1]; I_ [3%positive] O_mul [OVar 1; OLit 2];
                 I_ [] (O_unknown RET) [OVar 2; OLit 0]])] [].
Definition callee_a : func := func_of 1%positive
  [(1%positive, [I_ [1%positive] O_assign [OVar ARGBASE]; I_ [2%positive] O_add [OVar 1; OLit 1];
                 I_ [] (O_unknown RET) [OVar 2; OLit 0]])] [].
Definition caller : func := func_of 1%positive
  [(1%positive, [I_ [1%positive] O_calldataload [OLit 0]; I_ [2%positive] (O_unknown INVOKE) [OLab 9; OVar 1];
                 I_ [] O_mstore [OLit 0; OVar 2]; I_ [] O_return [OLit 0; OLit 32]])] [].
Definition ctx_b : ctxt := ctxt_of [(9%positive, callee_b)].
Definition ex_env : env := mkEnv [0;0;0;0;0;0;0;0;0;0;0;0;0;0;0;0;0;0;0;0;0;0;0;0;0;0;0;0;0;0;0;7] [] [] 0 [].

Example call_runs : fst (crun 10 ex_env no_oracle ctx_b caller store0)
                    = CHalt (HReturn [0;0;0;0;0;0;0;0;0;0;0;0;0;0;0;0;0;0;0;0;0;0;0;0;0;0;0;0;0;0;0;8]).
Proof. vm_compute. reflexivity. Qed.
Example callee_validated : ruv_check callee_b callee_a = true. Proof. vm_compute. reflexivity. Qed.
Example call_runs_after : fst (crun 10 ex_env no_oracle (PositiveMap.add 9%positive callee_a ctx_b) caller store0)
                          = fst (crun 10 ex_env no_oracle ctx_b caller store0).
Proof. vm_compute. reflexivity. Qed.
