(* C14: the aliasing facts that load elimination / dead store elimination / memmerging rely on. *)
From Coq Require Import ZArith Bool List String.
From Verif Require Import Base.PyInt C14.RangeBase C14.MemLocBase C14.GenMemLoc C14.MemLocSound.
Open Scope Z_scope.

Theorem memloc_disjoint_sound :
  (forall l1 l2, exists b, may_overlap l1 l2 = Ok b) /\
  (forall l1 l2, may_overlap l1 l2 = Ok false -> forall t k, den l1 t k -> den l2 t k -> False) /\
  (forall a b, completely_contains a b = Ok true -> forall t k, den b t k -> den a t k).
Proof. split; [exact may_overlap_total | split; [exact may_overlap_sound | exact completely_contains_sound]]. Qed.
Print Assumptions memloc_disjoint_sound.
