From Coq Require Import ZArith Znumtheory Bool List String Lia.
From Verif Require Import Base.Word256 Base.PyInt Base.WordLemmas C14.RangeBase C14.GenRange C14.RangeSound C14.RangeLemmas2.
From Verif Require C14.EvalSound.
Import ListNotations.
Open Scope Z_scope.
Ltac Zify.zify_post_hook ::= Z.to_euclidean_division_equations.

(* sign extension of the low k bits of x, as a signed integer *)
Definition sx (k x : Z) : Z :=
  let low := x mod 2 ^ k in if low <? 2 ^ (k - 1) then low else low - 2 ^ k.

Lemma pow_facts i : 0 <= i < 32 ->
  let k := 8 * (i + 1) in
  0 < 2 ^ (k - 1) /\ 2 ^ k = 2 * 2 ^ (k - 1) /\ 2 ^ k <= W /\ (2 ^ k | W).
Proof.
  intros Hi k. assert (Hk: 8 <= k <= 256) by (unfold k; lia).
  split; [apply Z.pow_pos_nonneg; lia|].
  split; [replace k with (Z.succ (k - 1)) at 1 by lia; apply Z.pow_succ_r; lia|].
  split; [change W with (2 ^ 256); apply Z.pow_le_mono_r; lia|].
  exists (2 ^ (256 - k)). change W with (2 ^ 256). rewrite <- Z.pow_add_r by lia. f_equal. lia.
Qed.

Lemma sx_sound i x : 0 <= i < 32 -> 0 <= x < W ->
  - 2 ^ (8 * (i + 1) - 1) <= sx (8 * (i + 1)) x <= 2 ^ (8 * (i + 1) - 1) - 1 /\
  sx (8 * (i + 1)) x mod W = w_signextend i x.
Proof.
  intros Hi Hx. destruct (pow_facts i Hi) as (P0 & P2 & PW & PD).
  unfold sx, w_signextend. cbv zeta.
  set (k := 8 * (i + 1)) in *. set (P := 2 ^ (k - 1)) in *.
  pose proof (Z.mod_pos_bound x (2 ^ k) ltac:(lia)) as LB.
  set (low := x mod 2 ^ k) in *.
  destruct (i <? 31) eqn:E31; b2p.
  - destruct (low <? P) eqn:EL; b2p.
    + split; [lia | apply Z.mod_small; lia].
    + split; [lia|]. symmetry. apply Z.mod_unique with (q := -1); lia.
  - assert (i = 31) by lia. subst i. subst k P low. change (2 ^ (8 * (31 + 1))) with W in *.
    change (2 ^ (8 * (31 + 1) - 1)) with HALF in *. rewrite (Z.mod_small x W Hx) in *.
    destruct (x <? HALF) eqn:EL; b2p.
    + split; [lia | apply Z.mod_small; lia].
    + split; [wl|]. symmetry. apply Z.mod_unique with (q := -1); lia.
Qed.

Lemma sx_id i v : 0 <= i < 32 ->
  - 2 ^ (8 * (i + 1) - 1) <= v <= 2 ^ (8 * (i + 1) - 1) - 1 -> sx (8 * (i + 1)) (v mod W) = v.
Proof.
  intros Hi Hv. destruct (pow_facts i Hi) as (P0 & P2 & PW & PD).
  unfold sx. cbv zeta. set (k := 8 * (i + 1)) in *. set (P := 2 ^ (k - 1)) in *.
  rewrite <- (Zmod_div_mod (2 ^ k) W v) by (try exact PD; lia).
  destruct (Z_le_dec 0 v).
  - rewrite (Z.mod_small v (2 ^ k)) by lia.
    assert (v <? P = true) as -> by (apply Z.ltb_lt; lia). reflexivity.
  - assert (M: v + 2 ^ k = v mod 2 ^ k) by (apply Z.mod_unique with (q := -1); lia).
    rewrite <- M. assert (v + 2 ^ k <? P = false) as -> by (apply Z.ltb_ge; lia). lia.
Qed.

(* the constant case of the evaluator computes sx of the wrapped constant *)
Lemma sx_code i c : 0 <= i < 32 ->
  let k := 8 * (i + 1) in
  let low := Z.land c (2 ^ k - 1) in
  (if z2b (Z.land low (2 ^ (k - 1))) then low - 2 ^ k else low) = sx k (c mod W).
Proof.
  intros Hi k low. destruct (pow_facts i Hi) as (P0 & P2 & PW & PD). fold k in P0, P2, PW, PD.
  assert (Hk: 8 <= k <= 256) by (unfold k; lia).
  unfold sx. cbv zeta. rewrite <- (Zmod_div_mod (2 ^ k) W c) by (try exact PD; lia).
  assert (L: low = c mod 2 ^ k).
  { unfold low. replace (2 ^ k - 1) with (Z.ones k) by (rewrite Z.ones_equiv; lia).
    apply Z.land_ones. lia. }
  rewrite <- L. pose proof (Z.mod_pos_bound c (2 ^ k) ltac:(lia)) as LB. rewrite <- L in LB.
  clearbody low. set (P := 2 ^ (k - 1)) in *.
  unfold z2b. unfold P at 1. rewrite EvalSound.land_pow2_bit, Z.testbit_eqb by lia. fold P.
  destruct (low <? P) eqn:EL; b2p.
  - rewrite (Z.div_small low P) by lia. cbn. reflexivity.
  - assert (Q: 1 = low / P) by (apply Z.div_unique with (r := low - P); lia).
    rewrite <- Q. cbn. assert (P =? 0 = false) as -> by (apply Z.eqb_neq; lia). reflexivity.
Qed.

Theorem eval_signextend_sound : sound2w eval_signextend w_signextend.
Proof.
  intros A B a b WA WB IA IB MA MB; unfold eval_signextend; go2 A B; fixreps.
  all: lazymatch goal with
       | E : 32 <= ?i |- _ => unfold w_signextend;
           assert (E9: i <? 31 = false) by (apply Z.ltb_ge; lia); rewrite E9; sw v0
       | _ => idtac
       end.
  all: assert (Hi: 0 <= h1 mod W < 32) by lia.
  all: rewrite ?Z.shiftl_mul_pow2, ?Z.mul_1_l in * by lia.
  all: destruct (pow_facts (h1 mod W) Hi) as (P0 & P2 & PW & PD).
  all: try (pose proof (sx_code (h1 mod W) h2 Hi) as SC; cbv zeta in SC; rewrite E5 in SC; rewrite SC; clear SC).
  all: match goal with
       | |- False /\ True => exfalso; lia
       | |- (exists v, ?l <= v <= ?h /\ _) /\ _ => is_var l; is_var h;
           destruct (sx_sound (h1 mod W) (v0 mod W) Hi ltac:(assumption)) as [SB SM];
           rewrite (sx_id (h1 mod W) v0 Hi ltac:(lia)) in SM;
           (split; [exists v0; split; [lia | exact SM] | lia])
       | |- context [w_signextend _ ?x] =>
           destruct (sx_sound (h1 mod W) x Hi ltac:(assumption)) as [SB SM];
           (split; [exists (sx (8 * (h1 mod W + 1)) x); split; [lia | exact SM] | wl])
       end.
Qed.
