(* C14 / Venom.v -- reference semantics of core Venom IR (deep embedding, executable, no proofs here).

   Syntax     : operands (literal word / variable / label), instructions `Inst outs opcode args` with the arguments in
                EVM order (first = top of stack = first printed operand), basic blocks, functions.
   State      : SSA variables (`vmap`) + a `store` with one field per row of vyper/venom/effects.py (`Effects`).
   Semantics  : * "simple" instructions (no control flow, cannot halt) are given by `eff_sem` on the store and are run
                  through `wrapped`, which shows the instruction only the store fields in its semantic footprint
                  (`sem_reads ++ sem_writes`) and keeps only the fields in `sem_writes` of the result: the footprint of an
                  instruction is therefore explicit, and VenomProofs.v relates it to the regenerated effects.py table;
                * external interactions (call family, create, balance, extcode) are an oracle parameter `X`;
                * keccak is an explicit table (`e_hash`) supplied per run;
                * control flow: fuelled CFG interpreter `vrun` with simultaneous phi evaluation.
   Out of core (=> HStuck): invoke/ret/param/dret/retfmp (internal calls), dload/dloadbytes, gas, msize, selfdestruct.
   `offset @label, k` is resolved by the exporter to a literal in the virtual code image (f_code). *)
From Coq Require Import ZArith List Bool FMapPositive.
From Verif Require Import Base.Word256.
Import ListNotations.
Open Scope Z_scope.

(* ---------------------------------------------------------------- effects (rows of effects.py) *)
Inductive eff := STORAGE | TRANSIENT | MEMORY | IMMUTABLES | RETURNDATA | LOG | BALANCE | EXTCODE | FMP.

Definition eff_eqb (a b : eff) : bool :=
  match a, b with
  | STORAGE, STORAGE | TRANSIENT, TRANSIENT | MEMORY, MEMORY | IMMUTABLES, IMMUTABLES | RETURNDATA, RETURNDATA
  | LOG, LOG | BALANCE, BALANCE | EXTCODE, EXTCODE | FMP, FMP => true
  | _, _ => false
  end.

Fixpoint inb (x : eff) (l : list eff) : bool :=
  match l with [] => false | y :: t => eff_eqb x y || inb x t end.

Definition subsetb (a b : list eff) : bool := forallb (fun x => inb x b) a.
Definition disjointb (a b : list eff) : bool := forallb (fun x => negb (inb x b)) a.
Definition ALL_EFF : list eff := [STORAGE; TRANSIENT; MEMORY; IMMUTABLES; RETURNDATA; LOG; BALANCE; EXTCODE; FMP].

(* ---------------------------------------------------------------- syntax *)
Inductive operand := OLit (z : Z) | OVar (v : positive) | OLab (l : positive).

Inductive opc :=
  (* pure word arithmetic (Base/Word256.v) *)
  | O_add | O_sub | O_mul | O_div | O_sdiv | O_mod | O_smod | O_exp | O_addmod | O_mulmod
  | O_lt | O_gt | O_slt | O_sgt | O_eq | O_iszero | O_and | O_or | O_xor | O_not | O_byte | O_shl | O_shr | O_sar
  | O_signextend
  | O_assign
  | O_alloca                      (* exporter form: one literal argument = the address given to this allocation *)
  | O_env (k : nat)               (* constant environment word k (caller, callvalue, ...) *)
  | O_calldatasize | O_calldataload | O_calldatacopy
  | O_mload | O_mstore | O_mcopy | O_codecopy
  | O_bump | O_dalloca | O_getfmp | O_setfmp   (* FMP: threaded (bump) and virtual-register (dalloca/getfmp/setfmp) forms *)
  | O_sload | O_sstore | O_tload | O_tstore
  | O_iload | O_istore
  | O_sha3 | O_log
  | O_returndatasize | O_returndatacopy
  | O_call | O_staticcall | O_delegatecall | O_create | O_create2
  | O_balance | O_selfbalance | O_extcodesize | O_extcodehash | O_extcodecopy
  | O_nop
  (* control *)
  | O_phi | O_jmp | O_jnz | O_djmp | O_assert | O_assert_unreachable | O_return | O_revert | O_stop | O_invalid
  | O_unknown (code : Z).         (* anything else: executing it is HStuck *)

Record inst := Inst { i_outs : list positive; i_op : opc; i_args : list operand }.

(* f_code: virtual code image for the data segment, as (base address, bytes) segments; a `db @label` item is the
   2-byte virtual code address `label_addr label`, which is what `djmp` compares its operand with *)
Record func := Func { f_entry : positive; f_blocks : PositiveMap.t (list inst); f_code : list (Z * list Z) }.
Definition label_addr (l : positive) : Z := 256 + Zpos l.

(* ---------------------------------------------------------------- state *)
Definition bmap := PositiveMap.t Z.
Definition kpos (k : Z) : positive := Z.to_pos (k + 1).
Definition zget (m : bmap) (k : Z) : Z := match PositiveMap.find (kpos k) m with Some v => v | None => 0 end.
Definition zset (m : bmap) (k v : Z) : bmap := PositiveMap.add (kpos k) v m.
Definition bempty : bmap := PositiveMap.empty Z.

Definition logent := (list Z * list Z)%type.   (* topics, data bytes *)

Record store := mkStore {
  s_sto : bmap; s_tra : bmap; s_mem : bmap; s_imm : bmap; s_rd : list Z; s_log : list logent;
  s_bal : Z; s_ext : Z; s_fmp : Z }.

Definition INITIAL_FMP : Z := 2 ^ 34.
Definition store0 : store := mkStore bempty bempty bempty bempty [] [] 0 0 INITIAL_FMP.

Definition sel {A} (b : bool) (x y : A) : A := if b then x else y.

(* keep the fields in cs, default the others *)
Definition mask (cs : list eff) (s : store) : store :=
  mkStore (sel (inb STORAGE cs) (s_sto s) bempty) (sel (inb TRANSIENT cs) (s_tra s) bempty)
          (sel (inb MEMORY cs) (s_mem s) bempty) (sel (inb IMMUTABLES cs) (s_imm s) bempty)
          (sel (inb RETURNDATA cs) (s_rd s) []) (sel (inb LOG cs) (s_log s) [])
          (sel (inb BALANCE cs) (s_bal s) 0) (sel (inb EXTCODE cs) (s_ext s) 0) (sel (inb FMP cs) (s_fmp s) 0).

(* fields in cs from a, the others from b *)
Definition merge (cs : list eff) (a b : store) : store :=
  mkStore (sel (inb STORAGE cs) (s_sto a) (s_sto b)) (sel (inb TRANSIENT cs) (s_tra a) (s_tra b))
          (sel (inb MEMORY cs) (s_mem a) (s_mem b)) (sel (inb IMMUTABLES cs) (s_imm a) (s_imm b))
          (sel (inb RETURNDATA cs) (s_rd a) (s_rd b)) (sel (inb LOG cs) (s_log a) (s_log b))
          (sel (inb BALANCE cs) (s_bal a) (s_bal b)) (sel (inb EXTCODE cs) (s_ext a) (s_ext b))
          (sel (inb FMP cs) (s_fmp a) (s_fmp b)).

Definition vmap := PositiveMap.t Z.

Inductive err :=
  | EUnknown (code : Z) | ENeedHash (d : list Z) | EBounds | EExternal | EUndef | EArity | EFuel | EBadLabel
  | EFallthrough | EHuge | EPoison (k : Z).   (* poison consumed by: 1 branch 2 assert 4 key 5 hash 6 index 7 fmp *)

Inductive R (A : Type) := Ok (a : A) | Err (e : err).
Arguments Ok {A} _.
Arguments Err {A} _.

Record env := mkEnv {
  e_calldata : list Z;            (* bytes *)
  e_words : list Z;               (* O_env k *)
  e_hash : list (list Z * Z);     (* keccak table: preimage bytes -> digest *)
  e_immbase : Z;                  (* where iload/istore live in memory *)
  e_code : list (Z * list Z) }.   (* set by vrun from f_code *)

Definition oracle := opc -> list Z -> store -> option (Z * store).
Definition no_oracle : oracle := fun _ _ _ => None.

(* ---------------------------------------------------------------- bytes and memory *)
Definition MEMLIMIT : Z := 2 ^ 72.
Definition SIZELIMIT : Z := 2 ^ 16.

(* Uninitialised memory.  Before ConcretizeMemLocPass every `alloca` is its own region (the exporter places them from
   ALLOCA_BASE upwards, far apart); reading a byte of such a region that was never written is undefined in Venom (the
   concretised layout overlaps regions that are not live together), which is modelled by the poison byte/word POISON:
   poison is contagious through arithmetic, cannot be branched on / used as an address or key / hashed (=> HStuck), and
   an observation containing poison is refined by any value (obs_cmp).  Concrete low memory is zero-initialised (EVM). *)
Definition POISON : Z := -1.
Definition ALLOCA_BASE : Z := 2 ^ 36.
Definition mget (m : bmap) (a : Z) : Z :=
  match PositiveMap.find (kpos a) m with Some v => v | None => if ALLOCA_BASE <=? a then POISON else 0 end.

Fixpoint mread (m : bmap) (a : Z) (n : nat) : list Z :=
  match n with O => [] | S k => mget m a :: mread m (a + 1) k end.

Fixpoint mwrite (m : bmap) (a : Z) (bs : list Z) : bmap :=
  match bs with [] => m | b :: t => mwrite (zset m a b) (a + 1) t end.

Definition has_poison (l : list Z) : bool := existsb (fun x => x <? 0) l.
Definition bytes_to_word (bs : list Z) : Z := if has_poison bs then POISON else fold_left (fun acc b => acc * 256 + b) bs 0.

Fixpoint word_to_bytes_aux (n : nat) (w : Z) (acc : list Z) : list Z :=
  match n with O => acc | S k => word_to_bytes_aux k (w / 256) ((w mod 256) :: acc) end.
Definition word_to_bytes (w : Z) : list Z := if w <? 0 then repeat POISON 32 else word_to_bytes_aux 32 w [].

Fixpoint take_pad (n : nat) (l : list Z) : list Z :=
  match n with O => [] | S k => match l with [] => 0 :: take_pad k [] | x :: t => x :: take_pad k t end end.

Definition slice_pad (l : list Z) (off : Z) (n : nat) : list Z :=
  if off <? Z.of_nat (length l) then take_pad n (skipn (Z.to_nat off) l) else take_pad n [].

Fixpoint list_eqb (a b : list Z) : bool :=
  match a, b with
  | [], [] => true
  | x :: s, y :: t => (x =? y) && list_eqb s t
  | _, _ => false
  end.

Fixpoint hash_lookup (t : list (list Z * Z)) (d : list Z) : option Z :=
  match t with [] => None | (k, v) :: r => if list_eqb k d then Some v else hash_lookup r d end.

Definition okaddr (a n : Z) : bool := (0 <=? a) && (0 <=? n) && (a + n <=? MEMLIMIT) && (n <=? SIZELIMIT).

(* ---------------------------------------------------------------- semantic footprints of the simple instructions *)
Definition sem_reads (o : opc) : list eff :=
  match o with
  | O_mload | O_mcopy | O_sha3 | O_log | O_iload => [MEMORY]
  | O_sload => [STORAGE]
  | O_tload => [TRANSIENT]
  | O_dalloca | O_getfmp => [FMP]
  | O_returndatasize | O_returndatacopy => [RETURNDATA]
  | O_call | O_delegatecall | O_staticcall | O_create | O_create2 =>
      [STORAGE; TRANSIENT; MEMORY; RETURNDATA; LOG; BALANCE; EXTCODE]
  | O_balance | O_selfbalance => [BALANCE]
  | O_extcodesize | O_extcodehash | O_extcodecopy => [EXTCODE]
  | _ => []
  end.

Definition sem_writes (o : opc) : list eff :=
  match o with
  | O_mstore | O_mcopy | O_calldatacopy | O_codecopy | O_returndatacopy | O_extcodecopy | O_istore => [MEMORY]
  | O_sstore => [STORAGE]
  | O_tstore => [TRANSIENT]
  | O_dalloca | O_setfmp => [FMP]
  | O_log => [LOG]
  | O_call | O_delegatecall => [STORAGE; TRANSIENT; MEMORY; RETURNDATA; LOG; BALANCE; EXTCODE]
  | O_staticcall => [MEMORY; RETURNDATA]
  (* a constructor can re-enter its creator: storage and transient storage of the creator may change; the creator's
     memory cannot *)
  | O_create | O_create2 => [STORAGE; TRANSIENT; RETURNDATA; LOG; BALANCE; EXTCODE]
  | _ => []
  end.

(* opcodes handled by `eff_sem` (cannot halt, no control flow) *)
Definition is_simple (o : opc) : bool :=
  match o with
  | O_phi | O_jmp | O_jnz | O_djmp | O_assert | O_assert_unreachable | O_return | O_revert | O_stop | O_invalid | O_unknown _ => false
  | _ => true
  end.

(* ---------------------------------------------------------------- semantics of simple instructions on the store *)
Definition arith0 (o : opc) (a : list Z) : option Z :=
  match o, a with
  | O_add, [x; y] => Some (w_add x y) | O_sub, [x; y] => Some (w_sub x y) | O_mul, [x; y] => Some (w_mul x y)
  | O_div, [x; y] => Some (w_div x y) | O_sdiv, [x; y] => Some (w_sdiv x y) | O_mod, [x; y] => Some (w_mod x y)
  | O_smod, [x; y] => Some (w_smod x y) | O_exp, [x; y] => Some (w_exp x y)
  | O_addmod, [x; y; z] => Some (w_addmod x y z) | O_mulmod, [x; y; z] => Some (w_mulmod x y z)
  | O_lt, [x; y] => Some (w_lt x y) | O_gt, [x; y] => Some (w_gt x y) | O_slt, [x; y] => Some (w_slt x y)
  | O_sgt, [x; y] => Some (w_sgt x y) | O_eq, [x; y] => Some (w_eq x y) | O_iszero, [x] => Some (w_iszero x)
  | O_and, [x; y] => Some (w_and x y) | O_or, [x; y] => Some (w_or x y) | O_xor, [x; y] => Some (w_xor x y)
  | O_not, [x] => Some (w_not x) | O_byte, [x; y] => Some (w_byte x y) | O_shl, [x; y] => Some (w_shl x y)
  | O_shr, [x; y] => Some (w_shr x y) | O_sar, [x; y] => Some (w_sar x y) | O_signextend, [x; y] => Some (w_signextend x y)
  | O_assign, [x] => Some x
  | O_alloca, [x] => Some x
  | _, _ => None
  end.

Definition arith (o : opc) (a : list Z) : option Z :=
  match o with
  | O_assign | O_alloca => arith0 o a
  | _ => match arith0 o a with Some v => Some (if has_poison a then POISON else v) | None => None end
  end.

Definition set_mem (s : store) (m : bmap) : store :=
  mkStore (s_sto s) (s_tra s) m (s_imm s) (s_rd s) (s_log s) (s_bal s) (s_ext s) (s_fmp s).
Definition set_sto (s : store) (m : bmap) : store :=
  mkStore m (s_tra s) (s_mem s) (s_imm s) (s_rd s) (s_log s) (s_bal s) (s_ext s) (s_fmp s).
Definition set_tra (s : store) (m : bmap) : store :=
  mkStore (s_sto s) m (s_mem s) (s_imm s) (s_rd s) (s_log s) (s_bal s) (s_ext s) (s_fmp s).
Definition set_fmp (s : store) (v : Z) : store :=
  mkStore (s_sto s) (s_tra s) (s_mem s) (s_imm s) (s_rd s) (s_log s) (s_bal s) (s_ext s) v.
Definition set_log (s : store) (l : list logent) : store :=
  mkStore (s_sto s) (s_tra s) (s_mem s) (s_imm s) (s_rd s) l (s_bal s) (s_ext s) (s_fmp s).

Fixpoint code_read (segs : list (Z * list Z)) (src : Z) (n : nat) : list Z :=
  match segs with
  | [] => take_pad n []
  | (base, bs) :: r =>
      if (base <=? src) && (src <? base + Z.of_nat (length bs)) then slice_pad bs (src - base) n else code_read r src n
  end.

Definition ceil32 (x : Z) : Z := ((x + 31) / 32) * 32.

Definition split_last (l : list Z) : list Z * Z :=
  match rev l with [] => ([], 0) | x :: r => (rev r, x) end.

Definition eff_sem (E : env) (X : oracle) (o : opc) (a : list Z) (s : store) : R (list Z * store) :=
  match o, a with
  | O_nop, _ => Ok ([], s)
  | O_env k, [] => match nth_error (e_words E) k with Some v => Ok ([v], s) | None => Err (EUnknown (Z.of_nat k)) end
  | O_calldatasize, [] => Ok ([Z.of_nat (length (e_calldata E))], s)
  | O_calldataload, [i] => if i <? 0 then Err (EPoison 6) else Ok ([bytes_to_word (slice_pad (e_calldata E) i 32)], s)
  | O_calldatacopy, [dst; src; n] =>
      if okaddr dst n && (0 <=? src) then Ok ([], set_mem s (mwrite (s_mem s) dst (slice_pad (e_calldata E) src (Z.to_nat n))))
      else Err EHuge
  | O_codecopy, [dst; src; n] =>
      if okaddr dst n && (0 <=? src) then Ok ([], set_mem s (mwrite (s_mem s) dst (code_read (e_code E) src (Z.to_nat n))))
      else Err EHuge
  | O_bump, [size; fmp_in] => if (size <? 0) || (fmp_in <? 0) then Err (EPoison 7) else Ok ([fmp_in; w_add fmp_in size], s)
  | O_dalloca, [size] => if size <? 0 then Err (EPoison 7) else Ok ([s_fmp s], set_fmp s (w_add (s_fmp s) (ceil32 size)))
  | O_getfmp, [] => Ok ([s_fmp s], s)
  | O_setfmp, [v] => Ok ([], set_fmp s v)
  | O_mload, [p] => if okaddr p 32 then Ok ([bytes_to_word (mread (s_mem s) p 32)], s) else Err EHuge
  | O_mstore, [p; v] => if okaddr p 32 then Ok ([], set_mem s (mwrite (s_mem s) p (word_to_bytes v))) else Err EHuge
  | O_mcopy, [dst; src; n] =>
      if okaddr dst n && okaddr src n then Ok ([], set_mem s (mwrite (s_mem s) dst (mread (s_mem s) src (Z.to_nat n))))
      else Err EHuge
  | O_iload, [p] => let q := e_immbase E + p in
      if okaddr q 32 then Ok ([bytes_to_word (mread (s_mem s) q 32)], s) else Err EHuge
  | O_istore, [p; v] => let q := e_immbase E + p in
      if okaddr q 32 then Ok ([], set_mem s (mwrite (s_mem s) q (word_to_bytes v))) else Err EHuge
  | O_sload, [k] => if k <? 0 then Err (EPoison 4) else Ok ([zget (s_sto s) k], s)
  | O_sstore, [k; v] => if k <? 0 then Err (EPoison 4) else Ok ([], set_sto s (zset (s_sto s) k v))
  | O_tload, [k] => if k <? 0 then Err (EPoison 4) else Ok ([zget (s_tra s) k], s)
  | O_tstore, [k; v] => if k <? 0 then Err (EPoison 4) else Ok ([], set_tra s (zset (s_tra s) k v))
  | O_sha3, [p; n] =>
      if okaddr p n then
        let d := mread (s_mem s) p (Z.to_nat n) in
        if has_poison d then Err (EPoison 5) else
        match hash_lookup (e_hash E) d with Some h => Ok ([h], s) | None => Err (ENeedHash d) end
      else Err EHuge
  | O_log, p :: n :: rest =>
      let (topics, cnt) := split_last rest in
      if okaddr p n && (Z.of_nat (length topics) =? cnt) then
        Ok ([], set_log s (s_log s ++ [(topics, mread (s_mem s) p (Z.to_nat n))]))
      else Err EHuge
  | O_returndatasize, [] => Ok ([Z.of_nat (length (s_rd s))], s)
  | O_returndatacopy, [dst; src; n] =>
      if okaddr dst n && (0 <=? src) && (src + n <=? Z.of_nat (length (s_rd s))) then
        Ok ([], set_mem s (mwrite (s_mem s) dst (slice_pad (s_rd s) src (Z.to_nat n))))
      else Err EBounds
  | (O_call | O_staticcall | O_delegatecall | O_create | O_create2
     | O_balance | O_selfbalance | O_extcodesize | O_extcodehash), _ =>
      match X o a s with Some (v, s') => Ok ([v], s') | None => Err EExternal end
  | O_extcodecopy, _ => match X o a s with Some (_, s') => Ok ([], s') | None => Err EExternal end
  | _, _ => match arith o a with Some v => Ok ([v], s) | None => Err EArity end
  end.

(* the instruction sees only its footprint and changes only its write set *)
Definition wrapped (E : env) (X : oracle) (o : opc) (a : list Z) (s : store) : R (list Z * store) :=
  match eff_sem E X o a (mask (sem_reads o ++ sem_writes o) s) with
  | Ok (outs, s') => Ok (outs, merge (sem_writes o) s' s)
  | Err e => Err e
  end.

(* ---------------------------------------------------------------- instructions *)
Definition eval_op (vs : vmap) (o : operand) : option Z :=
  match o with OLit z => Some z | OVar v => PositiveMap.find v vs | OLab _ => None end.

Fixpoint eval_ops (vs : vmap) (l : list operand) : option (list Z) :=
  match l with
  | [] => Some []
  | o :: t => match eval_op vs o, eval_ops vs t with Some v, Some r => Some (v :: r) | _, _ => None end
  end.

Fixpoint bind_outs (vs : vmap) (outs : list positive) (vals : list Z) : option vmap :=
  match outs, vals with
  | [], [] => Some vs
  | o :: t, v :: r => bind_outs (PositiveMap.add o v vs) t r
  | _, _ => None
  end.

Definition exec_simple (E : env) (X : oracle) (i : inst) (vs : vmap) (st : store) : R (vmap * store) :=
  match eval_ops vs (i_args i) with
  | None => Err EUndef
  | Some argv =>
      match wrapped E X (i_op i) argv st with
      | Err e => Err e
      | Ok (ovals, st') => match bind_outs vs (i_outs i) ovals with Some vs' => Ok (vs', st') | None => Err EArity end
      end
  end.

Inductive halt := HStop | HReturn (d : list Z) | HRevert (d : list Z) | HInvalid | HStuck (e : err).

Inductive step_res := SNext (vs : vmap) (st : store) | SJump (l : positive) (vs : vmap) (st : store) | SHalt (h : halt) (st : store).

Definition halt_data (st : store) (p n : Z) (k : list Z -> halt) : step_res :=
  if okaddr p n then SHalt (k (mread (s_mem st) p (Z.to_nat n))) st else SHalt (HStuck EHuge) st.

Definition exec_inst (E : env) (X : oracle) (i : inst) (vs : vmap) (st : store) : step_res :=
  match i_op i with
  | O_jmp => match i_args i with [OLab l] => SJump l vs st | _ => SHalt (HStuck EArity) st end
  | O_jnz =>
      match i_args i with
      | [c; OLab t; OLab e] =>
          match eval_op vs c with
          | Some v => if v <? 0 then SHalt (HStuck (EPoison 1)) st else SJump (if v =? 0 then e else t) vs st
          | None => SHalt (HStuck EUndef) st end
      | _ => SHalt (HStuck EArity) st
      end
  | O_djmp =>
      match i_args i with
      | t :: labs =>
          match eval_op vs t with
          | Some v =>
              match find (fun o => match o with OLab l => label_addr l =? v | _ => false end) labs with
              | Some (OLab l) => SJump l vs st
              | _ => SHalt (HStuck EBadLabel) st
              end
          | None => SHalt (HStuck EUndef) st
          end
      | _ => SHalt (HStuck EArity) st
      end
  | O_assert =>
      match i_args i with
      | [c] => match eval_op vs c with
               | Some v => if v <? 0 then SHalt (HStuck (EPoison 2)) st else if v =? 0 then SHalt (HRevert []) st else SNext vs st
               | None => SHalt (HStuck EUndef) st end
      | _ => SHalt (HStuck EArity) st
      end
  | O_assert_unreachable =>
      match i_args i with
      | [c] => match eval_op vs c with
               | Some v => if v <? 0 then SHalt (HStuck (EPoison 2)) st else if v =? 0 then SHalt HInvalid st else SNext vs st
               | None => SHalt (HStuck EUndef) st end
      | _ => SHalt (HStuck EArity) st
      end
  | O_stop => SHalt HStop st
  | O_invalid => SHalt HInvalid st
  | O_return =>
      match eval_ops vs (i_args i) with
      | Some [p; n] => halt_data st p n HReturn
      | Some _ => SHalt (HStuck EArity) st
      | None => SHalt (HStuck EUndef) st
      end
  | O_revert =>
      match eval_ops vs (i_args i) with
      | Some [p; n] => halt_data st p n HRevert
      | Some _ => SHalt (HStuck EArity) st
      | None => SHalt (HStuck EUndef) st
      end
  | O_phi => SHalt (HStuck EArity) st            (* phis are executed on block entry only *)
  | O_unknown c => SHalt (HStuck (EUnknown c)) st
  | _ => match exec_simple E X i vs st with Ok (vs', st') => SNext vs' st' | Err e => SHalt (HStuck e) st end
  end.

Fixpoint exec_insts (E : env) (X : oracle) (l : list inst) (vs : vmap) (st : store) : step_res :=
  match l with
  | [] => SHalt (HStuck EFallthrough) st
  | i :: rest =>
      match exec_inst E X i vs st with
      | SNext vs' st' => exec_insts E X rest vs' st'
      | r => r
      end
  end.

(* phi arguments: OLab l1; v1; OLab l2; v2; ...  *)
Fixpoint phi_pick (prev : positive) (a : list operand) : option operand :=
  match a with
  | OLab l :: v :: t => if Pos.eqb l prev then Some v else phi_pick prev t
  | _ => None
  end.

(* all leading phis read the variables as they were on block entry (`old`) *)
Fixpoint exec_phis (prev : positive) (l : list inst) (old vs : vmap) : option (vmap * list inst) :=
  match l with
  | i :: rest =>
      match i_op i with
      | O_phi =>
          match i_outs i, phi_pick prev (i_args i) with
          | [o], Some a => match eval_op old a with
                           | Some v => exec_phis prev rest old (PositiveMap.add o v vs)
                           | None => None end
          | _, _ => None
          end
      | _ => Some (vs, l)
      end
  | [] => Some (vs, [])
  end.

Fixpoint vrun_from (fuel : nat) (E : env) (X : oracle) (f : func) (cur prev : positive) (vs : vmap) (st : store)
  : halt * store :=
  match fuel with
  | O => (HStuck EFuel, st)
  | S n =>
      match PositiveMap.find cur (f_blocks f) with
      | None => (HStuck EBadLabel, st)
      | Some insts =>
          match exec_phis prev insts vs vs with
          | None => (HStuck EUndef, st)
          | Some (vs1, rest) =>
              match exec_insts E X rest vs1 st with
              | SJump l vs2 st2 => vrun_from n E X f l cur vs2 st2
              | SHalt h st2 => (h, st2)
              | SNext _ st2 => (HStuck EFallthrough, st2)
              end
          end
      end
  end.

Definition vrun (fuel : nat) (E : env) (X : oracle) (f : func) (st : store) : halt * store :=
  vrun_from fuel (mkEnv (e_calldata E) (e_words E) (e_hash E) (e_immbase E) (f_code f)) X f (f_entry f) (f_entry f)
            (PositiveMap.empty Z) st.

(* ---------------------------------------------------------------- observable trace *)
Definition nonzero (m : bmap) : list (positive * Z) := filter (fun kv => negb (snd kv =? 0)) (PositiveMap.elements m).

Record obs := mkObs { ob_code : Z; ob_data : list Z; ob_logs : list logent; ob_sto : list (positive * Z); ob_tra : list (positive * Z) }.

(* a reverting or invalid execution leaves the initial state; a stuck one is not an observation (code 4/5) *)
Definition observe (init : store) (r : halt * store) : obs :=
  let (h, st) := r in
  match h with
  | HStop => mkObs 0 [] (s_log st) (nonzero (s_sto st)) (nonzero (s_tra st))
  | HReturn d => mkObs 1 d (s_log st) (nonzero (s_sto st)) (nonzero (s_tra st))
  | HRevert d => mkObs 2 d [] (nonzero (s_sto init)) (nonzero (s_tra init))
  | HInvalid => mkObs 3 [] [] (nonzero (s_sto init)) (nonzero (s_tra init))
  | HStuck EFuel => mkObs 5 [] [] [] []
  | HStuck _ => mkObs 4 [] [] [] []
  end.

(* refinement: `a` (before) may contain poison, which any value of `b` (after) refines *)
Definition val_ref (x y : Z) : bool := (x <? 0) || (x =? y).

Fixpoint list_ref (a b : list Z) : bool :=
  match a, b with
  | [], [] => true
  | x :: s, y :: t => val_ref x y && list_ref s t
  | _, _ => false
  end.

Definition pget (l : list (positive * Z)) (k : positive) : Z :=
  match find (fun kv => Pos.eqb (fst kv) k) l with Some kv => snd kv | None => 0 end.

Definition kv_ref (a b : list (positive * Z)) : bool :=
  forallb (fun kv => val_ref (snd kv) (pget b (fst kv))) a && forallb (fun kv => val_ref (pget a (fst kv)) (snd kv)) b.

Fixpoint logs_ref (a b : list logent) : bool :=
  match a, b with
  | [], [] => true
  | (t, d) :: s, (t', d') :: r => list_ref t t' && list_ref d d' && logs_ref s r
  | _, _ => false
  end.

(* 0 = b refines a (equal when a has no poison), 1 = at least one side not an observation (stuck / out of fuel), 2 = DIFFERENT *)
Definition obs_cmp (a b : obs) : Z :=
  if (ob_code a >=? 4) || (ob_code b >=? 4) then 1
  else if (ob_code a =? ob_code b) && list_ref (ob_data a) (ob_data b) && logs_ref (ob_logs a) (ob_logs b)
          && kv_ref (ob_sto a) (ob_sto b) && kv_ref (ob_tra a) (ob_tra b) then 0 else 2.

(* flat rendering for the harness: [code; |data|; data...; |logs|; (|topics|; topics...; |d|; d...)*; |sto|; (k; v)*; |tra|; (k; v)*] *)
Definition render_kv (l : list (positive * Z)) : list Z :=
  Z.of_nat (length l) :: flat_map (fun kv => [Zpos (fst kv) - 1; snd kv]) l.

Definition render (o : obs) : list Z :=
  ob_code o :: Z.of_nat (length (ob_data o)) :: ob_data o
  ++ Z.of_nat (length (ob_logs o))
     :: flat_map (fun td => Z.of_nat (length (fst td)) :: fst td ++ Z.of_nat (length (snd td)) :: snd td) (ob_logs o)
  ++ render_kv (ob_sto o) ++ render_kv (ob_tra o).

(* why an execution is stuck, for the harness: [kind; payload...] *)
Definition stuck_info (r : halt * store) : list Z :=
  match fst r with
  | HStuck (EUnknown c) => [1; c]
  | HStuck (ENeedHash d) => 2 :: d
  | HStuck EBounds => [3] | HStuck EExternal => [4] | HStuck EUndef => [5] | HStuck EArity => [6] | HStuck EFuel => [7]
  | HStuck EBadLabel => [8] | HStuck EFallthrough => [9] | HStuck EHuge => [10] | HStuck (EPoison k) => [11; k]
  | _ => [0]
  end.

Definition store_of (sto : list (Z * Z)) : store :=
  mkStore (fold_left (fun m kv => zset m (fst kv) (snd kv)) sto bempty) bempty bempty bempty [] [] 0 0 INITIAL_FMP.

Definition func_of (entry : positive) (bl : list (positive * list inst)) (code : list (Z * list Z)) : func :=
  Func entry (fold_left (fun m b => PositiveMap.add (fst b) (snd b) m) bl (PositiveMap.empty (list inst))) code.
