(* C14, FmpLoweringPass reclaim logic: property theorem only.  See FmpLifo.v for the model and its modelling decisions. *)
From Coq Require Import ZArith Bool List String Lia.
From Verif Require Import C14.FmpLifo C14.FmpLifoProofs.
Import ListNotations.
Open Scope string_scope.
Open Scope list_scope.
Open Scope Z_scope.

(* If the checker accepts the lowered function f with the pass's block-entry stacks c, then in every execution
   (any initial environment, any choice of successors, any values produced by non-FMP instructions) every restore that
   is about to execute lowers the FMP and cuts only into regions of the marks the pass declared popped there. *)
Theorem fmp_restore_sound : forall F f c, fmp_check F f c = true ->
  forall b i is st, reach F f b (i :: is) st -> safe_inst F i st.
Proof. exact fmp_restore_sound_main. Qed.
Print Assumptions fmp_restore_sound.

(* --- non-vacuity ---------------------------------------------------------------------------------------------- *)
(* a diamond: entry allocates p; left allocates q, right allocates r; the join restores to p (popping only p: the meet
   dropped q / r as they differ -- they are ABOVE p, so the common top segment is empty!) *)
Definition ex_f : ffunc :=
  [ {| flabel := "entry"; fbody := [FOther ["fmp"]; FBump "p" (FVar "n")]; fsuccs := ["l"; "r"] |};
    {| flabel := "l"; fbody := [FBump "q" (FLit 32)]; fsuccs := ["j"] |};
    {| flabel := "r"; fbody := [FBump "r" (FLit 64)]; fsuccs := ["j"] |};
    {| flabel := "j"; fbody := [FOther ["x"]]; fsuccs := [] |} ].
Definition ex_c : cert := [("entry", []); ("l", ["p"]); ("r", ["p"]); ("j", [])].
Example ex_accepts : fmp_check "fmp" ex_f ex_c = true.
Proof. vm_compute. reflexivity. Qed.

(* the unsound common-PREFIX (bottom) meet the pass's docstring warns about keeps p at the join and restores to it,
   freeing the untracked q / r: rejected *)
Definition ex_c_prefix_meet : cert := [("entry", []); ("l", ["p"]); ("r", ["p"]); ("j", ["p"])].
Example ex_rejects_prefix_meet : fmp_check "fmp" ex_f ex_c_prefix_meet = false.
Proof. vm_compute. reflexivity. Qed.

(* straight line: p, then q, restore to p pops q and p *)
Definition ex_g : ffunc :=
  [ {| flabel := "entry"; fbody := [FOther ["fmp"]; FBump "p" (FLit 32); FBump "q" (FLit 32); FRestore "p" ["q"; "p"]; FBump "s" (FLit 96)];
       fsuccs := [] |} ].
Example ex_g_accepts : fmp_check "fmp" ex_g [("entry", [])] = true.
Proof. vm_compute. reflexivity. Qed.
(* a restore to p that declares only p popped while q sits above it: rejected *)
Definition ex_g_bad : ffunc :=
  [ {| flabel := "entry"; fbody := [FOther ["fmp"]; FBump "p" (FLit 32); FBump "q" (FLit 32); FRestore "p" ["p"]]; fsuccs := [] |} ].
Example ex_g_bad_rejects : fmp_check "fmp" ex_g_bad [("entry", [])] = false.
Proof. vm_compute. reflexivity. Qed.
(* a mark overwritten while tracked: rejected *)
Example ex_overwrite_rejects :
  fmp_check "fmp" [ {| flabel := "e"; fbody := [FBump "p" (FLit 32); FAssign "p" (FLit 0); FRestore "p" ["p"]]; fsuccs := [] |} ] [("e", [])] = false.
Proof. vm_compute. reflexivity. Qed.

(* the hypothesis of the theorem is met by a real execution that reaches the restore with two live ghost regions *)
Definition e0 : env := fun x => if String.eqb x "fmp" then 1000 else 0.
Example ex_reach : exists st, reach "fmp" ex_g (hd {| flabel := ""; fbody := []; fsuccs := [] |} ex_g)
                                [FRestore "p" ["q"; "p"]; FBump "s" (FLit 96)] st /\ List.length (snd st) = 2%nat /\ fst st "fmp" = 1064.
Proof.
  pose proof (reach_init "fmp" ex_g _ [] e0 eq_refl) as H0. cbn [fbody] in H0.
  pose proof (reach_step _ _ _ _ _ _ _ H0 (ex_other "fmp" ["fmp"] e0 e0 [] (fun _ _ => eq_refl))) as H1.
  assert (L32 : 0 <= oval e0 (FLit 32)) by (cbn; lia).
  pose proof (reach_step _ _ _ _ _ _ _ H1 (ex_bump "fmp" "p" (FLit 32) e0 _ L32)) as H2.
  assert (L32' : 0 <= oval (upd (upd e0 "p" (e0 "fmp")) "fmp" (e0 "fmp" + oval e0 (FLit 32))) (FLit 32)) by (cbn; lia).
  pose proof (reach_step _ _ _ _ _ _ _ H2 (ex_bump "fmp" "q" (FLit 32) _ _ L32')) as H3.
  eexists. split; [exact H3|]. split; vm_compute; reflexivity.
Qed.
