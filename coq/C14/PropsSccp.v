(* C14 — one run of the SCCP pass, validated per function (see Sccp.v for the checker and the certificate). *)
From Coq Require Import ZArith NArith Bool List String Lia.
From Verif Require Import Base.Word256 Base.PyInt C14.RangeBase C14.RangeFix C14.Sccp C14.SccpProofs.
Import ListNotations.
Open Scope string_scope.
Open Scope Z_scope.

(* If the checker accepts (before, certificate, after): on EVERY execution of `before` (any inputs, any results of
   the unmodelled instructions, any number of loop iterations) only blocks marked executable are entered, and every
   variable that has been assigned holds the constant the lattice claims for it (a variable marked TOP is never
   assigned, BOTTOM claims nothing). *)
Theorem sccp_check_sound : forall f C after, sccp_check f C after = true ->
  forall lv b k c S, reachS f lv b k c S ->
  exe C b = true /\ forall x, In x S -> agrees (lat_of (c_lat C)) c x.
Proof.
  intros f C after H lv b k c S R. unfold sccp_check in H. apply andb_prop in H as [H _].
  destruct (sccp_inv f C lv H b k c S R) as (E & _ & _ & A). split; assumption.
Qed.
Print Assumptions sccp_check_sound.

(* ... and `after` (constants substituted, decided branches turned into jumps, satisfied assertions removed) has
   exactly the same reachable configurations as `before`. *)
Theorem sccp_preserves_executions : forall f C after, sccp_check f C after = true ->
  forall lv b k c S, reachS f lv b k c S <-> reachS after lv b k c S.
Proof.
  intros f C after H lv b k c S. unfold sccp_check in H. apply andb_prop in H as [H1 H2].
  unfold rewrite_ok in H2. apply andb_prop in H2 as [SF EQ]. apply func_eqb_eq in EQ. subst after.
  split; [apply rw_forward | apply rw_backward]; assumption.
Qed.
Print Assumptions sccp_preserves_executions.

(* the same in terms of RangeFix.reach (the ghost set of assigned variables is bookkeeping only) *)
Corollary sccp_same_reach : forall f C after, sccp_check f C after = true ->
  forall lv b k c, (reach f lv b k c <-> reach after lv b k c) /\ (reach f lv b k c -> exe C b = true).
Proof.
  intros f C after H lv b k c. split; [split|]; intros R; apply reach_reachS in R as [S R].
  - eapply reachS_reach. apply (sccp_preserves_executions f C after H). exact R.
  - eapply reachS_reach. apply (sccp_preserves_executions f C after H). exact R.
  - apply (sccp_check_sound f C after H lv b k c S R).
Qed.
Print Assumptions sccp_same_reach.

(* non-vacuity: a decided branch, a phi whose only executable input is a constant, an unreachable block
     0: %0 = 5 ; %1 = lt %0, 10 ; jnz %1, @1, @2        1: %2 = add %0, 1 ; jmp @3
     2: %3 = 7 ; jmp @3                                  3: %4 = phi @1 %2, @2 %3 ; sstore 0, %4 ; stop *)
Definition ex_before : func :=
  [ [mkI "assign" [OLit 5] [0%N]; mkI "lt" [OLit 10; OVar 0%N] [1%N]; mkI "jnz" [OVar 1%N; OLab 1%N; OLab 2%N] []];
    [mkI "add" [OLit 1; OVar 0%N] [2%N]; mkI "jmp" [OLab 3%N] []];
    [mkI "assign" [OLit 7] [3%N]; mkI "jmp" [OLab 3%N] []];
    [mkI "phi" [OLab 1%N; OVar 2%N; OLab 2%N; OVar 3%N] [4%N]; mkI "sstore" [OVar 4%N; OLit 0] []; mkI "stop" [] []] ].
Definition ex_after : func :=
  [ [mkI "assign" [OLit 5] [0%N]; mkI "lt" [OLit 10; OLit 5] [1%N]; mkI "jmp" [OLab 1%N] []];
    [mkI "add" [OLit 1; OLit 5] [2%N]; mkI "jmp" [OLab 3%N] []];
    [mkI "assign" [OLit 7] [3%N]; mkI "jmp" [OLab 3%N] []];
    [mkI "phi" [OLab 1%N; OVar 2%N; OLab 2%N; OVar 3%N] [4%N]; mkI "sstore" [OLit 6; OLit 0] []; mkI "stop" [] []] ].
Definition ex_cert : cert :=
  mkCert [(0%N, LConst 5); (1%N, LConst 1); (2%N, LConst 6); (4%N, LConst 6)]
         [true; true; false; true] [[]; [0%N]; []; [1%N]] [[]; [0%N; 1%N]; []; [0%N; 1%N; 2%N]].
Example ex_accepts : sccp_check ex_before ex_cert ex_after = true.
Proof. vm_compute. reflexivity. Qed.
(* wrong certificates / wrong rewrites are rejected: the phi cannot be 7, the branch cannot go to block 2 *)
Example ex_rejects_lattice :
  sccp_check ex_before (mkCert [(0%N, LConst 5); (1%N, LConst 1); (2%N, LConst 6); (4%N, LConst 7)]
                               [true; true; false; true] [[]; [0%N]; []; [1%N]] [[]; [0%N; 1%N]; []; [0%N; 1%N; 2%N]]) ex_after = false.
Proof. vm_compute. reflexivity. Qed.
Example ex_rejects_rewrite :
  sccp_check ex_before ex_cert
    (map (fun b => map (fun i => if String.eqb (i_op i) "jmp" && Nat.eqb (List.length b) 3 then mkI "jmp" [OLab 2%N] [] else i) b) ex_after) = false.
Proof. vm_compute. reflexivity. Qed.
(* the executable part is really reached, with the claimed constant in %4 *)
Example ex_reaches : exists c S, reachS ex_before (fun _ => 0) 3%N 0%nat c S /\ In 4%N S /\ c 4%N = 6.
Proof.
  set (lv := fun _ : N => 0).
  set (upd := fun (c : cenv) (x : N) (v : Z) => fun y => if N.eqb y x then v else c y).
  set (c0 := fun _ : N => 0).
  assert (HW : 100 < W) by reflexivity.
  assert (W0 : forall v, 0 <= v < 100 -> 0 <= v < W) by (intros v Hv; lia).
  assert (ST : forall ins c o v, i_outs ins = [o] -> 0 <= v < 100 ->
               (forall g, sem_fun lv ins = Some g -> g c = v) -> String.eqb (i_op ins) "assert" = false ->
               step_conc lv ins c (upd c o v)).
  { intros ins c o v Eo Hv Hg NA. split; [|split; [|split]].
    - intros x Hx. unfold upd. destruct (N.eqb x o) eqn:E; [|reflexivity]. apply N.eqb_eq in E. subst. exfalso. apply Hx. rewrite Eo. left. reflexivity.
    - intros x Hx. rewrite Eo in Hx. destruct Hx as [<-|[]]. unfold upd. rewrite N.eqb_refl. apply W0. exact Hv.
    - intros g o' G Eo'. rewrite Eo in Eo'. injection Eo' as <-. unfold upd. rewrite N.eqb_refl. symmetry. apply Hg. exact G.
    - intros A. congruence. }
  assert (SN : forall ins c, i_outs ins = [] -> sem_fun lv ins = None -> String.eqb (i_op ins) "assert" = false -> step_conc lv ins c c).
  { intros ins c Eo G NA. split; [reflexivity|]. split; [intros x Hx; rewrite Eo in Hx; destruct Hx|]. split; [intros g o G'; congruence | intros A; congruence]. }
  assert (R0 : reachS ex_before lv 0%N 0%nat c0 []) by (constructor; intros x; unfold c0; lia).
  pose proof (rs_step _ _ _ _ _ _ _ _ R0 (eq_refl : nth_error (body (nth_block ex_before 0)) 0 = Some _)
                (ST (mkI "assign" [OLit 5] [0%N]) c0 0%N 5 eq_refl ltac:(lia) ltac:(intros g G; injection G as <-; reflexivity) eq_refl)) as R1.
  set (c1 := upd c0 0%N 5) in *.
  pose proof (rs_step _ _ _ _ _ _ _ _ R1 (eq_refl : nth_error (body (nth_block ex_before 0)) 1 = Some _)
                (ST (mkI "lt" [OLit 10; OVar 0%N] [1%N]) c1 1%N 1 eq_refl ltac:(lia) ltac:(intros g G; injection G as <-; reflexivity) eq_refl)) as R2.
  set (c2 := upd c1 1%N 1) in *.
  pose proof (rs_step _ _ _ _ _ _ _ _ R2 (eq_refl : nth_error (body (nth_block ex_before 0)) 2 = Some _)
                (SN (mkI "jnz" [OVar 1%N; OLab 1%N; OLab 2%N] []) c2 eq_refl eq_refl eq_refl)) as R3.
  assert (R4 : reachS ex_before lv 1%N 0%nat c2 (phi_outs (nth_block ex_before 1) ++ [] ++ [1%N] ++ [0%N])).
  { eapply rs_jump; [exact R3 | reflexivity | left; reflexivity |]. split; [reflexivity | intros ins o []]. }
  pose proof (rs_step _ _ _ _ _ _ _ _ R4 (eq_refl : nth_error (body (nth_block ex_before 1)) 0 = Some _)
                (ST (mkI "add" [OLit 1; OVar 0%N] [2%N]) c2 2%N 6 eq_refl ltac:(lia) ltac:(intros g G; injection G as <-; reflexivity) eq_refl)) as R5.
  set (c3 := upd c2 2%N 6) in *.
  pose proof (rs_step _ _ _ _ _ _ _ _ R5 (eq_refl : nth_error (body (nth_block ex_before 1)) 1 = Some _)
                (SN (mkI "jmp" [OLab 3%N] []) c3 eq_refl eq_refl eq_refl)) as R6.
  exists (upd c3 4%N 6). eexists. split; [|split].
  - eapply rs_jump; [exact R6 | reflexivity | left; reflexivity |]. split.
    + intros x Hx. unfold upd at 1. destruct (N.eqb x 4) eqn:E; [|reflexivity]. apply N.eqb_eq in E. subst.
      exfalso. eapply Hx; [left; reflexivity | reflexivity].
    + intros ins o [<-|[]] Ho. cbn in Ho. injection Ho as <-. exists 2%N. split; [left; reflexivity | reflexivity].
  - left. reflexivity.
  - reflexivity.
Qed.
