(* Soundness of the StackCleanupSafety certificate checker (StackSafe.v). *)
From Coq Require Import NArith Arith Bool List String Lia.
From Verif Require Import C14.StackSafe.
Import ListNotations.
Open Scope string_scope.
Open Scope list_scope.
Open Scope nat_scope.

Lemma memN_In x l : memN x l = true <-> In x l.
Proof.
  unfold memN. rewrite existsb_exists. split.
  - intros [y [Hy E]]. apply N.eqb_eq in E. subst. exact Hy.
  - intros H. exists x. split; [exact H | apply N.eqb_refl].
Qed.

Lemma inclb_incl a b : inclb a b = true -> incl a b.
Proof. unfold inclb. rewrite forallb_forall. intros H x Hx. apply memN_In. apply H. exact Hx. Qed.

Lemma card_incl a b : incl a b -> card a <= card b.
Proof.
  intros H. unfold card. apply NoDup_incl_length.
  - apply NoDup_nodup.
  - intros x Hx. apply nodup_In. apply H. apply (nodup_In N.eq_dec). exact Hx.
Qed.

Lemma find_func_spec P f fn : find_func P f = Some fn -> fname fn = f /\ In fn P.
Proof.
  induction P as [|x r IH]; cbn; [discriminate|]. destruct (String.eqb (fname x) f) eqn:E.
  - intros H. inversion H; subst. apply String.eqb_eq in E. split; [exact E | left; reflexivity].
  - intros H. destruct (IH H) as [H1 H2]. split; [exact H1 | right; exact H2].
Qed.

Lemma bget_In bc f l v : bget bc f l = Some v -> In (f, l, v) bc.
Proof.
  induction bc as [|[[f' l'] v'] r IH]; cbn; [discriminate|].
  destruct (String.eqb f' f && String.eqb l' l) eqn:E.
  - intros H. inversion H; subst. apply andb_true_iff in E as [E1 E2].
    apply String.eqb_eq in E1. apply String.eqb_eq in E2. subst. left. reflexivity.
  - intros H. right. apply IH. exact H.
Qed.

Lemma nget_In c f v : nget c f = Some v -> In (f, v) c.
Proof.
  induction c as [|[f' v'] r IH]; cbn; [discriminate|]. destruct (String.eqb f' f) eqn:E.
  - intros H. inversion H; subst. apply String.eqb_eq in E. subst. left. reflexivity.
  - intros H. right. apply IH. exact H.
Qed.

Section Growth.
  Variables (P : sprog) (bc : bcert) (gc : gcert).
  Hypothesis HB : forallb (block_ok P bc gc) bc = true.
  Hypothesis HG : forallb (growth_ok P bc) gc = true.

  Lemma block_facts f l V T b :
    bget bc f l = Some (V, T) -> find_block P f l = Some b ->
    incl (svars b) V /\
    (forall i, In i (sinsts b) -> inst_ok gc T i = true) /\
    (forall s, In s (ssuccs b) -> exists V' T', bget bc f s = Some (V', T') /\ incl V' V /\ T' <= T).
  Proof.
    intros Hc Hb. apply bget_In in Hc. rewrite forallb_forall in HB. specialize (HB _ Hc). cbn in HB.
    rewrite Hb in HB. apply andb_true_iff in HB as [HB1 HB3]. apply andb_true_iff in HB1 as [HB1 HB2].
    split; [apply inclb_incl; exact HB1|]. split.
    - rewrite forallb_forall in HB2. exact HB2.
    - intros s Hs. rewrite forallb_forall in HB3. specialize (HB3 s Hs).
      destruct (bget bc f s) as [[V' T']|]; [|discriminate].
      apply andb_true_iff in HB3 as [A B]. exists V', T'. split; [reflexivity|]. split; [apply inclb_incl; exact A | apply Nat.leb_le; exact B].
  Qed.

  Lemma growth_facts c g fc :
    nget gc c = Some g -> find_func P c = Some fc ->
    exists V T, bget bc c (fentry fc) = Some (V, T) /\ card V + T <= g.
  Proof.
    intros Hg Hf. apply nget_In in Hg. rewrite forallb_forall in HG. specialize (HG _ Hg). cbn in HG.
    rewrite Hf in HG. destruct (bget bc c (fentry fc)) as [[V T]|]; [|discriminate].
    exists V, T. split; [reflexivity | apply Nat.leb_le; exact HG].
  Qed.

  Lemma demand_bound f l A d : demand P f l A d ->
    forall V T, bget bc f l = Some (V, T) -> d <= card (A ++ V) + T.
  Proof.
    intros HD. induction HD as [f l b A i Hb Hi Hc | f l b A i c fc d' Hb Hi Hc Hfc HD' IH | f l b A s d Hb Hs HD' IH];
      intros V T Hcert; destruct (block_facts _ _ _ _ _ Hcert Hb) as [Hv [Hin Hsu]].
    - specialize (Hin i Hi). unfold inst_ok in Hin. rewrite Hc in Hin. apply Nat.leb_le in Hin.
      assert (card (A ++ svars b) <= card (A ++ V)).
      { apply card_incl. intros x Hx. apply in_app_or in Hx as [Hx|Hx]; apply in_or_app; [left; exact Hx | right; apply Hv; exact Hx]. }
      lia.
    - specialize (Hin i Hi). unfold inst_ok in Hin. rewrite Hc in Hin.
      destruct (nget gc c) as [g|] eqn:Eg; [|discriminate]. apply Nat.leb_le in Hin.
      destruct (growth_facts _ _ _ Eg Hfc) as [V' [T' [Hc' Hle]]].
      specialize (IH V' T' Hc'). cbn [app] in IH.
      assert (card (A ++ svars b) <= card (A ++ V)).
      { apply card_incl. intros x Hx. apply in_app_or in Hx as [Hx|Hx]; apply in_or_app; [left; exact Hx | right; apply Hv; exact Hx]. }
      lia.
    - destruct (Hsu s Hs) as [V' [T' [Hc' [Hincl Hle]]]]. specialize (IH V' T' Hc').
      assert (card ((A ++ svars b) ++ V') <= card (A ++ V)).
      { apply card_incl. intros x Hx. apply in_app_or in Hx as [Hx|Hx].
        - apply in_app_or in Hx as [Hx|Hx]; apply in_or_app; [left; exact Hx | right; apply Hv; exact Hx].
        - apply in_or_app. right. apply Hincl. exact Hx. }
      lia.
  Qed.
End Growth.

Lemma chain_bound P hc e : height_ok P hc = true ->
  forall f h, chain P e f h -> forall Hf, nget hc f = Some Hf -> h <= Hf.
Proof.
  intros HH f h HC. induction HC as [|g gf f h HC IH Hg Hin]; intros Hf Hcert; [lia|].
  destruct (find_func_spec _ _ _ Hg) as [Hname HinP].
  unfold height_ok in HH. rewrite forallb_forall in HH. specialize (HH gf HinP).
  rewrite forallb_forall in HH. specialize (HH f Hin). rewrite Hcert in HH. rewrite Hname in HH.
  destruct (nget hc g) as [Hgv|] eqn:Eg; [|discriminate]. apply Nat.leb_le in HH.
  specialize (IH Hgv eq_refl). lia.
Qed.

Theorem stack_cleanup_safety_sound_main P bc gc hc safe : ss_check P bc gc hc safe = true ->
  forall e f l ret, In (f, l, ret) safe ->
  forall hcall d cur, chain P e f hcall -> demand P f l [] d -> cur <= ret -> hcall + cur + d <= 1024.
Proof.
  unfold ss_check. intros HC e f l ret Hin hcall d cur Hch Hd Hcur.
  apply andb_true_iff in HC as [HC Hs]. apply andb_true_iff in HC as [HC Hh]. apply andb_true_iff in HC as [Hb Hg].
  rewrite forallb_forall in Hs. specialize (Hs _ Hin). cbn in Hs.
  destruct (bget bc f l) as [[V T]|] eqn:Eb; [|discriminate]. destruct (nget hc f) as [H|] eqn:Eh; [|discriminate].
  apply Nat.leb_le in Hs.
  pose proof (demand_bound P bc gc Hb Hg _ _ _ _ Hd V T Eb) as D. cbn [app] in D.
  pose proof (chain_bound P hc e Hh _ _ Hch H Eh) as C. lia.
Qed.

(* the two components on their own *)
Theorem growth_sound P bc gc hc safe : ss_check P bc gc hc safe = true ->
  forall f l V T d, bget bc f l = Some (V, T) -> demand P f l [] d -> d <= card V + T.
Proof.
  unfold ss_check. intros HC f l V T d Hc Hd.
  apply andb_true_iff in HC as [HC _]. apply andb_true_iff in HC as [HC _]. apply andb_true_iff in HC as [Hb Hg].
  apply (demand_bound P bc gc Hb Hg _ _ _ _ Hd V T Hc).
Qed.
