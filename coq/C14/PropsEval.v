(* C14 (kernel): constant evaluation in sccp/eval.py agrees with the EVM word semantics
   for every opcode and every literal in [MIN_INT256, MAX_UINT256].
   eval_arith(op, [y; x]) = op(x, y): venom stores operands in reverse order. *)
From Coq Require Import ZArith List String Lia.
From Verif Require Import Base.Word256 Base.PyInt C14.GenEval C14.EvalSound.
Import ListNotations.
Open Scope Z_scope.

Theorem eval_arith_sound :
  binop_sound "add" w_add /\ binop_sound "sub" w_sub /\ binop_sound "mul" w_mul /\
  binop_sound "div" w_div /\ binop_sound "sdiv" w_sdiv /\ binop_sound "mod" w_mod /\
  binop_sound "smod" w_smod /\ binop_sound "exp" w_exp /\ binop_sound "eq" w_eq /\
  binop_sound "lt" w_lt /\ binop_sound "gt" w_gt /\ binop_sound "slt" w_slt /\
  binop_sound "sgt" w_sgt /\ binop_sound "or" w_or /\ binop_sound "and" w_and /\
  binop_sound "xor" w_xor /\ unop_sound "not" w_not /\ binop_sound "signextend" w_signextend /\
  unop_sound "iszero" w_iszero /\ binop_sound "shr" w_shr /\ binop_sound "shl" w_shl /\
  binop_sound "sar" w_sar /\ ternop_sound "addmod" w_addmod /\ ternop_sound "mulmod" w_mulmod /\
  binop_sound "byte" w_byte.
Proof.
  repeat split.
  exact add_sound. exact sub_sound. exact mul_sound. exact div_sound. exact sdiv_sound.
  exact mod_sound. exact smod_sound. exact exp_sound. exact eq_sound. exact lt_sound.
  exact gt_sound. exact slt_sound. exact sgt_sound. exact or_sound. exact and_sound.
  exact xor_sound. exact not_sound. exact signextend_sound. exact iszero_sound.
  exact shr_sound. exact shl_sound. exact sar_sound. exact addmod_sound. exact mulmod_sound.
  exact byte_sound.
Qed.
Print Assumptions eval_arith_sound.

(* non-vacuity: the hypotheses are met by boundary literals, and the table has no other keys *)
Example eval_arith_nonvacuous :
  lit_ok MINS /\ lit_ok MAXU /\ lit_ok (-1) /\
  (exists f, ARITHMETIC_OPS "sdiv" = Some f /\ f [2; -7] = Ok (W - 3)).
Proof. repeat split; try (unfold lit_ok, MINS, MAXU, HALF, W; lia). eexists; split; [reflexivity | vm_compute; reflexivity]. Qed.
