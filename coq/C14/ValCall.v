(* C14 / ValCall.v -- the proved pass validators of ValRUV.v / ValCopy.v / ValDFT.v re-established for the call semantics of
   VenomCall.v, as per-function simulations (`fn_sim`, VenomCallSim.v) that compose over whole contexts:
     ruv_fn_sim   : ruv_check fb fa = true       -> fn_sim P fb fa      (any P)
     copy_fn_sim  : copy_check U C fb fa = true  -> fn_sim True fb fa
     cdft_fn_sim  : cdft_check fb fa = true      -> fn_sim P fb fa      (any P)
   (P = False / True: one- / two-sided with respect to stuck runs).  By ctx_crun_sim a function validated by any of these can
   be replaced in ANY context (it may call and be called) without changing what runs of the context observe. *)
From Coq Require Import ZArith List Bool FMapPositive Lia.
From Verif Require Import Base.Word256 C14.Venom C14.VenomProofs C14.VenomSim C14.ValRUV C14.ValDFT C14.ValCopy C14.VenomCall C14.VenomCallSim.
Import ListNotations.
Open Scope Z_scope.
Opaque label_addr.

(* ---------------------------------------------------------------- generic helpers *)
Lemma simple_not_call : forall o, is_simple o = true -> is_call_op o = false.
Proof. intros o H. destruct o; try discriminate H; reflexivity. Qed.

Lemma phi_not_call : forall i, is_phi i = true -> is_call_op (i_op i) = false.
Proof. intros i H. unfold is_phi in H. destruct (i_op i); try discriminate H; reflexivity. Qed.

Lemma guard_not_call : forall o, is_guard o = true -> is_call_op o = false.
Proof. intros o H. destruct o; try discriminate H; reflexivity. Qed.

Lemma cstk_lift : forall r, stk r -> cstk (lift r).
Proof. intros [v s|l v s|h s] H; simpl in *; try contradiction. destruct h; try discriminate H. exact I. Qed.

(* sim3 through a list step *)
Lemma sim3_cons : forall P U E X Kb Ka ib ia rb ra vb va st,
  sim3 P U (cexec_inst E X Kb ib vb st) (cexec_inst E X Ka ia va st) ->
  (forall vb' va' s, agree U va' vb' -> sim3 P U (cexec_insts E X Kb rb vb' s) (cexec_insts E X Ka ra va' s)) ->
  sim3 P U (cexec_insts E X Kb (ib :: rb) vb st) (cexec_insts E X Ka (ia :: ra) va st).
Proof.
  intros P U E X Kb Ka ib ia rb ra vb va st H R. simpl. destruct H as [S|[[T S]|M]].
  - left. destruct (cexec_inst E X Kb ib vb st) as [v s|l v s|h s]; simpl in *; try contradiction. exact S.
  - right. left. split; auto. destruct (cexec_inst E X Ka ia va st) as [v s|l v s|h s]; simpl in *; try contradiction. exact S.
  - destruct (cexec_inst E X Kb ib vb st) as [v s|l v s|h s]; destruct (cexec_inst E X Ka ia va st) as [v' s'|l' v' s'|h' s'];
      simpl in M; try contradiction.
    + destruct M as [<- A]. apply R. assumption.
    + right. right. exact M.
    + right. right. exact M.
Qed.

(* from a block-level sim3 to the block obligation of fn_sim *)
Lemma sim3_blk : forall P U (Inv : positive -> positive -> vmap -> vmap -> Prop) cur rb ra,
  sim3 P U rb ra -> (forall l vb' va', agree U va' vb' -> Inv l cur vb' va' : Prop) ->
  cbad rb \/ (P /\ cbad ra) \/
  match rb, ra with
  | CJump l vb' s, CJump l' va' s' => l = l' /\ s = s' /\ Inv l cur vb' va'
  | CStop h s, CStop h' s' => h = h' /\ (s = s' \/ cdiscards h = true)
  | _, _ => False
  end.
Proof.
  intros P U Inv cur rb ra H HI. destruct H as [S|[[T S]|M]].
  - left. destruct rb as [v s|l v s|h s]; simpl in *; try contradiction. exact S.
  - right. left. split; auto. destruct ra as [v s|l v s|h s]; simpl in *; try contradiction. exact S.
  - destruct rb as [v s|l v s|h s]; destruct ra as [v' s'|l' v' s'|h' s']; simpl in M; try contradiction.
    + left. exact I.
    + right. right. destruct M as [-> [-> A]]. repeat split; auto.
    + right. right. exact M.
Qed.

(* ---------------------------------------------------------------- RemoveUnusedVariables *)
Lemma droppable_not_call : forall U i, droppable U i = true -> is_call_op (i_op i) = false.
Proof.
  intros U i D. unfold droppable in D. apply andb_true_iff in D. destruct D as [K _]. apply orb_true_iff in K. destruct K as [Ph|S].
  - apply phi_not_call. assumption.
  - apply andb_true_iff in S. destruct S as [S _]. apply simple_not_call. assumption.
Qed.

Lemma cruv_insts : forall P U E X Kb Ka lb la vb va st, krel P Kb Ka -> ruv_align U lb la = true -> agree U va vb ->
  sim3 P U (cexec_insts E X Kb lb vb st) (cexec_insts E X Ka la va st).
Proof.
  intros P U E X Kb Ka. induction lb as [|i rb IH]; intros la vb va st KR AL A.
  - left. exact I.
  - assert (DROP : droppable U i = true -> ruv_align U rb la = true ->
                   sim3 P U (cexec_insts E X Kb (i :: rb) vb st) (cexec_insts E X Ka la va st)).
    { intros D AL'. simpl. rewrite (cexec_noncall E X Kb i vb st (droppable_not_call U i D)).
      unfold droppable in D. apply andb_true_iff in D. destruct D as [K O].
      apply orb_true_iff in K. destruct K as [Ph|S].
      - left. rewrite (exec_inst_phi E X i vb st Ph). exact I.
      - apply andb_true_iff in S. destruct S as [S W].
        assert (W' : sem_writes (i_op i) = []) by (destruct (sem_writes (i_op i)); [reflexivity|discriminate]).
        destruct (exec_inst_pure E X i vb st S W') as [[e He]|[vb' [He Hf]]].
        + left. rewrite He. exact I.
        + rewrite He. simpl. apply IH; auto. eapply agree_drop; eauto. }
    simpl in AL. destruct la as [|j ra].
    + apply andb_true_iff in AL. destruct AL as [D AL']. apply DROP; auto.
    + destruct (inst_eq_dec i j) as [EQ|NE]; apply andb_true_iff in AL; destruct AL as [D AL'].
      * subst j. apply sim3_cons.
        -- apply cexec_inst_sim; auto.
        -- intros. apply IH; auto.
      * apply DROP; auto.
Qed.

Theorem ruv_fn_sim_U : forall P U fb fa, ruv_check_U U fb fa = true -> fn_sim P fb fa.
Proof.
  intros P U fb fa H. unfold ruv_check_U in H. apply andb_true_iff in H. destruct H as [FR BM].
  unfold same_frame in FR. apply andb_true_iff in FR. destruct FR as [EN CO].
  apply Pos.eqb_eq in EN. destruct (code_eq_dec (f_code fb) (f_code fa)) as [CE|]; [|discriminate].
  exists (fun _ _ vb va => agree U va vb). split; [assumption|]. split; [assumption|]. split. { intros vs0. apply agree_refl. }
  intros E X Kb Ka KR cur prev vb va st A. unfold blk3. pose proof (blocks_match_spec _ fb fa BM cur) as M.
  destruct (PositiveMap.find cur (f_blocks fb)) as [lb|]; destruct (PositiveMap.find cur (f_blocks fa)) as [la|]; auto.
  simpl. apply andb_true_iff in M. destruct M as [PT AL]. unfold cblock_res.
  pose proof (ruv_phis U prev lb la vb va vb va AL PT A A) as PH.
  destruct (exec_phis prev lb vb vb) as [[vb' rb]|]; [|left; exact I].
  destruct PH as [va' [ra [EA [A' AL']]]]. rewrite EA.
  apply (sim3_blk P U (fun _ _ vb va => agree U va vb) cur); auto. apply cruv_insts; auto.
Qed.

Theorem ruv_fn_sim : forall P fb fa, ruv_check fb fa = true -> fn_sim P fb fa.
Proof. intros P fb fa H. unfold ruv_check in H. eapply ruv_fn_sim_U; eauto. Qed.

(* ---------------------------------------------------------------- copies (AssignElimination / SingleUseExpansion) *)
Lemma exec_inst_next_other : forall E X i vs st vs' st', exec_inst E X i vs st = SNext vs' st' ->
  forall x, ~ In x (i_outs i) -> PositiveMap.find x vs' = PositiveMap.find x vs.
Proof.
  intros E X i vs st vs' st' H x N.
  destruct (is_simple (i_op i)) eqn:S.
  - rewrite (exec_inst_is_simple E X i vs st S) in H. unfold exec_simple in H.
    destruct (eval_ops vs (i_args i)); [|discriminate]. destruct (wrapped E X (i_op i) l st) as [[ov s2]|]; [|discriminate].
    destruct (bind_outs vs (i_outs i) ov) as [v2|] eqn:B; [|discriminate]. inversion H. subst. eapply bind_other; eauto.
  - destruct (is_guard (i_op i)) eqn:G.
    + pose proof (guard_cases E X i vs st G) as GC. destruct (i_args i) as [|c [|c2 t]]; rewrite GC in H; try discriminate.
      destruct (eval_op vs c) as [v|]; [|discriminate]. destruct (v <? 0); [discriminate|]. destruct (v =? 0); [discriminate|].
      inversion H. reflexivity.
    + exfalso. destruct i as [outs op args]. unfold exec_inst in H. simpl in *.
      destruct op; try discriminate S; try discriminate G; try discriminate H.
      * destruct args as [|[z|v|l0] [|o2 t]]; discriminate H.
      * destruct args as [|c [|[z|v|t] [|[z2|v2|e] [|o4 r]]]]; try discriminate H.
        destruct (eval_op vs c) as [v|]; [|discriminate H]. destruct (v <? 0); discriminate H.
      * destruct args as [|t labs]; try discriminate H. destruct (eval_op vs t) as [v|]; [|discriminate H].
        destruct (find (fun o => match o with OLab l1 => label_addr l1 =? v | _ => false end) labs) as [[z|y|l0]|]; discriminate H.
      * destruct (eval_ops vs args) as [[|p [|n [|y t]]]|]; try discriminate H. unfold halt_data in H. destruct (okaddr p n); discriminate H.
      * destruct (eval_ops vs args) as [[|p [|n [|y t]]]|]; try discriminate H. unfold halt_data in H. destruct (okaddr p n); discriminate H.
Qed.

Lemma cexec_next_other : forall E X K i vs st vs' st', cexec_inst E X K i vs st = CNext vs' st' ->
  forall x, ~ In x (i_outs i) -> PositiveMap.find x vs' = PositiveMap.find x vs.
Proof.
  intros E X K i vs st vs' st' H x N. unfold cexec_inst in H.
  destruct (is_invoke (i_op i)).
  - destruct (i_args i) as [|[z|v|g] rest]; try discriminate H. destruct (eval_ops vs rest) as [vals|]; [|discriminate H].
    destruct (K g vals st) as [[h|rv] s2]; [discriminate H|].
    destruct (bind_outs vs (i_outs i) rv) as [v2|] eqn:B; [|discriminate H]. inversion H. subst. eapply bind_other; eauto.
  - destruct (is_ret (i_op i)).
    + destruct (eval_ops vs (but_last (i_args i))); discriminate H.
    + destruct (exec_inst E X i vs st) as [v s|l v s|h s] eqn:EI; simpl in H; try discriminate H. inversion H. subst.
      eapply exec_inst_next_other; eauto.
Qed.

Lemma is_copy_not_call : forall i xo, is_copy i = Some xo -> is_call_op (i_op i) = false /\ continues (i_op i) = true.
Proof.
  intros i xo H. unfold is_copy in H. destruct (i_op i); try discriminate H. split; reflexivity.
Qed.

Lemma cstep_av_holds : forall E X K i AV vs st vs' st', holds AV vs -> cexec_inst E X K i vs st = CNext vs' st' ->
  holds (step_av i (is_copy i) AV) vs'.
Proof.
  intros E X K i AV vs st vs' st' H EX.
  destruct (is_copy i) as [xo|] eqn:IC.
  - destruct (is_copy_not_call i xo IC) as [NC CO]. rewrite (cexec_noncall E X K i vs st NC) in EX.
    destruct (exec_inst E X i vs st) as [v s|l v s|h s] eqn:EI; simpl in EX; try discriminate EX. inversion EX. subst.
    rewrite <- IC. eapply step_av_holds; eauto.
  - unfold step_av. eapply kill_holds; eauto. intros x N. eapply cexec_next_other; eauto.
Qed.

Definition cgood_end (U : positive -> bool) (OB OA : avs) (rb ra : cstep) : Prop :=
  match rb, ra with
  | CJump l vb' s, CJump l' va' s' => l = l' /\ s = s' /\ agree U va' vb' /\ holds OB vb' /\ holds OA va'
  | CStop h s, CStop h' s' => h = h' /\ (s = s' \/ cdiscards h = true)
  | _, _ => False
  end.

Lemma cone_sided_exec : forall E X K U i AV vs st, one_sided U i = true -> holds AV vs ->
  cstk (cexec_inst E X K i vs st) \/
  exists vs', cexec_inst E X K i vs st = CNext vs' st /\ holds (step_av i (is_copy i) AV) vs' /\
              (forall y, U y = true -> PositiveMap.find y vs' = PositiveMap.find y vs).
Proof.
  intros E X K U i AV vs st O H.
  assert (NC : is_call_op (i_op i) = false).
  { unfold one_sided in O. apply orb_true_iff in O. destruct O as [O|O].
    - apply orb_true_iff in O. destruct O as [O|O].
      + unfold is_nop in O. destruct (i_op i); try discriminate O; reflexivity.
      + unfold is_lab_copy in O. destruct (i_op i); try discriminate O; reflexivity.
    - destruct (is_copy i) as [xo|] eqn:IC; [|discriminate]. apply (is_copy_not_call i xo IC). }
  rewrite (cexec_noncall E X K i vs st NC).
  destruct (one_sided_exec E X U i AV vs st O H) as [S|[vs' [EQ [HH K2]]]].
  - left. apply cstk_lift. assumption.
  - right. exists vs'. rewrite EQ. simpl. auto.
Qed.

Lemma ckept_exec : forall P E X Kb Ka U AVb AVa ib ia vb va st, krel P Kb Ka -> kept_ok U AVb AVa ib ia = true ->
  agree U va vb -> holds AVb vb -> holds AVa va -> sim3 P U (cexec_inst E X Kb ib vb st) (cexec_inst E X Ka ia va st).
Proof.
  intros P E X Kb Ka U AVb AVa ib ia vb va st KR K A HB HA. unfold kept_ok in K.
  apply andb_true_iff in K. destruct K as [K AM]. apply andb_true_iff in K. destruct K as [KO KU].
  destruct (opc_eq_dec (i_op ib) (i_op ia)) as [EO|]; [|discriminate].
  destruct (list_eq_dec Pos.eq_dec (i_outs ib) (i_outs ia)) as [EU|]; [|discriminate].
  rewrite !cexec_inst_factor. rewrite <- EO, <- EU.
  rewrite (argsmatch_resolve U AVb AVa vb va _ _ AM A HB HA). apply cexec_inst_r_sim; assumption.
Qed.

Lemma cexec_jump : forall E X K i vs st l vs' s, cexec_inst E X K i vs st = CJump l vs' s ->
  vs' = vs /\ s = st /\ In (OLab l) (i_args i) /\ is_jump (i_op i) = true.
Proof.
  intros E X K i vs st l vs' s H. unfold cexec_inst in H.
  destruct (is_invoke (i_op i)).
  - destruct (i_args i) as [|[z|v|g] rest]; try discriminate H. destruct (eval_ops vs rest) as [vals|]; [|discriminate H].
    destruct (K g vals st) as [[h|rv] s2]; [discriminate H|]. destruct (bind_outs vs (i_outs i) rv); discriminate H.
  - destruct (is_ret (i_op i)).
    + destruct (eval_ops vs (but_last (i_args i))); discriminate H.
    + destruct (exec_inst E X i vs st) as [v s1|l1 v s1|h s1] eqn:EI; simpl in H; try discriminate H. inversion H. subst.
      eapply exec_inst_jump; eauto.
Qed.

Lemma jump_not_continuing : forall o, is_jump o = true -> continues o || is_unknown o = false.
Proof. intros o H. destruct o; try discriminate H; reflexivity. Qed.

Lemma cwalk_sound : forall E X Kb Ka U, krel True Kb Ka -> forall fuel AVb AVa lb la OB OA vb va st,
  walk fuel U AVb AVa lb la = Some (OB, OA) -> agree U va vb -> holds AVb vb -> holds AVa va ->
  let rb := cexec_insts E X Kb lb vb st in let ra := cexec_insts E X Ka la va st in
  cstk rb \/ (True /\ cstk ra) \/ cgood_end U OB OA rb ra.
Proof.
  intros E X Kb Ka U KR. induction fuel as [|n IH]; intros AVb AVa lb la OB OA vb va st W A HB HA; [discriminate|].
  assert (BONLY : forall ib rb, lb = ib :: rb -> one_sided U ib = true ->
                  walk n U (step_av ib (is_copy ib) AVb) AVa rb la = Some (OB, OA) ->
                  cstk (cexec_insts E X Kb lb vb st) \/ (True /\ cstk (cexec_insts E X Ka la va st)) \/
                  cgood_end U OB OA (cexec_insts E X Kb lb vb st) (cexec_insts E X Ka la va st)).
  { intros ib rb -> O W'. simpl (cexec_insts E X Kb (ib :: rb) vb st).
    destruct (cone_sided_exec E X Kb U ib AVb vb st O HB) as [S|[vb' [EQ [HB' K]]]].
    - left. destruct (cexec_inst E X Kb ib vb st); simpl in *; try contradiction; auto.
    - rewrite EQ. apply (IH _ _ _ _ _ _ vb' va st W'); auto. intros y Uy. rewrite (K y Uy). apply A. assumption. }
  assert (AONLY : forall ia ra, la = ia :: ra -> one_sided U ia = true ->
                  walk n U AVb (step_av ia (is_copy ia) AVa) lb ra = Some (OB, OA) ->
                  cstk (cexec_insts E X Kb lb vb st) \/ (True /\ cstk (cexec_insts E X Ka la va st)) \/
                  cgood_end U OB OA (cexec_insts E X Kb lb vb st) (cexec_insts E X Ka la va st)).
  { intros ia ra -> O W'. simpl (cexec_insts E X Ka (ia :: ra) va st).
    destruct (cone_sided_exec E X Ka U ia AVa va st O HA) as [S|[va' [EQ [HA' K]]]].
    - right. left. split; auto. destruct (cexec_inst E X Ka ia va st); simpl in *; try contradiction; auto.
    - rewrite EQ. apply (IH _ _ _ _ _ _ vb va' st W'); auto. intros y Uy. rewrite (K y Uy). apply A. assumption. }
  simpl in W. destruct lb as [|ib rb]; destruct la as [|ia ra].
  - left. exact I.
  - destruct (one_sided U ia) eqn:O; [|discriminate]. eapply AONLY; eauto.
  - destruct (one_sided U ib) eqn:O; [|discriminate]. eapply BONLY; eauto.
  - destruct (kept_ok U AVb AVa ib ia) eqn:K.
    + pose proof (ckept_exec True E X Kb Ka U AVb AVa ib ia vb va st KR K A HB HA) as SIM. simpl.
      destruct SIM as [S|[[T S]|M]].
      { left. destruct (cexec_inst E X Kb ib vb st); simpl in *; try contradiction; auto. }
      { right. left. split; auto. destruct (cexec_inst E X Ka ia va st); simpl in *; try contradiction; auto. }
      destruct (cexec_inst E X Kb ib vb st) as [vb' s|l vb' s|h s] eqn:EB; destruct (cexec_inst E X Ka ia va st) as [va' s'|l' va' s'|h' s'] eqn:EA;
        simpl in M; try contradiction.
      * (* both continue *)
        destruct M as [<- A'].
        destruct (continues (i_op ib) || is_unknown (i_op ib)) eqn:C0.
        -- apply (IH _ _ _ _ _ _ vb' va' s W); auto; eapply cstep_av_holds; eauto.
        -- (* an instruction that is neither simple, guard nor out-of-core never continues *)
           exfalso. unfold cexec_inst in EB. apply orb_false_iff in C0. destruct C0 as [C1 C2].
           assert (NI : is_invoke (i_op ib) = false) by (destruct (i_op ib); try reflexivity; discriminate C2).
           assert (NR : is_ret (i_op ib) = false) by (destruct (i_op ib); try reflexivity; discriminate C2).
           rewrite NI, NR in EB. destruct (exec_inst E X ib vb st) as [v1 s1|l1 v1 s1|h1 s1] eqn:EI; simpl in EB; try discriminate EB.
           unfold continues in C1. apply orb_false_iff in C1. destruct C1 as [S1 G1].
           destruct ib as [outs op args]. unfold exec_inst in EI. simpl in *.
           destruct op; try discriminate S1; try discriminate G1; try discriminate C2; try discriminate EI.
           ++ destruct args as [|[z|v|l0] [|o2 t]]; discriminate EI.
           ++ destruct args as [|c [|[z|v|t] [|[z2|v2|e] [|o4 r]]]]; try discriminate EI.
              destruct (eval_op vb c) as [v|]; [|discriminate EI]. destruct (v <? 0); discriminate EI.
           ++ destruct args as [|t labs]; try discriminate EI. destruct (eval_op vb t) as [v|]; [|discriminate EI].
              destruct (find (fun o => match o with OLab l1 => label_addr l1 =? v | _ => false end) labs) as [[z|y|l0]|]; discriminate EI.
           ++ destruct (eval_ops vb args) as [[|p [|k [|y t]]]|]; try discriminate EI. unfold halt_data in EI. destruct (okaddr p k); discriminate EI.
           ++ destruct (eval_ops vb args) as [[|p [|k [|y t]]]|]; try discriminate EI. unfold halt_data in EI. destruct (okaddr p k); discriminate EI.
      * (* both jump: the instruction is a jump, hence last *)
        destruct M as [<- [<- A']].
        destruct (cexec_jump E X Kb ib vb st _ _ _ EB) as [-> [_ [_ J]]]. destruct (cexec_jump E X Ka ia va st _ _ _ EA) as [-> _].
        rewrite (jump_not_continuing _ J) in W. destruct rb; [|discriminate]. destruct ra; [|discriminate]. inversion W. subst OB OA.
        right. right. simpl. repeat split; auto.
      * right. right. simpl. exact M.
    + destruct (one_sided U ib) eqn:O1.
      * eapply BONLY; eauto.
      * destruct (one_sided U ia) eqn:O2; [|discriminate]. eapply AONLY; eauto.
Qed.

Lemma cedges_jump : forall E X K C OB OA l rb vs st v s Tb Ta, edges_ok C OB OA rb = true ->
  cexec_insts E X K rb vs st = CJump l v s -> PositiveMap.find l C = Some (Tb, Ta) -> sub_av Tb OB && sub_av Ta OA = true.
Proof.
  intros E X K C OB OA l. induction rb as [|i r IH]; intros vs st v s Tb Ta W RB FC; simpl in RB; [discriminate|].
  unfold edges_ok in W. simpl in W. apply andb_true_iff in W. destruct W as [W1 W2].
  destruct (cexec_inst E X K i vs st) as [v1 s1|l1 v1 s1|h1 s1] eqn:EI; try discriminate.
  - eapply IH; eauto.
  - inversion RB. subst. destruct (cexec_jump E X K i vs st _ _ _ EI) as [_ [_ [IL J]]]. rewrite J in W1.
    rewrite forallb_forall in W1. specialize (W1 _ IL). simpl in W1. rewrite FC in W1. exact W1.
Qed.

Theorem copy_fn_sim : forall U C fb fa, copy_check U C fb fa = true -> fn_sim True fb fa.
Proof.
  intros U C fb fa H. unfold copy_check in H. apply andb_true_iff in H. destruct H as [H BM].
  apply andb_true_iff in H. destruct H as [FR EN0]. unfold same_frame in FR. apply andb_true_iff in FR. destruct FR as [EN CO].
  apply Pos.eqb_eq in EN. destruct (code_eq_dec (f_code fb) (f_code fa)) as [CE|]; [|discriminate].
  exists (cinv U C). split; [assumption|]. split; [assumption|]. split.
  { intros vs0. unfold cinv. split; [apply agree_refl|]. unfold entry_ok in EN0.
    destruct (PositiveMap.find (f_entry fb) C) as [[[|? ?] [|? ?]]|]; try discriminate. split; apply holds_nil. }
  intros E X Kb Ka KR cur prev vb va st [A HI]. unfold blk3. pose proof (blocks_match_l_spec _ fb fa BM cur) as M.
  destruct (PositiveMap.find cur (f_blocks fb)) as [lb|]; destruct (PositiveMap.find cur (f_blocks fa)) as [la|]; auto.
  unfold copy_block in M. destruct (PositiveMap.find cur C) as [[INb INa]|]; [|discriminate]. destruct HI as [HB HA].
  destruct (split_phis lb) as [pb rb] eqn:SB. destruct (split_phis la) as [pa ra] eqn:SA.
  apply andb_true_iff in M. destruct M as [M W]. apply andb_true_iff in M. destruct M as [PE PU].
  destruct (list_eq_dec inst_eq_dec pb pa) as [<-|]; [|discriminate].
  destruct (walk (length rb + length ra + 1) U (kill (flat_map i_outs pb) INb) (kill (flat_map i_outs pb) INa) rb ra) as [[OB OA]|] eqn:WK;
    [|discriminate].
  simpl. unfold cblock_res.
  pose proof (exec_phis_split prev lb vb vb pb rb SB) as HB1. pose proof (exec_phis_split prev la va va pb ra SA) as HA1.
  set (stop := Inst [] O_stop []) in *.
  assert (AL : ruv_align U (pb ++ [stop]) (pb ++ [stop]) = true).
  { apply ruv_align_refl. rewrite forallb_app. rewrite PU. reflexivity. }
  assert (PT : phis_top (pb ++ [stop]) = true).
  { clear - SB. revert pb rb SB. induction lb as [|i r IH]; intros pb rb SB; simpl in SB.
    - inversion SB. reflexivity.
    - destruct (is_phi i) eqn:Ph.
      + destruct (split_phis r) as [ps rs] eqn:SR. inversion SB. subst. simpl. rewrite Ph. eapply IH; eauto.
      + inversion SB. reflexivity. }
  pose proof (ruv_phis U prev (pb ++ [stop]) (pb ++ [stop]) vb va vb va AL PT A A) as PH.
  destruct (exec_phis prev lb vb vb) as [[vb1 r1]|] eqn:EB.
  2:{ left. exact I. }
  destruct HB1 as [-> HB1]. rewrite HB1 in PH. destruct PH as [va1 [ra1 [EA1 [A1 _]]]].
  destruct (exec_phis prev la va va) as [[va2 r2]|] eqn:EA.
  2:{ rewrite HA1 in EA1. discriminate. }
  destruct HA1 as [-> HA1]. rewrite HA1 in EA1. inversion EA1. subst va2 ra1. clear EA1.
  assert (KB : holds (kill (flat_map i_outs pb) INb) vb1).
  { eapply kill_holds; eauto. intros x N. apply (exec_phis_other prev lb vb vb vb1 rb EB x). rewrite SB. simpl. assumption. }
  assert (KA : holds (kill (flat_map i_outs pb) INa) va1).
  { eapply kill_holds; eauto. intros x N. apply (exec_phis_other prev la va va va1 ra EA x). rewrite SA. simpl. assumption. }
  pose proof (cwalk_sound E X Kb Ka U KR _ _ _ rb ra OB OA vb1 va1 st WK A1 KB KA) as WS. simpl in WS.
  destruct WS as [S|[[_ S]|G]].
  - left. destruct (cexec_insts E X Kb rb vb1 st) as [v s|l v s|h s]; simpl in *; try contradiction. exact S.
  - right. left. split; auto. destruct (cexec_insts E X Ka ra va1 st) as [v s|l v s|h s]; simpl in *; try contradiction. exact S.
  - right. right. destruct (cexec_insts E X Kb rb vb1 st) as [v s|l v s|h s] eqn:RB; destruct (cexec_insts E X Ka ra va1 st) as [v' s'|l' v' s'|h' s'] eqn:RA;
      simpl in G; try contradiction; auto.
    destruct G as [<- [<- [A2 [H2b H2a]]]]. repeat split; auto.
    destruct (PositiveMap.find l C) as [[Tb Ta]|] eqn:FC; auto.
    pose proof (cedges_jump E X Kb C OB OA l rb vb1 st v s Tb Ta W RB FC) as EDGE.
    apply andb_true_iff in EDGE. destruct EDGE as [E1 E2].
    split; eapply holds_sub; eauto; apply sub_av_spec; assumption.
Qed.

(* ---------------------------------------------------------------- DFT (block-local scheduling) with calls *)
Definition TTu : positive -> bool := fun _ => true.

Definition cle (r1 r2 : cstep) : Prop := cstk r1 \/ csim_step TTu r1 r2.

Lemma agree_TTu_refl : forall v, agree TTu v v. Proof. intros v x _. reflexivity. Qed.
Lemma agree_TTu_trans : forall a b c, agree TTu a b -> agree TTu b c -> agree TTu a c.
Proof. intros a b c H1 H2 x T. rewrite (H1 x T). apply H2. assumption. Qed.

Lemma cle_refl : forall r, cle r r.
Proof.
  intros [v s|l v s|h s]; right; simpl; repeat split; auto using agree_TTu_refl.
Qed.

Lemma csim_stk : forall r1 r2, csim_step TTu r1 r2 -> cstk r2 -> cstk r1.
Proof.
  intros [v s|l v s|h s] [v' s'|l' v' s'|h' s'] H S; simpl in *; try contradiction. destruct H as [-> _]. exact S.
Qed.

Lemma csim_trans : forall r1 r2 r3, csim_step TTu r1 r2 -> csim_step TTu r2 r3 -> csim_step TTu r1 r3.
Proof.
  intros [v1 s1|l1 v1 s1|h1 s1] [v2 s2|l2 v2 s2|h2 s2] [v3 s3|l3 v3 s3|h3 s3] H1 H2; simpl in *; try contradiction.
  - destruct H1 as [-> A1]. destruct H2 as [-> A2]. split; auto. eapply agree_TTu_trans; eauto.
  - destruct H1 as [-> [-> A1]]. destruct H2 as [-> [-> A2]]. repeat split; auto. eapply agree_TTu_trans; eauto.
  - destruct H1 as [-> D1]. destruct H2 as [-> D2]. split; auto. destruct D1 as [->|D1]; auto.
Qed.

Lemma cle_trans : forall r1 r2 r3, cle r1 r2 -> cle r2 r3 -> cle r1 r3.
Proof.
  intros r1 r2 r3 [S|E] H2; [left; assumption|]. destruct H2 as [S2|E2].
  - left. eapply csim_stk; eauto.
  - right. eapply csim_trans; eauto.
Qed.

Lemma krel_refl : forall P K, krel P K K.
Proof. intros P K g v s. right. right. split; auto. Qed.

Lemma cexec_insts_veq : forall E X K l vb va st, agree TTu va vb -> cle (cexec_insts E X K l vb st) (cexec_insts E X K l va st).
Proof.
  intros E X K l vb va st A. destruct (cexec_insts_self False E X K K l vb va st (krel_refl False K) A) as [S|[[[] _]|M]].
  - left. assumption. - right. assumption.
Qed.

Lemma cle_cons : forall E X K k l1 l2 vs st,
  (forall vs' st', cle (cexec_insts E X K l1 vs' st') (cexec_insts E X K l2 vs' st')) ->
  cle (cexec_insts E X K (k :: l1) vs st) (cexec_insts E X K (k :: l2) vs st).
Proof. intros E X K k l1 l2 vs st H. simpl. destruct (cexec_inst E X K k vs st); auto; apply cle_refl. Qed.

Definition is_plain_unknown (o : opc) : bool := is_unknown o && negb (is_call_op o).

Lemma csimple_cases : forall E X K i vs st, is_simple (i_op i) = true ->
  (exists vs' st', exec_simple E X i vs st = Ok (vs', st') /\ cexec_inst E X K i vs st = CNext vs' st') \/
  (exists e, exec_simple E X i vs st = Err e /\ cexec_inst E X K i vs st = CStop (CHalt (HStuck e)) st).
Proof.
  intros E X K i vs st S. rewrite (cexec_noncall E X K i vs st (simple_not_call _ S)).
  destruct (exec_inst_simple_cases E X i vs st S) as [[vs' [st' [P Q]]]|[e [P Q]]]; rewrite Q; [left|right]; eauto.
Qed.

Lemma plain_unknown_stuck : forall E X K i vs st, is_plain_unknown (i_op i) = true -> cstk (cexec_inst E X K i vs st).
Proof.
  intros E X K i vs st H. unfold is_plain_unknown in H. apply andb_true_iff in H. destruct H as [U NC].
  rewrite (cexec_noncall E X K i vs st). - apply cstk_lift. apply exec_inst_unknown. assumption.
  - destruct (is_call_op (i_op i)); [discriminate|reflexivity].
Qed.

Lemma cswap_simple : forall E X K p i R vs st, is_simple (i_op p) = true -> is_simple (i_op i) = true ->
  indepb p i = true -> disjointb (sem_writes (i_op p)) (FP (i_op i)) = true -> disjointb (sem_writes (i_op i)) (FP (i_op p)) = true ->
  cle (cexec_insts E X K (p :: i :: R) vs st) (cexec_insts E X K (i :: p :: R) vs st).
Proof.
  intros E X K p i R vs st Sp Si I D1 D2.
  pose proof (commute_simple E X p i vs st (indepb_spec _ _ I) D1 D2) as C. unfold run2 in C. simpl.
  destruct (csimple_cases E X K p vs st Sp) as [[vs1 [st1 [P1 Q1]]]|[e [P1 Q1]]]; rewrite Q1; rewrite P1 in *.
  2:{ left. exact Logic.I. }
  destruct (csimple_cases E X K i vs1 st1 Si) as [[vs12 [st12 [P12 Q12]]]|[e [P12 Q12]]]; rewrite Q12; rewrite P12 in *.
  2:{ left. exact Logic.I. }
  destruct (csimple_cases E X K i vs st Si) as [[vs2 [st2 [P2 Q2]]]|[e [P2 Q2]]]; rewrite Q2; rewrite P2 in *.
  2:{ simpl in C. contradiction. }
  destruct (csimple_cases E X K p vs2 st2 Sp) as [[vs21 [st21 [P21 Q21]]]|[e [P21 Q21]]]; rewrite Q21; rewrite P21 in *.
  2:{ simpl in C. contradiction. }
  simpl in C. destruct C as [V ->]. apply cexec_insts_veq. intros x _. symmetry. apply V.
Qed.

Lemma cswap_guard : forall E X K p i R vs st, is_simple (i_op p) = true -> is_guard (i_op i) = true ->
  disj (i_outs p) (op_vars (i_args i)) = true ->
  cle (cexec_insts E X K (p :: i :: R) vs st) (cexec_insts E X K (i :: p :: R) vs st).
Proof.
  intros E X K p i R vs st Sp G D. simpl.
  rewrite (cexec_noncall E X K i vs st (guard_not_call _ G)).
  destruct (csimple_cases E X K p vs st Sp) as [[vs1 [st1 [P1 Q1]]]|[e [P1 Q1]]]; rewrite Q1.
  2:{ left. exact I. }
  rewrite (cexec_noncall E X K i vs1 st1 (guard_not_call _ G)).
  pose proof (guard_cases E X i vs st G) as GA. pose proof (guard_cases E X i vs1 st1 G) as GB.
  destruct (i_args i) as [|c [|c2 t]] eqn:EA.
  - rewrite GB. left. exact I.
  - assert (EV : eval_op vs1 c = eval_op vs c).
    { unfold exec_simple in P1. destruct (eval_ops vs (i_args p)) as [argv|]; [|discriminate].
      destruct (wrapped E X (i_op p) argv st) as [[ov st']|]; [|discriminate].
      destruct (bind_outs vs (i_outs p) ov) as [vs'|] eqn:B; [|discriminate]. inversion P1. subst vs' st'.
      pose proof (args_after_bind vs (i_outs p) ov vs1 [c] B) as H.
      assert (H0 : forall v, In v (i_outs p) -> ~ In v (op_vars [c])) by (apply disj_spec; assumption).
      specialize (H H0). simpl in H.
      destruct (eval_op vs1 c); destruct (eval_op vs c); try discriminate; try reflexivity; inversion H; reflexivity. }
    rewrite GA, GB, EV. destruct (eval_op vs c) as [v|]; [|left; exact I].
    destruct (v <? 0); [left; exact I|]. destruct (v =? 0).
    + right. simpl. split; auto. right. destruct (i_op i); try discriminate G; reflexivity.
    + simpl. rewrite Q1. apply cle_refl.
  - rewrite GB. left. exact I.
Qed.

Lemma app_nil_both : forall {A} (a b : list A), a ++ b = [] -> a = [] /\ b = [].
Proof. intros A a b H. destruct a; simpl in *; [auto|discriminate]. Qed.

(* an instruction that does not touch the store: same outputs in every store, store unchanged *)
Lemma wrapped_pure : forall E X o a st st', FP o = [] ->
  match wrapped E X o a st, wrapped E X o a st' with
  | Ok (o1, s1), Ok (o2, s2) => o1 = o2 /\ s1 = st /\ s2 = st'
  | Err _, Err _ => True
  | _, _ => False
  end.
Proof.
  intros E X o a st st' F. unfold wrapped. fold (FP o). unfold FP in F. destruct (app_nil_both _ _ F) as [_ W].
  rewrite W. unfold FP. rewrite F.
  assert (M : mask [] st = mask [] st') by reflexivity. rewrite M.
  destruct (eff_sem E X o a (mask [] st')) as [[ov s']|e]; auto. rewrite !merge_nil. auto.
Qed.

Lemma cexec_invoke_eq : forall E X K i vs st g rest, is_invoke (i_op i) = true -> i_args i = OLab g :: rest ->
  cexec_inst E X K i vs st =
  match eval_ops vs rest with
  | Some vals =>
      match K g vals st with
      | (CRet rv, st') => match bind_outs vs (i_outs i) rv with Some vs' => CNext vs' st' | None => CStop (CHalt (HStuck EArity)) st' end
      | (CHalt h, st') => CStop (CHalt h) st'
      end
  | None => CStop (CHalt (HStuck EUndef)) st
  end.
Proof. intros E X K i vs st g rest H H0. unfold cexec_inst. rewrite H, H0. reflexivity. Qed.

Lemma cswap_invoke : forall E X K p i R vs st, is_simple (i_op p) = true -> is_invoke (i_op i) = true ->
  FP (i_op p) = [] -> indepb p i = true ->
  cle (cexec_insts E X K (p :: i :: R) vs st) (cexec_insts E X K (i :: p :: R) vs st).
Proof.
  intros E X K p i R vs st Sp Iv F ID. destruct (indepb_spec _ _ ID) as [I12 [I21 IO]]. simpl.
  destruct (csimple_cases E X K p vs st Sp) as [[vs1 [st1 [P1 Q1]]]|[e [P1 Q1]]]; rewrite Q1.
  2:{ left. exact I. }
  (* what p did *)
  unfold exec_simple in P1. destruct (eval_ops vs (i_args p)) as [argv|] eqn:EAp; [|discriminate].
  destruct (wrapped E X (i_op p) argv st) as [[ov sp]|] eqn:Wp; [|discriminate].
  destruct (bind_outs vs (i_outs p) ov) as [vs1'|] eqn:Bp; [|discriminate]. inversion P1. subst vs1' sp. clear P1.
  assert (ST : st1 = st).
  { pose proof (wrapped_pure E X (i_op p) argv st st F) as WP. rewrite Wp in WP. destruct WP as [_ [H _]]. assumption. }
  subst st1.
  (* the invoke, after p and before p *)
  destruct (i_args i) as [|[z|v|g] rest] eqn:EAi;
    try (left; unfold cexec_inst; rewrite Iv, EAi; exact I).
  rewrite (cexec_invoke_eq E X K i vs1 st g rest Iv EAi), (cexec_invoke_eq E X K i vs st g rest Iv EAi).
  assert (ER : eval_ops vs1 rest = eval_ops vs rest).
  { apply (args_after_bind vs (i_outs p) ov vs1 rest Bp). intros v Hv N. apply (I12 v Hv). unfold op_vars in *. simpl. assumption. }
  rewrite ER. destruct (eval_ops vs rest) as [vals|]; [|left; exact I].
  destruct (K g vals st) as [[h|rv] s2] eqn:EK.
  { apply cle_refl. }
  destruct (bind_outs vs1 (i_outs i) rv) as [vs12|] eqn:B12; [|left; exact I].
  destruct (bind_status_some _ _ vs1 vs _ B12) as [vs2 B2]. rewrite B2.
  (* p after the invoke *)
  assert (Q2 : cexec_inst E X K p vs2 s2 = CNext (match bind_outs vs2 (i_outs p) ov with Some x => x | None => vs2 end) s2
               /\ exists vs21, bind_outs vs2 (i_outs p) ov = Some vs21).
  { rewrite (cexec_noncall E X K p vs2 s2 (simple_not_call _ Sp)). rewrite (exec_inst_is_simple E X p vs2 s2 Sp). unfold exec_simple.
    rewrite (args_after_bind vs (i_outs i) rv vs2 (i_args p) B2 I21), EAp.
    pose proof (wrapped_pure E X (i_op p) argv st s2 F) as WP. rewrite Wp in WP.
    destruct (wrapped E X (i_op p) argv s2) as [[ov2 sp2]|]; [|contradiction]. destruct WP as [<- [_ ->]].
    destruct (bind_status_some _ _ vs vs2 _ Bp) as [vs21 B21]. rewrite B21. simpl. split; eauto. }
  destruct Q2 as [Q2 [vs21 B21]]. rewrite B21 in Q2. rewrite Q2.
  apply cexec_insts_veq. intros x _.
  destruct (in_dec Pos.eq_dec x (i_outs i)) as [Xi|Ni].
  - rewrite (bind_other _ _ _ _ B21 x). + apply (bind_same _ _ _ _ _ _ B2 B12 x Xi). + intro Xp. apply (IO x Xp Xi).
  - rewrite (bind_other _ _ _ _ B12 x Ni).
    destruct (in_dec Pos.eq_dec x (i_outs p)) as [Xp|Np].
    + apply (bind_same _ _ _ _ _ _ B21 Bp x Xp).
    + rewrite (bind_other _ _ _ _ B21 x Np), (bind_other _ _ _ _ B2 x Ni), (bind_other _ _ _ _ Bp x Np). reflexivity.
Qed.

(* ---- a total arithmetic instruction may also move in FRONT of an invoke, provided its operands are known to be defined
        (outputs of instructions of the block that have already been executed): it cannot fail, so running it before a
        call that may halt changes nothing *)
Definition defined (D : list positive) (vs : vmap) : Prop := forall x, In x D -> PositiveMap.find x vs <> None.

Definition arith_total (o : opc) (n : nat) : bool :=
  match o with
  | O_add | O_sub | O_mul | O_div | O_sdiv | O_mod | O_smod | O_exp | O_lt | O_gt | O_slt | O_sgt | O_eq | O_and | O_or | O_xor
  | O_byte | O_shl | O_shr | O_sar | O_signextend => Nat.eqb n 2
  | O_addmod | O_mulmod => Nat.eqb n 3
  | O_iszero | O_not | O_assign => Nat.eqb n 1
  | _ => false
  end.

Definition safe_arith (D : list positive) (i : inst) : bool :=
  arith_total (i_op i) (length (i_args i))
  && match i_outs i with [_] => true | _ => false end
  && forallb (fun o => match o with OLit _ => true | OVar v => memp v D | OLab _ => false end) (i_args i).

Lemma memp_true_In : forall v l, memp v l = true -> In v l.
Proof. intros v l H. unfold memp in H. apply existsb_exists in H. destruct H as [x [I E]]. apply Pos.eqb_eq in E. subst. assumption. Qed.

Lemma eval_ops_defined : forall D vs l, defined D vs ->
  forallb (fun o => match o with OLit _ => true | OVar v => memp v D | OLab _ => false end) l = true ->
  exists vals, eval_ops vs l = Some vals /\ length vals = length l.
Proof.
  intros D vs. induction l as [|o t IH]; intros DF H; simpl in *.
  - exists []. auto.
  - apply andb_true_iff in H. destruct H as [Ho Ht]. destruct (IH DF Ht) as [vals [EV LE]]. rewrite EV.
    destruct o as [z|v|l0]; simpl; try discriminate Ho.
    + exists (z :: vals). simpl. auto.
    + destruct (PositiveMap.find v vs) as [x|] eqn:F.
      * exists (x :: vals). simpl. auto.
      * exfalso. apply (DF v (memp_true_In _ _ Ho)). assumption.
Qed.

Lemma arith_total_some : forall o a, arith_total o (length a) = true -> exists v, arith o a = Some v.
Proof.
  intros o a H. unfold arith. destruct o; try discriminate H; simpl in H;
    destruct a as [|x [|y [|z [|w t]]]]; try discriminate H; simpl; eauto.
Qed.

Lemma wrapped_arith_total : forall E X o a st, arith_total o (length a) = true ->
  exists v, wrapped E X o a st = Ok ([v], st).
Proof.
  intros E X o a st H. destruct (arith_total_some o a H) as [v AV]. exists v. unfold wrapped.
  assert (F : sem_reads o ++ sem_writes o = [] /\ sem_writes o = []) by (destruct o; try discriminate H; split; reflexivity).
  destruct F as [F1 F2]. rewrite F1, F2.
  assert (S : forall s, eff_sem E X o a s = match arith o a with Some v => Ok ([v], s) | None => Err EArity end).
  { intros s. destruct o; try discriminate H; reflexivity. }
  rewrite S, AV, merge_nil. reflexivity.
Qed.

Lemma arith_total_simple : forall o n, arith_total o n = true -> is_simple o = true /\ FP o = [].
Proof. intros o n H. destruct o; try discriminate H; split; reflexivity. Qed.

Lemma safe_exec : forall E X K D i vs, safe_arith D i = true -> defined D vs ->
  exists o vals v, i_outs i = [o] /\ eval_ops vs (i_args i) = Some vals /\ arith (i_op i) vals = Some v /\
    forall st, cexec_inst E X K i vs st = CNext (PositiveMap.add o v vs) st.
Proof.
  intros E X K D i vs S DF. unfold safe_arith in S. apply andb_true_iff in S. destruct S as [S OPS].
  apply andb_true_iff in S. destruct S as [AT OUT].
  destruct (i_outs i) as [|o [|o2 t]] eqn:EO; try discriminate OUT.
  destruct (eval_ops_defined D vs (i_args i) DF OPS) as [vals [EV LE]].
  rewrite <- LE in AT. destruct (arith_total_some (i_op i) vals AT) as [v AV].
  exists o, vals, v. repeat split; auto. intros st.
  destruct (wrapped_arith_total E X (i_op i) vals st AT) as [v2 W].
  assert (v2 = v).
  { unfold wrapped in W. destruct (arith_total_simple _ _ AT) as [_ FPn]. fold (FP (i_op i)) in W. rewrite FPn in W.
    assert (SW : sem_writes (i_op i) = []). { unfold FP in FPn. destruct (app_nil_both _ _ FPn). assumption. }
    rewrite SW in W.
    assert (Sx : forall s, eff_sem E X (i_op i) vals s = match arith (i_op i) vals with Some v => Ok ([v], s) | None => Err EArity end).
    { intros s0. destruct (i_op i); try discriminate AT; reflexivity. }
    rewrite Sx, AV in W. inversion W. reflexivity. }
  subst v2. destruct (arith_total_simple _ _ AT) as [SI _].
  rewrite (cexec_noncall E X K i vs st (simple_not_call _ SI)), (exec_inst_is_simple E X i vs st SI).
  unfold exec_simple. rewrite EV, W, EO. reflexivity.
Qed.

Lemma defined_add : forall D vs o v, defined D vs -> defined (o :: D) (PositiveMap.add o v vs).
Proof.
  intros D vs o v DF x I. destruct (Pos.eq_dec x o) as [->|N].
  - rewrite PositiveMap.gss. discriminate.
  - rewrite PositiveMap.gso by assumption. destruct I as [EQ|I]; [congruence|]. apply DF. assumption.
Qed.

Lemma bind_defined : forall outs vals vs vs' D, bind_outs vs outs vals = Some vs' -> defined D vs -> defined (outs ++ D) vs'.
Proof.
  induction outs as [|o t IH]; intros vals vs vs' D B DF; destruct vals as [|v r]; simpl in B; try discriminate.
  - inversion B. subst. assumption.
  - intros x I. simpl in I.
    assert (DD : defined (t ++ (o :: D)) vs') by (eapply IH; eauto; apply defined_add; assumption).
    apply DD. destruct I as [<-|I]; apply in_or_app.
    + right. left. reflexivity.
    + apply in_app_or in I. destruct I as [I|I]; [left; assumption|right; right; assumption].
Qed.

Lemma exec_inst_next_kinds : forall E X i vs st vs' st', exec_inst E X i vs st = SNext vs' st' ->
  is_simple (i_op i) = true \/ (is_guard (i_op i) = true /\ vs' = vs).
Proof.
  intros E X i vs st vs' st' H.
  destruct (is_simple (i_op i)) eqn:S; [left; reflexivity|right].
  destruct (is_guard (i_op i)) eqn:G.
  - split; auto. pose proof (guard_cases E X i vs st G) as GC. destruct (i_args i) as [|c [|c2 t]]; rewrite GC in H; try discriminate.
    destruct (eval_op vs c) as [v|]; [|discriminate]. destruct (v <? 0); [discriminate|]. destruct (v =? 0); [discriminate|].
    inversion H. reflexivity.
  - exfalso. destruct i as [outs op args]. unfold exec_inst in H. simpl in *.
    destruct op; try discriminate S; try discriminate G; try discriminate H.
    + destruct args as [|[z|v|l0] [|o2 t]]; discriminate H.
    + destruct args as [|c [|[z|v|t] [|[z2|v2|e] [|o4 r]]]]; try discriminate H.
      destruct (eval_op vs c) as [v|]; [|discriminate H]. destruct (v <? 0); discriminate H.
    + destruct args as [|t labs]; try discriminate H. destruct (eval_op vs t) as [v|]; [|discriminate H].
      destruct (find (fun o => match o with OLab l1 => label_addr l1 =? v | _ => false end) labs) as [[z|y|l0]|]; discriminate H.
    + destruct (eval_ops vs args) as [[|p [|n [|y t]]]|]; try discriminate H. unfold halt_data in H. destruct (okaddr p n); discriminate H.
    + destruct (eval_ops vs args) as [[|p [|n [|y t]]]|]; try discriminate H. unfold halt_data in H. destruct (okaddr p n); discriminate H.
Qed.

Definition step_D (i : inst) (D : list positive) : list positive := if is_guard (i_op i) then D else i_outs i ++ D.

(* after any instruction that continues, its outputs are defined and what was defined stays defined *)
Lemma cexec_next_defined : forall E X K i vs st vs' st' D, cexec_inst E X K i vs st = CNext vs' st' -> defined D vs ->
  defined (step_D i D) vs'.
Proof.
  intros E X K i vs st vs' st' D H DF. unfold cexec_inst in H. unfold step_D.
  destruct (is_invoke (i_op i)) eqn:IV.
  - assert (G : is_guard (i_op i) = false) by (destruct (i_op i); try discriminate IV; reflexivity). rewrite G.
    destruct (i_args i) as [|[z|v|g] rest]; try discriminate H. destruct (eval_ops vs rest) as [vals|]; [|discriminate H].
    destruct (K g vals st) as [[h|rv] s2]; [discriminate H|].
    destruct (bind_outs vs (i_outs i) rv) as [v2|] eqn:B; [|discriminate H]. inversion H. subst. eapply bind_defined; eauto.
  - destruct (is_ret (i_op i)).
    + destruct (eval_ops vs (but_last (i_args i))); discriminate H.
    + destruct (exec_inst E X i vs st) as [v s|l v s|h s] eqn:EI; simpl in H; try discriminate H. inversion H. subst.
      destruct (exec_inst_next_kinds E X i vs st vs' st' EI) as [S|[G ->]].
      * assert (G : is_guard (i_op i) = false) by (destruct (i_op i); try discriminate S; reflexivity). rewrite G.
        rewrite (exec_inst_is_simple E X i vs st S) in EI. unfold exec_simple in EI.
        destruct (eval_ops vs (i_args i)); [|discriminate]. destruct (wrapped E X (i_op i) l st) as [[ov s2]|]; [|discriminate].
        destruct (bind_outs vs (i_outs i) ov) as [v2|] eqn:B; [|discriminate]. inversion EI. subst. eapply bind_defined; eauto.
      * rewrite G. assumption.
Qed.

Lemma defined_weaken : forall D D' vs, defined D' vs -> (forall x, In x D -> In x D') -> defined D vs.
Proof. intros D D' vs H S x I. apply H. apply S. assumption. Qed.

Lemma step_D_incl : forall i D x, In x D -> In x (step_D i D).
Proof. intros i D x I. unfold step_D. destruct (is_guard (i_op i)); auto. apply in_or_app. right. assumption. Qed.

Lemma cswap_invoke_early : forall E X K D p i R vs st, is_invoke (i_op p) = true -> safe_arith D i = true ->
  defined D vs -> indepb p i = true ->
  cle (cexec_insts E X K (p :: i :: R) vs st) (cexec_insts E X K (i :: p :: R) vs st).
Proof.
  intros E X K D p i R vs st Iv SA DF ID. destruct (indepb_spec _ _ ID) as [I12 [I21 IO]]. simpl.
  destruct (safe_exec E X K D i vs SA DF) as [o [vals_i [v [EO [EVi [AVi Qi]]]]]]. rewrite (Qi st).
  destruct (i_args p) as [|[z|w|g] rest] eqn:EAp;
    try (left; unfold cexec_inst; rewrite Iv, EAp; exact I).
  rewrite (cexec_invoke_eq E X K p vs st g rest Iv EAp), (cexec_invoke_eq E X K p (PositiveMap.add o v vs) st g rest Iv EAp).
  assert (ER : eval_ops (PositiveMap.add o v vs) rest = eval_ops vs rest).
  { apply eval_ops_indep. intros x Hx. apply PositiveMap.gso. intro; subst x.
    apply (I21 o). - rewrite EO. left. reflexivity. - unfold op_vars in *. simpl. assumption. }
  rewrite ER. destruct (eval_ops vs rest) as [vals|]; [|left; exact I].
  destruct (K g vals st) as [[h|rv] s2] eqn:EK.
  { apply cle_refl. }
  destruct (bind_outs vs (i_outs p) rv) as [vsp|] eqn:Bp; [|left; exact I].
  destruct (bind_status_some _ _ vs (PositiveMap.add o v vs) _ Bp) as [vsip Bip]. rewrite Bip.
  assert (DFp : defined D vsp).
  { eapply defined_weaken. - eapply bind_defined; eauto. - intros x Hx. apply in_or_app. right. assumption. }
  destruct (safe_exec E X K D i vsp SA DFp) as [o' [vals' [v' [EO' [EVi' [AVi' Qi']]]]]].
  rewrite EO in EO'. inversion EO'. subst o'. rewrite (Qi' s2).
  assert (VV : v' = v).
  { rewrite (args_after_bind vs (i_outs p) rv vsp (i_args i) Bp I12) in EVi'. rewrite EVi in EVi'. inversion EVi'. subst vals'.
    rewrite AVi in AVi'. inversion AVi'. reflexivity. }
  subst v'. apply cexec_insts_veq. intros x _.
  destruct (in_dec Pos.eq_dec x (i_outs p)) as [Xp|Np].
  - assert (NO : x <> o). { intro; subst x. apply (IO o Xp). rewrite EO. left. reflexivity. }
    rewrite (bind_same _ _ _ _ _ _ Bip Bp x Xp). rewrite PositiveMap.gso by assumption. reflexivity.
  - rewrite (bind_other _ _ _ _ Bip x Np). destruct (Pos.eq_dec x o) as [->|NO].
    + rewrite !PositiveMap.gss. reflexivity.
    + rewrite !PositiveMap.gso by assumption. symmetry. apply (bind_other _ _ _ _ Bp x Np).
Qed.

(* `i` (later in `before`) is moved in front of `p`; D = variables known to be defined at that point *)
Definition ccross_ok (D : list positive) (p i : inst) : bool :=
  if is_plain_unknown (i_op p) then true
  else if is_simple (i_op p) then
    if is_simple (i_op i) then
      indepb p i && disjointb (sem_writes (i_op p)) (FP (i_op i)) && disjointb (sem_writes (i_op i)) (FP (i_op p))
    else if is_guard (i_op i) then disj (i_outs p) (op_vars (i_args i))
    else if is_invoke (i_op i) then nilb (FP (i_op p)) && indepb p i
    else is_plain_unknown (i_op i)
  else if is_invoke (i_op p) then safe_arith D i && indepb p i
  else false.

Lemma cswap_ok : forall E X K D p i R vs st, defined D vs -> ccross_ok D p i = true ->
  cle (cexec_insts E X K (p :: i :: R) vs st) (cexec_insts E X K (i :: p :: R) vs st).
Proof.
  intros E X K D p i R vs st DF C. unfold ccross_ok in C.
  destruct (is_plain_unknown (i_op p)) eqn:Up.
  { left. simpl. pose proof (plain_unknown_stuck E X K p vs st Up) as S. destruct (cexec_inst E X K p vs st); simpl in *; try contradiction; auto. }
  destruct (is_simple (i_op p)) eqn:Sp.
  - destruct (is_simple (i_op i)) eqn:Si.
    + apply andb_true_iff in C. destruct C as [C D2]. apply andb_true_iff in C. destruct C as [I D1]. apply cswap_simple; auto.
    + destruct (is_guard (i_op i)) eqn:G; [apply cswap_guard; auto|].
      destruct (is_invoke (i_op i)) eqn:Iv.
      * apply andb_true_iff in C. destruct C as [F ID]. apply cswap_invoke; auto. destruct (FP (i_op p)); [reflexivity|discriminate].
      * left. simpl. destruct (csimple_cases E X K p vs st Sp) as [[vs1 [st1 [P1 Q1]]]|[e [P1 Q1]]]; rewrite Q1; [|exact I].
        pose proof (plain_unknown_stuck E X K i vs1 st1 C) as S. destruct (cexec_inst E X K i vs1 st1); simpl in *; try contradiction; auto.
  - destruct (is_invoke (i_op p)) eqn:Ivp; [|discriminate].
    apply andb_true_iff in C. destruct C as [SA ID]. eapply cswap_invoke_early; eauto.
Qed.

Lemma cle_cons_D : forall E X K k l1 l2 vs st,
  (forall vs' st', cexec_inst E X K k vs st = CNext vs' st' -> cle (cexec_insts E X K l1 vs' st') (cexec_insts E X K l2 vs' st')) ->
  cle (cexec_insts E X K (k :: l1) vs st) (cexec_insts E X K (k :: l2) vs st).
Proof. intros E X K k l1 l2 vs st H. simpl. destruct (cexec_inst E X K k vs st) eqn:EK; auto; apply cle_refl. Qed.

Lemma cmove_front : forall E X K D i post pre vs st, defined D vs -> forallb (fun p => ccross_ok D p i) pre = true ->
  cle (cexec_insts E X K (pre ++ i :: post) vs st) (cexec_insts E X K (i :: pre ++ post) vs st).
Proof.
  intros E X K D i post. induction pre as [|p pre IH]; intros vs st DF H.
  - apply cle_refl.
  - simpl in H. apply andb_true_iff in H. destruct H as [Hp Hr].
    eapply cle_trans.
    + apply (cle_cons_D E X K p (pre ++ i :: post) (i :: pre ++ post) vs st). intros vs' st' EK. apply IH; auto.
      eapply defined_weaken. * eapply cexec_next_defined; eauto. * intros x Hx. apply step_D_incl. assumption.
    + eapply cswap_ok; eauto.
Qed.

Lemma cflip_exec : forall E X K i j vs st, flip_match i j = true -> cexec_inst E X K i vs st = cexec_inst E X K j vs st.
Proof.
  intros E X K i j vs st F. destruct (inst_eq_dec i j) as [->|NE]; [reflexivity|].
  assert (NC : is_call_op (i_op i) = false /\ is_call_op (i_op j) = false).
  { unfold flip_match in F. destruct (inst_eq_dec i j); [contradiction|].
    destruct (i_args i) as [|a [|b [|c t]]]; try discriminate F. destruct (i_args j) as [|b' [|a' [|c' t']]]; try discriminate F.
    apply andb_true_iff in F. destruct F as [_ F]. apply orb_true_iff in F. destruct F as [F|F].
    - apply andb_true_iff in F. destruct F as [C F]. destruct (opc_eq_dec (i_op i) (i_op j)) as [<-|]; [|discriminate].
      destruct (i_op i); try discriminate C; split; reflexivity.
    - destruct (flip_cmp (i_op i)) as [o'|] eqn:FC; [|discriminate]. destruct (opc_eq_dec o' (i_op j)) as [<-|]; [|discriminate].
      destruct (i_op i); try discriminate FC; inversion FC; split; reflexivity. }
  destruct NC as [N1 N2]. rewrite (cexec_noncall E X K i vs st N1), (cexec_noncall E X K j vs st N2), (flip_exec E X i j vs st F). reflexivity.
Qed.

Fixpoint cdft_perm (D : list positive) (la lb : list inst) : bool :=
  match la with
  | [] => nilb lb
  | j :: ra =>
      match extract j [] lb with
      | Some (pre, i, post) => forallb (fun p => ccross_ok D p i) pre && cdft_perm (step_D j D) ra (pre ++ post)
      | None => false
      end
  end.

Lemma cdft_perm_sound : forall E X K la D lb vs st, defined D vs -> cdft_perm D la lb = true ->
  cle (cexec_insts E X K lb vs st) (cexec_insts E X K la vs st).
Proof.
  intros E X K. induction la as [|j ra IH]; intros D lb vs st DF H; simpl in H.
  - destruct lb; [apply cle_refl|discriminate].
  - destruct (extract j [] lb) as [[[pre i] post]|] eqn:EX; [|discriminate].
    apply andb_true_iff in H. destruct H as [C P].
    destruct (extract_spec j lb [] pre i post EX) as [F EQ]. simpl in EQ. subst lb.
    eapply cle_trans. { eapply cmove_front; eauto. }
    assert (HD : cexec_insts E X K (i :: pre ++ post) vs st = cexec_insts E X K (j :: pre ++ post) vs st).
    { simpl. rewrite (cflip_exec E X K i j vs st F). reflexivity. }
    rewrite HD. apply cle_cons_D. intros vs' st' EK. eapply IH; eauto. eapply cexec_next_defined; eauto.
Qed.

Definition cdft_block (lb la : list inst) : bool :=
  let (pb, rb) := split_phis lb in
  let (pa, ra) := split_phis la in
  (if list_eq_dec inst_eq_dec pb pa then true else false) && cdft_perm [] ra rb.

Definition cdft_check (b a : func) : bool := same_frame b a && blocks_match cdft_block b a.

Lemma cle_sim3 : forall P r1 r2 r3, cle r1 r2 -> sim3 P TTu r2 r3 -> sim3 P TTu r1 r3.
Proof.
  intros P r1 r2 r3 [S|E] H; [left; assumption|]. destruct H as [S2|[[T S3]|M]].
  - left. eapply csim_stk; eauto.
  - right. left. auto.
  - right. right. eapply csim_trans; eauto.
Qed.

Theorem cdft_fn_sim : forall P fb fa, cdft_check fb fa = true -> fn_sim P fb fa.
Proof.
  intros P fb fa H. unfold cdft_check in H. apply andb_true_iff in H. destruct H as [FR BM].
  unfold same_frame in FR. apply andb_true_iff in FR. destruct FR as [EN CO].
  apply Pos.eqb_eq in EN. destruct (code_eq_dec (f_code fb) (f_code fa)) as [CE|]; [|discriminate].
  exists (fun _ _ vb va => agree TTu va vb). split; [assumption|]. split; [assumption|]. split. { intros vs0. apply agree_TTu_refl. }
  intros E X Kb Ka KR cur prev vb va st A. unfold blk3. pose proof (blocks_match_spec _ fb fa BM cur) as M.
  destruct (PositiveMap.find cur (f_blocks fb)) as [lb|]; destruct (PositiveMap.find cur (f_blocks fa)) as [la|]; auto.
  simpl. unfold cdft_block in M.
  destruct (split_phis lb) as [pb rb] eqn:SB. destruct (split_phis la) as [pa ra] eqn:SA.
  apply andb_true_iff in M. destruct M as [PE PM]. destruct (list_eq_dec inst_eq_dec pb pa) as [<-|]; [|discriminate].
  apply (sim3_blk P TTu (fun _ _ vb va => agree TTu va vb) cur); auto.
  unfold cblock_res.
  pose proof (exec_phis_split prev lb vb vb pb rb SB) as HB. pose proof (exec_phis_split prev la va va pb ra SA) as HA.
  pose proof (exec_phis_self prev va vb A (pb ++ [Inst [] O_stop []]) vb va A) as PS.
  destruct (exec_phis prev lb vb vb) as [[vb1 r1]|]; [|left; exact I].
  destruct HB as [-> HB]. rewrite HB in PS. destruct PS as [va1 [EA1 A1]].
  destruct (exec_phis prev la va va) as [[va2 r2]|].
  2:{ rewrite HA in EA1. discriminate. }
  destruct HA as [-> HA]. rewrite HA in EA1. inversion EA1. subst va2.
  (* before's body on vb1  <=  after's body on vb1 (same handler)  ~  after's body on va1 with the related handler *)
  eapply cle_sim3. { apply (cdft_perm_sound E X Kb ra [] rb vb1 st); [intros x []|exact PM]. }
  apply cexec_insts_self; auto.
Qed.
