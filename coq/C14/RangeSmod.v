From Coq Require Import ZArith Bool List String Lia.
From Verif Require Import Base.Word256 Base.PyInt Base.WordLemmas C14.RangeBase C14.GenRange C14.RangeSound C14.RangeLemmas2.
Import ListNotations.
Open Scope Z_scope.
Ltac Zify.zify_post_hook ::= Z.to_euclidean_division_equations.

Theorem eval_smod_sound_mem : forall A B a b, wf A -> wf B -> mem a A -> mem b B ->
  match eval_smod A B with Ok R => mem (w_smod a b) R /\ (sform B -> wf R) | Err _ => False end.
Proof.
  intros A B a b WA WB MA MB; unfold eval_smod.
  destruct A as [| |l1 h1], B as [| |l2 h2]; cbn [mem wf sform] in *; try contradiction;
  open_range; rewrite ?wrap256_unsigned; consts; exec; getreps; subst; unfold w_smod, of_signed; fixreps.
  all: lazymatch goal with
       | |- True /\ _ => split; [exact I | intros _; exact I]
       | |- context [0 mod W =? 0] =>
           change (0 mod W =? 0) with true; cbv iota; split; [exists 0; split; [lia | reflexivity] | intros _; wl]
       | _ => idtac
       end.
  all: destruct (to_signed_nz h2 ltac:(lia) ltac:(assumption)) as [N1 N2];
       assert (E9: h2 mod W =? 0 = false) by (apply Z.eqb_neq; exact N2); rewrite E9; clear E9;
       pose proof (to_signed_abs_le h2 ltac:(lia)) as AB;
       set (d' := to_signed (h2 mod W)) in *;
       try rewrite (to_signed_mod' v1) by lia;
       match goal with |- context [Z.rem ?s d'] =>
         destruct (rem_bounds s d' N1) as (R1 & R2 & R3); set (r := Z.rem s d') in * end;
       (split; [exists r; split; [lia | reflexivity] | intros; wl]).
Qed.

(* Well-formedness of the result really fails for a divisor constant held in unsigned form
   (limit = |d| - 1 exceeds 2^255): the lower bound falls below MIN_INT256. *)
Theorem eval_smod_wf_refuted : exists A B, wf A /\ wf B /\ exists R, eval_smod A B = Ok R /\ ~ wf R.
Proof.
  exists (IV (-5) 5), (IV (HALF + 4) (HALF + 4)).
  split; [cbn; wl|]. split; [cbn; wl|].
  exists (IV (- (HALF + 3)) (HALF + 3)). split; [vm_compute; reflexivity|].
  cbn [wf]. wl.
Qed.

Corollary eval_smod_sound_sform : forall A B a b, wf A -> wf B -> sform B -> mem a A -> mem b B ->
  match eval_smod A B with Ok R => mem (w_smod a b) R /\ wf R | Err _ => False end.
Proof.
  intros A B a b WA WB SB MA MB. pose proof (eval_smod_sound_mem A B a b WA WB MA MB) as H.
  destruct (eval_smod A B); [|exact H]. destruct H as [H1 H2]. split; [exact H1 | exact (H2 SB)].
Qed.
