(* eval_sdiv: the full soundness statement is FALSE for the current code (constants are not
   normalised to signed form: `d = divisor.as_constant()` is "already signed" only if the range was
   built from a literal); refuted below, and proved under the signed-form hypothesis. *)
From Coq Require Import ZArith Bool List String Lia.
From Verif Require Import Base.Word256 Base.PyInt Base.WordLemmas C14.RangeBase C14.GenRange C14.RangeSound C14.RangeLemmas2.
Import ListNotations.
Open Scope Z_scope.
Ltac Zify.zify_post_hook ::= Z.to_euclidean_division_equations.

Theorem eval_sdiv_refuted : exists A B a b, wf A /\ wf B /\ mem a A /\ mem b B /\
  exists R, eval_sdiv A B = Ok R /\ ~ mem (w_sdiv a b) R.
Proof.
  exists (IV 10 10), (IV (W - 1) (W - 1)), 10, (W - 1).
  split; [cbn; wl|]. split; [cbn; wl|].
  split; [exists 10; split; [lia | reflexivity]|].
  split; [exists (W - 1); split; [lia | reflexivity]|].
  exists (IV 0 0). split; [vm_compute; reflexivity|].
  intros [v [Hv Hm]]. assert (v = 0) by lia. subst v. vm_compute in Hm. discriminate.
Qed.


(* same defect on the non-constant-dividend path: divisor {2^256-1} (the word -1) is taken as positive *)
Theorem eval_sdiv_refuted_range : exists A B a b, wf A /\ wf B /\ mem a A /\ mem b B /\
  exists R, eval_sdiv A B = Ok R /\ ~ mem (w_sdiv a b) R.
Proof.
  exists (IV (-10) 10), (IV (W - 1) (W - 1)), 10, (W - 1).
  split; [cbn; wl|]. split; [cbn; wl|].
  split; [exists 10; split; [lia | reflexivity]|].
  split; [exists (W - 1); split; [lia | reflexivity]|].
  exists (IV 0 0). split; [vm_compute; reflexivity|].
  intros [v [Hv Hm]]. assert (v = 0) by lia. subst v. vm_compute in Hm. discriminate.
Qed.

Corollary eval_sdiv_not_sound : ~ sound2 eval_sdiv w_sdiv.
Proof.
  intros S. destruct eval_sdiv_refuted as (A & B & a & b & WA & WB & MA & MB & R & E & N).
  specialize (S A B a b WA WB MA MB). rewrite E in S. tauto.
Qed.

Theorem eval_sdiv_sound_partial : forall A B a b, wf A -> wf B -> sform B ->
  (vr_is_constant A = true -> sform A) -> mem a A -> mem b B ->
  match eval_sdiv A B with Ok R => mem (w_sdiv a b) R /\ wf R | Err _ => False end.
Proof.
  intros A B a b WA WB SB SA MA MB; unfold eval_sdiv.
  destruct A as [| |l1 h1], B as [| |l2 h2]; cbn [mem wf sform] in *; try contradiction;
  open_range; rewrite ?wrap256_unsigned; consts; exec; getreps; subst; unfold w_sdiv, of_signed; fixreps.
  all: try (specialize (SA eq_refl)).
  1-2: wordwit.
  1: split; [exists (- HALF); split; [lia | vm_compute; reflexivity] | wl].
  all: rewrite ?(to_signed_mod' h2) by lia.
  all: assert (E9: h2 mod W =? 0 = false) by (apply Z.eqb_neq; mlia); rewrite ?E9; clear E9.
  1-4: rewrite (to_signed_mod' h1) by lia;
       match goal with |- context [?c * (Z.abs ?x / Z.abs ?y)] =>
         replace (c * (Z.abs x / Z.abs y)) with (x ÷ y)
           by (rewrite <- (sdiv_const_eq h1 h2) by lia; rewrite E3; reflexivity) end;
       pose proof (quot_abs_le h1 h2 ltac:(assumption));
       (split; [exists (h1 ÷ h2); split; [lia | reflexivity] | wl]).
  all: rewrite ?(to_signed_mod' v1) by lia.
  all: rewrite ?(quot_pos_div l1 h2), ?(quot_pos_div h1 h2), ?(quot_neg_div l1 h2), ?(quot_neg_div h1 h2) in * by lia.
  all: pose proof (Z.quot_le_mono l1 v1 h2 ltac:(lia) ltac:(lia));
       pose proof (Z.quot_le_mono v1 h1 h2 ltac:(lia) ltac:(lia));
       pose proof (quot_abs_le l1 h2 ltac:(lia)); pose proof (quot_abs_le h1 h2 ltac:(lia)).
  all: lazymatch goal with
       | |- False /\ True => exfalso; lia
       | _ => split; [exists (v1 ÷ h2); split; [lia | reflexivity] | wl]
       end.
Qed.
