From Coq Require Import ZArith Bool List String Lia.
From Verif Require Import Base.Word256 Base.PyInt Base.WordLemmas C14.RangeBase C14.GenRange C14.RangeSound C14.RangeLemmas2.
Import ListNotations.
Open Scope Z_scope.
Ltac Zify.zify_post_hook ::= Z.to_euclidean_division_equations.

Theorem eval_sdiv_sound : sound2 eval_sdiv w_sdiv.
Proof.
  intros A B a b WA WB MA MB; unfold eval_sdiv; go2 A B; unfold w_sdiv, of_signed; fixreps.
  (* normalise the guard  b =? 0  and abstract the signed divisor / constant dividend *)
  all: pose proof (to_signed_eq0 h2) as Z0; pose proof (to_signed_range h2) as RD.
  all: try (pose proof (to_signed_range h1) as RS).
  all: set (d := to_signed (h2 mod W)) in *.
  1-2: assert (E9: h2 mod W =? 0 = true) by (apply Z.eqb_eq; tauto); rewrite E9; sw 0.
  all: try (assert (E9: h2 mod W =? 0 = false) by (apply Z.eqb_neq; tauto); rewrite E9; clear E9 Z0).
  1: rewrite H, H0; split; [exists (- HALF); split; [lia | vm_compute; reflexivity] | wl].
  1-4: set (s := to_signed (h1 mod W)) in *;
       match goal with |- context [?c * (Z.abs ?x / Z.abs ?y)] =>
         replace (c * (Z.abs x / Z.abs y)) with (x ÷ y)
           by (rewrite <- (sdiv_const_eq x y) by lia; rewrite E3; reflexivity) end;
       pose proof (quot_abs_le s d ltac:(assumption));
       (split; [exists (s ÷ d); split; [lia | reflexivity] | wl]).
  all: rewrite ?(to_signed_mod' v1) by lia.
  all: rewrite ?(quot_pos_div l1 d), ?(quot_pos_div h1 d), ?(quot_neg_div l1 d), ?(quot_neg_div h1 d) in * by lia.
  all: pose proof (Z.quot_le_mono l1 v1 d ltac:(lia) ltac:(lia));
       pose proof (Z.quot_le_mono v1 h1 d ltac:(lia) ltac:(lia));
       pose proof (quot_abs_le l1 d ltac:(lia)); pose proof (quot_abs_le h1 d ltac:(lia)).
  all: lazymatch goal with
       | |- False /\ True => exfalso; lia
       | _ => split; [exists (v1 ÷ d); split; [lia | reflexivity] | wl]
       end.
Qed.
