(* Soundness of the instruction selection table ISel.isel against the reference semantics Venom.v. *)
From Coq Require Import ZArith Bool List String Ascii Lia.
From Verif Require Import Base.Word256 C14.ISel.
From Verif Require C14.Venom C14.VenomNames.
Import ListNotations.
Open Scope string_scope.
Open Scope Z_scope.

Set Default Timeout 300.
Definition word (x : Z) : Prop := 0 <= x < W.

Lemma words_no_poison a : Forall word a -> V.has_poison a = false.
Proof.
  induction 1 as [|x t Hx _ IH]; [reflexivity|]. cbn [V.has_poison existsb]. fold (V.has_poison t). rewrite IH.
  destruct Hx as [H0 _]. apply Z.ltb_ge in H0. rewrite H0. reflexivity.
Qed.

Lemma Ok_inj {A} (x y : A) : V.Ok x = V.Ok y -> x = y.
Proof. intros H. injection H as H. exact H. Qed.

Ltac brk H :=
  repeat (lazymatch type of H with
          | context [match ?x with _ => _ end] =>
              first [ is_var x; destruct x | let E := fresh "E" in destruct x eqn:E ]
          end; try discriminate H).

(* the Venom opcodes whose code is a straight-line snippet that consumes the operands and pushes the results *)
Definition covered (o : V.opc) : bool :=
  match o with
  | V.O_dalloca | V.O_getfmp | V.O_setfmp | V.O_iload | V.O_istore | V.O_log | V.O_nop | V.O_env _
  | V.O_call | V.O_staticcall | V.O_delegatecall | V.O_create | V.O_create2 | V.O_balance | V.O_selfbalance
  | V.O_extcodesize | V.O_extcodehash | V.O_extcodecopy
  | V.O_phi | V.O_jmp | V.O_jnz | V.O_djmp | V.O_assert | V.O_assert_unreachable | V.O_return | V.O_revert | V.O_stop
  | V.O_invalid | V.O_unknown _ => false
  | _ => true
  end.

Section Sound.
Variables (E : V.env) (X : V.oracle) (ow cw : string -> Z -> Z).
Definition run (code : list aitem) (stk : list sval) (st : V.store) : eres := erun E X ow cw 16 code stk st.
Definition words_on (a : list Z) (rest : list sval) : list sval := (map SW a ++ rest)%list.

Theorem isel_simple_sound : forall o, covered o = true ->
  forall args outs s s' rest, Forall word args ->
  V.eff_sem E X o args s = V.Ok (outs, s') ->
  exists code, isel (VenomNames.opc_name o) [] [] = Some code /\
               run code (words_on args rest) s = ENext (words_on (rev outs) rest) s'.
Proof.
  intros o C args outs s s' rest Hw H. pose proof (words_no_poison args Hw) as NP.
  unfold V.eff_sem in H.
  destruct o; try discriminate C; cbv beta iota in H.
  all: try (cbn [V.arith V.arith0] in H).
  all: rewrite ?NP in H.
  all: destruct args as [|a0 [|a1 [|a2 [|a3 [|a4 [|a5 [|a6 [|a7 t]]]]]]]]; cbv beta iota in H; try discriminate H.
  all: brk H; apply Ok_inj in H; apply pair_equal_spec in H as [<- <-].
  all: repeat match goal with E0 : ?t = _ |- context [?t] => rewrite E0 end.
  all: try (eexists; split; [reflexivity | reflexivity]).
  (* sha3: the digest is looked up in the table of the run *)
  eexists; split; [reflexivity|]. cbv - [V.hash_lookup V.mread Z.to_nat V.e_hash V.s_mem]. rewrite E2. reflexivity.
Qed.

(* environment words (caller, callvalue, address, origin, timestamp, number, chainid) *)
Theorem isel_env_sound : forall k, (k < 7)%nat ->
  forall outs s s' rest, V.eff_sem E X (V.O_env k) [] s = V.Ok (outs, s') ->
  exists code, isel (VenomNames.opc_name (V.O_env k)) [] [] = Some code /\
               run code rest s = ENext (words_on (rev outs) rest) s'.
Proof.
  intros k Hk outs s s' rest H. unfold V.eff_sem in H. cbv beta iota in H.
  destruct (nth_error (V.e_words E) k) as [v|] eqn:En; [|discriminate].
  apply Ok_inj in H. apply pair_equal_spec in H as [<- <-].
  do 7 (destruct k as [|k]; [eexists; split; [reflexivity|]; cbv - [nth_error V.e_words]; rewrite En; reflexivity|]).
  lia.
Qed.

(* external interactions go to the same oracle with the same arguments *)
Definition ext_arity (o : V.opc) : option nat :=
  match o with
  | V.O_call => Some 7%nat | V.O_staticcall | V.O_delegatecall => Some 6%nat | V.O_create => Some 3%nat | V.O_create2 => Some 4%nat
  | V.O_balance | V.O_extcodesize | V.O_extcodehash => Some 1%nat | V.O_selfbalance => Some 0%nat | V.O_extcodecopy => Some 4%nat
  | _ => None
  end.
Theorem isel_ext_sound : forall o n, ext_arity o = Some n ->
  forall args outs s s' rest, List.length args = n -> V.eff_sem E X o args s = V.Ok (outs, s') ->
  exists code, isel (VenomNames.opc_name o) [] [] = Some code /\
               run code (words_on args rest) s = ENext (words_on (rev outs) rest) s'.
Proof.
  intros o n A args outs s s' rest L H. unfold V.eff_sem in H.
  destruct o; try discriminate A; injection A as <-; cbv beta iota in H.
  all: destruct args as [|a0 [|a1 [|a2 [|a3 [|a4 [|a5 [|a6 [|a7 t]]]]]]]]; try discriminate L.
  all: match type of H with context [X ?o ?a ?s] => destruct (X o a s) as [[v st1]|] eqn:EX; [|discriminate H] end.
  all: apply Ok_inj in H; apply pair_equal_spec in H as [<- <-].
  all: eexists; split; [reflexivity|]; cbv; rewrite EX; reflexivity.
Qed.

(* log: the topic count is the last operand and selects LOGn *)
Theorem isel_log_sound : forall p n topics cnt outs s s' rest,
  (List.length topics <= 4)%nat -> cnt = Z.of_nat (List.length topics) ->
  V.eff_sem E X V.O_log (p :: n :: topics ++ [cnt])%list s = V.Ok (outs, s') ->
  exists code, isel "log" [cnt] [] = Some code /\
               run code (words_on (p :: n :: topics) rest) s = ENext (words_on (rev outs) rest) s'.
Proof.
  intros p n topics cnt outs s s' rest L -> H. unfold V.eff_sem in H. cbv beta iota in H.
  assert (SL : V.split_last (topics ++ [Z.of_nat (List.length topics)]) = (topics, Z.of_nat (List.length topics))).
  { unfold V.split_last. rewrite rev_app_distr. cbn [rev app]. rewrite rev_involutive. reflexivity. }
  rewrite SL in H. destruct (V.okaddr p n && (Z.of_nat (List.length topics) =? Z.of_nat (List.length topics))); [|discriminate].
  apply Ok_inj in H. apply pair_equal_spec in H as [<- <-].
  destruct topics as [|t0 [|t1 [|t2 [|t3 [|t4 tt]]]]]; try (cbn in L; lia);
    (eexists; split; [reflexivity | reflexivity]).
Qed.

(* immutables live at memory address 0 while the constructor runs (e_immbase = 0) *)
Theorem isel_iload_sound : V.e_immbase E = 0 -> forall p outs s s' rest,
  V.eff_sem E X V.O_iload [p] s = V.Ok (outs, s') ->
  exists code, isel "iload" [] [] = Some code /\ run code (words_on [p] rest) s = ENext (words_on (rev outs) rest) s'.
Proof.
  intros I0 p outs s s' rest H. unfold V.eff_sem in H. cbv beta iota zeta in H. rewrite I0 in H. cbn [Z.add] in H.
  destruct (V.okaddr p 32); [|discriminate]. apply Ok_inj in H. apply pair_equal_spec in H as [<- <-].
  eexists; split; reflexivity.
Qed.

(* istore: the generator expects the VALUE on top and the offset below it (IRInstruction.operands = [offset, val]),
   swaps, and stores.  In the argument order of Venom.v's eff_sem (offset first) this is the stack  v :: p :: rest. *)
Theorem isel_istore_sound : V.e_immbase E = 0 -> forall p v outs s s' rest,
  V.eff_sem E X V.O_istore [p; v] s = V.Ok (outs, s') ->
  exists code, isel "istore" [] [] = Some code /\ run code (words_on [v; p] rest) s = ENext (words_on (rev outs) rest) s'.
Proof.
  intros I0 p v outs s s' rest H. unfold V.eff_sem in H. cbv beta iota zeta in H. rewrite I0 in H. cbn [Z.add] in H.
  destruct (V.okaddr p 32); [|discriminate]. apply Ok_inj in H. apply pair_equal_spec in H as [<- <-].
  eexists; split; reflexivity.
Qed.

(* ------------------------------------------------------------------ control *)
Lemma erun_jumpi n t l c r st : erun E X ow cw (S n) (AOp "JUMPI" :: t) (SL l :: SW c :: r) st =
  if c =? 0 then erun E X ow cw n t r st
  else match after_label l t with Some t' => erun E X ow cw n t' r st | None => EJump l r st end.
Proof. reflexivity. Qed.
Lemma erun_jump n t l r st : erun E X ow cw (S n) (AOp "JUMP" :: t) (SL l :: r) st =
  match after_label l t with Some t' => erun E X ow cw n t' r st | None => EJump l r st end.
Proof. reflexivity. Qed.
Lemma erun_pushlabel n t l stk st : erun E X ow cw (S n) (APushLabel l :: t) stk st = erun E X ow cw n t (SL l :: stk) st.
Proof. reflexivity. Qed.
Lemma erun_invalid n t stk st : erun E X ow cw (S n) (AOp "INVALID" :: t) stk st = EHalt V.HInvalid st.
Proof. reflexivity. Qed.
Lemma erun_nil n stk st : erun E X ow cw (S n) [] stk st = ENext stk st.
Proof. reflexivity. Qed.

Variable ln : positive -> string.   (* names of the Venom labels in the assembly *)

Lemma mread_0 m p : V.mread m p 0 = [].
Proof. reflexivity. Qed.

(* the shared revert block: REVERT(0, 0) *)
Theorem revert_postamble_sound : forall stk s, run revert_postamble stk s = EHalt (V.HRevert []) s.
Proof. intros. reflexivity. Qed.

(* assert: continues iff the operand is non-zero, otherwise jumps to the revert block *)
Theorem isel_assert_sound : forall i vs st a c rest, V.i_op i = V.O_assert -> V.i_args i = [a] ->
  V.eval_op vs a = Some c -> word c ->
  exists code, isel "assert" [] [] = Some code /\
  match V.exec_inst E X i vs st with
  | V.SNext vs' st' => c <> 0 /\ vs' = vs /\ run code (SW c :: rest) st = ENext rest st'
  | V.SHalt h st' => c = 0 /\ run code (SW c :: rest) st = EJump "revert" rest st' /\ run revert_postamble rest st' = EHalt h st'
  | V.SJump _ _ _ => False
  end.
Proof.
  intros i vs st a c rest Ho Ha Ev [C0 _]. eexists; split; [reflexivity|].
  unfold V.exec_inst. rewrite Ho, Ha, Ev. assert (c <? 0 = false) as -> by (apply Z.ltb_ge; exact C0).
  assert (RC : run [AOp "ISZERO"; APushLabel "revert"; AOp "JUMPI"] (SW c :: rest) st =
               if w_iszero c =? 0 then ENext rest st else EJump "revert" rest st) by reflexivity.
  rewrite RC. unfold w_iszero, b2z. destruct (c =? 0) eqn:Z0.
  - apply Z.eqb_eq in Z0. subst c. split; [reflexivity|]. split; reflexivity.
  - apply Z.eqb_neq in Z0. split; [exact Z0|]. split; reflexivity.
Qed.

(* assert_unreachable: INVALID iff the operand is zero *)
Theorem isel_assert_unreachable_sound : forall i vs st a c rest e, V.i_op i = V.O_assert_unreachable -> V.i_args i = [a] ->
  V.eval_op vs a = Some c -> word c ->
  exists code, isel "assert_unreachable" [] [e] = Some code /\
  match V.exec_inst E X i vs st with
  | V.SNext vs' st' => c <> 0 /\ vs' = vs /\ run code (SW c :: rest) st = ENext rest st'
  | V.SHalt h st' => c = 0 /\ run code (SW c :: rest) st = EHalt h st'
  | V.SJump _ _ _ => False
  end.
Proof.
  intros i vs st a c rest e Ho Ha Ev [C0 _]. eexists; split; [reflexivity|].
  unfold V.exec_inst. rewrite Ho, Ha, Ev. assert (c <? 0 = false) as -> by (apply Z.ltb_ge; exact C0).
  assert (RC : run [APushLabel e; AOp "JUMPI"; AOp "INVALID"; ALabel e] (SW c :: rest) st =
               if c =? 0 then EHalt V.HInvalid st else ENext rest st).
  { unfold run. rewrite erun_pushlabel, erun_jumpi. cbn [after_label]. rewrite String.eqb_refl, erun_invalid, erun_nil.
    reflexivity. }
  rewrite RC. destruct (c =? 0) eqn:Z0.
  - apply Z.eqb_eq in Z0. subst c. split; reflexivity.
  - apply Z.eqb_neq in Z0. split; [exact Z0|]. split; reflexivity.
Qed.

(* jnz: the first label iff the condition is non-zero; jmp *)
Theorem isel_jnz_sound : forall i vs st a c t e rest, V.i_op i = V.O_jnz -> V.i_args i = [a; V.OLab t; V.OLab e] ->
  V.eval_op vs a = Some c -> word c ->
  exists code, isel "jnz" [] [ln t; ln e] = Some code /\
  match V.exec_inst E X i vs st with
  | V.SJump l vs' st' => vs' = vs /\ run code (SW c :: rest) st = EJump (ln l) rest st'
  | _ => False
  end.
Proof.
  intros i vs st a c t e rest Ho Ha Ev [C0 _]. eexists; split; [reflexivity|].
  unfold V.exec_inst. rewrite Ho, Ha, Ev. assert (c <? 0 = false) as -> by (apply Z.ltb_ge; exact C0).
  split; [reflexivity|]. destruct (c =? 0) eqn:Z0; [apply Z.eqb_eq in Z0; subst c; reflexivity|].
  assert (RC : forall x, (x =? 0) = false -> run [APushLabel (ln t); AOp "JUMPI"; APushLabel (ln e); AOp "JUMP"] (SW x :: rest) st =
               EJump (ln t) rest st).
  { intros x Hx. unfold run. rewrite erun_pushlabel, erun_jumpi, Hx. reflexivity. }
  apply RC. exact Z0.
Qed.

Theorem isel_jmp_sound : forall i vs st t rest, V.i_op i = V.O_jmp -> V.i_args i = [V.OLab t] ->
  exists code, isel "jmp" [] [ln t] = Some code /\
  match V.exec_inst E X i vs st with
  | V.SJump l vs' st' => vs' = vs /\ run code rest st = EJump (ln l) rest st'
  | _ => False
  end.
Proof.
  intros i vs st t rest Ho Ha. eexists; split; [reflexivity|]. unfold V.exec_inst. rewrite Ho, Ha. split; reflexivity.
Qed.

(* halting instructions *)
Theorem isel_halt_sound : forall i vs st p n rest o, (o = V.O_return \/ o = V.O_revert) -> V.i_op i = o ->
  V.eval_ops vs (V.i_args i) = Some [p; n] ->
  exists code, isel (VenomNames.opc_name o) [] [] = Some code /\
  match V.exec_inst E X i vs st with
  | V.SHalt (V.HStuck _) _ => True      (* Venom.v's address limit; the EVM has none *)
  | V.SHalt h st' => run code (SW p :: SW n :: rest) st = EHalt h st'
  | _ => False
  end.
Proof.
  intros i vs st p n rest o [-> | ->] Ho Ea; (eexists; split; [reflexivity|]);
    unfold V.exec_inst; rewrite Ho, Ea; unfold V.halt_data; destruct (V.okaddr p n); try exact I; reflexivity.
Qed.

Theorem isel_stop_invalid_sound : forall i vs st rest o, (o = V.O_stop \/ o = V.O_invalid) -> V.i_op i = o ->
  exists code, isel (VenomNames.opc_name o) [] [] = Some code /\
  match V.exec_inst E X i vs st with V.SHalt h st' => run code rest st = EHalt h st' | _ => False end.
Proof.
  intros i vs st rest o [-> | ->] Ho; (eexists; split; [reflexivity|]); unfold V.exec_inst; rewrite Ho; reflexivity.
Qed.
End Sound.
