(* Soundness of the value-range evaluators (translated: GenRange.v) against Word256:
   a word in the input ranges is mapped to a word in the output range. *)
From Coq Require Import ZArith Bool List String Lia.
From Verif Require Import Base.Word256 Base.PyInt Base.WordLemmas C14.RangeBase C14.GenRange.
Import ListNotations.
Open Scope Z_scope.

Lemma W_val : W = 115792089237316195423570985008687907853269984665640564039457584007913129639936.
Proof. reflexivity. Qed.
Lemma HALF_val : HALF = 57896044618658097711785492504343953926634992332820282019728792003956564819968.
Proof. reflexivity. Qed.
Lemma smin_val : c_SIGNED_MIN = - HALF. Proof. reflexivity. Qed.
Lemma smax_val : c_SIGNED_MAX = HALF - 1. Proof. reflexivity. Qed.
Lemma umax_val : c_UNSIGNED_MAX = W - 1. Proof. reflexivity. Qed.
Lemma SMIN_val : SIGNED_MIN = - HALF. Proof. reflexivity. Qed.
Lemma UMAX_val : UNSIGNED_MAX = W - 1. Proof. reflexivity. Qed.
Lemma lim_val : c_RANGE_WIDTH_LIMIT = 2 ^ 128. Proof. reflexivity. Qed.
Lemma W_HALF : W = 2 * HALF. Proof. reflexivity. Qed.

(* w is a word denoted by range r: some representative in [lo, hi] is congruent to it *)
Definition mem (w : Z) (r : vrange) : Prop :=
  match r with
  | TOP => True
  | BOT => False
  | IV lo hi => exists v, lo <= v <= hi /\ v mod W = w
  end.
(* well-formed: bounds inside [MIN_INT256, MAX_UINT256], lo <= hi *)
Definition wf (r : vrange) : Prop :=
  match r with
  | IV lo hi => - HALF <= lo /\ lo <= hi /\ hi <= W - 1
  | _ => True
  end.

Definition sound2 (f : vrange -> vrange -> res vrange) (w : Z -> Z -> Z) : Prop :=
  forall A B a b, wf A -> wf B -> mem a A -> mem b B ->
    match f A B with Ok R => mem (w a b) R /\ wf R | Err _ => False end.
Definition sound1 (f : vrange -> res vrange) (w : Z -> Z) : Prop :=
  forall A a, wf A -> mem a A ->
    match f A with Ok R => mem (w a) R /\ wf R | Err _ => False end.

Lemma bind_assoc {A B C} (m : res A) (f : A -> res B) (g : B -> res C) :
  bind (bind m f) g = bind m (fun x => bind (f x) g).
Proof. destruct m; reflexivity. Qed.

Lemma wrap256_unsigned x : wrap256 x false = Ok (x mod W).
Proof. reflexivity. Qed.

Lemma wrap256_signed x : wrap256 x true = Ok (to_signed (x mod W)).
Proof.
  unfold wrap256. change (py_pow 2 256) with (@Ok Z W). cbn [bind].
  unfold py_mod. change (W =? 0) with false. cbv iota. cbn [bind].
  pose proof (Z.mod_pos_bound x W ltac:(reflexivity)) as B.
  unfold unsigned_to_signed, int_bounds.
  change (py_pow 2 256) with (@Ok Z W). change (py_pow 2 (256 - 1)) with (@Ok Z HALF). cbn [bind].
  assert ((0 <=? x mod W) && (x mod W <=? W - 1) = true) as ->.
  { apply andb_true_intro; split; apply Z.leb_le; lia. }
  cbn [bind]. unfold to_signed.
  destruct (x mod W >? HALF - 1) eqn:E; rewrite Z.gtb_ltb in E;
    [apply Z.ltb_lt in E | apply Z.ltb_ge in E].
  - assert (x mod W <? HALF = false) as -> by (apply Z.ltb_ge; lia). reflexivity.
  - assert (x mod W <? HALF = true) as -> by (apply Z.ltb_lt; lia). reflexivity.
Qed.

Ltac consts := rewrite ?smin_val, ?smax_val, ?umax_val, ?SMIN_val, ?UMAX_val, ?lim_val in *.
Ltac b2p :=
  repeat match goal with
  | H : (_ <? _) = true |- _ => apply Z.ltb_lt in H
  | H : (_ <? _) = false |- _ => apply Z.ltb_ge in H
  | H : (_ <=? _) = true |- _ => apply Z.leb_le in H
  | H : (_ <=? _) = false |- _ => apply Z.leb_gt in H
  | H : (_ >? _) = true |- _ => rewrite Z.gtb_ltb in H; apply Z.ltb_lt in H
  | H : (_ >? _) = false |- _ => rewrite Z.gtb_ltb in H; apply Z.ltb_ge in H
  | H : (_ >=? _) = true |- _ => rewrite Z.geb_leb in H; apply Z.leb_le in H
  | H : (_ >=? _) = false |- _ => rewrite Z.geb_leb in H; apply Z.leb_gt in H
  | H : (_ =? _) = true |- _ => apply Z.eqb_eq in H
  | H : (_ =? _) = false |- _ => apply Z.eqb_neq in H
  | H : (_ || _) = true |- _ => apply orb_true_iff in H; destruct H
  | H : (_ || _) = false |- _ => apply orb_false_iff in H; destruct H
  | H : (_ && _) = true |- _ => apply andb_true_iff in H; destruct H
  | H : (_ && _) = false |- _ => apply andb_false_iff in H; destruct H
  | H : negb _ = true |- _ => apply negb_true_iff in H
  | H : negb _ = false |- _ => apply negb_false_iff in H
  end.
Ltac wl := pose proof W_val; pose proof HALF_val; lia.

(* one step of head-first symbolic execution of a translated function body;
   the goal has the form  match X with Ok R => _ | Err _ => False end *)
Ltac head_step X :=
  lazymatch X with
  | bind (Ok _) _ => cbn [bind]
  | bind (Err _) _ => cbn [bind]
  | bind (if ?c then _ else _) _ => let E := fresh "E" in destruct c eqn:E
  | bind (bind _ _) _ => rewrite bind_assoc
  | bind (let '(_, _) := ?p in _) _ => destruct p
  | bind (py_floordiv _ _) _ => unfold py_floordiv at 1
  | bind (py_mod _ _) _ => unfold py_mod at 1
  | bind (py_lshift _ _) _ => unfold py_lshift at 1
  | bind (py_rshift _ _) _ => unfold py_rshift at 1
  | bind (py_pow _ _) _ => unfold py_pow at 1
  | bind (wrap256 _ false) _ => rewrite wrap256_unsigned
  | bind (wrap256 _ true) _ => rewrite wrap256_signed
  | bind (unopt (Some _)) _ => cbn [unopt bind]
  | bind (unopt None) _ => cbn [unopt bind]
  | bind (unopt ?o) _ => let E := fresh "E" in destruct o eqn:E
  | if ?c then _ else _ => let E := fresh "E" in destruct c eqn:E
  | let '(_, _) := ?p in _ => destruct p
  | let _ := _ in _ => cbv zeta
  end.
Ltac step :=
  lazymatch goal with
  | |- match ?X with Ok _ => _ | Err _ => False end => head_step X
  end.
Ltac split_const :=
  repeat match goal with
  | |- context [if ?a =? ?b then Some _ else None] => let E := fresh "EC" in destruct (a =? b) eqn:E
  end; cbn [is_none unopt bind negb andb orb] in *.
Ltac run := split_const; repeat (step; cbn [is_none negb andb orb]).

Ltac open_range :=
  cbn [vr_is_empty vr_is_constant vr_is_top vr_lo vr_hi vr_as_constant orb andb negb bind is_none unopt] in *.

Ltac post_if := repeat match goal with |- context [if ?c then _ else _] => let E := fresh "E" in destruct c eqn:E end.
Ltac exec := run; cbv beta iota; try contradiction; unfold vr_iv, vr_constant, vr_bool, vr_bytes1; post_if; b2p;
  cbn [mem wf]; try exact (conj I I); try (exfalso; wl).
Ltac getreps :=
  repeat match goal with
  | H : exists v, _ <= v <= _ /\ v mod W = _ |- _ =>
      let v := fresh "v" in let Hr := fresh "Hr" in let Hm := fresh "Hm" in destruct H as [v [Hr Hm]]
  end.
Ltac Zify.zify_post_hook ::= Z.to_euclidean_division_equations.
(* linear arithmetic with mod W / div by numerals: make W a numeral first *)
Ltac mlia := rewrite ?W_val, ?HALF_val in *; lia.
Ltac sw x := split; [exists x; split; mlia | mlia].

Theorem eval_add_sound : sound2 eval_add w_add.
Proof.
  intros A B a b WA WB MA MB. unfold eval_add.
  destruct A as [| |l1 h1], B as [| |l2 h2]; cbn [mem wf] in *; try contradiction;
    open_range; rewrite ?wrap256_unsigned; consts.
  all: exec. all: getreps; subst a b; unfold w_add.
  all: lazymatch goal with
       | |- (exists v, _ mod W <= v <= _ /\ _) /\ _ => sw ((v1 + v0) mod W)
       | _ => sw (v1 + v0)
       end.
Qed.

Ltac start2 f :=
  intros A B a b WA WB MA MB; unfold f;
  destruct A as [| |l1 h1], B as [| |l2 h2]; cbn [mem wf] in *; try contradiction;
  open_range; rewrite ?wrap256_unsigned; consts; exec; getreps; subst.

Theorem eval_sub_sound : sound2 eval_sub w_sub.
Proof.
  start2 eval_sub; unfold w_sub.
  all: lazymatch goal with
       | |- (exists v, _ mod W <= v <= _ /\ _) /\ _ => sw ((v1 - v0) mod W)
       | _ => sw (v1 - v0)
       end.
Qed.

Theorem eval_mul_sound : sound2 eval_mul w_mul.
Proof.
  start2 eval_mul; unfold w_mul.
  all: try (exfalso; nia).
  all: try (assert (v0 = 0) by lia; subst v0; rewrite Z.mod_0_l by wl; rewrite ?Z.mul_0_r;
            split; [exists 0; split; [lia | reflexivity] | wl]).
  all: try (assert (v1 = 0) by lia; subst v1; rewrite Z.mod_0_l by wl; rewrite ?Z.mul_0_l;
            split; [exists 0; split; [lia | reflexivity] | wl]).
  all: rewrite <- Z.mul_mod by wl.
  all: try (assert (v1 = h1) by lia; assert (v0 = h2) by lia; subst v1 v0).
  all: first
    [ split; [exists ((h1 * h2) mod W); split; [lia | apply Z.mod_mod; wl] | pose proof (Z.mod_pos_bound (h1 * h2) W); wl]
    | split; [exists (h1 * h2); split; [lia | reflexivity] | wl]
    | split; [exists (v1 * v0); split; [nia | reflexivity] | nia] ].
Qed.

Lemma to_signed_mod v : - HALF <= v < HALF -> to_signed (v mod W) = v.
Proof.
  intros H. unfold to_signed. destruct (v mod W <? HALF) eqn:E; b2p; mlia.
Qed.

Ltac go2 A B :=
  destruct A as [| |l1 h1], B as [| |l2 h2]; cbn [mem wf] in *; try contradiction;
  open_range; rewrite ?wrap256_unsigned; consts; exec; getreps; subst.
Ltac start1 f :=
  intros A a WA MA; unfold f;
  destruct A as [| |l1 h1]; cbn [mem wf] in *; try contradiction;
  open_range; rewrite ?wrap256_unsigned; consts; exec; getreps; subst.
Ltac fixreps :=
  repeat match goal with
  | H : ?x <= ?v <= ?x |- _ => is_var v; assert (v = x) by lia; subst v
  end.
Ltac wordwit := post_if; b2p;
  lazymatch goal with |- (exists v, _ <= v <= _ /\ v mod W = ?w) /\ _ => sw w end.
Ltac boolres := post_if; b2p;
  lazymatch goal with
  | |- (exists v, _ <= v <= _ /\ v mod W = 0) /\ _ => first [sw 0 | exfalso; mlia]
  | |- (exists v, _ <= v <= _ /\ v mod W = 1) /\ _ => first [sw 1 | exfalso; mlia]
  | _ => first [sw 0 | sw 1 | exfalso; mlia]
  end.
Ltac streq :=
  repeat match goal with
  | |- context [String.eqb ?a ?b] =>
      let r := eval vm_compute in (String.eqb a b) in change (String.eqb a b) with r
  end; cbn [orb andb negb].
