(* C14MM -- verified validator for MemMergePass (vyper/venom/passes/memmerging.py).  Definitions only.

   The pass works inside one basic block.  The exporter (tools/vlib/c14mm_part.py) turns the block before and after the
   pass into a "memory program": the instructions that touch memory, with their addresses RESOLVED to (region, offset)
   (region 0 = literal addresses, region n = the n-th alloca: the abstract memory model in which distinct allocas are
   disjoint), the remaining value-producing instructions as opaque `MPure`, and every other instruction with a memory
   effect (or with an address that cannot be resolved) as `MBarrier`.

   Concrete semantics: byte-addressed memory `region -> offset -> byte`; a valuation `cv` of the SSA variables is
   CONSISTENT with a run when every load equation holds (`csat`): byte i of the loaded variable = the byte read.
   `mstore`/`mcopy`/`calldatacopy`/`dloadbytes` update memory (mcopy with memmove semantics); a barrier observes the whole
   memory and its operands, then memory becomes an arbitrary new one (`mems (k+1)`).

   Symbolic execution: memory is the list of writes (newest first); `lookup` gives the PROVENANCE of a byte (initial
   memory of the current epoch, calldata, data section, constant, byte of an unresolved variable), following mcopy sources
   into the older writes.  `mm_check B A`: the two programs have the same barriers with memories of equal provenance at
   every barrier and at the end (compared on every byte either side writes), the same opaque instructions, and every load
   present in both reads bytes of equal provenance. *)
From Coq Require Import ZArith NArith Bool List String Lia.
From Verif Require Import Base.Word256.
Import ListNotations.
Open Scope Z_scope.

Inductive arg := ALit (v : Z) | AVar (x : N) | ALab (l : N).
Inductive src := SMem (b : N) (o : Z) | SCd (o : Z) | SDt (o : Z) | SZero
  | SCdV (y : N) (o : Z) | SDtV (y : N) (o : Z).   (* calldata / data at the offset held by variable y, plus o *)

Inductive mi :=
| MLoad (x : N) (b : N) (o : Z)                    (* x = mload (b, o) *)
| MLoadExt (x : N) (s : src)                       (* x = calldataload / dload *)
| MStoreV (b : N) (o : Z) (y : N)                  (* mstore (b, o), y *)
| MStoreL (b : N) (o : Z) (v : Z)                  (* mstore (b, o), literal *)
| MCopy (b : N) (o : Z) (s : src) (n : Z)          (* mcopy / calldatacopy / dloadbytes / zero fill of n bytes *)
| MPure (id : N) (args : list arg) (outs : list N) (* any instruction without memory effect *)
| MBarrier (id : N) (args : list arg).             (* any other instruction with a memory effect *)

Definition mem := N -> Z -> Z.

Definition byte_of (w i : Z) : Z := (w / 256 ^ (31 - i)) mod 256.
Definition inrange (a o n : Z) : bool := (o <=? a) && (a <? o + n).
Definition idx32 : list Z := [0;1;2;3;4;5;6;7;8;9;10;11;12;13;14;15;16;17;18;19;20;21;22;23;24;25;26;27;28;29;30;31].

(* ------------------------------------------------------------------ concrete semantics *)
Record ctx := mkCtx { cv : N -> Z; mems : nat -> mem; cdat : Z -> Z; ddat : Z -> Z; lblv : N -> Z;
                      fpure : N -> list Z -> list Z }.

Definition aval (G : ctx) (a : arg) : Z :=
  match a with ALit v => v mod W | AVar x => cv G x | ALab l => lblv G l end.

Definition srcbyte (G : ctx) (m : mem) (s : src) (j : Z) : Z :=
  match s with
  | SMem b o => m b (o + j) | SCd o => cdat G (o + j) | SDt o => ddat G (o + j) | SZero => 0
  | SCdV y o => cdat G (cv G y + o + j) | SDtV y o => ddat G (cv G y + o + j)
  end.

Definition cstate := (nat * mem)%type.

Definition wr_mem (m : mem) (b : N) (o n : Z) (f : Z -> Z) : mem :=
  fun b' a => if N.eqb b b' && inrange a o n then f (a - o) else m b' a.

Definition cnext (G : ctx) (st : cstate) (i : mi) : cstate :=
  let '(k, m) := st in
  match i with
  | MLoad _ _ _ | MLoadExt _ _ | MPure _ _ _ => st
  | MStoreV b o y => (k, wr_mem m b o 32 (byte_of (cv G y)))
  | MStoreL b o v => (k, wr_mem m b o 32 (byte_of (v mod W)))
  | MCopy b o s n => (k, wr_mem m b o n (srcbyte G m s))
  | MBarrier _ _ => (Datatypes.S k, mems G (Datatypes.S k))
  end.

(* the equations a consistent valuation satisfies *)
Definition ccons (G : ctx) (st : cstate) (i : mi) : Prop :=
  let '(k, m) := st in
  match i with
  | MLoad x b o => forall j, In j idx32 -> byte_of (cv G x) j = m b (o + j)
  | MLoadExt x s => forall j, In j idx32 -> byte_of (cv G x) j = srcbyte G m s j
  | MPure id args outs => map (cv G) outs = fpure G id (map (aval G) args)
  | _ => True
  end.

Definition obs := (N * list Z * mem)%type.
Definition cobs (G : ctx) (st : cstate) (i : mi) : list obs :=
  match i with MBarrier id args => [(id, map (aval G) args, snd st)] | _ => [] end.

Fixpoint csat (G : ctx) (st : cstate) (p : list mi) : Prop :=
  match p with [] => True | i :: t => ccons G st i /\ csat G (cnext G st i) t end.
Fixpoint cobss (G : ctx) (st : cstate) (p : list mi) : list obs :=
  match p with [] => [] | i :: t => cobs G st i ++ cobss G (cnext G st i) t end.
Fixpoint cfinal (G : ctx) (st : cstate) (p : list mi) : cstate :=
  match p with [] => st | i :: t => cfinal G (cnext G st i) t end.

Definition obs_eq (a b : obs) : Prop :=
  fst (fst a) = fst (fst b) /\ snd (fst a) = snd (fst b) /\ forall r x, snd a r x = snd b r x.

(* ------------------------------------------------------------------ symbolic execution *)
Inductive prov := PI (k : nat) (b : N) (o : Z) | PCd (o : Z) | PDt (o : Z) | PConst (v : Z) | PVar (x : N) (i : Z)
  | PCdV (y : N) (o : Z) | PDtV (y : N) (o : Z).
Inductive payload := PLCopy (s : src) | PLBytes (ps : list prov).
Definition wr := (N * Z * Z * payload)%type.

Fixpoint lookup (k : nat) (Wl : list wr) (b : N) (a : Z) : prov :=
  match Wl with
  | [] => PI k b a
  | (wb, wo, wn, pl) :: older =>
    if N.eqb wb b && inrange a wo wn then
      match pl with
      | PLCopy (SMem sb so) => lookup k older sb (so + (a - wo))
      | PLCopy (SCd so) => PCd (so + (a - wo))
      | PLCopy (SDt so) => PDt (so + (a - wo))
      | PLCopy SZero => PConst 0
      | PLCopy (SCdV y so) => PCdV y (so + (a - wo))
      | PLCopy (SDtV y so) => PDtV y (so + (a - wo))
      | PLBytes ps => nth (Z.to_nat (a - wo)) ps (PConst 0)
      end
    else lookup k older b a
  end.

Definition sprov (k : nat) (Wl : list wr) (s : src) (j : Z) : prov :=
  match s with
  | SMem b o => lookup k Wl b (o + j) | SCd o => PCd (o + j) | SDt o => PDt (o + j) | SZero => PConst 0
  | SCdV y o => PCdV y (o + j) | SDtV y o => PDtV y (o + j)
  end.

Fixpoint sfind (sv : list (N * list prov)) (x : N) : option (list prov) :=
  match sv with [] => None | (y, ps) :: t => if N.eqb x y then Some ps else sfind t x end.

Record sstate := mkS { s_k : nat; s_w : list wr; s_sv : list (N * list prov) }.

Definition srcvars (s : src) : list N := match s with SCdV y _ | SDtV y _ => [y] | _ => [] end.
Definition argvars (l : list arg) : list N := flat_map (fun a => match a with AVar x => [x] | _ => [] end) l.

Definition load_entry (s : sstate) (i : mi) : list (N * list prov) :=
  match i with
  | MLoad x b o => [(x, map (fun j => lookup (s_k s) (s_w s) b (o + j)) idx32)]
  | MLoadExt x sr => [(x, map (sprov (s_k s) (s_w s) sr) idx32)]
  | _ => []
  end.

Definition sstep (s : sstate) (i : mi) : sstate :=
  match i with
  | MLoad _ _ _ | MLoadExt _ _ => mkS (s_k s) (s_w s) (load_entry s i ++ s_sv s)
  | MStoreV b o y =>
    match sfind (s_sv s) y with
    | Some ps => mkS (s_k s) ((b, o, 32, PLBytes ps) :: s_w s) (s_sv s)
    | None => mkS (s_k s) ((b, o, 32, PLBytes (map (PVar y) idx32)) :: s_w s) (s_sv s)
    end
  | MStoreL b o v => mkS (s_k s) ((b, o, 32, PLBytes (map (fun j => PConst (byte_of (v mod W) j)) idx32)) :: s_w s) (s_sv s)
  | MCopy b o sr n => mkS (s_k s) ((b, o, n, PLCopy sr) :: s_w s) (s_sv s)
  | MPure _ _ _ => s
  | MBarrier _ _ => mkS (Datatypes.S (s_k s)) [] (s_sv s)
  end.

Definition barrec := (N * list arg * nat * list wr)%type.
Definition purerec := (N * list arg * list N)%type.

(* what a run records, in program order *)
Fixpoint sfinal (s : sstate) (p : list mi) : sstate :=
  match p with [] => s | i :: t => sfinal (sstep s i) t end.
Fixpoint sbars (s : sstate) (p : list mi) : list barrec :=
  match p with
  | [] => []
  | i :: t => (match i with MBarrier id args => [(id, args, s_k s, s_w s)] | _ => [] end) ++ sbars (sstep s i) t
  end.
Fixpoint spures (s : sstate) (p : list mi) : list purerec :=
  match p with
  | [] => []
  | i :: t => (match i with MPure id args outs => [(id, args, outs)] | _ => [] end) ++ spures (sstep s i) t
  end.
Fixpoint sents (s : sstate) (p : list mi) : list (N * list prov) :=
  match p with [] => [] | i :: t => load_entry s i ++ sents (sstep s i) t end.
(* variables whose VALUE is used without being resolved to loaded bytes (store payloads, operands, outputs of opaque
   instructions) *)
Fixpoint sunres (s : sstate) (p : list mi) : list N :=
  match p with
  | [] => []
  | i :: t => (match i with
               | MStoreV _ _ y => match sfind (s_sv s) y with Some _ => [] | None => [y] end
               | MLoadExt _ sr => srcvars sr
               | MCopy _ _ sr _ => srcvars sr
               | MPure _ args outs => argvars args ++ outs
               | MBarrier _ args => argvars args
               | _ => []
               end) ++ sunres (sstep s i) t
  end.

Definition s0 : sstate := mkS 0 [] [].

(* ------------------------------------------------------------------ the checker *)
Definition prov_eqb (p q : prov) : bool :=
  match p, q with
  | PI k b o, PI k' b' o' => Nat.eqb k k' && N.eqb b b' && Z.eqb o o'
  | PCd o, PCd o' => Z.eqb o o'
  | PDt o, PDt o' => Z.eqb o o'
  | PConst v, PConst v' => Z.eqb v v'
  | PVar x i, PVar x' i' => N.eqb x x' && Z.eqb i i'
  | PCdV x i, PCdV x' i' => N.eqb x x' && Z.eqb i i'
  | PDtV x i, PDtV x' i' => N.eqb x x' && Z.eqb i i'
  | _, _ => false
  end.

Fixpoint forall_range (o : Z) (n : nat) (p : Z -> bool) : bool :=
  match n with O => true | Datatypes.S n' => p o && forall_range (o + 1) n' p end.

(* the two write lists denote the same memory: compared on every byte one of them writes *)
Definition mem_eqb (k : nat) (Wb Wa : list wr) : bool :=
  forallb (fun w : wr => match w with (b, o, n, _) =>
             forall_range o (Z.to_nat n) (fun a => prov_eqb (lookup k Wb b a) (lookup k Wa b a)) end) (Wb ++ Wa).

Definition arg_eqb (a b : arg) : bool :=
  match a, b with
  | ALit x, ALit y => Z.eqb x y
  | AVar x, AVar y => N.eqb x y
  | ALab x, ALab y => N.eqb x y
  | _, _ => false
  end.
Fixpoint list_eqb {A} (e : A -> A -> bool) (l l' : list A) : bool :=
  match l, l' with [], [] => true | x :: t, y :: t' => e x y && list_eqb e t t' | _, _ => false end.

Definition bar_eqb (x y : barrec) : bool :=
  match x, y with
  | (id, args, k, Wb), (id', args', k', Wa) => N.eqb id id' && list_eqb arg_eqb args args' && Nat.eqb k k' && mem_eqb k Wb Wa
  end.
Definition pure_eqb (x y : purerec) : bool :=
  match x, y with (id, args, outs), (id', args', outs') => N.eqb id id' && list_eqb arg_eqb args args' && list_eqb N.eqb outs outs' end.

Definition memN (x : N) (l : list N) : bool := existsb (N.eqb x) l.
Definition keys (sv : list (N * list prov)) : list N := map fst sv.
Fixpoint nodupb (l : list N) : bool := match l with [] => true | x :: t => negb (memN x t) && nodupb t end.

(* variables loaded on exactly one side *)
Definition privs (eb ea : list (N * list prov)) : list N :=
  filter (fun x => negb (memN x (keys ea))) (keys eb) ++ filter (fun x => negb (memN x (keys eb))) (keys ea).

Definition mm_check (B A : list mi) : bool :=
  let eb := sents s0 B in
  let ea := sents s0 A in
  let fb := sfinal s0 B in
  let fa := sfinal s0 A in
  list_eqb bar_eqb (sbars s0 B) (sbars s0 A) &&
  Nat.eqb (s_k fb) (s_k fa) && mem_eqb (s_k fb) (s_w fb) (s_w fa) &&
  list_eqb pure_eqb (spures s0 B) (spures s0 A) &&
  nodupb (keys eb) && nodupb (keys ea) &&
  forallb (fun xp : N * list prov =>
             match sfind eb (fst xp) with Some ps => list_eqb prov_eqb ps (snd xp) | None => true end) ea &&
  forallb (fun y => negb (memN y (privs eb ea))) (sunres s0 B ++ sunres s0 A).

(* the load equations of the selected variables only (used for the variables loaded on one side only) *)
Fixpoint csat_sel (sel : N -> bool) (G : ctx) (st : cstate) (p : list mi) : Prop :=
  match p with
  | [] => True
  | i :: t => (match i with MLoad x _ _ | MLoadExt x _ => if sel x then ccons G st i else True | _ => True end)
              /\ csat_sel sel G (cnext G st i) t
  end.
