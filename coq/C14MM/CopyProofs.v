(* C14MM -- the interval kernel of MemMergePass: under exactly the conditions `_Copy.can_merge` / `_Copy.merge` check,
   the merged copy equals the two copies executed one after the other (in either order) on every memory; for mcopy
   (memory source) this needs, and is false without, the hazard condition the pass establishes separately
   (`_read_after_write_hazards` / `_write_after_read_hazards`). *)
From Coq Require Import ZArith Bool List Lia.
From Verif Require Import Base.PyInt C14MM.MemSym C14MM.GenCopy C14MM.CopyModel C14MM.MemSymProofs.
Open Scope Z_scope.

Lemma merged_spec s o M : merged s o = Ok M ->
  c_src s - c_src o = c_dst s - c_dst o /\ c_dst s <= c_dst o <= c_dst s + c_len s /\
  c_src M = c_src s /\ c_dst M = c_dst s /\ c_len M = Z.max (c_dst s + c_len s) (c_dst o + c_len o) - c_dst s.
Proof.
  unfold merged, merge_len, can_merge.
  destruct (c_dst s <=? c_dst o) eqn:E1; [|discriminate]. apply Z.leb_le in E1.
  destruct (negb (c_src s - c_src o =? c_dst s - c_dst o)) eqn:E2; [discriminate|]. apply negb_false_iff, Z.eqb_eq in E2.
  destruct (c_dst o >? c_dst s + c_len s) eqn:E3; [discriminate|]. cbn [bind].
  rewrite Z.gtb_ltb in E3. apply Z.ltb_ge in E3.
  intros H. injection H as <-. cbn. repeat split; lia.
Qed.

Ltac ranges :=
  unfold apply_mem, apply_ext; cbn [c_src c_dst c_len];
  repeat match goal with
  | |- context [inrange ?a ?o ?n] => let E := fresh "R" in destruct (inrange a o n) eqn:E;
        [apply inrange_spec in E | apply not_true_iff_false in E; rewrite inrange_spec in E]
  end.

(* immutable source (calldatacopy / dloadbytes / zero fill): unconditional, both execution orders *)
Theorem copy_merge_ext_sound s o M f : merged s o = Ok M -> 0 <= c_len s -> 0 <= c_len o ->
  forall m a, apply_ext f o (apply_ext f s m) a = apply_ext f M m a /\ apply_ext f s (apply_ext f o m) a = apply_ext f M m a.
Proof.
  intros H Ls Lo m a. destruct (merged_spec s o M H) as [D [R [E1 [E2 E3]]]].
  unfold apply_ext. rewrite E1, E2, E3.
  split; ranges; try reflexivity; try (f_equal; lia); lia.
Qed.

(* memory source (mcopy), s executed first: the destination of s must not meet the source of o *)
Theorem copy_merge_mem_sound s o M : merged s o = Ok M -> 0 <= c_len s -> 0 <= c_len o ->
  disjoint_b (c_dst s) (c_len s) (c_src o) (c_len o) = true ->
  forall m a, apply_mem o (apply_mem s m) a = apply_mem M m a.
Proof.
  intros H Ls Lo Dj m a. destruct (merged_spec s o M H) as [D [R [E1 [E2 E3]]]].
  unfold disjoint_b in Dj. repeat rewrite orb_true_iff in Dj. repeat rewrite Z.leb_le in Dj.
  unfold apply_mem, apply_ext. rewrite E1, E2, E3.
  ranges; try reflexivity; try (f_equal; lia); lia.
Qed.

(* memory source, o executed first: the destination of o must not meet the source of s *)
Theorem copy_merge_mem_sound_rev s o M : merged s o = Ok M -> 0 <= c_len s -> 0 <= c_len o ->
  disjoint_b (c_dst o) (c_len o) (c_src s) (c_len s) = true ->
  forall m a, apply_mem s (apply_mem o m) a = apply_mem M m a.
Proof.
  intros H Ls Lo Dj m a. destruct (merged_spec s o M H) as [D [R [E1 [E2 E3]]]].
  unfold disjoint_b in Dj. repeat rewrite orb_true_iff in Dj. repeat rewrite Z.leb_le in Dj.
  unfold apply_mem, apply_ext. rewrite E1, E2, E3.
  ranges; try reflexivity; try (f_equal; lia); lia.
Qed.

(* without the hazard condition the merge is wrong: mcopy 32,0,32 ; mcopy 64,32,32 is not mcopy 32,0,64 *)
Theorem copy_merge_mem_needs_hazard_check :
  exists s o M m a, merged s o = Ok M /\ apply_mem o (apply_mem s m) a <> apply_mem M m a.
Proof.
  exists (mkC 0 32 32), (mkC 32 64 32), (mkC 0 32 64), (fun x => x), 64. split; [reflexivity|]. vm_compute. discriminate.
Qed.

(* the assertions of `merge` hold whenever the caller respects the order it establishes by bisect (dst of self <= dst
   of other) and `can_merge` answered yes *)
Theorem merge_total s o : can_merge_c s o = Ok true -> c_dst s <= c_dst o -> exists M, merged s o = Ok M.
Proof.
  unfold can_merge_c, merged, merge_len. intros C D. apply Z.leb_le in D. rewrite D, C. cbn [bind]. eexists. reflexivity.
Qed.
