(* C14MM -- what the lowering of `dload` / `dloadbytes` computes, on the byte-memory semantics of MemSym.v.
   `dload` and `dloadbytes` are pseudo-instructions: their meaning is "read the data section (the bytes behind `code_end`)
   at the given offset".  LowerDloadPass turns them into codecopy + mload through a fresh 32-byte allocation.  In memory
   programs `codecopy dst, code_end + p, n` is `MCopy dst (SDtV p 0) n` (the data section starts at `code_end`). *)
From Coq Require Import ZArith NArith Bool List String Lia.
From Verif Require Import Base.Word256 C14MM.MemSym C14MM.MemSymProofs.
Import ListNotations.
Open Scope Z_scope.

(* %x = dload p   vs   codecopy (r,0), code_end + p, 32 ; %x = mload (r,0)   with r a fresh region:
   the load equation of x is the same (byte j of x = data byte p + j), and every region other than r is untouched *)
Theorem lower_dload_sound G k m x p r :
  let lowered := [MCopy r 0 (SDtV p 0) 32; MLoad x r 0] in
  (csat G (k, m) lowered <-> csat G (k, m) [MLoadExt x (SDtV p 0)]) /\
  fst (cfinal G (k, m) lowered) = k /\
  forall r' a, r' <> r -> snd (cfinal G (k, m) lowered) r' a = m r' a.
Proof.
  cbn [csat cfinal cnext ccons fst snd srcbyte]. split; [|split; [reflexivity|]].
  - split.
    + intros [_ [H _]]. split; [|exact I]. intros j Hj. rewrite (H j Hj). unfold wr_mem.
      rewrite N.eqb_refl. cbn [andb].
      assert (R : inrange (0 + j) 0 32 = true).
      { apply inrange_spec. cbn in Hj. repeat (destruct Hj as [<-|Hj]; [lia|]). contradiction. }
      rewrite R. cbn [srcbyte]. f_equal. lia.
    + intros [H _]. split; [exact I|]. split; [|exact I]. intros j Hj. rewrite (H j Hj). unfold wr_mem.
      rewrite N.eqb_refl. cbn [andb].
      assert (R : inrange (0 + j) 0 32 = true).
      { apply inrange_spec. cbn in Hj. repeat (destruct Hj as [<-|Hj]; [lia|]). contradiction. }
      rewrite R. cbn [srcbyte]. f_equal. lia.
  - intros r' a Ne. unfold wr_mem. destruct (N.eqb r r') eqn:E; [apply N.eqb_eq in E; congruence | reflexivity].
Qed.

(* dloadbytes dst, p, n   vs   codecopy dst, code_end + p, n : the same memory update *)
Theorem lower_dloadbytes_sound G k m b o p n :
  cfinal G (k, m) [MCopy b o (SDtV p 0) n] = (k, wr_mem m b o n (fun j => ddat G (cv G p + 0 + j))).
Proof. reflexivity. Qed.
