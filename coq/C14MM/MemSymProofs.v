(* C14MM -- soundness of the MemMergePass validator `mm_check` (MemSym.v). *)
From Coq Require Import ZArith NArith Bool List String Lia.
From Verif Require Import Base.Word256 C14MM.MemSym.
Import ListNotations.
Open Scope Z_scope.

(* ------------------------------------------------------------------ small facts *)
Lemma nth_idx32_map {A} (f : Z -> A) d j : In j idx32 -> nth (Z.to_nat j) (map f idx32) d = f j.
Proof. intros H. cbn in H. repeat (destruct H as [<-|H]; [reflexivity|]). contradiction. Qed.

Lemma in_idx32 j : 0 <= j < 32 -> In j idx32.
Proof.
  intros H. replace j with (Z.of_nat (Z.to_nat j)) by lia.
  assert (L : (Z.to_nat j < 32)%nat) by lia. remember (Z.to_nat j) as n eqn:E. clear E H.
  do 32 (destruct n as [|n]; [cbn; repeat (first [left; reflexivity | right])|]). lia.
Qed.

Lemma inrange_spec a o n : inrange a o n = true <-> o <= a < o + n.
Proof. unfold inrange. rewrite andb_true_iff, Z.leb_le, Z.ltb_lt. tauto. Qed.

Lemma list_eqb_Forall2 {A} (e : A -> A -> bool) : forall l l', list_eqb e l l' = true -> Forall2 (fun x y => e x y = true) l l'.
Proof.
  induction l as [|x t IH]; intros [|y t'] H; cbn in H; try discriminate; [constructor|].
  apply andb_prop in H as [H1 H2]. constructor; [exact H1 | apply IH; exact H2].
Qed.

Lemma list_eqb_eq {A} (e : A -> A -> bool) : (forall x y, e x y = true -> x = y) ->
  forall l l', list_eqb e l l' = true -> l = l'.
Proof.
  intros He. induction l as [|x t IH]; intros [|y t'] H; cbn in H; try discriminate; [reflexivity|].
  apply andb_prop in H as [H1 H2]. rewrite (He _ _ H1), (IH _ H2). reflexivity.
Qed.

Lemma prov_eqb_eq p q : prov_eqb p q = true -> p = q.
Proof.
  destruct p, q; cbn; try discriminate; intros H;
    repeat match goal with H : _ && _ = true |- _ => apply andb_prop in H as [? ?] end;
    repeat match goal with
    | H : Nat.eqb _ _ = true |- _ => apply Nat.eqb_eq in H
    | H : N.eqb _ _ = true |- _ => apply N.eqb_eq in H
    | H : Z.eqb _ _ = true |- _ => apply Z.eqb_eq in H
    end; subst; reflexivity.
Qed.

Lemma arg_eqb_eq a b : arg_eqb a b = true -> a = b.
Proof.
  destruct a, b; cbn; try discriminate; intros H;
    first [apply Z.eqb_eq in H | apply N.eqb_eq in H]; subst; reflexivity.
Qed.

Lemma memN_In x l : memN x l = true <-> In x l.
Proof.
  unfold memN. rewrite existsb_exists. split.
  - intros [y [I E]]. apply N.eqb_eq in E. subst. exact I.
  - intros I. exists x. split; [exact I | apply N.eqb_refl].
Qed.

Lemma sfind_In sv x ps : sfind sv x = Some ps -> In (x, ps) sv.
Proof.
  induction sv as [|[y q] t IH]; cbn; [discriminate|]. destruct (N.eqb x y) eqn:E.
  - apply N.eqb_eq in E. subst. intros H. injection H as <-. left. reflexivity.
  - intros H. right. apply IH. exact H.
Qed.

Lemma sfind_keys sv x : memN x (keys sv) = true -> exists ps, sfind sv x = Some ps.
Proof.
  induction sv as [|[y q] t IH]; cbn; [discriminate|]. destruct (N.eqb x y) eqn:E; [intros _; eexists; reflexivity|].
  cbn. intros H. apply IH. exact H.
Qed.

(* ------------------------------------------------------------------ interpretation of provenance *)
Definition pinterp (G : ctx) (p : prov) : Z :=
  match p with
  | PI k b o => mems G k b o
  | PCd o => cdat G o
  | PDt o => ddat G o
  | PConst v => v
  | PVar x i => byte_of (cv G x) i
  | PCdV y o => cdat G (cv G y + o)
  | PDtV y o => ddat G (cv G y + o)
  end.

Definition entry_sound (G : ctx) (e : N * list prov) : Prop :=
  forall j, In j idx32 -> byte_of (cv G (fst e)) j = pinterp G (nth (Z.to_nat j) (snd e) (PConst 0)).
Definition svs (G : ctx) (sv : list (N * list prov)) : Prop :=
  forall x ps, sfind sv x = Some ps -> entry_sound G (x, ps).
Definition msound (G : ctx) (k : nat) (m : mem) (Wl : list wr) : Prop :=
  forall r a, m r a = pinterp G (lookup k Wl r a).
Definition pure_ok (G : ctx) (r : purerec) : Prop :=
  match r with (id, args, outs) => map (cv G) outs = fpure G id (map (aval G) args) end.

Lemma sprov_sound G k m Wl s j : msound G k m Wl -> pinterp G (sprov k Wl s j) = srcbyte G m s j.
Proof.
  intros M. destruct s; cbn; try reflexivity; [symmetry; apply M | |]; f_equal; lia.
Qed.

Lemma svs_app G e sv : Forall (entry_sound G) e -> svs G sv -> svs G (e ++ sv).
Proof.
  intros Fe S. induction Fe as [|[y q] t Hy _ IH]; [exact S|].
  intros x ps. cbn. destruct (N.eqb x y) eqn:E.
  - apply N.eqb_eq in E. subst. intros H. injection H as <-. exact Hy.
  - apply IH.
Qed.

(* one instruction: the symbolic memory stays an exact description of the concrete one *)
Lemma step_msound G k m s i : s_k s = k -> msound G k m (s_w s) -> svs G (s_sv s) ->
  fst (cnext G (k, m) i) = s_k (sstep s i) /\
  msound G (fst (cnext G (k, m) i)) (snd (cnext G (k, m) i)) (s_w (sstep s i)).
Proof.
  intros K M S. destruct i as [x b o|x sr|b o y|b o v|b o sr n|id args outs|id args]; cbn [cnext sstep fst snd s_k s_w].
  - split; [symmetry; exact K | exact M].
  - split; [symmetry; exact K | exact M].
  - destruct (sfind (s_sv s) y) as [ps|] eqn:F; cbn [s_k s_w]; (split; [symmetry; exact K|]); intros r a; unfold wr_mem; cbn [lookup];
      destruct (N.eqb b r && inrange a o 32) eqn:C; try apply M.
    + apply andb_prop in C as [_ C]. apply inrange_spec in C.
      assert (R : 0 <= a - o < 32) by lia. exact (S y ps F (a - o) (in_idx32 (a - o) R)).
    + apply andb_prop in C as [_ C]. apply inrange_spec in C.
      rewrite (nth_idx32_map (PVar y)) by (apply in_idx32; lia). reflexivity.
  - split; [symmetry; exact K|]. intros r a. unfold wr_mem. cbn [lookup].
    destruct (N.eqb b r && inrange a o 32) eqn:C; [|apply M].
    apply andb_prop in C as [_ C]. apply inrange_spec in C.
    rewrite (nth_idx32_map (fun j => PConst (byte_of (v mod W) j))) by (apply in_idx32; lia). reflexivity.
  - split; [symmetry; exact K|]. intros r a. unfold wr_mem. cbn [lookup].
    destruct (N.eqb b r && inrange a o n) eqn:C; [|apply M].
    destruct sr; cbn [srcbyte pinterp]; try reflexivity; [apply M | |]; f_equal; lia.
  - split; [symmetry; exact K | exact M].
  - split; [rewrite K; reflexivity|]. intros r a. reflexivity.
Qed.

(* the load equations of an instruction hold iff the recorded entries are sound *)
Lemma load_cons G k m s i : s_k s = k -> msound G k m (s_w s) ->
  (match i with MLoad _ _ _ | MLoadExt _ _ => ccons G (k, m) i <-> Forall (entry_sound G) (load_entry s i) | _ => True end).
Proof.
  intros K M. destruct i as [x b o|x sr| | | | |]; try exact I; cbn [ccons load_entry]; rewrite K.
  - split.
    + intros H. constructor; [|constructor]. intros j Hj. cbn [fst snd].
      rewrite (nth_idx32_map (fun j => lookup k (s_w s) b (o + j))) by exact Hj. rewrite (H j Hj). apply M.
    + intros H. apply Forall_inv in H. rename H into He. intros j Hj. specialize (He j Hj). cbn [fst snd] in He.
      rewrite (nth_idx32_map (fun j => lookup k (s_w s) b (o + j))) in He by exact Hj. rewrite He. symmetry. apply M.
  - split.
    + intros H. constructor; [|constructor]. intros j Hj. cbn [fst snd].
      rewrite (nth_idx32_map (sprov k (s_w s) sr)) by exact Hj. rewrite (H j Hj). symmetry. apply sprov_sound. exact M.
    + intros H. apply Forall_inv in H. rename H into He. intros j Hj. specialize (He j Hj). cbn [fst snd] in He.
      rewrite (nth_idx32_map (sprov k (s_w s) sr)) in He by exact Hj. rewrite He. apply sprov_sound. exact M.
Qed.

Lemma sstep_sv s i : s_sv (sstep s i) = load_entry s i ++ s_sv s.
Proof. destruct i; cbn; try reflexivity. destruct (sfind (s_sv s) y); reflexivity. Qed.

Lemma load_entry_other s i : match i with MLoad _ _ _ | MLoadExt _ _ => True | _ => load_entry s i = [] end.
Proof. destruct i; try reflexivity; exact I. Qed.

(* ------------------------------------------------------------------ whole runs *)
Definition pure_entry (i : mi) : list purerec := match i with MPure id args outs => [(id, args, outs)] | _ => [] end.
Definition bar_entry (s : sstate) (i : mi) : list barrec :=
  match i with MBarrier id args => [(id, args, s_k s, s_w s)] | _ => [] end.

Lemma ccons_iff G k m s i : s_k s = k -> msound G k m (s_w s) ->
  (ccons G (k, m) i <-> Forall (entry_sound G) (load_entry s i) /\ Forall (pure_ok G) (pure_entry i)).
Proof.
  intros K M. pose proof (load_cons G k m s i K M) as L.
  destruct i as [x b o|x sr|b o y|b o v|b o sr n|id args outs|id args]; cbn [pure_entry].
  - rewrite L. split; [intros H; split; [exact H | constructor] | intros [H _]; exact H].
  - rewrite L. split; [intros H; split; [exact H | constructor] | intros [H _]; exact H].
  - cbn. split; [intros _; split; constructor | intros _; exact I].
  - cbn. split; [intros _; split; constructor | intros _; exact I].
  - cbn. split; [intros _; split; constructor | intros _; exact I].
  - cbn [ccons load_entry]. split.
    + intros H. split; [constructor | constructor; [exact H | constructor]].
    + intros [_ H]. apply Forall_inv in H. exact H.
  - cbn. split; [intros _; split; constructor | intros _; exact I].
Qed.

Lemma run_iff G p : forall k m s, s_k s = k -> msound G k m (s_w s) -> svs G (s_sv s) ->
  (csat G (k, m) p <-> Forall (entry_sound G) (sents s p) /\ Forall (pure_ok G) (spures s p)).
Proof.
  induction p as [|i t IH]; intros k m s K M S; cbn [csat sents spures].
  - split; [intros _; split; constructor | intros _; exact I].
  - change (match i with MPure id args outs => [(id, args, outs)] | _ => [] end) with (pure_entry i).
    rewrite !Forall_app. rewrite (ccons_iff G k m s i K M).
    destruct (step_msound G k m s i K M S) as [K' M'].
    destruct (cnext G (k, m) i) as [k' m'] eqn:E. cbn [fst snd] in K', M'.
    split.
    + intros [[HL HP] HC].
      assert (S' : svs G (s_sv (sstep s i))) by (rewrite sstep_sv; apply svs_app; assumption).
      apply (IH k' m' (sstep s i) (eq_sym K') M' S') in HC. tauto.
    + intros [[HL HT] [HP HQ]].
      assert (S' : svs G (s_sv (sstep s i))) by (rewrite sstep_sv; apply svs_app; assumption).
      split; [split; assumption|]. apply (IH k' m' (sstep s i) (eq_sym K') M' S'). split; assumption.
Qed.

Definition obs_match (G : ctx) (o : obs) (r : barrec) : Prop :=
  match o, r with (id, vals, mo), (id', args, k, Wl) => id = id' /\ vals = map (aval G) args /\ msound G k mo Wl end.

Lemma run_obs G p : forall k m s, s_k s = k -> msound G k m (s_w s) -> svs G (s_sv s) ->
  Forall (entry_sound G) (sents s p) ->
  Forall2 (obs_match G) (cobss G (k, m) p) (sbars s p) /\
  fst (cfinal G (k, m) p) = s_k (sfinal s p) /\
  msound G (fst (cfinal G (k, m) p)) (snd (cfinal G (k, m) p)) (s_w (sfinal s p)).
Proof.
  induction p as [|i t IH]; intros k m s K M S HE; cbn [cobss sbars cfinal sfinal sents] in *.
  - split; [constructor | split; [symmetry; exact K | exact M]].
  - apply Forall_app in HE as [HL HT].
    destruct (step_msound G k m s i K M S) as [K' M'].
    assert (S' : svs G (s_sv (sstep s i))) by (rewrite sstep_sv; apply svs_app; assumption).
    destruct (cnext G (k, m) i) as [k' m'] eqn:E. cbn [fst snd] in K', M'.
    destruct (IH k' m' (sstep s i) (eq_sym K') M' S' HT) as [F2 [FK FM]].
    split; [|split; assumption].
    apply Forall2_app; [|exact F2].
    destruct i; cbn [cobs]; try constructor; [|constructor].
    cbn [snd]. split; [reflexivity | split; [reflexivity | rewrite K; exact M]].
Qed.

(* ------------------------------------------------------------------ equality of symbolic memories *)
Definition covers (r : N) (a : Z) (w : wr) : bool := match w with (b, o, n, _) => N.eqb b r && inrange a o n end.

Lemma lookup_uncovered k Wl r a : existsb (covers r a) Wl = false -> lookup k Wl r a = PI k r a.
Proof.
  induction Wl as [|[[[wb wo] wn] pl] t IH]; cbn [existsb lookup covers]; [reflexivity|].
  intros H. apply orb_false_iff in H as [H1 H2]. rewrite H1. apply IH. exact H2.
Qed.

Lemma forall_range_true p : forall n o, forall_range o n p = true -> forall a, o <= a < o + Z.of_nat n -> p a = true.
Proof.
  induction n as [|n IH]; intros o H a Ha; [lia|]. cbn [forall_range] in H. apply andb_prop in H as [H1 H2].
  destruct (Z.eq_dec a o) as [->|Ne]; [exact H1|]. apply (IH (o + 1) H2). lia.
Qed.

Lemma mem_eqb_eq k Wb Wa : mem_eqb k Wb Wa = true -> forall r a, lookup k Wb r a = lookup k Wa r a.
Proof.
  intros H r a. unfold mem_eqb in H. rewrite forallb_forall in H.
  destruct (existsb (covers r a) (Wb ++ Wa)) eqn:C.
  - apply existsb_exists in C as [[[[b o] n] pl] [Iw Cw]]. cbn [covers] in Cw. apply andb_prop in Cw as [Cb Cr].
    apply N.eqb_eq in Cb. subst b. apply inrange_spec in Cr. specialize (H _ Iw). cbn in H.
    apply prov_eqb_eq. apply (forall_range_true _ _ _ H). rewrite Z2Nat.id by lia. exact Cr.
  - rewrite existsb_app in C. apply orb_false_iff in C as [C1 C2].
    rewrite (lookup_uncovered k Wb r a C1), (lookup_uncovered k Wa r a C2). reflexivity.
Qed.

(* ------------------------------------------------------------------ two contexts that agree on the unresolved variables *)
Section Cross.
  Variable Gb Ga : ctx.
  Hypothesis Hmems : forall k r a, mems Gb k r a = mems Ga k r a.
  Hypothesis Hcd : forall o, cdat Gb o = cdat Ga o.
  Hypothesis Hdt : forall o, ddat Gb o = ddat Ga o.
  Hypothesis Hlbl : forall l, lblv Gb l = lblv Ga l.
  Hypothesis Hpure : forall id l, fpure Gb id l = fpure Ga id l.

  Definition ag (x : N) : Prop := cv Gb x = cv Ga x.
  Definition pst (p : prov) : Prop := pinterp Gb p = pinterp Ga p.
  Definition wok (w : wr) : Prop :=
    match w with (_, _, _, PLBytes ps) => Forall pst ps | (_, _, _, PLCopy s) => Forall ag (srcvars s) end.
  Definition wst (Wl : list wr) : Prop := Forall wok Wl.
  Definition svst (sv : list (N * list prov)) : Prop := forall x ps, sfind sv x = Some ps -> Forall pst ps.

  Lemma Forall_nth_d {A} (P : A -> Prop) l d n : Forall P l -> P d -> P (nth n l d).
  Proof. intros F D. revert n. induction F; intros [|n]; cbn; auto. Qed.

  Lemma lookup_stable k Wl : wst Wl -> forall r a, pst (lookup k Wl r a).
  Proof.
    induction 1 as [|[[[wb wo] wn] pl] t Hw _ IH]; intros r a; cbn [lookup]; [apply Hmems|].
    destruct (N.eqb wb r && inrange a wo wn); [|apply IH].
    destruct pl as [s|ps]; cbn [wok] in Hw.
    - destruct s; cbn [srcvars] in Hw; try apply IH; unfold pst; cbn [pinterp]; try reflexivity;
        [apply Hcd | apply Hdt | |]; apply Forall_inv in Hw; unfold ag in Hw; rewrite Hw; [apply Hcd | apply Hdt].
    - apply Forall_nth_d; [exact Hw | reflexivity].
  Qed.

  Definition unres_entry (s : sstate) (i : mi) : list N :=
    match i with
    | MStoreV _ _ y => match sfind (s_sv s) y with Some _ => [] | None => [y] end
    | MLoadExt _ sr => srcvars sr
    | MCopy _ _ sr _ => srcvars sr
    | MPure _ args outs => argvars args ++ outs
    | MBarrier _ args => argvars args
    | _ => []
    end.

  Lemma sprov_stable k Wl sr j : wst Wl -> Forall ag (srcvars sr) -> pst (sprov k Wl sr j).
  Proof.
    intros Hw Hs. destruct sr; cbn [sprov srcvars] in *; try (apply lookup_stable; exact Hw); unfold pst; cbn [pinterp];
      try reflexivity; [apply Hcd | apply Hdt | |]; apply Forall_inv in Hs; unfold ag in Hs; rewrite Hs; [apply Hcd | apply Hdt].
  Qed.

  Lemma svst_cons x ps sv : Forall pst ps -> svst sv -> svst ((x, ps) :: sv).
  Proof.
    intros Hp Hs y q. cbn. destruct (N.eqb y x); [intros H; injection H as <-; exact Hp | apply Hs].
  Qed.

  Lemma step_stable s i : wst (s_w s) -> svst (s_sv s) -> Forall ag (unres_entry s i) ->
    wst (s_w (sstep s i)) /\ svst (s_sv (sstep s i)) /\ Forall (fun e => Forall pst (snd e)) (load_entry s i) /\
    Forall (fun r : barrec => wst (snd r)) (bar_entry s i).
  Proof.
    intros Hw Hs Hu. destruct i as [x b o|x sr|b o y|b o v|b o sr n|id args outs|id args];
      cbn [sstep load_entry bar_entry unres_entry s_w s_sv app] in *.
    - assert (E : Forall pst (map (fun j => lookup (s_k s) (s_w s) b (o + j)) idx32)).
      { apply Forall_forall. intros p Hp. apply in_map_iff in Hp as [j [<- _]]. apply lookup_stable. exact Hw. }
      split; [exact Hw | split; [apply svst_cons; assumption | split; [constructor; [exact E | constructor] | constructor]]].
    - assert (E : Forall pst (map (sprov (s_k s) (s_w s) sr) idx32)).
      { apply Forall_forall. intros p Hp. apply in_map_iff in Hp as [j [<- _]]. apply sprov_stable; assumption. }
      split; [exact Hw | split; [apply svst_cons; assumption | split; [constructor; [exact E | constructor] | constructor]]].
    - destruct (sfind (s_sv s) y) as [ps|] eqn:F; cbn [s_w s_sv].
      + split; [constructor; [exact (Hs y ps F) | exact Hw] | split; [exact Hs | split; constructor]].
      + split; [|split; [exact Hs | split; constructor]]. constructor; [|exact Hw]. cbn [wok].
        apply Forall_forall. intros p Hp. apply in_map_iff in Hp as [j [<- _]].
        apply Forall_inv in Hu. unfold pst, ag in *. cbn [pinterp]. rewrite Hu. reflexivity.
    - split; [|split; [exact Hs | split; constructor]]. constructor; [|exact Hw]. cbn [wok].
      apply Forall_forall. intros p Hp. apply in_map_iff in Hp as [j [<- _]]. reflexivity.
    - split; [constructor; [exact Hu | exact Hw] | split; [exact Hs | split; constructor]].
    - split; [exact Hw | split; [exact Hs | split; constructor]].
    - split; [constructor | split; [exact Hs | split; [constructor | constructor; [exact Hw | constructor]]]].
  Qed.

  Lemma run_stable p : forall s, wst (s_w s) -> svst (s_sv s) -> Forall ag (sunres s p) ->
    Forall (fun e => Forall pst (snd e)) (sents s p) /\ Forall (fun r : barrec => wst (snd r)) (sbars s p) /\
    wst (s_w (sfinal s p)).
  Proof.
    induction p as [|i t IH]; intros s Hw Hs Hu; cbn [sents sbars sfinal sunres] in *.
    - split; [constructor | split; [constructor | exact Hw]].
    - change (match i with
              | MStoreV _ _ y => match sfind (s_sv s) y with Some _ => [] | None => [y] end
              | MLoadExt _ sr => srcvars sr | MCopy _ _ sr _ => srcvars sr
              | MPure _ args outs => argvars args ++ outs | MBarrier _ args => argvars args | _ => [] end)
        with (unres_entry s i) in Hu.
      apply Forall_app in Hu as [Hu1 Hu2].
      destruct (step_stable s i Hw Hs Hu1) as [Hw' [Hs' [He Hb]]].
      destruct (IH (sstep s i) Hw' Hs' Hu2) as [A1 [A2 A3]].
      change (match i with MBarrier id args => [(id, args, s_k s, s_w s)] | _ => [] end) with (bar_entry s i).
      split; [apply Forall_app; split; assumption | split; [apply Forall_app; split; assumption | exact A3]].
  Qed.

  Lemma run_args p : forall s, Forall ag (sunres s p) ->
    Forall (fun r : purerec => Forall ag (argvars (snd (fst r)) ++ snd r)) (spures s p) /\
    Forall (fun r : barrec => Forall ag (argvars (snd (fst (fst r))))) (sbars s p).
  Proof.
    induction p as [|i t IH]; intros s Hu; cbn [spures sbars sunres] in *; [split; constructor|].
    apply Forall_app in Hu as [Hu1 Hu2]. destruct (IH (sstep s i) Hu2) as [A1 A2].
    split; apply Forall_app; split; try assumption; destruct i; try constructor; try constructor; exact Hu1.
  Qed.

  Lemma aval_agree args : Forall ag (argvars args) -> map (aval Gb) args = map (aval Ga) args.
  Proof.
    induction args as [|a t IH]; intros H; [reflexivity|]. cbn [map]. destruct a as [v|x|l]; cbn [argvars flat_map app] in H.
    - rewrite IH by exact H. reflexivity.
    - inversion H as [|? ? Hx Ht]; subst. rewrite IH by exact Ht. cbn [aval]. unfold ag in Hx. rewrite Hx. reflexivity.
    - rewrite IH by exact H. cbn [aval]. rewrite Hlbl. reflexivity.
  Qed.
End Cross.

(* ------------------------------------------------------------------ the theorem *)
Lemma pure_eqb_eq x y : pure_eqb x y = true -> x = y.
Proof.
  destruct x as [[id args] outs], y as [[id' args'] outs']. cbn. intros H.
  apply andb_prop in H as [H H3]. apply andb_prop in H as [H1 H2]. apply N.eqb_eq in H1.
  apply (list_eqb_eq arg_eqb arg_eqb_eq) in H2. apply (list_eqb_eq N.eqb (fun a b => proj1 (N.eqb_eq a b))) in H3.
  subst. reflexivity.
Qed.

Lemma privs_common eb ea x : In x (keys ea) -> memN x (privs eb ea) = false -> memN x (keys eb) = true.
Proof.
  intros I P. destruct (memN x (keys eb)) eqn:E; [reflexivity|]. exfalso.
  assert (J : In x (privs eb ea)).
  { unfold privs. apply in_or_app. right. apply filter_In. split; [exact I | rewrite E; reflexivity]. }
  apply memN_In in J. congruence.
Qed.

Lemma entries_sel G sel p : forall k m s, s_k s = k -> msound G k m (s_w s) -> svs G (s_sv s) ->
  (forall e, In e (sents s p) -> sel (fst e) = false -> entry_sound G e) ->
  csat_sel sel G (k, m) p -> Forall (entry_sound G) (sents s p).
Proof.
  induction p as [|i t IH]; intros k m s K M S HC HS; cbn [sents csat_sel] in *; [constructor|].
  destruct HS as [H1 H2].
  assert (HL : Forall (entry_sound G) (load_entry s i)).
  { pose proof (load_cons G k m s i K M) as L.
    destruct i as [x b o|x sr| | | | |]; try solve [constructor].
    - destruct (sel x) eqn:Sx; [apply L; exact H1|]. cbn [load_entry]. constructor; [|constructor].
      apply HC; [apply in_or_app; left; left; reflexivity | exact Sx].
    - destruct (sel x) eqn:Sx; [apply L; exact H1|]. cbn [load_entry]. constructor; [|constructor].
      apply HC; [apply in_or_app; left; left; reflexivity | exact Sx]. }
  apply Forall_app. split; [exact HL|].
  destruct (step_msound G k m s i K M S) as [K' M'].
  assert (S' : svs G (s_sv (sstep s i))) by (rewrite sstep_sv; apply svs_app; assumption).
  destruct (cnext G (k, m) i) as [k' m'] eqn:E. cbn [fst snd] in K', M'.
  apply (IH k' m' (sstep s i) (eq_sym K') M' S'); [|exact H2].
  intros e Ie. apply HC. apply in_or_app. right. exact Ie.
Qed.

Lemma s0_inv G : s_k s0 = 0%nat /\ msound G 0 (mems G 0) (s_w s0) /\ svs G (s_sv s0).
Proof. split; [reflexivity | split; [intros r a; reflexivity | intros x ps H; discriminate H]]. Qed.

Lemma obs_combine Gb Ga ob oa : forall rb ra,
  (forall l, lblv Gb l = lblv Ga l) ->
  Forall2 (obs_match Gb) ob rb -> Forall2 (obs_match Ga) oa ra -> Forall2 (fun x y => bar_eqb x y = true) rb ra ->
  Forall (fun r : barrec => forall q a, pst Gb Ga (lookup (snd (fst r)) (snd r) q a)) rb ->
  Forall (fun r : barrec => Forall (ag Gb Ga) (argvars (snd (fst (fst r))))) rb ->
  Forall2 obs_eq ob oa.
Proof.
  intros rb ra Hl F1. revert oa ra. induction F1 as [|o1 r1 tb trb H1 _ IH]; intros oa ra F2 F3 P1 P2.
  - inversion F3; subst. inversion F2; subst. constructor.
  - inversion F3 as [|? r2 ? tra E3 F3']; subst. inversion F2 as [|o2 ? ta ? H2 F2']; subst.
    inversion P1 as [|? ? Q1 P1']; subst. inversion P2 as [|? ? Q2 P2']; subst.
    constructor; [|apply (IH ta tra); assumption].
    destruct o1 as [[id1 v1] m1], r1 as [[[i1 a1] k1] W1], o2 as [[id2 v2] m2], r2 as [[[i2 a2] k2] W2].
    cbn [obs_match] in H1, H2. destruct H1 as [-> [-> M1]]. destruct H2 as [-> [-> M2]].
    cbn [bar_eqb] in E3. apply andb_prop in E3 as [E3 E4]. apply andb_prop in E3 as [E3 E5]. apply andb_prop in E3 as [E1 E2].
    apply N.eqb_eq in E1. apply (list_eqb_eq arg_eqb arg_eqb_eq) in E2. apply Nat.eqb_eq in E5. subst.
    cbn [fst snd] in Q1, Q2. unfold obs_eq. cbn [fst snd]. split; [reflexivity | split].
    + apply aval_agree; assumption.
    + intros q a. rewrite (M1 q a), (M2 q a). rewrite (Q1 q a). rewrite (mem_eqb_eq _ _ _ E4 q a). reflexivity.
Qed.

Lemma svst_nil Gb Ga : svst Gb Ga [].
Proof. intros x ps H. discriminate H. Qed.

Theorem mm_check_sound_main B A : mm_check B A = true ->
  forall Gb Ga,
  (forall k r a, mems Gb k r a = mems Ga k r a) -> (forall o, cdat Gb o = cdat Ga o) -> (forall o, ddat Gb o = ddat Ga o) ->
  (forall l, lblv Gb l = lblv Ga l) -> (forall id l, fpure Gb id l = fpure Ga id l) ->
  (forall x, memN x (privs (sents s0 B) (sents s0 A)) = false -> cv Gb x = cv Ga x) ->
  csat Gb (0%nat, mems Gb 0) B ->
  csat_sel (fun x => memN x (privs (sents s0 B) (sents s0 A))) Ga (0%nat, mems Ga 0) A ->
  csat Ga (0%nat, mems Ga 0) A /\
  Forall2 obs_eq (cobss Gb (0%nat, mems Gb 0) B) (cobss Ga (0%nat, mems Ga 0) A) /\
  fst (cfinal Gb (0%nat, mems Gb 0) B) = fst (cfinal Ga (0%nat, mems Ga 0) A) /\
  forall r a, snd (cfinal Gb (0%nat, mems Gb 0) B) r a = snd (cfinal Ga (0%nat, mems Ga 0) A) r a.
Proof.
  intros C Gb Ga Hm Hc Hd Hl Hp Hag SB SA. unfold mm_check in C.
  set (eb := sents s0 B) in *. set (ea := sents s0 A) in *.
  apply andb_prop in C as [C C8]. apply andb_prop in C as [C C7]. apply andb_prop in C as [C C6].
  apply andb_prop in C as [C C5]. apply andb_prop in C as [C C4]. apply andb_prop in C as [C C3].
  apply andb_prop in C as [C1 C2].
  destruct (s0_inv Gb) as [Kb [Mb Sb]]. destruct (s0_inv Ga) as [Ka [Ma Sa]].
  (* B's run *)
  destruct (proj1 (run_iff Gb B 0%nat (mems Gb 0) s0 Kb Mb Sb) SB) as [EB PB]. fold eb in EB.
  (* agreement on the unresolved variables *)
  assert (AG : Forall (ag Gb Ga) (sunres s0 B ++ sunres s0 A)).
  { apply Forall_forall. intros y Hy. rewrite forallb_forall in C8. specialize (C8 y Hy). apply negb_true_iff in C8.
    apply Hag. exact C8. }
  apply Forall_app in AG as [AGb AGa].
  destruct (run_stable Gb Ga Hm Hc Hd B s0 (Forall_nil _) (svst_nil Gb Ga) AGb) as [STe [STb STf]]. fold eb in STe.
  destruct (run_args Gb Ga B s0 AGb) as [ARp ARb].
  (* the entries of A are sound under Ga *)
  assert (EA : Forall (entry_sound Ga) ea).
  { apply (entries_sel Ga (fun x => memN x (privs eb ea)) A 0%nat (mems Ga 0) s0 Ka Ma Sa); [|exact SA].
    intros [x psa] Ie Px. cbn [fst] in Px. fold ea in Ie.
    assert (Kx : In x (keys ea)) by (unfold keys; apply in_map_iff; exists (x, psa); split; [reflexivity | exact Ie]).
    destruct (sfind_keys eb x (privs_common eb ea x Kx Px)) as [psb Fb].
    rewrite forallb_forall in C7. specialize (C7 (x, psa) Ie). cbn [fst snd] in C7. rewrite Fb in C7.
    apply (list_eqb_eq prov_eqb prov_eqb_eq) in C7. subst psa.
    pose proof (sfind_In eb x psb Fb) as Ib.
    rewrite Forall_forall in EB. specialize (EB _ Ib).
    rewrite Forall_forall in STe. specialize (STe _ Ib). cbn [snd] in STe.
    intros j Hj. specialize (EB j Hj). cbn [fst snd] in *. rewrite <- (Hag x Px). rewrite EB.
    apply (Forall_nth_d (pst Gb Ga)); [exact STe | reflexivity]. }
  (* the opaque instructions of A satisfy their equations under Ga *)
  assert (PA : Forall (pure_ok Ga) (spures s0 A)).
  { rewrite <- (list_eqb_eq pure_eqb pure_eqb_eq _ _ C4).
    apply Forall_forall. intros [[id args] outs] Ir.
    rewrite Forall_forall in PB. specialize (PB _ Ir). rewrite Forall_forall in ARp. specialize (ARp _ Ir).
    cbn [fst snd] in ARp. apply Forall_app in ARp as [Aa Ao]. cbn [pure_ok] in *.
    rewrite <- (aval_agree Gb Ga Hl args Aa), <- Hp, <- PB.
    clear - Ao. induction Ao as [|o t Ho _ IH]; [reflexivity|]. cbn [map]. unfold ag in Ho. rewrite Ho, IH. reflexivity. }
  split; [apply (proj2 (run_iff Ga A 0%nat (mems Ga 0) s0 Ka Ma Sa)); split; assumption|].
  destruct (run_obs Gb B 0%nat (mems Gb 0) s0 Kb Mb Sb EB) as [OB [FKb FMb]].
  destruct (run_obs Ga A 0%nat (mems Ga 0) s0 Ka Ma Sa EA) as [OA [FKa FMa]].
  split; [|split].
  - apply (obs_combine Gb Ga _ _ (sbars s0 B) (sbars s0 A) Hl OB OA (list_eqb_Forall2 _ _ _ C1)); [|exact ARb].
    apply Forall_forall. intros r Ir q a. rewrite Forall_forall in STb. apply (lookup_stable Gb Ga Hm Hc Hd). apply STb. exact Ir.
  - rewrite FKb, FKa. apply Nat.eqb_eq. exact C2.
  - intros r a. rewrite (FMb r a), (FMa r a). rewrite FKb, FKa. apply Nat.eqb_eq in C2. rewrite <- C2.
    rewrite (lookup_stable Gb Ga Hm Hc Hd _ _ STf). rewrite (mem_eqb_eq _ _ _ C3 r a). reflexivity.
Qed.
