(* C14 -- MemMergePass: the per-invocation validator is sound (definitions: MemSym.v). *)
From Coq Require Import ZArith NArith Bool List String Lia.
From Verif Require Import Base.Word256 Base.PyInt C14MM.MemSym C14MM.MemSymProofs C14MM.GenCopy C14MM.CopyModel C14MM.CopyProofs.
Import ListNotations.
Open Scope Z_scope.

(* If the validator accepts the memory programs of a block before (B) and after (A) the pass, then for every initial
   memory, every memory left behind by the barrier instructions, every calldata, data section, label valuation and every
   behaviour of the opaque instructions: given a valuation consistent with B (all load and opaque-instruction equations
   hold), any valuation that agrees with it outside the variables loaded on one side only and satisfies A's equations for
   those variables is consistent with A, and the two runs make the same observations at every barrier (same instruction,
   same operand values, same memory everywhere) and end with the same memory. *)
Theorem memmerge_check_sound : forall B A, mm_check B A = true ->
  forall Gb Ga,
  (forall k r a, mems Gb k r a = mems Ga k r a) -> (forall o, cdat Gb o = cdat Ga o) -> (forall o, ddat Gb o = ddat Ga o) ->
  (forall l, lblv Gb l = lblv Ga l) -> (forall id l, fpure Gb id l = fpure Ga id l) ->
  (forall x, memN x (privs (sents s0 B) (sents s0 A)) = false -> cv Gb x = cv Ga x) ->
  csat Gb (0%nat, mems Gb 0) B ->
  csat_sel (fun x => memN x (privs (sents s0 B) (sents s0 A))) Ga (0%nat, mems Ga 0) A ->
  csat Ga (0%nat, mems Ga 0) A /\
  Forall2 obs_eq (cobss Gb (0%nat, mems Gb 0) B) (cobss Ga (0%nat, mems Ga 0) A) /\
  fst (cfinal Gb (0%nat, mems Gb 0) B) = fst (cfinal Ga (0%nat, mems Ga 0) A) /\
  forall r a, snd (cfinal Gb (0%nat, mems Gb 0) B) r a = snd (cfinal Ga (0%nat, mems Ga 0) A) r a.
Proof. exact mm_check_sound_main. Qed.
Print Assumptions memmerge_check_sound.

(* the interval kernel (`_Copy.can_merge` / `_Copy.merge`, translated from the source on every run) *)
Theorem memmerge_copy_ext_sound : forall s o M f, merged s o = Ok M -> 0 <= c_len s -> 0 <= c_len o ->
  forall m a, apply_ext f o (apply_ext f s m) a = apply_ext f M m a /\ apply_ext f s (apply_ext f o m) a = apply_ext f M m a.
Proof. exact copy_merge_ext_sound. Qed.
Print Assumptions memmerge_copy_ext_sound.
Theorem memmerge_copy_mem_sound : forall s o M, merged s o = Ok M -> 0 <= c_len s -> 0 <= c_len o ->
  disjoint_b (c_dst s) (c_len s) (c_src o) (c_len o) = true ->
  forall m a, apply_mem o (apply_mem s m) a = apply_mem M m a.
Proof. exact copy_merge_mem_sound. Qed.
Print Assumptions memmerge_copy_mem_sound.
Theorem memmerge_copy_mem_sound_rev : forall s o M, merged s o = Ok M -> 0 <= c_len s -> 0 <= c_len o ->
  disjoint_b (c_dst o) (c_len o) (c_src s) (c_len s) = true ->
  forall m a, apply_mem s (apply_mem o m) a = apply_mem M m a.
Proof. exact copy_merge_mem_sound_rev. Qed.
Print Assumptions memmerge_copy_mem_sound_rev.
Theorem memmerge_copy_mem_needs_hazard_check :
  exists s o M m a, merged s o = Ok M /\ apply_mem o (apply_mem s m) a <> apply_mem M m a.
Proof. exact copy_merge_mem_needs_hazard_check. Qed.
Theorem memmerge_merge_total : forall s o, can_merge_c s o = Ok true -> c_dst s <= c_dst o -> exists M, merged s o = Ok M.
Proof. exact merge_total. Qed.

(* non-vacuity.  %0 = mload 0 ; mstore 100,%0 ; %1 = mload 32 ; mstore 132,%1 ; sha3(barrier)  ==>  mcopy 100,0,64 ; sha3 *)
Definition ex_B : list mi :=
  [MLoad 0%N 0%N 0; MStoreV 0%N 100 0%N; MLoad 1%N 0%N 32; MStoreV 0%N 132 1%N; MBarrier 9%N [ALit 0; ALit 200]].
Definition ex_A : list mi := [MCopy 0%N 100 (SMem 0%N 0) 64; MBarrier 9%N [ALit 0; ALit 200]].
Example ex_accepts : mm_check ex_B ex_A = true /\ mm_check ex_A ex_B = true.
Proof. split; vm_compute; reflexivity. Qed.
(* a read of the destination between the two copies: merging them (delaying the first) is rejected *)
Definition ex_B2 : list mi :=
  [MCopy 0%N 100 (SMem 0%N 0) 32; MLoad 5%N 0%N 100; MCopy 0%N 132 (SMem 0%N 32) 32; MPure 3%N [AVar 5%N] []].
Definition ex_A2 : list mi := [MLoad 5%N 0%N 100; MCopy 0%N 100 (SMem 0%N 0) 64; MPure 3%N [AVar 5%N] []].
Example ex_rejects : mm_check ex_B2 ex_A2 = false.
Proof. vm_compute. reflexivity. Qed.
(* memmove hazard: the second copy reads what the first wrote; merging both into one mcopy is rejected *)
Example ex_rejects_memmove :
  mm_check [MCopy 0%N 32 (SMem 0%N 0) 32; MCopy 0%N 64 (SMem 0%N 32) 32] [MCopy 0%N 32 (SMem 0%N 0) 64] = false.
Proof. vm_compute. reflexivity. Qed.
(* the hypotheses are satisfiable: with an all-zero memory and all-zero valuation ex_B is consistent *)
Definition ex_G : ctx := mkCtx (fun _ => 0) (fun _ _ _ => 0) (fun _ => 0) (fun _ => 0) (fun _ => 0) (fun _ _ => []).
Example ex_csat : csat ex_G (0%nat, mems ex_G 0) ex_B.
Proof.
  cbn [csat ex_B]. repeat split; try exact I;
    intros j Hj; cbn in Hj; repeat (destruct Hj as [<-|Hj]; [vm_compute; reflexivity|]); contradiction.
Qed.
