(* C14MM -- copies as (src, dst, length) on a byte-addressed memory; the merged copy of `_Copy.merge`.  Definitions only;
   `can_merge`/`merge_len` are the py2coq translation of the methods of `_Copy` (GenCopy.v, regenerated every run). *)
From Coq Require Import ZArith Bool List.
From Verif Require Import Base.PyInt C14MM.MemSym C14MM.GenCopy.
Open Scope Z_scope.

Record copy := mkC { c_src : Z; c_dst : Z; c_len : Z }.

(* copy from an immutable source f (calldata, data section, zeros) *)
Definition apply_ext (f : Z -> Z) (c : copy) (m : Z -> Z) : Z -> Z :=
  fun a => if inrange a (c_dst c) (c_len c) then f (c_src c + (a - c_dst c)) else m a.
(* mcopy: the source is the memory before the copy (memmove semantics) *)
Definition apply_mem (c : copy) (m : Z -> Z) : Z -> Z := apply_ext m c m.

Definition can_merge_c (s o : copy) : res bool := can_merge (c_src s) (c_dst s) (c_len s) (c_src o) (c_dst o) (c_len o).
Definition merged (s o : copy) : res copy :=
  L <- merge_len (c_src s) (c_dst s) (c_len s) (c_src o) (c_dst o) (c_len o) ;; Ok (mkC (c_src s) (c_dst s) L).

Definition disjoint_b (o1 n1 o2 n2 : Z) : bool := (n1 <=? 0) || (n2 <=? 0) || (o1 + n1 <=? o2) || (o2 + n2 <=? o1).
